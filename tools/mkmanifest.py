#!/usr/bin/env python3
"""Regenerate MANIFEST.json from the table below (keeps it valid at all times)."""
import json
import os

HERE = os.path.dirname(os.path.dirname(os.path.abspath(__file__)))
PROPS = [json.loads(l)["id"] for l in open(os.path.join(HERE, "properties.jsonl"))]

CLAIMED = {
    "C03": dict(
        category="proof",
        text="Kernel-decided (vm_compute, exhaustive over the finite tables regenerated from /repo each run): every tabulated "
             "operation list is a group modulo lattice translations with identity first, no duplicates, det +-1, counts, crystal "
             "system, centring letter and number range consistent. Lattice-compatibility: theorem over ALL real cells that a cell "
             "whose metric is invariant under every operation satisfies the rule translated from isSpaceGroupLatPar; rejection "
             "of lower-system cells only on generic witnesses (partial).",
        design_ref="DESIGN.md section 2, C03",
        note="Trusted: Coq kernel/vm_compute; translate/sgtables.py and translate/latrules.py (validated against the live module "
             "objects each run); Reals axioms (sig_forall_dec, sig_not_dec, functional_extensionality_dep) under the latpar theorems; "
             "float == modelled as real equality; IT number checked only against the system's range.",
        technique="Coq proof: vm_compute decision over regenerated tables + real-number soundness theorem of a rule checker",
    ),
}

FRAG = os.path.join(HERE, "manifest.d")
if os.path.isdir(FRAG):
    for f in sorted(os.listdir(FRAG)):
        if f.endswith(".json"):
            j = json.load(open(os.path.join(FRAG, f)))
            CLAIMED[j["property_id"]] = dict(category=j["category"], text=j["text"], design_ref=j.get("design_ref", "DESIGN.md section 2"),
                                             note=j["note"], technique=j.get("technique", ""))

NOT_YET = "check not built yet in this round; planned per DESIGN.md section 2"


def main():
    checks = []
    for pid in PROPS:
        if pid in CLAIMED:
            c = CLAIMED[pid]
            checks.append({
                "property_id": pid,
                "quick_cmd": "./check %s --tier quick" % pid,
                "thorough_cmd": "./check %s --tier thorough" % pid,
                "evidence_file": "/verif/evidence/%s.json" % pid,
                "replay_cmd_template": "./check %s --replay {path}" % pid,
                "engine": "coq-model",
                "level_claimed": {"category": c["category"], "text": c["text"], "design_ref": c["design_ref"]},
                "level_note": c["note"],
                "technique": c["technique"],
            })
    na = [{"property_id": p, "reason": NOT_YET} for p in PROPS if p not in CLAIMED]
    m = {
        "version": 1,
        "setup_cmd": "./check setup",
        "hooks": {
            "guard": "DIFFPY_STRUCTURE_VERIF",
            "enable": "no source hooks are needed; checks export DIFFPY_STRUCTURE_VERIF=1 and import /repo/src directly",
            "baseline_off_cmd": "cd /repo && /venv/bin/python -m pytest -ra -q -p no:cacheprovider --timeout=900 --continue-on-collection-errors",
            "source_commits": [],
            "add_only": True,
        },
        "engines": [{"name": "coq-model", "path": "/verif/coq", "serves_properties": sorted(CLAIMED),
                     "kind_free_text": "Coq 8.16.1 development: models regenerated from /repo by fail-closed ast translators (coq/Gen) "
                                       "or hand-written and tied by correspondence runs; theorems in coq/Props"}],
        "checks": checks,
        "not_applicable": na,
        "notes": "See DESIGN.md. Known findings: known_findings.json.",
    }
    with open(os.path.join(HERE, "MANIFEST.json"), "w") as f:
        json.dump(m, f, indent=1)
    print("claimed:", sorted(CLAIMED), "unclaimed:", len(na))


if __name__ == "__main__":
    main()
