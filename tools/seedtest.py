#!/usr/bin/env python3
"""Run seeded mutations against the checks, in a scratch worktree (never in /repo).

usage: tools/seedtest.py <seed dir> [check ids ...]     (default check: meta.json "property")
"""
import json
import os
import re
import subprocess
import sys

WT = os.environ.get("SEEDWT", "/tmp/seedwt")


def sh(cmd, **kw):
    p = subprocess.run(cmd, shell=True, stdout=subprocess.PIPE, stderr=subprocess.STDOUT, text=True, **kw)
    return p.returncode, p.stdout


def main():
    d = os.path.abspath(sys.argv[1])
    meta = json.load(open(os.path.join(d, "meta.json")))
    checks = sys.argv[2:] or [meta["property"]]
    if not os.path.isdir(WT):
        sh("git -C /repo worktree add --detach %s main" % WT)
    sh("git -C %s checkout -q --detach main && git -C %s checkout -q -- . && git -C %s clean -fdq" % (WT, WT, WT))
    env = dict(os.environ, PYTHONPATH=WT + "/src", PYTHONHASHSEED="0")
    rc0, base = sh("cd %s && /venv/bin/python -m pytest -q -p no:cacheprovider tests 2>&1 | tail -1" % WT, env=env)
    rcd0, demo0 = sh("cd %s && /venv/bin/python %s/demo.py 2>&1" % (WT, d), env=env)
    rc, out = sh("git -C %s apply %s/patch.diff" % (WT, d))
    if rc != 0:
        print("PATCH DOES NOT APPLY:", out)
        return 2
    rc1, mut = sh("cd %s && /venv/bin/python -m pytest -q -p no:cacheprovider tests 2>&1 | tail -1" % WT, env=env)
    rcd1, demo1 = sh("cd %s && /venv/bin/python %s/demo.py 2>&1" % (WT, d), env=env)
    res = {"seed": os.path.basename(d), "suite_base": base.strip(), "suite_mut": mut.strip(), "demo_base_rc": rcd0, "demo_mut_rc": rcd1, "checks": {}}
    for c in checks:
        rcc, o = sh("cd /verif && mkdir -p /tmp/seed_evidence && VERIF_EVIDENCE_DIR=/tmp/seed_evidence VERIF_REPO=%s ./check %s 2>&1" % (WT, c))
        viol = re.findall(r"^VIOLATION.*$", o, re.M)
        broken = re.findall(r"BROKEN obligation: (\S+)", o)
        what = re.findall(r"->\s*(.*)", o)
        res["checks"][c] = {"exit": rcc, "violations": len(viol), "no_input": sum("no-failing-input-found" in v for v in viol),
                            "broken": sorted(set(broken))[:8], "first": (what[0][:200] if what else "")}
    sh("git -C %s checkout -q -- . && git -C %s clean -fdq" % (WT, WT))
    print(json.dumps(res, indent=1))
    return 0


if __name__ == "__main__":
    sys.exit(main())
