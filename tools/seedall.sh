#!/bin/bash
# run every seeded mutation in /verif/seeded against its property's check (plus extra checks listed in meta "also")
cd /verif
for d in seeded/*/; do
  id=$(basename $d)
  [ -f "$d/meta.json" ] || continue
  if [ -n "$1" ] && [[ "$id" != $1* ]]; then continue; fi
  python3 tools/seedtest.py $d $(python3 -c "import json;m=json.load(open('$d/meta.json'));print(' '.join([m['property']]+m.get('also',[])))") > $d/result.json 2>&1
  python3 - "$d" <<'PY'
import json,sys
try:
    r=json.load(open(sys.argv[1]+'/result.json'))
    ck='; '.join('%s: exit %s, %d violation(s)%s'%(c,v['exit'],v['violations'],' (no-failing-input-found)' if v['no_input'] and v['no_input']==v['violations'] else '') for c,v in r['checks'].items())
    print(r['seed'],'| suite',r['suite_mut'][:21],'| demo base/mut rc',r['demo_base_rc'],r['demo_mut_rc'],'|',ck)
except Exception as e:
    print(sys.argv[1],'ERROR',e)
PY
done
