#!/usr/bin/env python3
"""Regenerate coq/Model/C04_Pinned.v from the CURRENT coq/Gen/C04_FmtSpecs.v (run after reviewing a
deliberate format change).  Usage: python3 tools/c04_pin.py"""
import os
import re

HERE = os.path.dirname(os.path.dirname(os.path.abspath(__file__)))
g = open(os.path.join(HERE, "coq", "Gen", "C04_FmtSpecs.v")).read()
defs = dict(re.findall(r"^Definition (\w+) : [^:=]+ := (.*)\.$", g, re.M))


def entries(listname):
    body = re.search(r"Definition %s .*? := \[(.*)\]\.$" % listname, g, re.M).group(1)
    return re.findall(r'\("(\w+)", ', body)


def natval(n):
    v = defs[n]
    if v.startswith("("):
        return "[%s]" % v.strip("()").replace(",", ";")
    if v in ("true", "false"):
        return "[%d]" % (1 if v == "true" else 0)
    if v.startswith("["):
        return v
    return "[%s]" % v


out = '''(* C04 - the format descriptors of the verified tree, pinned: what "the precision the format prints"
   and the record layout meant when the round-trip theorems were established.  A change of any width,
   precision, literal or slice in parsers/p_*.py makes Props/C04.v:C04_formats_pinned fail; the finder then
   searches the real code for a value that no longer survives to the pinned precision.
   Regenerate (deliberately) with  python3 tools/c04_pin.py  after reviewing the change. *)
From Coq Require Import List String.
From DS Require Import Base.C04_Text Model.C04_Fmt.
Import ListNotations.
Local Open Scope string_scope.

Definition pinned_specs : list (string * list fitem) := [%s].
Definition pinned_lits : list (string * str) := [%s].
Definition pinned_nats : list (string * list nat) := [%s].
''' % ("; ".join('("%s", %s)' % (n, defs[n]) for n in entries("all_specs")),
       "; ".join('("%s", %s)' % (n, defs[n]) for n in entries("all_lits")),
       "; ".join('("%s", %s)' % (n, natval(n)) for n in entries("all_nats")))
open(os.path.join(HERE, "coq", "Model", "C04_Pinned.v"), "w").write(out)
print("pinned %d descriptors" % len(entries("all_specs")))
