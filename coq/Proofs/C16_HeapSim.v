(* C16 - the abstract transaction model simulates the heap model.
   abs maps a heap state to the abstract object of Model/C16_ReadWriteTxn.v: the items become atoms with
   a_id = heap identity, a_payload = enc (payload tag) for an arbitrary enc : pay -> Z, a_lat = code of
   the lattice reference; the instance dictionary is the `_lattice` entry built from the OStruct lat
   field, followed by the non-heap entries.  For every statement between the parse and the return the
   heap statement followed by abs equals abs followed by the abstract transformer - EXACTLY, no renaming
   of identities is needed, because the abstract model is given the heap's own allocation point
   (next identity = length of the heap) and numbers its copies consecutively as alloc_cell does. *)
From Coq Require Import Ascii String.
From Coq Require Import List ZArith Bool Arith Lia.
From DS Require Import Model.C08_StructHeap Proofs.C08_Lists Proofs.C08_Prims Proofs.C08_Inv Proofs.C08_Step Proofs.C08_Spec.
From DS Require Import Model.C16_Heap Gen.C16_RW Proofs.C16_HeapCore Proofs.C16_HeapBridge.
From DS Require Proofs.C16_Dict.
Import ListNotations.
Open Scope nat_scope.

Section Abs.
  Variable enc : pay -> Z.

  Definition lcode (l : option lid) : Z := match l with Some k => Z.of_nat k + 1 | None => 0 end.
  Definition abs_atom (w : world) (a : aid) : T.atom :=
    {| T.a_id := Z.of_nat a; T.a_payload := enc (tag_of w a); T.a_lat := lcode (lat_of w a) |}.
  Definition lat_value (cells : list (lid * Z)) (L : lid) : T.value := T.VLat (lcode (Some L)) (cell_of cells L).
  Definition abs (s : hstate) : T.obj :=
    {| T.o_cls := T.o_cls (hs_meta s);
       T.o_items := map (abs_atom (hs_world s)) (self_items s);
       T.o_inst := ("_lattice"%string,
                    if hs_latnone s then T.VNone
                    else match self_lat s with Some L => lat_value (hs_cells s) L | None => T.VNone end)
                   :: T.o_inst (hs_meta s) |}.
  (* the parser's result object as the abstract model sees it *)
  Definition abs_parsed (s : hstate) : T.parsed :=
    {| T.p_cls := T.CStructure;
       T.p_items := map (abs_atom (hs_world s)) (new_items s);
       T.p_inst := ("_lattice"%string, match new_lat s with Some L => lat_value (hs_cells s) L | None => T.VNone end)
                   :: hs_new_meta s |}.

  (* the non-heap dictionaries never carry a _lattice entry *)
  Definition meta_ok (s : hstate) : Prop :=
    T.lookup "_lattice" (T.o_inst (hs_meta s)) = None /\ T.lookup "_lattice" (hs_new_meta s) = None.

  (* ---------- dictionary facts with the _lattice entry in front ---------- *)
  Lemma remove_front : forall a (v : T.value) d, String.eqb a "_lattice" = false ->
    T.remove a (("_lattice"%string, v) :: d) = ("_lattice"%string, v) :: T.remove a d.
  Proof. intros a v d H. simpl. rewrite H. reflexivity. Qed.
  Lemma dset_front : forall a (x v : T.value) d, String.eqb a "_lattice" = false ->
    T.dset a x (("_lattice"%string, v) :: d) = ("_lattice"%string, v) :: T.dset a x d.
  Proof. intros a x v d H. simpl. rewrite H. reflexivity. Qed.
  Lemma lookup_front : forall a (v : T.value) d, String.eqb a "_lattice" = false ->
    T.lookup a (("_lattice"%string, v) :: d) = T.lookup a d.
  Proof. intros a v d H. simpl. rewrite H. reflexivity. Qed.
  Lemma update_front : forall (nm : T.dict) (v : T.value) d, T.lookup "_lattice" nm = None ->
    T.update (("_lattice"%string, v) :: d) nm = ("_lattice"%string, v) :: T.update d nm.
  Proof.
    unfold T.update. induction nm as [|[k x] r IH]; intros v d H; [reflexivity|].
    cbn [fold_left fst snd]. cbn [T.lookup] in H.
    destruct (String.eqb "_lattice" k) eqn:E; [discriminate H|].
    cbn [T.dset]. rewrite String.eqb_sym, E. apply IH. exact H.
  Qed.

  (* ---------- one lemma per statement ---------- *)
  Ltac red_s := cbn -[T.remove T.dset T.update T.lookup String.eqb get_struct set_obj cell_of].

  Lemma sim_drop : forall a s, String.eqb a "_lattice" = false -> abs (h_drop a s) = T.drop_inst a (abs s).
  Proof.
    intros a [w self new nm m ln cells sg] H. unfold h_drop. rewrite H. unfold abs, T.drop_inst, T.with_inst, with_meta, self_items, self_lat. red_s.
    rewrite remove_front by exact H. reflexivity.
  Qed.

  Lemma sim_init : forall dc n s, hs_latnone s = false -> self_lat s <> None ->
    abs (h_init dc s) = T.init_self dc n (abs s) /\ T.init_next n (abs s) = n.
  Proof.
    intros dc n s H L. unfold h_init. rewrite H. unfold T.init_self, T.init_next, T.getattr, abs. red_s. rewrite H.
    destruct (self_lat s); [|contradiction]. split; reflexivity.
  Qed.

  Lemma sim_title : forall t s, abs (h_title t s) = T.default_title t (abs s).
  Proof.
    intros t [w self new nm m ln cells sg]. unfold h_title, T.default_title, T.title_value, T.getattr, abs, T.with_inst, with_meta, self_items, self_lat. red_s.
    rewrite lookup_front by reflexivity.
    destruct (T.lookup "title" (T.o_inst m)) as [v|]; red_s; [destruct (T.truthy v)|]; try reflexivity; rewrite dset_front by reflexivity; reflexivity.
  Qed.

  Lemma sim_restore : forall d s, abs (h_restore d s) = T.restore_pdffit d (abs s).
  Proof.
    intros d [w self new nm m ln cells sg]. unfold h_restore, T.restore_pdffit, T.getattr, abs, T.with_inst, with_meta, self_items, self_lat. red_s.
    rewrite lookup_front by reflexivity.
    destruct (T.lookup "pdffit" (T.o_inst m)) as [[]|]; red_s; try reflexivity; rewrite dset_front by reflexivity; reflexivity.
  Qed.

  Lemma sim_spcgr : forall s g, hs_sg s = Some g ->
    option_map abs (h_spcgr s) = T.update_spcgr g (abs s).
  Proof.
    intros [w self new nm m ln cells sg] g H. unfold h_spcgr. cbn [hs_sg] in H. cbn [hs_sg]. rewrite H.
    unfold T.update_spcgr, T.getattr, abs, T.with_inst, with_meta, self_items, self_lat. red_s.
    rewrite lookup_front by reflexivity.
    destruct (T.lookup "pdffit" (T.o_inst m)) as [[]|]; red_s; try reflexivity; rewrite dset_front by reflexivity; reflexivity.
  Qed.

  (* self.__dict__.update(new.__dict__) *)
  Lemma sim_update : forall s nh old L0 nits Ln, meta_ok s -> hs_new s = Some nh -> nh <> hs_self s ->
    get_struct (hs_world s) (hs_self s) = Some (old, L0) -> get_struct (hs_world s) nh = Some (nits, Ln) ->
    abs (h_update s) = T.update_dict (abs_parsed s) (abs s).
  Proof.
    intros s nh old L0 nits Ln [M1 M2] Hn Hne Hs Hg.
    assert (Hself' : get_struct (set_obj (hs_self s) (OStruct old Ln) (hs_world s)) (hs_self s) = Some (old, Ln)).
    { unfold get_struct, get_obj in *. rewrite nth_error_set_obj, Nat.eqb_refl.
      destruct (nth_error (objs (hs_world s)) (hs_self s)) as [[]|]; try discriminate. reflexivity. }
    unfold h_update. rewrite Hn, Hs, Hg.
    unfold abs, T.update_dict, T.with_inst, abs_parsed, self_items, self_lat, new_lat. red_s.
    rewrite Hself', Hs, Hn, Hg. red_s. f_equal.
    change (T.update (("_lattice"%string, if hs_latnone s then T.VNone else lat_value (hs_cells s) L0) :: T.o_inst (hs_meta s))
                     (("_lattice"%string, lat_value (hs_cells s) Ln) :: hs_new_meta s))
      with (T.update (T.dset "_lattice" (lat_value (hs_cells s) Ln)
                        (("_lattice"%string, if hs_latnone s then T.VNone else lat_value (hs_cells s) L0) :: T.o_inst (hs_meta s)))
                     (hs_new_meta s)).
    cbn [T.dset]. rewrite String.eqb_refl. rewrite update_front by exact M2. reflexivity.
  Qed.

  (* ---------- self[:] = new ---------- *)
  (* the identities alloc_cell hands out: a kept atom keeps its own, the k-th copy gets n + k *)
  Fixpoint ids_of (srcs : list src) (n : nat) : list aid :=
    match srcs with
    | [] => []
    | Keep a :: r => a :: ids_of r n
    | _ :: r => n :: ids_of r (S n)
    end.

  Lemma repoint_heap_length : forall owner L a w, length (heap (repoint owner L a w)) = length (heap w).
  Proof. intros. unfold repoint, set_cell_lat, flag_repoint. simpl. apply upd_nth_length. Qed.

  Lemma realize_ids : forall srcs owner L w ids w', realize owner L srcs w = (ids, w') -> ids = ids_of srcs (length (heap w)).
  Proof.
    induction srcs as [|sr r IH]; intros owner L w ids w' H; simpl in H.
    - inversion H. reflexivity.
    - destruct (realize1 owner L sr w) as [a w1] eqn:E1. destruct (realize owner L r w1) as [ids' w2] eqn:E2.
      inversion H; subst. pose proof (IH _ _ _ _ _ E2) as R. destruct sr; simpl in E1; inversion E1; subst; simpl.
      + rewrite upd_nth_length. reflexivity.
      + rewrite app_length, Nat.add_1_r. reflexivity.
      + rewrite app_length, Nat.add_1_r. reflexivity.
  Qed.

  Lemma has_id_abs : forall w a old, T.has_id (Z.of_nat a) (map (abs_atom w) old) = memb a old.
  Proof.
    intros w a old. unfold T.has_id, memb. induction old as [|b r IH]; simpl; [reflexivity|]. rewrite IH. f_equal.
    destruct (Nat.eqb a b) eqn:E.
    - apply Nat.eqb_eq in E. subst. apply Z.eqb_refl.
    - apply Nat.eqb_neq in E. apply Z.eqb_neq. lia.
  Qed.

  Lemma copy_items_ids : forall w old l nits n,
    map T.a_id (fst (T.copy_items (map (abs_atom w) old) l (Z.of_nat n) (map (abs_atom w) nits)))
    = map Z.of_nat (ids_of (setall_srcs old nits) n).
  Proof.
    intros w old l nits. induction nits as [|a r IH]; intros n; simpl; [reflexivity|].
    rewrite has_id_abs. destruct (memb a old).
    - specialize (IH n). destruct (T.copy_items _ l (Z.of_nat n) (map (abs_atom w) r)); simpl in *. f_equal. exact IH.
    - specialize (IH (S n)). replace (Z.of_nat n + 1)%Z with (Z.of_nat (S n)) by lia.
      destruct (T.copy_items _ l (Z.of_nat (S n)) (map (abs_atom w) r)); simpl in *. f_equal. exact IH.
  Qed.

  Lemma atoms_ext : forall l1 l2 : list T.atom,
    map T.a_id l1 = map T.a_id l2 -> map T.a_payload l1 = map T.a_payload l2 -> map T.a_lat l1 = map T.a_lat l2 -> l1 = l2.
  Proof.
    induction l1 as [|[i p l] r IH]; intros [|[i' p' l'] r'] H1 H2 H3; simpl in *; try discriminate; [reflexivity|].
    inversion H1; inversion H2; inversion H3; subst. f_equal. apply IH; assumption.
  Qed.

  Lemma lat_list : forall (l : Z) (xs : list T.atom) (ids : list aid), length xs = length ids ->
    Forall (fun a => T.a_lat a = l) xs -> map (fun _ : aid => l) ids = map T.a_lat xs.
  Proof.
    intros l xs. induction xs as [|a r IH]; intros [|x ids] Hlen F; simpl in *; try discriminate; [reflexivity|].
    inversion F as [|a' r' Ha Hr]; subst a' r'. rewrite Ha. f_equal. apply IH; [lia | exact Hr].
  Qed.

  Lemma setall_ids : forall w self nh old L nits Ln,
    get_struct w self = Some (old, L) -> get_struct w nh = Some (nits, Ln) ->
    exists its, get_struct (h_setall_world self nh w) self = Some (its, L) /\
                its = ids_of (setall_srcs old nits) (length (heap w)).
  Proof.
    intros w self nh old L nits Ln Hs Hn.
    assert (Ho : nth_error (objs w) self = Some (OStruct old L)).
    { unfold get_struct, get_obj in Hs. destruct (nth_error (objs w) self) as [[]|]; inversion Hs; reflexivity. }
    assert (Hno : get_obj w nh = Some (OStruct nits Ln)).
    { unfold get_struct in Hn. destruct (get_obj w nh) as [[]|]; inversion Hn; reflexivity. }
    unfold h_setall_world. rewrite Hs, Hno. cbn [obj_items].
    destruct (realize (Some self) L (setall_srcs old nits) w) as [ids w1] eqn:Er.
    rewrite (install_eq _ _ _ _ _ _ _ _ Ho Er).
    exists ids. split; [|exact (realize_ids _ _ _ _ _ _ Er)].
    unfold get_struct, get_obj. rewrite nth_error_set_obj, Nat.eqb_refl. simpl.
    assert (objs w1 = objs w) as ->.
    { clear -Er. revert w ids w1 Er. induction (setall_srcs old nits) as [|sr r IH]; intros w ids w1 Er; simpl in Er.
      - inversion Er. reflexivity.
      - destruct (realize1 (Some self) L sr w) as [a w0] eqn:E1. destruct (realize (Some self) L r w0) as [ids' w2] eqn:E2.
        inversion Er; subst. rewrite (IH _ _ _ E2). destruct sr; simpl in E1; inversion E1; reflexivity. }
    rewrite Ho. rewrite skipn_all, app_nil_r. reflexivity.
  Qed.

  Lemma set_obj_same : forall w h o, nth_error (objs w) h = Some o -> set_obj h o w = w.
  Proof.
    intros [hp nl ob fr fd] h o H. unfold set_obj. simpl in *. f_equal.
    revert h H. induction ob as [|x r IH]; intros [|h] H; simpl in *; try discriminate.
    - inversion H. reflexivity.
    - f_equal. apply IH. exact H.
  Qed.

  (* after the dictionary update the target's lattice is the result's; then the item list is replaced *)
  Lemma sim_setall : forall s nh old nits L, wf (hs_world s) -> hs_latnone s = false ->
    hs_new s = Some nh -> nh <> hs_self s ->
    get_struct (hs_world s) (hs_self s) = Some (old, L) -> get_struct (hs_world s) nh = Some (nits, L) ->
    abs (h_setall s) = T.set_all_items (abs_parsed s) (Z.of_nat (length (heap (hs_world s)))) (abs s).
  Proof.
    intros [w self new nm m ln cells sg] nh old nits L Hwf Hl Hn Hne Hs Hg. cbn [hs_world hs_self hs_new hs_latnone] in *. subst new ln.
    assert (Ho : nth_error (objs w) self = Some (OStruct old L)).
    { unfold get_struct, get_obj in Hs. destruct (nth_error (objs w) self) as [[]|]; inversion Hs; reflexivity. }
    destruct (update_then_setall w self nh old L nits L Hwf Hs Hg Hne) as [ids C].
    rewrite (set_obj_same w self _ Ho) in C. destruct C as [C1 C2 C3 _ _ _ _ _ _].
    destruct (setall_ids w self nh old L nits L Hs Hg) as [its [I1 I2]]. rewrite C1 in I1. inversion I1; subst its.
    unfold h_setall, T.set_all_items, T.with_items, abs, abs_parsed, with_world, self_items, self_lat, new_items, new_lat, T.lat_id, T.getattr.
    cbn [hs_world hs_self hs_new hs_latnone hs_meta hs_cells T.o_cls T.o_items T.o_inst T.p_items T.lookup].
    rewrite C1, Hs, Hg. cbn [String.eqb Ascii.eqb Bool.eqb]. cbn iota. f_equal.
    apply atoms_ext.
    - rewrite copy_items_ids. rewrite map_map. cbn [T.a_id abs_atom]. rewrite <- H0. reflexivity.
    - rewrite C16_Dict.copy_items_payloads. rewrite !map_map. cbn [T.a_payload abs_atom].
      rewrite <- (map_map (tag_of _) enc), C3, map_map. reflexivity.
    - pose proof (C16_Dict.copy_items_lattice (map (abs_atom w) old) (lcode (Some L)) (Z.of_nat (length (heap w))) (map (abs_atom w) nits)) as F.
      assert (Hlen : length (fst (T.copy_items (map (abs_atom w) old) (lcode (Some L)) (Z.of_nat (length (heap w))) (map (abs_atom w) nits))) = length ids).
      { rewrite <- (map_length T.a_id), copy_items_ids, map_length, <- H0. reflexivity. }
      rewrite map_map. cbn [T.a_lat abs_atom].
      transitivity (map (fun _ : aid => lcode (Some L)) ids).
      + apply map_ext_in. intros x Hx. rewrite (C2 x Hx). reflexivity.
      + apply lat_list; [exact Hlen | exact F].
  Qed.
End Abs.

(* all statements between the parse and the return, in one statement *)
Definition statement_simulation (enc : pay -> Z) : Prop :=
  (forall a s, String.eqb a "_lattice" = false -> abs enc (h_drop a s) = T.drop_inst a (abs enc s)) /\
  (forall dc n s, hs_latnone s = false -> self_lat s <> None ->
     abs enc (h_init dc s) = T.init_self dc n (abs enc s) /\ T.init_next n (abs enc s) = n) /\
  (forall s nh old L0 nits Ln, meta_ok s -> hs_new s = Some nh -> nh <> hs_self s ->
     get_struct (hs_world s) (hs_self s) = Some (old, L0) -> get_struct (hs_world s) nh = Some (nits, Ln) ->
     abs enc (h_update s) = T.update_dict (abs_parsed enc s) (abs enc s)) /\
  (forall s nh old nits L, wf (hs_world s) -> hs_latnone s = false -> hs_new s = Some nh -> nh <> hs_self s ->
     get_struct (hs_world s) (hs_self s) = Some (old, L) -> get_struct (hs_world s) nh = Some (nits, L) ->
     abs enc (h_setall s) = T.set_all_items (abs_parsed enc s) (Z.of_nat (length (heap (hs_world s)))) (abs enc s)) /\
  (forall t s, abs enc (h_title t s) = T.default_title t (abs enc s)) /\
  (forall d s, abs enc (h_restore d s) = T.restore_pdffit d (abs enc s)) /\
  (forall s g, hs_sg s = Some g -> option_map (abs enc) (h_spcgr s) = T.update_spcgr g (abs enc s)).

Lemma statements_simulated : forall enc, statement_simulation enc.
Proof.
  intros enc. unfold statement_simulation. repeat split.
  - apply sim_drop.
  - apply (proj1 (sim_init enc dc n s H H0)).
  - apply (proj2 (sim_init enc dc n s H H0)).
  - intros. eapply sim_update; eassumption.
  - intros. eapply sim_setall; eassumption.
  - apply sim_title.
  - apply sim_restore.
  - apply sim_spcgr.
Qed.
