(* C11 - text form of symmetry operations: every rendering of the grammar below is read back as the
   operation it denotes (rotation rows exactly, translations as rationals modulo 1), for unbounded numerals;
   what is accepted consists of numeric characters only. *)
From Coq Require Import List Bool Ascii NArith ZArith QArith Qround Lia.
From DS Require Import Base.C04_Text Base.C04_Decimal Model.C11_SymText.
Import ListNotations.
Local Open Scope Q_scope.

(* ------------------------------------------------------------------ *)
(* the grammar of renderings                                           *)
(* ------------------------------------------------------------------ *)
Definition axis_char (up : bool) (a : nat) : ascii :=
  match a, up with
  | O, false => "x" | O, true => "X" | 1%nat, false => "y" | 1%nat, true => "Y" | _, false => "z" | _, true => "Z"
  end%char.
Definition sign_char (neg : bool) : ascii := if neg then "-"%char else "+"%char.
(* a term: sign, axis, letter case *)
Definition term := (bool * nat * bool)%type.
Definition render_term (t : term) : str := [sign_char (fst (fst t)); axis_char (snd t) (snd (fst t))].
Definition render_terms (ts : list term) : str := flat_map render_term ts.
Definition term_sem (t : term) : bool * nat := (fst (fst t), snd (fst t)).

(* translations: none, a fraction n/d, a decimal ip.fp (either digit list may be empty, not both) *)
Inductive tform := TNone | TFrac (neg : bool) (n d : N) | TDec (neg : bool) (ip fp : list N).
Definition render_nat (n : N) : str := map dchar (digitsN n).
Definition render_t (t : tform) : str :=
  match t with
  | TNone => []
  | TFrac neg n d => sign_char neg :: render_nat n ++ "/"%char :: render_nat d
  | TDec neg ip fp => sign_char neg :: map dchar ip ++ "."%char :: map dchar fp
  end.
Definition t_ok (t : tform) : Prop :=
  match t with
  | TNone => True
  | TFrac _ _ d => (0 < d)%N
  | TDec _ ip fp => Forall lt10 ip /\ Forall lt10 fp /\ (ip <> [] \/ fp <> [])
  end.
Definition sgn (neg : bool) (q : Q) : Q := if neg then - q else q.
Definition t_val (t : tform) : Q :=
  match t with
  | TNone => 0
  | TFrac neg n d => sgn neg (Z.of_N n # posN d)
  | TDec neg ip fp => sgn neg (dec_val ip fp)
  end.
Definition strip_plus (s : str) : str := match s with c :: r => if Ascii.eqb c "+"%char then r else s | [] => [] end.
(* a row: the variable terms (at least one) and the translation, written after or before them;
   a leading plus sign may be dropped *)
Record rowspec := { r_terms : list term; r_t : tform; r_tfirst : bool; r_strip : bool }.
Definition render_row (r : rowspec) : str :=
  let s := if r_tfirst r then render_t (r_t r) ++ render_terms (r_terms r) else render_terms (r_terms r) ++ render_t (r_t r) in
  if r_strip r then strip_plus s else s.
Definition row_ok (r : rowspec) : Prop := r_terms r <> [] /\ Forall (fun t : term => (snd (fst t) < 3)%nat) (r_terms r) /\ t_ok (r_t r).
Definition render_op (r1 r2 r3 : rowspec) : str := render_row r1 ++ ","%char :: render_row r2 ++ ","%char :: render_row r3.

(* ------------------------------------------------------------------ *)
(* characters                                                          *)
(* ------------------------------------------------------------------ *)
Lemma dval_dchar k : lt10 k -> dval (dchar k) = Some k.
Proof. intros H. apply (dchar_props k H). Qed.

Definition plainc (c : ascii) : Prop := axis_of c = None /\ is_sign c = false /\ is_e c = false /\ dval c = None.
Lemma digit_class k : lt10 k -> axis_of (dchar k) = None /\ is_sign (dchar k) = false /\ is_e (dchar k) = false
  /\ Ascii.eqb (dchar k) "."%char = false /\ Ascii.eqb (dchar k) "/"%char = false /\ Ascii.eqb (dchar k) ","%char = false
  /\ Ascii.eqb (dchar k) " "%char = false.
Proof.
  unfold lt10. intros H. assert (In k [0;1;2;3;4;5;6;7;8;9]%N) as E by (cbn; lia).
  repeat (destruct E as [<-|E]; [repeat split; reflexivity|]). destruct E.
Qed.

Lemma span_digits_app l r : Forall lt10 l -> match r with c :: _ => dval c = None | [] => True end ->
  span_digits (map dchar l ++ r) = (l, r).
Proof.
  induction 1 as [|k l Hk Hl IH]; intros Hr; cbn [map app span_digits].
  - destruct r as [|c r]; [reflexivity|]. cbn [span_digits]. rewrite Hr. reflexivity.
  - rewrite (dval_dchar k Hk), (IH Hr). reflexivity.
Qed.
Lemma span_digits_all l : Forall lt10 l -> span_digits (map dchar l) = (l, []).
Proof. intros H. rewrite <- (app_nil_r (map dchar l)). apply span_digits_app; auto. Qed.

(* ------------------------------------------------------------------ *)
(* numbers                                                             *)
(* ------------------------------------------------------------------ *)
Lemma nil_b_false {A} (l : list A) : l <> [] -> nil_b l = false.
Proof. destruct l; [congruence|reflexivity]. Qed.
Lemma pow10Q_0 : pow10Q 0 == 1.
Proof. reflexivity. Qed.
Lemma dec_val_int n : dec_val (digitsN n) [] = inject_Z (Z.of_N n).
Proof. unfold dec_val. rewrite app_nil_r, bval_digitsN. reflexivity. Qed.

Lemma parse_num_frac n d : (0 < d)%N ->
  exists q, parse_num (render_nat n ++ "/"%char :: render_nat d) = Some q /\ q == Z.of_N n # posN d.
Proof.
  intros Hd. unfold parse_num, parse_mant, render_nat.
  rewrite (span_digits_app (digitsN n) ("/"%char :: map dchar (digitsN d)) (digitsN_lt10 n) eq_refl).
  change (Ascii.eqb "/"%char "."%char) with false. cbv iota.
  rewrite (nil_b_false _ (digitsN_nonnil n)).
  cbn [parse_exp]. change (is_e "/"%char) with false. cbv iota.
  cbn [parse_den]. change (Ascii.eqb "/"%char "/"%char) with true. cbv iota.
  rewrite (span_digits_all _ (digitsN_lt10 d)), (nil_b_false _ (digitsN_nonnil d)).
  rewrite !dec_val_int.
  destruct d as [|p]; [lia|]. cbn [Z.of_N posN].
  change (Qeq_bool (inject_Z (Z.pos p)) 0) with false. cbv iota.
  eexists; split; [reflexivity|].
  rewrite pow10Q_0, Qmult_1_r. symmetry. apply Qmake_Qdiv.
Qed.

Lemma dval_dot : dval "."%char = None. Proof. reflexivity. Qed.
Lemma parse_num_dec ip fp : Forall lt10 ip -> Forall lt10 fp -> (ip <> [] \/ fp <> []) ->
  exists q, parse_num (map dchar ip ++ "."%char :: map dchar fp) = Some q /\ q == dec_val ip fp.
Proof.
  intros Hi Hf Hne. unfold parse_num, parse_mant.
  rewrite (span_digits_app ip ("."%char :: map dchar fp) Hi dval_dot).
  change (Ascii.eqb "."%char "."%char) with true. cbv iota.
  rewrite (span_digits_all _ Hf).
  assert (nil_b ip && nil_b fp = false) as ->.
  { destruct Hne as [H|H]; rewrite (nil_b_false _ H); [reflexivity|apply andb_false_r]. }
  cbn [parse_exp parse_den]. eexists; split; [reflexivity|]. rewrite pow10Q_0. apply Qmult_1_r.
Qed.

(* ------------------------------------------------------------------ *)
(* sums of signed numbers                                              *)
(* ------------------------------------------------------------------ *)
Definition numc (c : ascii) : Prop :=
  is_sign c = false /\ is_e c = false /\ axis_of c = None /\ Ascii.eqb c ","%char = false /\ Ascii.eqb c " "%char = false.
Definition body (t : tform) : str :=
  match t with
  | TNone => []
  | TFrac _ n d => render_nat n ++ "/"%char :: render_nat d
  | TDec _ ip fp => map dchar ip ++ "."%char :: map dchar fp
  end.
Definition neg_of (t : tform) : bool := match t with TNone => false | TFrac s _ _ | TDec s _ _ => s end.
Lemma numc_digits l : Forall lt10 l -> Forall numc (map dchar l).
Proof.
  induction 1 as [|k l Hk Hl IH]; constructor; [|exact IH].
  destruct (digit_class k Hk) as (A & B & C & D & E & F & G). repeat split; assumption.
Qed.
Lemma body_numc t : t_ok t -> Forall numc (body t).
Proof.
  destruct t as [|s n d|s ip fp]; cbn [t_ok body]; intros H.
  - constructor.
  - apply Forall_app; split; [apply numc_digits, digitsN_lt10|]. constructor; [repeat split; reflexivity|apply numc_digits, digitsN_lt10].
  - destruct H as (Hi & Hf & _). apply Forall_app; split; [apply numc_digits, Hi|]. constructor; [repeat split; reflexivity|apply numc_digits, Hf].
Qed.
Lemma render_t_body t : t <> TNone -> render_t t = sign_char (neg_of t) :: body t.
Proof. destruct t; [congruence|reflexivity|reflexivity]. Qed.

Lemma chunks_plain b : Forall numc b -> chunks b = [b].
Proof.
  induction 1 as [|c r (Hs & He & _) Hr IH]; [reflexivity|]. cbn [chunks]. rewrite He, Hs, IH. reflexivity.
Qed.
Lemma sign_char_props s : is_sign (sign_char s) = true /\ is_e (sign_char s) = false /\ is_minus (sign_char s) = s /\ axis_of (sign_char s) = None
  /\ Ascii.eqb (sign_char s) ","%char = false /\ Ascii.eqb (sign_char s) " "%char = false /\ dval (sign_char s) = None.
Proof. destruct s; repeat split; reflexivity. Qed.

Lemma parse_num_body t : t_ok t -> t <> TNone -> exists q, parse_num (body t) = Some q /\ sgn (neg_of t) q == t_val t.
Proof.
  destruct t as [|s n d|s ip fp]; cbn [t_ok body neg_of t_val]; intros H Hn; [congruence| |].
  - destruct (parse_num_frac n d H) as (q & E & Hq). exists q; split; [exact E|]. destruct s; cbn [sgn]; rewrite Hq; reflexivity.
  - destruct H as (Hi & Hf & Hne). destruct (parse_num_dec ip fp Hi Hf Hne) as (q & E & Hq). exists q; split; [exact E|].
    destruct s; cbn [sgn]; rewrite Hq; reflexivity.
Qed.
Lemma body_nonnil t : t <> TNone -> body t <> [].
Proof. destruct t as [|s n d|s ip fp]; [congruence| |]; cbn [body]; intros _ E; apply app_eq_nil in E; destruct E; discriminate. Qed.

Lemma tform_eq_none t : t = TNone \/ t <> TNone.
Proof. destruct t; [left; reflexivity|right; discriminate|right; discriminate]. Qed.
Lemma parse_tpart_nil : parse_tpart [] = Some (0 + 0).
Proof. reflexivity. Qed.
Lemma parse_tpart_render t : t_ok t -> exists q, parse_tpart (render_t t) = Some q /\ q == t_val t.
Proof.
  intros H. destruct (tform_eq_none t) as [->|Hn].
  - exists (0 + 0). split; reflexivity.
  - destruct (parse_num_body t H Hn) as (q & E & Hq). rewrite (render_t_body t Hn).
    destruct (sign_char_props (neg_of t)) as (A & B & C & _).
    unfold parse_tpart. cbn [chunks]. rewrite B, A, (chunks_plain _ (body_numc t H)).
    cbn [cons_head nil_b map sum_opt parse_signed]. rewrite A, E, C.
    eexists; split; [reflexivity|]. rewrite <- Hq. unfold sgn. destruct (neg_of t); ring.
Qed.
Lemma parse_tpart_body t : t_ok t -> t <> TNone -> exists q, parse_tpart (body t) = Some q /\ sgn (neg_of t) q == t_val t.
Proof.
  intros H Hn. destruct (parse_num_body t H Hn) as (q & E & Hq).
  unfold parse_tpart. rewrite (chunks_plain _ (body_numc t H)), (nil_b_false _ (body_nonnil t Hn)), E. cbn [map sum_opt].
  eexists; split; [reflexivity|]. rewrite <- Hq. destruct (neg_of t); cbn [sgn]; ring.
Qed.

(* ------------------------------------------------------------------ *)
(* rows                                                                *)
(* ------------------------------------------------------------------ *)
Definition term_ok (t : term) : Prop := (snd (fst t) < 3)%nat.
Lemma axis_char_ok up a : (a < 3)%nat -> axis_of (axis_char up a) = Some a.
Proof. intros H. destruct a as [|[|[|a]]]; [| | |lia]; destruct up; reflexivity. Qed.

Definition prepend (u : str) (a : list str) : list str := match a with h :: t => (u ++ h) :: t | [] => [u] end.
Lemma cons_head_prepend c u a : cons_head c (prepend u a) = prepend (c :: u) a.
Proof. destruct a; reflexivity. Qed.

Lemma rsplit_term t rest : term_ok t ->
  rsplit (render_term t ++ rest) = ([] :: fst (rsplit rest), term_sem t :: snd (rsplit rest)).
Proof.
  destruct t as [[s a] up]. unfold term_ok, render_term, term_sem. cbn [fst snd app]. intros H.
  destruct (sign_char_props s) as (A & _ & C & D & _).
  cbn [rsplit]. rewrite D, A, (axis_char_ok up a H), C. destruct (rsplit rest); reflexivity.
Qed.
Lemma rsplit_terms ts rest : Forall term_ok ts ->
  rsplit (render_terms ts ++ rest) = (repeat [] (length ts) ++ fst (rsplit rest), map term_sem ts ++ snd (rsplit rest)).
Proof.
  induction 1 as [|t ts Ht Hts IH]; [cbn [render_terms flat_map app length repeat map]; destruct (rsplit rest); reflexivity|].
  unfold render_terms in *. cbn [flat_map]. rewrite <- app_assoc, (rsplit_term t _ Ht), IH. reflexivity.
Qed.
Lemma cons_head_nonnil {A} (c : A) l : cons_head c l <> [].
Proof. destruct l; discriminate. Qed.
Lemma rsplit_nonnil_len n : forall s, (length s <= n)%nat -> fst (rsplit s) <> [].
Proof.
  induction n as [|n IH]; intros [|c r] Hl; cbn [length] in Hl; try lia; try (cbn; discriminate).
  cbn [rsplit]. destruct (axis_of c).
  - destruct (rsplit r); cbn; discriminate.
  - destruct (is_sign c).
    + destruct r as [|c2 r2]; [cbn; discriminate|]. destruct (axis_of c2).
      * destruct (rsplit r2); cbn; discriminate.
      * destruct (rsplit (c2 :: r2)); cbn [fst]. apply cons_head_nonnil.
    + destruct (rsplit r); cbn [fst]. apply cons_head_nonnil.
Qed.
Lemma rsplit_nonnil s : fst (rsplit s) <> [].
Proof. apply (rsplit_nonnil_len (length s)). lia. Qed.
Lemma rsplit_plain u rest : Forall numc u -> rsplit (u ++ rest) = (prepend u (fst (rsplit rest)), snd (rsplit rest)).
Proof.
  induction 1 as [|c u (Hs & _ & Ha & _) Hu IH]; cbn [app].
  - pose proof (rsplit_nonnil rest) as Hn. destruct (rsplit rest) as [[|h t] b]; cbn [fst snd prepend app] in *; [congruence|reflexivity].
  - cbn [rsplit]. rewrite Ha, Hs, IH. cbn [fst snd]. rewrite cons_head_prepend. reflexivity.
Qed.
(* a sign followed by a character that is not an axis letter stays in the translation part *)
Lemma rsplit_cons c r : rsplit (c :: r) =
  match axis_of c with
  | Some a => let '(ts, rs) := rsplit r in ([] :: ts, (false, a) :: rs)
  | None => if is_sign c then
              match r with
              | c2 :: r2 => match axis_of c2 with
                            | Some a => let '(ts, rs) := rsplit r2 in ([] :: ts, (is_minus c, a) :: rs)
                            | None => let '(ts, rs) := rsplit r in (cons_head c ts, rs)
                            end
              | [] => ([[c]], [])
              end
            else let '(ts, rs) := rsplit r in (cons_head c ts, rs)
  end.
Proof. reflexivity. Qed.
Lemma rsplit_sign_plain s c u rest : numc c -> Forall numc u ->
  rsplit (sign_char s :: (c :: u) ++ rest) = (prepend (sign_char s :: c :: u) (fst (rsplit rest)), snd (rsplit rest)).
Proof.
  intros Hc Hu. destruct (sign_char_props s) as (A & _ & _ & D & _). pose proof Hc as (_ & _ & Ha & _).
  change ((c :: u) ++ rest) with (c :: (u ++ rest)). rewrite rsplit_cons, D, A, Ha.
  change (c :: (u ++ rest)) with ((c :: u) ++ rest). rewrite (rsplit_plain (c :: u) rest (Forall_cons _ Hc Hu)).
  cbn [fst snd]. rewrite cons_head_prepend. reflexivity.
Qed.

Lemma body_cons t : t_ok t -> t <> TNone -> exists c u, body t = c :: u /\ numc c /\ Forall numc u.
Proof.
  intros H Hn. pose proof (body_numc t H) as F. pose proof (body_nonnil t Hn) as Ne.
  destruct (body t) as [|c u]; [congruence|]. inversion F; subst. exists c, u. split; [reflexivity|split; assumption].
Qed.
Lemma rsplit_render_t t rest : t_ok t -> t <> TNone ->
  rsplit (render_t t ++ rest) = (prepend (render_t t) (fst (rsplit rest)), snd (rsplit rest)).
Proof.
  intros H Hn. rewrite (render_t_body t Hn). destruct (body_cons t H Hn) as (c & u & -> & Hc & Hu).
  cbn [app]. change (c :: u ++ rest) with ((c :: u) ++ rest). exact (rsplit_sign_plain (neg_of t) c u rest Hc Hu).
Qed.
Lemma rsplit_nil : rsplit [] = ([[]], []).
Proof. reflexivity. Qed.

(* style A: variables then translation; style B: translation then variables *)
Lemma rsplitA ts t : Forall term_ok ts -> t_ok t ->
  rsplit (render_terms ts ++ render_t t) = (repeat [] (length ts) ++ [render_t t], map term_sem ts).
Proof.
  intros Hts Ht. rewrite (rsplit_terms ts _ Hts). destruct (tform_eq_none t) as [->|Hn].
  - cbn [render_t]. rewrite rsplit_nil. cbn [fst snd]. rewrite app_nil_r. reflexivity.
  - rewrite <- (app_nil_r (render_t t)) at 1 2. rewrite (rsplit_render_t t [] Ht Hn), rsplit_nil. cbn [fst snd prepend].
    rewrite !app_nil_r. reflexivity.
Qed.
Lemma rsplitB t1 ts t : Forall term_ok (t1 :: ts) -> t_ok t ->
  rsplit (render_t t ++ render_terms (t1 :: ts)) = (render_t t :: repeat [] (length ts) ++ [[]], map term_sem (t1 :: ts)).
Proof.
  intros Hts Ht. assert (rsplit (render_terms (t1 :: ts)) = ([] :: repeat [] (length ts) ++ [[]], map term_sem (t1 :: ts))) as E.
  { rewrite <- (app_nil_r (render_terms (t1 :: ts))). rewrite (rsplit_terms _ [] Hts), rsplit_nil. cbn [fst snd length repeat app].
    rewrite app_nil_r. reflexivity. }
  destruct (tform_eq_none t) as [->|Hn]; [exact E|].
  rewrite (rsplit_render_t t _ Ht Hn), E. cbn [fst snd prepend]. rewrite app_nil_r. reflexivity.
Qed.
Lemma rsplit_strip_terms t1 ts X : term_ok t1 ->
  rsplit (strip_plus (render_terms (t1 :: ts) ++ X)) = rsplit (render_terms (t1 :: ts) ++ X).
Proof.
  destruct t1 as [[s a] up]. unfold term_ok. cbn [fst snd]. intros Ha.
  unfold render_terms. cbn [flat_map render_term fst snd app strip_plus].
  destruct s; cbn [sign_char]; [reflexivity|]. change (Ascii.eqb "+"%char "+"%char) with true. cbv iota.
  rewrite (rsplit_cons "+"%char), !rsplit_cons. change (axis_of "+"%char) with (@None nat). change (is_sign "+"%char) with true.
  cbv iota. rewrite (axis_char_ok up a Ha). reflexivity.
Qed.
Lemma rsplitB_strip t1 ts t : Forall term_ok (t1 :: ts) -> t_ok t -> t <> TNone -> neg_of t = false ->
  rsplit (strip_plus (render_t t ++ render_terms (t1 :: ts))) = (body t :: repeat [] (length ts) ++ [[]], map term_sem (t1 :: ts)).
Proof.
  intros Hts Ht Hn Hs. rewrite (render_t_body t Hn), Hs. cbn [sign_char app strip_plus].
  change (Ascii.eqb "+"%char "+"%char) with true. cbv iota.
  rewrite (rsplit_plain _ _ (body_numc t Ht)).
  rewrite <- (app_nil_r (render_terms (t1 :: ts))). rewrite (rsplit_terms _ [] Hts), rsplit_nil. cbn [fst snd length repeat app prepend].
  rewrite !app_nil_r. reflexivity.
Qed.

(* sums over the translation parts *)
Lemma sum_zeros n : exists z, sum_opt (map parse_tpart (repeat [] n)) = Some z /\ z == 0.
Proof.
  induction n as [|n (z & E & Hz)]; [exists 0; split; reflexivity|].
  cbn [repeat map sum_opt]. rewrite parse_tpart_nil, E. eexists; split; [reflexivity|]. rewrite Hz. ring.
Qed.
Lemma sum_app l1 l2 a b : sum_opt l1 = Some a -> sum_opt l2 = Some b -> exists c, sum_opt (l1 ++ l2) = Some c /\ c == a + b.
Proof.
  revert a. induction l1 as [|x l1 IH]; intros a E1 E2; cbn [app sum_opt] in *.
  - injection E1 as <-. exists b. split; [exact E2|ring].
  - destruct x as [x|]; [|discriminate]. destruct (sum_opt l1) as [a'|]; [|discriminate]. injection E1 as <-.
    destruct (IH a' eq_refl E2) as (c & -> & Hc). eexists; split; [reflexivity|]. rewrite Hc. ring.
Qed.
Lemma sum_one_A n X q : parse_tpart X = Some q -> exists c, sum_opt (map parse_tpart (repeat [] n ++ [X])) = Some c /\ c == q.
Proof.
  intros E. destruct (sum_zeros n) as (z & Ez & Hz). rewrite map_app.
  destruct (sum_app _ (map parse_tpart [X]) z (q + 0) Ez) as (c & Ec & Hc); [cbn [map sum_opt]; rewrite E; reflexivity|].
  exists c. split; [exact Ec|]. rewrite Hc, Hz. ring.
Qed.
Lemma sum_one_B n X q : parse_tpart X = Some q -> exists c, sum_opt (map parse_tpart (X :: repeat [] n ++ [[]])) = Some c /\ c == q.
Proof.
  intros E. destruct (sum_one_A n [] (0 + 0) parse_tpart_nil) as (c & Ec & Hc).
  change (map parse_tpart (X :: repeat [] n ++ [[]])) with (parse_tpart X :: map parse_tpart (repeat [] n ++ [[]])).
  cbn [sum_opt]. rewrite E.
  match goal with |- context [match ?S with Some _ => _ | None => _ end] => replace S with (Some c) by (symmetry; exact Ec) end. eexists; split; [reflexivity|]. rewrite Hc. ring.
Qed.

Lemma parse_row_of s tparts sems c : rsplit s = (tparts, sems) -> sum_opt (map parse_tpart tparts) = Some c ->
  parse_row s = Some (row_of sems, c).
Proof. intros E1 E2. unfold parse_row. rewrite E1, E2. reflexivity. Qed.

Lemma strip_minus t rest : t <> TNone -> neg_of t = true -> strip_plus (render_t t ++ rest) = render_t t ++ rest.
Proof. intros Hn Hs. rewrite (render_t_body t Hn), Hs. reflexivity. Qed.

Theorem parse_row_render r : row_ok r ->
  exists q, parse_row (render_row r) = Some (row_of (map term_sem (r_terms r)), q) /\ q == t_val (r_t r).
Proof.
  destruct r as [ts t tfirst strip]. unfold row_ok, render_row. cbn [r_terms r_t r_tfirst r_strip].
  intros (Hne & Hts & Ht). destruct ts as [|t1 ts]; [congruence|]. pose proof (Forall_inv Hts) as Ht1.
  destruct (parse_tpart_render t Ht) as (q & Eq & Hq).
  destruct tfirst.
  - (* translation first *)
    assert (exists c, parse_row (render_t t ++ render_terms (t1 :: ts)) = Some (row_of (map term_sem (t1 :: ts)), c) /\ c == t_val t) as Plain.
    { destruct (sum_one_B (length ts) _ q Eq) as (c & Ec & Hc). exists c. split; [|rewrite Hc; exact Hq].
      exact (parse_row_of _ _ _ c (rsplitB t1 ts t Hts Ht) Ec). }
    destruct strip; [|exact Plain].
    destruct (tform_eq_none t) as [->|Hn].
    + cbn [render_t app] in *. destruct Plain as (c & Ec & Hc). exists c. split; [|exact Hc].
      unfold parse_row in *. rewrite <- (app_nil_r (render_terms (t1 :: ts))), (rsplit_strip_terms t1 ts [] Ht1), app_nil_r. exact Ec.
    + destruct (neg_of t) eqn:Hs; [rewrite (strip_minus t _ Hn Hs); exact Plain|].
      destruct (parse_tpart_body t Ht Hn) as (q' & Eq' & Hq'). rewrite Hs in Hq'. cbn [sgn] in Hq'.
      destruct (sum_one_B (length ts) _ q' Eq') as (c & Ec & Hc). exists c. split; [|rewrite Hc; exact Hq'].
      exact (parse_row_of _ _ _ c (rsplitB_strip t1 ts t Hts Ht Hn Hs) Ec).
  - (* variables first *)
    destruct (sum_one_A (length (t1 :: ts)) _ q Eq) as (c & Ec & Hc). exists c. split; [|rewrite Hc; exact Hq].
    pose proof (parse_row_of _ _ _ c (rsplitA (t1 :: ts) t Hts Ht) Ec) as P.
    destruct strip; [|exact P]. unfold parse_row in *. rewrite (rsplit_strip_terms t1 ts _ Ht1). exact P.
Qed.

(* ------------------------------------------------------------------ *)
(* the whole operation                                                 *)
(* ------------------------------------------------------------------ *)
Definition fieldc (c : ascii) : Prop := Ascii.eqb c ","%char = false /\ Ascii.eqb c " "%char = false.
Lemma numc_fieldc c : numc c -> fieldc c.
Proof. intros (_ & _ & _ & A & B). split; assumption. Qed.
Lemma render_terms_fieldc ts : Forall term_ok ts -> Forall fieldc (render_terms ts).
Proof.
  induction 1 as [|[[s a] up] ts Ht Hts IH]; [constructor|]. unfold term_ok in Ht. cbn [fst snd] in Ht.
  unfold render_terms. cbn [flat_map render_term fst snd app].
  destruct (sign_char_props s) as (_ & _ & _ & _ & A & B & _).
  constructor; [split; assumption|]. constructor; [|exact IH].
  destruct a as [|[|[|a]]]; [| | |lia]; destruct up; split; reflexivity.
Qed.
Lemma render_t_fieldc t : t_ok t -> Forall fieldc (render_t t).
Proof.
  intros H. destruct (tform_eq_none t) as [->|Hn]; [constructor|]. rewrite (render_t_body t Hn).
  destruct (sign_char_props (neg_of t)) as (_ & _ & _ & _ & A & B & _). constructor; [split; assumption|].
  eapply Forall_impl; [exact numc_fieldc|exact (body_numc t H)].
Qed.
Lemma strip_plus_Forall {P : ascii -> Prop} s : Forall P s -> Forall P (strip_plus s).
Proof. intros H. destruct s as [|c r]; [exact H|]. cbn [strip_plus]. destruct (Ascii.eqb c "+"); [exact (Forall_inv_tail H)|exact H]. Qed.
Lemma render_row_fieldc r : row_ok r -> Forall fieldc (render_row r).
Proof.
  intros (_ & Hts & Ht). unfold render_row.
  assert (Forall fieldc (if r_tfirst r then render_t (r_t r) ++ render_terms (r_terms r) else render_terms (r_terms r) ++ render_t (r_t r))) as F.
  { destruct (r_tfirst r); apply Forall_app; split; auto using render_terms_fieldc, render_t_fieldc. }
  destruct (r_strip r); [apply strip_plus_Forall|]; exact F.
Qed.

Lemma remove_sp_id u : Forall fieldc u -> remove_sp u = u.
Proof. induction 1 as [|c u (_ & B) Hu IH]; [reflexivity|]. unfold remove_sp in *. cbn [filter]. rewrite B. cbn [negb]. rewrite IH. reflexivity. Qed.
Lemma remove_sp_nosp u : Forall (fun c => Ascii.eqb c " "%char = false) u -> remove_sp u = u.
Proof. induction 1 as [|c u B Hu IH]; [reflexivity|]. unfold remove_sp in *. cbn [filter]. rewrite B. cbn [negb]. rewrite IH. reflexivity. Qed.
Lemma remove_sp_app a b : remove_sp (a ++ b) = remove_sp a ++ remove_sp b.
Proof. apply filter_app. Qed.
Lemma split_comma_field u rest : Forall fieldc u -> split_comma (u ++ ","%char :: rest) = u :: split_comma rest.
Proof.
  induction 1 as [|c u (A & _) Hu IH]; cbn [app split_comma].
  - change (Ascii.eqb ","%char ","%char) with true. reflexivity.
  - rewrite A, IH. reflexivity.
Qed.
Lemma split_comma_last u : Forall fieldc u -> split_comma u = [u].
Proof. induction 1 as [|c u (A & _) Hu IH]; [reflexivity|]. cbn [split_comma]. rewrite A, IH. reflexivity. Qed.

Lemma mod1_comp q q' : q == q' -> mod1 q == mod1 q'.
Proof. intros H. unfold mod1. rewrite (Qfloor_comp _ _ H), H. reflexivity. Qed.

Definition R_of (r : rowspec) : list Z := row_of (map term_sem (r_terms r)).
Theorem symop_text_roundtrip r1 r2 r3 : row_ok r1 -> row_ok r2 -> row_ok r3 ->
  exists q1 q2 q3, get_symop (render_op r1 r2 r3) = Ok [(R_of r1, q1); (R_of r2, q2); (R_of r3, q3)]
    /\ q1 == mod1 (t_val (r_t r1)) /\ q2 == mod1 (t_val (r_t r2)) /\ q3 == mod1 (t_val (r_t r3)).
Proof.
  intros H1 H2 H3.
  destruct (parse_row_render r1 H1) as (q1 & E1 & Q1), (parse_row_render r2 H2) as (q2 & E2 & Q2), (parse_row_render r3 H3) as (q3 & E3 & Q3).
  pose proof (render_row_fieldc r1 H1) as F1. pose proof (render_row_fieldc r2 H2) as F2. pose proof (render_row_fieldc r3 H3) as F3.
  exists (mod1 q1), (mod1 q2), (mod1 q3). split; [|auto using mod1_comp].
  unfold get_symop, render_op.
  assert (remove_sp (render_row r1 ++ ","%char :: render_row r2 ++ ","%char :: render_row r3)
          = render_row r1 ++ ","%char :: render_row r2 ++ ","%char :: render_row r3) as ->.
  { apply remove_sp_nosp. pose proof (fun u (F : Forall fieldc u) => Forall_impl (fun c => Ascii.eqb c " "%char = false) (fun c (H : fieldc c) => proj2 H) F) as W.
    apply Forall_app; split; [exact (W _ F1)|]. constructor; [reflexivity|].
    apply Forall_app; split; [exact (W _ F2)|]. constructor; [reflexivity|exact (W _ F3)]. }
  rewrite (split_comma_field _ _ F1), (split_comma_field _ _ F2), (split_comma_last _ F3).
  cbn [rows]. rewrite E1, E2, E3. reflexivity.
Qed.

(* blanks anywhere, and anything after a third comma, do not matter *)
Theorem get_symop_blanks s s' : remove_sp s = remove_sp s' -> get_symop s = get_symop s'.
Proof. unfold get_symop. intros ->. reflexivity. Qed.

(* ------------------------------------------------------------------ *)
(* what is accepted is made of numeric characters only                 *)
(* ------------------------------------------------------------------ *)
Definition is_digit (c : ascii) : bool := match dval c with Some _ => true | None => false end.
Definition tcharb (c : ascii) : bool :=
  is_digit c || Ascii.eqb c "."%char || Ascii.eqb c "/"%char || is_sign c || is_e c.
Definition rowcharb (c : ascii) : bool := tcharb c || match axis_of c with Some _ => true | None => false end.

Lemma span_digits_spec s : exists pre, s = pre ++ snd (span_digits s) /\ forallb tcharb pre = true.
Proof.
  induction s as [|c r (pre & E & F)]; [exists []; split; reflexivity|]. cbn [span_digits].
  destruct (dval c) eqn:D.
  - destruct (span_digits r) as [l r'] eqn:S. cbn [snd] in *. exists (c :: pre). split; [cbn [app]; congruence|].
    cbn [forallb]. unfold tcharb at 1, is_digit. rewrite D. cbn [orb]. exact F.
  - exists []. split; reflexivity.
Qed.
Ltac sd_split s l r pre E F := destruct (span_digits_spec s) as (pre & E & F); destruct (span_digits s) as [l r]; cbn [snd] in E.
Lemma forallb_app_t a b : forallb tcharb a = true -> forallb tcharb b = true -> forallb tcharb (a ++ b) = true.
Proof. intros. rewrite forallb_app. apply andb_true_intro; split; assumption. Qed.

Lemma parse_mant_chars s m r : parse_mant s = Some (m, r) -> exists pre, s = pre ++ r /\ forallb tcharb pre = true.
Proof.
  unfold parse_mant. sd_split s d1 r1 p1 E1 F1. destruct r1 as [|c r2].
  - destruct (nil_b d1); [discriminate|]. intros [= _ <-]. exists p1. split; assumption.
  - destruct (Ascii.eqb c ".") eqn:Ec.
    + sd_split r2 d2 r3 p2 E2 F2. destruct (nil_b d1 && nil_b d2); [discriminate|]. intros [= _ <-].
      exists (p1 ++ c :: p2). split; [rewrite <- app_assoc; cbn [app]; congruence|].
      apply forallb_app_t; [exact F1|]. cbn [forallb]. unfold tcharb at 1. rewrite Ec, F2. rewrite !orb_true_r. reflexivity.
    + destruct (nil_b d1); [discriminate|]. intros [= _ <-]. exists p1. split; assumption.
Qed.
Lemma parse_exp_chars s e r : parse_exp s = Some (e, r) -> exists pre, s = pre ++ r /\ forallb tcharb pre = true.
Proof.
  unfold parse_exp. destruct s as [|c r0]; [intros [= _ <-]; exists []; split; reflexivity|].
  destruct (is_e c) eqn:Ee; [|intros [= _ <-]; exists []; split; reflexivity].
  assert (tcharb c = true) as Tc by (unfold tcharb; rewrite Ee; apply orb_true_r).
  destruct r0 as [|c2 r2].
  - cbn [span_digits nil_b]. discriminate.
  - destruct (is_sign c2) eqn:Es.
    + sd_split r2 d r' p E F. destruct (nil_b d); [discriminate|]. intros [= _ <-]. exists (c :: c2 :: p). split; [cbn [app]; congruence|].
      cbn [forallb]. rewrite Tc, F. unfold tcharb. rewrite Es. rewrite !orb_true_r. reflexivity.
    + sd_split (c2 :: r2) d r' p E F. destruct (nil_b d); [discriminate|]. intros [= _ <-]. exists (c :: p). split; [cbn [app]; congruence|].
      cbn [forallb]. rewrite Tc, F. reflexivity.
Qed.
Lemma parse_den_chars s x : parse_den s = Some x -> forallb tcharb s = true.
Proof.
  unfold parse_den. destruct s as [|c r]; [reflexivity|]. destruct (Ascii.eqb c "/") eqn:Ec; [|discriminate].
  assert (tcharb c = true) as Tc by (unfold tcharb; rewrite Ec; rewrite !orb_true_r; reflexivity).
  sd_split r d1 r1 p1 E1 F1. destruct (nil_b d1); [discriminate|]. destruct r1 as [|c2 r2].
  - intros _. rewrite E1, app_nil_r. cbn [forallb]. rewrite Tc, F1. reflexivity.
  - destruct (Ascii.eqb c2 ".") eqn:Ec2; [|discriminate]. sd_split r2 d2 r3 p2 E2 F2. destruct r3; [|discriminate]. intros _.
    rewrite E1, E2, app_nil_r. cbn [forallb]. rewrite Tc. cbn [andb]. apply forallb_app_t; [exact F1|]. cbn [forallb].
    unfold tcharb at 1. rewrite Ec2, F2. rewrite !orb_true_r. reflexivity.
Qed.
Lemma parse_num_chars s q : parse_num s = Some q -> forallb tcharb s = true.
Proof.
  unfold parse_num. destruct (parse_mant s) as [[m r1]|] eqn:M; [|discriminate].
  destruct (parse_exp r1) as [[e r2]|] eqn:X; [|discriminate].
  destruct (parse_den r2) as [x|] eqn:Dn; [|discriminate]. intros _.
  destruct (parse_mant_chars _ _ _ M) as (p1 & -> & F1), (parse_exp_chars _ _ _ X) as (p2 & -> & F2).
  apply forallb_app_t; [exact F1|]. apply forallb_app_t; [exact F2|]. exact (parse_den_chars _ _ Dn).
Qed.
Lemma parse_signed_chars s q : parse_signed s = Some q -> forallb tcharb s = true.
Proof.
  unfold parse_signed. destruct s as [|c r]; [discriminate|]. destruct (is_sign c) eqn:Es; [|discriminate].
  destruct (parse_num r) eqn:P; [|discriminate]. intros _. cbn [forallb]. rewrite (parse_num_chars _ _ P).
  unfold tcharb. rewrite Es. rewrite !orb_true_r. reflexivity.
Qed.

Lemma concat_cons_head {A} (c : A) l : concat (cons_head c l) = c :: concat l.
Proof. destruct l; reflexivity. Qed.
Lemma chunks_concat_len n : forall s, (length s <= n)%nat -> concat (chunks s) = s.
Proof.
  induction n as [|n IH]; intros [|c r] Hl; cbn [length] in Hl; try lia; try reflexivity.
  cbn [chunks]. destruct (is_e c).
  - destruct r as [|c2 r2]; [reflexivity|]. destruct (is_sign c2).
    + rewrite !concat_cons_head, IH; [reflexivity|cbn [length] in Hl; lia].
    + rewrite concat_cons_head, IH; [reflexivity|lia].
  - destruct (is_sign c).
    + cbn [concat app]. rewrite concat_cons_head, IH; [reflexivity|lia].
    + rewrite concat_cons_head, IH; [reflexivity|lia].
Qed.
Lemma sum_opt_all l q : sum_opt l = Some q -> Forall (fun x => x <> None) l.
Proof.
  revert q. induction l as [|x l IH]; intros q E; [constructor|]. cbn [sum_opt] in E.
  destruct x; [|discriminate]. destruct (sum_opt l) eqn:S; [|discriminate]. constructor; [discriminate|exact (IH _ eq_refl)].
Qed.
Theorem parse_tpart_chars s q : parse_tpart s = Some q -> forallb tcharb s = true.
Proof.
  unfold parse_tpart. intros E. rewrite <- (chunks_concat_len (length s) s (le_n _)).
  destruct (chunks s) as [|h t]; [discriminate|].
  assert (forallb tcharb h = true) as Fh.
  { destruct h as [|c h]; [reflexivity|]. cbn [nil_b] in E. destruct (parse_num (c :: h)) eqn:P; [|discriminate]. exact (parse_num_chars _ _ P). }
  destruct (if nil_b h then Some 0 else parse_num h); [|discriminate].
  destruct (sum_opt (map parse_signed t)) eqn:S; [|discriminate]. apply sum_opt_all in S.
  cbn [concat]. apply forallb_app_t; [exact Fh|]. clear E Fh. induction t as [|x t IH]; [reflexivity|].
  cbn [map] in S. cbn [concat]. apply forallb_app_t; [|apply IH; exact (Forall_inv_tail S)].
  pose proof (Forall_inv S) as Hx. destruct (parse_signed x) eqn:P; [|congruence]. exact (parse_signed_chars _ _ P).
Qed.

Definition tpart_ok (t : str) : Prop := forallb tcharb t = true.
Lemma Forall_cons_head c ts : ts <> [] -> Forall tpart_ok (cons_head c ts) -> tcharb c = true /\ Forall tpart_ok ts.
Proof.
  destruct ts as [|h t]; [congruence|]. intros _ H. cbn [cons_head] in H. inversion H as [|? ? Hh Ht]; subst.
  unfold tpart_ok in Hh. cbn [forallb] in Hh. apply andb_prop in Hh. destruct Hh as [Hc Hh]. split; [exact Hc|constructor; assumption].
Qed.
Lemma tchar_rowchar c : tcharb c = true -> rowcharb c = true.
Proof. intros H. unfold rowcharb. rewrite H. reflexivity. Qed.
Lemma rsplit_chars_len n : forall s, (length s <= n)%nat -> Forall tpart_ok (fst (rsplit s)) -> forallb rowcharb s = true.
Proof.
  induction n as [|n IH]; intros [|c r] Hl; cbn [length] in Hl; try lia; try reflexivity.
  rewrite rsplit_cons. cbn [forallb]. destruct (axis_of c) eqn:Ac.
  - intros H. destruct (rsplit r) as [ts rs] eqn:Er. cbn [fst] in H. unfold rowcharb at 1. rewrite Ac, orb_true_r. cbn [andb].
    apply IH; [lia|]. rewrite Er. exact (Forall_inv_tail H).
  - destruct (is_sign c) eqn:Sc.
    + assert (rowcharb c = true) as Rc by (apply tchar_rowchar; unfold tcharb; rewrite Sc; rewrite !orb_true_r; reflexivity).
      rewrite Rc. cbn [andb]. destruct r as [|c2 r2]; [reflexivity|]. destruct (axis_of c2) eqn:Ac2.
      * intros H. destruct (rsplit r2) as [ts rs] eqn:Er. cbn [fst] in H. cbn [forallb]. unfold rowcharb at 1. rewrite Ac2, orb_true_r. cbn [andb].
        apply IH; [cbn [length] in Hl; lia|]. rewrite Er. exact (Forall_inv_tail H).
      * intros H. pose proof (rsplit_nonnil (c2 :: r2)) as Hn. destruct (rsplit (c2 :: r2)) as [ts rs] eqn:Er. cbn [fst] in H, Hn.
        apply IH; [lia|]. rewrite Er. exact (proj2 (Forall_cons_head c ts Hn H)).
    + intros H. pose proof (rsplit_nonnil r) as Hn. destruct (rsplit r) as [ts rs] eqn:Er. cbn [fst] in H, Hn.
      destruct (Forall_cons_head c ts Hn H) as [Hc Hts]. rewrite (tchar_rowchar c Hc). cbn [andb].
      apply IH; [lia|]. rewrite Er. exact Hts.
Qed.
Theorem parse_row_chars s x : parse_row s = Some x -> forallb rowcharb s = true.
Proof.
  unfold parse_row. destruct (rsplit s) as [ts rs] eqn:Er. destruct (sum_opt (map parse_tpart ts)) eqn:S; [|discriminate]. intros _.
  apply (rsplit_chars_len (length s) s (le_n _)). rewrite Er. cbn [fst]. apply sum_opt_all in S.
  clear Er. induction ts as [|t ts IH]; [constructor|]. cbn [map] in S. constructor; [|exact (IH (Forall_inv_tail S))].
  pose proof (Forall_inv S) as Ht. destruct (parse_tpart t) eqn:P; [|congruence]. exact (parse_tpart_chars _ _ P).
Qed.
Lemma rows_chars k : forall fs l, rows k fs = Ok l -> Forall (fun f => forallb rowcharb f = true) (firstn k fs).
Proof.
  induction k as [|k IH]; intros fs l E; [constructor|]. cbn [rows] in E. destruct fs as [|f fr]; [discriminate|].
  destruct (parse_row f) as [[r t]|] eqn:P; [|discriminate]. destruct (rows k fr) eqn:Rk; try discriminate.
  cbn [firstn]. constructor; [exact (parse_row_chars _ _ P)|exact (IH _ _ Rk)].
Qed.
(* every one of the three fields of an accepted operation consists of digits . / + - e E and the letters x y z only *)
Theorem accepted_is_numeric s l : get_symop s = Ok l ->
  Forall (fun f => forallb rowcharb f = true) (firstn 3 (split_comma (remove_sp s))).
Proof. unfold get_symop. apply rows_chars. Qed.

(* ------------------------------------------------------------------ *)
(* the operations of the tables: rows with coefficients -1,0,1 (not all zero), translations k/12        *)
(* ------------------------------------------------------------------ *)
Definition coef_terms (up : bool) (cs : list Z) : list term :=
  flat_map (fun p : nat * Z => if Z.eqb (snd p) 0 then [] else [((Z.ltb (snd p) 0, fst p), up)]) (combine [0; 1; 2]%nat cs).
Definition coefs : list (list Z) :=
  flat_map (fun a => flat_map (fun b => map (fun c => [a; b; c]) [-1; 0; 1]%Z) [-1; 0; 1]%Z) [-1; 0; 1]%Z.
Definition table_row (up tfirst strip : bool) (cs : list Z) (k : N) : rowspec :=
  {| r_terms := coef_terms up cs; r_t := if N.eqb k 0 then TNone else TFrac false k 12; r_tfirst := tfirst; r_strip := strip |}.
Definition nonzero_row (cs : list Z) : bool := negb (forallb (Z.eqb 0) cs).

Fixpoint list_eq_dec_b (a b : list Z) : bool :=
  match a, b with [], [] => true | x :: r, y :: t => Z.eqb x y && list_eq_dec_b r t | _, _ => false end.
Lemma list_eq_dec_b_eq a b : list_eq_dec_b a b = true -> a = b.
Proof. revert b. induction a as [|x a IH]; intros [|y b] H; try discriminate; [reflexivity|]. cbn in H. apply andb_prop in H. destruct H as [H1 H2]. apply Z.eqb_eq in H1. rewrite H1, (IH _ H2). reflexivity. Qed.
Lemma coef_rows_b : forallb (fun cs => implb (nonzero_row cs)
    (forallb (fun up => andb (list_eq_dec_b (row_of (map term_sem (coef_terms up cs))) cs)
                             (andb (negb (nil_b (coef_terms up cs))) (forallb (fun t : term => Nat.ltb (snd (fst t)) 3) (coef_terms up cs))))
             [false; true])) coefs = true.
Proof. vm_compute. reflexivity. Qed.

Lemma table_row_facts up tf st cs k : In cs coefs -> nonzero_row cs = true ->
  row_ok (table_row up tf st cs k) /\ R_of (table_row up tf st cs k) = cs /\ t_val (r_t (table_row up tf st cs k)) == Z.of_N k # 12.
Proof.
  intros Hin Hnz. pose proof (proj1 (forallb_forall _ _) coef_rows_b cs Hin) as H. cbv beta in H. rewrite Hnz in H. cbn [implb] in H.
  assert (In up [false; true]) as Hup by (destruct up; cbn; auto).
  pose proof (proj1 (forallb_forall _ _) H up Hup) as H'. cbv beta in H'.
  apply andb_prop in H'. destruct H' as [HR H']. apply andb_prop in H'. destruct H' as [Hne Hax].
  unfold row_ok, R_of, table_row. cbn [r_terms r_t]. repeat split.
  - intros E. rewrite E in Hne. discriminate.
  - apply Forall_forall. intros t Ht. pose proof (proj1 (forallb_forall _ _) Hax t Ht) as L. apply Nat.ltb_lt in L. exact L.
  - destruct (N.eqb k 0); cbn [t_ok]; [exact I|reflexivity].
  - exact (list_eq_dec_b_eq _ _ HR).
  - destruct (N.eqb k 0) eqn:Ek; cbn [t_val sgn posN].
    + apply N.eqb_eq in Ek. subst k. reflexivity.
    + reflexivity.
Qed.
Lemma mod1_small k : (k < 12)%N -> mod1 (Z.of_N k # 12) == Z.of_N k # 12.
Proof.
  intros H. unfold mod1. assert (Qfloor (Z.of_N k # 12) = 0%Z) as ->.
  { unfold Qfloor. apply Z.div_small. lia. }
  unfold Qminus. rewrite Qplus_0_r. reflexivity.
Qed.
Theorem table_op_roundtrip f1 f2 f3 cs1 cs2 cs3 k1 k2 k3 :
  In cs1 coefs -> In cs2 coefs -> In cs3 coefs -> nonzero_row cs1 = true -> nonzero_row cs2 = true -> nonzero_row cs3 = true ->
  (k1 < 12)%N -> (k2 < 12)%N -> (k3 < 12)%N ->
  let row f cs k := table_row (fst (fst f)) (snd (fst f)) (snd f) cs k in
  exists q1 q2 q3, get_symop (render_op (row f1 cs1 k1) (row f2 cs2 k2) (row f3 cs3 k3)) = Ok [(cs1, q1); (cs2, q2); (cs3, q3)]
    /\ q1 == Z.of_N k1 # 12 /\ q2 == Z.of_N k2 # 12 /\ q3 == Z.of_N k3 # 12.
Proof.
  intros I1 I2 I3 N1 N2 N3 K1 K2 K3 row.
  destruct (table_row_facts (fst (fst f1)) (snd (fst f1)) (snd f1) cs1 k1 I1 N1) as (O1 & R1 & T1).
  destruct (table_row_facts (fst (fst f2)) (snd (fst f2)) (snd f2) cs2 k2 I2 N2) as (O2 & R2 & T2).
  destruct (table_row_facts (fst (fst f3)) (snd (fst f3)) (snd f3) cs3 k3 I3 N3) as (O3 & R3 & T3).
  destruct (symop_text_roundtrip _ _ _ O1 O2 O3) as (q1 & q2 & q3 & E & Q1 & Q2 & Q3).
  exists q1, q2, q3. unfold row. rewrite E, R1, R2, R3. split; [reflexivity|].
  rewrite Q1, Q2, Q3, (mod1_comp _ _ T1), (mod1_comp _ _ T2), (mod1_comp _ _ T3). auto using mod1_small.
Qed.

(* non-vacuity and concrete instances *)
From Coq Require Import String.
Local Open Scope string_scope.
Example ex_render : render_op (table_row false false true [0; -1; 0]%Z 6) (table_row false true true [1; -1; 0]%Z 0) (table_row true false false [0; 0; 1]%Z 3)
  = Str "-y+6/12,x-y,+Z+3/12".
Proof. vm_compute. reflexivity. Qed.
Example ex_junk : map (fun s => encode (get_symop (Str s))) ["x+1/2*3,y,z"; "x,y,z+__import__('os')"; "x,y"; "x,y,1/2_-z"] = [[1]; [1]; [2]; [1]]%Z.
Proof. vm_compute. reflexivity. Qed.
