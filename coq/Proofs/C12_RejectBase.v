(* C12 - rejection table, part 1: bridging between Coq strings and C04 character lists, the concrete oracles satisfy
   the hypotheses of the C13 theorems, and reader-side rejection lemmas that do not depend on any writer:
     - P_xyz rejects a text whose first record is not a lone canonical integer,
     - P_rawxyz rejects a text that has a one-field record (its first record not being a comment),
     - P_pdffit / P_discus reject a text without any `cell` record. *)
From Coq Require Import List Bool Arith ZArith Lia.
From DS Require Import Base.C13_Exn Gen.C13_ExcSpec Model.C13_Common Model.C13_Xyz Model.C13_Pdffit Model.C13_Discus
                       Proofs.C13_ExnLemmas Proofs.C13_Shared Proofs.C13_Xyz Proofs.C13_Pdffit Proofs.C13_Discus.
From DS Require Import Base.C04_Text Base.C04_Decimal Model.C04_Fmt Model.C12_Conc.
From Coq Require Import Ascii String.
Import ListNotations.
Close Scope N_scope.
Open Scope nat_scope.

Arguments catches : simpl never.

(* ---- strings <-> character lists ---------------------------------------------------------------- *)
Lemma S2L_L2S l : S2L (L2S l) = l.
Proof. apply list_ascii_of_string_of_list_ascii. Qed.

Lemma L2S_S2L x : L2S (S2L x) = x.
Proof. apply string_of_list_ascii_of_string. Qed.

Lemma c_split_L2S l : c_split (L2S l) = map L2S (split_ws l).
Proof. unfold c_split. rewrite S2L_L2S. reflexivity. Qed.

Lemma c_split_commas_L2S l : c_split_commas (L2S l) = map L2S (split_ws (c2s l)).
Proof. unfold c_split_commas. rewrite S2L_L2S. reflexivity. Qed.

Lemma eqb_L2S a k : String.eqb (L2S a) k = str_eqb a (S2L k).
Proof.
  destruct (String.eqb (L2S a) k) eqn:E1; destruct (str_eqb a (S2L k)) eqn:E2; try reflexivity; exfalso.
  - apply String.eqb_eq in E1. subst k. rewrite S2L_L2S, str_eqb_refl in E2. discriminate.
  - apply str_eqb_eq in E2. subst a. rewrite L2S_S2L, String.eqb_refl in E1. discriminate.
Qed.

Lemma str_head_L2S c r : str_head (L2S (c :: r)) = Ok c.
Proof. reflexivity. Qed.

Lemma L2S_nonempty w : w <> [] -> L2S w <> EmptyString.
Proof. destruct w; [contradiction | discriminate]. Qed.

Lemma c_float_L2S t : c_float (L2S t) = match parse_float t with Some d => Ok d | None => Raise ValueError end.
Proof. unfold c_float. rewrite S2L_L2S. reflexivity. Qed.

Lemma c_int_L2S t : c_int (L2S t) = match parse_int t with Some d => Ok d | None => Raise ValueError end.
Proof. unfold c_int. rewrite S2L_L2S. reflexivity. Qed.

(* tokens of str.split() are never empty *)
Lemma toks_no_ws_all t : Forall (fun x => no_ws x = true) (toks t).
Proof.
  induction t as [| c r IH]; cbn; [repeat constructor |].
  destruct (is_ws c) eqn:E; [constructor; [reflexivity | exact IH] |].
  destruct (toks r) as [| t0 ts]; [repeat constructor; cbn; rewrite E; reflexivity |].
  inversion IH; subst. constructor; [cbn; rewrite E; cbn; assumption | assumption].
Qed.

Lemma split_ws_nonempty t w : In w (split_ws t) -> w <> [].
Proof. unfold split_ws. intros H. apply filter_In in H. destruct H as [_ H]. destruct w; [discriminate | discriminate]. Qed.

Lemma c_split_nonempty : forall x w, In w (c_split x) -> w <> EmptyString.
Proof.
  intros x w H. unfold c_split in H. apply in_map_iff in H. destruct H as [w' [<- H]].
  apply L2S_nonempty. eapply split_ws_nonempty; eassumption.
Qed.

Lemma c_float_kinds : forall x, within [ValueError] (c_float x).
Proof. intros x; unfold c_float; destruct (parse_float (S2L x)); simpl; auto. Qed.

Lemma c_int_kinds : forall x, within [ValueError] (c_int x).
Proof. intros x; unfold c_int; destruct (parse_int (S2L x)); simpl; auto. Qed.

(* ---- generic: a documented result that is not a value is a rejection ---------------------------- *)
Lemma documented_not_ok_rejected : forall A (r : res A), documented r -> (forall a, r <> Ok a) -> rejected r.
Proof. intros A [a | k] D N; [exfalso; eapply N; reflexivity |]. simpl in D. destruct D as [-> | ->]; [left | right]; reflexivity. Qed.

Lemma try_not_ok : forall A (m : res A) c hk, (forall a, m <> Ok a) -> forall a, try_catch m c (reraise_handler hk) <> Ok a.
Proof. intros A m c hk N a H. apply try_reraise_ok in H. eapply N; eassumption. Qed.

Lemma foldM_ok_all : forall A S (f : S -> A -> res S) l s s', foldM f l s = Ok s' ->
  forall a, In a l -> exists s1 s2, f s1 a = Ok s2.
Proof.
  induction l as [| x l IH]; intros s s' H a Ha; [contradiction |]. simpl in H.
  destruct (f s x) as [s1 |] eqn:E; simpl in H; [| discriminate].
  destruct Ha as [<- | Ha]; [exists s, s1; assumption | eapply IH; eassumption].
Qed.

Lemma trim_lower : forall fuel lf start stop s i (f : list string),
  trim_stop fuel lf start stop = Ok s -> nth_error lf i = Some f -> is_nil f = false -> i < stop -> stop <= fuel -> i < s.
Proof.
  induction fuel as [| fuel IH]; intros lf start stop s i f H Hn Hf Hi Hfu; [lia |]. simpl in H.
  destruct (Nat.ltb start stop); [| inversion H; subst; assumption].
  unfold idx in H. destruct (nth_error lf (stop - 1)) as [f' |] eqn:E; simpl in H; [| discriminate].
  destruct (is_nil f') eqn:En; [| inversion H; subst; assumption].
  assert (i <> stop - 1) by (intros ->; rewrite E in Hn; inversion Hn; subst; congruence).
  eapply IH; try eassumption; lia.
Qed.

Lemma trim_blank_lower : forall isblank fuel lines stop s i l,
  trim_blank isblank fuel lines stop = Ok s -> nth_error lines i = Some l -> isblank l = false -> i < stop -> stop <= fuel ->
  i < s /\ s <= stop.
Proof.
  induction fuel as [| fuel IH]; intros lines stop s i l H Hn Hb Hi Hfu; [lia |]. simpl in H.
  destruct (Nat.ltb 0 stop); [| inversion H; subst; lia].
  unfold idx in H. destruct (nth_error lines (stop - 1)) as [l' |] eqn:E; simpl in H; [| discriminate].
  destruct (isblank l') eqn:Eb; [| inversion H; subst; lia].
  assert (i <> stop - 1) by (intros ->; rewrite E in Hn; inversion Hn; subst; congruence).
  assert (i < s /\ s <= stop - 1) by (eapply IH; try eassumption; lia). lia.
Qed.

(* ---- P_xyz: the first record must be a lone canonical integer ------------------------------------ *)
Lemma xyz_rejects_first_record : forall l0 rest w ws,
  split_ws l0 = w :: ws -> str_eqb w (S2L "#") = false -> (ws <> [] \/ parse_int w = None) ->
  conc_xyz (l0 :: rest) = Raise FormatError.
Proof.
  intros l0 rest w ws Hs Hh Hw. unfold conc_xyz, parse_xyz.
  cbn [map]. rewrite c_split_L2S, Hs. cbn [map count_leading skip_field]. rewrite eqb_L2S, Hh.
  unfold xyz_header. cbn [idx nth_error bind List.length].
  destruct ws as [| w2 ws'].
  - destruct Hw as [Hw | Hw]; [congruence |]. cbn [map List.length Nat.eqb]. rewrite c_int_L2S, Hw. cbn [bind].
    vm_compute. reflexivity.
  - cbn [map List.length Nat.eqb]. vm_compute. reflexivity.
Qed.

(* ---- P_rawxyz: a one-field record anywhere is fatal ------------------------------------------------ *)
Lemma rawxyz_documented : forall ls, documented (conc_rawxyz ls).
Proof.
  intros ls. unfold conc_rawxyz.
  exact (only_documented_rawxyz dec c_split (fun _ => Ok 0%Z) (fun _ => true) c_float c_float_kinds (map L2S ls)).
Qed.

Lemma rawxyz_rejects_one_field_record : forall l0 rest w ws la wa,
  split_ws l0 = w :: ws -> str_eqb w (S2L "#") = false ->
  In la (l0 :: rest) -> split_ws la = [wa] ->
  rejected (conc_rawxyz (l0 :: rest)).
Proof.
  intros l0 rest w ws la wa Hs Hh Hla Hsa.
  apply documented_not_ok_rejected; [apply rawxyz_documented |].
  intros n H. unfold conc_rawxyz, parse_rawxyz in H.
  set (lines := map L2S (l0 :: rest)) in *. set (lf := map c_split lines) in *.
  assert (Hlf0 : nth_error lf 0 = Some (map L2S (w :: ws))) by (unfold lf, lines; cbn [map nth_error]; rewrite c_split_L2S, Hs; reflexivity).
  assert (Hstart : count_leading skip_field lf = 0).
  { unfold lf, lines. cbn [map]. rewrite c_split_L2S, Hs. cbn [map count_leading skip_field]. rewrite eqb_L2S, Hh. reflexivity. }
  rewrite Hstart in H.
  destruct (trim_stop (S (List.length lines)) lf 0 (List.length lines)) as [stop |] eqn:Et; cbn [bind] in H; [| discriminate].
  assert (Hstop : 0 < stop).
  { eapply trim_lower; [exact Et | exact Hlf0 | reflexivity | unfold lines; cbn; lia | lia]. }
  destruct (Nat.leb stop 0) eqn:El; [apply Nat.leb_le in El; lia |].
  unfold idx in H. rewrite Hlf0 in H. cbn [bind] in H.
  destruct (mapM (isfloat dec c_float) (map L2S (w :: ws))) as [ff |]; cbn [bind] in H; [| discriminate].
  set (nf := List.length (map L2S (w :: ws))) in *.
  destruct (Nat.eqb nf 3 || Nat.eqb nf 4) eqn:E34; cbn [negb] in H; [| discriminate].
  assert (Hnf : nf <> 1).
  { intros E1. rewrite E1 in E34. discriminate. }
  match type of H with bind ?lay _ = _ => destruct lay as [layout |]; cbn [bind] in H; [| discriminate] end.
  apply try_reraise_ok in H.
  destruct (foldM_ok_all _ _ _ _ _ _ H (c_split (L2S la))) as [s1 [s2 Hrow]].
  { cbn [skipn]. unfold lf, lines. apply in_map. apply in_map. exact Hla. }
  rewrite c_split_L2S, Hsa in Hrow. unfold rawxyz_record in Hrow. cbn [map is_nil List.length] in Hrow.
  destruct (Nat.eqb 1 nf) eqn:E1; [apply Nat.eqb_eq in E1; congruence |]. discriminate.
Qed.

(* ---- P_pdffit / P_discus: no `cell` record, no structure ------------------------------------------- *)
Definition no_cell_record (ls : list str) : Prop := forall l, In l ls -> first_word_is "cell" l = false.

Definition no_cell_word (line : string) : Prop :=
  match c_split line with w :: _ => String.eqb w "cell" = false | [] => True end.

Lemma no_cell_word_L2S l : first_word_is "cell" l = false -> no_cell_word (L2S l).
Proof.
  unfold first_word_is, no_cell_word. rewrite c_split_L2S. destruct (split_ws l) as [| w ws]; [intros; exact I |].
  cbn [map]. rewrite eqb_L2S. auto.
Qed.

Section NoCell.
  Variable lattice_of : list dec -> res unit.
  Variable mulZ : dec -> Z -> res dec.
  Variable set_lat_par : list (list dec) -> list dec -> res unit.
  Variable cell_pars : list (list dec) -> list dec.
  Hypothesis lattice_kinds : forall l, within [ValueError; ZeroDivisionError] (lattice_of l).
  Hypothesis mulZ_kinds : forall v z, within [OverflowError] (mulZ v z).
  Hypothesis set_lat_par_kinds : forall h l, within [ValueError; ZeroDivisionError] (set_lat_par h l).

  Let hline := pdffit_header_line dec c_split c_split_commas c_float c_int lattice_of.
  Let header := pdffit_header dec c_split c_split_commas c_float c_int lattice_of.

  Lemma pdffit_header_line_keeps_cell : forall st line st' b,
    hline st line = Ok (st', b) -> no_cell_word line -> p_cell dec st' = p_cell dec st.
  Proof.
    intros st line st' b H Hn. unfold hline, pdffit_header_line in H. unfold no_cell_word in Hn.
    destruct (c_split line) as [| w0 ws]; [inversion H; reflexivity |].
    destruct (str_head w0) as [c |]; cbn [bind] in H; [| discriminate].
    unfold Model.C13_Pdffit.kw in H. rewrite Hn in H.
    repeat match type of H with
    | (if ?b then _ else _) = Ok _ => destruct b
    | bind ?m _ = Ok _ => destruct m; cbn [bind] in H; [| discriminate H]
    end; try discriminate H; inversion H; reflexivity.
  Qed.

  Lemma pdffit_header_keeps_none : forall rest st st' r,
    header st rest = Ok (st', r) -> p_cell dec st = None -> (forall l, In l rest -> no_cell_word l) -> p_cell dec st' = None.
  Proof.
    induction rest as [| line rest IH]; intros st st' r H Hc Hn; simpl in H.
    - inversion H; subst; assumption.
    - unfold header in H; simpl in H; fold header in H.
      destruct (pdffit_header_line dec c_split c_split_commas c_float c_int lattice_of st line) as [[st1 b] |] eqn:E;
        cbn [bind] in H; [| discriminate].
      assert (Hc1 : p_cell dec st1 = None).
      { rewrite <- Hc. eapply pdffit_header_line_keeps_cell; [exact E | apply Hn; left; reflexivity]. }
      cbn [snd fst] in H. destruct b; [inversion H; subst; assumption |].
      eapply IH; [exact H | exact Hc1 | intros; apply Hn; right; assumption].
  Qed.

  Lemma pdffit_documented : forall ls, documented (conc_pdffit lattice_of mulZ ls).
  Proof.
    intros ls. unfold conc_pdffit.
    apply (only_documented_pdffit dec c_split c_split_commas c_isblank c_float c_int lattice_of mulZ
             c_float_kinds c_int_kinds lattice_kinds mulZ_kinds).
  Qed.

  Lemma pdffit_not_ok_rejected : forall ls,
    (forall n, pdffit_body dec c_split c_split_commas c_isblank c_float c_int lattice_of mulZ (map L2S ls) <> Ok n) ->
    conc_pdffit lattice_of mulZ ls = Raise FormatError.
  Proof.
    intros ls N.
    assert (R : rejected (conc_pdffit lattice_of mulZ ls)).
    { apply documented_not_ok_rejected; [apply pdffit_documented |]. unfold conc_pdffit, parse_pdffit, parse_pdffit_gen. apply try_not_ok. exact N. }
    destruct R as [R | R]; [exact R | exfalso].
    (* NotImplemented is not among the kinds of the body *)
    unfold conc_pdffit, parse_pdffit, parse_pdffit_gen in R.
    pose proof (Proofs.C13_Pdffit.body_within dec c_split c_split_commas c_isblank c_float c_int lattice_of mulZ
                  c_float_kinds c_int_kinds lattice_kinds mulZ_kinds (map L2S ls)) as W.
    assert (W2 : within [FormatError] (try_catch (pdffit_body dec c_split c_split_commas c_isblank c_float c_int lattice_of mulZ (map L2S ls))
                                         pdffit_parseLines_try1_caught (reraise_handler pdffit_parseLines_try1_handler))).
    { eapply within_try; [exact W | vm_compute; reflexivity | intros k; vm_compute; tauto]. }
    rewrite R in W2. simpl in W2. destruct W2 as [W2 | []]. discriminate.
  Qed.

  Theorem pdffit_rejects_without_cell : forall ls, no_cell_record ls -> conc_pdffit lattice_of mulZ ls = Raise FormatError.
  Proof.
    intros ls Hn. apply pdffit_not_ok_rejected. intros n H. unfold pdffit_body in H.
    destruct (trim_blank c_isblank (S (List.length (map L2S ls))) (map L2S ls) (List.length (map L2S ls))) as [stop |];
      cbn [bind] in H; [| discriminate].
    match type of H with bind ?h _ = _ => destruct h as [[st r] |] eqn:E; cbn [bind] in H; [| discriminate] end.
    assert (Hc : p_cell dec st = None).
    { eapply pdffit_header_keeps_none; [exact E | reflexivity |].
      intros l Hl. apply In_firstn in Hl. apply in_map_iff in Hl. destruct Hl as [l' [<- Hl']]. apply no_cell_word_L2S. apply Hn. exact Hl'. }
    cbn [fst] in H. rewrite Hc in H. discriminate.
  Qed.

  (* ---- discus -------------------------------------------------------------------------------------- *)
  Let dheader := discus_header dec c_split c_split_commas c_float c_int set_lat_par.

  Lemma discus_record_keeps_cell : forall st w0 words line st',
    discus_record dec c_split_commas c_float c_int set_lat_par st w0 words line = Ok st' ->
    String.eqb w0 "cell" = false -> d_cell_read dec st' = d_cell_read dec st.
  Proof.
    intros st w0 words line st' H Hn. unfold discus_record, Model.C13_Discus.kw in H. rewrite Hn in H.
    repeat match type of H with
    | (if ?b then _ else _) = Ok _ => destruct b
    | bind ?m _ = Ok _ => destruct m; cbn [bind] in H; [| discriminate H]
    end; try discriminate H; inversion H; reflexivity.
  Qed.

  Lemma discus_header_keeps_false : forall rest st st' r,
    dheader st rest = Ok (st', r) -> d_cell_read dec st = false -> (forall l, In l rest -> no_cell_word l) ->
    d_cell_read dec st' = false.
  Proof.
    induction rest as [| line rest IH]; intros st st' r H Hc Hn; simpl in H.
    - inversion H; subst; assumption.
    - unfold dheader in H; simpl in H; fold dheader in H.
      assert (Hl := Hn line (or_introl eq_refl)). unfold no_cell_word in Hl.
      assert (Hrest : forall l, In l rest -> no_cell_word l) by (intros; apply Hn; right; assumption).
      destruct (c_split line) as [| w0 ws]; [eapply IH; eassumption |].
      destruct (str_head w0) as [c |]; cbn [bind] in H; [| discriminate].
      destruct (Ascii.eqb c hash_char); [eapply IH; eassumption |].
      destruct (Model.C13_Discus.kw w0 "atoms"); [inversion H; subst; assumption |].
      destruct (discus_record dec c_split_commas c_float c_int set_lat_par st w0 (w0 :: ws) line) as [st1 |] eqn:E;
        cbn [bind] in H; [| discriminate].
      eapply IH; [exact H | | exact Hrest].
      rewrite <- Hc. eapply discus_record_keeps_cell; eassumption.
  Qed.

  Lemma discus_documented : forall ls, documented (conc_discus lattice_of mulZ set_lat_par cell_pars ls).
  Proof.
    intros ls. unfold conc_discus.
    apply (only_documented_discus dec c_split c_split_commas c_isblank c_float c_int set_lat_par cell_pars lattice_of mulZ
             c_float_kinds c_int_kinds set_lat_par_kinds lattice_kinds mulZ_kinds).
  Qed.

  Theorem discus_rejects_without_cell : forall ls, no_cell_record ls -> rejected (conc_discus lattice_of mulZ set_lat_par cell_pars ls).
  Proof.
    intros ls Hn. apply documented_not_ok_rejected; [apply discus_documented |].
    unfold conc_discus, parse_discus, parse_discus_gen. apply try_not_ok. intros n H. unfold discus_body in H.
    destruct (trim_blank c_isblank (S (List.length (map L2S ls))) (map L2S ls) (List.length (map L2S ls))) as [stop |];
      cbn [bind] in H; [| discriminate].
    match type of H with bind ?h _ = _ => destruct h as [[st r] |] eqn:E; cbn [bind] in H; [| discriminate] end.
    assert (Hc : d_cell_read dec st = false).
    { eapply discus_header_keeps_false; [exact E | reflexivity |].
      intros l Hl. apply In_firstn in Hl. apply in_map_iff in Hl. destruct Hl as [l' [<- Hl']]. apply no_cell_word_L2S. apply Hn. exact Hl'. }
    cbn [fst] in H. rewrite Hc in H. discriminate.
  Qed.
End NoCell.

(* ---- the same two reader lemmas after a prefix of skipped records (blank lines, `#` comments) -------- *)
Definition skipped (l : str) : bool := match split_ws l with [] => true | w :: _ => str_eqb w (S2L "#") end.

Lemma leading_skipped : forall pre l0 rest w ws, forallb skipped pre = true -> split_ws l0 = w :: ws -> str_eqb w (S2L "#") = false ->
  let lf := map c_split (map L2S (pre ++ l0 :: rest)) in
  count_leading skip_field lf = List.length pre /\ nth_error lf (List.length pre) = Some (map L2S (w :: ws)).
Proof.
  induction pre as [| p pre IH]; intros l0 rest w ws Hp Hs Hh; cbn [app map List.length count_leading nth_error].
  - rewrite c_split_L2S, Hs. cbn [map skip_field]. rewrite eqb_L2S, Hh. split; reflexivity.
  - cbn [forallb] in Hp. apply andb_true_iff in Hp. destruct Hp as [Hp1 Hp2].
    destruct (IH l0 rest w ws Hp2 Hs Hh) as [I1 I2]. cbn zeta in I1, I2.
    assert (Hsk : skip_field (c_split (L2S p)) = true).
    { rewrite c_split_L2S. unfold skipped in Hp1. destruct (split_ws p) as [| w0 r0]; [reflexivity |]. cbn [map skip_field]. rewrite eqb_L2S. exact Hp1. }
    rewrite Hsk, I1. split; [reflexivity | exact I2].
Qed.

Lemma xyz_rejects_after_skipped : forall pre l0 rest w ws,
  forallb skipped pre = true -> split_ws l0 = w :: ws -> str_eqb w (S2L "#") = false -> (ws <> [] \/ parse_int w = None) ->
  conc_xyz (pre ++ l0 :: rest) = Raise FormatError.
Proof.
  intros pre l0 rest w ws Hp Hs Hh Hw. unfold conc_xyz, parse_xyz.
  destruct (leading_skipped pre l0 rest w ws Hp Hs Hh) as [Hc Hn]. cbn zeta in Hc, Hn. rewrite Hc.
  unfold xyz_header, idx. rewrite Hn. cbn [bind nth_error map List.length].
  destruct ws as [| w2 ws'].
  - destruct Hw as [Hw | Hw]; [congruence |]. cbn [map List.length Nat.eqb]. rewrite c_int_L2S, Hw. cbn [bind].
    vm_compute. reflexivity.
  - cbn [map List.length Nat.eqb]. vm_compute. reflexivity.
Qed.

Lemma rawxyz_rejects_after_skipped : forall pre l0 rest w ws la wa,
  forallb skipped pre = true -> split_ws l0 = w :: ws -> str_eqb w (S2L "#") = false ->
  In la (l0 :: rest) -> split_ws la = [wa] ->
  rejected (conc_rawxyz (pre ++ l0 :: rest)).
Proof.
  intros pre l0 rest w ws la wa Hp Hs Hh Hla Hsa.
  apply documented_not_ok_rejected; [apply rawxyz_documented |].
  intros n H. unfold conc_rawxyz, parse_rawxyz in H.
  destruct (leading_skipped pre l0 rest w ws Hp Hs Hh) as [Hstart Hlf0]. cbn zeta in Hstart, Hlf0.
  set (lines := map L2S (pre ++ l0 :: rest)) in *. set (lf := map c_split lines) in *.
  rewrite Hstart in H.
  destruct (trim_stop (S (List.length lines)) lf (List.length pre) (List.length lines)) as [stop |] eqn:Et; cbn [bind] in H; [| discriminate].
  assert (Hstop : List.length pre < stop).
  { eapply trim_lower; [exact Et | exact Hlf0 | reflexivity | unfold lines; rewrite map_length, app_length; cbn; lia | lia]. }
  destruct (Nat.leb stop (List.length pre)) eqn:El; [apply Nat.leb_le in El; lia |].
  unfold idx in H. rewrite Hlf0 in H. cbn [bind] in H.
  destruct (mapM (isfloat dec c_float) (map L2S (w :: ws))) as [ff |]; cbn [bind] in H; [| discriminate].
  set (nf := List.length (map L2S (w :: ws))) in *.
  destruct (Nat.eqb nf 3 || Nat.eqb nf 4) eqn:E34; cbn [negb] in H; [| discriminate].
  assert (Hnf : nf <> 1) by (intros E1; rewrite E1 in E34; discriminate).
  match type of H with bind ?lay _ = _ => destruct lay as [layout |]; cbn [bind] in H; [| discriminate] end.
  apply try_reraise_ok in H.
  destruct (foldM_ok_all _ _ _ _ _ _ H (c_split (L2S la))) as [s1 [s2 Hrow]].
  { unfold lf, lines. rewrite !map_app.
    replace (List.length pre) with (List.length (map c_split (map L2S pre))) by (rewrite !map_length; reflexivity).
    rewrite skipn_app, skipn_all, Nat.sub_diag. cbn [skipn app]. apply in_map. apply in_map. exact Hla. }
  rewrite c_split_L2S, Hsa in Hrow. unfold rawxyz_record in Hrow. cbn [map is_nil List.length] in Hrow.
  destruct (Nat.eqb 1 nf) eqn:E1; [apply Nat.eqb_eq in E1; congruence |]. discriminate.
Qed.
