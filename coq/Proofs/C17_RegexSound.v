(* C17 - a pattern whose character classes are all numeric accepts only strings of numeric characters;
   bounded agreement of a pattern with the reference recogniser. *)
From Coq Require Import NArith List Bool Lia.
From DS Require Import Model.C17_Regex.
Import ListNotations.
Open Scope N_scope.

Lemma dead_mkseq : forall a b, dead a || dead b = true -> dead (mkseq a b) = true.
Proof.
  intros a b H. destruct a, b; simpl in *; rewrite ?orb_false_r, ?orb_true_r in *;
    try reflexivity; try discriminate; try assumption.
Qed.

Lemma dead_mkalt : forall a b, dead a = true -> dead b = true -> dead (mkalt a b) = true.
Proof. intros a b Ha Hb. destruct a, b; simpl in *; try reflexivity; try discriminate; rewrite ?Ha, ?Hb; reflexivity. Qed.

Lemma dead_not_nullable : forall r, dead r = true -> nullable r = false.
Proof.
  induction r; simpl; intro H; try discriminate; try reflexivity.
  - apply orb_true_iff in H. destruct H as [H|H]; [rewrite (IHr1 H); reflexivity|rewrite (IHr2 H); apply andb_false_r].
  - apply andb_true_iff in H. destruct H as [H1 H2]. rewrite (IHr1 H1), (IHr2 H2). reflexivity.
Qed.

Lemma dead_deriv : forall c r, dead r = true -> dead (deriv c r) = true.
Proof.
  intros c. induction r; simpl; intro H; try discriminate; try reflexivity.
  - apply orb_true_iff in H. destruct H as [H|H].
    + rewrite (dead_not_nullable r1 H). apply dead_mkalt; [|reflexivity].
      apply dead_mkseq. rewrite (IHr1 H). reflexivity.
    + apply dead_mkalt.
      * apply dead_mkseq. rewrite H. apply orb_true_r.
      * destruct (nullable r1); [apply IHr2; exact H|reflexivity].
  - apply andb_true_iff in H. destruct H as [H1 H2]. apply dead_mkalt; [apply IHr1|apply IHr2]; assumption.
Qed.

Lemma dead_no_match : forall s r, dead r = true -> rmatch r s = false.
Proof.
  induction s as [|c s IH]; intros r H; simpl.
  - apply dead_not_nullable. exact H.
  - apply IH. apply dead_deriv. exact H.
Qed.

Lemma numeric_mkseq : forall a b, numeric_only a = true -> numeric_only b = true -> numeric_only (mkseq a b) = true.
Proof. intros a b Ha Hb. destruct a, b; simpl in *; try reflexivity; try discriminate; rewrite ?Ha, ?Hb; reflexivity. Qed.
Lemma numeric_mkalt : forall a b, numeric_only a = true -> numeric_only b = true -> numeric_only (mkalt a b) = true.
Proof. intros a b Ha Hb. destruct a, b; simpl in *; try reflexivity; try discriminate; rewrite ?Ha, ?Hb; reflexivity. Qed.

Lemma numeric_deriv : forall c r, numeric_only r = true -> numeric_only (deriv c r) = true.
Proof.
  intros c. induction r; simpl; intro H; try reflexivity; try discriminate.
  - destruct (in_set c cs); reflexivity.
  - apply andb_true_iff in H. destruct H as [H1 H2]. apply numeric_mkalt.
    + apply numeric_mkseq; [apply IHr1; exact H1|exact H2].
    + destruct (nullable r1); [apply IHr2; exact H2|reflexivity].
  - apply andb_true_iff in H. destruct H as [H1 H2]. apply numeric_mkalt; [apply IHr1|apply IHr2]; assumption.
  - apply numeric_mkseq; [apply IHr; exact H|exact H].
Qed.

Lemma in_set_num : forall c cs, forallb num_char cs = true -> in_set c cs = true -> num_char c = true.
Proof.
  intros c cs H I. unfold in_set in I. apply existsb_exists in I. destruct I as [x [Hx E]].
  apply N.eqb_eq in E. subst x. rewrite forallb_forall in H. apply H. exact Hx.
Qed.

Lemma non_numeric_kills : forall c r, numeric_only r = true -> num_char c = false -> dead (deriv c r) = true.
Proof.
  intros c. induction r; simpl; intros H Hc; try reflexivity; try discriminate.
  - destruct (in_set c cs) eqn:E; [|reflexivity]. rewrite (in_set_num c cs H E) in Hc. discriminate.
  - apply andb_true_iff in H. destruct H as [H1 H2]. apply dead_mkalt.
    + apply dead_mkseq. rewrite (IHr1 H1 Hc). reflexivity.
    + destruct (nullable r1); [apply IHr2; assumption|reflexivity].
  - apply andb_true_iff in H. destruct H as [H1 H2]. apply dead_mkalt; [apply IHr1|apply IHr2]; assumption.
  - apply dead_mkseq. rewrite (IHr H Hc). reflexivity.
Qed.

(* for ALL strings: a match consists of numeric characters only *)
Theorem numeric_only_sound : forall s r, numeric_only r = true -> rmatch r s = true -> forallb num_char s = true.
Proof.
  induction s as [|c s IH]; intros r H M; simpl; [reflexivity|].
  simpl in M. destruct (num_char c) eqn:E; simpl.
  - apply (IH (deriv c r)); [apply numeric_deriv; exact H|exact M].
  - rewrite (dead_no_match s _ (non_numeric_kills c r H E)) in M. discriminate.
Qed.

(* bounded agreement with the reference recogniser *)
Lemma agree_S : forall n r q, agree (S n) r q =
  Bool.eqb (nullable r) (naccept q) && forallb (fun c => agree n (deriv c r) (nstep q c)) probe_alphabet.
Proof. reflexivity. Qed.
Lemma agree_head : forall n r q, agree n r q = true -> nullable r = naccept q.
Proof. intros n r q A. destruct n; [simpl in A|rewrite agree_S in A]; apply andb_true_iff in A; destruct A as [A _]; apply eqb_prop; exact A. Qed.

Lemma agree_sound : forall n r q, agree n r q = true ->
  forall s, (List.length s <= n)%nat -> (forall c, In c s -> In c probe_alphabet) ->
  rmatch r s = naccept (nrun q s).
Proof.
  induction n as [|n IH]; intros r q A s L Hs.
  - destruct s; [|simpl in L; lia]. simpl. apply (agree_head 0). exact A.
  - destruct s as [|c s]; [simpl; apply (agree_head (S n)); exact A|].
    rewrite agree_S in A. apply andb_true_iff in A. destruct A as [_ A].
    rewrite forallb_forall in A. simpl. unfold nrun. simpl. fold (nrun (nstep q c) s).
    apply (IH (deriv c r) (nstep q c)).
    + apply A. apply Hs. left. reflexivity.
    + simpl in L. lia.
    + intros x Hx. apply Hs. right. exact Hx.
Qed.

(* the recogniser itself accepts only numeric characters *)
Example spec_examples :
  is_number_sum [49; 47; 50] = true /\ is_number_sum [43; 46; 50; 53] = true /\ is_number_sum [] = true
  /\ is_number_sum [49; 47; 50; 43; 49; 47; 51] = true /\ is_number_sum [49; 101; 45; 49] = true
  /\ is_number_sum [49; 47; 50; 42; 51] = false /\ is_number_sum [49; 47; 50; 101; 51] = false
  /\ is_number_sum [49; 47] = false /\ is_number_sum [43] = false /\ is_number_sum [49; 47; 50; 10] = false.
Proof. vm_compute. repeat split; reflexivity. Qed.
