(* C18 - proofs about the ellipsoid cut-out model (Model/C18_Ellipsoid.v over Gen/C18_Spec.v and the C15 model). *)
From Coq Require Import Reals ZArith QArith List Bool Lia Lra.
From DS Require Import Base.RMat Base.C09_GNum Gen.C15_Spec Model.C15_Supercell Gen.C18_Spec Model.C18_Ellipsoid
  Proofs.C15_Lists Proofs.C15_Supercell.
Import ListNotations.
Open Scope nat_scope.

(* ---------------- deleting by descending index = filtering ---------------- *)
Lemma pop_prefix {A} (p : list A) x r : pop (length p) (p ++ x :: r) = p ++ r.
Proof.
  unfold pop. rewrite firstn_app, Nat.sub_diag, firstn_all. cbn [firstn]. rewrite app_nil_r.
  replace (S (length p)) with (length (p ++ [x])) by (rewrite app_length; cbn; lia).
  replace (p ++ x :: r) with ((p ++ [x]) ++ r) by (rewrite <- app_assoc; reflexivity).
  rewrite skipn_app, Nat.sub_diag, skipn_all. reflexivity.
Qed.

Lemma pop_fold_filter {A} (P : A -> bool) (l : list A) : forall p,
  fold_right (fun i acc => pop i acc) (p ++ l) (idx_from P (length p) l) = p ++ filter (fun x => negb (P x)) l.
Proof.
  induction l as [|x r IH]; intros p; [reflexivity|]. cbn [idx_from filter].
  specialize (IH (p ++ [x])). rewrite app_length in IH. cbn [length] in IH. rewrite Nat.add_1_r, <- !app_assoc in IH. cbn [app] in IH.
  destruct (P x); cbn [negb fold_right].
  - rewrite IH. apply pop_prefix.
  - exact IH.
Qed.

Lemma pop_descending_is_filter_l {A} (P : A -> bool) (l : list A) :
  pop_all (del_list P l) l = filter (fun x => negb (P x)) l.
Proof.
  unfold pop_all, del_list.
  rewrite <- (fold_left_rev_right (fun i acc => pop i acc) (rev (idx_from P 0 l)) l), rev_involutive.
  apply (pop_fold_filter P l []).
Qed.

(* ---------------- structure of a successful call (any number type) ---------------- *)
Section AnyT.
Context {T : Type} (O : ops T) (tceil : T -> Z) {P : Type}.

Lemma make_ellipsoid_ok (S : einput T P) a b c S' : make_ellipsoid O tceil S a b c = EOk S' ->
  let sabc := GV a b c in let m := block_size O tceil sabc (e_recbase S) in let B := scaled_base O m (e_base S) in
  exists newS ctr, supercell O (e_S S) [inject_Z m; inject_Z m; inject_Z m] = Ok newS /\
    py_nth (s_atoms newS) (find_center O B (s_atoms newS)) = Some ctr /\ In ctr (s_atoms newS) /\
    s_atoms S' = filter (fun x => negb (outside O B sabc (cart O B ctr) x)) (s_atoms newS) /\ s_cell S' = s_cell newS.
Proof.
  unfold make_ellipsoid. cbv zeta. intros E.
  destruct (supercell O (e_S S) _) as [newS|] eqn:Es; [|discriminate].
  destruct (py_nth (s_atoms newS) _) as [ctr|] eqn:Ec; [|discriminate]. inversion E; subst S'. clear E.
  exists newS, ctr. split; [reflexivity|]. split; [exact Ec|]. split.
  - unfold py_nth in Ec. destruct (_ || _)%bool; [discriminate|]. apply nth_error_In in Ec. exact Ec.
  - cbn [s_atoms s_cell]. split; [apply pop_descending_is_filter_l | reflexivity].
Qed.

Lemma make_ellipsoid_error (S : einput T P) a b c :
  let m := block_size O tceil (GV a b c) (e_recbase S) in
  (make_ellipsoid O tceil S a b c = EValueError <-> (m < 1)%Z).
Proof.
  cbv zeta. unfold make_ellipsoid. cbv zeta. set (m := block_size O tceil (GV a b c) (e_recbase S)).
  split.
  - intros E. destruct (supercell O (e_S S) _) as [newS|] eqn:Es.
    + destruct (py_nth _ _); discriminate.
    + unfold supercell in Es. destruct (validate _) as [lmn|] eqn:V; [destruct (triple_eqb lmn c15_shortcut); [discriminate | destruct lmn as [[? ?] ?]; discriminate]|].
      apply validate_error in V. destruct (Z_lt_le_dec m 1) as [H|H]; [exact H|]. exfalso. apply V.
      exists (inject_Z m), (inject_Z m), (inject_Z m). repeat split; try reflexivity; apply ge1_inject; exact H.
  - intros H. assert (V : validate [inject_Z m; inject_Z m; inject_Z m] = ValueError).
    { apply validate_error. intros [x [y [z [E [Hx _]]]]]. inversion E; subst. unfold ge1, Qle, inject_Z in Hx. cbn in Hx. lia. }
    unfold supercell. rewrite V. reflexivity.
Qed.

Lemma sphere_is_ellipsoid (S : einput T P) r : make_sphere O tceil S r = make_ellipsoid O tceil S r r r.
Proof. reflexivity. Qed.

(* the default-argument forms, with the defaults carried from the source: c omitted means c = a (NOT b) *)
Lemma ellipsoid_defaults (S : einput T P) a :
  make_ellipsoid_opt O tceil S a None None = make_ellipsoid O tceil S a a a /\
  (forall b, make_ellipsoid_opt O tceil S a (Some b) None = make_ellipsoid O tceil S a b a) /\
  (forall c, make_ellipsoid_opt O tceil S a None (Some c) = make_ellipsoid O tceil S a a c) /\
  (forall b c, make_ellipsoid_opt O tceil S a (Some b) (Some c) = make_ellipsoid O tceil S a b c).
Proof. repeat split; reflexivity. Qed.
End AnyT.

(* ---------------- real-number facts ---------------- *)
Open Scope R_scope.
(* ceil on the reals: -floor(-x) with floor y = up y - 1 *)
Definition Rceil (x : R) : Z := (1 - up (- x))%Z.
Lemma Rceil_ge1 x : (1 <= Rceil x)%Z <-> 0 < x.
Proof.
  unfold Rceil. destruct (archimed (- x)) as [H1 H2]. split.
  - intros H. assert (up (- x) <= 0)%Z by lia. apply IZR_le in H0. lra.
  - intros H. assert (IZR (up (- x)) < 1) by lra. apply lt_IZR in H0. lia.
Qed.

Section Real.
Context {P : Type}.

Lemma crit_center (v sabc : gvec R) : c18_crit ROps v v sabc = 0.
Proof. dgv v; dgv sabc. unfold c18_crit. g_simpl. unfold Rdiv. ring. Qed.

Lemma outside_false B sabc cxyz (x : atom R P) : outside ROps B sabc cxyz x = false <-> c18_crit ROps (cart ROps B x) cxyz sabc <= 1.
Proof. unfold outside. cbn [tltb t1 ROps]. apply Rltb_false. Qed.

(* everything the property says about the returned list, for real arithmetic *)
Lemma ellipsoid_result (S : einput R P) a b c S' : make_ellipsoid ROps Rceil S a b c = EOk S' ->
  let sabc := GV a b c in let m := block_size ROps Rceil sabc (e_recbase S) in let B := scaled_base ROps m (e_base S) in
  exists newS ctr,
    (1 <= m)%Z /\
    supercell ROps (e_S S) [inject_Z m; inject_Z m; inject_Z m] = Ok newS /\
    s_atoms newS = flat_map (images ROps (Z.to_nat m) (Z.to_nat m) (Z.to_nat m)) (s_atoms (e_S S)) /\
    s_cell S' = scale_cell ROps (Z.to_nat m) (Z.to_nat m) (Z.to_nat m) (s_cell (e_S S)) /\
    (* the centre is a returned atom *)
    In ctr (s_atoms S') /\
    (* returned atoms = the block atoms inside the ellipsoid centred on it, in block order *)
    s_atoms S' = filter (fun x => negb (outside ROps B sabc (cart ROps B ctr) x)) (s_atoms newS) /\
    (forall x, In x (s_atoms S') -> In x (s_atoms newS) /\ c18_crit ROps (cart ROps B x) (cart ROps B ctr) sabc <= 1) /\
    (forall x, In x (s_atoms newS) -> c18_crit ROps (cart ROps B x) (cart ROps B ctr) sabc <= 1 -> In x (s_atoms S')).
Proof.
  intros E. cbv zeta. destruct (make_ellipsoid_ok ROps Rceil S a b c S' E) as [newS [ctr [Es [Ec [Hin [Ea Ecell]]]]]].
  cbv zeta in *. set (m := block_size ROps Rceil (GV a b c) (e_recbase S)) in *.
  destruct (supercell_ok _ _ _ Es) as [l [m' [n [V [Hl [Hm [Hn [Hat Hcell]]]]]]]].
  assert (Vm : validate [inject_Z m; inject_Z m; inject_Z m] = Ok (m, m, m)).
  { apply validate_ok in V. destruct V as [x [y [z [E0 [Hx [_ [_ _]]]]]]]. inversion E0; subst.
    apply validate_ok. exists (inject_Z m), (inject_Z m), (inject_Z m). rewrite !py_int_inject. repeat split; assumption. }
  rewrite Vm in V. inversion V. assert (Hm1 : (1 <= m)%Z) by lia.
  assert (l = Z.to_nat m) by lia. assert (m' = Z.to_nat m) by lia. assert (n = Z.to_nat m) by lia. subst l m' n.
  exists newS, ctr. split; [exact Hm1|]. split; [exact Es|]. split; [exact Hat|]. split; [rewrite Ecell; exact Hcell|].
  assert (Hc : outside ROps (scaled_base ROps m (e_base S)) (GV a b c) (cart ROps (scaled_base ROps m (e_base S)) ctr) ctr = false).
  { apply outside_false. rewrite crit_center. lra. }
  split; [rewrite Ea; apply filter_In; split; [exact Hin | rewrite Hc; reflexivity]|].
  split; [exact Ea|]. split.
  - intros x Hx. rewrite Ea in Hx. apply filter_In in Hx. destruct Hx as [H1' H2']. split; [exact H1'|].
    apply outside_false. destruct (outside _ _ _ _ x); [discriminate | reflexivity].
  - intros x Hx Hle. rewrite Ea. apply filter_In. split; [exact Hx|]. apply outside_false in Hle. rewrite Hle. reflexivity.
Qed.

(* the call is rejected exactly when no component of `frac` is positive *)
Lemma block_size_ge1 (sabc : gvec R) (rb : gmat R) :
  (1 <= block_size ROps Rceil sabc rb)%Z <->
  (0 < x0 (c18_frac ROps sabc rb) \/ 0 < x1 (c18_frac ROps sabc rb) \/ 0 < x2 (c18_frac ROps sabc rb)).
Proof.
  unfold block_size, two, c18_mno_factor. cbv zeta. cbn [tmul tofZ ROps].
  set (f := c18_frac ROps sabc rb).
  pose proof (Rceil_ge1 (2 * x0 f)) as A0. pose proof (Rceil_ge1 (2 * x1 f)) as A1. pose proof (Rceil_ge1 (2 * x2 f)) as A2.
  split.
  - intros H. destruct (Z_lt_le_dec (Rceil (2 * x0 f)) 1); [|left; apply A0 in l; lra].
    destruct (Z_lt_le_dec (Rceil (2 * x1 f)) 1); [|right; left; apply A1 in l0; lra].
    destruct (Z_lt_le_dec (Rceil (2 * x2 f)) 1); [lia | right; right; apply A2 in l1; lra].
  - intros [H|[H|H]].
    + assert (1 <= Rceil (2 * x0 f))%Z by (apply A0; lra). lia.
    + assert (1 <= Rceil (2 * x1 f))%Z by (apply A1; lra). lia.
    + assert (1 <= Rceil (2 * x2 f))%Z by (apply A2; lra). lia.
Qed.

Lemma rejected_iff (S : einput R P) a b c :
  make_ellipsoid ROps Rceil S a b c = EValueError <->
  let f := c18_frac ROps (GV a b c) (e_recbase S) in x0 f <= 0 /\ x1 f <= 0 /\ x2 f <= 0.
Proof.
  cbv zeta. rewrite (make_ellipsoid_error ROps Rceil S a b c). cbv zeta.
  pose proof (block_size_ge1 (GV a b c) (e_recbase S)) as H. split.
  - intros Hlt. repeat split; apply Rnot_lt_le; intros Hp; assert (1 <= block_size ROps Rceil (GV a b c) (e_recbase S))%Z by (apply H; tauto); lia.
  - intros [H0 [H1 H2]]. destruct (Z_lt_le_dec (block_size ROps Rceil (GV a b c) (e_recbase S)) 1) as [Hl|Hl]; [exact Hl|].
    apply H in Hl. lra.
Qed.
(* ---------------- completeness inside the returned cell ---------------- *)
(* the crystal site "parent a displaced by the whole cell vectors t0 a1 + t1 a2 + t2 a3", written in the fractional
   coordinates of the returned (m x m x m) cell, with the parent's payload *)
Definition site (m : Z) (a : atom R P) (t0 t1 t2 : Z) : atom R P :=
  Atom (GV ((x0 (at_xyz a) + IZR t0) / IZR m) ((x1 (at_xyz a) + IZR t1) / IZR m) ((x2 (at_xyz a) + IZR t2) / IZR m)) (at_pay a).
Definition in_unit (x : R) : Prop := 0 <= x < 1.
Definition in_unit3 (v : gvec R) : Prop := in_unit (x0 v) /\ in_unit (x1 v) /\ in_unit (x2 v).

Lemma shift_range (m t : Z) x : (1 <= m)%Z -> in_unit x -> in_unit ((x + IZR t) / IZR m) -> (0 <= t < m)%Z.
Proof.
  intros Hm [Hx0 Hx1] [H0 H1]. assert (Hmr : 0 < IZR m) by (apply IZR_lt; lia).
  assert (A : 0 <= x + IZR t).
  { apply (Rmult_le_compat_r (IZR m)) in H0; [|lra]. unfold Rdiv in H0. rewrite Rmult_assoc, Rinv_l in H0; lra. }
  assert (B : x + IZR t < IZR m).
  { apply (Rmult_lt_compat_r (IZR m)) in H1; [|lra]. unfold Rdiv in H1. rewrite Rmult_assoc, Rinv_l in H1; lra. }
  split.
  - assert (IZR (-1) < IZR t) by (rewrite <- (Ropp_involutive (IZR t)) at 1; simpl; lra). apply lt_IZR in H. lia.
  - assert (IZR t < IZR m) by lra. apply lt_IZR in H. exact H.
Qed.

Lemma site_is_image (m : Z) (a : atom R P) t0 t1 t2 : (0 <= t0)%Z -> (0 <= t1)%Z -> (0 <= t2)%Z -> (1 <= m)%Z ->
  site m a t0 t1 t2 = image ROps (Z.to_nat m) (Z.to_nat m) (Z.to_nat m) a (Z.to_nat t0, Z.to_nat t1, Z.to_nat t2).
Proof.
  intros. unfold site, image, c15_coord, nT. cbn [tdiv tadd tofZ ROps]. rewrite !Z2Nat.id by lia. reflexivity.
Qed.

Lemma complete_in_cell (S : einput R P) a b c S' : make_ellipsoid ROps Rceil S a b c = EOk S' ->
  let sabc := GV a b c in let m := block_size ROps Rceil sabc (e_recbase S) in let B := scaled_base ROps m (e_base S) in
  Forall (fun p => in_unit3 (at_xyz p)) (s_atoms (e_S S)) ->
  exists ctr, In ctr (s_atoms S') /\
    forall p t0 t1 t2, In p (s_atoms (e_S S)) -> in_unit3 (at_xyz (site m p t0 t1 t2)) ->
      c18_crit ROps (cart ROps B (site m p t0 t1 t2)) (cart ROps B ctr) sabc <= 1 -> In (site m p t0 t1 t2) (s_atoms S').
Proof.
  intros E. cbv zeta. intros Hin. destruct (ellipsoid_result S a b c S' E) as [newS [ctr [Hm [_ [Hat [_ [Hc [_ [_ Hall]]]]]]]]].
  cbv zeta in *. set (m := block_size ROps Rceil (GV a b c) (e_recbase S)) in *.
  exists ctr. split; [exact Hc|]. intros p t0 t1 t2 Hp [U0 [U1 U2]] Hle.
  rewrite Forall_forall in Hin. destruct (Hin p Hp) as [P0 [P1 P2]]. cbn [site at_xyz x0 x1 x2] in U0, U1, U2.
  destruct (shift_range m t0 _ Hm P0 U0). destruct (shift_range m t1 _ Hm P1 U1). destruct (shift_range m t2 _ Hm P2 U2).
  apply Hall; [|exact Hle]. rewrite Hat. apply in_flat_map. exists p. split; [exact Hp|].
  rewrite site_is_image by lia. unfold images. apply in_map. apply ijk_in. lia.
Qed.

(* ---------------- exactly the sites inside the ellipsoid and the returned cell ---------------- *)
Lemma shift_range_conv (m t : Z) x : (1 <= m)%Z -> in_unit x -> (0 <= t < m)%Z -> in_unit ((x + IZR t) / IZR m).
Proof.
  intros Hm [Hx0 Hx1] [Ht0 Ht1]. assert (Hmr : 0 < IZR m) by (apply IZR_lt; lia).
  assert (0 <= IZR t) by (apply IZR_le; lia). assert (IZR t <= IZR m - 1) by (rewrite <- minus_IZR; apply IZR_le; lia).
  split.
  - unfold Rdiv. apply Rmult_le_pos; [lra | left; apply Rinv_0_lt_compat; exact Hmr].
  - apply (Rmult_lt_reg_r (IZR m)); [exact Hmr|]. unfold Rdiv. rewrite Rmult_assoc, Rinv_l by lra. lra.
Qed.

Lemma unit_int_diff x y (d : Z) : in_unit x -> in_unit y -> x - y = IZR d -> d = 0%Z.
Proof.
  intros [A B] [A' B'] E. assert (IZR (-1) < IZR d) by (rewrite <- E; simpl; lra). assert (IZR d < IZR 1) by (rewrite <- E; simpl; lra).
  apply lt_IZR in H, H0. lia.
Qed.

Lemma exact_in_cell (S : einput R P) a b c S' : make_ellipsoid ROps Rceil S a b c = EOk S' ->
  let sabc := GV a b c in let m := block_size ROps Rceil sabc (e_recbase S) in let B := scaled_base ROps m (e_base S) in
  Forall (fun p => in_unit3 (at_xyz p)) (s_atoms (e_S S)) ->
  exists ctr, In ctr (s_atoms S') /\
    (forall x, In x (s_atoms S') -> exists p t0 t1 t2, In p (s_atoms (e_S S)) /\ x = site m p t0 t1 t2) /\
    (forall p t0 t1 t2, In p (s_atoms (e_S S)) ->
       (In (site m p t0 t1 t2) (s_atoms S') <->
        in_unit3 (at_xyz (site m p t0 t1 t2)) /\ c18_crit ROps (cart ROps B (site m p t0 t1 t2)) (cart ROps B ctr) sabc <= 1)).
Proof.
  intros E. cbv zeta. intros Hin. destruct (ellipsoid_result S a b c S' E) as [newS [ctr [Hm [_ [Hat [_ [Hc [_ [Hsound Hall]]]]]]]]].
  cbv zeta in *. set (m := block_size ROps Rceil (GV a b c) (e_recbase S)) in *.
  assert (Hblock : forall x, In x (s_atoms newS) -> exists q i j k, In q (s_atoms (e_S S)) /\ (i < Z.to_nat m /\ j < Z.to_nat m /\ k < Z.to_nat m)%nat /\
                     x = site m q (Z.of_nat i) (Z.of_nat j) (Z.of_nat k)).
  { intros x Hx. rewrite Hat in Hx. apply in_flat_map in Hx. destruct Hx as [q [Hq Hx]]. unfold images in Hx. apply in_map_iff in Hx.
    destruct Hx as [[[i j] k] [Ex Ht]]. apply ijk_in in Ht. exists q, i, j, k. split; [exact Hq|]. split; [exact Ht|].
    rewrite site_is_image by lia. rewrite !Nat2Z.id. symmetry. exact Ex. }
  rewrite Forall_forall in Hin.
  exists ctr. split; [exact Hc|]. split.
  - intros x Hx. destruct (Hsound x Hx) as [Hx' _]. destruct (Hblock x Hx') as [q [i [j [k [Hq [_ Ex]]]]]]. exists q, (Z.of_nat i), (Z.of_nat j), (Z.of_nat k). split; assumption.
  - intros p t0 t1 t2 Hp. destruct (Hin p Hp) as [P0 [P1 P2]]. split.
    + intros Hs. destruct (Hsound _ Hs) as [Hn Hle]. split; [|exact Hle].
      destruct (Hblock _ Hn) as [q [i [j [k [Hq [[Hi [Hj Hk]] Ex]]]]]]. destruct (Hin q Hq) as [Q0 [Q1 Q2]].
      assert (Hmr : IZR m <> 0) by (apply not_0_IZR; lia).
      unfold site in Ex. inversion Ex as [[E0 E1 E2 Epay]]. unfold Rdiv in E0, E1, E2.
      apply Rmult_eq_reg_r in E0, E1, E2; try (apply Rinv_neq_0_compat; exact Hmr).
      assert (D0 : (Z.of_nat i - t0 = 0)%Z) by (apply (unit_int_diff (x0 (at_xyz p)) (x0 (at_xyz q))); [assumption | assumption | rewrite minus_IZR; lra]).
      assert (D1 : (Z.of_nat j - t1 = 0)%Z) by (apply (unit_int_diff (x1 (at_xyz p)) (x1 (at_xyz q))); [assumption | assumption | rewrite minus_IZR; lra]).
      assert (D2 : (Z.of_nat k - t2 = 0)%Z) by (apply (unit_int_diff (x2 (at_xyz p)) (x2 (at_xyz q))); [assumption | assumption | rewrite minus_IZR; lra]).
      cbn [site at_xyz x0 x1 x2]. repeat split; apply shift_range_conv; try assumption; lia.
    + intros [[U0 [U1 U2]] Hle]. cbn [site at_xyz x0 x1 x2] in U0, U1, U2.
      destruct (shift_range m t0 _ Hm P0 U0). destruct (shift_range m t1 _ Hm P1 U1). destruct (shift_range m t2 _ Hm P2 U2).
      apply Hall; [|exact Hle]. rewrite Hat. apply in_flat_map. exists p. split; [exact Hp|].
      rewrite site_is_image by lia. unfold images. apply in_map. apply ijk_in. lia.
Qed.

(* ---------------- no site listed twice ---------------- *)
Definition int_apart (p q : atom R P) : Prop :=
  exists t0 t1 t2 : Z, x0 (at_xyz p) - x0 (at_xyz q) = IZR t0 /\ x1 (at_xyz p) - x1 (at_xyz q) = IZR t1 /\ x2 (at_xyz p) - x2 (at_xyz q) = IZR t2.
(* no two atoms of the input (at different list positions) occupy the same site modulo the cell *)
Definition no_coincident (atoms : list (atom R P)) : Prop := ForallOrdPairs (fun p q => ~ int_apart p q) atoms.

Lemma nodup_map_filter {A B} (g : A -> B) (f : A -> bool) (l : list A) : NoDup (map g l) -> NoDup (map g (filter f l)).
Proof.
  induction l as [|x r IH]; intros H; [constructor|]. cbn in *. inversion H; subst. destruct (f x); [|apply IH; assumption].
  cbn. constructor; [|apply IH; assumption]. intros Hin. apply H2. apply in_map_iff in Hin. destruct Hin as [y [E Hy]].
  apply filter_In in Hy. apply in_map_iff. exists y. tauto.
Qed.

Lemma nR_inj i j : nR i = nR j -> i = j.
Proof. unfold nR. intros H. apply eq_IZR in H. lia. Qed.

Lemma image_xyz_diff m (p q : atom R P) t t' : (0 < m)%nat ->
  at_xyz (image ROps m m m p t) = at_xyz (image ROps m m m q t') ->
  x0 (at_xyz p) - x0 (at_xyz q) = IZR (Z.of_nat (fst (fst t')) - Z.of_nat (fst (fst t))) /\
  x1 (at_xyz p) - x1 (at_xyz q) = IZR (Z.of_nat (snd (fst t')) - Z.of_nat (snd (fst t))) /\
  x2 (at_xyz p) - x2 (at_xyz q) = IZR (Z.of_nat (snd t') - Z.of_nat (snd t)).
Proof.
  intros Hm E. destruct t as [[i j] k], t' as [[i' j'] k']. rewrite !image_xyz in E. pose proof (nR_pos m Hm) as Hz.
  inversion E as [[E0 E1 E2]]. cbn [fst snd]. rewrite !minus_IZR. fold (nR i) (nR j) (nR k) (nR i') (nR j') (nR k').
  unfold Rdiv in *. apply Rmult_eq_reg_r in E0, E1, E2; try (apply Rinv_neq_0_compat; exact Hz). repeat split; lra.
Qed.

Lemma images_nodup_xyz m (p : atom R P) : (0 < m)%nat -> NoDup (map (@at_xyz R P) (images ROps m m m p)).
Proof.
  intros Hm. unfold images. rewrite map_map. apply nodup_map_inj_in; [apply ijk_nodup|].
  intros t t' _ _ E. destruct (image_xyz_diff m p p t t' Hm E) as [A [B C]].
  rewrite Rminus_diag_eq in A, B, C by reflexivity. apply eq_sym, eq_IZR in A, B, C.
  destruct t as [[i j] k], t' as [[i' j'] k']. cbn [fst snd] in *. f_equal; [f_equal|]; lia.
Qed.

Lemma block_nodup_xyz m (atoms : list (atom R P)) : (0 < m)%nat -> no_coincident atoms ->
  NoDup (map (@at_xyz R P) (flat_map (images ROps m m m) atoms)).
Proof.
  intros Hm H. induction H as [|p r Hp Hr IH]; [constructor|]. cbn [flat_map]. rewrite map_app. apply nodup_app.
  - apply images_nodup_xyz. exact Hm.
  - exact IH.
  - intros v Hv Hv'. apply in_map_iff in Hv, Hv'. destruct Hv as [u [Eu Hu]], Hv' as [w [Ew Hw]].
    unfold images in Hu. apply in_map_iff in Hu. destruct Hu as [t [Et _]]. apply in_flat_map in Hw. destruct Hw as [q [Hq Hw]].
    unfold images in Hw. apply in_map_iff in Hw. destruct Hw as [t' [Et' _]]. subst u w.
    rewrite Forall_forall in Hp. apply (Hp q Hq). rewrite <- Ew in Eu.
    destruct (image_xyz_diff m p q t t' Hm Eu) as [A [B C]]. eexists _, _, _. repeat split; eassumption.
Qed.

Lemma ellipsoid_nodup (S : einput R P) a b c S' : make_ellipsoid ROps Rceil S a b c = EOk S' ->
  no_coincident (s_atoms (e_S S)) -> NoDup (map (@at_xyz R P) (s_atoms S')).
Proof.
  intros E H. destruct (ellipsoid_result S a b c S' E) as [newS [ctr [Hm [_ [Hat [_ [_ [Ea _]]]]]]]]. cbv zeta in *.
  rewrite Ea. apply nodup_map_filter. rewrite Hat. apply block_nodup_xyz; [lia | exact H].
Qed.
End Real.
