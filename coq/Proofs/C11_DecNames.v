From Coq Require Import ZArith List Bool String.
From DS Require Import Base.ZMat Base.SGDefs Model.C11_LookupDefs Model.C11_Checks Gen.SGTables Gen.LookupSpec.
Import ListNotations.
Lemma by_name_b : with_table (fun T => forallb (names_ok T) all_settings) = true.
Proof. vm_compute. reflexivity. Qed.
