(* C13 - the P_cif wrapper: positive theorem for scalar-valued items; refutation for the witness class that is
   recorded as a finding (an item that is a list where one value is expected). *)
From Coq Require Import List Bool Arith ZArith Lia.
From DS Require Import Base.C13_Exn Gen.C13_ExcSpec Model.C13_Common Model.C13_Cif Proofs.C13_ExnLemmas.
From Coq Require Import Ascii String.
Import ListNotations.

Section CIF_proofs.
  Variable V CF B : Type.
  Variable read_cif : string -> res CF.
  Variable blocks : CF -> list B.
  Variable has_sites has_cell : B -> bool.
  Variable cell_item : B -> nat -> res string.
  Variable leading_float : string -> res V.
  Variable lattice_of : list V -> res unit.
  Variable atom_sites aniso_sites symops : B -> res unit.

  (* PyCifRW re-raises whatever its generated parser raised; observed: YappsSyntaxError, StarError *)
  Hypothesis read_cif_kinds : forall s, within [StarError; YappsSyntaxError; ValueError] (read_cif s).
  Hypothesis cell_item_kinds : forall b i, within [KeyError] (cell_item b i).
  Hypothesis leading_float_kinds : forall s, within [ValueError] (leading_float s).
  Hypothesis lattice_kinds : forall l, within [ValueError; ZeroDivisionError] (lattice_of l).
  Hypothesis atom_sites_kinds : forall b, within [KeyError; ValueError; IndexError] (atom_sites b).
  Hypothesis aniso_sites_kinds : forall b, within [KeyError; ValueError; IndexError] (aniso_sites b).
  Hypothesis symops_kinds : forall b, within [KeyError; ValueError; IndexError; ZeroDivisionError; FormatError] (symops b).

  Definition cif_ks : list kind := [StarError; YappsSyntaxError; ValueError; KeyError; IndexError; ZeroDivisionError; FormatError].

  Lemma lattice_within : forall b, within cif_ks (cif_lattice V B has_cell cell_item leading_float lattice_of b).
  Proof.
    intros; unfold cif_lattice. destruct (negb (has_cell b)); [exact I |].
    apply within_bind.
    - eapply within_try with (ks := [KeyError; ValueError]).
      + apply within_mapM. intros i _. apply within_bind.
        * eapply within_weaken_b; [| apply cell_item_kinds]; reflexivity.
        * intros s _. eapply within_weaken_b; [| apply leading_float_kinds]; reflexivity.
      + vm_compute; reflexivity.
      + intros k; vm_compute; tauto.
    - intros pars _. eapply within_weaken_b; [| apply lattice_kinds]; reflexivity.
  Qed.

  Lemma block_within : forall b,
    within cif_ks (cif_block V B has_sites has_cell cell_item leading_float lattice_of atom_sites aniso_sites symops b).
  Proof.
    intros; unfold cif_block. destruct (negb (has_sites b)); [exact I |].
    apply within_bind; [apply lattice_within | intros _ _].
    apply within_bind; [eapply within_weaken_b; [| apply atom_sites_kinds]; reflexivity | intros _ _].
    apply within_bind; [eapply within_weaken_b; [| apply aniso_sites_kinds]; reflexivity | intros _ _].
    apply within_bind; [eapply within_weaken_b; [| apply symops_kinds]; reflexivity | intros; exact I].
  Qed.

  Lemma blocks_within : forall bs,
    within cif_ks (cif_blocks V B has_sites has_cell cell_item leading_float lattice_of atom_sites aniso_sites symops bs).
  Proof.
    induction bs as [| b bs IH]; simpl; [exact I |].
    apply within_bind; [apply block_within | intros r _]. destruct r; [exact I | apply IH].
  Qed.

  (* partial: the hypotheses exclude items that are lists where a single value is expected (leading_float and the
     site readers then raise AttributeError/TypeError).  getSymOp is a plain parser since the D1 repair: it raises
     ValueError (bad term, zero denominator) or IndexError (fewer than three components), both within symops_kinds *)
  Theorem only_documented_cif_partial : forall text,
    documented (parse_cif V CF B read_cif blocks has_sites has_cell cell_item leading_float lattice_of
                          atom_sites aniso_sites symops text).
  Proof.
    intros text. apply within_documented. unfold parse_cif, parse_cif_gen.
    eapply within_try with (ks := cif_ks).
    - unfold cif_body. apply within_bind; [eapply within_weaken_b; [| apply read_cif_kinds]; reflexivity |].
      intros cf _. apply blocks_within.
    - vm_compute; reflexivity.
    - intros k; vm_compute; tauto.
  Qed.
End CIF_proofs.

(* the witness class, as an oracle behaviour under which the wrapper lets a foreign kind through *)
Definition cif_with (lf : string -> res unit) (sy : unit -> res unit) : res bool :=
  parse_cif unit unit unit (fun _ => Ok tt) (fun _ => [tt]) (fun _ => true) (fun _ => true)
            (fun _ _ => Ok EmptyString) lf (fun _ => Ok tt) (fun _ => Ok tt) (fun _ => Ok tt) sy EmptyString.

Lemma cif_nonscalar_item_refuted :
  exists lf, (forall s, within [ValueError; AttributeError] (lf s)) /\
             cif_with lf (fun _ => Ok tt) = Raise AttributeError.
Proof. exists (fun _ => Raise AttributeError). split; [intros; simpl; tauto | vm_compute; reflexivity]. Qed.

(* the hypotheses of the positive theorem are satisfiable: a well-behaved instance parses *)
Example cif_instance_ok : cif_with (fun _ => Ok tt) (fun _ => Ok tt) = Ok true.
Proof. vm_compute; reflexivity. Qed.
