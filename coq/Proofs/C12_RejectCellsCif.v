(* C12 - rejection table, part 5: the text of the CIF writer (C04 model print_cif) read by the xyz, rawxyz, pdffit and
   discus parser models.  After an optional `# title` comment and a blank line comes the record `data_3D` (one field, not
   an integer); every other record starts with `_`, `loop_`, or a site label = element symbol followed by digits. *)
From Coq Require Import List Bool Arith ZArith NArith Lia.
From DS Require Import Base.C13_Exn Gen.C13_ExcSpec Model.C13_Common Proofs.C13_ExnLemmas Proofs.C13_Shared.
From DS Require Import Base.C04_Text Base.C04_Decimal Model.C04_Fmt Gen.C04_FmtSpecs Model.C04_Xyz Model.C04_Pdffit Model.C04_Cif
                       Proofs.C04_Fmt Proofs.C04_Lines.
From DS Require Import Model.C12_Conc Proofs.C12_RejectBase Proofs.C12_RejectCells Proofs.C12_RejectCellsPdb Proofs.C12_RejectCellsXcfg.
From Coq Require Import Ascii String.
Import ListNotations.
Close Scope N_scope.
Open Scope nat_scope.
Open Scope list_scope.

Arguments catches : simpl never.
Local Opaque fix_body lpad rpad parse_float parse_int strip lstrip rstrip print_gen.

Definition cif_elements_plain (S : fstru) : bool := forallb (fun a => no_ws (f_el a)) (f_atoms S).

Lemma render_lit_inv : forall lit f' a l, render (FLit lit :: f') a = Some l -> exists r, render f' a = Some r /\ l = lit ++ r.
Proof. intros lit f' a l H. cbn [render] in H. destruct (render f' a) as [r |]; inversion H. eauto. Qed.

Lemma render_str_inv : forall lft w f' t a' l, render (FStr lft w :: f') (AStr t :: a') = Some l ->
  exists r, render f' a' = Some r /\ l = field_pad (FStr lft w) t ++ r.
Proof. intros lft w f' t a' l H. cbn [render field_body] in H. destruct (render f' a') as [r |]; inversion H. eauto. Qed.

(* a label = element symbol ++ decimal digits is never the word `cell` *)
Lemma label_not_cell : forall el z, str_eqb (el ++ int_body z) (S2L "cell") = false.
Proof.
  intros el z. destruct (str_eqb (el ++ int_body z) (S2L "cell")) eqn:E; [| reflexivity]. exfalso.
  apply str_eqb_eq in E. unfold int_body in E.
  pose proof (digitsN_nonnil (Z.abs_N z)) as Hn. pose proof (digitsN_lt10 (Z.abs_N z)) as Hl.
  destruct (digitsN (Z.abs_N z)) as [| d ds]; [contradiction |]. inversion Hl as [| ? ? Hd _]; subst.
  destruct (dchar_props d Hd) as [Hv _].
  assert (Hin : In (dchar d) (S2L "cell")). { rewrite <- E. apply in_or_app; right. apply in_or_app; right. left; reflexivity. }
  cbn in Hin. destruct Hin as [H | [H | [H | [H | []]]]]; rewrite <- H in Hv; vm_compute in Hv; discriminate.
Qed.

(* a record  "  " ++ label left-justified in 5 ++ " " ... : its first word is the label *)
Lemma labelled_row_first : forall f'' lab args l, no_ws lab = true -> lab <> [] ->
  render (FLit (s"  ") :: FStr true 5 :: FLit (s" ") :: f'') (AStr lab :: args) = Some l -> exists ws, split_ws l = lab :: ws.
Proof.
  intros f'' lab args l Hn Hne H.
  destruct (render_lit_inv _ _ _ _ H) as [r1 [H1 ->]]. destruct (render_str_inv _ _ _ _ _ _ H1) as [r2 [H2 ->]].
  destruct (render_lit_inv _ _ _ _ H2) as [r3 [_ ->]].
  change (s"  " ++ field_pad (FStr true 5) lab ++ s" " ++ r3) with (sp :: sp :: (rpad 5 lab ++ sp :: r3)).
  rewrite !(split_ws_cons sp _ eq_refl). Local Transparent rpad. unfold rpad. Local Opaque rpad. rewrite <- app_assoc.
  assert (Hs : starts_ws (repeat sp (5 - List.length lab) ++ sp :: r3) = true) by (destruct (5 - List.length lab); reflexivity).
  destruct (kw_line lab _ Hn Hne (or_intror Hs)) as [K _]. eexists. exact K.
Qed.

Lemma labels_shape : forall l seen labs, map_opt (fun x => x) (labels seen l) = Some labs ->
  Forall2 (fun lab a => exists z, lab = f_el a ++ int_body z) labs l.
Proof.
  induction l as [| a l IH]; intros seen labs H; cbn [labels map_opt] in H; [inversion H; constructor |].
  destruct (render cif_w_label _) as [lab |] eqn:E; [| discriminate].
  destruct (map_opt (fun x => x) (labels (seen ++ [a]) l)) as [r |] eqn:Er; inversion H; subst.
  constructor; [| eapply IH; eassumption].
  unfold cif_w_label in E. cbn [render field_body field_pad] in E. inversion E. rewrite !lpad0, app_nil_r. eauto.
Qed.

Lemma Forall2_combine_in : forall A B (P : A -> B -> Prop) la lb x y, Forall2 P la lb -> In (x, y) (combine la lb) -> P x y.
Proof.
  intros A B P la lb x y HF. induction HF as [| a b la lb Hp HF IH]; cbn [combine]; [contradiction |].
  intros [E | Hin]; [inversion E; subst; exact Hp | apply IH; exact Hin].
Qed.

Lemma map_opt_all_in : forall A B (f : A -> option B) (P : B -> Prop) l r,
  (forall a b, In a l -> f a = Some b -> P b) -> map_opt f l = Some r -> Forall P r.
Proof.
  induction l as [| a l IH]; intros r Hf H; cbn [map_opt] in H; [inversion H; constructor |].
  destruct (f a) eqn:E; [| discriminate]. destruct (map_opt f l) eqn:E2; inversion H; subst.
  constructor; [eapply Hf; [left; reflexivity | eassumption] | eapply IH; [intros; eapply Hf; [right |]; eassumption | reflexivity]].
Qed.

Lemma plain_lines_no_cell : forall l, starts_plain l -> first_word_is "cell" l = false.
Proof. intros l H. destruct (starts_plain_line l H) as [w [ws [Hs [_ [_ Hc]]]]]. eapply word_is_false_first; eassumption. Qed.

Lemma key_record_plain : forall w f' k a' l, render (FStr true w :: f') (AStr k :: a') = Some l ->
  (match k with c :: _ => plain_start c | [] => false end) = true -> starts_plain l.
Proof.
  intros w f' k a' l H Hk. destruct (render_str_inv _ _ _ _ _ _ H) as [r [_ ->]]. destruct k as [| c k']; [discriminate |].
  cbn [field_pad]. Local Transparent rpad. unfold rpad. Local Opaque rpad. exists c, ((k' ++ repeat sp (w - List.length (c :: k'))) ++ r). split; [reflexivity | exact Hk].
Qed.

Lemma row_no_cell : forall f'' lab a args l, no_ws (f_el a) = true -> (exists z, lab = f_el a ++ int_body z) ->
  render (FLit (s"  ") :: FStr true 5 :: FLit (s" ") :: f'') (AStr lab :: args) = Some l -> first_word_is "cell" l = false.
Proof.
  intros f'' lab a args l Hel [z ->] H.
  assert (Hn : no_ws (f_el a ++ int_body z) = true).
  { unfold no_ws in *. rewrite forallb_app, Hel. destruct (int_body_token z) as [Hi _]. exact Hi. }
  assert (Hne : f_el a ++ int_body z <> []).
  { destruct (int_body_token z) as [_ Hi]. intros E. apply app_eq_nil in E. destruct E; contradiction. }
  destruct (labelled_row_first _ _ _ _ Hn Hne H) as [ws Hs]. eapply word_is_false_first; [exact Hs | apply label_not_cell].
Qed.

Lemma cif_text : forall St ls, cif_elements_plain St = true -> print_cif St = Some ls ->
  exists pre rest, ls = pre ++ cif_w_data :: rest /\ forallb skipped pre = true /\ no_cell_record ls.
Proof.
  intros St ls Hel H. unfold print_cif in H.
  destruct (map_opt (fun x => x) (labels [] (f_atoms St))) as [labs |] eqn:El; [| discriminate].
  pose proof (labels_shape _ _ _ El) as Hlab. destruct (f_cell St) as [[[a b] c] [[al be] ga]].
  repeat match type of H with
  | concat_opt (_ :: _) = Some _ =>
      let a := fresh "a" in let b := fresh "b" in let Ha := fresh "Ha" in let Hb := fresh "Hb" in let Hr := fresh "Hr" in
      apply concat_opt_cons in H; destruct H as [a [b [Ha [Hb Hr]]]]; rename Hb into H; subst
  end.
  cbn in H. inversion H; subst. clear H. rewrite app_nil_r.
  inversion Ha0; subst. inversion Ha2; subst. inversion Ha4; subst. inversion Ha6; subst. inversion Ha7; subst. clear Ha0 Ha2 Ha4 Ha6 Ha7.
  exists a0. eexists. split; [reflexivity |].
  assert (Hpre : forallb skipped a0 = true /\ forall l, In l a0 -> first_word_is "cell" l = false).
  { injection Ha as <-. destruct (is_nil (strip (f_title St))); [split; [reflexivity | intros l []] |].
    assert (K : split_ws ("#"%char :: " "%char :: strip (f_title St)) = S2L "#" :: split_ws (strip (f_title St)))
      by exact (proj1 (kw_record cif_w_comment (strip (f_title St)) eq_refl)).
    split; [cbn [forallb]; unfold skipped at 1; rewrite K; reflexivity |].
    intros l [<- | [<- | []]]; [eapply word_is_false_first; [exact K | reflexivity] | reflexivity]. }
  destruct Hpre as [Hsk Hpc]. split; [exact Hsk |].
  assert (Hrow : forall f'' args l la, In la (combine labs (f_atoms St)) ->
            render (FLit (s"  ") :: FStr true 5 :: FLit (s" ") :: f'') (AStr (fst la) :: args) = Some l -> first_word_is "cell" l = false).
  { intros f'' args l [lab at0] Hin Hr. cbn [fst] in Hr. eapply row_no_cell with (a := at0); [| | exact Hr].
    - unfold cif_elements_plain in Hel. rewrite forallb_forall in Hel. apply Hel. eapply in_combine_r; exact Hin.
    - eapply (Forall2_combine_in _ _ _ _ _ _ _ Hlab); exact Hin. }
  assert (Hkeys : forall kv, In kv cif_w_meta_rows -> (match fst kv with c :: _ => plain_start c | [] => false end) = true).
  { assert (F : forallb (fun kv : str * str => match fst kv with c :: _ => plain_start c | [] => false end) cif_w_meta_rows = true) by (vm_compute; reflexivity).
    rewrite forallb_forall in F. exact F. }
  assert (Hmeta : forall rows out, (forall kv, In kv rows -> In kv cif_w_meta_rows) -> map_opt (meta_line (f_date St)) rows = Some out ->
            Forall (fun x => first_word_is "cell" x = false) out).
  { intros rows out Hsub Hm. eapply map_opt_all_in; [| exact Hm]. intros kv x Hin Hx. apply plain_lines_no_cell.
    unfold meta_line, cif_w_meta in Hx. eapply key_record_plain; [exact Hx | apply Hkeys; apply Hsub; exact Hin]. }
  assert (Hck : forall k, In k cif_w_cell_keys -> (match k with c :: _ => plain_start c | [] => false end) = true).
  { assert (F : forallb (fun k : str => match k with c :: _ => plain_start c | [] => false end) cif_w_cell_keys = true) by (vm_compute; reflexivity).
    rewrite forallb_forall in F. exact F. }
  assert (Hhdr1 : forallb (fun x => negb (first_word_is "cell" x)) cif_w_site_header = true) by (vm_compute; reflexivity).
  assert (Hhdr2 : forallb (fun x => negb (first_word_is "cell" x)) cif_w_aniso_header = true) by (vm_compute; reflexivity).
  rewrite forallb_forall in Hhdr1, Hhdr2.
  intros l Hl. repeat (apply in_app_or in Hl; destruct Hl as [Hl | Hl]); try (destruct Hl as [<- | []]; reflexivity).
  - apply Hpc; exact Hl.
  - pose proof (Hmeta _ _ (fun kv H => In_firstn _ _ _ _ H) Ha1) as F. rewrite Forall_forall in F. apply F; exact Hl.
  - pose proof (Hmeta _ _ (fun kv H => In_skipn _ _ _ _ H) Ha3) as F. rewrite Forall_forall in F. apply F; exact Hl.
  - assert (F : Forall (fun x => first_word_is "cell" x = false) a6).
    { eapply map_opt_all_in; [| exact Ha5]. intros kv x Hin Hx. apply plain_lines_no_cell. unfold cif_w_cell in Hx.
      eapply key_record_plain; [exact Hx |]. apply Hck. destruct kv as [k v]. eapply in_combine_l; exact Hin. }
    rewrite Forall_forall in F. apply F; exact Hl.
  - apply negb_true_iff. apply Hhdr1; exact Hl.
  - assert (F : Forall (fun x => first_word_is "cell" x = false) a9).
    { eapply map_opt_all_in; [| exact Ha8]. intros la x Hin Hx. unfold atom_row, cif_w_atom in Hx. eapply Hrow; [exact Hin | exact Hx]. }
    rewrite Forall_forall in F. apply F; exact Hl.
  - destruct (filter (fun la => f_aniso (snd la)) (combine labs (f_atoms St))) as [| la0 anis] eqn:Ef; [inversion Ha9; subst; contradiction |].
    destruct (map_opt (fun la => aniso_row (fst la) (snd la)) (la0 :: anis)) as [rows |] eqn:Er; [| discriminate]. cbn [option_map] in Ha9. injection Ha9 as <-.
    change (In l (cif_w_aniso_header ++ rows)) in Hl.
    apply in_app_or in Hl. destruct Hl as [Hl | Hl]; [apply negb_true_iff; apply Hhdr2; exact Hl |].
    assert (F : Forall (fun x => first_word_is "cell" x = false) rows).
    { eapply map_opt_all_in; [| exact Er]. intros la x Hin Hx. unfold aniso_row, cif_w_aniso in Hx. eapply Hrow; [| exact Hx].
      rewrite <- Ef in Hin. apply filter_In in Hin. destruct Hin as [Hin _]. exact Hin. }
    rewrite Forall_forall in F. apply F; exact Hl.
Qed.

Theorem cell_xyz_cif : forall St ls, cif_elements_plain St = true -> print_cif St = Some ls -> conc_xyz ls = Raise FormatError.
Proof.
  intros St ls Hel H. destruct (cif_text _ _ Hel H) as [pre [rest [-> [Hsk _]]]].
  eapply xyz_rejects_after_skipped with (w := S2L "data_3D") (ws := []); [exact Hsk | reflexivity | reflexivity |].
  right. Local Transparent parse_int strip lstrip rstrip. vm_compute. reflexivity.
Qed.
Local Opaque parse_int strip lstrip rstrip.

Theorem cell_rawxyz_cif : forall St ls, cif_elements_plain St = true -> print_cif St = Some ls -> rejected (conc_rawxyz ls).
Proof.
  intros St ls Hel H. destruct (cif_text _ _ Hel H) as [pre [rest [-> [Hsk _]]]].
  eapply rawxyz_rejects_after_skipped with (w := S2L "data_3D") (ws := []) (la := cif_w_data) (wa := S2L "data_3D");
    [exact Hsk | reflexivity | reflexivity | left; reflexivity | reflexivity].
Qed.

Section GeometryCellsCif.
  Variable lattice_of : list dec -> res unit.
  Variable mulZ : dec -> Z -> res dec.
  Variable set_lat_par : list (list dec) -> list dec -> res unit.
  Variable cell_pars : list (list dec) -> list dec.
  Hypothesis lattice_kinds : forall l, within [ValueError; ZeroDivisionError] (lattice_of l).
  Hypothesis mulZ_kinds : forall v z, within [OverflowError] (mulZ v z).
  Hypothesis set_lat_par_kinds : forall h l, within [ValueError; ZeroDivisionError] (set_lat_par h l).

  Theorem cell_pdffit_cif : forall St ls, cif_elements_plain St = true -> print_cif St = Some ls ->
    conc_pdffit lattice_of mulZ ls = Raise FormatError.
  Proof. intros St ls Hel H. apply pdffit_rejects_without_cell; try assumption. destruct (cif_text _ _ Hel H) as [pre [rest [_ [_ Hn]]]]. exact Hn. Qed.

  Theorem cell_discus_cif : forall St ls, cif_elements_plain St = true -> print_cif St = Some ls ->
    rejected (conc_discus lattice_of mulZ set_lat_par cell_pars ls).
  Proof. intros St ls Hel H. apply discus_rejects_without_cell; try assumption. destruct (cif_text _ _ Hel H) as [pre [rest [_ [_ Hn]]]]. exact Hn. Qed.
End GeometryCellsCif.
