(* C20 - the program translated from the PINNED transtru.py (before the repairs 535ca11, 1fd92ba, fe4998c of
   branch fix/c171920), kept as a literal so that the defects it had stay machine-checked:
   the model reproduces what the real program did (see design.d/C20.md).  Not tied to the current source. *)
From Coq Require Import List ZArith Bool Ascii String.
From DS Require Import Model.C20_Cli.
Import ListNotations.
Open Scope string_scope.

Definition pinned_prog : stmt :=
 SSeq (STry (SGetopt "hV" ["help"; "version"])
 (HCons [PGetoptError] (Some "errmsg")
 (SSeq (SPrint Stderr (EVar "errmsg"))
 (SExit 2%Z))
 (HNil)))
 (SSeq (SForOpts "o" (SIf (CIn (EVar "o") (SetLit ["-h"; "--help"]))
 (SSeq (SUsage false)
 (SExit 0%Z))
 (SIf (CIn (EVar "o") (SetLit ["-V"; "--version"]))
 (SSeq (SVersion)
 (SExit 0%Z))
 (SSkip))))
 (SSeq (SIf (CLenArgsLt 1)
 (SSeq (SUsage true)
 (SExit 0%Z))
 (SSkip))
 (SSeq (STry (SSeq (SSplit2 "infmt" "outfmt" (EArg 0) ".." (Some 1))
 (SSeq (SIf (CNotIn (EVar "infmt") (SetInputFormats))
 (SSeq (SPrint Stderr (EFmt [FLit "'"; FVar "infmt"; FLit "' is not valid input format"]))
 (SExit 2%Z))
 (SSkip))
 (SIf (CNotIn (EVar "outfmt") (SetOutputFormats))
 (SSeq (SPrint Stderr (EFmt [FLit "'"; FVar "outfmt"; FLit "' is not valid output format"]))
 (SExit 2%Z))
 (SSkip))))
 (HCons [PValueError] None
 (SSeq (SPrint Stderr (EFmt [FLit "invalid format specification '"; FArg 0; FLit "' does not contain .."]))
 (SExit 2%Z))
 (HNil)))
 (SSeq (STry (SSeq (SAssign "strufile" (EArg 1))
 (SSeq (SNewStru "stru")
 (SSeq (SIf (CEq (EArg 1) (EStr "-"))
 (SReadStr "stru" (EStdin) (EVar "infmt"))
 (SRead "stru" (EVar "strufile") (EVar "infmt")))
 (SWriteOut "stru" (EVar "outfmt")))))
 (HCons [PIndexError] None
 (SSeq (SPrint Stderr (EStr "strufile not specified"))
 (SExit 2%Z))
 (HCons [PIOError] (Some "e")
 (SSeq (SPrint Stderr (EFmt [FVar "strufile"; FLit ": "; FAttr "e" "strerror"]))
 (SExit 1%Z))
 (HCons [PStructureFormatError] (Some "e")
 (SSeq (SPrint Stderr (EFmt [FVar "strufile"; FLit ": "; FVar "e"]))
 (SExit 1%Z))
 (HNil)))))
 (SReturn))))).

Definition pinned_spec : spec :=
  mkspec pinned_prog ["auto"; "cif"; "discus"; "pdb"; "pdffit"; "rawxyz"; "xcfg"; "xyz"]
         ["cif"; "discus"; "pdb"; "pdffit"; "rawxyz"; "xcfg"; "xyz"].

Definition Wp : world := mkworld "" (fs_one "in.stru" (FsFile "content")) "USAGE" "BRIEF" "VERSION".

(* D13a: an IndexError raised inside the library while a file WAS given is reported as a missing argument *)
Lemma pinned_index_error_reported_as_missing_argument_refuted :
  exists argv W L, nth_error argv 1 = Some "in.stru" /\
    main pinned_spec argv W L = mkres "" ("strufile not specified" ++ nl) 2%Z None.
Proof.
  exists ["pdb..xyz"; "in.stru"], Wp,
         (lib_const ("", Raise (mkexn KIndexError "list index out of range" None)) ("", Ok "unused")).
  split; vm_compute; reflexivity.
Qed.

(* D13b: the documented NotImplementedError (DISCUS molecule record) ends in a traceback *)
Lemma pinned_not_implemented_is_traceback_refuted :
  exists argv W L, raises_only documented_kind L /\ r_tb (main pinned_spec argv W L) = Some "NotImplementedError".
Proof.
  exists ["discus..xyz"; "in.stru"], Wp,
         (lib_const ("", Raise (mkexn KNotImplementedError "4: reading of DISCUS record 'molecule' is not implemented." None)) ("", Ok "unused")).
  split; [| vm_compute; reflexivity].
  repeat split; cbn; intros; try discriminate; match goal with H : Raise _ = Raise _ |- _ => inversion H; reflexivity end.
Qed.

(* an undecodable input file (UnicodeDecodeError from Structure.read) ends in a traceback *)
Lemma pinned_undecodable_file_is_traceback_refuted :
  exists argv W L, r_tb (main pinned_spec argv W L) = Some "UnicodeDecodeError".
Proof.
  exists ["xyz..xyz"; "in.stru"], Wp,
         (lib_const ("", Raise (mkexn KUnicodeDecodeError "'utf-8' codec can't decode byte 0xff in position 9: invalid start byte" None)) ("", Ok "unused")).
  vm_compute; reflexivity.
Qed.
