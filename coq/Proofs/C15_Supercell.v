(* C15 - proofs about the supercell model (Model/C15_Supercell.v over Gen/C15_Spec.v). *)
From Coq Require Import Reals ZArith QArith List Bool Lia Lra Permutation PeanoNat.
From DS Require Import Base.RMat Base.C09_GNum Gen.C15_Spec Model.C15_Supercell Proofs.C15_Lists.
Import ListNotations.
Open Scope nat_scope.

(* ---------------- argument checks ---------------- *)
Lemma Qltb'_false x y : Qltb' x y = false <-> (y <= x)%Q.
Proof. unfold Qltb'. destruct (Qlt_le_dec x y) as [H|H]; split; intros; try discriminate; try reflexivity; try assumption. exfalso. apply (Qlt_not_le _ _ H). assumption. Qed.

Definition ge1 (q : Q) : Prop := (1 <= q)%Q.

Lemma validate_ok mno lmn :
  validate mno = Ok lmn <-> exists x y z, mno = [x; y; z] /\ ge1 x /\ ge1 y /\ ge1 z /\ lmn = (py_int x, py_int y, py_int z).
Proof.
  unfold validate, c15_len, c15_min, ge1. split.
  - destruct mno as [|x [|y [|z [|w r]]]]; cbn [length Nat.eqb negb]; try discriminate.
    cbn [existsb]. destruct (Qltb' x (inject_Z 1)) eqn:Ex; [discriminate|]. destruct (Qltb' y (inject_Z 1)) eqn:Ey; [discriminate|].
    destruct (Qltb' z (inject_Z 1)) eqn:Ez; [discriminate|]. cbn [orb]. intros E. inversion E; subst.
    apply Qltb'_false in Ex, Ey, Ez. exists x, y, z. repeat split; assumption.
  - intros [x [y [z [E [Hx [Hy [Hz El]]]]]]]. subst. cbn [length Nat.eqb negb existsb].
    apply Qltb'_false in Hx, Hy, Hz. unfold inject_Z in *. rewrite Hx, Hy, Hz. reflexivity.
Qed.

Lemma validate_error mno :
  validate mno = ValueError <-> ~ exists x y z, mno = [x; y; z] /\ ge1 x /\ ge1 y /\ ge1 z.
Proof.
  split.
  - intros E [x [y [z [Em [Hx [Hy Hz]]]]]].
    assert (H : validate mno = Ok (py_int x, py_int y, py_int z)) by (apply validate_ok; exists x, y, z; repeat split; assumption).
    rewrite E in H. discriminate.
  - intros H. destruct (validate mno) as [lmn|] eqn:E; [|reflexivity]. exfalso. apply H.
    apply validate_ok in E. destruct E as [x [y [z [Em [Hx [Hy [Hz _]]]]]]]. exists x, y, z. repeat split; assumption.
Qed.

Lemma py_int_ge1 q : ge1 q -> (1 <= py_int q)%Z.
Proof.
  unfold ge1, py_int, Qle. cbn. intros H. rewrite Z.quot_div_nonneg; [|lia|lia].
  apply Z.div_le_lower_bound; lia.
Qed.
Lemma py_int_inject z : py_int (inject_Z z) = z.
Proof. unfold py_int, inject_Z. cbn. apply Z.quot_1_r. Qed.
Lemma ge1_inject z : (1 <= z)%Z -> ge1 (inject_Z z).
Proof. unfold ge1, Qle, inject_Z. cbn. lia. Qed.

(* ---------------- counting and grouping (any number type, any payload) ---------------- *)
Section AnyT.
Context {T : Type} (O : ops T) {P : Type}.

Lemma images_length l m n (a : atom T P) : length (images O l m n a) = l * m * n.
Proof. unfold images. rewrite map_length. apply ijk_length. Qed.

Lemma expand_grouped l m n (atoms : list (atom T P)) : expand O l m n atoms = flat_map (images O l m n) atoms.
Proof. reflexivity. Qed.

Lemma expand_length l m n (atoms : list (atom T P)) : length (expand O l m n atoms) = length atoms * (l * m * n).
Proof. rewrite expand_grouped. apply length_flat_map_const. intros a _. apply images_length. Qed.

(* the images of the p-th atom occupy the p-th block of l*m*n consecutive places, in the order of the index list *)
Lemma parent_images_consecutive l m n (atoms : list (atom T P)) p d : p < length atoms ->
  firstn (l * m * n) (skipn (p * (l * m * n)) (expand O l m n atoms)) = images O l m n (nth p atoms d).
Proof. intros Hp. rewrite expand_grouped. apply flat_map_block; [intros a; apply images_length | exact Hp]. Qed.

Lemma images_payload l m n (a : atom T P) : Forall (fun a' => at_pay a' = at_pay a) (images O l m n a).
Proof. unfold images. apply Forall_forall. intros a' H. apply in_map_iff in H. destruct H as [[[i j] k] [E _]]. subst. reflexivity. Qed.

Lemma flat_map_flat_map {A B C} (f : B -> list C) (g : A -> list B) (l : list A) :
  flat_map f (flat_map g l) = flat_map (fun x => flat_map f (g x)) l.
Proof. induction l as [|a l IH]; [reflexivity|]. cbn. rewrite flat_map_app, IH. reflexivity. Qed.

Lemma flat_map_map_prod {A B C} (f : A -> B -> C) (l : list A) (l' : list B) :
  flat_map (fun x => map (f x) l') l = map (fun t => f (fst t) (snd t)) (prod_list l l').
Proof.
  unfold prod_list. induction l as [|a l IH]; [reflexivity|]. cbn. rewrite map_app, IH, map_map. reflexivity.
Qed.
End AnyT.

(* ---------------- real-number facts ---------------- *)
Open Scope R_scope.
Definition dg3 (x y z : R) : mat := M x 0 0 0 y 0 0 0 z.
Definition nR (n : nat) : R := IZR (Z.of_nat n).
Lemma nR_pos n : (0 < n)%nat -> nR n <> 0.
Proof. intros H. unfold nR. apply not_0_IZR. lia. Qed.
Lemma nR_mul a b : nR (a * b) = nR a * nR b.
Proof. unfold nR. rewrite Nat2Z.inj_mul, mult_IZR. reflexivity. Qed.
Lemma nR_add a b : nR (a + b) = nR a + nR b.
Proof. unfold nR. rewrite Nat2Z.inj_add, plus_IZR. reflexivity. Qed.
Lemma nR_1 : nR 1 = 1. Proof. reflexivity. Qed.
Lemma nR_0 : nR 0 = 0. Proof. reflexivity. Qed.

Section Real.
Context {P : Type}.
Notation atomR := (atom R P).

Lemma image_xyz l m n (a : atomR) i j k :
  at_xyz (image ROps l m n a (i, j, k)) =
  GV ((x0 (at_xyz a) + nR i) / nR l) ((x1 (at_xyz a) + nR j) / nR m) ((x2 (at_xyz a) + nR k) / nR n).
Proof. reflexivity. Qed.

(* Cartesian position of an image in the scaled cell = parent position + i a1 + j a2 + k a3 *)
Lemma image_position l m n (a : atomR) i j k (B : mat) : (0 < l)%nat -> (0 < m)%nat -> (0 < n)%nat ->
  vmul (toV (at_xyz (image ROps l m n a (i, j, k)))) (mmul (dg3 (nR l) (nR m) (nR n)) B) =
  vadd (vmul (toV (at_xyz a)) B) (vadd (vscale (nR i) (row1 B)) (vadd (vscale (nR j) (row2 B)) (vscale (nR k) (row3 B)))).
Proof.
  intros Hl Hm Hn. rewrite image_xyz. pose proof (nR_pos l Hl). pose proof (nR_pos m Hm). pose proof (nR_pos n Hn).
  destruct a as [[x y z] p]. dmat B. unfold dg3, toV. cbn [at_xyz x0 x1 x2]. apply vec_eq; rm_simpl; field; repeat split; assumption.
Qed.

(* over the reals the (1,1,1) shortcut is not a special case *)
Lemma images_111 (a : atomR) : images ROps 1 1 1 a = [a].
Proof.
  unfold images. cbn [c15_ijklist seq flat_map map app]. destruct a as [[x y z] p]. unfold image, c15_coord, nT. cbn.
  f_equal. f_equal. f_equal; field.
Qed.
Lemma expand_111 (atoms : list atomR) : expand ROps 1 1 1 atoms = atoms.
Proof. rewrite expand_grouped. induction atoms as [|a r IH]; [reflexivity|]. cbn [flat_map]. rewrite images_111, IH. reflexivity. Qed.
Lemma scale_cell_111 (c : cell R) : scale_cell ROps 1 1 1 c = c.
Proof. destruct c as [ca cb cc al be ga rot]. unfold scale_cell, c15_newabc, nT. cbn. f_equal; ring. Qed.

Lemma supercell_general (S : structure R P) mno l m n : validate mno = Ok (l, m, n) ->
  supercell ROps S mno = Ok (Struct (expand ROps (Z.to_nat l) (Z.to_nat m) (Z.to_nat n) (s_atoms S))
                                   (scale_cell ROps (Z.to_nat l) (Z.to_nat m) (Z.to_nat n) (s_cell S))).
Proof.
  intros E. unfold supercell. rewrite E. destruct (triple_eqb (l, m, n) c15_shortcut) eqn:Es; [|reflexivity].
  unfold triple_eqb, c15_shortcut in Es. apply andb_prop in Es. destruct Es as [Es E3]. apply andb_prop in Es. destruct Es as [E1 E2].
  apply Z.eqb_eq in E1, E2, E3. subst. cbn [Z.to_nat Pos.to_nat Pos.iter_op]. rewrite expand_111, scale_cell_111. destruct S; reflexivity.
Qed.

(* ---------------- two steps = one step by the product (per parent, up to the order inside the group) ---------------- *)
Lemma image_image l1 m1 n1 l2 m2 n2 (a : atomR) t1 t2 : (0 < l1)%nat -> (0 < m1)%nat -> (0 < n1)%nat -> (0 < l2)%nat -> (0 < m2)%nat -> (0 < n2)%nat ->
  image ROps l2 m2 n2 (image ROps l1 m1 n1 a t1) t2 = image ROps (l1 * l2) (m1 * m2) (n1 * n2) a (reindex l1 m1 n1 (t1, t2)).
Proof.
  intros. destruct t1 as [[p1 q1] r1], t2 as [[p2 q2] r2]. destruct a as [[x y z] p]. unfold reindex, image, c15_coord, nT. cbn [at_xyz at_pay x0 x1 x2 tdiv tadd tofZ ROps].
  fold (nR p1) (nR q1) (nR r1) (nR p2) (nR q2) (nR r2) (nR l1) (nR m1) (nR n1) (nR l2) (nR m2) (nR n2)
       (nR (l1 * l2)) (nR (m1 * m2)) (nR (n1 * n2)) (nR (p1 + l1 * p2)) (nR (q1 + m1 * q2)) (nR (r1 + n1 * r2)).
  rewrite !nR_add, !nR_mul.
  pose proof (nR_pos l1). pose proof (nR_pos m1). pose proof (nR_pos n1). pose proof (nR_pos l2). pose proof (nR_pos m2). pose proof (nR_pos n2).
  f_equal. f_equal; field; repeat split; auto.
Qed.

Definition group2 l1 m1 n1 l2 m2 n2 (a : atomR) : list atomR := flat_map (images ROps l2 m2 n2) (images ROps l1 m1 n1 a).
Definition group1 l m n (a : atomR) : list atomR := images ROps l m n a.

Lemma two_step_group_perm l1 m1 n1 l2 m2 n2 (a : atomR) :
  (0 < l1)%nat -> (0 < m1)%nat -> (0 < n1)%nat -> (0 < l2)%nat -> (0 < m2)%nat -> (0 < n2)%nat ->
  Permutation (group2 l1 m1 n1 l2 m2 n2 a) (group1 (l1 * l2) (m1 * m2) (n1 * n2) a).
Proof.
  intros. unfold group2, group1, images.
  rewrite flat_map_concat_map, map_map, <- flat_map_concat_map.
  rewrite (flat_map_map_prod (fun t1 t2 => image ROps l2 m2 n2 (image ROps l1 m1 n1 a t1) t2)).
  rewrite (map_ext _ (fun t => image ROps (l1 * l2) (m1 * m2) (n1 * n2) a (reindex l1 m1 n1 t)))
    by (intros [t1 t2]; cbn [fst snd]; apply image_image; assumption).
  rewrite <- (map_map (reindex l1 m1 n1) (image ROps (l1 * l2) (m1 * m2) (n1 * n2) a)).
  apply Permutation_map. apply reindex_perm; assumption.
Qed.

Lemma scale_cell_twice l1 m1 n1 l2 m2 n2 (c : cell R) :
  scale_cell ROps l2 m2 n2 (scale_cell ROps l1 m1 n1 c) = scale_cell ROps (l1 * l2) (m1 * m2) (n1 * n2) c.
Proof.
  destruct c as [ca cb cc al be ga rot]. unfold scale_cell, c15_newabc, nT. cbn [c_a c_b c_c c_alpha c_beta c_gamma c_rot tmul tofZ ROps].
  fold (nR l1) (nR m1) (nR n1) (nR l2) (nR m2) (nR n2) (nR (l1 * l2)) (nR (m1 * m2)) (nR (n1 * n2)). rewrite !nR_mul. f_equal; ring.
Qed.

Lemma validate_bounds mno l m n : validate mno = Ok (l, m, n) -> (1 <= l /\ 1 <= m /\ 1 <= n)%Z.
Proof.
  intros E. apply validate_ok in E. destruct E as [x [y [z [_ [Hx [Hy [Hz E]]]]]]]. inversion E; subst.
  repeat split; apply py_int_ge1; assumption.
Qed.

Lemma two_steps (S S1 S2 : structure R P) mno1 mno2 l1 m1 n1 l2 m2 n2 :
  validate mno1 = Ok (l1, m1, n1) -> validate mno2 = Ok (l2, m2, n2) ->
  supercell ROps S mno1 = Ok S1 -> supercell ROps S1 mno2 = Ok S2 ->
  exists S12, supercell ROps S [inject_Z (l1 * l2); inject_Z (m1 * m2); inject_Z (n1 * n2)] = Ok S12 /\
    s_cell S2 = s_cell S12 /\
    exists G2 G1, s_atoms S2 = flat_map G2 (s_atoms S) /\ s_atoms S12 = flat_map G1 (s_atoms S) /\
                  forall a, Permutation (G2 a) (G1 a).
Proof.
  intros V1 V2 E1 E2. destruct (validate_bounds _ _ _ _ V1) as [A1 [A2 A3]]. destruct (validate_bounds _ _ _ _ V2) as [B1 [B2 B3]].
  assert (V12 : validate [inject_Z (l1 * l2); inject_Z (m1 * m2); inject_Z (n1 * n2)] = Ok ((l1 * l2)%Z, (m1 * m2)%Z, (n1 * n2)%Z)).
  { apply validate_ok. exists (inject_Z (l1 * l2)), (inject_Z (m1 * m2)), (inject_Z (n1 * n2)).
    rewrite !py_int_inject. repeat split; try reflexivity; apply ge1_inject; nia. }
  rewrite (supercell_general S _ _ _ _ V1) in E1. inversion E1; subst S1. clear E1.
  rewrite (supercell_general _ _ _ _ _ V2) in E2. inversion E2; subst S2. clear E2.
  rewrite (supercell_general S _ _ _ _ V12). eexists. split; [reflexivity|]. cbn [s_cell s_atoms].
  rewrite !Z2Nat.inj_mul by lia. split; [apply scale_cell_twice|].
  exists (group2 (Z.to_nat l1) (Z.to_nat m1) (Z.to_nat n1) (Z.to_nat l2) (Z.to_nat m2) (Z.to_nat n2)),
         (group1 (Z.to_nat l1 * Z.to_nat l2) (Z.to_nat m1 * Z.to_nat m2) (Z.to_nat n1 * Z.to_nat n2)).
  split; [|split].
  - rewrite !expand_grouped. apply flat_map_flat_map.
  - rewrite expand_grouped. reflexivity.
  - intros a. apply two_step_group_perm; lia.
Qed.

(* ---------------- displacement tensors: same components, same Cartesian tensor ---------------- *)
(* scaling a, b, c by l, m, n scales the reciprocal lengths by 1/l, 1/m, 1/n and the base rows by l, m, n:
   normbase = diag(ar, br, cr) base is unchanged, hence so is N^T U N for the copied components U *)
Lemma normbase_unchanged (B : mat) ar br cr l m n : l <> 0 -> m <> 0 -> n <> 0 ->
  mmul (dg3 (ar / l) (br / m) (cr / n)) (mmul (dg3 l m n) B) = mmul (dg3 ar br cr) B.
Proof. intros. dmat B. unfold dg3. apply mat_eq; rm_simpl; field; repeat split; assumption. Qed.

Lemma tensor_cart_unchanged (U B N N' : mat) ar br cr l m n : l <> 0 -> m <> 0 -> n <> 0 ->
  N = mmul (dg3 ar br cr) B -> N' = mmul (dg3 (ar / l) (br / m) (cr / n)) (mmul (dg3 l m n) B) ->
  mmul (mT N') (mmul U N') = mmul (mT N) (mmul U N).
Proof. intros Hl Hm Hn E E'. rewrite E', (normbase_unchanged B ar br cr l m n Hl Hm Hn), <- E. reflexivity. Qed.

(* what a successful call returns, in one statement *)
Lemma supercell_ok (S S' : structure R P) mno : supercell ROps S mno = Ok S' ->
  exists l m n, validate mno = Ok (Z.of_nat l, Z.of_nat m, Z.of_nat n) /\ (0 < l)%nat /\ (0 < m)%nat /\ (0 < n)%nat /\
    s_atoms S' = flat_map (images ROps l m n) (s_atoms S) /\ s_cell S' = scale_cell ROps l m n (s_cell S).
Proof.
  intros E. destruct (validate mno) as [[[l m] n]|] eqn:V; [|unfold supercell in E; rewrite V in E; discriminate].
  destruct (validate_bounds _ _ _ _ V) as [A1 [A2 A3]]. rewrite (supercell_general S _ _ _ _ V) in E. inversion E; subst S'.
  exists (Z.to_nat l), (Z.to_nat m), (Z.to_nat n). rewrite !Z2Nat.id by lia. cbn [s_atoms s_cell]. split; [reflexivity|]. repeat split; lia.
Qed.

Lemma scale_cell_spec l m n (c : cell R) :
  let c' := scale_cell ROps l m n c in
  c_a c' = nR l * c_a c /\ c_b c' = nR m * c_b c /\ c_c c' = nR n * c_c c /\
  c_alpha c' = c_alpha c /\ c_beta c' = c_beta c /\ c_gamma c' = c_gamma c /\ c_rot c' = c_rot c.
Proof. destruct c as [ca cb cc al be ga rot]. cbn. repeat split; reflexivity. Qed.

End Real.
