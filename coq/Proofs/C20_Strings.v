(* C20 - string and getopt lemmas used by the transtru theorems *)
From Coq Require Import List ZArith Bool Ascii String Lia.
From DS Require Import Model.C20_Cli.
Import ListNotations.
Open Scope string_scope.

Lemma append_nil_r : forall s : string, s ++ "" = s.
Proof. induction s; cbn; congruence. Qed.

Lemma append_assoc : forall a b c : string, (a ++ b) ++ c = a ++ (b ++ c).
Proof. induction a; cbn; intros; congruence. Qed.

Lemma no_nl_app : forall a b, no_nl (a ++ b) = no_nl a && no_nl b.
Proof.
  induction a; cbn; intros; auto. rewrite IHa. now rewrite andb_assoc.
Qed.

Lemma no_nl_drop : forall n s, no_nl s = true -> no_nl (drop n s) = true.
Proof.
  induction n; destruct s; cbn; intros; auto.
  apply andb_true_iff in H. apply IHn. tauto.
Qed.

Lemma split_first_no_nl : forall sep s a b, split_first sep s = Some (a, b) -> no_nl s = true ->
  no_nl a = true /\ no_nl b = true.
Proof.
  induction s as [|c r IH]; intros a b H N.
  - discriminate.
  - cbn [split_first] in H. destruct (starts_with sep (String c r)).
    + inversion H; subst. split; auto. now apply no_nl_drop.
    + destruct (split_first sep r) as [[x y]|] eqn:E; try discriminate.
      inversion H; subst. cbn [no_nl] in N |- *. apply andb_true_iff in N. destruct N as [N1 N2].
      destruct (IH x b eq_refl N2). rewrite N1. cbn. tauto.
Qed.

(* one_line for the shapes the program prints *)
Lemma one_line_intro : forall body, no_nl body = true -> body <> "" -> one_line (body ++ nl).
Proof. intros. exists body. auto. Qed.

Lemma app_neq_nil_l : forall a b : string, a <> "" -> a ++ b <> "".
Proof. destruct a; cbn; intros; congruence. Qed.

Lemma app_neq_nil_r : forall a b : string, b <> "" -> a ++ b <> "".
Proof. destruct a; cbn; intros; auto. congruence. Qed.

(* membership *)
Lemma mem_In : forall x l, mem x l = true <-> In x l.
Proof.
  unfold mem. intros. rewrite existsb_exists. split.
  - intros [y [Hy E]]. apply String.eqb_eq in E. now subst.
  - intros. exists x. split; auto. apply String.eqb_refl.
Qed.

(* arguments that getopt leaves over come from the command line *)
Lemma getopt_args_incl : forall sh lo argv os ar, getopt sh lo argv = GOk os ar -> incl ar argv.
Proof.
  induction argv as [|a rest IH]; intros os ar H; cbn [getopt] in H.
  - inversion H. apply incl_refl.
  - destruct (starts_with "-" a && negb (String.eqb a "-")).
    + destruct (String.eqb a "--").
      * inversion H; subst. apply incl_tl, incl_refl.
      * destruct (starts_with "--" a).
        -- destruct (do_long lo (drop 2 a)); try discriminate.
           destruct (getopt sh lo rest) eqn:E; try discriminate. inversion H; subst.
           apply incl_tl. eapply IH; eauto.
        -- destruct (do_shorts sh (drop 1 a)); try discriminate.
           destruct (getopt sh lo rest) eqn:E; try discriminate. inversion H; subst.
           apply incl_tl. eapply IH; eauto.
    + inversion H; subst. apply incl_refl.
Qed.

(* a first argument that does not start with a dash ends option processing at once *)
Lemma getopt_plain : forall sh lo a rest, starts_with "-" a = false -> getopt sh lo (a :: rest) = GOk [] (a :: rest).
Proof. intros. cbn [getopt]. now rewrite H. Qed.
