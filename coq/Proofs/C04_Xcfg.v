(* C04 - xcfg (partial): the entry record (reduced position and auxiliary columns, "%.8g" joined by one blank) reads back
   as the values at 8 significant digits.  The whole-file theorem is not proved; the file-level model is tied to the code by
   correspondence (vlib/props/c04.py). *)
From Coq Require Import List Bool Arith NArith ZArith Lia.
From Coq Require Import Ascii.
From DS Require Import Base.C04_Text Base.C04_Decimal Model.C04_Fmt Gen.C04_FmtSpecs Model.C04_Xyz Model.C04_Pdffit Model.C04_Xcfg.
From DS Require Import Proofs.C04_Fmt Proofs.C04_Xyz.
Import ListNotations.

(* split_join: tokens without blanks survive " ".join / split *)
Lemma split_join_sp toks : Forall (fun t => no_ws t = true /\ t <> []) toks -> split_ws (join [sp] toks) = toks.
Proof.
  induction 1 as [|t r [H1 H2] Hr IH]; [reflexivity|]. destruct r as [|t2 r'].
  - cbn [join]. apply split_tok; assumption.
  - change (join [sp] (t :: t2 :: r')) with (t ++ sp :: join [sp] (t2 :: r')).
    rewrite split_mid by reflexivity. rewrite (split_tok _ H1 H2), IH. reflexivity.
Qed.

Lemma gen8_ok d b : gen8 d = Some b -> (no_ws b = true /\ b <> []) /\ parse_float b = Some (g8 d).
Proof.
  unfold gen8, g8. intros E. pose proof (field_body_ok (FGen xcfg_w_entry_prec) (ANum d) b eq_refl E) as [B1 [B2 _]].
  split; [split; assumption|]. destruct (gen_roundtrip 0 _ _ _ E) as [R N]. rewrite lpad0 in R. rewrite R.
  unfold gqd. destruct (gq xcfg_w_entry_prec d); [reflexivity|contradiction].
Qed.

Lemma map_gen8 ds : forall bs, map_opt gen8 ds = Some bs ->
  Forall (fun t => no_ws t = true /\ t <> []) bs /\ map_opt parse_float bs = Some (map g8 ds).
Proof.
  induction ds as [|d ds IH]; intros bs E.
  - cbn in E. inversion E. split; [constructor|reflexivity].
  - cbn [map_opt] in E. destruct (gen8 d) as [b|] eqn:Eb; [|discriminate]. destruct (map_opt gen8 ds) as [bs'|] eqn:Es; [|discriminate].
    inversion E; subst bs. destruct (gen8_ok d b Eb) as [T P]. destruct (IH bs' eq_refl) as [F M].
    split; [constructor; assumption|]. cbn [map_opt map]. rewrite P, M. reflexivity.
Qed.

(* the entry record of one atom *)
Theorem roundtrip_xcfg_entry_partial cols a l : entry_line cols a = Some l ->
  map_opt parse_float (split_ws l) =
  Some (let '(x, y, z) := c_pos a in map g8 ([x; y; z] ++ map (fun c => snd c a) cols)).
Proof.
  unfold entry_line. destruct (c_pos a) as [[x y] z]. destruct (map_opt gen8 _) as [bs|] eqn:E; [|discriminate].
  cbn [option_map]. intros L. inversion L; subst l. destruct (map_gen8 _ _ E) as [F M]. rewrite (split_join_sp _ F). exact M.
Qed.
