(* C17 - a set that contains the entries and is closed under edges contains every node a path reaches. *)
From Coq Require Import NArith List Bool.
From DS Require Import Model.C17_Effects.
Import ListNotations.
Open Scope N_scope.

Definition edge (g : graph) (a b : N) : Prop := In b (succs g a).

Inductive path (g : graph) : N -> N -> Prop :=
| path_refl : forall a, path g a a
| path_step : forall a b c, path g a b -> edge g b c -> path g a c.

Lemma memN_In : forall n l, memN n l = true <-> In n l.
Proof.
  intros n l. unfold memN. rewrite existsb_exists. split.
  - intros [x [H E]]. apply N.eqb_eq in E. subst. exact H.
  - intro H. exists n. split; [exact H|apply N.eqb_refl].
Qed.

Lemma closed_step : forall g R a b, closed g R = true -> In a R -> edge g a b -> In b R.
Proof.
  intros g R a b C Ha E. unfold closed in C. rewrite forallb_forall in C.
  specialize (C a Ha). rewrite forallb_forall in C. apply memN_In. apply C. exact E.
Qed.

Theorem closed_contains_paths : forall g R entries, closed g R = true -> covers R entries = true ->
  forall e n, In e entries -> path g e n -> In n R.
Proof.
  intros g R entries C V e n He P. induction P.
  - unfold covers in V. rewrite forallb_forall in V. apply memN_In. apply V. exact He.
  - eapply closed_step; [exact C|apply IHP; exact He|exact H].
Qed.

(* whatever the fuelled worklist returns: if the closure check passes, it is complete *)
Corollary reach_complete : forall g entries, closed g (reach g entries) = true -> covers (reach g entries) entries = true ->
  forall e n, In e entries -> path g e n -> In n (reach g entries).
Proof. intros g entries. apply closed_contains_paths. Qed.

Lemma in_sinks_in : forall R ss s, In s ss -> In (s_node s) R -> In s (sinks_in R ss).
Proof. intros R ss s H1 H2. unfold sinks_in. apply filter_In. split; [exact H1|apply memN_In; exact H2]. Qed.

(* from the boolean checks to statements about every path from an entry point *)
Theorem no_bad_sink_sound : forall g entries ss, no_bad_sink g entries ss = true ->
  forall e n s, In e entries -> path g e n -> In s ss -> s_node s = n -> bad_sink s = false.
Proof.
  intros g entries ss H e n s He P Hs En. unfold no_bad_sink in H.
  apply andb_true_iff in H. destruct H as [H H3]. apply andb_true_iff in H. destruct H as [H1 H2].
  rewrite forallb_forall in H3. subst n.
  assert (I : In s (sinks_in (reach g entries) ss)).
  { apply in_sinks_in; [exact Hs|]. eapply reach_complete; eassumption. }
  specialize (H3 s I). destruct (bad_sink s); [discriminate|reflexivity].
Qed.

Theorem exec_import_closed_sound : forall g entries ss a, exec_import_closed g entries ss a = true ->
  forall e n s, In e entries -> path g e n -> In s ss -> s_node s = n ->
  match s_kind s with
  | KEval | KCompile => False
  | KExec => s_node s = a /\ forallb prov_le_registry (s_args s) = true
  | KImport => forallb prov_le_registry (s_args s) = true
  | _ => True
  end.
Proof.
  intros g entries ss a H e n s He P Hs En. unfold exec_import_closed in H.
  apply andb_true_iff in H. destruct H as [H H3]. apply andb_true_iff in H. destruct H as [H1 H2].
  rewrite forallb_forall in H3. subst n.
  assert (I : In s (sinks_in (reach g entries) ss)).
  { apply in_sinks_in; [exact Hs|]. eapply reach_complete; eassumption. }
  specialize (H3 s I). destruct (s_kind s); try exact Logic.I; try discriminate.
  - apply andb_true_iff in H3. destruct H3 as [A B]. apply N.eqb_eq in A. split; assumption.
  - exact H3.
Qed.

Theorem open_only_filename_sound : forall g entries ss, open_only_filename_b g entries ss = true ->
  forall e n s, In e entries -> path g e n -> In s ss -> s_node s = n -> s_kind s = KOpen ->
  s_args s = [PFileName] /\ s_flag s = true.
Proof.
  intros g entries ss H e n s He P Hs En K. unfold open_only_filename_b in H.
  apply andb_true_iff in H. destruct H as [H H3]. apply andb_true_iff in H. destruct H as [H1 H2].
  rewrite forallb_forall in H3. subst n.
  assert (I : In s (sinks_in (reach g entries) ss)).
  { apply in_sinks_in; [exact Hs|]. eapply reach_complete; eassumption. }
  specialize (H3 s I). rewrite K in H3.
  destruct (s_args s) as [|p r]; [discriminate|]. destruct p; try discriminate. destruct r; [|discriminate]. split; [reflexivity|exact H3].
Qed.

(* examples: the checks are not vacuous *)
Example eval_of_text_is_bad : bad_sink (Sink 7 KEval 838 [PText] false) = true.
Proof. reflexivity. Qed.
Example exec_of_registry_is_not_bad : bad_sink (Sink 3 KExec 68 [PRegistry; PConst] false) = false.
Proof. reflexivity. Qed.
Example tiny_graph_finds_it :
  no_bad_sink [(1, [2]); (2, [3]); (3, []); (4, [])] [1] [Sink 3 KEval 1 [PText] false] = false
  /\ no_bad_sink [(1, [2]); (2, [3]); (3, []); (4, [])] [1] [Sink 4 KEval 1 [PText] false] = true.
Proof. vm_compute. split; reflexivity. Qed.
