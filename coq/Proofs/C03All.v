(* C03: every tabulated setting is a group with consistent metadata (finite, decided completely). *)
From Coq Require Import ZArith List Bool String.
From DS Require Import Base.ZMat Base.SGDefs Model.GroupCheck Gen.SGTables.
From DS Require Import Gen.SGTables0 Gen.SGTables1 Gen.SGTables2 Gen.SGTables3 Gen.SGTables4 Gen.SGTables5
  Gen.SGTables6 Gen.SGTables7 Gen.SGTables8 Gen.SGTables9 Gen.SGTables10 Gen.SGTables11.
From DS Require Import Proofs.C03Shard0 Proofs.C03Shard1 Proofs.C03Shard2 Proofs.C03Shard3 Proofs.C03Shard4
  Proofs.C03Shard5 Proofs.C03Shard6 Proofs.C03Shard7 Proofs.C03Shard8 Proofs.C03Shard9 Proofs.C03Shard10 Proofs.C03Shard11.
Import ListNotations.

Lemma all_groups_b : forallb setting_group_ok all_settings = true.
Proof.
  unfold all_settings. rewrite !forallb_app.
  rewrite shard0_groups, shard1_groups, shard2_groups, shard3_groups, shard4_groups, shard5_groups,
    shard6_groups, shard7_groups, shard8_groups, shard9_groups, shard10_groups, shard11_groups.
  reflexivity.
Qed.

Lemma all_groups : forall s, In s all_settings -> IsGroup (sg_ops s).
Proof.
  intros s Hs. apply is_groupb_spec. pose proof all_groups_b as H. rewrite forallb_forall in H. exact (H s Hs).
Qed.

Lemma all_meta_b : forallb setting_meta_ok all_settings = true.
Proof. vm_compute. reflexivity. Qed.

Lemma table_wide_b : same_number_same_pg all_settings && numbers_unique all_settings = true.
Proof. vm_compute. reflexivity. Qed.

Lemma n_settings_ok : List.length all_settings = n_settings.
Proof. vm_compute. reflexivity. Qed.

(* Non-vacuity: a concrete non-trivial setting satisfies the predicates. *)
Example nonvacuous : exists s, In s all_settings /\ (List.length (sg_ops s) >= 48)%nat /\ IsGroup (sg_ops s).
Proof.
  assert (H : existsb (fun s => (48 <=? List.length (sg_ops s))%nat) all_settings = true) by (vm_compute; reflexivity).
  apply existsb_exists in H as [s [Hs Hl]]. exists s. split; [exact Hs|]. split; [apply Nat.leb_le; exact Hl | apply all_groups; exact Hs].
Qed.
