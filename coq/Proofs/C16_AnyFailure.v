(* C16 - PDFFitStructure.read / readStr: whatever statement fails in the model, the target is untouched.
   Statements after the base call can fail only in `self.pdffit["spcgr"] = ...` when pdffit is not a
   dictionary; the restore of the default dictionary rules that out. *)
From Coq Require Import ZArith List Bool Lia.
From Coq Require Import Ascii String.
From DS Require Import Model.C16_ReadWriteTxn Gen.C16_RW Model.C16_Methods.
From DS Require Import Proofs.C16_Dict Proofs.C16_Fresh Proofs.C16_Main.
Import ListNotations.
Open Scope string_scope.
Open Scope Z_scope.

Lemma lookup_app {A} a (d1 d2 : list (string * A)) :
  lookup a (d1 ++ d2) = match lookup a d1 with Some v => Some v | None => lookup a d2 end.
Proof. induction d1 as [|[k v] r IH]; simpl; [reflexivity|]. destruct (String.eqb a k); [reflexivity | exact IH]. Qed.

Lemma lookup_update {A} a (new d : list (string * A)) :
  lookup a (update d new) = match lookup a (rev new) with Some v => Some v | None => lookup a d end.
Proof.
  unfold update. revert d. induction new as [|[k v] r IH]; intros d; simpl; [reflexivity|].
  rewrite IH, lookup_app, lookup_dset. simpl. destruct (lookup a (rev r)); [reflexivity|].
  destruct (String.eqb a k); reflexivity.
Qed.

(* the instance pdffit entry is absent, None, or a dictionary *)
Definition nd (o : obj) : Prop :=
  match lookup "pdffit" (o_inst o) with None | Some VNone | Some (VDict _) => True | Some _ => False end.

Lemma spcgr_total g d o : nd o -> update_spcgr g (restore_pdffit d o) <> None.
Proof.
  unfold nd, update_spcgr, restore_pdffit, getattr. destruct (lookup "pdffit" (o_inst o)) as [[]|] eqn:L; simpl;
    try contradiction; intros _; rewrite ?L; simpl; rewrite ?lookup_dset; simpl; discriminate.
Qed.
Lemma nd_title t o : nd o -> nd (default_title t o).
Proof. unfold nd, default_title. destruct (truthy _); simpl; [auto|]. rewrite lookup_dset. simpl. auto. Qed.
Lemma nd_items ps n o : nd o -> nd (set_all_items ps n o).
Proof. auto. Qed.
Definition nd_val (x : option value) : Prop :=
  match x with None | Some VNone | Some (VDict _) => True | Some _ => False end.
Lemma nd_update_aux (r l : option value) :
  match r with Some (VDict _) | None => true | Some _ => false end = true -> nd_val l ->
  nd_val (match r with Some v => Some v | None => l end).
Proof. destruct r as [[]|]; simpl; try discriminate; auto. Qed.
Lemma nd_update ps o : pdffit_entry_ok ps = true -> nd o -> nd (update_dict ps o).
Proof.
  intros Hok Hnd. unfold nd, update_dict; simpl. rewrite lookup_update.
  apply nd_update_aux; [exact Hok | exact Hnd].
Qed.

Lemma nd_init c n o : nd o -> nd (init_self c n o).
Proof. unfold nd, init_self. destruct (is_none _); simpl; [|auto]. rewrite lookup_dset. simpl. auto. Qed.
Lemma nd_drop_pdffit o : nd (drop_inst "pdffit" o).
Proof. unfold nd, drop_inst; simpl. rewrite lookup_remove. simpl. exact I. Qed.
Lemma nd_drop_other a o : String.eqb "pdffit" a = false -> nd o -> nd (drop_inst a o).
Proof. intros N. unfold nd, drop_inst; simpl. rewrite lookup_remove, N. auto. Qed.

Ltac nd_tac :=
  lazymatch goal with
  | |- nd (default_title _ _) => apply nd_title; nd_tac
  | |- nd (set_all_items _ _ _) => apply nd_items; nd_tac
  | |- nd (update_dict _ _) => apply nd_update; [first [assumption | reflexivity] | nd_tac]
  | |- nd (init_self _ _ _) => apply nd_init; nd_tac
  | |- nd (drop_inst "pdffit" _) => apply nd_drop_pdffit
  | |- nd (drop_inst _ _) => apply nd_drop_other; [reflexivity | nd_tac]
  end.

Ltac symrun H :=
  lazy -[drop_inst init_self init_next update_dict set_all_items set_all_next default_title restore_pdffit update_spcgr
         e_getparser e_title_of e_default_pdffit e_default_cell g_format g_filename g_source ps_parse ps_parsefile
         po_result po_sg Z.add] in H.

Lemma pdffit_any_failure_atomic : forall E G en o fs n x fr',
  (forall p ps sg, e_getparser E (g_format G) = Ok p ->
     parse_of G en fs p = {| po_result := Ok (Some ps); po_sg := sg |} -> pdffit_entry_ok ps = true) ->
  run_read E G CPDFFit en (frame_of o fs n) = Failed x fr' -> f_self fr' = o /\ f_fs fr' = fs.
Proof.
  intros E G en o fs n x fr' W H.
  destruct en; unfold parse_of in W; symrun H;
    (destruct (e_getparser E (g_format G)) as [p|e] eqn:Hg; symrun H; [|injection H as <- <-; split; reflexivity]);
    [ destruct (ps_parsefile p (g_filename G) fs) as [r sg] eqn:Hp | destruct (ps_parse p (g_source G)) as [r sg] eqn:Hp ];
    cbn [po_result po_sg] in H; symrun H;
    (destruct r as [[ps|]|e]; symrun H; [ | | injection H as <- <-; split; reflexivity ]);
    try (pose proof (W p ps sg eq_refl Hp) as Wp);
    (destruct sg as [g|]; symrun H; [|discriminate H]);
    match type of H with context [update_spcgr ?g0 (restore_pdffit ?d ?X)] =>
      destruct (update_spcgr g0 (restore_pdffit d X)) eqn:Hs; symrun H; [discriminate H|];
      exfalso; revert Hs; apply spcgr_total; nd_tac
    end.
Qed.

Lemma read_any_failure_atomic_all : forall E G c en o fs n x fr',
  (forall p ps sg, e_getparser E (g_format G) = Ok p ->
     parse_of G en fs p = {| po_result := Ok (Some ps); po_sg := sg |} -> pdffit_entry_ok ps = true) ->
  run_read E G c en (frame_of o fs n) = Failed x fr' -> f_self fr' = o /\ f_fs fr' = fs.
Proof.
  intros E G c en o fs n x fr' W H. destruct c.
  - exact (read_any_failure_atomic E G en o fs n x fr' H).
  - exact (pdffit_any_failure_atomic E G en o fs n x fr' W H).
Qed.
