(* C16 - facts about the instance-dictionary operations and the item replacement of the model *)
From Coq Require Import ZArith List Bool Lia.
From Coq Require Import Ascii String.
From DS Require Import Model.C16_ReadWriteTxn.
Import ListNotations.
Open Scope string_scope.
Open Scope Z_scope.

Lemma lookup_dset {A} a b (v : A) d : lookup a (dset b v d) = if String.eqb a b then Some v else lookup a d.
Proof.
  induction d as [|[k w] r IH]; simpl.
  - destruct (String.eqb a b); reflexivity.
  - destruct (String.eqb b k) eqn:Hbk; simpl.
    + apply String.eqb_eq in Hbk; subst k. destruct (String.eqb a b); reflexivity.
    + rewrite IH. destruct (String.eqb a k) eqn:Hak; [|reflexivity].
      apply String.eqb_eq in Hak; subst k. rewrite String.eqb_sym, Hbk. reflexivity.
Qed.

Lemma lookup_remove {A} a b (d : list (string * A)) : lookup a (remove b d) = if String.eqb a b then None else lookup a d.
Proof.
  induction d as [|[k w] r IH]; simpl.
  - destruct (String.eqb a b); reflexivity.
  - destruct (String.eqb b k) eqn:Hbk; simpl.
    + rewrite IH. apply String.eqb_eq in Hbk; subst k. destruct (String.eqb a b); reflexivity.
    + rewrite IH. destruct (String.eqb a b) eqn:Hab; [|reflexivity].
      apply String.eqb_eq in Hab; subst b. rewrite Hbk. reflexivity.
Qed.

(* after d.update(new) an entry depends on the old dictionary only for keys that new does not carry *)
Lemma lookup_update_indep {A} a (new d1 d2 : list (string * A)) :
  lookup a d1 = lookup a d2 \/ In a (map fst new) -> lookup a (update d1 new) = lookup a (update d2 new).
Proof.
  unfold update. revert d1 d2. induction new as [|[k v] r IH]; intros d1 d2 H; simpl in *.
  - destruct H as [H|[]]; exact H.
  - apply IH. destruct (String.eqb a k) eqn:Hak.
    + left. rewrite !lookup_dset, Hak. reflexivity.
    + destruct H as [H|[H|H]].
      * left. rewrite !lookup_dset, Hak. exact H.
      * subst k. rewrite String.eqb_refl in Hak. discriminate.
      * right. exact H.
Qed.

Lemma lookup_update_in {A} a (new d : list (string * A)) :
  In a (map fst new) -> lookup a (update d new) <> None.
Proof.
  unfold update. revert d. induction new as [|[k v] r IH]; intros d H; simpl in *; [contradiction|].
  destruct (in_dec string_dec a (map fst r)) as [I|N]; [apply IH; exact I|].
  destruct H as [H|H]; [subst k|contradiction].
  assert (forall d', lookup a d' <> None -> lookup a (fold_left (fun acc kv => dset (fst kv) (snd kv) acc) r d') <> None) as K.
  { clear -N. induction r as [|[k w] r IH]; intros d' H; simpl in *; [exact H|].
    apply IH; [tauto|]. rewrite lookup_dset. destruct (String.eqb a k); [discriminate|exact H]. }
  apply K. rewrite lookup_dset, String.eqb_refl. discriminate.
Qed.

(* self[:] = new : payloads are those of the new atoms, every atom refers to the given lattice *)
Lemma copy_items_payloads cur l next new : map a_payload (fst (copy_items cur l next new)) = map a_payload new.
Proof.
  revert next. induction new as [|a r IH]; intros next; simpl; [reflexivity|].
  destruct (has_id (a_id a) cur).
  - specialize (IH next). destruct (copy_items cur l next r); simpl in *. f_equal. exact IH.
  - specialize (IH (next + 1)). destruct (copy_items cur l (next + 1) r); simpl in *. f_equal. exact IH.
Qed.

Lemma copy_items_lattice cur l next new : Forall (fun a => a_lat a = l) (fst (copy_items cur l next new)).
Proof.
  revert next. induction new as [|a r IH]; intros next; simpl; [constructor|].
  destruct (has_id (a_id a) cur).
  - specialize (IH next). destruct (copy_items cur l next r); simpl in *. constructor; [reflexivity|exact IH].
  - specialize (IH (next + 1)). destruct (copy_items cur l (next + 1) r); simpl in *. constructor; [reflexivity|exact IH].
Qed.
