(* C04 - the descriptors extracted from the current source equal the pinned ones. *)
From Coq Require Import List String.
From DS Require Import Base.C04_Text Model.C04_Fmt Gen.C04_FmtSpecs Model.C04_Pinned.
Lemma formats_pinned : all_specs = pinned_specs /\ all_lits = pinned_lits /\ all_nats = pinned_nats.
Proof. vm_compute. repeat split; reflexivity. Qed.
