(* C16 - heap model: the premises of the heap theorems are satisfiable by non-trivial instances (a world
   built by C08 operations: a used target with two atoms, a parser result with three atoms in a lattice
   of its own, a brand-new target), and the swapped statement order is refuted on the heap. *)
From Coq Require Import Ascii String.
From Coq Require Import List ZArith Bool Arith Lia.
From DS Require Import Model.C08_StructHeap Proofs.C08_Lists Proofs.C08_Prims Proofs.C08_Inv Proofs.C08_Step.
From DS Require Import Model.C16_Heap Gen.C16_RW Proofs.C16_HeapCore Proofs.C16_HeapBridge.
Import ListNotations.
Open Scope nat_scope.

(* objs[0]: the used target (atoms 0,1; lattice 0); objs[1]: the parser result (atoms 2,3,4; lattice 1);
   objs[2]: a brand-new Structure() (lattice 2) *)
Definition ex_world : world :=
  run current [NewStruct; AddNewAtom 0 (lab 1); AddNewAtom 0 (lab 2);
               NewStruct; AddNewAtom 1 (lab 5); AddNewAtom 1 (lab 6); AddNewAtom 1 (lab 7);
               NewStruct] empty_world.
Lemma ex_world_Inv : Inv ex_world.
Proof. apply run_Inv. apply empty_Inv. Qed.

Definition ex_E : T.env :=
  {| T.e_getparser := fun _ => T.Raise 0%Z; T.e_title_of := fun f => (f + 1000)%Z; T.e_open_w := fun _ => T.Ok tt;
     T.e_default_pdffit := [("scale"%string, 1%Z); ("spcgr"%string, 2%Z)]; T.e_default_cell := 1%Z; T.e_new_lattice := 900%Z |}.
Definition ex_G : T.args := {| T.g_filename := 6%Z; T.g_source := 2%Z; T.g_format := 0%Z |}.
Definition ex_cells : list (lid * Z) := [(0, 4%Z); (1, 3%Z); (2, 1%Z)].
Definition ex_used_meta : T.obj :=
  {| T.o_cls := T.CPDFFit; T.o_items := [];
     T.o_inst := [("title"%string, T.VStr 33); ("pdffit"%string, T.VDict [("scale"%string, 70%Z); ("spcgr"%string, 2%Z)]);
                  ("xcfg"%string, T.VOther 8)] |}.
(* the used target, right after the parse returned objs[1] *)
Definition ex_s : hstate := mkHS ex_world 0 (Some 1) [] ex_used_meta false ex_cells (Some 9%Z).
(* the same read into the brand-new object objs[2] *)
Definition ex_t : hstate := mkHS ex_world 2 (Some 1) [] (fresh_meta ex_E T.CPDFFit) false ex_cells (Some 9%Z).
(* the parser returned None *)
Definition ex_s_none : hstate := mkHS ex_world 0 None [] ex_used_meta false ex_cells None.
Definition ex_t_none : hstate := mkHS ex_world 2 None [] (fresh_meta ex_E T.CPDFFit) false ex_cells None.

Lemma ex_mk_hpre : forall self new nm m cells sg,
  (exists old L0, get_struct ex_world self = Some (old, L0)) ->
  (forall nh, new = Some nh -> nh <> self /\ exists nits Ln, get_struct ex_world nh = Some (nits, Ln)) ->
  hpre (mkHS ex_world self new nm m false cells sg).
Proof. intros. constructor; simpl; auto. exact ex_world_Inv. Qed.
Lemma ex_hpre : hpre ex_s /\ hpre ex_t /\ hpre ex_s_none /\ hpre ex_t_none.
Proof.
  split; [|split; [|split]]; apply ex_mk_hpre;
    try (eexists; eexists; vm_compute; reflexivity);
    try (intros nh H; inversion H; subst; split; [discriminate | eexists; eexists; vm_compute; reflexivity]);
    try (intros nh H; discriminate H).
Qed.
Example ex_same_result : same_result ex_s ex_t /\ same_result ex_s_none ex_t_none.
Proof. split; constructor; try (vm_compute; reflexivity); split; intros H; try discriminate H; vm_compute; reflexivity. Qed.
Example ex_disjoint : forall a, In a (new_items ex_s) -> ~ In a (self_items ex_s).
Proof. vm_compute. intros a [H|[H|[H|[]]]] [K|[K|[]]]; subst; discriminate. Qed.

(* what the generated statements make of the used target: the three payloads of the result in NEW atom
   objects 5,6,7 (the heap had 5 atoms), all referring to lattice 1 = the result's lattice, title from the
   file name, default pdffit with the parser's space group, no xcfg *)
Example ex_heap_run : exists s',
  hrun_read ex_E ex_G T.CPDFFit T.ReadFile ex_s = Some s' /\
  self_items s' = [5; 6; 7] /\ self_payloads s' = [lab 5; lab 6; lab 7] /\ self_lat s' = Some 1 /\ new_lat s' = Some 1 /\
  points_b s' = true /\ self_cell s' = Some 3%Z /\ new_items s' = [2; 3; 4] /\
  T.o_inst (hs_meta s') = [("title"%string, T.VStr 1006); ("pdffit"%string, T.VDict [("scale"%string, 1%Z); ("spcgr"%string, 9%Z)])].
Proof. eexists. split; [vm_compute; reflexivity|]. repeat split; vm_compute; reflexivity. Qed.
Example ex_heap_run_fresh : exists t',
  hrun_read ex_E ex_G T.CPDFFit T.ReadFile ex_t = Some t' /\
  self_payloads t' = [lab 5; lab 6; lab 7] /\ self_lat t' = Some 1 /\ points_b t' = true /\ self_cell t' = Some 3%Z /\
  T.o_inst (hs_meta t') = [("title"%string, T.VStr 1006); ("pdffit"%string, T.VDict [("scale"%string, 1%Z); ("spcgr"%string, 9%Z)])].
Proof. eexists. split; [vm_compute; reflexivity|]. repeat split; vm_compute; reflexivity. Qed.
(* the parser returned None: the used target ends empty, in a new default lattice (object 3), like a new one *)
Example ex_heap_run_none : exists s',
  hrun_read ex_E ex_G T.CPDFFit T.ReadFile ex_s_none = Some s' /\
  self_items s' = [] /\ self_lat s' = Some 3 /\ new_lat s' = Some 3 /\ self_cell s' = Some 1%Z /\ points_b s' = true /\
  T.o_inst (hs_meta s') = [("title"%string, T.VStr 1006); ("pdffit"%string, T.VDict [("scale"%string, 1%Z); ("spcgr"%string, 2%Z)])].
Proof. eexists. split; [vm_compute; reflexivity|]. repeat split; vm_compute; reflexivity. Qed.

(* ---------- teeth: `self[:] = new` BEFORE `self.__dict__.update(new.__dict__)` ---------- *)
(* the copied atoms get the OLD lattice object 0, then the lat field becomes 1 without touching them *)
Definition items_first_readstr : list T.effect :=
  [ T.EGetParser; T.EParse; T.EDefaultNewStructure; T.EDropInst "title"; T.EDropInst "pdffit"; T.EDropInst "xcfg"; T.EInitSelf;
    T.EGuardParsed T.ESetAllItems; T.EGuardParsed T.EUpdateDict; T.EReturnParser ].
Example heap_items_first_refuted : exists s',
  hrun0 ex_E ex_G items_first_readstr ex_s = Some s' /\
  self_lat s' = Some 1 /\ map (lat_of (hs_world s')) (self_items s') = [Some 0; Some 0; Some 0] /\ points_b s' = false.
Proof. eexists. split; [vm_compute; reflexivity|]. repeat split; vm_compute; reflexivity. Qed.
(* extend instead of slice assignment would keep the old atoms: modelled by leaving the statement out *)
Definition no_setall_readstr : list T.effect :=
  [ T.EGetParser; T.EParse; T.EDefaultNewStructure; T.EDropInst "title"; T.EDropInst "pdffit"; T.EDropInst "xcfg"; T.EInitSelf;
    T.EGuardParsed T.EUpdateDict; T.EReturnParser ].
Example heap_no_setall_refuted : exists s',
  hrun0 ex_E ex_G no_setall_readstr ex_s = Some s' /\ self_items s' = [0; 1] /\ points_b s' = false.
Proof. eexists. split; [vm_compute; reflexivity|]. repeat split; vm_compute; reflexivity. Qed.
