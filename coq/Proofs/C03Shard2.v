(* Kernel decision of the group axioms for shard 2 of the regenerated tables. *)
From Coq Require Import ZArith List Bool.
From DS Require Import Base.ZMat Base.SGDefs Model.GroupCheck Gen.SGTables2.
Lemma shard2_groups : forallb setting_group_ok shard2 = true.
Proof. vm_compute. reflexivity. Qed.
