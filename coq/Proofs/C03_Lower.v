(* C03, "rejecting cells that only a lower crystal system allows": whatever cell the translated rule of a crystal system
   accepts has the full metric symmetry (holohedry) of that system in one of its standard orientations.  Contrapositive:
   a cell whose metric is invariant under none of the listed holohedries - a cell that only a lower system allows - is rejected. *)
From Coq Require Import ZArith Reals Lra List Bool String.
From DS Require Import Base.ZMat Base.RMat Base.Trig Base.SGDefs Model.LatRuleDefs Model.LatRule Proofs.LatRuleSound Gen.LatRules.
Import ListNotations.
Open Scope R_scope.

(* generators of the lattice point groups, as integer matrices acting on fractional coordinates *)
Definition r2a := M3 1 0 0 0 (-1) 0 0 0 (-1).      (* 2-fold about a *)
Definition r2b := M3 (-1) 0 0 0 1 0 0 0 (-1).
Definition r2c := M3 (-1) 0 0 0 (-1) 0 0 0 1.
Definition r4c := M3 0 (-1) 0 1 0 0 0 0 1.         (* 4-fold about c *)
Definition r3d := M3 0 0 1 1 0 0 0 1 0.            (* 3-fold about [111]: cyclic permutation *)
Definition r2x := M3 0 1 0 1 0 0 0 0 1.            (* mirror exchanging a and b *)
Definition r6c := M3 1 (-1) 0 1 0 0 0 0 1.         (* 6-fold about c in hexagonal axes *)

Definition holohedries (sys : string) : list (list m3) :=
  if String.eqb sys "TRICLINIC" then [[I3]]
  else if String.eqb sys "MONOCLINIC" then [[r2b]; [r2c]; [r2a]]
  else if String.eqb sys "ORTHORHOMBIC" then [[r2a; r2b; r2c]]
  else if String.eqb sys "TETRAGONAL" then [[r4c; r2a]]
  else if String.eqb sys "TRIGONAL" then [[r3d; r2x]; [r6c; r2x]]
  else if String.eqb sys "HEXAGONAL" then [[r6c; r2x]]
  else if String.eqb sys "CUBIC" then [[r3d; r4c]]
  else [].

Ltac inv_tac := unfold invariant, preserves, metric_mat, rmat; cbv zeta;
  cbn [m11 m12 m13 m21 m22 m23 m31 m32 m33 r2a r2b r2c r4c r3d r2x r6c I3];
  apply mat_eq; rm_simpl; try ring.

Lemma inv_I c : invariant I3 c.
Proof. inv_tac. Qed.

Section Sys.
  Variable c : cell.
  Let a := c_a c. Let b := c_b c. Let cc := c_c c.

  Lemma inv_r2b : c_alpha c = 90 -> c_gamma c = 90 -> invariant r2b c.
  Proof. intros Ha Hg. unfold invariant, preserves, metric_mat, rmat; cbv zeta. rewrite Ha, Hg, cosd_90.
    cbn [m11 m12 m13 m21 m22 m23 m31 m32 m33 r2b]. apply mat_eq; rm_simpl; ring. Qed.
  Lemma inv_r2c : c_alpha c = 90 -> c_beta c = 90 -> invariant r2c c.
  Proof. intros Ha Hb. unfold invariant, preserves, metric_mat, rmat; cbv zeta. rewrite Ha, Hb, cosd_90.
    cbn [m11 m12 m13 m21 m22 m23 m31 m32 m33 r2c]. apply mat_eq; rm_simpl; ring. Qed.
  Lemma inv_r2a : c_beta c = 90 -> c_gamma c = 90 -> invariant r2a c.
  Proof. intros Hb Hg. unfold invariant, preserves, metric_mat, rmat; cbv zeta. rewrite Hb, Hg, cosd_90.
    cbn [m11 m12 m13 m21 m22 m23 m31 m32 m33 r2a]. apply mat_eq; rm_simpl; ring. Qed.
  Lemma inv_r4c : c_a c = c_b c -> c_alpha c = 90 -> c_beta c = 90 -> c_gamma c = 90 -> invariant r4c c.
  Proof. intros Hab Ha Hb Hg. unfold invariant, preserves, metric_mat, rmat; cbv zeta. rewrite Hab, Ha, Hb, Hg, cosd_90.
    cbn [m11 m12 m13 m21 m22 m23 m31 m32 m33 r4c]. apply mat_eq; rm_simpl; ring. Qed.
  Lemma inv_r3d : c_a c = c_b c -> c_b c = c_c c -> c_alpha c = c_beta c -> c_beta c = c_gamma c -> invariant r3d c.
  Proof. intros Hab Hbc Ha Hb. unfold invariant, preserves, metric_mat, rmat; cbv zeta. rewrite Hab, Hbc, Ha, Hb.
    cbn [m11 m12 m13 m21 m22 m23 m31 m32 m33 r3d]. apply mat_eq; rm_simpl; ring. Qed.
  Lemma inv_r2x : c_a c = c_b c -> c_alpha c = c_beta c -> invariant r2x c.
  Proof. intros Hab Ha. unfold invariant, preserves, metric_mat, rmat; cbv zeta. rewrite Hab, Ha.
    cbn [m11 m12 m13 m21 m22 m23 m31 m32 m33 r2x]. apply mat_eq; rm_simpl; ring. Qed.
  Lemma inv_r6c : c_a c = c_b c -> c_alpha c = 90 -> c_beta c = 90 -> c_gamma c = 120 -> invariant r6c c.
  Proof. intros Hab Ha Hb Hg. unfold invariant, preserves, metric_mat, rmat; cbv zeta. rewrite Hab, Ha, Hb, Hg, cosd_90, cosd_120.
    cbn [m11 m12 m13 m21 m22 m23 m31 m32 m33 r6c]. apply mat_eq; rm_simpl; field. Qed.
End Sys.

(* one generator of a candidate holohedry leaves the cell invariant, from whatever equalities are in the context *)
Ltac inv_gen := first
  [ apply inv_I | apply inv_r2b; congruence | apply inv_r2c; congruence | apply inv_r2a; congruence
  | apply inv_r4c; congruence | apply inv_r3d; congruence | apply inv_r2x; congruence | apply inv_r6c; congruence ].
Ltac solve_with gens :=
  exists gens; split;
  [ vm_compute; tauto
  | let R := fresh "R" in let HR := fresh "HR" in intros R HR; cbn [In] in HR;
    repeat (destruct HR as [<-|HR]; [inv_gen|]); contradiction ].

(* independent of the order in which the source writes the conjuncts and disjuncts of a rule *)
Theorem accepted_cells_have_the_holohedry : forall sys r c,
  lookup_rule rule_table sys = Some r -> interp r c ->
  exists gens, In gens (holohedries sys) /\ forall R, In R gens -> invariant R c.
Proof.
  intros sys r c HL HI. unfold rule_table in HL. cbn [lookup_rule] in HL.
  repeat match type of HL with
  | (if String.eqb ?k sys then _ else _) = _ =>
      let E := fresh "E" in destruct (String.eqb k sys) eqn:E;
      [apply String.eqb_eq in E; subst sys; injection HL as <- | ]
  end; try discriminate.
  all: cbn [interp term_val par_val] in HI.
  all: repeat match goal with
       | H : _ /\ _ |- _ => destruct H
       | H : _ \/ _ |- _ => destruct H
       end.
  all: first [ solve_with [I3] | solve_with [r2b] | solve_with [r2c] | solve_with [r2a] | solve_with [r2a; r2b; r2c]
             | solve_with [r4c; r2a] | solve_with [r3d; r2x] | solve_with [r6c; r2x] | solve_with [r3d; r4c] ].
Qed.

(* the form the property is worded in: a cell that none of the system's holohedries leaves invariant is rejected *)
Corollary lower_symmetry_cells_rejected : forall sys r c,
  lookup_rule rule_table sys = Some r ->
  (forall gens, In gens (holohedries sys) -> exists R, In R gens /\ ~ invariant R c) -> ~ interp r c.
Proof.
  intros sys r c HL Hno HI. destruct (accepted_cells_have_the_holohedry sys r c HL HI) as [gens [Hin Hall]].
  destruct (Hno gens Hin) as [R [HR Hn]]. apply Hn. apply Hall. exact HR.
Qed.
