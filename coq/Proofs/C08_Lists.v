(* C08 - list lemmas used by the heap-model proofs *)
From Coq Require Import List ZArith Bool Arith Lia Permutation.
From DS Require Import Model.C08_StructHeap.
Import ListNotations.
Open Scope nat_scope.

Lemma upd_nth_length : forall A (f : A -> A) l n, length (upd_nth n f l) = length l.
Proof. induction l; destruct n; simpl; auto. Qed.

Lemma nth_error_upd_nth_eq : forall A (f : A -> A) l n x,
  nth_error l n = Some x -> nth_error (upd_nth n f l) n = Some (f x).
Proof. induction l; destruct n; simpl; intros; try discriminate; auto. inversion H; auto. Qed.

Lemma nth_error_upd_nth_neq : forall A (f : A -> A) l n m,
  n <> m -> nth_error (upd_nth n f l) m = nth_error l m.
Proof. induction l; destruct n; destruct m; simpl; intros; auto; try lia. Qed.

Lemma nth_error_upd_nth_inv : forall A (f : A -> A) l n m y,
  nth_error (upd_nth n f l) m = Some y ->
  (n = m /\ exists x, nth_error l m = Some x /\ y = f x) \/ (n <> m /\ nth_error l m = Some y).
Proof.
  intros. destruct (Nat.eq_dec n m).
  - subst. left. split; auto. destruct (nth_error l m) eqn:E.
    + erewrite nth_error_upd_nth_eq in H by eauto. inversion H. eauto.
    + exfalso. apply nth_error_None in E. assert (nth_error (upd_nth m f l) m = None).
      { apply nth_error_None. rewrite upd_nth_length. auto. } congruence.
  - right. split; auto. rewrite nth_error_upd_nth_neq in H; auto.
Qed.

Lemma memb_In : forall a l, memb a l = true <-> In a l.
Proof.
  unfold memb. intros. rewrite existsb_exists. split.
  - intros [x [H1 H2]]. apply Nat.eqb_eq in H2. subst. auto.
  - intros. exists a. split; auto. apply Nat.eqb_refl.
Qed.

Lemma memb_false : forall a l, memb a l = false <-> ~ In a l.
Proof. intros. rewrite <- memb_In. destruct (memb a l); split; congruence. Qed.

Lemma nodupb_NoDup : forall l, nodupb l = true <-> NoDup l.
Proof.
  induction l; simpl.
  - split; auto. constructor.
  - rewrite andb_true_iff, negb_true_iff, memb_false, IHl. split.
    + intros [H1 H2]. constructor; auto.
    + intros H. inversion H; auto.
Qed.

Lemma pick_In : forall old idxs x, In x (pick old idxs) -> In x old.
Proof.
  unfold pick. intros. apply in_flat_map in H. destruct H as [i [_ H]].
  destruct (nth_error old i) eqn:E; simpl in H; [|tauto]. destruct H; [|tauto]. subst.
  eapply nth_error_In; eauto.
Qed.

Lemma pick_In_idx : forall old idxs x, In x (pick old idxs) -> exists i, In i idxs /\ nth_error old i = Some x.
Proof.
  unfold pick. intros. apply in_flat_map in H. destruct H as [i [Hi H]].
  destruct (nth_error old i) eqn:E; simpl in H; [|tauto]. destruct H; [|tauto]. subst. eauto.
Qed.

Lemma pick_NoDup : forall old idxs, NoDup old -> NoDup idxs -> NoDup (pick old idxs).
Proof.
  intros old idxs Ho. induction idxs; intros Hi; simpl.
  - constructor.
  - inversion Hi; subst. unfold pick in *. simpl. destruct (nth_error old a) eqn:E; simpl; auto.
    constructor; auto. intro Hin. apply in_flat_map in Hin. destruct Hin as [j [Hj Hin]].
    destruct (nth_error old j) eqn:Ej; simpl in Hin; [|tauto]. destruct Hin; [|tauto]. subst.
    assert (a = j). { pose proof (proj1 (NoDup_nth_error old) Ho) as Hn. apply Hn; [apply nth_error_Some; congruence | congruence]. }
    subst. contradiction.
Qed.

Lemma firstn_In' : forall A (l : list A) n x, In x (firstn n l) -> In x l.
Proof. intros. rewrite <- (firstn_skipn n l). apply in_or_app. auto. Qed.

Lemma skipn_In' : forall A (l : list A) n x, In x (skipn n l) -> In x l.
Proof. intros. rewrite <- (firstn_skipn n l). apply in_or_app. auto. Qed.

Lemma upd_nth_In : forall A (l : list A) n a x, In x (upd_nth n (fun _ => a) l) -> x = a \/ In x l.
Proof.
  induction l; destruct n; simpl; intros; auto.
  - destruct H as [H|H]; [left; auto | right; right; auto].
  - destruct H as [H|H]; [right; left; auto | apply IHl in H; destruct H; auto].
Qed.

Lemma assign_all_In : forall prs old x, In x (assign_all old prs) -> In x old \/ In x (map snd prs).
Proof.
  induction prs as [|[i a] t]; simpl; intros; auto.
  apply IHt in H. destruct H; auto. apply upd_nth_In in H. destruct H; auto.
Qed.

Lemma upd_nth_NoDup : forall (l : list nat) n a, NoDup l -> ~ In a l -> NoDup (upd_nth n (fun _ => a) l).
Proof.
  induction l; destruct n; simpl; intros; auto.
  - inversion H; subst. constructor; auto; intro; apply H0; auto.
  - inversion H; subst. constructor.
    + intro Hin. apply upd_nth_In in Hin. destruct Hin; subst; auto; apply H0; auto.
    + apply IHl; auto.
Qed.

Lemma NoDup_app_l : forall (A B : list nat), NoDup (A ++ B) -> NoDup A.
Proof.
  induction A; simpl; intros; [constructor|]. inversion H; subst. constructor; eauto.
  intro. apply H2. apply in_or_app. auto.
Qed.

Lemma NoDup_app_r : forall (A B : list nat), NoDup (A ++ B) -> NoDup B.
Proof. induction A; simpl; intros; auto. inversion H; subst. eauto. Qed.

Lemma assign_all_NoDup : forall prs old,
  NoDup (map snd prs ++ old) -> NoDup (assign_all old prs).
Proof.
  induction prs as [|[i a] t]; simpl; intros old H.
  - auto.
  - inversion H; subst. apply IHt.
    pose proof (NoDup_app_r _ _ H3) as Hold.
    assert (Ha : ~ In a old) by (intro; apply H2; apply in_or_app; auto).
    (* NoDup (map snd t ++ upd_nth i a old) *)
    assert (Ht : NoDup (map snd t)) by (eapply NoDup_app_l; eauto).
    clear IHt H.
    induction (map snd t) as [|y ys IH]; simpl.
    + apply upd_nth_NoDup; auto.
    + inversion H3; subst. inversion Ht; subst. constructor.
      * intro Hin. apply in_app_or in Hin. destruct Hin as [Hin|Hin].
        -- contradiction.
        -- apply upd_nth_In in Hin. destruct Hin.
           ++ subst. apply H2. apply in_or_app. left. left. auto.
           ++ apply H1. apply in_or_app. auto.
      * apply IH; auto. intro. apply H2. apply in_app_or in H. apply in_or_app. destruct H; auto. left. right. auto.
Qed.

Lemma NoDup_app_intro : forall (A B : list nat), NoDup A -> NoDup B -> (forall x, In x A -> ~ In x B) -> NoDup (A ++ B).
Proof.
  induction A; simpl; intros; auto. inversion H; subst. constructor.
  - intro Hin. apply in_app_or in Hin. destruct Hin; auto. eapply H1; eauto.
  - apply IHA; auto.
Qed.

Lemma NoDup_app_disj : forall (A B : list nat) x, NoDup (A ++ B) -> In x A -> ~ In x B.
Proof.
  induction A; simpl; intros; [tauto|]. inversion H; subst. destruct H0.
  - subst. intro. apply H3. apply in_or_app. auto.
  - eapply IHA; eauto.
Qed.

Lemma NoDup_splice : forall (U1 U2 ids : list nat),
  NoDup (U1 ++ U2) -> NoDup ids -> (forall x, In x ids -> ~ In x (U1 ++ U2)) -> NoDup (U1 ++ ids ++ U2).
Proof.
  intros. apply Permutation_NoDup with (l := ids ++ U1 ++ U2).
  - rewrite !app_assoc. apply Permutation_app_tail. apply Permutation_app_comm.
  - apply NoDup_app_intro; auto.
Qed.

Lemma repeat_list_In : forall A n (l : list A) x, In x (repeat_list n l) -> In x l.
Proof. induction n; simpl; intros; [tauto|]. apply in_app_or in H. destruct H; auto. Qed.

Lemma nodup_first_In : forall l seen x, In x (nodup_first seen l) -> In x l.
Proof.
  induction l; simpl; intros; auto. destruct (memb a seen).
  - right. eauto.
  - destruct H; auto. right. eauto.
Qed.

Lemma nodup_first_NoDup : forall l seen, NoDup (nodup_first seen l) /\ (forall x, In x (nodup_first seen l) -> ~ In x seen).
Proof.
  induction l; simpl; intros.
  - split; [constructor|tauto].
  - destruct (memb a seen) eqn:E.
    + apply IHl.
    + destruct (IHl (a :: seen)) as [H1 H2]. split.
      * constructor; auto. intro Hin. apply H2 in Hin. apply Hin. left. auto.
      * intros x [Hx|Hx].
        -- subst. apply memb_false. auto.
        -- apply H2 in Hx. intro. apply Hx. right. auto.
Qed.

Lemma complement_NoDup : forall n idxs, NoDup (complement n idxs).
Proof. intros. unfold complement. apply NoDup_filter. apply seq_NoDup. Qed.

Lemma index_of_Some : forall l a k, index_of a l = Some k -> nth_error l k = Some a.
Proof.
  induction l; simpl; intros; try discriminate. destruct (Nat.eqb a0 a) eqn:E.
  - inversion H. apply Nat.eqb_eq in E. subst. auto.
  - destruct (index_of a0 l) eqn:E2; simpl in H; try discriminate. inversion H. simpl. auto.
Qed.

Lemma filter_In' : forall (f : nat -> bool) l x, In x (filter f l) -> In x l.
Proof. intros. apply filter_In in H. tauto. Qed.
