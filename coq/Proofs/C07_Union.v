(* C07 - the atoms returned by the reader model are the concatenation, in site order, of one block per site of the
   asymmetric unit; the block of a site lists the positions of C02's exact expansion of that site, in that order,
   every image carries the parent's element and occupancy and anisotropy flag, and for an anisotropic parent the
   tensor R U R^T with R the rotation of the first operation generating the position. *)
From Coq Require Import ZArith List Bool String Lia.
From DS Require Import Base.ZMat Base.SGDefs Base.C09_GNum Model.GroupCheck Model.C02_Orbit.
From DS Require Import Model.C09_Prims Gen.C09_AtomFormulas Model.C09_AtomADP Model.C11_LookupDefs Proofs.C02_OrbitStab.
From DS Require Import Model.C07_Text Model.C07_SymopText Model.C07_SpecDefs Gen.C07_CifSpec Model.C07_CifRead.
Import ListNotations.

Section Union.
Context {T : Type} (E : env (T:=T)).
Let C := e_C E.

Definition site_expansion (G : list symop) (au : ratom * gmat T) := expand_exact (D E) G v0 (grid_of E (a_xyz (fst au))).
Definition mult_of (G : list symop) (au : ratom * gmat T) : nat := snd (site_expansion G au).

(* what the block of one site must look like *)
Definition site_spec (G : list symop) (au : ratom * gmat T) (blk : list oatom) : Prop :=
  let a := fst au in let u := snd au in
  let pos := fst (fst (site_expansion G au)) in let opss := snd (fst (site_expansion G au)) in
  List.length blk = mult_of G au /\
  map o_pos blk = pos /\
  Forall (fun o => o_elem o = a_elem a /\ o_occ o = a_occ a /\ o_aniso o = st_aniso (a_adp a)) blk /\
  (forall j o ops, nth_error blk j = Some o -> nth_error opss j = Some ops ->
     o_U o = if st_aniso (a_adp a) then rot_U E (fst (hd ident ops)) u else rd_U C (a_adp a)) /\
  (forall o, hd_error blk = Some o -> o_label o = a_label a).

Lemma expand_exact_lengths Dz G off x :
  let r := expand_exact Dz G off x in
  List.length (fst (fst r)) = snd r /\ List.length (snd (fst r)) = snd r.
Proof. unfold expand_exact. cbn [fst snd]. rewrite !map_length. split; reflexivity. Qed.

Lemma image_labels_length sch base n : forall k taken, List.length (fst (image_labels sch base n k taken)) = n.
Proof.
  induction n as [|n IH]; intros k taken; cbn [image_labels]; [reflexivity|].
  destruct sch.
  - specialize (IH (S k) (suffix_label base (S k) :: taken)).
    destruct (image_labels LSPlain base n (S k) (suffix_label base (S k) :: taken)) as [ls tk]. cbn [fst List.length] in *. rewrite IH. reflexivity.
  - set (k' := first_free (S (List.length taken)) base (S k) taken).
    specialize (IH k' (suffix_label base k' :: taken)).
    destruct (image_labels LSFresh base n k' (suffix_label base k' :: taken)) as [ls tk]. cbn [fst List.length] in *. rewrite IH. reflexivity.
Qed.

(* three lists walked together *)
Lemma zip3_spec {A B Cc} : forall (P : list B) (L : list A) (Q : list Cc),
  List.length Q = List.length P -> (List.length P <= List.length L)%nat ->
  let Z := combine (combine L P) Q in
  List.length Z = List.length P /\ map (fun t => snd (fst t)) Z = P /\
  (forall j t, nth_error Z j = Some t -> nth_error Q j = Some (snd t)) /\
  (forall t, hd_error Z = Some t -> hd_error L = Some (fst (fst t))).
Proof.
  induction P as [|p P IH]; intros L Q HQ HL.
  - destruct Q; [|discriminate]. destruct L; cbn; repeat split; try reflexivity; intros; try destruct j; discriminate.
  - destruct Q as [|q Q]; [discriminate|]. destruct L as [|l L]; [cbn in HL; lia|].
    cbn [combine]. cbn [List.length] in HQ, HL.
    destruct (IH L Q) as [H1 [H2 [H3 H4]]]; [lia | lia |].
    cbn zeta in *. split; [cbn [List.length]; rewrite H1; reflexivity|].
    split; [cbn [map fst snd]; rewrite H2; reflexivity|].
    split.
    + intros j t. destruct j as [|j]; cbn [nth_error].
      * intros H; inversion H; reflexivity.
      * apply H3.
    + intros t H; inversion H; reflexivity.
Qed.

Lemma image_fields a u lab p ops :
  let o := image E a u lab p ops in
  o_label o = lab /\ o_pos o = p /\ o_elem o = a_elem a /\ o_occ o = a_occ a /\ o_aniso o = st_aniso (a_adp a) /\
  o_U o = if st_aniso (a_adp a) then rot_U E (fst (hd ident ops)) u else rd_U C (a_adp a).
Proof.
  unfold image. cbn [o_label o_pos o_elem o_occ o_aniso o_U].
  destruct (st_aniso (a_adp a)) eqn:Ha.
  - repeat split; try reflexivity.
    + unfold set_U, set_stU. cbn [st_aniso]. exact Ha.
    + unfold rd_U, get_U, get_anisotropy, set_U, set_stU. cbn [st_aniso st_U]. rewrite Ha. reflexivity.
  - repeat split; try reflexivity. exact Ha.
Qed.

Lemma expand_site_spec sch G au taken : site_spec G au (fst (expand_site E sch G au taken)).
Proof.
  destruct au as [a u]. unfold expand_site, site_spec, mult_of, site_expansion. cbn [fst snd].
  pose proof (expand_exact_lengths (D E) G v0 (grid_of E (a_xyz a))) as HL.
  destruct (expand_exact (D E) G v0 (grid_of E (a_xyz a))) as [[pos opss] m]. cbn [fst snd] in *. destruct HL as [Hp Ho].
  pose proof (image_labels_length sch (a_label a) (Nat.pred m) 1 taken) as Hl.
  destruct (image_labels sch (a_label a) (Nat.pred m) 1 taken) as [labs taken']. cbn [fst snd] in *.
  destruct (zip3_spec pos (a_label a :: labs) opss) as [H1 [H2 [H3 H4]]]; [lia | cbn [List.length]; lia |].
  cbn zeta in *.
  split; [rewrite map_length, H1; exact Hp|].
  split.
  { rewrite map_map. rewrite <- H2 at 2. apply map_ext. intros t. apply (image_fields a u). }
  split.
  { apply Forall_forall. intros o Ho'. apply in_map_iff in Ho' as [t [Ht _]]. subst o.
    destruct (image_fields a u (fst (fst t)) (snd (fst t)) (snd t)) as [_ [_ [F1 [F2 [F3 _]]]]]. auto. }
  split.
  { intros j o ops Hj Hops. rewrite nth_error_map in Hj.
    destruct (nth_error (combine (combine (a_label a :: labs) pos) opss) j) as [t|] eqn:Et; [|discriminate].
    cbn [option_map] in Hj. injection Hj as Hj. subst o.
    specialize (H3 j t Et). rewrite H3 in Hops. injection Hops as Hops. subst ops.
    apply (image_fields a u). }
  { intros o Ho'. destruct (combine (combine (a_label a :: labs) pos) opss) as [|t Z] eqn:EZ; [discriminate|].
    cbn [map hd_error] in Ho'. injection Ho' as Ho'. subst o.
    specialize (H4 t eq_refl). cbn [hd_error] in H4. injection H4 as H4.
    destruct (image_fields a u (fst (fst t)) (snd (fst t)) (snd t)) as [F0 _]. rewrite F0. symmetry. exact H4. }
Qed.

Lemma expand_all_blocks sch G : forall l taken,
  exists blocks, expand_all E sch G l taken = List.concat blocks /\ Forall2 (site_spec G) l blocks.
Proof.
  induction l as [|au l IH]; intros taken.
  - exists []. split; [reflexivity | constructor].
  - cbn [expand_all]. pose proof (expand_site_spec sch G au taken) as Hs.
    destruct (expand_site E sch G au taken) as [o tk]. cbn [fst] in Hs.
    destruct (IH tk) as [bl [Hb Hf]]. exists (o :: bl). split; [cbn [List.concat]; rewrite Hb; reflexivity | constructor; assumption].
Qed.

Lemma blocks_length G : forall l blocks, Forall2 (site_spec G) l blocks ->
  List.length (List.concat blocks) = list_sum (map (mult_of G) l).
Proof.
  intros l blocks H. induction H as [|au blk l bl H1 _ IH]; [reflexivity|].
  cbn [List.concat map list_sum]. rewrite app_length, IH. destruct H1 as [H1 _]. rewrite H1. reflexivity.
Qed.

Theorem cif_is_union_of_orbits find Tb b r : read_cif E find Tb b = Ok r ->
  exists blocks, r_atoms r = List.concat blocks /\ Forall2 (site_spec (r_group r)) (r_parents r) blocks /\
                 List.length (r_atoms r) = list_sum (map (mult_of (r_group r)) (r_parents r)).
Proof.
  unfold read_cif, read_typed. intros H.
  destruct (cell_numbers E (b_cell b)) as [cn|]; [|discriminate]. cbn [bind] in H.
  destruct (read_site_loop E (type_loop E (b_site b))) as [st0|]; [|discriminate]. cbn [bind] in H.
  destruct (read_aniso_loop E st0 (option_map (type_loop E) (b_aniso b))) as [st|]; [|discriminate]. cbn [bind] in H.
  destruct (resolve_sg find Tb b) as [sg|]; [|discriminate]. cbn [bind] in H.
  injection H as H. subst r. cbn [r_atoms r_group r_parents].
  destruct (expand_all_blocks the_label_scheme (snd sg) (parents E (snd sg) st)
              (map (fun au => a_label (fst au)) (parents E (snd sg) st))) as [bl [Hb Hf]].
  exists bl. split; [exact Hb|]. split; [exact Hf|]. rewrite Hb. apply blocks_length. exact Hf.
Qed.

(* with C02's theorem: when the operations form a group modulo lattice translations (every tabulated setting does,
   C03), the positions of a block are pairwise distinct, inside the cell, start with the site itself, are exactly the
   images of the site, and their number times the order of the site symmetry is the order of the group *)
Definition orbit_spec (G : list symop) (au : ratom * gmat T) (blk : list (oatom (T:=T))) : Prop :=
  let x := grid_of E (a_xyz (fst au)) in
  NoDup (map o_pos blk) /\
  (forall p, In p (map o_pos blk) -> in_cell (D E) p) /\
  hd_error (map o_pos blk) = Some (red (D E) x) /\
  (forall p, In p (map o_pos blk) <-> exists g, In g G /\ p = img (D E) g v0 x) /\
  (List.length blk * List.length (stab (D E) G v0 x))%nat = List.length G.

Lemma site_orbit G au blk : IsGroup G -> (0 < D E)%Z -> (12 | D E)%Z -> site_spec G au blk -> orbit_spec G au blk.
Proof.
  intros Hg HD H12 [H1 [H2 _]]. unfold orbit_spec, mult_of, site_expansion in *.
  pose proof (expand_exact_spec (D E) G v0 (grid_of E (a_xyz (fst au))) Hg HD H12) as Hs.
  destruct (expand_exact (D E) G v0 (grid_of E (a_xyz (fst au)))) as [[pos opss] m]. cbn [fst snd] in *.
  destruct Hs as [S1 [S2 [S3 [S4 [_ [_ [S7 S8]]]]]]]. subst pos m. split; [exact S1|]. split; [exact S2|]. split; [exact S3|]. split; [exact S4 | exact S8].
Qed.

Theorem cif_orbits_exact find Tb b r : read_cif E find Tb b = Ok r -> IsGroup (r_group r) -> (0 < D E)%Z -> (12 | D E)%Z ->
  exists blocks, r_atoms r = List.concat blocks /\
                 Forall2 (fun au blk => site_spec (r_group r) au blk /\ orbit_spec (r_group r) au blk) (r_parents r) blocks.
Proof.
  intros Hr Hg HD H12. destruct (cif_is_union_of_orbits find Tb b r Hr) as [bl [Hb [Hf _]]].
  exists bl. split; [exact Hb|]. clear Hb. induction Hf as [|au blk l bls H1 _ IH]; constructor; [|exact IH].
  split; [exact H1 | apply site_orbit; assumption].
Qed.

End Union.
