(* C11/C17 bridge - every translation part the model of getSymOp accepts is accepted by the validator pattern
   regenerated from p_cif.py: parse_tpart s = Some q -> rmatch gen_rx_translation (codes s) = true.
   Route: the model's parser is simulated by the reference recogniser of Model/C17_Regex.v (state after each
   syntactic piece), and the recogniser equals the regenerated pattern on all strings (Proofs/C17_RegexEq.v). *)
From Coq Require Import List Bool Ascii NArith ZArith QArith Lia.
From DS Require Import Base.C04_Text Base.C04_Decimal Model.C11_SymText Proofs.C11_SymText.
From DS Require Import Model.C17_Regex Gen.C17_SymopRegex Proofs.C17_RegexEq.
Import ListNotations.

Definition codes (s : str) : list N := map codeN s.
Lemma nrun_app q a b : nrun q (a ++ b) = nrun (nrun q a) b.
Proof. unfold nrun. apply fold_left_app. Qed.

(* digit characters *)
Lemma dval_digit c k : dval c = Some k -> C17_Regex.is_digit (codeN c) = true.
Proof.
  unfold dval, C17_Regex.is_digit. destruct ((48 <=? codeN c) && (codeN c <=? 57))%N eqn:E; [reflexivity|discriminate].
Qed.
Lemma dval_none c : dval c = None -> C17_Regex.is_digit (codeN c) = false.
Proof.
  unfold dval, C17_Regex.is_digit. destruct ((48 <=? codeN c) && (codeN c <=? 57))%N eqn:E; [discriminate|reflexivity].
Qed.

(* span_digits: a maximal run of digit characters *)
Lemma span_digits_run s : exists pre, s = pre ++ snd (span_digits s) /\ length pre = length (fst (span_digits s))
  /\ Forall (fun c => C17_Regex.is_digit (codeN c) = true) pre
  /\ match snd (span_digits s) with c :: _ => C17_Regex.is_digit (codeN c) = false | [] => True end.
Proof.
  induction s as [|c r (pre & E & L & F & T)]; [exists []; repeat split; constructor|]. cbn [span_digits].
  destruct (dval c) eqn:D.
  - destruct (span_digits r) as [l r'] eqn:S. cbn [fst snd] in *. exists (c :: pre). repeat split.
    + cbn [app]. congruence.
    + cbn [length]. congruence.
    + constructor; [exact (dval_digit c _ D)|exact F].
    + exact T.
  - exists []. cbn [fst snd]. repeat split; [constructor|exact (dval_none c D)].
Qed.

Definition digitc (c : ascii) : Prop := C17_Regex.is_digit (codeN c) = true.
Lemma nstep_digit st c : C17_Regex.is_digit c = true -> nstep st c = nstep st 48%N.
Proof. intros H. unfold nstep. destruct st; rewrite ?H; reflexivity. Qed.
Lemma nstep_digit_idem st : nstep (nstep st 48%N) 48%N = nstep st 48%N.
Proof. destruct st; reflexivity. Qed.
Lemma run_digits st pre : Forall digitc pre -> pre <> [] -> nrun st (codes pre) = nstep st 48%N.
Proof.
  intros F. revert st. induction F as [|c pre Hc Hp IH]; intros st Hn; [congruence|].
  cbn [codes map]. change (nrun st (codeN c :: map codeN pre)) with (nrun (nstep st (codeN c)) (codes pre)).
  rewrite (nstep_digit st _ Hc). destruct pre as [|c2 pre]; [reflexivity|].
  rewrite IH by discriminate. apply nstep_digit_idem.
Qed.
Lemma run_digits_opt st pre : Forall digitc pre -> nrun st (codes pre) = if nil_b pre then st else nstep st 48%N.
Proof. intros F. destruct pre as [|c pre]; [reflexivity|]. apply run_digits; [exact F|discriminate]. Qed.
Lemma nil_b_len {A B} (a : list A) (b : list B) : length a = length b -> nil_b a = nil_b b.
Proof. destruct a, b; cbn; intros H; try reflexivity; discriminate. Qed.

Lemma eqb_code c k : Ascii.eqb c k = true -> codeN c = codeN k.
Proof. intros H. apply Ascii.eqb_eq in H. rewrite H. reflexivity. Qed.
Lemma is_e_code c : Model.C11_SymText.is_e c = true -> C17_Regex.is_e (codeN c) = true.
Proof.
  unfold Model.C11_SymText.is_e. intros H. apply orb_prop in H. destruct H as [H|H]; rewrite (eqb_code _ _ H); reflexivity.
Qed.
Lemma is_sign_code c : Model.C11_SymText.is_sign c = true -> codeN c = 43%N \/ codeN c = 45%N.
Proof.
  unfold Model.C11_SymText.is_sign. intros H. apply orb_prop in H. destruct H as [H|H]; rewrite (eqb_code _ _ H); [left|right]; reflexivity.
Qed.

Definition inP (st : nstate) : bool := match st with QInt | QFrac | QExp | QDen | QDenFrac => true | _ => false end.
Definition start_ok (st : nstate) : Prop := st = Q0 \/ st = QSign.

Ltac sdr s pre E L F T := destruct (span_digits_run s) as (pre & E & L & F & T); destruct (span_digits s) as [? ?]; cbn [fst snd] in E, L, T.

Lemma mant_run st s m r1 : start_ok st -> parse_mant s = Some (m, r1) ->
  exists pre, s = pre ++ r1 /\ (nrun st (codes pre) = QInt \/ nrun st (codes pre) = QFrac).
Proof.
  intros Hst. unfold parse_mant. sdr s p1 E1 L1 F1 T1. rename l into d1, s0 into ra.
  rewrite <- (nil_b_len p1 d1 L1).
  destruct ra as [|c r2].
  - destruct (nil_b p1) eqn:N1; [discriminate|]. intros [= _ <-]. exists p1. split; [exact E1|]. left.
    rewrite (run_digits_opt st p1 F1), N1. destruct Hst as [->| ->]; reflexivity.
  - destruct (Ascii.eqb c ".") eqn:Ec.
    + sdr r2 p2 E2 L2 F2 T2. rename l into d2, s0 into r3. rewrite <- (nil_b_len p2 d2 L2).
      destruct (nil_b p1 && nil_b p2) eqn:N; [discriminate|]. intros [= _ <-].
      exists (p1 ++ c :: p2). split; [rewrite <- app_assoc; cbn [app]; congruence|]. right.
      unfold codes. rewrite map_app. cbn [map]. rewrite nrun_app. fold (codes p1). fold (codes p2).
      rewrite (run_digits_opt st p1 F1).
      change (nrun ?q (codeN c :: codes p2)) with (nrun (nstep q (codeN c)) (codes p2)).
      rewrite (eqb_code _ _ Ec). change (codeN ".") with 46%N. rewrite (run_digits_opt _ p2 F2).
      destruct (nil_b p1), (nil_b p2); try discriminate; destruct Hst as [->| ->]; reflexivity.
    + destruct (nil_b p1) eqn:N1; [discriminate|]. intros [= _ <-]. exists p1. split; [exact E1|]. left.
      rewrite (run_digits_opt st p1 F1), N1. destruct Hst as [->| ->]; reflexivity.
Qed.

Definition mid_ok (st : nstate) : Prop := st = QInt \/ st = QFrac.
Definition mid2_ok (st : nstate) : Prop := st = QInt \/ st = QFrac \/ st = QExp.

Lemma exp_run st s e r2 : mid_ok st -> parse_exp s = Some (e, r2) -> exists pre, s = pre ++ r2 /\ mid2_ok (nrun st (codes pre)).
Proof.
  intros Hst. unfold parse_exp. destruct s as [|c r0].
  - intros [= _ <-]. exists []. split; [reflexivity|]. destruct Hst as [->| ->]; [left|right; left]; reflexivity.
  - destruct (Model.C11_SymText.is_e c) eqn:Ee.
    2:{ intros [= _ <-]. exists []. split; [reflexivity|]. destruct Hst as [->| ->]; [left|right; left]; reflexivity. }
    pose proof (is_e_code c Ee) as Ce.
    assert (nstep st (codeN c) = QE) as StepE.
    { assert (C17_Regex.is_digit (codeN c) = false /\ (codeN c =? 46)%N = false) as [A B].
      { unfold Model.C11_SymText.is_e in Ee. apply orb_prop in Ee. destruct Ee as [H|H]; rewrite (eqb_code _ _ H); split; reflexivity. }
      destruct Hst as [->| ->]; unfold nstep; rewrite A, ?B, Ce; reflexivity. }
    destruct r0 as [|c2 r2'].
    + cbn [span_digits nil_b]. discriminate.
    + destruct (Model.C11_SymText.is_sign c2) eqn:Es.
      * sdr r2' p E L F T. rewrite <- (nil_b_len p l L). destruct (nil_b p) eqn:Np; [discriminate|]. intros [= _ <-].
        exists (c :: c2 :: p). split; [cbn [app]; congruence|]. right; right.
        cbn [codes map]. change (nrun st (codeN c :: codeN c2 :: map codeN p)) with (nrun (nstep (nstep st (codeN c)) (codeN c2)) (codes p)).
        rewrite StepE. assert (nstep QE (codeN c2) = QESign) as ->.
        { destruct (is_sign_code c2 Es) as [->| ->]; reflexivity. }
        rewrite (run_digits_opt _ p F), Np. reflexivity.
      * sdr (c2 :: r2') p E L F T. rewrite <- (nil_b_len p l L). destruct (nil_b p) eqn:Np; [discriminate|]. intros [= _ <-].
        exists (c :: p). split; [cbn [app]; congruence|]. right; right.
        cbn [codes map]. change (nrun st (codeN c :: map codeN p)) with (nrun (nstep st (codeN c)) (codes p)).
        rewrite StepE, (run_digits_opt _ p F), Np. reflexivity.
Qed.

Lemma den_run st s x : mid2_ok st -> parse_den s = Some x -> inP (nrun st (codes s)) = true.
Proof.
  intros Hst. unfold parse_den. destruct s as [|c r].
  - intros _. destruct Hst as [->|[->| ->]]; reflexivity.
  - destruct (Ascii.eqb c "/") eqn:Ec; [|discriminate].
    assert (nstep st (codeN c) = QSlash) as StepS.
    { rewrite (eqb_code _ _ Ec). destruct Hst as [->|[->| ->]]; reflexivity. }
    sdr r p1 E1 L1 F1 T1. rename l into d1, s into r1. rewrite <- (nil_b_len p1 d1 L1). destruct (nil_b p1) eqn:N1; [discriminate|].
    cbn [codes map]. change (nrun st (codeN c :: map codeN r)) with (nrun (nstep st (codeN c)) (codes r)). rewrite StepS, E1.
    unfold codes. rewrite map_app, nrun_app. fold (codes p1). fold (codes r1). rewrite (run_digits_opt _ p1 F1), N1.
    destruct r1 as [|c2 r2].
    + intros _. reflexivity.
    + destruct (Ascii.eqb c2 ".") eqn:Ec2; [|discriminate]. sdr r2 p2 E2 L2 F2 T2. destruct s; [|discriminate]. intros _.
      rewrite E2, app_nil_r. cbn [codes map].
      change (nrun (nstep QSlash 48%N) (codeN c2 :: map codeN p2)) with (nrun (nstep (nstep QSlash 48%N) (codeN c2)) (codes p2)).
      rewrite (eqb_code _ _ Ec2). rewrite (run_digits_opt _ p2 F2). destruct (nil_b p2); reflexivity.
Qed.

Lemma num_run st b q : start_ok st -> parse_num b = Some q -> inP (nrun st (codes b)) = true.
Proof.
  intros Hst. unfold parse_num. destruct (parse_mant b) as [[m r1]|] eqn:M; [|discriminate].
  destruct (parse_exp r1) as [[e r2]|] eqn:X; [|discriminate].
  destruct (parse_den r2) as [x|] eqn:Dn; [|discriminate]. intros _.
  destruct (mant_run st b m r1 Hst M) as (p1 & -> & H1).
  destruct (exp_run _ r1 e r2 H1 X) as (p2 & -> & H2).
  unfold codes. rewrite !map_app, !nrun_app. exact (den_run _ r2 x H2 Dn).
Qed.

Lemma sign_step st c : (st = Q0 \/ inP st = true) -> Model.C11_SymText.is_sign c = true -> nstep st (codeN c) = QSign.
Proof.
  intros Hst Hs. destruct (is_sign_code c Hs) as [->| ->]; destruct Hst as [->|H]; try reflexivity; destruct st; try discriminate; reflexivity.
Qed.
Lemma signed_run st x q : (st = Q0 \/ inP st = true) -> parse_signed x = Some q -> inP (nrun st (codes x)) = true.
Proof.
  intros Hst. unfold parse_signed. destruct x as [|c r]; [discriminate|]. destruct (Model.C11_SymText.is_sign c) eqn:Es; [|discriminate].
  destruct (parse_num r) as [v|] eqn:P; [|discriminate]. intros _.
  cbn [codes map]. change (nrun st (codeN c :: map codeN r)) with (nrun (nstep st (codeN c)) (codes r)).
  rewrite (sign_step st c Hst Es). apply (num_run QSign r v); [right; reflexivity|exact P].
Qed.

Lemma inP_accept st : inP st = true -> naccept st = true.
Proof. destruct st; intros H; try discriminate; reflexivity. Qed.

Theorem model_accepts_only_number_sums s q : parse_tpart s = Some q -> is_number_sum (codes s) = true.
Proof.
  unfold parse_tpart, is_number_sum. intros E. rewrite <- (chunks_concat_len (length s) s (le_n _)).
  destruct (chunks s) as [|h t]; [discriminate|].
  assert (let st := nrun Q0 (codes h) in st = Q0 \/ inP st = true) as Hh.
  { destruct h as [|c h]; [left; reflexivity|]. right. cbn [nil_b] in E. destruct (parse_num (c :: h)) eqn:P; [|discriminate].
    apply (num_run Q0 _ _ (or_introl eq_refl) P). }
  destruct (if nil_b h then Some 0%Q else parse_num h); [|discriminate].
  destruct (sum_opt (map parse_signed t)) eqn:S; [|discriminate]. apply sum_opt_all in S. clear E.
  cbn [concat]. unfold codes. rewrite map_app, nrun_app. fold (codes h). cbv zeta in Hh.
  revert Hh. generalize (nrun Q0 (codes h)). induction t as [|x t IH]; intros st Hst.
  - cbn. destruct Hst as [->|H]; [reflexivity|exact (inP_accept _ H)].
  - cbn [concat]. rewrite map_app, nrun_app. apply IH; [exact (Forall_inv_tail S)|]. right.
    cbn [map] in S. pose proof (Forall_inv S) as Hx. destruct (parse_signed x) eqn:P; [|congruence].
    exact (signed_run st x _ Hst P).
Qed.

(* ... hence by the regenerated validator pattern of the current source *)
Theorem model_accepts_only_validated s q : parse_tpart s = Some q -> rmatch gen_rx_translation (codes s) = true.
Proof. intros H. rewrite gen_translation_is_number_sum. exact (model_accepts_only_number_sums s q H). Qed.
