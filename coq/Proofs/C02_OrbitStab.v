(* C02 - orbit-stabiliser counting for any operation list that is a group modulo lattice translations,
   and the full specification of expand_exact. *)
From Coq Require Import ZArith List Bool Lia Permutation.
From DS Require Import Base.ZMat Base.SGDefs Model.GroupCheck Model.C02_Orbit Proofs.C02_Action Proofs.C02_Expand.
Import ListNotations.
Open Scope Z_scope.

Lemma NoDup_map_inj_on {A B} (f : A -> B) (l : list A) :
  NoDup l -> (forall a b, In a l -> In b l -> f a = f b -> a = b) -> NoDup (map f l).
Proof.
  induction l as [|a r IH]; intros Hnd Hinj; cbn; [constructor|].
  inversion Hnd; subst. constructor.
  - intros H. apply in_map_iff in H as [b [Hb1 Hb2]].
    assert (b = a) by (apply Hinj; [right; exact Hb2 | left; reflexivity | exact Hb1]). subst. contradiction.
  - apply IH; [assumption|]. intros b c Hb Hc. apply Hinj; right; assumption.
Qed.

Lemma expand_head D off x G : hd_error G = Some ident ->
  hd_error (map fst (expand_steps D off x G [])) = Some (red D x).
Proof.
  destruct G as [|g0 G']; cbn [hd_error]; intros H; [discriminate|]. inversion H; subst g0.
  unfold expand_steps. cbn [fold_left insert].
  destruct (fold_keeps_head D off x G' (img D ident off x) [ident] []) as [l' [r' ->]].
  cbn. rewrite img_ident. reflexivity.
Qed.

Section OrbitStab.
  Variable D : Z.
  Variable G : list symop.
  Variables off x : v3.
  Hypothesis HG : IsGroup G.
  Hypothesis HD : 0 < D.
  Hypothesis H12 : (12 | D).

  Let y0 := vadd x off.
  Let Dnz : D <> 0. Proof. lia. Qed.

  Lemma in_stab_iff g : In g (stab D G off x) <-> In g G /\ veqm D (apply_op D g y0) y0.
  Proof.
    unfold stab. rewrite filter_In. unfold fixes. rewrite v3_eqb_eq, (fixes_iff D g off x Dnz). reflexivity.
  Qed.

  Lemma in_fibre_iff g p : In g (fibre D G off x p) <-> In g G /\ img D g off x = p.
  Proof. unfold fibre. rewrite filter_In. unfold sends. rewrite v3_eqb_eq. reflexivity. Qed.

  Lemma reduced g : In g G -> trans_reduced g.
  Proof. intros H. apply entries_ok_reduced. apply (g_entries G HG). exact H. Qed.

  Lemma cancel_l a ai h : In h G -> compose ai a = ident -> compose ai (compose a h) = h.
  Proof. intros Hh Hi. rewrite <- compose_assoc, Hi. apply compose_ident_l, reduced, Hh. Qed.

  Lemma fibre_size g0 : In g0 G ->
    List.length (fibre D G off x (img D g0 off x)) = List.length (stab D G off x).
  Proof.
    intros Hg0. destruct (g_inv G HG g0 Hg0) as [gi [Hgi [Hr Hl]]].
    assert (Hnf : NoDup (fibre D G off x (img D g0 off x))) by (apply NoDup_filter, (g_nodup G HG)).
    assert (Hns : NoDup (stab D G off x)) by (apply NoDup_filter, (g_nodup G HG)).
    apply Nat.le_antisymm.
    - (* fibre -> stab by h |-> gi * h *)
      rewrite <- (map_length (compose gi)).
      apply NoDup_incl_length.
      + apply NoDup_map_inj_on; [exact Hnf|]. intros a b Ha Hb E.
        apply in_fibre_iff in Ha as [Ha _]. apply in_fibre_iff in Hb as [Hb _].
        rewrite <- (cancel_l gi g0 a Ha Hr), <- (cancel_l gi g0 b Hb Hr), E. reflexivity.
      + intros h Hh. apply in_map_iff in Hh as [g [<- Hg]]. apply in_fibre_iff in Hg as [Hg He].
        apply in_stab_iff. split; [apply (g_closed G HG); assumption|].
        apply (img_eq_iff D g g0 off x Dnz) in He. fold y0 in He.
        eapply veqm_trans; [apply apply_compose; exact H12|].
        eapply veqm_trans; [apply apply_op_veqm; exact He|].
        eapply veqm_trans; [apply veqm_sym, apply_compose; exact H12|].
        rewrite Hl, apply_ident. apply veqm_refl.
    - (* stab -> fibre by h |-> g0 * h *)
      rewrite <- (map_length (compose g0)).
      apply NoDup_incl_length.
      + apply NoDup_map_inj_on; [exact Hns|]. intros a b Ha Hb E.
        apply in_stab_iff in Ha as [Ha _]. apply in_stab_iff in Hb as [Hb _].
        rewrite <- (cancel_l g0 gi a Ha Hl), <- (cancel_l g0 gi b Hb Hl), E. reflexivity.
      + intros g Hg. apply in_map_iff in Hg as [h [<- Hh]]. apply in_stab_iff in Hh as [Hh Hf].
        apply in_fibre_iff. split; [apply (g_closed G HG); assumption|].
        apply (img_eq_iff D _ g0 off x Dnz). fold y0.
        eapply veqm_trans; [apply apply_compose; exact H12|].
        apply apply_op_veqm. exact Hf.
  Qed.

  (* ---- full specification of the exact expansion ---- *)
  Theorem expand_exact_spec :
    let '(pos, ops, m) := expand_exact D G off x in
    NoDup pos /\
    (forall p, In p pos -> in_cell D p) /\
    hd_error pos = Some (red D x) /\
    (forall p, In p pos <-> exists g, In g G /\ p = img D g off x) /\
    attribution_ok D G off x pos ops /\
    Permutation (concat ops) G /\
    m = List.length pos /\
    (m * List.length (stab D G off x))%nat = List.length G.
  Proof.
    unfold expand_exact.
    pose proof (inv_expand D off x G) as HI.
    set (acc := expand_steps D off x G []) in *.
    destruct HI as [Hnd Hl Hk].
    assert (Hkeys : forall p, In p (map fst acc) <-> exists g, In g G /\ p = img D g off x).
    { intros p. rewrite Hk. split; intros [g [H1 H2]]; exists g; (split; [exact H1 | symmetry; exact H2]). }
    assert (Hops : map snd acc = map (fibre D G off x) (map fst acc)).
    { apply (lists_by_key D off x G acc). constructor; assumption. }
    assert (Hcover : forall g, In g G -> exists p, In p (map fst acc) /\ In g (fibre D G off x p)).
    { intros g Hg. exists (img D g off x). split; [apply Hkeys; exists g; auto | apply in_fibre_iff; auto]. }
    assert (Hdisj : forall g p q, In p (map fst acc) -> In q (map fst acc) ->
                     In g (fibre D G off x p) -> In g (fibre D G off x q) -> p = q).
    { intros g p q _ _ Hp Hq. apply in_fibre_iff in Hp as [_ Hp]. apply in_fibre_iff in Hq as [_ Hq]. congruence. }
    assert (Hperm : Permutation (concat (map snd acc)) G).
    { rewrite Hops. apply NoDup_Permutation.
      - apply NoDup_concat_map; [exact Hnd | intros; apply NoDup_filter, (g_nodup G HG) |].
        intros p q g Hp Hq H1 H2. apply (Hdisj g p q Hp Hq H1 H2).
      - apply (g_nodup G HG).
      - intros g. rewrite in_concat. split.
        + intros [l [Hl1 Hl2]]. apply in_map_iff in Hl1 as [p [<- _]]. apply in_fibre_iff in Hl2 as [Hg _]. exact Hg.
        + intros Hg. destruct (Hcover g Hg) as [p [Hp1 Hp2]]. exists (fibre D G off x p). split; [apply in_map; exact Hp1 | exact Hp2]. }
    split; [exact Hnd|]. split.
    { intros p Hp. apply Hkeys in Hp as [g [_ ->]]. apply img_in_cell. exact HD. }
    split.
    { apply expand_head. apply (g_id_first G HG). }
    split; [exact Hkeys|]. split.
    { unfold attribution_ok. split; [exact Hops|]. split; [exact Hcover|]. split; [exact Hdisj|].
      apply Permutation_length. exact Hperm. }
    split; [exact Hperm|]. split; [rewrite map_length; reflexivity|].
    rewrite <- (Permutation_length Hperm), Hops.
    rewrite (length_concat_const (fibre D G off x) (map fst acc) (List.length (stab D G off x))).
    - rewrite map_length. reflexivity.
    - intros p Hp. apply Hkeys in Hp as [g [Hg ->]]. apply fibre_size. exact Hg.
  Qed.
End OrbitStab.
