(* C20 - the clauses of the property, derived from the decision table of the generated program *)
From Coq Require Import List ZArith Bool Ascii String Lia.
From DS Require Import Model.C20_Cli Gen.C20_CliSpec Proofs.C20_Strings Proofs.C20_Table.
Import ListNotations.
Open Scope string_scope.

(* stdout empty/`out`, exactly one line on stderr, the given status, no traceback *)
Definition reports (r : result) (out : string) (code : Z) : Prop :=
  r_out r = out /\ one_line (r_err r) /\ r_status r = code /\ r_tb r = None.

Lemma says_reports : forall r out code (P : Prop), says_error r out code P -> P -> reports r out code.
Proof.
  intros r out code P [A [B [C [msg [E [N H]]]]]] HP. repeat split; auto.
  exists msg. auto.
Qed.

Lemma spec_ok_split : forall a0, spec_ok cli_spec a0 = true ->
  exists i o, split_first ".." a0 = Some (i, o) /\ mem i input_formats = true /\ mem o output_formats = true.
Proof.
  unfold spec_ok. intros a0 H. destruct (split_first ".." a0) as [[i o]|]; try discriminate.
  apply andb_true_iff in H. exists i, o. cbn [sp_in sp_out cli_spec] in H. tauto.
Qed.

(* ------------------------------------------------------------------ option handling *)
Theorem getopt_error_is_2 : forall argv W L m, GO argv = GErr m ->
  main cli_spec argv W L = mkres "" (m ++ nl) 2%Z None.
Proof. intros argv W L m H. pose proof (main_table argv W L) as T. unfold table_prop in T. now rewrite H in T. Qed.

Theorem help_is_0 : forall argv W L opts args, GO argv = GOk opts args -> first_info opts = Some true ->
  main cli_spec argv W L = mkres (w_usage W) "" 0%Z None.
Proof. intros argv W L opts args H F. pose proof (main_table argv W L) as T. unfold table_prop in T. now rewrite H, F in T. Qed.

Theorem version_is_0 : forall argv W L opts args, GO argv = GOk opts args -> first_info opts = Some false ->
  main cli_spec argv W L = mkres (w_version W) "" 0%Z None.
Proof. intros argv W L opts args H F. pose proof (main_table argv W L) as T. unfold table_prop in T. now rewrite H, F in T. Qed.

Theorem no_arguments_is_usage_0 : forall argv W L opts, GO argv = GOk opts [] -> first_info opts = None ->
  main cli_spec argv W L = mkres (w_brief W) "" 0%Z None.
Proof. intros argv W L opts H F. pose proof (main_table argv W L) as T. unfold table_prop in T. now rewrite H, F in T. Qed.

(* ------------------------------------------------------------------ status 2 *)
Theorem bad_spec_is_2 : forall argv W L opts a0 rest,
  GO argv = GOk opts (a0 :: rest) -> first_info opts = None ->
  spec_ok cli_spec a0 = false -> no_nl a0 = true ->
  reports (main cli_spec argv W L) "" 2%Z.
Proof.
  intros argv W L opts a0 rest H F S N. pose proof (main_table argv W L) as T. unfold table_prop in T.
  rewrite H, F in T. unfold spec_ok in S. cbn [sp_in sp_out cli_spec] in S.
  destruct (split_first ".." a0) as [[i o]|].
  - rewrite S in T. eapply says_reports; eauto.
  - eapply says_reports; eauto.
Qed.

Theorem missing_file_arg_is_2 : forall argv W L opts a0,
  GO argv = GOk opts [a0] -> first_info opts = None -> spec_ok cli_spec a0 = true ->
  reports (main cli_spec argv W L) "" 2%Z.
Proof.
  intros argv W L opts a0 H F S. pose proof (main_table argv W L) as T. unfold table_prop in T.
  rewrite H, F in T. destruct (spec_ok_split a0 S) as [i [o [E [Mi Mo]]]]. rewrite E, Mi, Mo in T.
  cbn [andb] in T. eapply says_reports; eauto.
Qed.

(* ------------------------------------------------------------------ conversion *)
Lemma table_conversion : forall argv W L opts a0 file rest i o,
  GO argv = GOk opts (a0 :: file :: rest) -> first_info opts = None ->
  split_first ".." a0 = Some (i, o) -> mem i input_formats = true -> mem o output_formats = true ->
  match lib_convert W L file i o with
  | (n, Ok text) => main cli_spec argv W L = mkres (n ++ text) "" 0%Z None
  | (n, Raise e) =>
      match err_text e with
      | Some txt => says_error (main cli_spec argv W L) n 1%Z (no_nl file = true /\ no_nl txt = true)
      | None => r_out (main cli_spec argv W L) = n /\ r_status (main cli_spec argv W L) = 1%Z /\
                r_tb (main cli_spec argv W L) = Some (kind_name (e_kind e))
      end
  end.
Proof.
  intros argv W L opts a0 file rest i o H F E Mi Mo. pose proof (main_table argv W L) as T. unfold table_prop in T.
  rewrite H, F, E, Mi, Mo in T. exact T.
Qed.

Theorem ok_prints_library_text : forall argv W L opts a0 file rest i o n text,
  GO argv = GOk opts (a0 :: file :: rest) -> first_info opts = None ->
  split_first ".." a0 = Some (i, o) -> In i input_formats -> In o output_formats ->
  lib_convert W L file i o = (n, Ok text) ->
  main cli_spec argv W L = mkres (n ++ text) "" 0%Z None.
Proof.
  intros argv W L opts a0 file rest i o n text H F E Ii Io C.
  apply mem_In in Ii. apply mem_In in Io.
  pose proof (table_conversion argv W L opts a0 file rest i o H F E Ii Io) as T. now rewrite C in T.
Qed.

(* the command line `INFMT..OUTFMT file ...` of the property text *)
Lemma conv_argv_parses : forall i o, In i input_formats ->
  starts_with "-" (i ++ ".." ++ o) = false /\ split_first ".." (i ++ ".." ++ o) = Some (i, o).
Proof.
  intros i o H. cbn [In input_formats] in H.
  repeat (destruct H as [<- | H]; [split; vm_compute; reflexivity |]). contradiction.
Qed.

Theorem ok_prints_library_text_argv : forall i o file rest W L n text,
  In i input_formats -> In o output_formats -> lib_convert W L file i o = (n, Ok text) ->
  main cli_spec ((i ++ ".." ++ o) :: file :: rest) W L = mkres (n ++ text) "" 0%Z None.
Proof.
  intros i o file rest W L n text Ii Io C. destruct (conv_argv_parses i o Ii) as [P S].
  eapply ok_prints_library_text; eauto. now apply getopt_plain. reflexivity.
Qed.

(* conversely: a conversion request that ends with status 0 printed exactly what the library produced *)
Theorem status0_means_library_text : forall argv W L opts a0 rest,
  GO argv = GOk opts (a0 :: rest) -> first_info opts = None ->
  r_status (main cli_spec argv W L) = 0%Z ->
  exists i o file rest' n text,
    split_first ".." a0 = Some (i, o) /\ In i input_formats /\ In o output_formats /\ rest = file :: rest' /\
    lib_convert W L file i o = (n, Ok text) /\ main cli_spec argv W L = mkres (n ++ text) "" 0%Z None.
Proof.
  intros argv W L opts a0 rest H F S0. pose proof (main_table argv W L) as T. unfold table_prop in T.
  rewrite H, F in T.
  destruct (split_first ".." a0) as [[i o]|] eqn:E.
  2: { destruct T as [_ [B _]]. rewrite B in S0. discriminate. }
  destruct (mem i input_formats) eqn:Mi; cbn [andb] in T.
  2: { destruct T as [_ [B _]]. rewrite B in S0. discriminate. }
  destruct (mem o output_formats) eqn:Mo.
  2: { destruct T as [_ [B _]]. rewrite B in S0. discriminate. }
  destruct rest as [|file rest'].
  { destruct T as [_ [B _]]. rewrite B in S0. discriminate. }
  destruct (lib_convert W L file i o) as [n [text|e]] eqn:C.
  - exists i, o, file, rest', n, text. repeat split; auto; now apply mem_In.
  - destruct (err_text e).
    + destruct T as [_ [B _]]. rewrite B in S0. discriminate.
    + destruct T as [_ [B _]]. rewrite B in S0. discriminate.
Qed.

(* ------------------------------------------------------------------ status 1 *)
Theorem conversion_error_is_1 : forall argv W L opts a0 file rest i o n e txt,
  GO argv = GOk opts (a0 :: file :: rest) -> first_info opts = None ->
  split_first ".." a0 = Some (i, o) -> In i input_formats -> In o output_formats ->
  lib_convert W L file i o = (n, Raise e) -> err_text e = Some txt ->
  no_nl file = true -> no_nl txt = true ->
  reports (main cli_spec argv W L) n 1%Z.
Proof.
  intros argv W L opts a0 file rest i o n e txt H F E Ii Io C X Nf Nt.
  apply mem_In in Ii. apply mem_In in Io.
  pose proof (table_conversion argv W L opts a0 file rest i o H F E Ii Io) as T. rewrite C, X in T.
  eapply says_reports; eauto.
Qed.

Theorem unreadable_is_1 : forall argv W L opts a0 file rest i o s se,
  GO argv = GOk opts (a0 :: file :: rest) -> first_info opts = None ->
  split_first ".." a0 = Some (i, o) -> In i input_formats -> In o output_formats ->
  String.eqb file "-" = false -> w_fs W file = FsError s se ->
  no_nl file = true -> no_nl se = true ->
  reports (main cli_spec argv W L) "" 1%Z.
Proof.
  intros argv W L opts a0 file rest i o s se H F E Ii Io Nd Fs Nf Ns.
  eapply conversion_error_is_1 with (txt := se) (e := mkexn KIOError s (Some se)); eauto.
  unfold lib_convert, lib_input, lib_read. rewrite Nd, Fs. reflexivity.
Qed.

Theorem bad_content_is_1 : forall argv W L opts a0 file rest i o n e,
  GO argv = GOk opts (a0 :: file :: rest) -> first_info opts = None ->
  split_first ".." a0 = Some (i, o) -> In i input_formats -> In o output_formats ->
  lib_convert W L file i o = (n, Raise e) -> content_kind (e_kind e) = true ->
  no_nl file = true -> no_nl (e_str e) = true ->
  reports (main cli_spec argv W L) n 1%Z.
Proof.
  intros argv W L opts a0 file rest i o n e H F E Ii Io C K Nf Ne.
  eapply conversion_error_is_1 with (txt := e_str e); eauto.
  unfold err_text. destruct (e_kind e); try discriminate; reflexivity.
Qed.

(* what a quiet library prints besides its result: nothing *)
Lemma quiet_convert : forall W L file i o, quiet L -> fst (lib_convert W L file i o) = "".
Proof.
  intros W L file i o [Q1 [Q2 Q3]]. unfold lib_convert, lib_input, lib_read.
  assert (Hin : fst (if String.eqb file "-" then lib_readStr L (w_stdin W) i
                     else match w_fs W file with
                          | FsFile c => lib_parseFile L file c i
                          | FsError s se => ("", Raise (mkexn KIOError s (Some se)))
                          end) = "").
  { destruct (String.eqb file "-"); [apply Q2|]. destruct (w_fs W file); [apply Q1 | reflexivity]. }
  destruct (snd _); cbn [fst]; rewrite Hin; cbn; auto.
Qed.

(* ------------------------------------------------------------------ no traceback *)
Lemma convert_raise_kind : forall (P : ekind -> bool) W L file i o n e,
  raises_only P L -> P KIOError = true -> lib_convert W L file i o = (n, Raise e) -> P (e_kind e) = true.
Proof.
  intros P W L file i o n e [R1 [R2 R3]] PI. unfold lib_convert, lib_input, lib_read.
  destruct (String.eqb file "-").
  - destruct (snd (lib_readStr L (w_stdin W) i)) eqn:S.
    + intros C. inversion C. eapply R3; eauto.
    + intros C. inversion C; subst. eapply R2; eauto.
  - destruct (w_fs W file) as [c | s se].
    + destruct (snd (lib_parseFile L file c i)) eqn:S.
      * intros C. inversion C. eapply R3; eauto.
      * intros C. inversion C; subst. eapply R1; eauto.
    + cbn. intros C. inversion C; subst. exact PI.
Qed.

Theorem no_traceback : forall argv W L, raises_only documented_kind L -> r_tb (main cli_spec argv W L) = None.
Proof.
  intros argv W L R. pose proof (main_table argv W L) as T. unfold table_prop in T.
  destruct (GO argv) as [opts args | m]; [| now rewrite T].
  destruct (first_info opts) as [[|]|]; try now rewrite T.
  destruct args as [|a0 rest]; [now rewrite T|].
  destruct (split_first ".." a0) as [[i o]|]; [| unfold says_error in T; tauto].
  destruct (mem i input_formats && mem o output_formats); [| unfold says_error in T; tauto].
  destruct rest as [|file rest]; [unfold says_error in T; tauto |].
  destruct (lib_convert W L file i o) as [n [text|e]] eqn:C; [now rewrite T|].
  pose proof (convert_raise_kind documented_kind W L file i o n e R eq_refl C) as D.
  unfold err_text in T. destruct (e_kind e); try discriminate; unfold says_error in T; tauto.
Qed.

(* ------------------------------------------------------------------ what the statuses mean, for EVERY library *)
Definition cmdline_error (argv : list string) : bool :=
  match GO argv with
  | GErr _ => true
  | GOk opts args =>
      match first_info opts with
      | Some _ => false
      | None => match args with
                | [] => false
                | [a0] => true
                | a0 :: _ => negb (spec_ok cli_spec a0)
                end
      end
  end.

Theorem status2_only_for_command_line_errors : forall argv W L,
  r_status (main cli_spec argv W L) = 2%Z -> cmdline_error argv = true.
Proof.
  intros argv W L S. pose proof (main_table argv W L) as T. unfold table_prop in T. unfold cmdline_error, spec_ok.
  cbn [sp_in sp_out cli_spec].
  destruct (GO argv) as [opts args | m]; [| reflexivity].
  destruct (first_info opts) as [[|]|]; try (rewrite T in S; discriminate).
  destruct args as [|a0 rest]; [rewrite T in S; discriminate|].
  destruct rest as [|file rest]; [reflexivity|].
  destruct (split_first ".." a0) as [[i o]|]; [| reflexivity].
  destruct (mem i input_formats && mem o output_formats); [| reflexivity].
  destruct (lib_convert W L file i o) as [n [text|e]]; [rewrite T in S; discriminate|].
  destruct (err_text e).
  - destruct T as [_ [B _]]. rewrite B in S. discriminate.
  - destruct T as [_ [B _]]. rewrite B in S. discriminate.
Qed.

Theorem status1_only_for_input_errors : forall argv W L,
  r_status (main cli_spec argv W L) = 1%Z ->
  exists opts a0 file rest i o n e,
    GO argv = GOk opts (a0 :: file :: rest) /\ split_first ".." a0 = Some (i, o) /\
    lib_convert W L file i o = (n, Raise e).
Proof.
  intros argv W L S. pose proof (main_table argv W L) as T. unfold table_prop in T.
  destruct (GO argv) as [opts args | m]; [| rewrite T in S; discriminate].
  destruct (first_info opts) as [[|]|]; try (rewrite T in S; discriminate).
  destruct args as [|a0 rest]; [rewrite T in S; discriminate|].
  destruct (split_first ".." a0) as [[i o]|] eqn:E.
  2: { destruct T as [_ [B _]]. rewrite B in S. discriminate. }
  destruct (mem i input_formats && mem o output_formats).
  2: { destruct T as [_ [B _]]. rewrite B in S. discriminate. }
  destruct rest as [|file rest].
  { destruct T as [_ [B _]]. rewrite B in S. discriminate. }
  destruct (lib_convert W L file i o) as [n [text|e]] eqn:C; [rewrite T in S; discriminate|].
  exists opts, a0, file, rest, i, o, n, e. auto.
Qed.

(* ------------------------------------------------------------------ one_line, decidably (for the witnesses) *)
Fixpoint ends_one (s : string) : bool :=
  match s with
  | "" => false
  | String c r => match r with
                  | "" => Ascii.eqb c nl_char
                  | _ => negb (Ascii.eqb c nl_char) && ends_one r
                  end
  end.

Definition one_lineb (s : string) : bool := ends_one s && negb (String.eqb s nl).

Lemma ends_one_body : forall body, no_nl body = true -> ends_one (body ++ nl) = true.
Proof.
  induction body as [|c r IH]; intros N.
  - reflexivity.
  - cbn [no_nl] in N. apply andb_true_iff in N. destruct N as [N1 N2].
    cbn [append ends_one]. destruct (r ++ nl) eqn:E.
    + destruct r; discriminate.
    + rewrite N1. cbn [negb andb]. auto.
Qed.

Lemma one_line_b : forall s, one_line s -> one_lineb s = true.
Proof.
  intros s [body [-> [N NE]]]. unfold one_lineb. rewrite ends_one_body by auto. cbn [andb].
  destruct body as [|c r]; [congruence|]. cbn [no_nl] in N. apply andb_true_iff in N. destruct N as [N1 _].
  apply negb_true_iff in N1. unfold nl. cbn [append String.eqb]. rewrite N1. reflexivity.
Qed.
