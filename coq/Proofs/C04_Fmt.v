(* C04 - a line rendered from a well-formed descriptor reads back token by token:
   split_join / columns theorems at the level of whole format strings. *)
From Coq Require Import List Bool Arith NArith ZArith Lia.
From Coq Require Import Ascii.
From DS Require Import Base.C04_Text Base.C04_Decimal Model.C04_Fmt.
Import ListNotations.

Lemma has_comma_digits l : Forall lt10 l -> has_char comma (map dchar l) = false.
Proof.
  induction 1 as [|k l Hk Hl IH]; [reflexivity|]. destruct (dchar_props k Hk) as [_ [_ [_ [_ [_ [E _]]]]]].
  change (Ascii.eqb comma (dchar k) || has_char comma (map dchar l) = false). rewrite Ascii.eqb_sym, E. exact IH.
Qed.

Lemma has_char_app c a b : has_char c (a ++ b) = has_char c a || has_char c b.
Proof. apply existsb_app. Qed.

Lemma no_comma_body neg ip fp : Forall lt10 ip -> Forall lt10 fp -> has_char comma (body_of neg ip fp) = false.
Proof.
  intros Hi Hf. unfold body_of. rewrite !has_char_app, (has_comma_digits _ Hi).
  destruct neg; cbn [sign_str]; destruct fp as [|x fp']; try reflexivity.
  all: cbn [has_char existsb]; fold (has_char comma (map dchar (x :: fp'))); rewrite (has_comma_digits _ Hf); reflexivity.
Qed.

(* what every field body satisfies *)
Definition tok_ok (b : str) : Prop := no_ws b = true /\ b <> [] /\ has_char comma b = false.

Lemma field_body_ok it a b : arg_ok a = true -> field_body it a = Some b -> tok_ok b.
Proof.
  intros Ha E. destruct it as [t|l w|w p|w|P]; destruct a as [t'|d|z]; cbn in E; try discriminate; inversion E; subst; clear E.
  - cbn in Ha. unfold str_tok_ok in Ha. apply andb_true_iff in Ha. destruct Ha as [Ha H3]. apply andb_true_iff in Ha. destruct Ha as [H1 H2].
    split; [exact H1|]. split; [destruct b; [discriminate|discriminate]|]. apply negb_true_iff in H3. exact H3.
  - unfold fix_body. destruct (fix_split p d) as [H1 [H2 [H3 _]]].
    split; [apply no_ws_body; assumption|]. split; [apply body_nonnil; assumption|apply no_comma_body; assumption].
  - unfold int_body. destruct (int_body_token z) as [H1 H2]. split; [exact H1|]. split; [exact H2|].
    pose proof (no_comma_body (z <? 0)%Z (digitsN (Z.abs_N z)) [] (digitsN_lt10 _) (Forall_nil _)) as H.
    unfold body_of in H. rewrite app_nil_r in H. exact H.
  - unfold print_gen in H0. destruct (gen_decimals P d) as [pd|]; [|discriminate]. cbn in H0. inversion H0; subst; clear H0.
    unfold gen_body. destruct (fix_split pd d) as [H1 [H2 [H3 _]]]. pose proof (Forall_strip_tz _ H2) as H2'.
    split; [apply no_ws_body; assumption|]. split; [apply body_nonnil; assumption|apply no_comma_body; assumption].
Qed.

Lemma split_field_pad it b : no_ws b = true -> b <> [] -> split_ws (field_pad it b) = [b].
Proof.
  intros H1 H2. destruct it as [t|l w|w p|w|P]; cbn [field_pad]; try (apply split_tok; assumption).
  - destruct l; [apply split_tok_pad|apply split_pad_tok]; try assumption; apply all_ws_spaces.
  - apply split_pad_tok; try assumption; apply all_ws_spaces.
  - apply split_pad_tok; try assumption; apply all_ws_spaces.
Qed.

Lemma render_nil_or_ws f a r : lit_starts_ws f = true -> sep_ok f = true -> render f a = Some r -> r = [] \/ starts_ws r = true.
Proof.
  destruct f as [|it f']; cbn [render lit_starts_ws].
  - destruct a; [|discriminate]. intros _ _ E. inversion E. left. reflexivity.
  - destruct it as [t|l w|w p|w|P]; try discriminate. intros Hs Hok E.
    cbn [sep_ok] in Hok. apply andb_true_iff in Hok. destruct Hok as [Hok _]. apply andb_true_iff in Hok. destruct Hok as [Hne _].
    destruct (render f' a) as [r'|]; [|discriminate]. cbn in E. inversion E; subst. right.
    destruct t as [|c t']; [discriminate|]. cbn in *. exact Hs.
Qed.

Definition is_lit (it : fitem) : bool := match it with FLit _ => true | _ => false end.

Lemma render_field_eq it f' a : is_lit it = false ->
  render (it :: f') a = match a with
                        | x :: a' => match field_body it x, render f' a' with
                                     | Some b, Some r => Some (field_pad it b ++ r) | _, _ => None end
                        | [] => None end.
Proof. destruct it; [discriminate|..]; reflexivity. Qed.
Lemma render_toks_field_eq it f' a : is_lit it = false ->
  render_toks (it :: f') a = match a with
                        | x :: a' => match field_body it x, render_toks f' a' with
                                     | Some b, Some r => Some (b :: r) | _, _ => None end
                        | [] => None end.
Proof. destruct it; [discriminate|..]; reflexivity. Qed.
Lemma sep_ok_field_eq it f' : is_lit it = false -> sep_ok (it :: f') = lit_starts_ws f' && sep_ok f'.
Proof. destruct it; [discriminate|..]; reflexivity. Qed.

(* split_join at format level: the tokens of the rendered line are the literal's tokens and the field bodies *)
Theorem render_split f : forall a r, sep_ok f = true -> forallb arg_ok a = true -> render f a = Some r ->
  render_toks f a = Some (split_ws r).
Proof.
  induction f as [|it f' IH]; intros a r Hok Ha E.
  - cbn in *. destruct a; [|discriminate]. inversion E. reflexivity.
  - destruct (is_lit it) eqn:L.
    + destruct it as [t|l w|w p|w|P]; try discriminate.
      cbn [render render_toks] in *. cbn [sep_ok] in Hok. apply andb_true_iff in Hok. destruct Hok as [Hok Hok'].
      apply andb_true_iff in Hok. destruct Hok as [Hne Hseam].
      destruct (render f' a) as [r'|] eqn:Er; [|discriminate]. cbn in E. inversion E; subst r. clear E.
      rewrite (IH a r' Hok' Ha Er). cbn [option_map]. f_equal. symmetry. apply split_app.
      apply orb_true_iff in Hseam. destruct Hseam as [H|H]; [right; left; exact H|].
      destruct (render_nil_or_ws f' a r' H Hok' Er) as [->|H']; [right; right; right; reflexivity|left; exact H'].
    + rewrite (render_field_eq _ _ _ L) in E. rewrite (render_toks_field_eq _ _ _ L). rewrite (sep_ok_field_eq _ _ L) in Hok.
      apply andb_true_iff in Hok. destruct Hok as [Hs Hok'].
      destruct a as [|x a']; [discriminate|]. cbn [forallb] in Ha. apply andb_true_iff in Ha. destruct Ha as [Hx Ha'].
      destruct (field_body it x) as [b|] eqn:Eb; [|discriminate]. destruct (render f' a') as [r'|] eqn:Er; [|discriminate].
      inversion E; subst r. clear E. rewrite (IH a' r' Hok' Ha' Er).
      destruct (field_body_ok _ _ _ Hx Eb) as [B1 [B2 _]]. f_equal.
      destruct (render_nil_or_ws f' a' r' Hs Hok' Er) as [->|H'].
      * rewrite app_nil_r. cbn. symmetry. apply split_field_pad; assumption.
      * rewrite split_app by (left; exact H'). rewrite (split_field_pad _ _ B1 B2). reflexivity.
Qed.

(* replacing commas by blanks in the rendered line = rendering the descriptor whose literals had the replacement *)
Lemma c2s_app a b : c2s (a ++ b) = c2s a ++ c2s b.
Proof. apply map_app. Qed.
Lemma c2s_id t : has_char comma t = false -> c2s t = t.
Proof.
  induction t as [|c t IH]; [reflexivity|]. intros H. change (Ascii.eqb comma c || has_char comma t = false) in H.
  apply orb_false_iff in H. destruct H as [Hc Ht].
  change (c2s (c :: t)) with (c2s_char c :: c2s t). unfold c2s_char. rewrite Ascii.eqb_sym, Hc. f_equal. exact (IH Ht).
Qed.
Lemma c2s_spaces k : c2s (repeat sp k) = repeat sp k.
Proof. induction k; [reflexivity|]. cbn. f_equal. exact IHk. Qed.
Lemma c2s_field_pad it b : has_char comma b = false -> is_lit it = false -> c2s (field_pad it b) = field_pad it b.
Proof.
  intros Hb L. destruct it as [t|l w|w p|w|P]; try discriminate; cbn [field_pad]; try (apply c2s_id; exact Hb).
  - destruct l; unfold rpad, lpad; rewrite c2s_app, c2s_spaces, (c2s_id _ Hb); reflexivity.
  - unfold lpad. rewrite c2s_app, c2s_spaces, (c2s_id _ Hb). reflexivity.
  - unfold lpad. rewrite c2s_app, c2s_spaces, (c2s_id _ Hb). reflexivity.
Qed.

Theorem c2s_render f : forall a r, forallb arg_ok a = true -> render f a = Some r -> render (c2s_spec f) a = Some (c2s r).
Proof.
  induction f as [|it f' IH]; intros a r Ha E.
  - cbn in *. destruct a; [|discriminate]. inversion E. reflexivity.
  - destruct (is_lit it) eqn:L.
    + destruct it as [t|l w|w p|w|P]; try discriminate. cbn [c2s_spec map c2s_item render] in *.
      destruct (render f' a) as [r'|] eqn:Er; [|discriminate]. cbn in E. inversion E; subst r.
      fold (c2s_spec f'). rewrite (IH a r' Ha Er). cbn. rewrite c2s_app. reflexivity.
    + rewrite (render_field_eq _ _ _ L) in E. cbn [c2s_spec map].
      assert (c2s_item it = it) as -> by (destruct it; [discriminate|..]; reflexivity).
      rewrite (render_field_eq _ _ _ L). fold (c2s_spec f').
      destruct a as [|x a']; [discriminate|]. cbn [forallb] in Ha. apply andb_true_iff in Ha. destruct Ha as [Hx Ha'].
      destruct (field_body it x) as [b|] eqn:Eb; [|discriminate]. destruct (render f' a') as [r'|] eqn:Er; [|discriminate].
      inversion E; subst r. rewrite (IH a' r' Ha' Er). destruct (field_body_ok _ _ _ Hx Eb) as [_ [_ B3]].
      rewrite c2s_app, (c2s_field_pad _ _ B3 L). reflexivity.
Qed.

(* reading a comma/blank separated record: tokens of the comma-free line *)
Corollary render_split_c2s f a r : sep_ok (c2s_spec f) = true -> forallb arg_ok a = true -> render f a = Some r ->
  render_toks (c2s_spec f) a = Some (split_ws (c2s r)).
Proof. intros H1 H2 E. apply render_split; [exact H1|exact H2|]. apply c2s_render; assumption. Qed.

(* render succeeds exactly when the tokens can be computed *)
Lemma render_toks_some f : forall a, (exists r, render f a = Some r) <-> (exists ts, render_toks f a = Some ts).
Proof.
  induction f as [|it f' IH]; intros a.
  - cbn. destruct a; split; intros [x E]; try discriminate; eexists; reflexivity.
  - destruct (is_lit it) eqn:L.
    + destruct it as [t|l w|w p|w|P]; try discriminate. cbn [render render_toks]. specialize (IH a).
      split; intros [x E].
      * destruct (render f' a) as [r'|]; [|discriminate]. destruct (proj1 IH (ex_intro _ r' eq_refl)) as [ts Ets]. rewrite Ets. eexists; reflexivity.
      * destruct (render_toks f' a) as [ts|]; [|discriminate]. destruct (proj2 IH (ex_intro _ ts eq_refl)) as [r' Er]. rewrite Er. eexists; reflexivity.
    + rewrite (render_field_eq _ _ _ L), (render_toks_field_eq _ _ _ L). destruct a as [|x a']; [split; intros [y E]; discriminate|].
      specialize (IH a'). destruct (field_body it x) as [b|]; [|split; intros [y E]; discriminate].
      split; intros [y E].
      * destruct (render f' a') as [r'|]; [|discriminate]. destruct (proj1 IH (ex_intro _ r' eq_refl)) as [ts Ets]. rewrite Ets. eexists; reflexivity.
      * destruct (render_toks f' a') as [ts|]; [|discriminate]. destruct (proj2 IH (ex_intro _ ts eq_refl)) as [r' Er]. rewrite Er. eexists; reflexivity.
Qed.

(* ---- lines never contain line-break characters; wrapper lemmas in cons form ---- *)
Lemma no_ws_no_char c t : is_ws c = true -> no_ws t = true -> has_char c t = false.
Proof.
  intros Hc. induction t as [|a t IH]; [reflexivity|]. intros H.
  change (negb (is_ws a) && no_ws t = true) in H. apply andb_true_iff in H. destruct H as [Ha Ht].
  change (Ascii.eqb c a || has_char c t = false). rewrite (IH Ht), orb_false_r.
  destruct (Ascii.eqb c a) eqn:E; [|reflexivity]. apply Ascii.eqb_eq in E. subst a. rewrite Hc in Ha. discriminate.
Qed.

Lemma has_char_spaces c k : Ascii.eqb c sp = false -> has_char c (repeat sp k) = false.
Proof. intros H. induction k; [reflexivity|]. change (Ascii.eqb c sp || has_char c (repeat sp k) = false). rewrite H, IHk. reflexivity. Qed.

Definition lits_no_char (c : ascii) (f : list fitem) : bool :=
  forallb (fun it => match it with FLit t => negb (has_char c t) | _ => true end) f.

Lemma field_pad_no_char c it b : Ascii.eqb c sp = false -> has_char c b = false -> is_lit it = false -> has_char c (field_pad it b) = false.
Proof.
  intros Hs Hb L. destruct it as [t|l w|w p|w|P]; try discriminate; cbn [field_pad]; try exact Hb.
  - destruct l; unfold rpad, lpad; rewrite has_char_app, Hb, (has_char_spaces _ _ Hs); reflexivity.
  - unfold lpad. rewrite has_char_app, Hb, (has_char_spaces _ _ Hs). reflexivity.
  - unfold lpad. rewrite has_char_app, Hb, (has_char_spaces _ _ Hs). reflexivity.
Qed.

Theorem render_no_char_gen c f : forall a r, (forall b, tok_ok b -> has_char c b = false) -> Ascii.eqb c sp = false ->
  lits_no_char c f = true -> forallb arg_ok a = true -> render f a = Some r -> has_char c r = false.
Proof.
  induction f as [|it f' IH]; intros a r Hc Hs Hl Ha E.
  - cbn in E. destruct a; [|discriminate]. inversion E. reflexivity.
  - cbn [lits_no_char forallb] in Hl. apply andb_true_iff in Hl. destruct Hl as [Hit Hl].
    destruct (is_lit it) eqn:L.
    + destruct it as [t|l w|w p|w|P]; try discriminate. cbn [render] in E.
      destruct (render f' a) as [r'|] eqn:Er; [|discriminate]. cbn in E. inversion E; subst r.
      rewrite has_char_app. apply negb_true_iff in Hit. rewrite Hit. exact (IH a r' Hc Hs Hl Ha Er).
    + rewrite (render_field_eq _ _ _ L) in E. destruct a as [|x a']; [discriminate|].
      cbn [forallb] in Ha. apply andb_true_iff in Ha. destruct Ha as [Hx Ha'].
      destruct (field_body it x) as [b|] eqn:Eb; [|discriminate]. destruct (render f' a') as [r'|] eqn:Er; [|discriminate].
      inversion E; subst r. pose proof (field_body_ok _ _ _ Hx Eb) as B.
      rewrite has_char_app, (field_pad_no_char c it b Hs (Hc b B) L). exact (IH a' r' Hc Hs Hl Ha' Er).
Qed.

Theorem render_no_char c f a r : is_ws c = true -> Ascii.eqb c sp = false -> lits_no_char c f = true ->
  forallb arg_ok a = true -> render f a = Some r -> has_char c r = false.
Proof.
  intros Hc. apply render_no_char_gen. intros b [B1 _]. apply no_ws_no_char; assumption.
Qed.

(* a record whose literals have no comma is untouched by line.replace(",", " ") *)
Theorem render_no_comma f a r : lits_no_char comma f = true -> forallb arg_ok a = true -> render f a = Some r -> c2s r = r.
Proof.
  intros H1 H2 E. apply c2s_id. apply (render_no_char_gen comma f a r); try assumption; [|reflexivity].
  intros b [_ [_ B3]]. exact B3.
Qed.

Lemma last_ok_of_no_crlf r : r <> [] -> has_char nl r = false -> has_char cr r = false -> last_char_ok r = true.
Proof.
  intros Hn H1 H2. unfold last_char_ok. destruct (rev r) as [|c q] eqn:E.
  - exfalso. apply Hn. rewrite <- (rev_involutive r), E. reflexivity.
  - assert (In c r) as Hin by (apply in_rev; rewrite E; left; reflexivity).
    unfold is_crlf. apply negb_true_iff. apply orb_false_iff. split.
    + destruct (Ascii.eqb c nl) eqn:Ec; [|reflexivity]. apply Ascii.eqb_eq in Ec. subst c.
      unfold has_char in H1. rewrite <- H1. symmetry. apply existsb_exists. exists nl. split; [exact Hin|apply Ascii.eqb_refl].
    + destruct (Ascii.eqb c cr) eqn:Ec; [|reflexivity]. apply Ascii.eqb_eq in Ec. subst c.
      unfold has_char in H2. rewrite <- H2. symmetry. apply existsb_exists. exists cr. split; [exact Hin|apply Ascii.eqb_refl].
Qed.

Lemma lines_text_roundtrip_cons l0 ls :
  forallb (fun x => negb (has_char nl x)) (l0 :: ls) = true -> last_char_ok (last (l0 :: ls) []) = true ->
  lines_of_text (text_of_lines (l0 :: ls)) = l0 :: ls.
Proof.
  intros H1 H2. assert (l0 :: ls <> []) as Hn by discriminate.
  destruct (exists_last Hn) as [b [l E]]. rewrite E in H1, H2 |- *. rewrite last_last in H2.
  apply lines_text_roundtrip; assumption.
Qed.

Lemma rstrip_crlf_nl x : rstrip_crlf (x ++ [nl]) = rstrip_crlf x.
Proof. unfold rstrip_crlf. rewrite rev_app_distr. reflexivity. Qed.

(* a trailing empty line disappears in StructureParser.parse (rstrip of the text) *)
Lemma lines_text_trailing_empty c : last_char_ok c = true -> has_char nl c = false ->
  lines_of_text (text_of_lines [c; []]) = [c].
Proof.
  intros H1 H2. unfold lines_of_text, text_of_lines. cbn [join]. rewrite app_nil_r.
  rewrite rstrip_crlf_nl. rewrite rstrip_crlf_ok by exact H1. apply splitc_none. exact H2.
Qed.

Lemma lpad0 t : lpad 0 t = t.
Proof. reflexivity. Qed.

Lemma has_char_strip c t : has_char c t = false -> has_char c (strip t) = false.
Proof.
  intros H. destruct (strip_decompose t) as [p [q [_ [_ E]]]]. rewrite E in H. rewrite !has_char_app in H.
  apply orb_false_iff in H. destruct H as [_ H]. apply orb_false_iff in H. tauto.
Qed.

Lemma eqb_comma_upper c : Ascii.eqb comma (upper c) = Ascii.eqb comma c.
Proof. apply Bool.eqb_prop. revert c. apply ascii_forall. vm_compute. reflexivity. Qed.
Lemma eqb_comma_lower c : Ascii.eqb comma (lower c) = Ascii.eqb comma c.
Proof. apply Bool.eqb_prop. revert c. apply ascii_forall. vm_compute. reflexivity. Qed.
Lemma has_comma_capitalize t : has_char comma (capitalize t) = has_char comma t.
Proof.
  destruct t as [|c r]; [reflexivity|]. change (Ascii.eqb comma (upper c) || has_char comma (map lower r) = Ascii.eqb comma c || has_char comma r).
  rewrite eqb_comma_upper. f_equal. induction r as [|a r IH]; [reflexivity|].
  change (Ascii.eqb comma (lower a) || has_char comma (map lower r) = Ascii.eqb comma a || has_char comma r). rewrite eqb_comma_lower, IH. reflexivity.
Qed.
Lemma str_tok_ok_capitalize t : str_tok_ok (capitalize t) = str_tok_ok t.
Proof. unfold str_tok_ok. rewrite no_ws_capitalize, has_comma_capitalize. destruct t; reflexivity. Qed.
Lemma has_comma_map_upper t : has_char comma (map upper t) = has_char comma t.
Proof.
  induction t as [|a r IH]; [reflexivity|].
  change (Ascii.eqb comma (upper a) || has_char comma (map upper r) = Ascii.eqb comma a || has_char comma r). rewrite eqb_comma_upper, IH. reflexivity.
Qed.
Lemma str_tok_ok_map_upper t : str_tok_ok (map upper t) = str_tok_ok t.
Proof. unfold str_tok_ok. rewrite no_ws_map_upper, has_comma_map_upper. destruct t; reflexivity. Qed.

Lemma str_tok_ok_parts t : str_tok_ok t = true -> no_ws t = true /\ t <> [] /\ has_char comma t = false.
Proof.
  unfold str_tok_ok. intros H. apply andb_true_iff in H. destruct H as [H H3]. apply andb_true_iff in H. destruct H as [H1 H2].
  split; [exact H1|]. split; [destruct t; [discriminate|discriminate]|apply negb_true_iff; exact H3].
Qed.

