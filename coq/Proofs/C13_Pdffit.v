(* C13 - P_pdffit raises only the documented errors, for every list of lines. *)
From Coq Require Import List Bool Arith ZArith Lia.
From DS Require Import Base.C13_Exn Gen.C13_ExcSpec Model.C13_Common Model.C13_Pdffit
                       Proofs.C13_ExnLemmas Proofs.C13_Shared.
From Coq Require Import Ascii String.
Import ListNotations.

Section PDFFIT_proofs.
  Variable V : Type.
  Variable split : string -> list string.
  Variable split_commas : string -> list string.
  Variable isblank : string -> bool.
  Variable float_of : string -> res V.
  Variable int_of : string -> res Z.
  Variable lattice_of : list V -> res unit.
  Variable mulZ : V -> Z -> res V.

  Hypothesis float_kinds : forall s, within [ValueError] (float_of s).
  Hypothesis int_kinds : forall s, within [ValueError] (int_of s).
  Hypothesis lattice_kinds : forall l, within [ValueError; ZeroDivisionError] (lattice_of l).
  Hypothesis mulZ_kinds : forall v z, within [OverflowError] (mulZ v z).

  Definition pdffit_ks : list kind := [IndexError; ValueError; StopIteration; ZeroDivisionError; OverflowError; FormatError].

  Ltac oracle :=
    first [ eapply within_weaken_b; [| apply float_kinds]; reflexivity
          | eapply within_weaken_b; [| apply int_kinds]; reflexivity
          | eapply within_weaken_b; [| apply lattice_kinds]; reflexivity
          | eapply within_weaken_b; [| apply mulZ_kinds]; reflexivity
          | apply within_next_line; simpl; tauto
          | apply within_str_head; simpl; tauto
          | apply within_mapM; intros ? ? ].

  Ltac wauto := repeat first [ wstep | oracle ].

  Lemma shape_within : forall line, within pdffit_ks (pdffit_shape V split_commas float_of line).
  Proof. intros; unfold pdffit_shape, pdffit_ks, Model.C13_Pdffit.kw. wauto. Qed.

  Lemma three_within : forall ws, within pdffit_ks (three_floats V float_of ws).
  Proof. intros; unfold three_floats, pdffit_ks. wauto. Qed.

  Lemma header_line_within : forall st line,
    within pdffit_ks (pdffit_header_line V split split_commas float_of int_of lattice_of st line).
  Proof.
    intros; unfold pdffit_header_line.
    destruct (split line) as [| w0 ws]; [exact I |].
    apply within_bind; [apply within_str_head; simpl; tauto | intros c _].
    repeat match goal with
    | |- within _ (if ?b then _ else _) => destruct b eqn:?
    end;
    try exact I;
    try (apply within_bind; [apply shape_within | intros; exact I]);
    unfold pdffit_ks; wauto.
  Qed.

  Lemma header_within : forall rest st,
    within pdffit_ks (pdffit_header V split split_commas float_of int_of lattice_of st rest).
  Proof.
    induction rest as [| line rest IH]; intros st; simpl; [exact I |].
    apply within_bind; [apply header_line_within |]. intros r _. destruct (snd r); [exact I | apply IH].
  Qed.

  Lemma atoms_within : forall fuel n rest, within pdffit_ks (pdffit_atoms V split float_of fuel n rest).
  Proof.
    induction fuel as [| fuel IH]; intros n rest; simpl; [exact I |].
    destruct rest as [| line r1]; [exact I |].
    repeat (apply within_bind;
            [ first [ apply three_within | unfold pdffit_ks; oracle | unfold pdffit_ks; wstep ] | intros ? _ ]);
    try (unfold pdffit_ks; oracle).
    apply IH.
  Qed.

  Lemma scaled_within : forall pars nc i, within pdffit_ks (Model.C13_Pdffit.scaled_edge V mulZ pars nc i).
  Proof. intros; unfold Model.C13_Pdffit.scaled_edge, pdffit_ks. wauto. Qed.

  Lemma body_within : forall lines,
    within pdffit_ks (pdffit_body V split split_commas isblank float_of int_of lattice_of mulZ lines).
  Proof.
    intros; unfold pdffit_body.
    apply within_bind; [apply trim_blank_within; simpl; tauto | intros stop _].
    apply within_bind; [apply header_within | intros hs _].
    destruct (p_cell V (fst hs)) as [latpars |]; [| simpl; tauto].
    apply within_bind; [apply atoms_within | intros n _].
    destruct (negb (Z.eqb (Z.of_nat n) (Zprod (p_ncell V (fst hs))))); [simpl; tauto |].
    destruct (negb (list_eqb_Z (firstn 3 (p_ncell V (fst hs))) [1%Z; 1%Z; 1%Z])); [| exact I].
    repeat (apply within_bind; [first [apply scaled_within | unfold pdffit_ks; oracle] | intros ? _]).
    exact I.
  Qed.

  Theorem only_documented_pdffit : forall lines,
    documented (parse_pdffit V split split_commas isblank float_of int_of lattice_of mulZ lines).
  Proof.
    intros lines. apply within_documented. unfold parse_pdffit, parse_pdffit_gen.
    eapply within_try; [apply body_within | vm_compute; reflexivity | intros k; vm_compute; tauto].
  Qed.
End PDFFIT_proofs.

