(* C08 - "no atom object ends up in two slots unless the caller explicitly asked": the duplicate flag g_dup is
   raised only by operations that keep (do not copy) what they are given.  For every other operation -
   copying append/insert/setitem, extend from a Structure, from a plain list (memo of ids) or with copy=True,
   slicing and boolean masks, + - * += -= *=, copies, constructors, deletions, reversal, pickling - the flag
   stays clear, hence (Proofs/C08_Step.v) no Structure holds an atom twice. *)
From Coq Require Import List ZArith Bool Arith Lia Permutation.
From DS Require Import Model.C08_StructHeap Proofs.C08_Lists Proofs.C08_Prims Proofs.C08_Inv Proofs.C08_Step Proofs.C08_Spec.
Import ListNotations.
Open Scope nat_scope.

(* operations by which the caller may ask for a repeated atom (conservative: every non-copying insertion, every
   slice assignment - it keeps members of the assigned slice -, index lists/tuples - they may repeat an index -,
   and __copy__ into an existing target, which keeps shared members) *)
Definition dup_asking (o : op) : bool :=
  match o with
  | Append _ _ c => negb c
  | Insert _ _ _ c => negb c
  | SetInt _ _ _ c => negb c
  | SetSlice _ _ _ _ => true
  | Extend _ _ CFalse => true
  | GetIdx _ _ _ => true
  | CopyInto _ _ => true
  | _ => false
  end.

(* ---------------------------------------------------------------- list facts *)

Lemma skipn_skipn' : forall A (l : list A) a b, skipn a (skipn b l) = skipn (a + b) l.
Proof.
  intros A l a b. revert l. induction b; intros l.
  - rewrite Nat.add_0_r. auto.
  - destruct l; [rewrite !skipn_nil; auto|]. replace (a + S b) with (S (a + b)) by lia. simpl. auto.
Qed.

Lemma NoDup_firstn_skipn : forall (l : list nat) lo hi, NoDup l -> lo <= hi -> NoDup (firstn lo l ++ skipn hi l).
Proof.
  intros l lo hi Hn Hle. rewrite <- (firstn_skipn lo l) in Hn.
  replace (skipn hi l) with (skipn (hi - lo) (skipn lo l)) by (rewrite skipn_skipn'; f_equal; lia).
  apply NoDup_app_intro.
  - eapply NoDup_app_l; eauto.
  - pose proof (NoDup_app_r _ _ Hn) as H. rewrite <- (firstn_skipn (hi - lo) (skipn lo l)) in H. eapply NoDup_app_r; eauto.
  - intros x Hx Hy. eapply NoDup_app_disj; eauto. eapply skipn_In'; eauto.
Qed.

Lemma memo_plan_keeps : forall l memo,
  NoDup (keeps (memo_plan memo l)) /\ forall x, In x (keeps (memo_plan memo l)) -> ~ In x memo.
Proof.
  induction l; simpl; intros.
  - split; [constructor|intros x []].
  - destruct (memb a memo) eqn:E.
    + change (keeps (Dup a :: memo_plan memo l)) with (keeps (memo_plan memo l)). apply IHl.
    + change (keeps (Keep a :: memo_plan (a :: memo) l)) with (a :: keeps (memo_plan (a :: memo) l)).
      destruct (IHl (a :: memo)) as [H1 H2]. split.
      * constructor; auto. intro Hin. apply H2 in Hin. apply Hin. left. auto.
      * intros x [Hx|Hx].
        -- subst. apply memb_false. auto.
        -- apply H2 in Hx. intro. apply Hx. right. auto.
Qed.

Lemma NoDup_filter' : forall (f : nat -> bool) l, NoDup l -> NoDup (filter f l).
Proof. intros. apply NoDup_filter. auto. Qed.

Lemma NoDup_flat_map_inj : forall (l : list nat) (g : nat -> option nat),
  NoDup l -> (forall a b k, In a l -> In b l -> g a = Some k -> g b = Some k -> a = b) ->
  NoDup (flat_map (fun a => match g a with Some k => [k] | None => [] end) l).
Proof.
  induction l; simpl; intros; [constructor|]. inversion H; subst.
  assert (IH : NoDup (flat_map (fun a0 => match g a0 with Some k => [k] | None => [] end) l)).
  { apply IHl; auto. intros. eapply H0; eauto; right; auto. }
  destruct (g a) eqn:E; simpl; auto. constructor; auto.
  intro Hin. apply in_flat_map in Hin. destruct Hin as [b [Hb Hk]]. destruct (g b) eqn:Eb; simpl in Hk; [|tauto].
  destruct Hk as [Hk|[]]. subst n0. assert (a = b) by (apply (H0 a b n (or_introl eq_refl) (or_intror Hb) E Eb)). subst. contradiction.
Qed.

Lemma pickle_sel_NoDup : forall old, NoDup old ->
  NoDup (flat_map (fun a => match index_of a (nodup_first [] old) with Some k => [k] | None => [] end) old).
Proof.
  intros. apply NoDup_flat_map_inj; auto. intros a b k _ _ Ha Hb.
  apply index_of_Some in Ha. apply index_of_Some in Hb. congruence.
Qed.

Lemma mask_indices_NoDup : forall m, NoDup (mask_indices m).
Proof.
  unfold mask_indices. intros m. generalize 0. induction m; simpl; intros; [constructor|].
  destruct a; simpl; auto. constructor; auto.
  intro Hin. apply in_flat_map in Hin. destruct Hin as [[i b] [H1 H2]]. apply in_combine_l in H1. apply in_seq in H1.
  simpl in H2. destruct b; simpl in H2; [|tauto]. destruct H2; [|tauto]. simpl in H. lia.
Qed.

Open Scope Z_scope.

Lemma arith_seq_In : forall k start step x, In x (arith_seq k start step) ->
  exists j, 0 <= j < Z.of_nat k /\ x = Z.to_nat (start + j * step).
Proof.
  induction k; simpl; intros; [tauto|]. destruct H.
  - exists 0. split; [lia|]. subst. f_equal. lia.
  - apply IHk in H. destruct H as [j [Hj Hx]]. exists (j + 1). split; [lia|]. subst. f_equal. lia.
Qed.

Lemma arith_seq_NoDup : forall k start step, step <> 0 ->
  (forall j, 0 <= j < Z.of_nat k -> 0 <= start + j * step) -> NoDup (arith_seq k start step).
Proof.
  induction k; simpl; intros; [constructor|]. constructor.
  - intro Hin. apply arith_seq_In in Hin. destruct Hin as [j [Hj Hx]].
    assert (0 <= start) by (specialize (H0 0); lia).
    assert (0 <= start + step + j * step) by (specialize (H0 (j + 1)); lia).
    assert (start = start + step + j * step) by lia. nia.
  - apply IHk; auto. intros j Hj. specialize (H0 (j + 1)). lia.
Qed.

Lemma slice_clip_lower : forall n neg v, 0 <= n -> -1 <= slice_clip n neg v /\ (neg = false -> 0 <= slice_clip n neg v).
Proof.
  intros n neg v Hn. unfold slice_clip. destruct (v <? 0) eqn:A.
  - cbv zeta. destruct (v + n <? 0) eqn:B; [destruct neg; split; intros; try discriminate; lia|].
    apply Z.ltb_ge in B. split; intros; lia.
  - apply Z.ltb_ge in A. destruct (n <=? v); [destruct neg; split; intros; try discriminate; lia|split; intros; lia].
Qed.

Lemma slice_indices_NoDup : forall len s idxs, slice_indices len s = Some idxs -> NoDup idxs.
Proof.
  unfold slice_indices, slice_adjust. intros len s idxs H. cbv zeta in H.
  assert (Hn : 0 <= Z.of_nat len) by lia. generalize dependent (Z.of_nat len). intros n H Hn.
  generalize dependent (match s_step s with Some k => k | None => 1 end). intros step H.
  destruct (step =? 0) eqn:E0; [discriminate|]. apply Z.eqb_neq in E0.
  assert (Hb : forall (o : option Z) d, -1 <= d -> ((step <? 0) = false -> 0 <= d) ->
             -1 <= match o with Some v => slice_clip n (step <? 0) v | None => d end /\
             ((step <? 0) = false -> 0 <= match o with Some v => slice_clip n (step <? 0) v | None => d end)).
  { intros o d H1 H2. destruct o; auto. apply slice_clip_lower; auto. }
  destruct (Hb (s_start s) (if step <? 0 then n - 1 else 0)) as [S1 S2]; [destruct (step <? 0); lia|destruct (step <? 0); intros; try discriminate; lia|].
  destruct (Hb (s_stop s) (if step <? 0 then -1 else n)) as [T1 T2]; [destruct (step <? 0); lia|destruct (step <? 0); intros; try discriminate; lia|].
  generalize dependent (match s_start s with Some v => slice_clip n (step <? 0) v | None => if step <? 0 then n - 1 else 0 end). intros start; intros.
  generalize dependent (match s_stop s with Some v => slice_clip n (step <? 0) v | None => if step <? 0 then -1 else n end). intros stop; intros.
  match goal with HH : Some _ = Some _ |- _ => inversion HH; subst; clear HH end.
  assert (S2x : (step <? 0) = false -> 0 <= start) by assumption.
  apply arith_seq_NoDup; auto.
  intros j Hj. unfold slice_len in Hj. destruct (step <? 0) eqn:Es.
  - apply Z.ltb_lt in Es. destruct (stop <? start) eqn:Ec; [|simpl in Hj; lia]. apply Z.ltb_lt in Ec.
    rewrite Z2Nat.id in Hj by (pose proof (Z.div_pos (start - stop - 1) (- step)); lia).
    assert (j <= (start - stop - 1) / (- step)) by lia.
    pose proof (Z.mul_div_le (start - stop - 1) (- step)). nia.
  - specialize (S2x eq_refl). apply Z.ltb_ge in Es. nia.
Qed.

Close Scope Z_scope.

(* the stable sort only permutes the positions *)
Lemma insert_sorted_perm : forall before k x l, Permutation (insert_sorted before k x l) (x :: l).
Proof.
  induction l; simpl; auto. destruct (before (k x) (k a)); auto.
  eapply perm_trans; [apply perm_skip; apply IHl|]. apply perm_swap.
Qed.

Lemma sort_positions_NoDup : forall rev keys, NoDup (sort_positions rev keys).
Proof.
  intros. unfold sort_positions.
  assert (P : forall l, Permutation (fold_right (insert_sorted (if rev then Z.geb else Z.leb) (fun i => nth i keys 0%Z)) [] l) l).
  { induction l; simpl; auto. eapply perm_trans; [apply insert_sorted_perm|]. apply perm_skip. auto. }
  eapply Permutation_NoDup; [apply Permutation_sym; apply P|]. apply seq_NoDup.
Qed.

(* ---------------------------------------------------------------- the flag through the primitives *)

Lemma install_dupflag : forall (h : hid) srcs e w, srcs_valid w srcs ->
  (forall old L, get_struct w h = Some (old, L) -> edit_dup_flag e old srcs = false) ->
  g_dup (install h srcs e w) = g_dup w.
Proof.
  intros h srcs e w Hv Hk. unfold install, get_obj.
  destruct (nth_error (objs w) h) as [[old L|]|] eqn:Eh; auto.
  destruct (realize (Some h) L srcs w) as [ids w1] eqn:Er.
  pose proof (realize_spec _ _ _ _ _ _ Er Hv) as R. simpl. rewrite (rz_dup _ _ _ _ _ _ R).
  rewrite (Hk old L); [apply orb_false_r|]. unfold get_struct, get_obj. rewrite Eh. auto.
Qed.

Lemma new_struct_dupflag : forall L srcs sel w, srcs_valid w srcs -> NoDup (keeps srcs) ->
  (forall idxs, sel = Some idxs -> NoDup idxs) -> g_dup (snd (new_struct L srcs sel w)) = g_dup w.
Proof.
  intros L srcs sel w Hv Hk Hs. destruct (realize None L srcs w) as [ids w1] eqn:Er.
  pose proof (realize_spec _ _ _ _ _ _ Er Hv) as R. rewrite (new_struct_eq _ _ _ _ _ _ Er). simpl.
  rewrite (rz_dup _ _ _ _ _ _ R). apply nodupb_NoDup in Hk. rewrite Hk. simpl.
  destruct sel as [idxs|]; [|apply orb_false_r]. specialize (Hs idxs eq_refl). apply nodupb_NoDup in Hs. rewrite Hs. apply orb_false_r.
Qed.

Lemma range_flag_nokeep : forall lo hi old srcs, NoDup old -> lo <= hi -> keeps srcs = [] ->
  edit_dup_flag (ERange lo hi) old srcs = false.
Proof.
  intros. simpl. rewrite H1. simpl. apply negb_false_iff, nodupb_NoDup. apply NoDup_firstn_skipn; auto.
Qed.

Lemma pick_flag : forall idxs old srcs, NoDup idxs -> edit_dup_flag (EPick idxs) old srcs = false.
Proof. intros. simpl. apply negb_false_iff, nodupb_NoDup. auto. Qed.

Lemma members_nodup : forall w h old L, Inv w -> g_dup w = false -> get_struct w h = Some (old, L) -> NoDup old.
Proof.
  intros w h old L [Hwf [_ HN]] Hf Hg. destruct (get_struct_wf _ _ _ _ Hwf Hg) as [_ [_ Ho]]. eapply (HN Hf); eauto.
Qed.

Lemma selection_dupflag : forall L sel w, valid w sel -> NoDup sel -> g_dup (snd (selection L sel w)) = g_dup w.
Proof.
  intros. unfold selection. cbn [alloc_lat].
  match goal with |- context [new_struct L ?a ?b ?w1] => pose proof (new_struct_dupflag L a b w1) as G; destruct (new_struct L a b w1) as [hn w2] end.
  cbn [fst snd] in *. rewrite G; auto.
  - apply srcs_valid_Keep. auto.
  - rewrite keeps_map_Keep. auto.
  - intros; discriminate.
Qed.

Lemma do_copy_dupflag : forall its w, valid w its -> g_dup (snd (do_copy its w)) = g_dup w.
Proof.
  intros. unfold do_copy. cbn [alloc_lat].
  match goal with |- context [new_struct ?L ?a ?b ?w1] => pose proof (new_struct_dupflag L a b w1) as G; destruct (new_struct L a b w1) as [hn w2] end.
  cbn [fst snd] in *. rewrite G; auto.
  - apply srcs_valid_Dup. auto.
  - rewrite keeps_map_Dup. constructor.
  - intros; discriminate.
Qed.

Lemma set_tags_dup : forall c prs w, g_dup (set_tags c prs w) = g_dup w.
Proof. induction prs as [|[a t] r]; simpl; intros; auto. rewrite IHr. auto. Qed.

Lemma do_extend_dupflag : forall h s c w, Inv w -> g_dup w = false -> c <> CFalse ->
  g_dup (fst (do_extend current h s c w)) = false.
Proof.
  intros h s c w HI Hf Hc. pose proof HI as [Hwf _]. unfold do_extend. cbn [current v_lazy_extend andb].
  destruct (get_struct w h) as [[old L]|] eqn:E1; auto. destruct (get_obj w s) as [so|] eqn:E2; auto. cbn [fst].
  pose proof (get_obj_wf _ _ _ Hwf E2) as Hv. pose proof (members_nodup _ _ _ _ HI Hf E1) as Hnd.
  rewrite install_dupflag; auto.
  - unfold extend_plan. destruct c; [destruct (is_struct so)|..]; try congruence;
      [apply srcs_valid_Dup|apply srcs_valid_memo|apply srcs_valid_Dup]; auto.
  - intros old0 L0 E. rewrite E1 in E. inversion E; subst. unfold extend_plan.
    destruct c; [destruct (is_struct so)|..]; try congruence.
    + apply range_flag_nokeep; auto. apply keeps_map_Dup.
    + simpl. apply negb_false_iff, nodupb_NoDup. rewrite firstn_all, skipn_all, app_nil_r.
      destruct (memo_plan_keeps (obj_items so) old0) as [K1 K2]. apply NoDup_app_intro; auto.
    + apply range_flag_nokeep; auto. apply keeps_map_Dup.
Qed.

Theorem dup_guard_syntactic : forall o w, Inv w -> g_dup w = false -> dup_asking o = false ->
  g_dup (fst (step current o w)) = false.
Proof.
  intros o w HI Hf Hr. pose proof HI as [Hwf _].
  destruct o; cbn [step]; simpl in Hr; try discriminate.
  - (* NewStruct *)
    cbn [alloc_lat]. match goal with |- context [new_struct ?L ?a ?b ?w1] => pose proof (new_struct_dupflag L a b w1) as G; destruct (new_struct L a b w1) as [hn w2] end.
    cbn [fst snd] in *. rewrite G; auto; [constructor|constructor|intros; discriminate].
  - (* NewList *)
    assert (G : forall tags ids w, g_dup (snd (fold_left (fun acc t => let '(a, w') := alloc_cell (mkCell t None) (snd acc) in (fst acc ++ [a], w')) tags (ids, w))) = g_dup w).
    { clear. induction tags; simpl; intros; auto. rewrite IHtags. auto. }
    specialize (G tags [] w). destruct (fold_left _ tags ([], w)) as [ids w1]. cbn [fst snd] in *.
    destruct (push_obj (OList ids) w1) as [h w2] eqn:E. inversion E; subst. simpl. congruence.
  - (* ListOf *) destruct (resolve_arefs w l); auto.
  - (* AddNewAtom *)
    destruct (get_struct w h) as [[old L]|] eqn:E1; auto. cbn [fst]. rewrite install_dupflag; auto.
    + constructor; [exact I|constructor].
    + intros old0 L0 E. inversion E; subst. apply range_flag_nokeep; auto. eapply members_nodup; eauto.
  - (* Construct *)
    destruct (get_obj w s) as [so|] eqn:E1; auto. pose proof (get_obj_wf _ _ _ Hwf E1) as Hso.
    assert (Hg : forall given w0, match l with None => Some (None, w) | Some a =>
                   match resolve_lat w a with Some (L, w') => Some (Some L, w') | None => None end end = Some (given, w0) ->
                 g_dup w0 = false /\ ext w w0).
    { intros given w0 H. destruct l as [a|].
      - destruct (resolve_lat w a) as [[L w']|] eqn:E; try discriminate. inversion H; subst.
        destruct (resolve_lat_IE _ _ _ _ HI E) as [[_ X] _]. split; auto.
        destruct a; simpl in E; [inversion E; subst; auto|].
        destruct (get_struct w h) as [[its l]|]; try discriminate. inversion E; subst. auto.
      - inversion H; subst. split; auto. apply ext_refl. }
    destruct (match l with None => Some (None, w) | Some a => _ end) as [[given w0]|] eqn:Eg; auto.
    destruct (Hg _ _ eq_refl) as [F0 X0]. clear Hg.
    assert (Hso0 : valid w0 (obj_items so)) by (eapply valid_ext; eauto).
    destruct so as [its Ls|its]; cbn [obj_items] in *.
    + cbn [alloc_lat].
      match goal with |- context [new_struct ?L ?a ?b ?w1] => pose proof (new_struct_dupflag L a b w1) as G; destruct (new_struct L a b w1) as [hn w2] end.
      cbn [fst snd] in *. assert (g_dup w2 = false).
      { rewrite G; auto; [apply srcs_valid_Dup; auto|rewrite keeps_map_Dup; constructor|intros; discriminate]. }
      destruct given; cbn [fst]; auto. unfold relat, get_obj. destruct (nth_error (objs w2) hn) as [[i2 l2|]|]; auto.
      simpl. pose proof (realize_keep_fold i2 (Some hn) l0 w2) as Er.
      assert (forall its (w : world), g_dup (fold_left (fun w' a => repoint (Some hn) l0 a w') its w) = g_dup w).
      { clear. induction its; simpl; intros; auto. rewrite IHits. auto. }
      rewrite H0. auto.
    + destruct (memo_plan_keeps its []) as [K1 _].
      destruct given as [L|].
      * match goal with |- context [new_struct ?L ?a ?b ?w1] => pose proof (new_struct_dupflag L a b w1) as G; destruct (new_struct L a b w1) as [hn w2] end.
        cbn [fst snd] in *. rewrite G; auto; [apply srcs_valid_memo; auto|intros; discriminate].
      * cbn [alloc_lat].
        match goal with |- context [new_struct ?L ?a ?b ?w1] => pose proof (new_struct_dupflag L a b w1) as G; destruct (new_struct L a b w1) as [hn w2] end.
        cbn [fst snd] in *. rewrite G; auto; [apply srcs_valid_memo; auto|intros; discriminate].
  - (* Append *)
    destruct copy; [|discriminate]. destruct (get_struct w h) as [[old L]|] eqn:E1; auto.
    destruct (resolve_aref w a) as [x|] eqn:E2; auto. cbn [fst]. rewrite install_dupflag; auto.
    + constructor; [|constructor]. simpl. eapply resolve_aref_valid; eauto.
    + intros old0 L0 E. inversion E; subst. apply range_flag_nokeep; auto. eapply members_nodup; eauto.
  - (* Insert *)
    destruct copy; [|discriminate]. destruct (get_struct w h) as [[old L]|] eqn:E1; auto.
    destruct (resolve_aref w a) as [x|] eqn:E2; auto. cbn [fst]. rewrite install_dupflag; auto.
    + constructor; [|constructor]. simpl. eapply resolve_aref_valid; eauto.
    + intros old0 L0 E. inversion E; subst. apply range_flag_nokeep; auto. eapply members_nodup; eauto.
  - (* Extend *) apply do_extend_dupflag; auto. destruct copy; try discriminate; congruence.
  - (* GetInt *)
    destruct (get_struct w h) as [[old L]|]; auto. destruct (norm_index (length old) i); auto. destruct (nth_error old n); auto.
  - (* GetSlice *)
    destruct (get_struct w h) as [[old L]|] eqn:E1; auto. destruct (get_struct_wf _ _ _ _ Hwf E1) as [Hold _].
    destruct (slice_indices (length old) s) as [idxs|] eqn:E2; auto.
    pose proof (selection_dupflag L (pick old idxs) w (valid_pick _ _ _ Hold)) as H.
    destruct (selection L (pick old idxs) w) as [hn w1]. cbn [fst snd] in *. rewrite H; auto.
    apply pick_NoDup; [eapply members_nodup; eauto|eapply slice_indices_NoDup; eauto].
  - (* GetMask *)
    destruct (get_struct w h) as [[old L]|] eqn:E1; auto. destruct (get_struct_wf _ _ _ _ Hwf E1) as [Hold _].
    destruct (Nat.eqb (length m) (length old) || Nat.eqb (length m) 0); auto.
    pose proof (selection_dupflag L (pick old (mask_indices m)) w (valid_pick _ _ _ Hold)) as H.
    destruct (selection L (pick old (mask_indices m)) w) as [hn w1]. cbn [fst snd] in *. rewrite H; auto.
    apply pick_NoDup; [eapply members_nodup; eauto|apply mask_indices_NoDup].
  - (* GetLabel *)
    destruct (get_struct w h) as [[old L]|]; auto.
    destruct (resolve_lidx w old [LLab t]) as [[|z [|z2 zs]]|]; auto. destruct (nth_error old (Z.to_nat z)); auto.
  - (* SetInt *)
    destruct copy; [|discriminate]. destruct (get_struct w h) as [[old L]|] eqn:E1; auto.
    destruct (resolve_aref w a) as [x|] eqn:E2; auto.
    assert (srcs_valid w [copy_src true x]). { constructor; [|constructor]. simpl. eapply resolve_aref_valid; eauto. }
    destruct (norm_index (length old) i); cbn [fst]; auto. rewrite install_dupflag; auto.
    intros old0 L0 E. inversion E; subst. apply range_flag_nokeep; auto. eapply members_nodup; eauto.
  - (* DelInt *)
    destruct (get_struct w h) as [[old L]|]; auto. destruct (norm_index (length old) i); cbn [fst]; auto.
    rewrite install_dupflag; auto; [constructor|]. intros. apply pick_flag. apply complement_NoDup.
  - (* DelSlice *)
    destruct (get_struct w h) as [[old L]|]; auto. destruct (slice_indices (length old) s); cbn [fst]; auto.
    rewrite install_dupflag; auto; [constructor|]. intros. apply pick_flag. apply complement_NoDup.
  - (* Pop *)
    destruct (get_struct w h) as [[old L]|]; auto. destruct (norm_index (length old) _); cbn [fst]; auto.
    destruct (nth_error old n); cbn [fst]; auto.
    rewrite install_dupflag; auto; [constructor|]. intros. apply pick_flag. apply complement_NoDup.
  - (* Remove *)
    destruct (get_struct w h) as [[old L]|]; auto. destruct (resolve_aref w a); auto.
    destruct (index_of a0 old); cbn [fst]; auto.
    rewrite install_dupflag; auto; [constructor|]. intros. apply pick_flag. apply complement_NoDup.
  - (* Reverse *)
    destruct (get_struct w h) as [[old L]|]; auto. cbn [fst].
    rewrite install_dupflag; auto; [constructor|]. intros. apply pick_flag. apply NoDup_rev. apply seq_NoDup.
  - (* Clear *)
    destruct (get_struct w h) as [[old L]|]; auto. cbn [fst].
    rewrite install_dupflag; auto. constructor.
  - (* Add *)
    destruct (get_struct w h) as [[old L]|] eqn:E1; auto. destruct (get_obj w s) as [so|] eqn:E2; auto.
    destruct (get_struct_wf _ _ _ _ Hwf E1) as [Hold _]. pose proof (get_obj_wf _ _ _ Hwf E2) as Hv.
    pose proof (do_copy_dupflag old w Hold) as F. pose proof (do_copy_IE old w HI Hold) as [I1 X1].
    destruct (do_copy old w) as [hn w1]. cbn [fst snd] in *. rewrite install_dupflag; [congruence| |].
    + apply srcs_valid_Dup. eapply valid_ext; eauto.
    + intros old0 L0 E. apply range_flag_nokeep; auto; [|apply keeps_map_Dup]. eapply members_nodup; eauto; congruence.
  - (* Sub *)
    destruct (get_struct w h) as [[old L]|] eqn:E1; auto. destruct (get_obj w s) as [so|] eqn:E2; auto.
    destruct (get_struct_wf _ _ _ _ Hwf E1) as [Hold [HL _]].
    set (sel := filter (fun a => negb (memb a (obj_items so))) old).
    assert (Hsel : valid w sel) by (apply valid_filter; auto).
    cbn [alloc_lat].
    match goal with |- context [realize None L ?a ?w0] => destruct (realize None L a w0) as [ids w1] eqn:E4;
      assert (R : realized None L a w0 ids w1) by (apply realize_spec; auto; apply srcs_valid_Keep; auto) end.
    assert (Hsel1 : valid w1 sel). { intros x Hx. apply Hsel in Hx. pose proof (rz_len _ _ _ _ _ _ R). simpl in *. lia. }
    pose proof (do_copy_dupflag sel w1 Hsel1) as F. destruct (do_copy sel w1) as [hn w2]. cbn [fst snd] in *.
    rewrite F, (rz_dup _ _ _ _ _ _ R). auto.
  - (* Mul *)
    destruct (get_struct w h) as [[old L]|] eqn:E1; auto. destruct (get_struct_wf _ _ _ _ Hwf E1) as [Hold _].
    cbn [alloc_lat].
    match goal with |- context [do_copy [] ?w0] => set (w0' := w0) end.
    assert (I0 : Inv w0'). { destruct (alloc_lat_IE w HI) as [[A _] _]. exact A. }
    pose proof (do_copy_dupflag [] w0' (valid_nil w0')) as F. pose proof (do_copy_IE [] w0' I0 (valid_nil w0')) as [I1 X1].
    destruct (do_copy [] w0') as [hn w1]. cbn [fst snd] in *.
    assert (F1 : g_dup w1 = false) by (rewrite F; auto).
    rewrite install_dupflag; auto.
    + apply srcs_valid_Dup. apply valid_repeat. intros x Hx. apply Hold in Hx. destruct X1. simpl in *. lia.
    + intros old0 L0 E. apply range_flag_nokeep; auto; [|apply keeps_map_Dup]. eapply members_nodup; eauto.
  - (* IAdd *)
    assert (H : g_dup (fst (do_extend current h s CTrue w)) = false) by (apply do_extend_dupflag; auto; discriminate).
    destruct (do_extend current h s CTrue w) as [w1 [r| |]]; cbn [fst] in *; auto.
  - (* ISub *)
    destruct (get_struct w h) as [[old L]|] eqn:E1; auto. destruct (get_obj w s) as [so|]; auto. cbn [fst].
    destruct (get_struct_wf _ _ _ _ Hwf E1) as [Hold _].
    rewrite install_dupflag; auto.
    + apply srcs_valid_Keep. apply valid_filter. auto.
    + intros old0 L0 E. rewrite E1 in E. inversion E; subst. simpl. rewrite skipn_all, app_nil_r, keeps_map_Keep.
      apply negb_false_iff, nodupb_NoDup. apply NoDup_filter'. eapply members_nodup; eauto.
  - (* IMul *)
    destruct (get_struct w h) as [[old L]|] eqn:E1; auto. destruct (get_struct_wf _ _ _ _ Hwf E1) as [Hold _].
    pose proof (members_nodup _ _ _ _ HI Hf E1) as Hnd.
    destruct (n <=? 0)%Z; cbn [fst]; rewrite install_dupflag; auto.
    + constructor.
    + intros old0 L0 E. rewrite E1 in E. inversion E; subst. apply range_flag_nokeep; auto. lia.
    + apply srcs_valid_Dup. apply valid_repeat. auto.
    + intros old0 L0 E. rewrite E1 in E. inversion E; subst. apply range_flag_nokeep; auto. apply keeps_map_Dup.
  - (* Copy *)
    destruct (get_struct w h) as [[old L]|] eqn:E1; auto. destruct (get_struct_wf _ _ _ _ Hwf E1) as [Hold _].
    pose proof (do_copy_dupflag old w Hold) as F. destruct (do_copy old w) as [hn w1]. cbn [fst snd] in *. congruence.
  - (* SetLattice *)
    destruct (get_struct w h) as [[old L]|]; auto. destruct (resolve_lat w l) as [[L' w1]|] eqn:E2; auto. cbn [fst].
    assert (g_dup w1 = false).
    { destruct l; simpl in E2; [inversion E2; subst; auto|]. destruct (get_struct w h0) as [[i l]|]; try discriminate. inversion E2; subst. auto. }
    unfold relat, get_obj. destruct (nth_error (objs w1) h) as [[i2 l2|]|]; auto. simpl.
    assert (forall its (w : world), g_dup (fold_left (fun w' a => repoint (Some h) L' a w') its w) = g_dup w).
    { clear. induction its; simpl; intros; auto. rewrite IHits. auto. }
    rewrite H0. auto.
  - (* Pickle *)
    destruct (get_struct w h) as [[old L]|] eqn:E1; auto. destruct (get_struct_wf _ _ _ _ Hwf E1) as [Hold _].
    cbn [current v_setstate alloc_lat]. destruct hi.
    + match goal with |- context [new_struct ?L ?a ?b ?w1] => pose proof (new_struct_dupflag L a b w1) as G; destruct (new_struct L a b w1) as [hn w2] end.
      cbn [fst snd] in *. rewrite G; auto; [apply srcs_valid_Dup; auto|rewrite keeps_map_Dup; constructor|intros; discriminate].
    + match goal with |- context [new_struct ?L ?a ?b ?w1] => pose proof (new_struct_dupflag L a b w1) as G; destruct (new_struct L a b w1) as [hn w2] end.
      cbn [fst snd] in *. rewrite G; auto.
      * apply srcs_valid_Dup. apply valid_nodup_first. auto.
      * rewrite keeps_map_Dup. constructor.
      * intros idxs Hi. inversion Hi; subst. apply pickle_sel_NoDup. eapply members_nodup; eauto.
  - (* DeepCopy *)
    destruct (get_struct w h) as [[old L]|] eqn:E1; auto. destruct (get_struct_wf _ _ _ _ Hwf E1) as [Hold _].
    cbn [alloc_lat].
    match goal with |- context [new_struct ?L ?a ?b ?w1] => pose proof (new_struct_dupflag L a b w1) as G; destruct (new_struct L a b w1) as [hn w2] end.
    cbn [fst snd] in *. rewrite G; auto; [apply srcs_valid_Dup; auto|rewrite keeps_map_Dup; constructor|intros; discriminate].
  - (* Tolist *)
    destruct (get_struct w h) as [[old L]|]; auto.
  - (* SetCol *)
    destruct (get_struct w h) as [[old L]|]; auto.
    destruct old as [|a0 old']; auto. destruct tags as [|t [|t2 ts]]; cbn [fst]; auto.
    + rewrite set_tags_dup. auto.
    + match goal with |- context [if ?c then _ else _] => destruct c end; cbn [fst]; auto. rewrite set_tags_dup. auto.
  - (* Sort: a stable sort is a permutation of the positions *)
    destruct (get_struct w h) as [[old L]|]; auto. destruct key; cbn [fst].
    + rewrite install_dupflag; auto; [constructor|]. intros. apply pick_flag. apply sort_positions_NoDup.
    + destruct (Nat.leb (length old) 1); auto.
  - (* AssignUniqueLabels *)
    destruct (get_struct w h) as [[old L]|]; auto. cbn [fst]. rewrite set_tags_dup. auto.
  - (* GetLast *)
    destruct (get_struct w h) as [[old L]|]; auto. destruct (nth_error (rev old) 0); auto.
  - (* GetCol *) destruct (get_struct w h) as [[old L]|]; auto.
  - (* Composition *) destruct (get_struct w h) as [[old L]|]; auto.
Qed.

Fixpoint never_asks (ops : list op) : bool :=
  match ops with [] => true | o :: t => negb (dup_asking o) && never_asks t end.

Theorem nodup_guarded : forall ops w, Inv w -> g_dup w = false -> never_asks ops = true ->
  nodup_ok (run current ops w).
Proof.
  unfold run. induction ops; simpl; intros w HI Hf Hg.
  - destruct HI as [_ [_ HN]]. auto.
  - apply andb_true_iff in Hg. destruct Hg as [G1 G2]. apply negb_true_iff in G1.
    destruct (step_Inv a w HI) as [I1 _]. apply IHops; auto. apply dup_guard_syntactic; auto.
Qed.

Definition never_asks_example : list op :=
  [NewStruct; AddNewAtom 0 (lab 1); AddNewAtom 0 (lab 2); AddNewAtom 0 (lab 3); NewList [lab 4; lab 5];
   GetSlice 0 (mkSlice None None (Some (-2)%Z)); Add 0 2; Extend 3 1 CNone; Extend 3 1 CNone; IAdd 0 0;
   Append 0 (mkRef 0 0%Z) true; Mul 2 3%Z; GetMask 2 [true; false]; ISub 0 2; IMul 3 2%Z; Pickle 3 false;
   Construct 1 None; Reverse 0; DelSlice 0 (mkSlice None None (Some 2%Z))].

Example never_asks_example_ok :
  never_asks never_asks_example = true /\ length (objs (run current never_asks_example empty_world)) = 8.
Proof. vm_compute. auto. Qed.
