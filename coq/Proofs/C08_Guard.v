(* C08 - the guard of the lattice invariant in syntactic form: a history that never assigns a lattice to an
   existing container and never inserts atoms without copying keeps g_repoint clear, hence keeps
   "every atom refers to its container's lattice".  (Slicing, +, -, *, copies, in-place forms, deletions,
   pickling, copying insertions and slice assignment are all allowed.) *)
From Coq Require Import List ZArith Bool Arith Lia.
From DS Require Import Model.C08_StructHeap Proofs.C08_Lists Proofs.C08_Prims Proofs.C08_Inv Proofs.C08_Step Proofs.C08_Spec.
Import ListNotations.
Open Scope nat_scope.

Definition repointing (o : op) (w : world) : bool :=
  match o with
  | Append _ _ c => negb c
  | Insert _ _ _ c => negb c
  | SetInt _ _ _ c => negb c
  | SetSlice _ _ _ c => negb c
  | Extend _ s CFalse => true
  | Extend _ s CNone => match get_obj w s with Some (OStruct _ _) => false | _ => true end
  | Extend _ _ CTrue => false
  | Construct s la =>
      match la with
      | Some _ => true
      | None => match get_obj w s with Some (OStruct _ _) => false | _ => true end
      end
  | SetLattice _ _ _ => true
  | CopyInto h t => negb (Nat.eqb h t)
  | _ => false
  end.

Lemma existsb_i_false_intro : forall A (f : nat -> A -> bool) l i,
  (forall k x, nth_error l k = Some x -> f (i + k) x = false) -> existsb_i f i l = false.
Proof.
  induction l; simpl; intros; auto. apply orb_false_iff. split.
  - specialize (H 0 a eq_refl). rewrite Nat.add_0_r in H. auto.
  - apply IHl. intros k x Hk. specialize (H (S k) x Hk). replace (S i + k) with (i + S k) by lia. auto.
Qed.

Lemma held_false_of_lat : forall w owner a L, lat_ok w -> lat_of w a = Some L -> held_elsewhere w owner a L = false.
Proof.
  intros. unfold held_elsewhere. apply existsb_i_false_intro. intros k x Hk. destruct x as [its l|]; auto.
  destruct (memb a its) eqn:E; [|rewrite andb_false_r; auto].
  apply memb_In in E. assert (lat_of w a = Some l) by (eapply H; eauto; discriminate).
  assert (l = L) by congruence. subst. rewrite Nat.eqb_refl. simpl. rewrite andb_false_r. auto.
Qed.

Lemma install_flag : forall (h : hid) srcs e w, Inv w -> g_repoint w = false -> srcs_valid w srcs ->
  (forall old L, get_struct w h = Some (old, L) -> forall a, In a (keeps srcs) -> In a old) ->
  g_repoint (install h srcs e w) = false.
Proof.
  intros h srcs e w [Hwf [HL HN]] Hf Hv Hk. specialize (HL Hf).
  unfold install, get_obj. destruct (nth_error (objs w) h) as [[old L|]|] eqn:Eh; auto.
  destruct (realize (Some h) L srcs w) as [ids w1] eqn:Er.
  pose proof (realize_spec _ _ _ _ _ _ Er Hv) as R. simpl. rewrite (rz_flag_same _ _ _ _ _ _ R); auto.
  intros a Ha. apply held_false_of_lat; auto.
  assert (In a old). { eapply Hk; eauto. unfold get_struct, get_obj. rewrite Eh. auto. }
  eapply HL; eauto. discriminate.
Qed.

Lemma install_flag_nokeep : forall (h : hid) srcs e w, Inv w -> g_repoint w = false -> srcs_valid w srcs ->
  keeps srcs = [] -> g_repoint (install h srcs e w) = false.
Proof. intros. apply install_flag; auto. intros. rewrite H2 in H4. destruct H4. Qed.

Lemma new_struct_flag : forall L srcs sel w, Inv w -> g_repoint w = false -> srcs_valid w srcs ->
  (forall a, In a (keeps srcs) -> lat_of w a = Some L) ->
  g_repoint (snd (new_struct L srcs sel w)) = false.
Proof.
  intros L srcs sel w [Hwf [HL HN]] Hf Hv Hk. specialize (HL Hf).
  destruct (realize None L srcs w) as [ids w1] eqn:Er.
  pose proof (realize_spec _ _ _ _ _ _ Er Hv) as R. rewrite (new_struct_eq _ _ _ _ _ _ Er). simpl.
  rewrite (rz_flag_same _ _ _ _ _ _ R); auto. intros a Ha. apply held_false_of_lat; auto.
Qed.

Lemma alloc_lat_keeps : forall w, Inv w -> g_repoint w = false ->
  Inv (snd (alloc_lat w)) /\ g_repoint (snd (alloc_lat w)) = false /\ ext w (snd (alloc_lat w)) /\
  (forall a, lat_of (snd (alloc_lat w)) a = lat_of w a) /\ objs (snd (alloc_lat w)) = objs w.
Proof. intros. destruct (alloc_lat_IE w H) as [[A B] _]. split; [exact A|]. split; [exact H0|]. split; [exact B|]. split; [intros; reflexivity|reflexivity]. Qed.

Lemma selection_flag : forall L sel w, Inv w -> g_repoint w = false -> valid w sel ->
  (forall a, In a sel -> lat_of w a = Some L) -> g_repoint (snd (selection L sel w)) = false.
Proof.
  intros L sel w HI Hf Hv Hl. unfold selection.
  destruct (alloc_lat_keeps w HI Hf) as [I1 [F1 [X1 [L1 O1]]]].
  destruct (alloc_lat w) as [Lg w1]. cbn [fst snd] in *.
  pose proof (new_struct_flag L (map Keep sel) None w1 I1 F1) as H.
  destruct (new_struct L (map Keep sel) None w1) as [hn w2]. cbn [fst snd] in *. apply H.
  - apply srcs_valid_Keep. eapply valid_ext; eauto.
  - intros a Ha. rewrite keeps_map_Keep in Ha. rewrite L1. auto.
Qed.

Lemma do_copy_flag : forall its w, valid w its -> g_repoint (snd (do_copy its w)) = g_repoint w.
Proof.
  intros. destruct (do_copy its w) as [hn w1] eqn:E. destruct (do_copy_copies _ _ _ _ H E) as [ids [M _]].
  destruct M. auto.
Qed.

Lemma members_lat : forall w h old L, Inv w -> g_repoint w = false -> get_struct w h = Some (old, L) ->
  forall a, In a old -> lat_of w a = Some L.
Proof.
  intros w h old L [Hwf [HL _]] Hf Hg a Ha. destruct (get_struct_wf _ _ _ _ Hwf Hg) as [_ [_ Ho]].
  eapply (HL Hf); eauto. discriminate.
Qed.

Lemma do_extend_flag : forall h s c w, Inv w -> g_repoint w = false -> repointing (Extend h s c) w = false ->
  g_repoint (fst (do_extend current h s c w)) = false.
Proof.
  intros h s c w HI Hf Hr. pose proof HI as [Hwf _]. unfold do_extend. cbn [current v_lazy_extend andb].
  destruct (get_struct w h) as [[old L]|] eqn:E1; auto. destruct (get_obj w s) as [so|] eqn:E2; auto. cbn [fst].
  pose proof (get_obj_wf _ _ _ Hwf E2) as Hv.
  simpl in Hr. rewrite E2 in Hr. destruct c; try discriminate.
  - destruct so; try discriminate. simpl. apply install_flag_nokeep; auto; [apply srcs_valid_Dup; auto|apply keeps_map_Dup].
  - simpl. apply install_flag_nokeep; auto; [apply srcs_valid_Dup; auto|apply keeps_map_Dup].
Qed.

Theorem guard_syntactic : forall o w, Inv w -> g_repoint w = false -> repointing o w = false ->
  g_repoint (fst (step current o w)) = false.
Proof.
  intros o w HI Hf Hr. pose proof HI as [Hwf _].
  destruct o; cbn [step]; simpl in Hr; try discriminate.
  - (* NewStruct *)
    destruct (alloc_lat_keeps w HI Hf) as [I1 [F1 [X1 [L1 O1]]]]. destruct (alloc_lat w) as [L w1]. cbn [fst snd] in *.
    pose proof (new_struct_flag L [] None w1 I1 F1) as H. destruct (new_struct L [] None w1) as [h w2]. cbn [fst snd] in *.
    apply H; [constructor|intros a []].
  - (* NewList *)
    pose proof (alloc_free_Inv tags [] w HI (valid_nil w)) as H. simpl in H.
    assert (G : forall tags ids w, g_repoint (snd (fold_left (fun acc t => let '(a, w') := alloc_cell (mkCell t None) (snd acc) in (fst acc ++ [a], w')) tags (ids, w))) = g_repoint w).
    { clear. induction tags; simpl; intros; auto. rewrite IHtags. auto. }
    specialize (G tags [] w). destruct (fold_left _ tags ([], w)) as [ids w1]. cbn [fst snd] in *.
    destruct (push_obj (OList ids) w1) as [h w2] eqn:E. inversion E; subst. simpl. congruence.
  - (* ListOf *)
    destruct (resolve_arefs w l); auto.
  - (* AddNewAtom *)
    destruct (get_struct w h) as [[old L]|]; auto. cbn [fst]. apply install_flag_nokeep; auto. constructor; [exact I|constructor].
  - (* Construct: from a Structure, no lattice argument *)
    destruct l; [discriminate|]. destruct (get_obj w s) as [[its Ls|]|] eqn:E1; try discriminate.
    destruct (alloc_lat_keeps w HI Hf) as [I1 [F1 [X1 [L1 O1]]]]. destruct (alloc_lat w) as [L' w1]. cbn [fst snd] in *.
    pose proof (new_struct_flag L' (map Dup its) None w1 I1 F1) as H.
    destruct (new_struct L' (map Dup its) None w1) as [h w2]. cbn [fst snd] in *. apply H.
    + apply srcs_valid_Dup. eapply valid_ext; eauto. apply (get_obj_wf _ _ _ Hwf E1).
    + rewrite keeps_map_Dup. intros a [].
  - (* Append *)
    destruct copy; [|discriminate]. destruct (get_struct w h) as [[old L]|]; auto.
    destruct (resolve_aref w a) as [x|] eqn:E2; auto. cbn [fst]. apply install_flag_nokeep; auto.
    constructor; [|constructor]. simpl. eapply resolve_aref_valid; eauto.
  - (* Insert *)
    destruct copy; [|discriminate]. destruct (get_struct w h) as [[old L]|]; auto.
    destruct (resolve_aref w a) as [x|] eqn:E2; auto. cbn [fst]. apply install_flag_nokeep; auto.
    constructor; [|constructor]. simpl. eapply resolve_aref_valid; eauto.
  - (* Extend *) apply do_extend_flag; auto.
  - (* GetInt *)
    destruct (get_struct w h) as [[old L]|]; auto. destruct (norm_index (length old) i); auto. destruct (nth_error old n); auto.
  - (* GetSlice *)
    destruct (get_struct w h) as [[old L]|] eqn:E1; auto. destruct (get_struct_wf _ _ _ _ Hwf E1) as [Hold _].
    destruct (slice_indices (length old) s) as [idxs|]; auto.
    pose proof (selection_flag L (pick old idxs) w HI Hf (valid_pick _ _ _ Hold)) as H.
    destruct (selection L (pick old idxs) w) as [hn w1]. apply H.
    intros a Ha. eapply members_lat; eauto. eapply pick_In; eauto.
  - (* GetIdx *)
    destruct (get_struct w h) as [[old L]|] eqn:E1; auto. destruct (get_struct_wf _ _ _ _ Hwf E1) as [Hold _].
    assert (Hmain : g_repoint (fst (match resolve_lidx w old l with
              | None => (w, Raised EIndex)
              | Some zs => match norm_all (length old) zs with
                  | None => (w, Raised EIndex)
                  | Some idxs => let '(_, w0) := alloc_lat w in
                      let '(hn, w1) := new_struct L (map Keep (pick old idxs)) None w0 in (w1, Done (RObj hn))
                  end end)) = false).
    { destruct (resolve_lidx w old l) as [zs|]; auto. destruct (norm_all (length old) zs) as [idxs|]; auto.
      pose proof (selection_flag L (pick old idxs) w HI Hf (valid_pick _ _ _ Hold)) as H. unfold selection in H.
      destruct (alloc_lat w) as [Lg w0]. destruct (new_struct L (map Keep (pick old idxs)) None w0) as [hn w1]. apply H.
      intros a Ha. eapply members_lat; eauto. eapply pick_In; eauto. }
    destruct l; [destruct astuple; auto|]; exact Hmain.
  - (* GetMask *)
    destruct (get_struct w h) as [[old L]|] eqn:E1; auto. destruct (get_struct_wf _ _ _ _ Hwf E1) as [Hold _].
    destruct (Nat.eqb (length m) (length old) || Nat.eqb (length m) 0); auto.
    pose proof (selection_flag L (pick old (mask_indices m)) w HI Hf (valid_pick _ _ _ Hold)) as H.
    destruct (selection L (pick old (mask_indices m)) w) as [hn w1]. apply H.
    intros a Ha. eapply members_lat; eauto. eapply pick_In; eauto.
  - (* GetLabel *)
    destruct (get_struct w h) as [[old L]|]; auto.
    destruct (resolve_lidx w old [LLab t]) as [[|z [|z2 zs]]|]; auto. destruct (nth_error old (Z.to_nat z)); auto.
  - (* SetInt *)
    destruct copy; [|discriminate]. destruct (get_struct w h) as [[old L]|]; auto.
    destruct (resolve_aref w a) as [x|] eqn:E2; auto.
    assert (srcs_valid w [copy_src true x]). { constructor; [|constructor]. simpl. eapply resolve_aref_valid; eauto. }
    destruct (norm_index (length old) i); cbn [fst]; auto; apply install_flag_nokeep; auto.
  - (* SetSlice, copying: only members of the assigned slice are kept *)
    destruct copy; [|discriminate]. destruct (get_struct w h) as [[old L]|] eqn:E1; auto.
    destruct (get_obj w v) as [vo|] eqn:E2; auto. pose proof (get_obj_wf _ _ _ Hwf E2) as Hv.
    destruct (slice_adjust (length old) s) as [[[[start stop] stp] slen]|]; auto.
    destruct (slice_indices (length old) s) as [idxs|]; auto.
    set (srcs := map (fun a => if true && negb (memb a (pick old idxs)) then Dup a else Keep a) (obj_items vo)).
    assert (Hs : srcs_valid w srcs) by (apply srcs_valid_choice; auto).
    assert (Hk : forall old0 L0, get_struct w h = Some (old0, L0) -> forall a, In a (keeps srcs) -> In a old0).
    { intros old0 L0 E a Ha. rewrite E1 in E. inversion E; subst. unfold keeps, srcs in Ha.
      apply in_flat_map in Ha. destruct Ha as [sx [Hsx Ha]]. apply in_map_iff in Hsx. destruct Hsx as [y [Hy _]].
      simpl in Hy. destruct (memb y (pick old0 idxs)) eqn:Em; simpl in Hy; subst sx; simpl in Ha; [|tauto].
      destruct Ha; [|tauto]. subst. apply memb_In in Em. eapply pick_In; eauto. }
    destruct (Z.eqb stp 1); cbn [fst]; [apply install_flag; auto|].
    match goal with |- context [if ?c then _ else _] => destruct c end; cbn [fst]; auto; apply install_flag; auto.
  - (* DelInt *)
    destruct (get_struct w h) as [[old L]|]; auto. destruct (norm_index (length old) i); cbn [fst]; auto.
    apply install_flag_nokeep; auto. constructor.
  - (* DelSlice *)
    destruct (get_struct w h) as [[old L]|]; auto. destruct (slice_indices (length old) s); cbn [fst]; auto.
    apply install_flag_nokeep; auto. constructor.
  - (* Pop *)
    destruct (get_struct w h) as [[old L]|]; auto. destruct (norm_index (length old) _); cbn [fst]; auto.
    destruct (nth_error old n); cbn [fst]; auto. apply install_flag_nokeep; auto. constructor.
  - (* Remove *)
    destruct (get_struct w h) as [[old L]|]; auto. destruct (resolve_aref w a); auto.
    destruct (index_of a0 old); cbn [fst]; auto. apply install_flag_nokeep; auto. constructor.
  - (* Reverse *)
    destruct (get_struct w h) as [[old L]|]; auto. cbn [fst]. apply install_flag_nokeep; auto. constructor.
  - (* Clear *)
    destruct (get_struct w h) as [[old L]|]; auto. cbn [fst]. apply install_flag_nokeep; auto. constructor.
  - (* Add *)
    destruct (get_struct w h) as [[old L]|] eqn:E1; auto. destruct (get_obj w s) as [so|] eqn:E2; auto.
    destruct (get_struct_wf _ _ _ _ Hwf E1) as [Hold _]. pose proof (get_obj_wf _ _ _ Hwf E2) as Hv.
    pose proof (do_copy_flag old w Hold) as F. pose proof (do_copy_IE old w HI Hold) as [I1 X1].
    destruct (do_copy old w) as [hn w1]. cbn [fst snd] in *. apply install_flag_nokeep; auto; [congruence| |apply keeps_map_Dup].
    apply srcs_valid_Dup. eapply valid_ext; eauto.
  - (* Sub: the temporary selection re-links members of the receiver with the receiver's own lattice *)
    destruct (get_struct w h) as [[old L]|] eqn:E1; auto. destruct (get_obj w s) as [so|] eqn:E2; auto.
    destruct (get_struct_wf _ _ _ _ Hwf E1) as [Hold [HL _]].
    set (sel := filter (fun a => negb (memb a (obj_items so))) old).
    assert (Hsel : valid w sel) by (apply valid_filter; auto).
    destruct (alloc_lat_keeps w HI Hf) as [I0 [F0 [X0 [L0 O0]]]]. destruct (alloc_lat w) as [Lg w0]. cbn [fst snd] in *.
    assert (Hsel0 : valid w0 sel) by (eapply valid_ext; eauto).
    destruct (realize None L (map Keep sel) w0) as [ids w1] eqn:E4.
    pose proof (realize_spec _ _ _ _ _ _ E4 (srcs_valid_Keep w0 _ Hsel0)) as R.
    assert (F1 : g_repoint w1 = false).
    { rewrite (rz_flag_same _ _ _ _ _ _ R); auto. intros a Ha. rewrite keeps_map_Keep in Ha.
      destruct I0 as [_ [HL0 _]]. apply held_false_of_lat; auto. rewrite L0. eapply members_lat; eauto.
      eapply filter_In'; eauto. }
    assert (Hsel1 : valid w1 sel). { intros x Hx. apply Hsel0 in Hx. pose proof (rz_len _ _ _ _ _ _ R). lia. }
    pose proof (do_copy_flag sel w1 Hsel1) as F. destruct (do_copy sel w1) as [hn w2]. cbn [fst snd] in *. congruence.
  - (* Mul *)
    destruct (get_struct w h) as [[old L]|] eqn:E1; auto. destruct (get_struct_wf _ _ _ _ Hwf E1) as [Hold _].
    destruct (alloc_lat_keeps w HI Hf) as [I0 [F0 [X0 [L0 O0]]]]. destruct (alloc_lat w) as [Lg w0]. cbn [fst snd] in *.
    pose proof (do_copy_flag [] w0 (valid_nil w0)) as F. pose proof (do_copy_IE [] w0 I0 (valid_nil w0)) as [I1 X1].
    destruct (do_copy [] w0) as [hn w1]. cbn [fst snd] in *. apply install_flag_nokeep; auto; [congruence| |apply keeps_map_Dup].
    apply srcs_valid_Dup. apply valid_repeat. eapply valid_ext; [|eauto]. eapply ext_trans; eauto.
  - (* IAdd *)
    pose proof (do_extend_flag h s CTrue w HI Hf eq_refl) as H.
    destruct (do_extend current h s CTrue w) as [w1 [r| |]]; simpl in *; auto.
  - (* ISub *)
    destruct (get_struct w h) as [[old L]|] eqn:E1; auto. destruct (get_obj w s) as [so|]; auto. cbn [fst].
    destruct (get_struct_wf _ _ _ _ Hwf E1) as [Hold _].
    apply install_flag; auto.
    + apply srcs_valid_Keep. apply valid_filter. auto.
    + intros old0 L0 E a Ha. rewrite E1 in E. inversion E; subst. rewrite keeps_map_Keep in Ha. eapply filter_In'; eauto.
  - (* IMul *)
    destruct (get_struct w h) as [[old L]|] eqn:E1; auto. destruct (get_struct_wf _ _ _ _ Hwf E1) as [Hold _].
    destruct (n <=? 0)%Z; cbn [fst]; apply install_flag_nokeep; auto; [constructor| |apply keeps_map_Dup].
    apply srcs_valid_Dup. apply valid_repeat. auto.
  - (* Copy *)
    destruct (get_struct w h) as [[old L]|] eqn:E1; auto. destruct (get_struct_wf _ _ _ _ Hwf E1) as [Hold _].
    pose proof (do_copy_flag old w Hold) as F. destruct (do_copy old w) as [hn w1]. cbn [fst snd] in *. congruence.
  - (* CopyInto h h *)
    destruct (get_struct w h) as [[old L]|]; auto. destruct (get_struct w t) as [[told Lt]|]; auto.
    destruct (Nat.eqb h t); [auto|discriminate].
  - (* Pickle *)
    destruct (get_struct w h) as [[old L]|] eqn:E1; auto. destruct (get_struct_wf _ _ _ _ Hwf E1) as [Hold _].
    cbn [current v_setstate].
    destruct (alloc_lat_keeps w HI Hf) as [I1 [F1 [X1 [L1 O1]]]]. destruct (alloc_lat w) as [L' w1]. cbn [fst snd] in *.
    destruct hi.
    + pose proof (new_struct_flag L' (map Dup old) None w1 I1 F1) as H.
      destruct (new_struct L' (map Dup old) None w1) as [hn w2]. cbn [fst snd] in *. apply H.
      * apply srcs_valid_Dup. eapply valid_ext; eauto.
      * rewrite keeps_map_Dup. intros a [].
    + match goal with |- context [new_struct L' ?a ?b w1] => pose proof (new_struct_flag L' a b w1 I1 F1) as H;
        destruct (new_struct L' a b w1) as [hn w2] end. cbn [fst snd] in *. apply H.
      * apply srcs_valid_Dup. apply valid_nodup_first. eapply valid_ext; eauto.
      * rewrite keeps_map_Dup. intros a [].
  - (* DeepCopy *)
    destruct (get_struct w h) as [[old L]|] eqn:E1; auto. destruct (get_struct_wf _ _ _ _ Hwf E1) as [Hold _].
    destruct (alloc_lat_keeps w HI Hf) as [I1 [F1 [X1 [L1 O1]]]]. destruct (alloc_lat w) as [L' w1]. cbn [fst snd] in *.
    pose proof (new_struct_flag L' (map Dup old) None w1 I1 F1) as H.
    destruct (new_struct L' (map Dup old) None w1) as [hn w2]. cbn [fst snd] in *. apply H.
    + apply srcs_valid_Dup. eapply valid_ext; eauto.
    + rewrite keeps_map_Dup. intros a [].
  - (* Tolist *)
    destruct (get_struct w h) as [[old L]|]; auto.
  - (* SetCol *)
    destruct (get_struct w h) as [[old L]|]; auto.
    assert (G : forall c prs w, g_repoint (set_tags c prs w) = g_repoint w).
    { clear. induction prs as [|[a t] r]; simpl; intros; auto. rewrite IHr. auto. }
    destruct old as [|a0 old']; auto. destruct tags as [|t [|t2 ts]]; cbn [fst]; auto.
    + rewrite G. auto.
    + match goal with |- context [if ?c then _ else _] => destruct c end; cbn [fst]; auto. rewrite G. auto.
  - (* Sort *)
    destruct (get_struct w h) as [[old L]|]; auto. destruct key; cbn [fst].
    + apply install_flag_nokeep; auto. constructor.
    + destruct (Nat.leb (length old) 1); auto.
  - (* AssignUniqueLabels *)
    destruct (get_struct w h) as [[old L]|]; auto. cbn [fst].
    assert (G : forall c prs w, g_repoint (set_tags c prs w) = g_repoint w).
    { clear. induction prs as [|[a t] r]; simpl; intros; auto. rewrite IHr. auto. }
    rewrite G. auto.
  - (* GetLast *)
    destruct (get_struct w h) as [[old L]|]; auto. destruct (nth_error (rev old) 0); auto.
  - (* GetCol *) destruct (get_struct w h) as [[old L]|]; auto.
  - (* Composition *) destruct (get_struct w h) as [[old L]|]; auto.
Qed.

(* the lattice invariant for every history made of non-re-pointing operations *)
Fixpoint guarded (ops : list op) (w : world) : bool :=
  match ops with
  | [] => true
  | o :: t => negb (repointing o w) && guarded t (fst (step current o w))
  end.

Theorem lattice_inv_guarded : forall ops w, Inv w -> g_repoint w = false -> guarded ops w = true ->
  lat_ok (run current ops w).
Proof.
  unfold run. induction ops; simpl; intros w HI Hf Hg.
  - destruct HI as [_ [HL _]]. auto.
  - apply andb_true_iff in Hg. destruct Hg as [G1 G2]. apply negb_true_iff in G1.
    destruct (step_Inv a w HI) as [I1 _]. apply IHops; auto. apply guard_syntactic; auto.
Qed.

(* the syntactic guard is satisfiable by a non-trivial history: slicing, +, extend from a Structure,
   copying slice assignment, pickling, s += s, -, *, -= *)
Definition syntactic_example : list op :=
  [NewStruct; AddNewAtom 0 (lab 1); AddNewAtom 0 (lab 2); AddNewAtom 0 (lab 3); GetSlice 0 (mkSlice (Some 1%Z) None None);
   Add 0 1; Extend 2 0 CNone; SetSlice 2 (mkSlice (Some 0%Z) (Some 2%Z) None) 1 true; Pickle 2 true; IAdd 0 0;
   Sub 0 1; Mul 0 2%Z; ISub 0 1; GetIdx 2 [LInt 0%Z; LInt (-1)%Z] false; DelInt 2 0%Z; Reverse 2].

Example syntactic_example_ok :
  guarded syntactic_example empty_world = true /\ length (objs (run current syntactic_example empty_world)) = 7.
Proof. vm_compute. auto. Qed.
