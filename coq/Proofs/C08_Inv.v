(* C08 - every primitive, hence every operation and every finite operation sequence, preserves
   Inv = well-formedness /\ (guard flag clear -> every atom refers to its container's lattice)
                          /\ (duplicate flag clear -> no atom in two slots of a Structure) *)
From Coq Require Import List ZArith Bool Arith Lia Permutation.
From DS Require Import Model.C08_StructHeap Proofs.C08_Lists Proofs.C08_Prims.
Import ListNotations.
Open Scope nat_scope.

(* ---------------------------------------------------------------- object table *)

Lemma nth_error_upd_obj : forall A h (o : A) l h2,
  nth_error (upd_nth h (fun _ => o) l) h2 =
  if Nat.eqb h h2 then (match nth_error l h2 with Some _ => Some o | None => None end) else nth_error l h2.
Proof.
  intros. destruct (Nat.eqb h h2) eqn:E.
  - apply Nat.eqb_eq in E. subst. destruct (nth_error l h2) eqn:E2.
    + erewrite nth_error_upd_nth_eq; eauto.
    + apply nth_error_None. rewrite upd_nth_length. apply nth_error_None. auto.
  - apply Nat.eqb_neq in E. apply nth_error_upd_nth_neq. auto.
Qed.

Lemma nth_error_set_obj : forall h o w h2,
  nth_error (objs (set_obj h o w)) h2 =
  if Nat.eqb h h2 then (match nth_error (objs w) h2 with Some _ => Some o | None => None end) else nth_error (objs w) h2.
Proof.
  intros. unfold set_obj. simpl. destruct (Nat.eqb h h2) eqn:E.
  - apply Nat.eqb_eq in E. subst. destruct (nth_error (objs w) h2) eqn:E2.
    + erewrite nth_error_upd_nth_eq; eauto.
    + apply nth_error_None. rewrite upd_nth_length. apply nth_error_None. auto.
  - apply Nat.eqb_neq in E. apply nth_error_upd_nth_neq. auto.
Qed.

Lemma nth_error_snoc : forall A (l : list A) o h2,
  nth_error (l ++ [o]) h2 = if Nat.eqb h2 (length l) then Some o else nth_error l h2.
Proof.
  intros. destruct (Nat.eqb h2 (length l)) eqn:E.
  - apply Nat.eqb_eq in E. subst. apply nth_error_app_last.
  - apply Nat.eqb_neq in E. destruct (Nat.lt_ge_cases h2 (length l)).
    + apply nth_error_app1. auto.
    + assert (nth_error l h2 = None) by (apply nth_error_None; auto). rewrite H0.
      apply nth_error_None. rewrite app_length. simpl. lia.
Qed.

Lemma nth_error_push_obj : forall o w h2,
  nth_error (objs (snd (push_obj o w))) h2 =
  if Nat.eqb h2 (length (objs w)) then Some o else nth_error (objs w) h2.
Proof.
  intros. unfold push_obj. simpl. destruct (Nat.eqb h2 (length (objs w))) eqn:E.
  - apply Nat.eqb_eq in E. subst. apply nth_error_app_last.
  - apply Nat.eqb_neq in E. destruct (Nat.lt_ge_cases h2 (length (objs w))).
    + apply nth_error_app1. auto.
    + assert (nth_error (objs w) h2 = None) by (apply nth_error_None; auto). rewrite H0.
      apply nth_error_None. rewrite app_length. simpl. lia.
Qed.

(* ---------------------------------------------------------------- edits *)

Lemma apply_edit_In : forall e old ids x, In x (apply_edit e old ids) -> In x old \/ In x ids.
Proof.
  destruct e; simpl; intros.
  - apply in_app_or in H. destruct H as [H|H]; [left; eapply firstn_In'; eauto|].
    apply in_app_or in H. destruct H as [H|H]; [right; auto | left; eapply skipn_In'; eauto].
  - apply assign_all_In in H. destruct H; auto. right.
    apply in_map_iff in H. destruct H as [[i a] [H1 H2]]. simpl in H1. subst. eapply in_combine_r; eauto.
  - left. eapply pick_In; eauto.
  - auto.
Qed.

Lemma map_snd_combine : forall A B (l1 : list A) (l2 : list B), map snd (combine l1 l2) = firstn (length l1) l2.
Proof. induction l1; destruct l2; simpl; auto. f_equal. auto. Qed.

Lemma NoDup_app_firstn : forall n (A C : list nat), NoDup (A ++ C) -> NoDup (firstn n A ++ C).
Proof.
  intros. rewrite <- (firstn_skipn n A) in H. apply NoDup_app_intro.
  - eapply NoDup_app_l. eapply NoDup_app_l. eauto.
  - eapply NoDup_app_r; eauto.
  - intros x Hx. eapply NoDup_app_disj; eauto. apply in_or_app. auto.
Qed.

Lemma apply_edit_NoDup : forall e old ids srcs n,
  NoDup old -> edit_dup_flag e old srcs = false ->
  (forall x, In x old -> x < n) ->
  (forall x, In x ids -> In x (keeps srcs) \/ n <= x) ->
  (NoDup (keeps srcs) -> NoDup ids) ->
  NoDup (apply_edit e old ids).
Proof.
  intros e old ids srcs n Hold Hflag Hv Horig Hnd.
  assert (Hgen : forall U, NoDup (keeps srcs ++ U) -> (forall x, In x U -> x < n) ->
                   NoDup ids /\ forall x, In x ids -> ~ In x U).
  { intros U HU HvU. split.
    - apply Hnd. eapply NoDup_app_l; eauto.
    - intros x Hx HxU. destruct (Horig x Hx) as [Hk|Hk].
      + eapply NoDup_app_disj; eauto.
      + apply HvU in HxU. lia. }
  destruct e; simpl in *.
  - apply negb_false_iff, nodupb_NoDup in Hflag.
    destruct (Hgen (firstn lo old ++ skipn hi old) Hflag) as [H1 H2].
    { intros x Hx. apply Hv. apply in_app_or in Hx. destruct Hx; [eapply firstn_In'|eapply skipn_In']; eauto. }
    apply NoDup_splice; auto. eapply NoDup_app_r; eauto.
  - apply negb_false_iff, nodupb_NoDup in Hflag.
    destruct (Hgen old Hflag Hv) as [H1 H2].
    apply assign_all_NoDup. rewrite map_snd_combine. apply NoDup_app_firstn.
    apply NoDup_app_intro; auto.
  - apply negb_false_iff, nodupb_NoDup in Hflag. apply pick_NoDup; auto.
  - auto.
Qed.

(* ---------------------------------------------------------------- primitives preserve Inv *)

Lemma alloc_lat_Inv : forall w, Inv w -> Inv (snd (alloc_lat w)) /\ ext w (snd (alloc_lat w)) /\ fst (alloc_lat w) < nlat (snd (alloc_lat w)).
Proof.
  intros w [[W1 [W2 W3]] [HL HN]]. unfold alloc_lat. simpl. split; [|split].
  - split; [|split]; auto. split; [|split]; simpl; auto.
    + intros. apply W2 in H. lia.
    + intros. eapply W3 in H; eauto.
  - constructor; simpl; auto.
  - lia.
Qed.

Lemma flag_dup_ext : forall b w, ext w (flag_dup b w).
Proof. intros. constructor; simpl; auto. intros H. rewrite H. auto. Qed.

Lemma install_Inv : forall h srcs e w, Inv w -> srcs_valid w srcs ->
  Inv (install h srcs e w) /\ ext w (install h srcs e w).
Proof.
  intros h srcs e w HI Hv. unfold install, get_obj.
  destruct (nth_error (objs w) h) as [[old L|]|] eqn:Eh; try (split; [auto|apply ext_refl]).
  destruct (realize (Some h) L srcs w) as [ids w1] eqn:Er.
  pose proof (realize_spec _ _ _ _ _ _ Er Hv) as R.
  destruct HI as [Hwf [HL HN]]. pose proof Hwf as [W1 [W2 W3]].
  assert (HLn : L < nlat w) by eauto.
  pose proof (realized_wf _ _ _ _ _ _ R Hwf HLn) as Hwf1. pose proof Hwf1 as [V1 [V2 V3]].
  pose proof (realized_ext _ _ _ _ _ _ R) as Hext.
  assert (Hold : valid w old) by (apply (W1 _ _ Eh)).
  assert (Hobjs1 : nth_error (objs w1) h = Some (OStruct old L)) by (rewrite (rz_objs _ _ _ _ _ _ R); auto).
  set (new := apply_edit e old ids).
  assert (Hnew : forall x, In x new -> In x old \/ In x ids) by (apply apply_edit_In).
  split.
  - split; [|split].
    + (* wf *) split; [|split].
      * intros h2 o Ho. rewrite nth_error_set_obj in Ho. simpl in Ho. destruct (Nat.eqb h h2) eqn:E.
        -- apply Nat.eqb_eq in E. subst. rewrite Hobjs1 in Ho. inversion Ho; subst. simpl.
           intros x Hx. unfold valid; simpl. destruct (Hnew x Hx) as [H|H].
           ++ apply Hold in H. destruct Hext. lia.
           ++ apply (rz_bound _ _ _ _ _ _ R). auto.
        -- apply (V1 _ _ Ho).
      * intros h2 its l Ho. rewrite nth_error_set_obj in Ho. simpl in Ho. destruct (Nat.eqb h h2) eqn:E.
        -- apply Nat.eqb_eq in E. subst. rewrite Hobjs1 in Ho. inversion Ho; subst. simpl. rewrite (rz_nlat _ _ _ _ _ _ R). auto.
        -- apply (V2 _ _ _ Ho).
      * apply V3.
    + (* lattice invariant under the guard *)
      simpl. intros Hf h2 its l _ Ho a Ha.
      assert (Hok1 : lat_ok w1).
      { eapply realized_lat_ok; eauto.
        - apply HL. destruct (rz_flag_false _ _ _ _ _ _ R Hf). auto.
        - intros h' its' l' E Ho'. inversion E; subst. congruence. }
      rewrite nth_error_set_obj in Ho. simpl in Ho. unfold lat_of. simpl. fold (lat_of w1 a).
      destruct (Nat.eqb h h2) eqn:E.
      * apply Nat.eqb_eq in E. subst. rewrite Hobjs1 in Ho. inversion Ho; subst.
        destruct (Hnew a Ha) as [H|H].
        -- eapply Hok1; eauto. discriminate.
        -- apply (rz_lat_ids _ _ _ _ _ _ R). auto.
      * eapply Hok1; eauto. discriminate.
    + (* no atom in two slots under the duplicate flag *)
      simpl. intros Hf. apply orb_false_iff in Hf. destruct Hf as [Hf1 Hf2].
      rewrite (rz_dup _ _ _ _ _ _ R) in Hf1. specialize (HN Hf1).
      intros h2 its l Ho. rewrite nth_error_set_obj in Ho. simpl in Ho. destruct (Nat.eqb h h2) eqn:E.
      * apply Nat.eqb_eq in E. subst. rewrite Hobjs1 in Ho. inversion Ho; subst.
        eapply apply_edit_NoDup with (n := length (heap w)); eauto.
        -- apply (rz_origin _ _ _ _ _ _ R).
        -- apply (rz_nodup _ _ _ _ _ _ R).
      * rewrite (rz_objs _ _ _ _ _ _ R) in Ho. eauto.
  - eapply ext_trans; [eauto|]. constructor; simpl; auto.
    + rewrite upd_nth_length. auto.
    + intros H. rewrite H. auto.
Qed.

Lemma new_struct_Inv : forall L srcs sel w, Inv w -> L < nlat w -> srcs_valid w srcs ->
  Inv (snd (new_struct L srcs sel w)) /\ ext w (snd (new_struct L srcs sel w)) /\
  fst (new_struct L srcs sel w) = length (objs w).
Proof.
  intros L srcs sel w HI HLn Hv. unfold new_struct.
  destruct (realize None L srcs w) as [ids w1] eqn:Er.
  pose proof (realize_spec _ _ _ _ _ _ Er Hv) as R.
  destruct HI as [Hwf [HL HN]].
  pose proof (realized_wf _ _ _ _ _ _ R Hwf HLn) as Hwf1. pose proof Hwf1 as [V1 [V2 V3]].
  pose proof (realized_ext _ _ _ _ _ _ R) as Hext.
  set (its := match sel with None => ids | Some idxs => pick ids idxs end).
  assert (Hits : forall x, In x its -> In x ids).
  { unfold its. destruct sel; auto. intros. eapply pick_In; eauto. }
  set (fl := negb (nodupb (keeps srcs)) || match sel with None => false | Some idxs => negb (nodupb idxs) end).
  assert (Hlen : length (objs w1) = length (objs w)) by (rewrite (rz_objs _ _ _ _ _ _ R); auto).
  split; [|split].
  - split; [|split].
    + split; [|split].
      * intros h2 o Ho. simpl in Ho. rewrite nth_error_snoc in Ho. destruct (Nat.eqb h2 (length (objs w1))).
        -- inversion Ho; subst. simpl. intros x Hx. unfold valid. simpl. apply (rz_bound _ _ _ _ _ _ R). auto.
        -- apply (V1 _ _ Ho).
      * intros h2 its' l Ho. simpl in Ho. rewrite nth_error_snoc in Ho. destruct (Nat.eqb h2 (length (objs w1))).
        -- inversion Ho; subst. simpl. rewrite (rz_nlat _ _ _ _ _ _ R). auto.
        -- apply (V2 _ _ _ Ho).
      * apply V3.
    + simpl. intros Hf h2 its' l _ Ho a Ha.
      assert (Hok1 : lat_ok w1).
      { eapply realized_lat_ok; eauto.
        - apply HL. destruct (rz_flag_false _ _ _ _ _ _ R Hf). auto.
        - intros; discriminate. }
      simpl in Ho. rewrite nth_error_snoc in Ho. unfold lat_of. simpl. fold (lat_of w1 a).
      destruct (Nat.eqb h2 (length (objs w1))).
      * inversion Ho; subst. apply (rz_lat_ids _ _ _ _ _ _ R). auto.
      * eapply Hok1; eauto. discriminate.
    + simpl. intros Hf. apply orb_false_iff in Hf. destruct Hf as [Hf1 Hf2].
      rewrite (rz_dup _ _ _ _ _ _ R) in Hf1. specialize (HN Hf1).
      intros h2 its' l Ho. simpl in Ho. rewrite nth_error_snoc in Ho. destruct (Nat.eqb h2 (length (objs w1))).
      * inversion Ho; subst. unfold fl in Hf2. apply orb_false_iff in Hf2. destruct Hf2 as [F1 F2].
        apply negb_false_iff, nodupb_NoDup in F1. pose proof (rz_nodup _ _ _ _ _ _ R F1) as Hnd.
        unfold its. destruct sel; auto. apply negb_false_iff, nodupb_NoDup in F2. apply pick_NoDup; auto.
      * rewrite (rz_objs _ _ _ _ _ _ R) in Ho. eauto.
  - eapply ext_trans; [eauto|]. constructor; simpl; auto.
    + rewrite app_length. lia.
    + intros H. rewrite H. auto.
  - simpl. auto.
Qed.

Lemma relat_Inv : forall h L w, Inv w -> L < nlat w -> Inv (relat h L w) /\ ext w (relat h L w).
Proof.
  intros h L w HI HLn. unfold relat, get_obj.
  destruct (nth_error (objs w) h) as [[its L0|]|] eqn:Eh; try (split; [auto|apply ext_refl]).
  destruct HI as [Hwf [HL HN]]. pose proof Hwf as [W1 [W2 W3]].
  assert (Hv : srcs_valid w (map Keep its)). { apply srcs_valid_Keep. apply (W1 _ _ Eh). }
  pose proof (realize_keep_fold its (Some h) L w) as Er.
  set (w1 := fold_left (fun w' a => repoint (Some h) L a w') its w) in *.
  pose proof (realize_spec _ _ _ _ _ _ Er Hv) as R.
  pose proof (realized_wf _ _ _ _ _ _ R Hwf HLn) as Hwf1. pose proof Hwf1 as [V1 [V2 V3]].
  pose proof (realized_ext _ _ _ _ _ _ R) as Hext.
  assert (Hobjs1 : nth_error (objs w1) h = Some (OStruct its L0)) by (rewrite (rz_objs _ _ _ _ _ _ R); auto).
  split.
  - split; [|split].
    + split; [|split]; simpl.
      * intros h2 o Ho. unfold set_obj in Ho; simpl in Ho; rewrite nth_error_upd_obj in Ho. destruct (Nat.eqb h h2) eqn:E.
        -- apply Nat.eqb_eq in E. subst. rewrite Hobjs1 in Ho. inversion Ho; subst. simpl. apply (V1 _ _ Hobjs1).
        -- apply (V1 _ _ Ho).
      * intros h2 its' l Ho. unfold set_obj in Ho; simpl in Ho; rewrite nth_error_upd_obj in Ho. destruct (Nat.eqb h h2) eqn:E.
        -- apply Nat.eqb_eq in E. subst. rewrite Hobjs1 in Ho. inversion Ho; subst. simpl. rewrite (rz_nlat _ _ _ _ _ _ R). auto.
        -- apply (V2 _ _ _ Ho).
      * apply V3.
    + simpl. intros Hf h2 its' l _ Ho a Ha.
      assert (Hex : lat_ok_except (Some h) w1).
      { eapply realized_lat_ok_except; eauto. apply HL. destruct (rz_flag_false _ _ _ _ _ _ R Hf). auto. }
      unfold set_obj in Ho; simpl in Ho; rewrite nth_error_upd_obj in Ho. unfold lat_of. simpl. fold (lat_of w1 a).
      destruct (Nat.eqb h h2) eqn:E.
      * apply Nat.eqb_eq in E. subst. rewrite Hobjs1 in Ho. inversion Ho; subst.
        apply (rz_lat_ids _ _ _ _ _ _ R). auto.
      * apply Nat.eqb_neq in E. eapply Hex; eauto. congruence.
    + simpl. intros Hf. rewrite (rz_dup _ _ _ _ _ _ R) in Hf. specialize (HN Hf).
      intros h2 its' l Ho. unfold set_obj in Ho; simpl in Ho; rewrite nth_error_upd_obj in Ho. destruct (Nat.eqb h h2) eqn:E.
      * apply Nat.eqb_eq in E. subst. rewrite Hobjs1 in Ho. inversion Ho; subst. eauto.
      * rewrite (rz_objs _ _ _ _ _ _ R) in Ho. eauto.
  - eapply ext_trans; [eauto|]. constructor; simpl; auto. rewrite upd_nth_length. auto.
Qed.

Lemma realize_None_Inv : forall L srcs w, Inv w -> L < nlat w -> srcs_valid w srcs ->
  Inv (snd (realize None L srcs w)) /\ ext w (snd (realize None L srcs w)).
Proof.
  intros L srcs w [Hwf [HL HN]] HLn Hv. destruct (realize None L srcs w) as [ids w1] eqn:Er. simpl.
  pose proof (realize_spec _ _ _ _ _ _ Er Hv) as R. split.
  - split; [|split].
    + eapply realized_wf; eauto.
    + intros Hf. eapply realized_lat_ok; eauto.
      * apply HL. destruct (rz_flag_false _ _ _ _ _ _ R Hf). auto.
      * intros; discriminate.
    + intros Hf. rewrite (rz_dup _ _ _ _ _ _ R) in Hf. specialize (HN Hf).
      intros h its l Ho. rewrite (rz_objs _ _ _ _ _ _ R) in Ho. eauto.
  - eapply realized_ext; eauto.
Qed.

Lemma push_list_Inv : forall its w, Inv w -> valid w its ->
  Inv (snd (push_obj (OList its) w)) /\ ext w (snd (push_obj (OList its) w)).
Proof.
  intros its w [[W1 [W2 W3]] [HL HN]] Hv. split.
  - split; [|split].
    + split; [|split].
      * intros h o Ho. simpl in Ho. rewrite nth_error_snoc in Ho. destruct (Nat.eqb h (length (objs w))).
        -- inversion Ho; subst. simpl. auto.
        -- apply (W1 _ _ Ho).
      * intros h its' l Ho. simpl in Ho. rewrite nth_error_snoc in Ho. destruct (Nat.eqb h (length (objs w))); [discriminate|].
        apply (W2 _ _ _ Ho).
      * apply W3.
    + simpl. intros Hf h its' l _ Ho a Ha. simpl in Ho. rewrite nth_error_snoc in Ho.
      destruct (Nat.eqb h (length (objs w))); [discriminate|]. eapply (HL Hf); eauto. discriminate.
    + simpl. intros Hf h its' l Ho. simpl in Ho. rewrite nth_error_snoc in Ho.
      destruct (Nat.eqb h (length (objs w))); [discriminate|]. eapply (HN Hf); eauto.
  - constructor; simpl; auto. rewrite app_length. lia.
Qed.

Lemma set_cell_tag_Inv : forall a (t : pay -> pay) w, Inv w -> Inv (set_cell_tag a t w) /\ ext w (set_cell_tag a t w).
Proof.
  intros a t w [[W1 [W2 W3]] [HL HN]].
  assert (Hlat : forall b, lat_of (set_cell_tag a t w) b = lat_of w b).
  { intros. unfold lat_of, set_cell_tag. simpl. destruct (Nat.eq_dec a b).
    - subst. destruct (nth_error (heap w) b) eqn:E.
      + erewrite nth_error_upd_nth_eq; eauto. reflexivity.
      + assert (nth_error (upd_nth b (fun c => mkCell (t (c_tag c)) (c_lat c)) (heap w)) b = None).
        { apply nth_error_None. rewrite upd_nth_length. apply nth_error_None. auto. } rewrite H. auto.
    - rewrite nth_error_upd_nth_neq; auto. }
  split.
  - split; [|split].
    + split; [|split]; simpl; auto.
      * intros h o Ho x Hx. unfold valid. simpl. rewrite upd_nth_length. eapply W1; eauto.
      * intros b c l Hb Hl. apply nth_error_upd_nth_inv in Hb. destruct Hb as [[E [x [H1 H2]]]|[E H1]].
        -- subst. simpl in Hl. eauto.
        -- eauto.
    + simpl. intros Hf h its l _ Ho x Hx. rewrite Hlat. eapply (HL Hf); eauto. discriminate.
    + simpl. auto.
  - constructor; simpl; auto. rewrite upd_nth_length. auto.
Qed.

Lemma set_tags_Inv : forall c prs w, Inv w -> Inv (set_tags c prs w) /\ ext w (set_tags c prs w).
Proof.
  induction prs as [|[a t] r]; simpl; intros.
  - split; auto. apply ext_refl.
  - destruct (set_cell_tag_Inv a (set_col c t) w H) as [H1 H2]. destruct (IHr _ H1) as [H3 H4].
    split; auto. eapply ext_trans; eauto.
Qed.

Lemma alloc_free_Inv : forall tags ids w, Inv w -> valid w ids ->
  let r := fold_left (fun acc t => let '(a, w') := alloc_cell (mkCell t None) (snd acc) in (fst acc ++ [a], w')) tags (ids, w) in
  Inv (snd r) /\ ext w (snd r) /\ valid (snd r) (fst r).
Proof.
  induction tags; simpl; intros.
  - split; auto. split; auto. apply ext_refl.
  - set (w1 := mkW (heap w ++ [mkCell a None]) (nlat w) (objs w) (g_repoint w) (g_dup w)).
    assert (E1 : ext w w1). { constructor; simpl; auto. rewrite app_length. lia. }
    assert (I1 : Inv w1).
    { destruct H as [[W1 [W2 W3]] [HL HN]]. split; [|split].
      - split; [|split]; simpl; auto.
        + intros h o Ho. eapply valid_ext; eauto.
        + intros b c l Hb Hl. destruct (Nat.lt_ge_cases b (length (heap w))).
          * rewrite nth_error_app1 in Hb; eauto.
          * destruct (Nat.eq_dec b (length (heap w))).
            -- subst. rewrite nth_error_app_last in Hb. inversion Hb; subst. discriminate.
            -- assert (nth_error (heap w ++ [mkCell a None]) b = None).
               { apply nth_error_None. rewrite app_length. simpl. lia. } congruence.
      - simpl. intros Hf h its l _ Ho x Hx. pose proof (HL Hf h its l) as P.
        assert (lat_of w x = Some l) by (eapply P; eauto; discriminate).
        pose proof (lat_of_lt _ _ _ H). unfold lat_of in *. simpl. rewrite nth_error_app1; auto.
      - simpl. auto. }
    assert (V1 : valid w1 (ids ++ [length (heap w)])).
    { intros x Hx. apply in_app_or in Hx. unfold w1; simpl. rewrite app_length. simpl. destruct Hx as [Hx|[Hx|[]]].
      - apply H0 in Hx. lia.
      - subst. lia. }
    destruct (IHtags _ _ I1 V1) as [A [B C]]. split; [|split]; auto. eapply ext_trans; eauto.
Qed.
