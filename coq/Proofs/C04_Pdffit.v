(* C04 - pdffit: reading the written text yields canon (all numbers at the printed precision,
   title/spcgr stripped, elements capitalised); canon idempotent; no drift, including the
   lattice-dependent view of isotropic atoms over abstract geometry. *)
From Coq Require Import List Bool Arith NArith ZArith Lia.
From Coq Require Import Ascii.
From DS Require Import Base.C04_Text Base.C04_Decimal Model.C04_Fmt Gen.C04_FmtSpecs Model.C04_Xyz Model.C04_Pdffit.
From DS Require Import Proofs.C04_Fmt Proofs.C04_GenIdem Proofs.C04_NoDrift Proofs.C04_Xyz Proofs.C04_Lines.
Import ListNotations.

Local Opaque fix_body int_body lpad rpad parse_float parse_int strip lstrip rstrip print_gen.

Definition kwhead_ok (l : str) : bool := no_ws (kw_of l) && nonempty (kw_of l) && starts_ws (pad_of l).

Lemma first_word spec a line lit f' : spec = FLit lit :: f' -> kwhead_ok lit = true -> render spec a = Some line ->
  exists rest, split_ws line = kw_of lit :: rest.
Proof.
  intros -> H E. cbn [render] in E. destruct (render f' a) as [r'|]; [|discriminate]. cbn in E. inversion E; subst line.
  unfold kwhead_ok in H. apply andb_true_iff in H. destruct H as [H H3]. apply andb_true_iff in H. destruct H as [H1 H2].
  replace (lit ++ r') with (kw_of lit ++ (pad_of lit ++ r')) by (rewrite app_assoc, <- kw_pad; reflexivity).
  assert (kw_of lit <> []) as Hn by (destruct (kw_of lit); discriminate).
  assert (starts_ws (pad_of lit ++ r') = true) as Hs by (destruct (pad_of lit); [discriminate|exact H3]).
  destruct (kw_line (kw_of lit) (pad_of lit ++ r') H1 Hn (or_intror Hs)) as [K _]. eexists. exact K.
Qed.

(* a rendered numeric record: the line exists, its tokens after comma replacement are known, no CR/LF inside *)
Ltac record spec args line E T N1 N2 :=
  destruct (render spec args) as [line|] eqn:E; [|exfalso; cbn in E; discriminate];
  pose proof (render_split_c2s spec args line eq_refl eq_refl E) as T; cbn in T; injection T as T; symmetry in T;
  pose proof (render_no_char nl spec args line eq_refl eq_refl eq_refl eq_refl E) as N1;
  pose proof (render_no_char cr spec args line eq_refl eq_refl eq_refl eq_refl E) as N2.

Definition set_title h v := PHdr v (h_scale h) (h_sharp h) (h_spcgr h) (h_sphere h) (h_stepcut h) (h_cell h) (h_dcell h) (h_ncell h).
Definition set_scale h v := PHdr (h_title h) v (h_sharp h) (h_spcgr h) (h_sphere h) (h_stepcut h) (h_cell h) (h_dcell h) (h_ncell h).
Definition set_sharp h v := PHdr (h_title h) (h_scale h) v (h_spcgr h) (h_sphere h) (h_stepcut h) (h_cell h) (h_dcell h) (h_ncell h).
Definition set_spcgr h v := PHdr (h_title h) (h_scale h) (h_sharp h) v (h_sphere h) (h_stepcut h) (h_cell h) (h_dcell h) (h_ncell h).
Definition set_sphere h v := PHdr (h_title h) (h_scale h) (h_sharp h) (h_spcgr h) v (h_stepcut h) (h_cell h) (h_dcell h) (h_ncell h).
Definition set_stepcut h v := PHdr (h_title h) (h_scale h) (h_sharp h) (h_spcgr h) (h_sphere h) v (h_cell h) (h_dcell h) (h_ncell h).
Definition set_cell h v := PHdr (h_title h) (h_scale h) (h_sharp h) (h_spcgr h) (h_sphere h) (h_stepcut h) (Some v) (h_dcell h) (h_ncell h).
Definition set_dcell h v := PHdr (h_title h) (h_scale h) (h_sharp h) (h_spcgr h) (h_sphere h) (h_stepcut h) (h_cell h) v (h_ncell h).
Definition set_ncell h v := PHdr (h_title h) (h_scale h) (h_sharp h) (h_spcgr h) (h_sphere h) (h_stepcut h) (h_cell h) (h_dcell h) v.

Lemma hstep_title h ttl : hstep h (strip (pdffit_w_title ++ ttl)) = HCont (set_title h (strip ttl)).
Proof.
  destruct (kw_record_stripped pdffit_w_title ttl eq_refl) as [K1 K2].
  change (List.length (kw_of pdffit_w_title)) with pdffit_r_title_skip in K2.
  unfold hstep. rewrite K1. cbn. rewrite <- K2. reflexivity.
Qed.

Lemma hstep_format h : hstep h pdffit_w_format = HCont h.
Proof. Local Transparent strip lstrip rstrip. vm_compute. reflexivity. Qed.
Local Opaque strip lstrip rstrip.

Lemma hstep_spcgr h sg : hstep h (pdffit_w_spcgr ++ sg) = HCont (set_spcgr h (strip sg)).
Proof.
  destruct (kw_record pdffit_w_spcgr sg eq_refl) as [K1 K2].
  change (List.length (kw_of pdffit_w_spcgr)) with 5%nat in K2.
  unfold hstep. rewrite K1. cbn. rewrite <- K2. reflexivity.
Qed.

Lemma hstep_scale v : exists line, render pdffit_w_scale [ANum v] = Some line /\
  (forall h, hstep h line = HCont (set_scale h (dq (fprec pdffit_w_scale 0) v))) /\ has_char nl line = false /\ has_char cr line = false /\ line <> [].
Proof.
  record pdffit_w_scale [ANum v] line E T N1 N2. exists line. split; [first [reflexivity | exact E]|].
  rewrite (render_no_comma pdffit_w_scale [ANum v] line eq_refl eq_refl E) in T.
  split; [|split; [exact N1|split; [exact N2|intros ->; discriminate]]].
  intros h. unfold hstep. rewrite T. cbn. rewrite fix_body_parse. reflexivity.
Qed.

Ltac line_props N1 N2 := split; [exact N1|split; [exact N2|intros ->; discriminate]].

Lemma hstep_sharp d2 d1 sr rc : exists line, render pdffit_w_sharp [ANum d2; ANum d1; ANum sr; ANum rc] = Some line /\
  (forall h, hstep h line = HCont (set_sharp h (dq (fprec pdffit_w_sharp 0) d2, dq (fprec pdffit_w_sharp 1) d1,
                                     dq (fprec pdffit_w_sharp 2) sr, dq (fprec pdffit_w_sharp 3) rc))) /\
  has_char nl line = false /\ has_char cr line = false /\ line <> [].
Proof.
  record pdffit_w_sharp [ANum d2; ANum d1; ANum sr; ANum rc] line E T N1 N2. exists line. split; [first [reflexivity | exact E]|].
  destruct (first_word pdffit_w_sharp _ line _ _ eq_refl eq_refl E) as [rest W].
  split; [|line_props N1 N2].
  intros h. unfold hstep. rewrite W, T. cbn. rewrite !fix_body_parse. reflexivity.
Qed.

Lemma hstep_cell c : exists line, render pdffit_w_cell (args6 c) = Some line /\
  (forall h, hstep h line = HCont (set_cell h (q6 pdffit_w_cell c))) /\ has_char nl line = false /\ has_char cr line = false /\ line <> [].
Proof.
  destruct c as [[[a b] c] [[al be] ga]].
  record pdffit_w_cell (args6 ((a, b, c), (al, be, ga))) line E T N1 N2. exists line. split; [first [reflexivity | exact E]|].
  destruct (first_word pdffit_w_cell _ line _ _ eq_refl eq_refl E) as [rest W].
  split; [|line_props N1 N2].
  intros h. unfold hstep. rewrite W, T. cbn. rewrite !fix_body_parse. reflexivity.
Qed.

Lemma hstep_dcell c : exists line, render pdffit_w_dcell (args6 c) = Some line /\
  (forall h, hstep h line = HCont (set_dcell h (q6 pdffit_w_dcell c))) /\ has_char nl line = false /\ has_char cr line = false /\ line <> [].
Proof.
  destruct c as [[[a b] c] [[al be] ga]].
  record pdffit_w_dcell (args6 ((a, b, c), (al, be, ga))) line E T N1 N2. exists line. split; [first [reflexivity | exact E]|].
  destruct (first_word pdffit_w_dcell _ line _ _ eq_refl eq_refl E) as [rest W].
  split; [|line_props N1 N2].
  intros h. unfold hstep. rewrite W, T. cbn. rewrite !fix_body_parse. reflexivity.
Qed.

Lemma hstep_ncell n : exists line, render pdffit_w_ncell [AInt 1; AInt 1; AInt 1; AInt n] = Some line /\
  (forall h, hstep h line = HCont (set_ncell h [1%Z; 1%Z; 1%Z; n])) /\ has_char nl line = false /\ has_char cr line = false /\ line <> [].
Proof.
  record pdffit_w_ncell [AInt 1; AInt 1; AInt 1; AInt n] line E T N1 N2. exists line. split; [first [reflexivity | exact E]|].
  destruct (first_word pdffit_w_ncell _ line _ _ eq_refl eq_refl E) as [rest W].
  split; [|line_props N1 N2].
  intros h. unfold hstep. rewrite W, T. cbn. rewrite !int_body_parse. reflexivity.
Qed.

Lemma hstep_atoms h c : h_cell h = Some c -> hstep h pdffit_w_atoms = HBreak h.
Proof. intros H. unfold hstep. cbn. rewrite H. reflexivity. Qed.

Lemma hstep_shape_gen spec (setf : phdr -> dec -> phdr) v :
  (spec = pdffit_w_sphere /\ setf = set_sphere) \/ (spec = pdffit_w_stepcut /\ setf = set_stepcut) ->
  gen_ok (gprec spec 0) v = true ->
  exists line, render spec [ANum v] = Some line /\ (forall h, hstep h line = HCont (setf h (gqd (gprec spec 0) v))) /\
               has_char nl line = false /\ has_char cr line = false /\ line <> [].
Proof.
  intros Hs G. destruct (gen_ok_print _ _ G) as [b [Pb [_ Fb]]].
  destruct Hs as [[-> ->]|[-> ->]].
  - cbn in Pb, Fb |- *.
    destruct (render pdffit_w_sphere [ANum v]) as [line|] eqn:E; [|exfalso; cbn in E; rewrite Pb in E; discriminate].
    pose proof (render_split_c2s pdffit_w_sphere [ANum v] line eq_refl eq_refl E) as T. cbn in T. rewrite Pb in T. cbn in T. injection T as T. symmetry in T.
    pose proof (render_no_char nl pdffit_w_sphere [ANum v] line eq_refl eq_refl eq_refl eq_refl E) as N1.
    pose proof (render_no_char cr pdffit_w_sphere [ANum v] line eq_refl eq_refl eq_refl eq_refl E) as N2.
    destruct (first_word pdffit_w_sphere _ line _ _ eq_refl eq_refl E) as [rest W].
    exists line. split; [exact E|]. split; [|split; [exact N1|split; [exact N2|]]].
    + intros h. unfold hstep. rewrite W, T. cbn. rewrite Fb. reflexivity.
    + intros ->. cbn in E. rewrite Pb in E. discriminate.
  - cbn in Pb, Fb |- *.
    destruct (render pdffit_w_stepcut [ANum v]) as [line|] eqn:E; [|exfalso; cbn in E; rewrite Pb in E; discriminate].
    pose proof (render_split_c2s pdffit_w_stepcut [ANum v] line eq_refl eq_refl E) as T. cbn in T. rewrite Pb in T. cbn in T. injection T as T. symmetry in T.
    pose proof (render_no_char nl pdffit_w_stepcut [ANum v] line eq_refl eq_refl eq_refl eq_refl E) as N1.
    pose proof (render_no_char cr pdffit_w_stepcut [ANum v] line eq_refl eq_refl eq_refl eq_refl E) as N2.
    destruct (first_word pdffit_w_stepcut _ line _ _ eq_refl eq_refl E) as [rest W].
    exists line. split; [exact E|]. split; [|split; [exact N1|split; [exact N2|]]].
    + intros h. unfold hstep. rewrite W, T. cbn. rewrite Fb. reflexivity.
    + intros ->. cbn in E. rewrite Pb in E. discriminate.
Qed.

Definition good_line (l : str) : Prop := has_char nl l = false /\ has_char cr l = false /\ l <> [] /\ split_ws l <> [].

Ltac record_plain spec args line E T N1 N2 Hargs :=
  destruct (render spec args) as [line|] eqn:E; [|exfalso; cbn in E; discriminate];
  pose proof (render_split spec args line eq_refl Hargs E) as T; cbn in T; injection T as T; symmetry in T;
  pose proof (render_no_char nl spec args line eq_refl eq_refl eq_refl Hargs E) as N1;
  pose proof (render_no_char cr spec args line eq_refl eq_refl eq_refl Hargs E) as N2.

Lemma atom_block a : str_tok_ok (pa_el a) = true ->
  exists l1 l2 l3 l4 l5 l6, pdffit_atom_lines a = Some [l1; l2; l3; l4; l5; l6] /\
    parse_patom l1 l2 l3 l4 l5 l6 = Some (canon_patom a) /\ Forall good_line [l1; l2; l3; l4; l5; l6].
Proof.
  intros Hel. destruct a as [el [[x y] z] occ [[sx sy] sz] so [[u1 u2] u3] [[su1 su2] su3] [[v1 v2] v3] [[sv1 sv2] sv3]].
  cbn [pa_el] in Hel. unfold pdffit_atom_lines. cbn [pa_el pa_xyz pa_occ pa_sigxyz pa_sigo pa_uii pa_suii pa_uij pa_suij args3 app map_opt fst snd].
  assert (forallb arg_ok [AStr (map upper el); ANum x; ANum y; ANum z; ANum occ] = true) as Ha1
    by (cbn [forallb arg_ok]; rewrite str_tok_ok_map_upper, Hel; reflexivity).
  record_plain pdffit_w_atom [AStr (map upper el); ANum x; ANum y; ANum z; ANum occ] l1 E1 T1 A1 B1 Ha1.
  record_plain pdffit_w_sigmas [ANum sx; ANum sy; ANum sz; ANum so] l2 E2 T2 A2 B2 (@eq_refl bool true).
  record_plain pdffit_w_Uii [ANum u1; ANum u2; ANum u3] l3 E3 T3 A3 B3 (@eq_refl bool true).
  record_plain pdffit_w_sigUii [ANum su1; ANum su2; ANum su3] l4 E4 T4 A4 B4 (@eq_refl bool true).
  record_plain pdffit_w_Uij [ANum v1; ANum v2; ANum v3] l5 E5 T5 A5 B5 (@eq_refl bool true).
  record_plain pdffit_w_sigUij [ANum sv1; ANum sv2; ANum sv3] l6 E6 T6 A6 B6 (@eq_refl bool true).
  exists l1, l2, l3, l4, l5, l6. split; [reflexivity|]. split.
  - unfold parse_patom. rewrite T1, T2, T3, T4, T5, T6.
    destruct (str_tok_ok_parts _ Hel) as [_ [Hne _]]. destruct el as [|c e]; [contradiction|].
    cbn. rewrite !fix_body_parse. cbn. unfold canon_patom. cbn [pa_el pa_xyz pa_occ pa_sigxyz pa_sigo pa_uii pa_suii pa_uij pa_suij].
    change (upper (upper c) :: map lower (map upper e)) with (capitalize (map upper (c :: e))). rewrite capitalize_upper. reflexivity.
  - repeat constructor; unfold good_line.
    + exact A1. + exact B1. + intros ->; cbn in T1; discriminate. + rewrite T1; discriminate.
    + exact A2. + exact B2. + intros ->; cbn in T2; discriminate. + rewrite T2; discriminate.
    + exact A3. + exact B3. + intros ->; cbn in T3; discriminate. + rewrite T3; discriminate.
    + exact A4. + exact B4. + intros ->; cbn in T4; discriminate. + rewrite T4; discriminate.
    + exact A5. + exact B5. + intros ->; cbn in T5; discriminate. + rewrite T5; discriminate.
    + exact A6. + exact B6. + intros ->; cbn in T6; discriminate. + rewrite T6; discriminate.
Qed.

Lemma atoms_blocks atoms : forallb (fun a => str_tok_ok (pa_el a)) atoms = true ->
  exists als, map_opt pdffit_atom_lines atoms = Some als /\
    (forall fuel, (List.length atoms < fuel)%nat -> parse_patoms fuel (concat als) = Some (map canon_patom atoms)) /\
    Forall good_line (concat als) /\ (List.length atoms <= List.length (concat als))%nat.
Proof.
  induction atoms as [|a atoms IH]; intros H.
  - exists []. split; [reflexivity|]. split; [|split; [constructor|cbn; lia]]. intros fuel Hf. destruct fuel; [lia|reflexivity].
  - cbn [forallb] in H. apply andb_true_iff in H. destruct H as [Ha Hr]. destruct (IH Hr) as [als [E1 [E2 [E3 E4]]]].
    destruct (atom_block a Ha) as [l1 [l2 [l3 [l4 [l5 [l6 [B1 [B2 B3]]]]]]]].
    exists ([l1; l2; l3; l4; l5; l6] :: als). split; [cbn [map_opt]; rewrite B1, E1; reflexivity|]. split.
    + intros fuel Hf. destruct fuel as [|f]; [lia|]. cbn [concat app parse_patoms]. rewrite B2. cbn [List.length] in Hf.
      rewrite (E2 f ltac:(lia)). reflexivity.
    + split; [cbn [concat]; apply Forall_app; split; assumption|]. cbn [concat]. rewrite app_length. cbn [List.length]. lia.
Qed.

Fixpoint hloop_cont (hs : list (phdr -> phdr)) (h : phdr) : phdr := match hs with [] => h | f :: r => hloop_cont r (f h) end.

Lemma hloop_cons h l r h' : hstep h l = HCont h' -> hloop h (l :: r) = hloop h' r.
Proof. intros E. cbn [hloop]. rewrite E. reflexivity. Qed.

Lemma good_last (ls : list str) : ls <> [] -> Forall good_line ls -> good_line (last ls []).
Proof.
  intros Hn F. destruct (exists_last Hn) as [b [x E]]. rewrite E, last_last. rewrite E in F. apply Forall_app in F. destruct F as [_ F]. inversion F. assumption.
Qed.

Lemma nonl_of_good ls : Forall good_line ls -> forallb (fun x => negb (has_char nl x)) ls = true.
Proof. induction 1 as [|x l [H1 _] _ IH]; [reflexivity|]. cbn. rewrite H1, IH. reflexivity. Qed.

Lemma good_line_ok l : good_line l -> last_char_ok l = true /\ blank l = false.
Proof. intros [H1 [H2 [H3 H4]]]. split; [apply last_ok_of_no_crlf; assumption|apply blank_false_of_tokens; exact H4]. Qed.

Lemma has_char_kwtext c lit txt : has_char c lit = false -> has_char c txt = false -> has_char c (lit ++ txt) = false.
Proof. intros H1 H2. rewrite has_char_app, H1, H2. reflexivity. Qed.

Theorem roundtrip_pdffit St : repr_pdffit St = true -> exists t, write_pdffit St = Some t /\ read_pdffit t = Some (canon_pdffit St).
Proof.
  unfold repr_pdffit. intros H. do 4 (apply andb_true_iff in H; destruct H as [H ?]).
  rename H into HT, H3 into HS, H2 into Hsp, H1 into Hst, H0 into HA.
  destruct (line_ok_split _ HT) as [T1 T2]. destruct (line_ok_split _ HS) as [S1 S2].
  destruct St as [ttl scale [[[d2 d1] sr] rc] sg sph stp cell dcell atoms]. cbn [p_title p_scale p_sharp p_spcgr p_sphere p_stepcut p_cell p_dcell p_atoms] in *.
  destruct (atoms_blocks atoms HA) as [als [A1 [A2 [A3 A4]]]].
  destruct (hstep_scale scale) as [lsc [Esc [Hsc [Nsc1 [Nsc2 Nsc3]]]]].
  destruct (hstep_sharp d2 d1 sr rc) as [lsh [Esh [Hsh [Nsh1 [Nsh2 Nsh3]]]]].
  destruct (hstep_cell cell) as [lce [Ece [Hce [Nce1 [Nce2 Nce3]]]]].
  destruct (hstep_dcell dcell) as [ldc [Edc [Hdc [Ndc1 [Ndc2 Ndc3]]]]].
  destruct (hstep_ncell (Z.of_nat (List.length atoms))) as [lnc [Enc [Hnc [Nnc1 [Nnc2 Nnc3]]]]].
  (* the optional shape records *)
  assert (exists lsp, opt_line (dpos sph) (render pdffit_w_sphere [ANum sph]) = Some lsp /\
            (forall h r, hloop h (lsp ++ r) = hloop (set_sphere h (canon_shape pdffit_w_sphere sph)) r \/
                         (dpos sph = false /\ lsp = [])) /\
            Forall (fun l => has_char nl l = false /\ has_char cr l = false /\ l <> []) lsp /\
            (dpos sph = false -> lsp = [])) as [lsp [Esp [Hspl [Nsp Zsp]]]].
  { unfold shape_ok, canon_shape, opt_line in *. destruct (dpos sph).
    - destruct (hstep_shape_gen pdffit_w_sphere set_sphere sph (or_introl (conj eq_refl eq_refl)) Hsp) as [l [E [Hl [N1 [N2 N3]]]]].
      exists [l]. rewrite E. split; [reflexivity|]. split; [intros h r; left; cbn [app]; apply hloop_cons; apply Hl|]. split; [repeat constructor; assumption|discriminate].
    - exists []. split; [reflexivity|]. split; [intros; right; split; reflexivity|]. split; [constructor|reflexivity]. }
  assert (exists lst, opt_line (dpos stp) (render pdffit_w_stepcut [ANum stp]) = Some lst /\
            (forall h r, hloop h (lst ++ r) = hloop (set_stepcut h (canon_shape pdffit_w_stepcut stp)) r \/
                         (dpos stp = false /\ lst = [])) /\
            Forall (fun l => has_char nl l = false /\ has_char cr l = false /\ l <> []) lst /\
            (dpos stp = false -> lst = [])) as [lst [Est [Hstl [Nst Zst]]]].
  { unfold shape_ok, canon_shape, opt_line in *. destruct (dpos stp).
    - destruct (hstep_shape_gen pdffit_w_stepcut set_stepcut stp (or_intror (conj eq_refl eq_refl)) Hst) as [l [E [Hl [N1 [N2 N3]]]]].
      exists [l]. rewrite E. split; [reflexivity|]. split; [intros h r; left; cbn [app]; apply hloop_cons; apply Hl|]. split; [repeat constructor; assumption|discriminate].
    - exists []. split; [reflexivity|]. split; [intros; right; split; reflexivity|]. split; [constructor|reflexivity]. }
  (* the printed lines *)
  set (ltitle := strip (pdffit_w_title ++ ttl)).
  set (lines := [ltitle; pdffit_w_format; lsc; lsh; pdffit_w_spcgr ++ sg] ++ lsp ++ lst ++ [lce; ldc; lnc; pdffit_w_atoms] ++ concat als).
  assert (print_pdffit (PStru ttl scale (d2, d1, sr, rc) sg sph stp cell dcell atoms) = Some lines) as EP.
  { unfold print_pdffit. cbn [p_title p_scale p_sharp p_spcgr p_sphere p_stepcut p_cell p_dcell p_atoms].
    rewrite Esc, Esh, Esp, Est, Ece, Edc, Enc, A1. cbn [option_map concat_opt fold_right app]. unfold lines, ltitle. cbn [app].
    rewrite app_nil_r. reflexivity. }
  unfold write_pdffit. rewrite EP. cbn [option_map]. eexists. split; [reflexivity|]. unfold read_pdffit.
  (* every line is free of CR/LF and non-empty; the last one has fields *)
  assert (has_char nl ltitle = false /\ has_char cr ltitle = false) as [Nt1 Nt2].
  { unfold ltitle. split; apply has_char_strip; apply has_char_kwtext; try assumption; reflexivity. }
  assert (has_char nl (pdffit_w_spcgr ++ sg) = false /\ has_char cr (pdffit_w_spcgr ++ sg) = false) as [Ng1 Ng2].
  { split; apply has_char_kwtext; try assumption; reflexivity. }
  assert (good_line pdffit_w_atoms) as Gat by (unfold good_line; repeat split; try reflexivity; discriminate).
  assert (forallb (fun x => negb (has_char nl x)) lines = true) as NL.
  { unfold lines. rewrite !forallb_app. cbn [forallb]. rewrite Nt1, Nsc1, Nsh1, Ng1, Nce1, Ndc1, Nnc1, (nonl_of_good _ A3).
    assert (forall l, Forall (fun l => has_char nl l = false /\ has_char cr l = false /\ l <> []) l -> forallb (fun x => negb (has_char nl x)) l = true) as K
      by (induction 1 as [|x l0 [K1 _] _ IH]; [reflexivity|cbn; rewrite K1, IH; reflexivity]).
    rewrite (K _ Nsp), (K _ Nst). reflexivity. }
  assert (good_line (last lines [])) as GL.
  { unfold lines. rewrite !app_assoc. destruct (concat als) as [|x r] eqn:EC.
    - rewrite app_nil_r. rewrite <- !app_assoc.
      replace ([ltitle; pdffit_w_format; lsc; lsh; pdffit_w_spcgr ++ sg] ++ lsp ++ lst ++ [lce; ldc; lnc; pdffit_w_atoms])
        with (([ltitle; pdffit_w_format; lsc; lsh; pdffit_w_spcgr ++ sg] ++ lsp ++ lst ++ [lce; ldc; lnc]) ++ [pdffit_w_atoms])
        by (rewrite <- !app_assoc; reflexivity).
      rewrite last_last. exact Gat.
    - destruct (@exists_last _ (x :: r) ltac:(discriminate)) as [b [y Ey]]. rewrite Ey, app_assoc, last_last.
      rewrite Ey in A3. apply Forall_app in A3. destruct A3 as [_ A3]. inversion A3. assumption. }
  destruct (good_line_ok _ GL) as [GL1 GL2].
  assert (lines <> []) as Hne by (unfold lines; discriminate).
  destruct lines as [|l0 lrest] eqn:EL; [contradiction|].
  rewrite lines_text_roundtrip_cons by assumption. rewrite <- EL in *. clear EL l0 lrest.
  unfold parse_pdffit.
  assert (rstrip_lines lines = lines) as ->.
  { destruct (exists_last Hne) as [b [y Ey]]. rewrite Ey in GL2 |- *. rewrite last_last in GL2. apply rstrip_lines_last. exact GL2. }
  (* run the header loop *)
  unfold lines.
  change ([ltitle; pdffit_w_format; lsc; lsh; pdffit_w_spcgr ++ sg] ++ lsp ++ lst ++ [lce; ldc; lnc; pdffit_w_atoms] ++ concat als)
    with (ltitle :: pdffit_w_format :: lsc :: lsh :: (pdffit_w_spcgr ++ sg) :: (lsp ++ lst ++ [lce; ldc; lnc; pdffit_w_atoms] ++ concat als)).
  rewrite (hloop_cons _ _ _ _ (hstep_title phdr0 ttl)).
  rewrite (hloop_cons _ _ _ _ (hstep_format _)).
  rewrite (hloop_cons _ _ _ _ (Hsc _)).
  rewrite (hloop_cons _ _ _ _ (Hsh _)).
  rewrite (hloop_cons _ _ _ _ (hstep_spcgr _ sg)).
  set (h5 := set_spcgr _ _).
  assert (exists h7, hloop h5 (lsp ++ lst ++ [lce; ldc; lnc; pdffit_w_atoms] ++ concat als) = hloop h7 ([lce; ldc; lnc; pdffit_w_atoms] ++ concat als) /\
                     h_title h7 = strip ttl /\ h_scale h7 = h_scale h5 /\ h_sharp h7 = h_sharp h5 /\ h_spcgr h7 = strip sg /\
                     h_sphere h7 = canon_shape pdffit_w_sphere sph /\ h_stepcut h7 = canon_shape pdffit_w_stepcut stp /\ h_ncell h7 = h_ncell h5 /\ h_dcell h7 = h_dcell h5) as [h7 [E7 [F1 [F2 [F3 [F4 [F5 [F6 [F7 F8]]]]]]]]].
  { destruct (Hspl h5 (lst ++ [lce; ldc; lnc; pdffit_w_atoms] ++ concat als)) as [R1|[D1 Z1]];
    [rewrite R1|subst lsp; rewrite app_nil_l; unfold canon_shape; rewrite D1];
    match goal with |- exists h7, hloop ?hh _ = _ /\ _ =>
      destruct (Hstl hh ([lce; ldc; lnc; pdffit_w_atoms] ++ concat als)) as [R2|[D2 Z2]];
      [rewrite R2|subst lst; rewrite app_nil_l; unfold canon_shape; try rewrite D2] end;
    eexists; (split; [reflexivity|]); cbn; repeat split; reflexivity. }
  rewrite E7. cbn [app].
  rewrite (hloop_cons _ _ _ _ (Hce _)).
  rewrite (hloop_cons _ _ _ _ (Hdc _)).
  rewrite (hloop_cons _ _ _ _ (Hnc _)).
  cbn [hloop]. rewrite (hstep_atoms _ (q6 pdffit_w_cell cell)) by reflexivity.
  cbn [h_cell set_ncell set_dcell set_cell].
  rewrite (A2 (S (List.length (concat als))) ltac:(lia)).
  cbn [h_ncell set_ncell fold_right]. rewrite map_length.
  replace (1 * (1 * (1 * (Z.of_nat (List.length atoms) * 1))))%Z with (Z.of_nat (List.length atoms)) by lia.
  rewrite Z.eqb_refl. cbn [firstn].
  unfold canon_pdffit. cbn [p_title p_scale p_sharp p_spcgr p_sphere p_stepcut p_cell p_dcell p_atoms h_title h_scale h_sharp h_spcgr h_sphere h_stepcut h_dcell set_ncell set_dcell set_cell].
  rewrite F1, F2, F3, F4, F5, F6. reflexivity.
Qed.

(* ---- canon is idempotent and stays representable ---- *)
Lemma q3_idem f k v : q3 f k (q3 f k v) = q3 f k v.
Proof. destruct v as [[a b] c]. cbn [q3]. rewrite !dq_idem. reflexivity. Qed.
Lemma q6_idem f v : q6 f (q6 f v) = q6 f v.
Proof. destruct v as [a b]. unfold q6. cbn [fst snd]. rewrite !q3_idem. reflexivity. Qed.

Lemma dpos_gq P d v : (0 < P)%nat -> dpos d = true -> gq P d = Some v -> dpos v = true.
Proof.
  intros HP Hd E. unfold gq in E. destruct (gen_decimals P d) as [pd|] eqn:G; [|discriminate]. cbn in E. inversion E; subst v. clear E.
  unfold dpos in *. apply andb_true_iff in Hd. destruct Hd as [Hn Hm]. apply N.ltb_lt in Hm.
  destruct (gen_mantissa_bounds P d pd HP ltac:(lia) G) as [[Lq _] _].
  unfold dq. rewrite dneg_dnorm. cbn [dneg]. rewrite Hn. cbn [andb]. apply N.ltb_lt.
  unfold dnorm. cbn [dmag dexp dneg]. pose proof (normN_spec (quantN pd d) pd) as NS. destruct (normN (quantN pd d) pd) as [m' e'].
  destruct NS as [_ [N2 _]]. cbn [dmag]. pose proof (pow10_pos (P - 1)). destruct m'; [|lia]. lia.
Qed.

Lemma dpos_dzero : dpos dzero = false. Proof. reflexivity. Qed.

Lemma canon_shape_idem f d : (0 < gprec f 0)%nat -> canon_shape f (canon_shape f d) = canon_shape f d.
Proof.
  intros HP. unfold canon_shape. destruct (dpos d) eqn:E; [|rewrite dpos_dzero; reflexivity].
  destruct (gq (gprec f 0) d) as [v|] eqn:G.
  - assert (gqd (gprec f 0) d = v) as -> by (unfold gqd; rewrite G; reflexivity).
    rewrite (dpos_gq _ _ _ HP E G). unfold gqd. rewrite (gq_idem _ _ _ HP G). reflexivity.
  - assert (gqd (gprec f 0) d = d) as -> by (unfold gqd; rewrite G; reflexivity).
    rewrite E. unfold gqd. rewrite G. reflexivity.
Qed.

Lemma shape_ok_canon f d : (0 < gprec f 0)%nat -> shape_ok f d = true -> shape_ok f (canon_shape f d) = true.
Proof.
  intros HP H. unfold shape_ok, canon_shape in *. destruct (dpos d) eqn:E; [|rewrite dpos_dzero; reflexivity].
  destruct (dpos (gqd (gprec f 0) d)); [|reflexivity]. apply gen_ok_gqd; assumption.
Qed.

Lemma canon_patom_idem a : canon_patom (canon_patom a) = canon_patom a.
Proof. unfold canon_patom. cbn [pa_el pa_xyz pa_occ pa_sigxyz pa_sigo pa_uii pa_suii pa_uij pa_suij]. rewrite capitalize_idem, !q3_idem, !dq_idem. reflexivity. Qed.

Lemma shape_prec_pos : (0 < gprec pdffit_w_sphere 0 /\ 0 < gprec pdffit_w_stepcut 0)%nat.
Proof. vm_compute. split; lia. Qed.

Lemma canon_idem_pdffit St : canon_pdffit (canon_pdffit St) = canon_pdffit St.
Proof.
  destruct shape_prec_pos as [P1 P2].
  destruct St as [ttl scale [[[d2 d1] sr] rc] sg sph stp cell dcell atoms]. unfold canon_pdffit.
  cbn [p_title p_scale p_sharp p_spcgr p_sphere p_stepcut p_cell p_dcell p_atoms].
  rewrite !strip_idem, !dq_idem, !q6_idem, !canon_shape_idem by assumption. f_equal.
  rewrite map_map. apply map_ext. intros a. apply canon_patom_idem.
Qed.

Lemma repr_canon_pdffit St : repr_pdffit St = true -> repr_pdffit (canon_pdffit St) = true.
Proof.
  destruct shape_prec_pos as [P1 P2].
  destruct St as [ttl scale [[[d2 d1] sr] rc] sg sph stp cell dcell atoms]. unfold repr_pdffit, canon_pdffit.
  cbn [p_title p_scale p_sharp p_spcgr p_sphere p_stepcut p_cell p_dcell p_atoms]. intros H.
  do 4 (apply andb_true_iff in H; destruct H as [H ?]).
  destruct (line_ok_split _ H) as [T1 T2]. destruct (line_ok_split _ H3) as [S1 S2].
  unfold line_ok. rewrite (has_char_strip _ _ T1), (has_char_strip _ _ T2), (has_char_strip _ _ S1), (has_char_strip _ _ S2).
  rewrite !shape_ok_canon by assumption. cbn [negb andb].
  rewrite forallb_forall in *. intros a' Hin. apply in_map_iff in Hin. destruct Hin as [a [<- Hin]].
  cbn [canon_patom pa_el]. rewrite str_tok_ok_capitalize. apply H0. exact Hin.
Qed.

Definition rt_pdffit_raw (St : pstru) : option pstru := match write_pdffit St with Some t => read_pdffit t | None => None end.

Lemma rt_pdffit_raw_canon St : repr_pdffit St = true -> rt_pdffit_raw St = Some (canon_pdffit St).
Proof. intros H. destruct (roundtrip_pdffit St H) as [t [W R]]. unfold rt_pdffit_raw. rewrite W. exact R. Qed.

(* ---- the view of the re-read structure: a.U of an atom the reader classified isotropic is rebuilt
        from U11 and the lattice.  Geometry is abstract: [isaniso] stands for Lattice.isanisotropic and
        [isotens c u] for u * Lattice.isotropicunit, with the two facts of the code that matter. ---- *)
Section Link.
  Variable isaniso : d6 -> d3 -> d3 -> bool.
  Variable isotens : d6 -> dec -> d3 * d3.
  Definition first3 (v : d3) : dec := let '(a, _, _) := v in a.
  (* the isotropic tensor printed at the precision of the format is still classified isotropic *)
  Hypothesis iso_stays_iso : forall c u, isaniso c (q3 pdffit_w_Uii 0 (fst (isotens c u))) (q3 pdffit_w_Uij 0 (snd (isotens c u))) = false.
  (* isotropicunit has an exact 1 on the diagonal: U11 of the rebuilt tensor is the stored value *)
  Hypothesis iso_u11 : forall c u, first3 (fst (isotens c u)) = u.

  Definition link_atom (c : d6) (a : patom) : patom :=
    if isaniso c (pa_uii a) (pa_uij a) then a
    else let t := isotens c (first3 (pa_uii a)) in
         PAtom (pa_el a) (pa_xyz a) (pa_occ a) (pa_sigxyz a) (pa_sigo a) (fst t) (pa_suii a) (snd t) (pa_suij a).
  Definition link_pdffit (St : pstru) : pstru :=
    PStru (p_title St) (p_scale St) (p_sharp St) (p_spcgr St) (p_sphere St) (p_stepcut St) (p_cell St) (p_dcell St)
          (map (link_atom (p_cell St)) (p_atoms St)).

  Definition rt_pdffit (St : pstru) : option pstru := option_map link_pdffit (rt_pdffit_raw St).
  Definition canonl_pdffit (St : pstru) : pstru := link_pdffit (canon_pdffit St).

  Lemma rt_pdffit_canon St : repr_pdffit St = true -> rt_pdffit St = Some (canonl_pdffit St).
  Proof. intros H. unfold rt_pdffit. rewrite (rt_pdffit_raw_canon St H). reflexivity. Qed.

  Lemma first3_q3 f v : first3 (q3 f 0 v) = dq (fprec f 0) (first3 v).
  Proof. destruct v as [[a b] c]. reflexivity. Qed.

  Lemma link_canon_atom c a : let a' := link_atom c (canon_patom a) in link_atom c (canon_patom a') = a'.
  Proof.
    destruct a as [el xyz occ sig sigo uii suii uij suij]. cbn zeta.
    set (a1 := canon_patom (PAtom el xyz occ sig sigo uii suii uij suij)).
    destruct (isaniso c (pa_uii a1) (pa_uij a1)) eqn:E.
    - assert (link_atom c a1 = a1) as L by (unfold link_atom; rewrite E; reflexivity).
      rewrite L. unfold a1. rewrite canon_patom_idem. fold a1. exact L.
    - assert (link_atom c a1 = PAtom (pa_el a1) (pa_xyz a1) (pa_occ a1) (pa_sigxyz a1) (pa_sigo a1) (fst (isotens c (first3 (pa_uii a1))))
                                     (pa_suii a1) (snd (isotens c (first3 (pa_uii a1)))) (pa_suij a1)) as L
        by (unfold link_atom; rewrite E; reflexivity).
      rewrite L. unfold a1, canon_patom. cbn [pa_el pa_xyz pa_occ pa_sigxyz pa_sigo pa_uii pa_suii pa_uij pa_suij].
      rewrite capitalize_idem, !q3_idem, !dq_idem.
      unfold link_atom. cbn [pa_el pa_xyz pa_occ pa_sigxyz pa_sigo pa_uii pa_suii pa_uij pa_suij].
      rewrite iso_stays_iso. rewrite (first3_q3 pdffit_w_Uii (fst (isotens c _))), iso_u11, first3_q3, dq_idem. reflexivity.
  Qed.

  Lemma canonl_idem_pdffit St : canonl_pdffit (canonl_pdffit St) = canonl_pdffit St.
  Proof.
    destruct shape_prec_pos as [P1 P2].
    destruct St as [ttl scale [[[d2 d1] sr] rc] sg sph stp cell dcell atoms]. unfold canonl_pdffit, link_pdffit, canon_pdffit.
    cbn [p_title p_scale p_sharp p_spcgr p_sphere p_stepcut p_cell p_dcell p_atoms].
    rewrite !strip_idem, !dq_idem, !q6_idem, !canon_shape_idem by assumption. f_equal.
    rewrite !map_map. apply map_ext. intros a. apply link_canon_atom.
  Qed.

  Lemma repr_link St : repr_pdffit (link_pdffit St) = repr_pdffit St.
  Proof.
    unfold repr_pdffit, link_pdffit. cbn [p_title p_spcgr p_sphere p_stepcut p_atoms]. f_equal.
    induction (p_atoms St) as [|a l IH]; [reflexivity|]. cbn [map forallb]. rewrite IH. f_equal.
    unfold link_atom. destruct (isaniso (p_cell St) (pa_uii a) (pa_uij a)); reflexivity.
  Qed.

  Lemma repr_canonl_pdffit St : repr_pdffit St = true -> repr_pdffit (canonl_pdffit St) = true.
  Proof. intros H. unfold canonl_pdffit. rewrite repr_link. apply repr_canon_pdffit. exact H. Qed.

  (* no_drift_pdffit : n >= 1 write/read round trips (each followed by the lattice-dependent view) give what the first gave *)
  Theorem no_drift_pdffit St n : repr_pdffit St = true -> iter_opt rt_pdffit (S n) St = Some (canonl_pdffit St).
  Proof.
    intros H. apply (no_drift_gen pstru rt_pdffit canonl_pdffit repr_pdffit); [exact rt_pdffit_canon|exact repr_canonl_pdffit| |exact H].
    intros x _. apply canonl_idem_pdffit.
  Qed.
End Link.
