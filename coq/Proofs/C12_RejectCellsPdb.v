(* C12 - rejection table, part 3: the text of the PDB writer (C04 model print_pdb) read by the xyz, rawxyz, pdffit and
   discus parser models.  Every record of that text starts with one of the letters T (TITLE, TER), C (CRYST1), A (ATOM,
   ANISOU), E (END), and the END record has one field: that is all the four readers need. *)
From Coq Require Import List Bool Arith ZArith NArith Lia.
From DS Require Import Base.C13_Exn Gen.C13_ExcSpec Model.C13_Common Proofs.C13_ExnLemmas Proofs.C13_Shared.
From DS Require Import Base.C04_Text Base.C04_Decimal Model.C04_Fmt Gen.C04_FmtSpecs Model.C04_Xyz Model.C04_Pdffit Model.C04_Pdb
                       Proofs.C04_Fmt Proofs.C04_Lines.
From DS Require Import Model.C12_Conc Proofs.C12_RejectBase Proofs.C12_RejectCells.
From Coq Require Import Ascii String.
Import ListNotations.
Close Scope N_scope.
Open Scope nat_scope.
Open Scope list_scope.

Arguments catches : simpl never.

(* ---- first character, first word ------------------------------------------------------------------ *)
Lemma first_char_word : forall c r, is_ws c = false -> exists w ws, split_ws (c :: r) = (c :: w) :: ws /\ no_ws (c :: w) = true.
Proof.
  intros c r Hc. unfold split_ws. cbn [toks]. rewrite Hc.
  pose proof (toks_no_ws_all (c :: r)) as Hall. cbn [toks] in Hall. rewrite Hc in Hall.
  destruct (toks r) as [| t ts] eqn:E; [exfalso; exact (toks_nonnil r E) |].
  cbn [filter nonempty]. exists t, (filter nonempty ts). split; [reflexivity |]. inversion Hall; assumption.
Qed.

Local Transparent parse_int strip lstrip rstrip.
Lemma parse_int_not_number_start : forall c w, no_ws (c :: w) = true -> Ascii.eqb c minus = false -> Ascii.eqb c plus = false ->
  dval c = None -> parse_int (c :: w) = None.
Proof.
  intros c w Hn Hm Hp Hd. unfold parse_int.
  rewrite (strip_id (c :: w)); [| apply no_ws_starts; exact Hn | apply no_ws_ends; exact Hn].
  unfold split_sign. rewrite Hm, Hp. cbn [dnums]. rewrite Hd. reflexivity.
Qed.
Local Opaque parse_int strip lstrip rstrip.

Definition record_letter (c : ascii) : bool :=
  Ascii.eqb c "T"%char || Ascii.eqb c "C"%char || Ascii.eqb c "A"%char || Ascii.eqb c "E"%char.
Definition starts_with_record_letter (l : str) : Prop := exists c r, l = c :: r /\ record_letter c = true.

Lemma record_letter_props : forall c, record_letter c = true ->
  is_ws c = false /\ Ascii.eqb c minus = false /\ Ascii.eqb c plus = false /\ dval c = None /\
  Ascii.eqb c "c"%char = false /\ Ascii.eqb c "#"%char = false.
Proof.
  intros c H. unfold record_letter in H.
  repeat (apply orb_true_iff in H; destruct H as [H | H]); apply Ascii.eqb_eq in H; subst; repeat split; reflexivity.
Qed.

Lemma render_lit_head : forall lit f' a l, render (FLit lit :: f') a = Some l -> exists r, l = lit ++ r.
Proof. intros lit f' a l H. cbn [render] in H. destruct (render f' a) as [r |]; inversion H. eauto. Qed.

Lemma rpad_head : forall w c r, rpad w (c :: r) = c :: (r ++ repeat sp (w - List.length (c :: r))).
Proof. intros. unfold rpad. reflexivity. Qed.

(* ---- the PDB text -------------------------------------------------------------------------------- *)
Lemma atoms_lines_letters : forall l serial ls, atoms_lines serial l = Some ls -> Forall starts_with_record_letter ls.
Proof.
  induction l as [| a l IH]; intros serial ls H; cbn [atoms_lines] in H; [inversion H; constructor |].
  destruct (atom_lines serial a) as [x |] eqn:Ea; [| discriminate].
  destruct (atoms_lines (serial + 1) l) as [y |] eqn:Er; inversion H; subst. apply Forall_app. split; [| eapply IH; eassumption].
  unfold atom_lines in Ea. destruct (render pdb_w_atom (atom_args serial a)) as [al |] eqn:Eal; [| discriminate].
  destruct (render_lit_head _ _ _ _ Eal) as [r ->].
  assert (Hat : starts_with_record_letter (s"ATOM  " ++ r)) by (eexists _, _; split; [reflexivity | reflexivity]).
  destruct (b_iso a); [inversion Ea; subst; repeat constructor; exact Hat |].
  destruct (anisou_line (s"ATOM  " ++ r) a) as [an |] eqn:Ean; inversion Ea; subst.
  repeat constructor; [exact Hat |].
  unfold anisou_line in Ean. destruct (render pdb_w_anisou _); inversion Ean; subst.
  eexists _, _; split; [reflexivity | reflexivity].
Qed.

Lemma pdb_text : forall St ls, print_pdb St = Some ls ->
  Forall starts_with_record_letter ls /\ In (pad80 pdb_w_end) ls.
Proof.
  intros St ls H. unfold print_pdb in H.
  repeat match type of H with
  | concat_opt (_ :: _) = Some _ =>
      let a := fresh "a" in let b := fresh "b" in let Ha := fresh "Ha" in let Hb := fresh "Hb" in let Hr := fresh "Hr" in
      apply concat_opt_cons in H; destruct H as [a [b [Ha [Hb Hr]]]]; rename Hb into H; subst
  end.
  cbn in H. inversion H; subst. inversion Ha3; subst. split; [| find_in].
  repeat (apply Forall_app; split).
  - unfold title_lines in Ha. destruct (is_nil (b_title St)); [inversion Ha; constructor |].
    destruct (List.length (b_title St) <=? pdb_w_title_max); inversion Ha; subst. repeat constructor.
    eexists _, _; split; [reflexivity | reflexivity].
  - unfold cryst1_lines in Ha0. destruct (default_cell (b_cell St)); [inversion Ha0; constructor |].
    destruct (render pdb_w_cryst1 (args6 (b_cell St))) as [l |] eqn:E; inversion Ha0; subst.
    destruct (render_lit_head _ _ _ _ E) as [r ->]. repeat constructor. eexists _, _; split; [reflexivity | reflexivity].
  - eapply atoms_lines_letters; eassumption.
  - destruct (ter_line (List.length (b_atoms St))) as [l |] eqn:E; inversion Ha2; subst.
    unfold ter_line in E. destruct (render_lit_head _ _ _ _ E) as [r ->]. repeat constructor. eexists _, _; split; [reflexivity | reflexivity].
  - repeat constructor. eexists _, _; split; [reflexivity | reflexivity].
  - constructor.
Qed.

Lemma record_letter_line : forall l, starts_with_record_letter l ->
  exists w ws, split_ws l = w :: ws /\ str_eqb w (S2L "#") = false /\ parse_int w = None /\ str_eqb w (S2L "cell") = false.
Proof.
  intros l [c [r [-> Hc]]]. destruct (record_letter_props c Hc) as [H1 [H2 [H3 [H4 [H5 H6]]]]].
  destruct (first_char_word c r H1) as [w [ws [Hs Hn]]]. exists (c :: w), ws. split; [exact Hs |].
  split; [cbn; rewrite H6; reflexivity |]. split; [apply parse_int_not_number_start; assumption |]. cbn. rewrite H5. reflexivity.
Qed.

Lemma pdb_text_no_cell : forall St ls, print_pdb St = Some ls -> no_cell_record ls.
Proof.
  intros St ls H l Hl. destruct (pdb_text _ _ H) as [Hall _]. rewrite Forall_forall in Hall.
  destruct (record_letter_line l (Hall l Hl)) as [w [ws [Hs [_ [_ Hc]]]]]. eapply word_is_false_first; eassumption.
Qed.

Theorem cell_xyz_pdb : forall St ls, print_pdb St = Some ls -> conc_xyz ls = Raise FormatError.
Proof.
  intros St ls H. destruct (pdb_text _ _ H) as [Hall Hend]. destruct ls as [| l0 rest]; [contradiction |].
  inversion Hall as [| ? ? Hl0 _]; subst. destruct (record_letter_line l0 Hl0) as [w [ws [Hs [Hh [Hi _]]]]].
  eapply xyz_rejects_first_record; [exact Hs | exact Hh | right; exact Hi].
Qed.

Theorem cell_rawxyz_pdb : forall St ls, print_pdb St = Some ls -> rejected (conc_rawxyz ls).
Proof.
  intros St ls H. destruct (pdb_text _ _ H) as [Hall Hend]. destruct ls as [| l0 rest]; [contradiction |].
  inversion Hall as [| ? ? Hl0 _]; subst. destruct (record_letter_line l0 Hl0) as [w [ws [Hs [Hh _]]]].
  eapply rawxyz_rejects_one_field_record with (la := pad80 pdb_w_end) (wa := S2L "END"); [exact Hs | exact Hh | exact Hend |].
  vm_compute. reflexivity.
Qed.

Section GeometryCellsPdb.
  Variable lattice_of : list dec -> res unit.
  Variable mulZ : dec -> Z -> res dec.
  Variable set_lat_par : list (list dec) -> list dec -> res unit.
  Variable cell_pars : list (list dec) -> list dec.
  Hypothesis lattice_kinds : forall l, within [ValueError; ZeroDivisionError] (lattice_of l).
  Hypothesis mulZ_kinds : forall v z, within [OverflowError] (mulZ v z).
  Hypothesis set_lat_par_kinds : forall h l, within [ValueError; ZeroDivisionError] (set_lat_par h l).

  Theorem cell_pdffit_pdb : forall St ls, print_pdb St = Some ls -> conc_pdffit lattice_of mulZ ls = Raise FormatError.
  Proof. intros. apply pdffit_rejects_without_cell; try assumption. eapply pdb_text_no_cell; eassumption. Qed.

  Theorem cell_discus_pdb : forall St ls, print_pdb St = Some ls -> rejected (conc_discus lattice_of mulZ set_lat_par cell_pars ls).
  Proof. intros. apply discus_rejects_without_cell; try assumption. eapply pdb_text_no_cell; eassumption. Qed.
End GeometryCellsPdb.
