(* C04 - columns_roundtrip: cutting a rendered fixed-column record at constant columns. *)
From Coq Require Import List Bool Arith NArith ZArith Lia.
From Coq Require Import Ascii.
From DS Require Import Base.C04_Text Base.C04_Decimal Model.C04_Fmt Model.C04_Cols Proofs.C04_Fmt.
Import ListNotations.

Lemma render_sym_flat f : forall a ps, render_sym f a = Some ps -> render f a = Some (flat ps).
Proof.
  induction f as [|it f' IH]; intros a ps E.
  - cbn in *. destruct a; [|discriminate]. inversion E. reflexivity.
  - destruct (is_lit it) eqn:L.
    + destruct it as [t|l w|w p|w|P]; try discriminate. cbn [render_sym render] in *.
      destruct (render_sym f' a) as [r|] eqn:Er; [|discriminate]. cbn in E. inversion E; subst ps.
      rewrite (IH a r Er). reflexivity.
    + rewrite (render_field_eq _ _ _ L).
      assert (render_sym (it :: f') a = match a with x :: a' => match field_body it x, render_sym f' a' with
                 | Some b, Some r => Some ((field_pad it b, nominal it b) :: r) | _, _ => None end | [] => None end) as Eq
        by (destruct it; [discriminate|..]; reflexivity).
      rewrite Eq in E. destruct a as [|x a']; [discriminate|]. destruct (field_body it x) as [b|]; [|discriminate].
      destruct (render_sym f' a') as [r|] eqn:Er; [|discriminate]. inversion E; subst ps. rewrite (IH a' r Er). reflexivity.
Qed.

Lemma sym_ok_cons p w r : sym_ok ((p, w) :: r) = (List.length p =? w)%nat && sym_ok r.
Proof. reflexivity. Qed.

Lemma sskip_spec n : forall ps, sym_ok ps = true -> skipn n (flat ps) = flat (sskip n ps) /\ sym_ok (sskip n ps) = true.
Proof.
  intros ps. revert n. induction ps as [|[p w] r IH]; intros n H.
  - cbn. rewrite skipn_nil. split; reflexivity.
  - rewrite sym_ok_cons in H. apply andb_true_iff in H. destruct H as [Hp Hr]. apply Nat.eqb_eq in Hp.
    cbn [sskip]. unfold flat. cbn [map fst List.concat]. destruct (w <=? n)%nat eqn:E.
    + apply Nat.leb_le in E. destruct (IH (n - w)%nat Hr) as [I1 I2]. split; [|exact I2].
      rewrite skipn_app. rewrite Hp. rewrite skipn_all2 by lia. cbn [app]. exact I1.
    + apply Nat.leb_gt in E. split.
      * cbn [map fst List.concat]. rewrite skipn_app. replace (n - List.length p)%nat with O by lia. reflexivity.
      * rewrite sym_ok_cons. rewrite skipn_length, Hp, Nat.eqb_refl. exact Hr.
Qed.

Lemma stake_spec n : forall ps, sym_ok ps = true -> (n <= List.length (flat ps))%nat -> firstn n (flat ps) = flat (stake n ps).
Proof.
  intros ps. revert n. induction ps as [|[p w] r IH]; intros n H L.
  - cbn in *. assert (n = O) as -> by lia. reflexivity.
  - rewrite sym_ok_cons in H. apply andb_true_iff in H. destruct H as [Hp Hr]. apply Nat.eqb_eq in Hp.
    unfold flat in *. cbn [map fst List.concat stake] in *. rewrite app_length in L. destruct (w <=? n)%nat eqn:E.
    + apply Nat.leb_le in E. cbn [map fst List.concat]. rewrite firstn_app, Hp. rewrite firstn_all2 by lia. f_equal. apply IH; [exact Hr|lia].
    + apply Nat.leb_gt in E. cbn [map fst List.concat]. rewrite firstn_app. replace (n - List.length p)%nat with O by lia.
      cbn. rewrite !app_nil_r. reflexivity.
Qed.

(* columns_roundtrip: slicing the rendered record = cutting the list of pieces *)
Theorem slice_flat lo hi ps : sym_ok ps = true -> (hi <= List.length (flat ps))%nat -> slice lo hi (flat ps) = scut lo hi ps.
Proof.
  intros H L. unfold slice, scut. destruct (sskip_spec lo ps H) as [S1 S2]. rewrite S1. apply stake_spec; [exact S2|].
  rewrite <- S1, skipn_length. lia.
Qed.

Lemma flat_length ps : sym_ok ps = true -> List.length (flat ps) = fold_right (fun pw acc => (snd pw + acc)%nat) O ps.
Proof.
  induction ps as [|[p w] r IH]; intros H; [reflexivity|]. rewrite sym_ok_cons in H. apply andb_true_iff in H. destruct H as [Hp Hr].
  apply Nat.eqb_eq in Hp. unfold flat in *. cbn [map fst List.concat fold_right snd]. rewrite app_length, Hp, (IH Hr). reflexivity.
Qed.

(* open-ended slice line[lo:] *)
Lemma skipn_flat lo ps : sym_ok ps = true -> skipn lo (flat ps) = flat (sskip lo ps).
Proof. intros H. apply sskip_spec. exact H. Qed.

Lemma lpad_fit w b : (List.length b <= w)%nat -> List.length (lpad w b) = w.
Proof. intros H. unfold lpad. rewrite app_length, repeat_length. lia. Qed.
Lemma lpad_skip1 w b : (List.length b <= w)%nat -> skipn 1 (lpad (S w) b) = lpad w b.
Proof. intros H. unfold lpad. replace (S w - List.length b)%nat with (S (w - List.length b)) by lia. reflexivity. Qed.

Lemma stake_ok n : forall ps, sym_ok ps = true -> (n <= List.length (flat ps))%nat -> sym_ok (stake n ps) = true.
Proof.
  intros ps. revert n. induction ps as [|[p w] r IH]; intros n H L; [reflexivity|].
  rewrite sym_ok_cons in H. apply andb_true_iff in H. destruct H as [Hp Hr]. apply Nat.eqb_eq in Hp.
  unfold flat in L. cbn [map fst List.concat] in L. rewrite app_length in L. cbn [stake]. destruct (w <=? n)%nat eqn:E.
  - apply Nat.leb_le in E. rewrite sym_ok_cons, Hp, Nat.eqb_refl. apply IH; [exact Hr|unfold flat; lia].
  - apply Nat.leb_gt in E. cbn [sym_ok forallb fst snd]. rewrite firstn_length, Hp, andb_true_r. apply Nat.eqb_eq. lia.
Qed.

Lemma scut_ok lo hi ps : sym_ok ps = true -> (hi <= List.length (flat ps))%nat -> sym_ok (stake (hi - lo) (sskip lo ps)) = true.
Proof.
  intros H L. destruct (sskip_spec lo ps H) as [S1 S2]. apply stake_ok; [exact S2|]. rewrite <- S1, skipn_length. lia.
Qed.
