(* C16 - the hypotheses of the theorems are satisfiable by non-trivial instances, and the theorems
   have teeth: the statement order of the tree before the D11 repair is refuted by the same model. *)
From Coq Require Import ZArith List Bool.
From Coq Require Import Ascii String.
From DS Require Import Model.C16_ReadWriteTxn Gen.C16_RW Model.C16_Methods.
Import ListNotations.
Open Scope string_scope.
Open Scope Z_scope.

(* a parser that raises 42 on text 1 and otherwise yields two atoms in a lattice of its own,
   reads files through the file map, and refuses to serialise an empty structure *)
Definition ex_ps : parsed :=
  {| p_cls := CStructure;
     p_items := [ {| a_id := 100; a_payload := 7; a_lat := 50 |}; {| a_id := 101; a_payload := 8; a_lat := 50 |} ];
     p_inst := [("_lattice", VLat 50 3)] |}.
Definition ex_parse (s : Z) : parse_out :=
  if s =? 1 then {| po_result := Raise 42; po_sg := None |} else {| po_result := Ok (Some ex_ps); po_sg := Some 9 |}.
Definition ex_parser : parser :=
  {| ps_parse := ex_parse;
     ps_parsefile := fun f fs => match fs_get f fs with Some c => ex_parse c | None => {| po_result := Raise 2; po_sg := None |} end;
     ps_tostring := fun _ o => match o_items o with [] => Raise 77 | _ => Ok 5 end |}.
Definition ex_env : env :=
  {| e_getparser := fun f => if f =? 0 then Ok ex_parser else Raise 13;
     e_title_of := fun f => f + 1000;
     e_open_w := fun _ => Ok tt;
     e_default_pdffit := [("scale", 1); ("spcgr", 2)];
     e_default_cell := 1;
     e_new_lattice := 900 |}.
(* a PDFFitStructure that has been used: one atom, own lattice, a title, a changed scale *)
Definition ex_prior : obj :=
  {| o_cls := CPDFFit;
     o_items := [ {| a_id := 1; a_payload := 5; a_lat := 10 |} ];
     o_inst := [("pdffit", VDict [("scale", 70); ("spcgr", 2)]); ("_lattice", VLat 10 4); ("title", VStr 33)] |}.
Definition ex_fs : files := [(5, 1); (6, 2)].
Definition ex_bad : args := {| g_filename := 5; g_source := 1; g_format := 0 |}.
Definition ex_good : args := {| g_filename := 6; g_source := 2; g_format := 0 |}.

(* premise of C16_read_failure_atomic, both entry points *)
Example ex_failure_premise : forall en p, e_getparser ex_env (g_format ex_bad) = Ok p ->
  exists x, po_result (parse_of ex_bad en ex_fs p) = Raise x.
Proof. intros en p H. injection H as <-. exists 42. destruct en; reflexivity. Qed.
Example ex_failure_run : forall en, exists fr', run_read ex_env ex_bad CPDFFit en (frame_of ex_prior ex_fs 200) = Failed 42 fr'
  /\ f_self fr' = ex_prior /\ f_fs fr' = ex_fs.
Proof. intros en; destruct en; eexists; vm_compute; repeat split; reflexivity. Qed.

(* premises of C16_atoms_point_to_target_lattice / C16_read_success_eq_fresh, and what comes out:
   title taken from the file name (1006), default pdffit with the parser's space group (9), the
   two parsed payloads; nothing of the prior content (title 33, scale 70, payload 5) is left *)
Example ex_success_premise : forall en, parse_of ex_good en ex_fs ex_parser = {| po_result := Ok (Some ex_ps); po_sg := Some 9 |}
  /\ In "_lattice" (map fst (p_inst ex_ps)).
Proof. intros en; destruct en; split; vm_compute; auto. Qed.
Example ex_success_run : exists fr, run_read ex_env ex_good CPDFFit ReadFile (frame_of ex_prior ex_fs 200) = Done fr
  /\ observe (observed_names ex_ps) (f_self fr)
     = {| ob_cls := CPDFFit; ob_payloads := [7; 8];
          ob_attrs := [Some (VStr 1006); Some (VDict [("scale", 1); ("spcgr", 9)]); None; Some (VLat 0 3); Some (VLat 0 3)] |}
  /\ atoms_point_to_lattice_b (f_self fr) = true
  /\ f_fs fr = ex_fs.
Proof. eexists; vm_compute; repeat split; reflexivity. Qed.
Example ex_success_fresh : exists fr, run_read ex_env ex_good CPDFFit ReadFile (frame_of (fresh ex_env CPDFFit 300) ex_fs 301) = Done fr
  /\ observe (observed_names ex_ps) (f_self fr)
     = {| ob_cls := CPDFFit; ob_payloads := [7; 8];
          ob_attrs := [Some (VStr 1006); Some (VDict [("scale", 1); ("spcgr", 9)]); None; Some (VLat 0 3); Some (VLat 0 3)] |}.
Proof. eexists; vm_compute; repeat split; reflexivity. Qed.

(* premise of C16_write_failure_keeps_file: an empty structure is refused; the file keeps its content *)
Definition ex_empty : obj := fresh ex_env CStructure 300.
Example ex_write_premise : forall p, e_getparser ex_env (g_format ex_bad) = Ok p -> forall fn, exists x, ps_tostring p fn ex_empty = Raise x.
Proof. intros p H fn. injection H as <-. exists 77. reflexivity. Qed.
Example ex_write_failure_run : exists fr', run_write ex_env ex_bad (frame_of ex_empty ex_fs 301) = Failed 77 fr' /\ f_fs fr' = ex_fs.
Proof. eexists; vm_compute; split; reflexivity. Qed.
(* and a successful write replaces the content of that file only *)
Example ex_write_success_run : exists fr', run_write ex_env ex_bad (frame_of ex_prior ex_fs 301) = Done fr' /\ f_fs fr' = [(5, 5); (6, 2)].
Proof. eexists; vm_compute; split; reflexivity. Qed.

(* the parser hands back None (P_cif on CIF text without atom sites): the used object ends up exactly
   like a new one - no atoms, default cell, title from the file name, default pdffit *)
Definition none_parser : parser :=
  {| ps_parse := fun _ => {| po_result := Ok None; po_sg := None |};
     ps_parsefile := fun _ _ => {| po_result := Ok None; po_sg := None |};
     ps_tostring := fun _ _ => Raise 77 |}.
Definition none_env : env :=
  {| e_getparser := fun _ => Ok none_parser; e_title_of := fun f => f + 1000; e_open_w := fun _ => Ok tt;
     e_default_pdffit := [("scale", 1); ("spcgr", 2)]; e_default_cell := 1; e_new_lattice := 900 |}.
Example ex_none_result_run : exists fr fr',
  run_read none_env ex_good CPDFFit ReadFile (frame_of ex_prior ex_fs 200) = Done fr /\
  run_read none_env ex_good CPDFFit ReadFile (frame_of (fresh none_env CPDFFit 300) ex_fs 301) = Done fr' /\
  observe (observed_names (effective none_env None)) (f_self fr)
    = {| ob_cls := CPDFFit; ob_payloads := [];
         ob_attrs := [Some (VStr 1006); Some (VDict [("scale", 1); ("spcgr", 2)]); None; Some (VLat 0 1); Some (VLat 0 1)] |} /\
  observe (observed_names (effective none_env None)) (f_self fr') = observe (observed_names (effective none_env None)) (f_self fr).
Proof. eexists. eexists. split; [vm_compute; reflexivity|]. split; [vm_compute; reflexivity|]. split; vm_compute; reflexivity. Qed.
(* without the None handling the target keeps its atoms and lattice *)
Definition no_none_handling_readstr : list effect :=
  [ EGetParser; EParse; EDropInst "title"; EDropInst "pdffit"; EDropInst "xcfg"; EInitSelf;
    EGuardParsed EUpdateDict; EGuardParsed ESetAllItems; EReturnParser ].
Example no_none_handling_refuted :
  match run0 none_env ex_good no_none_handling_readstr (frame_of ex_prior ex_fs 200) with
  | Done fr => ob_payloads (observe [] (f_self fr)) | Failed _ _ => [] end = [5].
Proof. vm_compute; reflexivity. Qed.

(* ---------- teeth ---------- *)
(* statement order of readStr before the repair of D11 (no reset of the instance title / pdffit):
   the result depends on the prior content *)
Definition unrepaired_readstr : list effect :=
  [ EGetParser; EParse; EInitSelf; EGuardParsed EUpdateDict; EGuardParsed ESetAllItems; EReturnParser ].
Definition obs_after (l : list effect) (o : obj) : option observation :=
  match run0 ex_env ex_good l (frame_of o ex_fs 400) with
  | Done fr => Some (observe (observed_names ex_ps) (f_self fr)) | Failed _ _ => None end.
Example unrepaired_order_refuted :
  exists o, obs_after unrepaired_readstr o <> obs_after unrepaired_readstr (fresh ex_env (o_cls o) 300).
Proof. exists ex_prior. vm_compute. discriminate. Qed.
(* opening the output before serialising loses the old content when the serialiser raises *)
Definition open_first_write : list effect :=
  [ EGetParser; ESetParserFilename; EOpenWrite; EToString; EWriteText; ECloseFile; EReturnNone ].
Example open_first_refuted : outcome_fs (run0 ex_env ex_bad open_first_write (frame_of ex_empty ex_fs 301)) <> ex_fs
  /\ tostring_guarded open_first_write = false.
Proof. split; vm_compute; [discriminate | reflexivity]. Qed.
(* re-initialising self before the parse has returned loses data when the parse raises *)
Definition init_first_readstr : list effect :=
  [ EGetParser; EDropInst "title"; EInitSelf; EParse; EGuardParsed EUpdateDict; EGuardParsed ESetAllItems; EReturnParser ].
Example init_first_refuted : outcome_self (run0 ex_env ex_bad init_first_readstr (frame_of ex_prior ex_fs 200)) <> ex_prior
  /\ parse_guarded ReadStr init_first_readstr = false /\ atomic_ok init_first_readstr = false.
Proof. repeat split; vm_compute; try reflexivity; discriminate. Qed.
(* copying the atoms before taking over the parsed lattice leaves them pointing to the old lattice *)
Definition items_first_readstr : list effect :=
  [ EGetParser; EParse; EDropInst "title"; EDropInst "pdffit"; EDropInst "xcfg"; EInitSelf; EGuardParsed ESetAllItems; EGuardParsed EUpdateDict; EReturnParser ].
Example items_first_refuted :
  atoms_point_to_lattice_b (outcome_self (run0 ex_env ex_good items_first_readstr (frame_of ex_prior ex_fs 200))) = false.
Proof. vm_compute; reflexivity. Qed.
