(* Kernel decision of the group axioms for shard 1 of the regenerated tables. *)
From Coq Require Import ZArith List Bool.
From DS Require Import Base.ZMat Base.SGDefs Model.GroupCheck Gen.SGTables1.
Lemma shard1_groups : forallb setting_group_ok shard1 = true.
Proof. vm_compute. reflexivity. Qed.
