From Coq Require Import ZArith List Bool.
From DS Require Import Base.ZMat Base.SGDefs Model.GroupCheck Model.C03_Type Gen.SGTables.
Lemma same_type_b : same_number_same_type known_misnumbered all_settings = true.
Proof. vm_compute. reflexivity. Qed.
(* the recorded finding: with setting #3004 ("I 1 21 1", an I-centred cell of C2 = No. 5, numbered as if it were P21 = No. 4) included, the statement is false *)
Lemma same_type_all_refuted : same_number_same_type nil all_settings = false.
Proof. vm_compute. reflexivity. Qed.
