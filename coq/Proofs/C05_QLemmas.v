(* C05/C06 - lemmas about the rational carrier of Model/C05_QBase.v *)
From Coq Require Import ZArith QArith Qabs Qround List Bool Lia Lra.
From DS Require Import Base.ZMat Base.SGDefs Model.C05_QBase.
Import ListNotations.
Open Scope Q_scope.

Ltac q3s := unfold opq, cmul in *; unfold q3eq, q3add, q3sub, q3scale, q3dot, q3zero, mq, tq, e1, e2, e3, iz in *;
            cbn [qx qy qz fst snd] in *.

Lemma q3eq_refl u : q3eq u u.
Proof. q3s; repeat split; reflexivity. Qed.
Lemma q3eq_sym u v : q3eq u v -> q3eq v u.
Proof. q3s; intros (A & B & C); repeat split; symmetry; assumption. Qed.
Lemma q3eq_trans u v w : q3eq u v -> q3eq v w -> q3eq u w.
Proof. q3s; intros (A & B & C) (D & E & F); repeat split; etransitivity; eassumption. Qed.

Lemma q3eqb_true u v : q3eqb u v = true -> q3eq u v.
Proof.
  unfold q3eqb, q3eq. rewrite !andb_true_iff. intros [[A B] C].
  apply Qeq_bool_iff in A, B, C. auto.
Qed.

(* --- integrality ------------------------------------------------------------------ *)
Lemma is_intQ_IsInt q : is_intQ q = true -> IsInt q.
Proof.
  unfold is_intQ, IsInt. intros H. apply Z.eqb_eq in H.
  exists (Qnum q / Zpos (Qden q))%Z. destruct q as [n d]. cbn [Qnum Qden] in *.
  unfold Qeq, inject_Z. cbn [Qnum Qden].
  pose proof (Z_div_mod_eq_full n (Zpos d)) as E. rewrite H in E. lia.
Qed.

Lemma IsInt_is_intQ q : IsInt q -> is_intQ q = true.
Proof.
  unfold is_intQ, IsInt. intros [z H]. apply Z.eqb_eq. destruct q as [n d].
  unfold Qeq, inject_Z in H. cbn [Qnum Qden] in *.
  assert (E : n = (z * Zpos d)%Z) by lia. rewrite E. apply Z.mod_mul. discriminate.
Qed.

Lemma is_int3_IsInt3 v : is_int3 v = true -> IsInt3 v.
Proof.
  unfold is_int3, IsInt3. rewrite !andb_true_iff. intros [[A B] C].
  auto using is_intQ_IsInt.
Qed.

Lemma IsInt3_is_int3 v : IsInt3 v -> is_int3 v = true.
Proof.
  unfold is_int3, IsInt3. intros (A & B & C). rewrite !andb_true_iff. auto using IsInt_is_intQ.
Qed.

Lemma IsInt_eq q r : q == r -> IsInt q -> IsInt r.
Proof. intros E [z H]. exists z. rewrite <- E. exact H. Qed.

Lemma IsInt3_eq u v : q3eq u v -> IsInt3 u -> IsInt3 v.
Proof. intros (A & B & C) (D & E & F). repeat split; eauto using IsInt_eq. Qed.

Lemma near_int_NearInt tol q : near_int tol q = true -> NearInt tol q.
Proof. unfold near_int, NearInt. intros H. apply Qle_bool_iff in H. eauto. Qed.

Lemma near_int3_NearInt3 tol v : near_int3 tol v = true -> NearInt3 tol v.
Proof.
  unfold near_int3, NearInt3. rewrite !andb_true_iff. intros [[A B] C]. auto using near_int_NearInt.
Qed.

Lemma NearInt_eq tol q r : q == r -> NearInt tol q -> NearInt tol r.
Proof. intros E [z H]. exists z. rewrite <- E. exact H. Qed.

Lemma NearInt3_eq tol u v : q3eq u v -> NearInt3 tol u -> NearInt3 tol v.
Proof. intros (A & B & C) (D & E & F). repeat split; eauto using NearInt_eq. Qed.

(* --- stabiliser --------------------------------------------------------------------- *)
Lemma stab_In G x g : In g (stab G x) -> In g G /\ IsInt3 (q3sub (opq g x) x).
Proof.
  unfold stab. intros H. apply filter_In in H as [H1 H2]. split; [exact H1|].
  apply is_int3_IsInt3. exact H2.
Qed.

Lemma In_stab G x g : In g G -> IsInt3 (q3sub (opq g x) x) -> In g (stab G x).
Proof.
  intros H1 H2. unfold stab. apply filter_In. split; [exact H1|].
  apply IsInt3_is_int3. exact H2.
Qed.

(* --- linear combinations -------------------------------------------------------------- *)
Lemma lin_fixed R N p : (forall n, In n N -> q3eq (mq R n) n) -> q3eq (mq R (lin N p)) (lin N p).
Proof.
  revert p. induction N as [|n N IH]; intros p H.
  - cbn [lin]. q3s. repeat split; ring.
  - destruct p as [|a p]; [cbn [lin]; q3s; repeat split; ring|].
    cbn [lin]. pose proof (H n (or_introl eq_refl)) as Hn.
    specialize (IH p (fun m Hm => H m (or_intror Hm))).
    destruct n as [nx ny nz]. remember (lin N p) as L. destruct L as [lx ly lz].
    destruct R as [r11 r12 r13 r21 r22 r23 r31 r32 r33].
    q3s. cbn [m11 m12 m13 m21 m22 m23 m31 m32 m33] in *.
    destruct Hn as (H1 & H2 & H3). destruct IH as (I1 & I2 & I3).
    repeat split.
    + rewrite <- H1 at 2. rewrite <- I1 at 2. ring.
    + rewrite <- H2 at 2. rewrite <- I2 at 2. ring.
    + rewrite <- H3 at 2. rewrite <- I3 at 2. ring.
Qed.

Lemma lin_agree R1 R2 N p :
  (forall n, In n N -> q3eq (mq R1 n) (mq R2 n)) -> q3eq (mq R1 (lin N p)) (mq R2 (lin N p)).
Proof.
  revert p. induction N as [|n N IH]; intros p H.
  - cbn [lin]. q3s. repeat split; ring.
  - destruct p as [|a p]; [cbn [lin]; q3s; repeat split; ring|].
    cbn [lin]. pose proof (H n (or_introl eq_refl)) as Hn.
    specialize (IH p (fun m Hm => H m (or_intror Hm))).
    destruct n as [nx ny nz]. remember (lin N p) as L. destruct L as [lx ly lz].
    destruct R1 as [r11 r12 r13 r21 r22 r23 r31 r32 r33].
    destruct R2 as [s11 s12 s13 s21 s22 s23 s31 s32 s33].
    q3s. cbn [m11 m12 m13 m21 m22 m23 m31 m32 m33] in *.
    destruct Hn as (H1 & H2 & H3). destruct IH as (I1 & I2 & I3).
    repeat split.
    + transitivity (a * (inject_Z r11 * nx + inject_Z r12 * ny + inject_Z r13 * nz)
                    + (inject_Z r11 * lx + inject_Z r12 * ly + inject_Z r13 * lz)); [ring|].
      rewrite H1, I1. ring.
    + transitivity (a * (inject_Z r21 * nx + inject_Z r22 * ny + inject_Z r23 * nz)
                    + (inject_Z r21 * lx + inject_Z r22 * ly + inject_Z r23 * lz)); [ring|].
      rewrite H2, I2. ring.
    + transitivity (a * (inject_Z r31 * nx + inject_Z r32 * ny + inject_Z r33 * nz)
                    + (inject_Z r31 * lx + inject_Z r32 * ly + inject_Z r33 * lz)); [ring|].
      rewrite H3, I3. ring.
Qed.

(* q3dot respects componentwise equality in its second argument *)
Lemma q3dot_eq f u v : q3eq u v -> q3dot f u == q3dot f v.
Proof. q3s. intros (A & B & C). rewrite A, B, C. reflexivity. Qed.

Lemma dot_lin_zero f N a : (forall n, In n N -> q3dot f n == 0) -> q3dot f (lin N a) == 0.
Proof.
  revert a. induction N as [|n N IH]; intros a H.
  - cbn [lin]. q3s. ring.
  - destruct a as [|a0 a]; [cbn [lin]; q3s; ring|].
    cbn [lin]. pose proof (H n (or_introl eq_refl)) as Hn.
    specialize (IH a (fun m Hm => H m (or_intror Hm))).
    destruct n as [nx ny nz]. remember (lin N a) as L. destruct L as [lx ly lz].
    destruct f as [fx fy fz]. q3s.
    transitivity (a0 * (fx * nx + fy * ny + fz * nz) + (fx * lx + fy * ly + fz * lz)); [ring|].
    rewrite Hn, IH. ring.
Qed.

(* --- canonical forms modulo 1 ------------------------------------------------------------------ *)
Lemma qsame_eq a b : qsame a b = true -> a = b.
Proof.
  destruct a as [n d], b as [m e]. unfold qsame. cbn [Qnum Qden]. rewrite andb_true_iff.
  intros [H1 H2]. apply Z.eqb_eq in H1. apply Pos.eqb_eq in H2. subst. reflexivity.
Qed.

Lemma qsame_refl a : qsame a a = true.
Proof. destruct a as [n d]. unfold qsame. cbn [Qnum Qden]. rewrite Z.eqb_refl, Pos.eqb_refl. reflexivity. Qed.

Lemma q3same_eq u v : q3same u v = true -> u = v.
Proof.
  destruct u as [u1 u2 u3], v as [w1 w2 w3]. unfold q3same. cbn [qx qy qz]. rewrite !andb_true_iff. intros [[A B] C].
  apply qsame_eq in A, B, C. subst. reflexivity.
Qed.

Lemma qcanon_cong a b : qcanon a = qcanon b -> IsInt (a - b).
Proof.
  unfold qcanon. intros H. exists (Qfloor a - Qfloor b)%Z.
  assert (E : a - inject_Z (Qfloor a) == b - inject_Z (Qfloor b)).
  { rewrite <- (Qred_correct (a - inject_Z (Qfloor a))), <- (Qred_correct (b - inject_Z (Qfloor b))), H. reflexivity. }
  unfold Z.sub. rewrite inject_Z_plus, inject_Z_opp.
  transitivity ((a - inject_Z (Qfloor a)) - (b - inject_Z (Qfloor b)) + inject_Z (Qfloor a) - inject_Z (Qfloor b)); [ring|].
  rewrite E. ring.
Qed.

Lemma Qfloor_unique x n : inject_Z n <= x -> x < inject_Z (n + 1) -> Qfloor x = n.
Proof.
  intros H1 H2.
  assert (A : (n <= Qfloor x)%Z).
  { rewrite <- (Qfloor_Z n). apply Qfloor_resp_le. exact H1. }
  assert (B : (Qfloor x < n + 1)%Z).
  { rewrite Zlt_Qlt. eapply Qle_lt_trans; [apply Qfloor_le | exact H2]. }
  lia.
Qed.

Lemma Qfloor_shift a b z : a - b == inject_Z z -> Qfloor a = (Qfloor b + z)%Z.
Proof.
  intros H. apply Qfloor_unique.
  - rewrite inject_Z_plus. pose proof (Qfloor_le b) as L.
    assert (E : a == b + inject_Z z) by (rewrite <- H; ring). rewrite E.
    apply Qplus_le_l. exact L.
  - replace (Qfloor b + z + 1)%Z with ((Qfloor b + 1) + z)%Z by ring. rewrite inject_Z_plus.
    pose proof (Qlt_floor b) as L.
    assert (E : a == b + inject_Z z) by (rewrite <- H; ring). rewrite E.
    apply Qplus_lt_l. exact L.
Qed.

Lemma cong_qcanon a b : IsInt (a - b) -> qcanon a = qcanon b.
Proof.
  intros [z H]. unfold qcanon. apply Qred_complete.
  rewrite (Qfloor_shift a b z H). rewrite inject_Z_plus.
  transitivity ((a - b) + b - inject_Z (Qfloor b) - inject_Z z); [ring|]. rewrite H. ring.
Qed.

Lemma q3canon_cong u v : q3canon u = q3canon v -> IsInt3 (q3sub u v).
Proof.
  destruct u as [u1 u2 u3], v as [w1 w2 w3]. unfold q3canon, IsInt3, q3sub. cbn [qx qy qz]. intros H. injection H as A B C.
  auto using qcanon_cong.
Qed.

Lemma cong_q3canon u v : IsInt3 (q3sub u v) -> q3canon u = q3canon v.
Proof.
  destruct u as [u1 u2 u3], v as [w1 w2 w3]. unfold q3canon, IsInt3, q3sub. cbn [qx qy qz]. intros (A & B & C).
  rewrite (cong_qcanon _ _ A), (cong_qcanon _ _ B), (cong_qcanon _ _ C). reflexivity.
Qed.

Lemma q3same_refl u : q3same u u = true.
Proof. destruct u as [u1 u2 u3]. unfold q3same. cbn [qx qy qz]. rewrite !qsame_refl. reflexivity. Qed.
