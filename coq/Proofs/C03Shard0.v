(* Kernel decision of the group axioms for shard 0 of the regenerated tables. *)
From Coq Require Import ZArith List Bool.
From DS Require Import Base.ZMat Base.SGDefs Model.GroupCheck Gen.SGTables0.
Lemma shard0_groups : forallb setting_group_ok shard0 = true.
Proof. vm_compute. reflexivity. Qed.
