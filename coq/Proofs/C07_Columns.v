(* C07 - column order.  The translators of one row are applied in the order of the loop's columns; the result does
   not depend on that order for the loops delimited below (numbers are reals, the lattice satisfies
   cartesian(fractional c) = c and has a positive tolerance):
     site loop : item names pairwise distinct in effect (no two columns with the same target), no anisotropic
                 U/B component columns inside the site loop, not both fractional and Cartesian coordinates,
                 type symbols that give a non-empty element;
     aniso loop: component columns pairwise distinct, applied to an atom whose anisotropy flag is on.
   Outside these conditions the order DOES matter, in the model and in the code (Proofs/C07_Witness.v). *)
From Coq Require Import ZArith List Bool Ascii String Reals Lra Lia Permutation.
From DS Require Import Base.ZMat Base.SGDefs Base.RMat Base.C09_GNum Model.GroupCheck Model.C02_Orbit.
From DS Require Import Model.C09_Prims Gen.C09_AtomFormulas Model.C09_AtomADP Model.C11_LookupDefs Proofs.C09_Machine.
From DS Require Import Model.C07_Text Model.C07_SymopText Model.C07_SpecDefs Gen.C07_CifSpec Model.C07_CifRead.
Import ListNotations.

(* ---------- folding a list of commuting updates ---------- *)
Lemma fold_left_perm {A B} (f : A -> B -> A) (P : A -> Prop) (l l' : list B) :
  Permutation l l' ->
  (forall x y a, In x l -> In y l -> P a -> f (f a x) y = f (f a y) x) ->
  (forall x a, In x l -> P a -> P (f a x)) ->
  forall a, P a -> fold_left f l a = fold_left f l' a.
Proof.
  intros Hp. induction Hp as [|x l l' Hp IH|x y l|l l' l'' Hp1 IH1 Hp2 IH2]; intros Hc Hi a Ha.
  - reflexivity.
  - cbn [fold_left]. apply IH.
    + intros u v b Hu Hv Hb. apply Hc; [right; exact Hu | right; exact Hv | exact Hb].
    + intros u b Hu Hb. apply Hi; [right; exact Hu | exact Hb].
    + apply Hi; [left; reflexivity | exact Ha].
  - cbn [fold_left]. rewrite (Hc y x a); [reflexivity | left; reflexivity | right; left; reflexivity | exact Ha].
  - rewrite (IH1 Hc Hi a Ha). apply IH2.
    + intros u v b Hu Hv Hb. apply Hc; [apply (Permutation_in _ (Permutation_sym Hp1)); exact Hu | apply (Permutation_in _ (Permutation_sym Hp1)); exact Hv | exact Hb].
    + intros u b Hu Hb. apply Hi; [apply (Permutation_in _ (Permutation_sym Hp1)); exact Hu | exact Hb].
    + exact Ha.
Qed.

Lemma NoDup_map_inj_on {A B} (f : A -> B) (l : list A) x y : NoDup (map f l) -> In x l -> In y l -> f x = f y -> x = y.
Proof.
  induction l as [|z l IH]; intros Hn Hx Hy He; [destruct Hx|].
  cbn [map] in Hn. apply NoDup_cons_iff in Hn as [Hz Hn].
  destruct Hx as [<-|Hx], Hy as [<-|Hy].
  - reflexivity.
  - exfalso. apply Hz. rewrite He. apply in_map. exact Hy.
  - exfalso. apply Hz. rewrite <- He. apply in_map. exact Hx.
  - apply IH; assumption.
Qed.

Lemma filter_map_comm {A B} (f : A -> B) (q : B -> bool) (l : list A) : filter q (map f l) = map f (filter (fun x => q (f x)) l).
Proof. induction l as [|x l IH]; [reflexivity|]. cbn [map filter]. destruct (q (f x)); cbn [map]; rewrite IH; reflexivity. Qed.

Definition name6_eq_dec (a b : name6) : {a = b} + {a <> b}.
Proof. decide equality. Defined.

Section Columns.
Variable eps : R.
Hypothesis eps_pos : (0 < eps)%R.
Variable lat : latdata R.
Variable recbase : gmat R.
Variable Dz : Z.
Variable grid : R -> Z.
Variable dcv : dec -> R.
Hypothesis lat_eps : (0 < l_epsilon lat)%R.
Let E : env (T:=R) := Env (RC eps) lat recbase Dz grid dcv.
(* the lattice's fractional() undoes cartesian() : recbase is the inverse of base *)
Hypothesis cart_frac : forall c, cartesian E (fractional E c) = c.

Notation pair := (setter * val (T:=R))%type.
Definition tgt (p : pair) : target := s_target (fst p).
Definition is_ignore (t : target) : bool := match t with TIgnore => true | _ => false end.
Definition is_fract (t : target) : bool := match t with TFract _ => true | _ => false end.
Definition is_cartn (t : target) : bool := match t with TCartn _ => true | _ => false end.
Definition is_uij (t : target) : bool := match t with TUij _ => true | _ => false end.

Definition distinct_targets (r : list pair) : Prop := NoDup (filter (fun t => negb (is_ignore t)) (map tgt r)).

Lemma same_target_eq r x y : distinct_targets r -> In x r -> In y r -> tgt x = tgt y -> is_ignore (tgt x) = false -> x = y.
Proof.
  unfold distinct_targets. rewrite filter_map_comm. intros Hn Hx Hy He Hi.
  apply (NoDup_map_inj_on tgt _ x y Hn); [| | exact He]; apply filter_In; split; try assumption.
  - rewrite Hi. reflexivity.
  - rewrite <- He, Hi. reflexivity.
Qed.

(* ---------- a row is the product of four independent folds ---------- *)
Definition lab_step (le : string * string) (p : pair) := step_lab p le.
Definition xyz_step (x : gvec R) (p : pair) := step_xyz E p x.
Definition occ_step (o : R) (p : pair) := step_occ E p o.
Definition adp_step (s : astate R) (p : pair) := step_adp E p s.

Lemma run_row_components r : forall a,
  run_row E a r =
  RA (fst (fold_left lab_step r (a_label a, a_elem a))) (snd (fold_left lab_step r (a_label a, a_elem a)))
     (fold_left xyz_step r (a_xyz a)) (fold_left occ_step r (a_occ a)) (fold_left adp_step r (a_adp a)).
Proof.
  induction r as [|p r IH]; intros a; [destruct a; reflexivity|].
  cbn [run_row fold_left]. change (fold_left (step_atom E) r (step_atom E a p)) with (run_row E (step_atom E a p) r).
  rewrite IH. unfold step_atom. cbn [a_label a_elem a_xyz a_occ a_adp fold_left].
  change (lab_step (a_label a, a_elem a) p) with (step_lab p (a_label a, a_elem a)).
  destruct (step_lab p (a_label a, a_elem a)) as [l e]. reflexivity.
Qed.

(* ---------- label / element ---------- *)
Definition symbols_ok (r : list pair) : Prop :=
  forall p s, In p r -> tgt p = TTypeSymbol -> snd p = VStr s -> element_of s <> EmptyString.

Lemma lab_comm r x y le : distinct_targets r -> symbols_ok r -> In x r -> In y r ->
  lab_step (lab_step le x) y = lab_step (lab_step le y) x.
Proof.
  intros Hd Hs Hx Hy. unfold lab_step, step_lab.
  destruct (tgt x) eqn:Tx; unfold tgt in Tx; rewrite Tx; try reflexivity;
  destruct (tgt y) eqn:Ty; unfold tgt in Ty; rewrite Ty; try reflexivity;
  try (destruct (snd x); reflexivity); try (destruct (snd y); destruct (snd x); reflexivity).
  - (* label, label: the same column *)
    assert (x = y) by (apply (same_target_eq r); unfold tgt; try assumption; [rewrite Tx, Ty; reflexivity | rewrite Tx; reflexivity]).
    subst y. reflexivity.
  - (* label then symbol *)
    destruct (snd x) as [sx| | |] eqn:Vx; try reflexivity; destruct (snd y) as [sy| | |] eqn:Vy; try reflexivity.
    cbn [fst snd]. pose proof (Hs y sy Hy Ty Vy) as Hne.
    destruct (String.eqb (element_of sy) EmptyString) eqn:Ee; [apply String.eqb_eq in Ee; contradiction|]. reflexivity.
  - (* symbol then label *)
    destruct (snd x) as [sx| | |] eqn:Vx; try reflexivity; destruct (snd y) as [sy| | |] eqn:Vy; try reflexivity.
    cbn [fst snd]. pose proof (Hs x sx Hx Tx Vx) as Hne.
    destruct (String.eqb (element_of sx) EmptyString) eqn:Ee; [apply String.eqb_eq in Ee; contradiction|]. reflexivity.
  - (* symbol, symbol: the same column *)
    assert (x = y) by (apply (same_target_eq r); unfold tgt; try assumption; [rewrite Tx, Ty; reflexivity | rewrite Tx; reflexivity]).
    subst y. reflexivity.
Qed.

(* ---------- coordinates ---------- *)
Definition coords_ok (r : list pair) : Prop :=
  forall p q, In p r -> In q r -> is_fract (tgt p) = true -> is_cartn (tgt q) = true -> False.

Lemma vset_comm (x : gvec R) i j a b : i <> j -> vset (vset x i a) j b = vset (vset x j b) i a.
Proof. intros H. destruct x; destruct i, j; try contradiction; reflexivity. Qed.

Definition pair_coords_ok (x y : pair) : Prop :=
  (is_fract (tgt x) = true -> is_cartn (tgt y) = true -> False) /\ (is_fract (tgt y) = true -> is_cartn (tgt x) = true -> False).

Lemma xyz_comm_pair r x y v : distinct_targets r -> pair_coords_ok x y -> In x r -> In y r ->
  xyz_step (xyz_step v x) y = xyz_step (xyz_step v y) x.
Proof.
  intros Hd [Hc1 Hc2] Hx Hy. unfold xyz_step, step_xyz.
  destruct (tgt x) eqn:Tx; unfold tgt in Tx; rewrite Tx; try reflexivity;
  destruct (tgt y) eqn:Ty; unfold tgt in Ty; rewrite Ty; try reflexivity.
  - destruct (idx_eqb i i0) eqn:Ei.
    + assert (i = i0) by (destruct i, i0; try discriminate; reflexivity). subst i0.
      assert (x = y) by (apply (same_target_eq r); unfold tgt; try assumption; [rewrite Tx, Ty; reflexivity | rewrite Tx; reflexivity]).
      subst y. reflexivity.
    + apply vset_comm. intros ->. destruct i0; discriminate.
  - exfalso. apply Hc1; reflexivity.
  - exfalso. apply Hc2; reflexivity.
  - rewrite !cart_frac. destruct (idx_eqb i i0) eqn:Ei.
    + assert (i = i0) by (destruct i, i0; try discriminate; reflexivity). subst i0.
      assert (x = y) by (apply (same_target_eq r); unfold tgt; try assumption; [rewrite Tx, Ty; reflexivity | rewrite Tx; reflexivity]).
      subst y. reflexivity.
    + f_equal. apply vset_comm. intros ->. destruct i0; discriminate.
Qed.

Lemma xyz_comm r x y v : distinct_targets r -> coords_ok r -> In x r -> In y r ->
  xyz_step (xyz_step v x) y = xyz_step (xyz_step v y) x.
Proof.
  intros Hd Hc Hx Hy. apply (xyz_comm_pair r); try assumption. split; intros H1 H2; [exact (Hc x y Hx Hy H1 H2) | exact (Hc y x Hy Hx H1 H2)].
Qed.

(* ---------- occupancy ---------- *)
Lemma occ_comm r x y o : distinct_targets r -> In x r -> In y r -> occ_step (occ_step o x) y = occ_step (occ_step o y) x.
Proof.
  intros Hd Hx Hy. unfold occ_step, step_occ.
  destruct (tgt x) eqn:Tx; unfold tgt in Tx; rewrite Tx; try reflexivity;
  destruct (tgt y) eqn:Ty; unfold tgt in Ty; rewrite Ty; try reflexivity.
  assert (x = y) by (apply (same_target_eq r); unfold tgt; try assumption; [rewrite Tx, Ty; reflexivity | rewrite Tx; reflexivity]).
  subst y. reflexivity.
Qed.


(* ---------- displacement parameters, site loop: type and isotropic value, from a fresh atom ---------- *)
Definition init_adp : astate R := AS (gzero ROps) false (Some lat).
Definition adp_flag (v : string) : bool := negb (existsb (String.eqb v) iso_adp_values).
Definition canon (ou : option R) (ot : option bool) : astate R :=
  match ou, ot with
  | None, None => init_adp
  | Some u, None => set_Uisoequiv (RC eps) init_adp u
  | None, Some b => set_anisotropy (RC eps) init_adp b
  | Some u, Some b => set_anisotropy (RC eps) (set_Uisoequiv (RC eps) init_adp u) b
  end.

(* the one place where two translators do not commute in general but do on a fresh atom *)
Lemma type_then_value u b :
  set_Uisoequiv (RC eps) (set_anisotropy (RC eps) init_adp b) u = set_anisotropy (RC eps) (set_Uisoequiv (RC eps) init_adp u) b.
Proof.
  destruct b.
  - unfold init_adp. gen_unfold. g_simpl.
    match goal with |- context [Rltb (Rabs ?x) _] => replace x with 0%R by (unfold Rdiv; ring) end.
    rewrite Rabs_R0. destruct (Rltb 0 (l_epsilon lat)) eqn:El; [|apply Rltb_false in El; lra].
    reflexivity.
  - unfold init_adp. gen_unfold. reflexivity.
Qed.

Definition is_uiso (p : pair) : bool := match tgt p with TUisoequiv => true | _ => false end.
Definition is_type (p : pair) : bool := match tgt p, snd p with TAdpType, VStr _ => true | _, _ => false end.
Definition type_flag (p : pair) : bool := match snd p with VStr v => adp_flag v | _ => false end.
Definition no_uij (r : list pair) : Prop := forall p, In p r -> is_uij (tgt p) = false.
Definition merge {A} (o o' : option A) : option A := match o with Some _ => o | None => o' end.

Lemma filter_nil_forall {A} (q : A -> bool) l : filter q l = [] -> forall x, In x l -> q x = false.
Proof.
  induction l as [|y l IH]; intros H x Hx; [destruct Hx|]. cbn [filter] in H. destruct (q y) eqn:Ey; [discriminate|].
  destruct Hx as [<-|Hx]; [exact Ey | apply IH; assumption].
Qed.
Lemma find_none_filter {A} (q : A -> bool) l : filter q l = [] -> find q l = None.
Proof. induction l as [|y l IH]; [reflexivity|]. cbn [filter find]. destruct (q y); [discriminate | exact IH]. Qed.
Lemma find_hd_filter {A} (q : A -> bool) l : find q l = hd_error (filter q l).
Proof. induction l as [|y l IH]; [reflexivity|]. cbn [filter find]. destruct (q y); [reflexivity | exact IH]. Qed.

Lemma adp_fold_canon : forall r ou ot,
  no_uij r ->
  (List.length (filter is_uiso r) <= 1)%nat -> (List.length (filter is_type r) <= 1)%nat ->
  (ou <> None -> filter is_uiso r = []) -> (ot <> None -> filter is_type r = []) ->
  fold_left adp_step r (canon ou ot) =
  canon (merge ou (option_map (num_val E) (find is_uiso r))) (merge ot (option_map type_flag (find is_type r))).
Proof.
  induction r as [|p r IH]; intros ou ot Hn Hc1 Hc2 Hu Ht.
  - cbn. destruct ou, ot; reflexivity.
  - cbn [fold_left find]. cbn [filter] in Hc1, Hc2, Hu, Ht.
    assert (Hn' : no_uij r) by (intros q Hq; apply Hn; right; exact Hq).
    assert (Huij : is_uij (tgt p) = false) by (apply Hn; left; reflexivity).
    destruct (is_uiso p) eqn:Eu.
    + assert (ou = None) by (destruct ou; [|reflexivity]; specialize (Hu ltac:(discriminate)); discriminate). subst ou.
      assert (Et : is_type p = false) by (unfold is_uiso, is_type in *; destruct (tgt p); try discriminate; reflexivity).
      rewrite Et in *. cbn [merge option_map List.length] in *.
      assert (Hr : filter is_uiso r = []) by (destruct (filter is_uiso r); [reflexivity | cbn [List.length] in Hc1; lia]).
      assert (Hstep : adp_step (canon None ot) p = canon (Some (num_val E p)) ot).
      { unfold adp_step, step_adp. unfold is_uiso, tgt in Eu. destruct (s_target (fst p)); try discriminate.
        destruct ot as [b|]; cbn [canon]; [apply type_then_value | reflexivity]. }
      rewrite Hstep, IH; try assumption.
      * cbn [merge]. reflexivity.
      * rewrite Hr. cbn. lia.
      * intros _. exact Hr.
    + destruct (is_type p) eqn:Et.
      * assert (ot = None) by (destruct ot; [|reflexivity]; specialize (Ht ltac:(discriminate)); discriminate). subst ot.
        cbn [merge option_map List.length] in *.
        assert (Hr : filter is_type r = []) by (destruct (filter is_type r); [reflexivity | cbn [List.length] in Hc2; lia]).
        assert (Hstep : adp_step (canon ou None) p = canon ou (Some (type_flag p))).
        { unfold adp_step, step_adp, type_flag. unfold is_type, tgt in Et. destruct (s_target (fst p)); try discriminate.
          destruct (snd p) as [v| | |]; try discriminate. destruct ou; reflexivity. }
        rewrite Hstep, IH; try assumption.
        -- destruct ou; reflexivity.
        -- rewrite Hr. cbn. lia.
        -- intros _. exact Hr.
      * assert (Hstep : adp_step (canon ou ot) p = canon ou ot).
        { unfold adp_step, step_adp. unfold is_uiso, is_type, is_uij, tgt in *.
          destruct (s_target (fst p)); try discriminate; try reflexivity. destruct (snd p); try discriminate; reflexivity. }
        rewrite Hstep. apply IH; assumption.
Qed.

Lemma once_uiso r : distinct_targets r -> (List.length (filter is_uiso r) <= 1)%nat.
Proof.
  unfold distinct_targets. induction r as [|p r IH]; intros Hd; [cbn; lia|]. cbn [filter map] in *.
  destruct (is_uiso p) eqn:Eu.
  - assert (Tp : tgt p = TUisoequiv) by (unfold is_uiso in Eu; destruct (tgt p); try discriminate; reflexivity).
    rewrite Tp in Hd. cbn [is_ignore negb] in Hd. apply NoDup_cons_iff in Hd as [Hnot _].
    assert (Hr : filter is_uiso r = []).
    { destruct (filter is_uiso r) as [|q l] eqn:Ef; [reflexivity|]. exfalso. apply Hnot.
      assert (Hq : In q (filter is_uiso r)) by (rewrite Ef; left; reflexivity). apply filter_In in Hq as [Hq1 Hq2].
      apply filter_In. split; [|reflexivity]. unfold is_uiso in Hq2. destruct (tgt q) eqn:Tq; try discriminate.
      rewrite <- Tq. apply in_map. exact Hq1. }
    rewrite Hr. cbn. lia.
  - apply IH. destruct (negb (is_ignore (tgt p))); [apply NoDup_cons_iff in Hd as [_ Hd]; exact Hd | exact Hd].
Qed.
Lemma once_type r : distinct_targets r -> (List.length (filter is_type r) <= 1)%nat.
Proof.
  unfold distinct_targets. induction r as [|p r IH]; intros Hd; [cbn; lia|]. cbn [filter map] in *.
  destruct (is_type p) eqn:Eu.
  - assert (Tp : tgt p = TAdpType) by (unfold is_type in Eu; destruct (tgt p); try discriminate; reflexivity).
    rewrite Tp in Hd. cbn [is_ignore negb] in Hd. apply NoDup_cons_iff in Hd as [Hnot _].
    assert (Hr : filter is_type r = []).
    { destruct (filter is_type r) as [|q l] eqn:Ef; [reflexivity|]. exfalso. apply Hnot.
      assert (Hq : In q (filter is_type r)) by (rewrite Ef; left; reflexivity). apply filter_In in Hq as [Hq1 Hq2].
      apply filter_In. split; [|reflexivity]. unfold is_type in Hq2. destruct (tgt q) eqn:Tq; try discriminate.
      rewrite <- Tq. apply in_map. exact Hq1. }
    rewrite Hr. cbn. lia.
  - apply IH. destruct (negb (is_ignore (tgt p))); [apply NoDup_cons_iff in Hd as [_ Hd]; exact Hd | exact Hd].
Qed.

Lemma perm_filter {A} (q : A -> bool) l l' : Permutation l l' -> Permutation (filter q l) (filter q l').
Proof.
  intros H. induction H as [|x l l' H IH|x y l|l l' l'' H1 IH1 H2 IH2]; cbn [filter].
  - constructor.
  - destruct (q x); [constructor|]; exact IH.
  - destruct (q x), (q y); try apply Permutation_refl. apply perm_swap.
  - exact (Permutation_trans IH1 IH2).
Qed.
Lemma find_perm_once {A} (q : A -> bool) l l' : Permutation l l' -> (List.length (filter q l) <= 1)%nat -> find q l = find q l'.
Proof.
  intros Hp Hl. rewrite !find_hd_filter. pose proof (perm_filter q l l' Hp) as Hf.
  destruct (filter q l) as [|x [|y t]] eqn:E1.
  - apply Permutation_nil in Hf. rewrite Hf. reflexivity.
  - apply Permutation_length_1_inv in Hf. rewrite Hf. reflexivity.
  - cbn in Hl. lia.
Qed.

Lemma distinct_perm r r' : Permutation r r' -> distinct_targets r -> distinct_targets r'.
Proof.
  unfold distinct_targets. intros Hp Hd. eapply Permutation_NoDup; [|exact Hd]. apply perm_filter. apply Permutation_map. exact Hp.
Qed.

Lemma adp_site_perm r r' : Permutation r r' -> distinct_targets r -> no_uij r ->
  fold_left adp_step r' init_adp = fold_left adp_step r init_adp.
Proof.
  intros Hp Hd Hn. change init_adp with (canon None None).
  assert (Hd' : distinct_targets r') by (eapply distinct_perm; eassumption).
  assert (Hn' : no_uij r') by (intros p Hp'; apply Hn; apply (Permutation_in _ (Permutation_sym Hp)); exact Hp').
  rewrite !adp_fold_canon; try assumption; try (apply once_uiso; assumption); try (apply once_type; assumption);
    try (intros H; contradiction H; reflexivity).
  rewrite (find_perm_once is_uiso r r' Hp (once_uiso r Hd)), (find_perm_once is_type r r' Hp (once_type r Hd)). reflexivity.
Qed.

(* ---------- displacement parameters, aniso loop: components of an anisotropic atom ---------- *)
Definition only_uij (r : list pair) : Prop := forall p, In p r -> is_uiso p = false /\ tgt p <> TAdpType.

Lemma set_Un_flag n s v : st_aniso s = true -> st_aniso (set_Un (RC eps) n s v) = true.
Proof. intros H. destruct s as [U fl lt]. cbn in H. subst fl. destruct n; gen_unfold; reflexivity. Qed.

Lemma set_Un_comm n m s a b : n <> m -> st_aniso s = true ->
  set_Un (RC eps) m (set_Un (RC eps) n s a) b = set_Un (RC eps) n (set_Un (RC eps) m s b) a.
Proof.
  intros Hnm H. destruct s as [U fl lt]. cbn in H. subst fl. dgm U.
  destruct n, m; try contradiction; gen_unfold; g_simpl; reflexivity.
Qed.

Lemma adp_aniso_flag r x s : only_uij r -> In x r -> st_aniso s = true -> st_aniso (adp_step s x) = true.
Proof.
  intros Ho Hx Hs. destruct (Ho x Hx) as [H1 H2]. unfold adp_step, step_adp. unfold is_uiso, tgt in *.
  destruct (s_target (fst x)); try discriminate; try exact Hs; try (contradiction H2; reflexivity).
  apply set_Un_flag. exact Hs.
Qed.

Lemma adp_aniso_comm r x y s : distinct_targets r -> only_uij r -> In x r -> In y r -> st_aniso s = true ->
  adp_step (adp_step s x) y = adp_step (adp_step s y) x.
Proof.
  intros Hd Ho Hx Hy Hs. destruct (Ho x Hx) as [X1 X2], (Ho y Hy) as [Y1 Y2].
  unfold adp_step, step_adp. unfold is_uiso in *.
  destruct (tgt x) eqn:Tx; unfold tgt in Tx; rewrite Tx in *; try discriminate; try (contradiction X2; reflexivity); try reflexivity;
  destruct (tgt y) eqn:Ty; unfold tgt in Ty; rewrite Ty in *; try discriminate; try (contradiction Y2; reflexivity); try reflexivity.
  destruct (name6_eq_dec n n0) as [->|Hne].
  - assert (x = y) by (apply (same_target_eq r); unfold tgt; try assumption; [rewrite Tx, Ty; reflexivity | rewrite Tx; reflexivity]).
    subst y. reflexivity.
  - apply set_Un_comm; assumption.
Qed.

(* ---------- fractional versus Cartesian coordinates ---------- *)
(* the three Cartesian columns holding cartesian(p), in any order, leave the atom at p, as the three fractional
   columns holding p do; needs fractional(cartesian p) = p as well *)
Definition fract_cols (p : gvec R) : list pair :=
  [(Setter (TFract i0) SOne (Dec 0 0), VNum (x0 p)); (Setter (TFract i1) SOne (Dec 0 0), VNum (x1 p)); (Setter (TFract i2) SOne (Dec 0 0), VNum (x2 p))].
Definition cartn_cols (c : gvec R) : list pair :=
  [(Setter (TCartn i0) SOne (Dec 0 0), VNum (x0 c)); (Setter (TCartn i1) SOne (Dec 0 0), VNum (x1 c)); (Setter (TCartn i2) SOne (Dec 0 0), VNum (x2 c))].

Theorem fract_vs_cartn p x : fractional E (cartesian E p) = p ->
  fold_left xyz_step (cartn_cols (cartesian E p)) x = p /\ fold_left xyz_step (fract_cols p) x = p.
Proof.
  intros Hfc. split.
  - unfold cartn_cols. cbn [fold_left]. unfold xyz_step, step_xyz, num_val. cbn [fst snd s_target s_scale].
    rewrite !cart_frac. rewrite <- Hfc at 4. f_equal.
  - unfold fract_cols. cbn [fold_left]. unfold xyz_step, step_xyz, num_val. cbn [fst snd s_target s_scale].
    destruct x, p. reflexivity.
Qed.

(* ---------- one row ---------- *)
Definition site_ok (r : list pair) : Prop := distinct_targets r /\ symbols_ok r /\ coords_ok r /\ no_uij r.
Definition aniso_ok (r : list pair) : Prop := distinct_targets r /\ symbols_ok r /\ coords_ok r /\ only_uij r.

Lemma common_components r r' : Permutation r r' -> distinct_targets r -> symbols_ok r -> coords_ok r ->
  forall le x o, fold_left lab_step r' le = fold_left lab_step r le /\ fold_left xyz_step r' x = fold_left xyz_step r x /\
                 fold_left occ_step r' o = fold_left occ_step r o.
Proof.
  intros Hp Hd Hs Hc le x o. repeat split; symmetry.
  - apply (fold_left_perm lab_step (fun _ => True)); auto. intros u v a Hu Hv _. apply (lab_comm r); assumption.
  - apply (fold_left_perm xyz_step (fun _ => True)); auto. intros u v a Hu Hv _. apply (xyz_comm r); assumption.
  - apply (fold_left_perm occ_step (fun _ => True)); auto. intros u v a Hu Hv _. apply (occ_comm r); assumption.
Qed.

Theorem site_row_order r r' : Permutation r r' -> site_ok r -> run_row E (init_atom E) r' = run_row E (init_atom E) r.
Proof.
  intros Hp [Hd [Hs [Hc Hn]]]. rewrite !run_row_components.
  destruct (common_components r r' Hp Hd Hs Hc (a_label (init_atom E), a_elem (init_atom E)) (a_xyz (init_atom E)) (a_occ (init_atom E))) as [H1 [H2 H3]].
  rewrite H1, H2, H3. f_equal. exact (adp_site_perm r r' Hp Hd Hn).
Qed.

Theorem aniso_row_order a r r' : Permutation r r' -> aniso_ok r -> st_aniso (a_adp a) = true -> run_row E a r' = run_row E a r.
Proof.
  intros Hp [Hd [Hs [Hc Ho]]] Ha. rewrite !run_row_components.
  destruct (common_components r r' Hp Hd Hs Hc (a_label a, a_elem a) (a_xyz a) (a_occ a)) as [H1 [H2 H3]].
  rewrite H1, H2, H3. f_equal. symmetry.
  apply (fold_left_perm adp_step (fun s => st_aniso s = true)); try assumption.
  - intros u v s Hu Hv Hs'. apply (adp_aniso_comm r); assumption.
  - intros u s Hu Hs'. apply (adp_aniso_flag r); assumption.
Qed.

(* ---------- the order in which _parse_atom_site_label applies the translators of a row ---------- *)
Lemma phase_le2 so t : (phase so t <= 2)%nat.
Proof. destruct so, t; cbn; lia. Qed.

Lemma order_row_self so (r : list pair) : Permutation (order_row so r) r.
Proof.
  unfold order_row. induction r as [|p r IH]; [constructor|]. cbn [filter].
  assert (Hp : forall k, in_phase so k p = Nat.eqb (phase so (s_target (fst p))) k) by reflexivity. rewrite !Hp.
  pose proof (phase_le2 so (s_target (fst p))) as Hle.
  destruct (phase so (s_target (fst p))) as [|[|[|k]]]; cbn [Nat.eqb]; try lia.
  - cbn [app]. constructor. exact IH.
  - eapply Permutation_trans; [apply Permutation_sym; apply Permutation_middle|]. constructor. exact IH.
  - rewrite app_assoc. eapply Permutation_trans; [apply Permutation_sym; apply Permutation_middle|]. constructor.
    rewrite <- app_assoc. exact IH.
Qed.

Lemma order_row_perm so (r r' : list pair) : Permutation r r' -> Permutation (order_row so r) (order_row so r').
Proof. intros H. unfold order_row. repeat apply Permutation_app; apply perm_filter; exact H. Qed.

(* site_ok for the three variants: when the Cartesian translators are applied last a row may carry both coordinate sets *)
Definition site_ok_so (so : setter_order) (r : list pair) : Prop :=
  distinct_targets r /\ symbols_ok r /\ no_uij r /\ (so = SOTypeFirstCartnLast \/ coords_ok r).

Lemma symbols_perm r r' : Permutation r r' -> symbols_ok r -> symbols_ok r'.
Proof. intros Hp H p s' Hin. apply H. apply (Permutation_in _ (Permutation_sym Hp)). exact Hin. Qed.
Lemma no_uij_perm r r' : Permutation r r' -> no_uij r -> no_uij r'.
Proof. intros Hp H p Hin. apply H. apply (Permutation_in _ (Permutation_sym Hp)). exact Hin. Qed.
Lemma coords_perm r r' : Permutation r r' -> coords_ok r -> coords_ok r'.
Proof. intros Hp H p q Hp' Hq. apply H; apply (Permutation_in _ (Permutation_sym Hp)); assumption. Qed.

Lemma xyz_segment (big l l' : list pair) x : Permutation l l' -> incl l big -> distinct_targets big ->
  (forall u v, In u l -> In v l -> pair_coords_ok u v) ->
  fold_left xyz_step l' x = fold_left xyz_step l x.
Proof.
  intros Hp Hi Hd Hc. symmetry. apply (fold_left_perm xyz_step (fun _ => True)); auto.
  intros u v a Hu Hv _. apply (xyz_comm_pair big); auto.
Qed.

Theorem site_row_order_so so r r' : Permutation r r' -> site_ok_so so r ->
  run_row E (init_atom E) (order_row so r') = run_row E (init_atom E) (order_row so r).
Proof.
  intros Hp [Hd [Hs [Hn Hc]]].
  pose proof (order_row_self so r) as S1. pose proof (order_row_perm so r r' Hp) as S2.
  assert (Hd1 : distinct_targets (order_row so r)) by (apply (distinct_perm r); [apply Permutation_sym; exact S1 | exact Hd]).
  assert (Hs1 : symbols_ok (order_row so r)) by (apply (symbols_perm r); [apply Permutation_sym; exact S1 | exact Hs]).
  assert (Hn1 : no_uij (order_row so r)) by (apply (no_uij_perm r); [apply Permutation_sym; exact S1 | exact Hn]).
  rewrite !run_row_components.
  assert (H1 : fold_left lab_step (order_row so r') (a_label (init_atom E), a_elem (init_atom E)) =
               fold_left lab_step (order_row so r) (a_label (init_atom E), a_elem (init_atom E))).
  { symmetry. apply (fold_left_perm lab_step (fun _ => True)); auto. intros u v a Hu Hv _. apply (lab_comm (order_row so r)); assumption. }
  assert (H3 : fold_left occ_step (order_row so r') (a_occ (init_atom E)) = fold_left occ_step (order_row so r) (a_occ (init_atom E))).
  { symmetry. apply (fold_left_perm occ_step (fun _ => True)); auto. intros u v a Hu Hv _. apply (occ_comm (order_row so r)); assumption. }
  assert (H2 : fold_left xyz_step (order_row so r') (a_xyz (init_atom E)) = fold_left xyz_step (order_row so r) (a_xyz (init_atom E))).
  { destruct Hc as [Hso|Hc].
    - (* Cartesian translators last: two segments, neither mixes the two coordinate sets *)
      subst so.
      set (A := fun l : list pair => (filter (in_phase SOTypeFirstCartnLast 0) l ++ filter (in_phase SOTypeFirstCartnLast 1) l)%list).
      set (B := fun l : list pair => filter (in_phase SOTypeFirstCartnLast 2) l).
      assert (Eo : forall l, order_row SOTypeFirstCartnLast l = (A l ++ B l)%list)
        by (intros l; unfold order_row, A, B; rewrite app_assoc; reflexivity).
      rewrite !Eo, !fold_left_app.
      assert (HA : fold_left xyz_step (A r') (a_xyz (init_atom E)) = fold_left xyz_step (A r) (a_xyz (init_atom E))).
      { apply (xyz_segment r); [unfold A; apply Permutation_app; apply perm_filter; exact Hp | | exact Hd |].
        - intros u Hu. unfold A in Hu. apply in_app_or in Hu as [Hu|Hu]; apply filter_In in Hu as [Hu _]; exact Hu.
        - intros u v Hu Hv. unfold A in Hu, Hv.
          assert (Nu : is_cartn (tgt u) = false).
          { apply in_app_or in Hu as [Hu|Hu]; apply filter_In in Hu as [_ Hu]; unfold in_phase, tgt in *; destruct (s_target (fst u)); try reflexivity; discriminate. }
          assert (Nv : is_cartn (tgt v) = false).
          { apply in_app_or in Hv as [Hv|Hv]; apply filter_In in Hv as [_ Hv]; unfold in_phase, tgt in *; destruct (s_target (fst v)); try reflexivity; discriminate. }
          split; intros _ Hx; congruence. }
      rewrite HA. apply (xyz_segment r); [unfold B; apply perm_filter; exact Hp | | exact Hd |].
      + intros u Hu. unfold B in Hu. apply filter_In in Hu as [Hu _]. exact Hu.
      + intros u v Hu Hv. unfold B in Hu, Hv. apply filter_In in Hu as [_ Hu]. apply filter_In in Hv as [_ Hv].
        assert (Nu : is_fract (tgt u) = false) by (unfold in_phase, tgt in *; destruct (s_target (fst u)); try reflexivity; discriminate).
        assert (Nv : is_fract (tgt v) = false) by (unfold in_phase, tgt in *; destruct (s_target (fst v)); try reflexivity; discriminate).
        split; intros Hx _; congruence.
    - assert (Hc1 : coords_ok (order_row so r)) by (apply (coords_perm r); [apply Permutation_sym; exact S1 | exact Hc]).
      symmetry. apply (fold_left_perm xyz_step (fun _ => True)); auto. intros u v a Hu Hv _. apply (xyz_comm (order_row so r)); assumption. }
  rewrite H1, H2, H3. f_equal. exact (adp_site_perm (order_row so r) (order_row so r') S2 Hd1 Hn1).
Qed.

(* ---------- whole loops ---------- *)
Lemma existsb_perm {A} (q : A -> bool) l l' : Permutation l l' -> existsb q l = existsb q l'.
Proof.
  intros H. induction H as [|x l l' H IH|x y l|l l' l'' H1 IH1 H2 IH2]; cbn [existsb].
  - reflexivity.
  - rewrite IH. reflexivity.
  - destruct (q x), (q y); reflexivity.
  - rewrite IH1. exact IH2.
Qed.
Lemma row_status_perm (r r' : list pair) : Permutation r r' -> row_status r' = row_status r.
Proof. intros H. unfold row_status. rewrite <- (existsb_perm is_spec r r' H), <- (existsb_perm is_bad r r' H). reflexivity. Qed.

Lemma once_name name cols : NoDup (map (tc_name (T:=R)) cols) -> (List.length (filter (fun c => String.eqb (tc_name c) name) cols) <= 1)%nat.
Proof.
  induction cols as [|c cols IH]; intros Hn; [cbn; lia|]. cbn [map filter] in *. apply NoDup_cons_iff in Hn as [Hc Hn].
  destruct (String.eqb (tc_name c) name) eqn:Ec; [|apply IH; exact Hn].
  apply String.eqb_eq in Ec.
  assert (Hr : filter (fun c0 => String.eqb (tc_name c0) name) cols = []).
  { destruct (filter (fun c0 => String.eqb (tc_name c0) name) cols) as [|q l] eqn:Ef; [reflexivity|]. exfalso. apply Hc.
    assert (Hq : In q (filter (fun c0 => String.eqb (tc_name c0) name) cols)) by (rewrite Ef; left; reflexivity).
    apply filter_In in Hq as [Hq1 Hq2]. apply String.eqb_eq in Hq2. rewrite Ec, <- Hq2. apply in_map. exact Hq1. }
  rewrite Hr. cbn. lia.
Qed.
Lemma label_col_perm name cols cols' : Permutation cols cols' -> NoDup (map (tc_name (T:=R)) cols) -> label_col name cols' = label_col name cols.
Proof. intros Hp Hn. unfold label_col. symmetry. apply find_perm_once; [exact Hp | apply once_name; exact Hn]. Qed.
Lemma has_col_perm name (cols cols' : list (tcol (T:=R))) : Permutation cols cols' -> has_col name cols' = has_col name cols.
Proof. intros Hp. unfold has_col. symmetry. apply existsb_perm. exact Hp. Qed.
Lemma row_of_perm (cols cols' : list (tcol (T:=R))) i : Permutation cols cols' -> Permutation (row_of cols i) (row_of cols' i).
Proof. intros Hp. unfold row_of. apply Permutation_map. exact Hp. Qed.

Lemma fold_ext_in {A B} (f g : A -> B -> A) l : (forall a b, In b l -> f a b = g a b) -> forall a, fold_left f l a = fold_left g l a.
Proof.
  induction l as [|x l IH]; intros H a; [reflexivity|]. cbn [fold_left]. rewrite H by (left; reflexivity).
  apply IH. intros a' b Hb. apply H. right. exact Hb.
Qed.

Theorem site_loop_order n cols cols' :
  Permutation cols cols' -> NoDup (map (tc_name (T:=R)) cols) -> (forall i, (i < n)%nat -> site_ok_so the_setter_order (row_of cols i)) ->
  read_site_loop E (TLoop n cols') = read_site_loop E (TLoop n cols).
Proof.
  intros Hp Hn Hok. unfold read_site_loop. cbn [tl_cols tl_n].
  rewrite (label_col_perm _ cols cols' Hp Hn), !(has_col_perm _ cols cols' Hp).
  destruct (label_col "_atom_site_label" cols) as [lc|]; [|reflexivity].
  apply fold_ext_in. intros acc i Hi. apply in_seq in Hi. destruct acc as [st|e]; [|reflexivity]. cbn [bind].
  unfold site_row. destruct (String.eqb (label_at lc i) "?"); [reflexivity|].
  rewrite (row_status_perm _ _ (row_of_perm cols cols' i Hp)).
  rewrite (site_row_order_so _ _ _ (row_of_perm cols cols' i Hp) (Hok i ltac:(lia))). reflexivity.
Qed.

(* the atom a row of the aniso loop addresses is anisotropic once its flag has been settled *)
Definition aniso_cond (sb : pstate (T:=R) * bool) (lab : string) : Prop :=
  forall idx a, dict_get (ps_index (fst sb)) lab = Some idx -> nth_error (ps_atoms (fst sb)) idx = Some a ->
                dict_has (ps_aniso (fst sb)) lab = true -> st_aniso (a_adp a) = true.

Lemma set_anisotropy_true s : st_aniso (set_anisotropy (RC eps) s true) = true.
Proof. destruct s as [U fl lt]. destruct fl; gen_unfold; reflexivity. Qed.

Lemma aniso_row_perm sb lab r r' : Permutation r r' -> aniso_ok r -> aniso_cond sb lab ->
  aniso_row E sb lab r' = aniso_row E sb lab r.
Proof.
  intros Hp Hok Hc. unfold aniso_row. destruct sb as [st stopped]. destruct stopped; [reflexivity|].
  destruct (String.eqb lab "?"); [reflexivity|]. destruct (dict_get (ps_index st) lab) as [idx|] eqn:Ei; [|reflexivity].
  destruct (nth_error (ps_atoms st) idx) as [a|] eqn:Ea; [|reflexivity].
  rewrite (row_status_perm _ _ Hp). destruct (row_status r); [reflexivity|].
  rewrite (aniso_row_order _ r r' Hp Hok); [reflexivity|].
  destruct (dict_has (ps_aniso st) lab) eqn:Ek.
  - apply (Hc idx a); assumption.
  - cbn [a_adp upd_adp]. apply set_anisotropy_true.
Qed.

Definition aniso_fold (n : nat) (cols : list (tcol (T:=R))) (lc : tcol (T:=R)) (st : pstate (T:=R)) (k : nat) :=
  fold_left (fun acc i => bind acc (fun sb => aniso_row E sb (label_at lc i) (row_of cols i))) (seq 0 k) (Ok (st, false)).
Definition always_cond (n : nat) (cols : list (tcol (T:=R))) (lc : tcol (T:=R)) (st : pstate (T:=R)) : Prop :=
  forall k sb, (k < n)%nat -> aniso_fold n cols lc st k = Ok sb -> aniso_cond sb (label_at lc k).

Theorem aniso_loop_order n cols cols' st :
  Permutation cols cols' -> NoDup (map (tc_name (T:=R)) cols) -> (forall i, (i < n)%nat -> aniso_ok (row_of cols i)) ->
  (forall lc, label_col "_atom_site_aniso_label" cols = Some lc -> always_cond n cols lc st) ->
  read_aniso_loop E st (Some (TLoop n cols')) = read_aniso_loop E st (Some (TLoop n cols)).
Proof.
  intros Hp Hn Hok Hal. unfold read_aniso_loop. cbn [tl_cols tl_n].
  rewrite (label_col_perm _ cols cols' Hp Hn).
  destruct (label_col "_atom_site_aniso_label" cols) as [lc|] eqn:El; [|reflexivity]. specialize (Hal lc eq_refl).
  assert (H : forall k, (k <= n)%nat -> aniso_fold n cols' lc st k = aniso_fold n cols lc st k).
  { induction k as [|k IH]; intros Hk; [reflexivity|].
    unfold aniso_fold in *. rewrite seq_S, !fold_left_app. cbn [fold_left Nat.add]. specialize (IH ltac:(lia)). rewrite IH.
    destruct (fold_left (fun acc i => bind acc (fun sb => aniso_row E sb (label_at lc i) (row_of cols i))) (seq 0 k) (Ok (st, false)))
      as [sb|e] eqn:Ef; [|reflexivity]. cbn [bind].
    apply aniso_row_perm; [apply row_of_perm; exact Hp | apply Hok; lia | apply Hal; [lia | exact Ef]]. }
  specialize (H n (le_n n)). unfold aniso_fold in H. rewrite H. reflexivity.
Qed.

(* the whole reader: any order of the columns of either loop *)
Theorem column_order find Tb cell n cols cols' m acols acols' b :
  Permutation cols cols' -> NoDup (map (tc_name (T:=R)) cols) -> (forall i, (i < n)%nat -> site_ok_so the_setter_order (row_of cols i)) ->
  Permutation acols acols' -> NoDup (map (tc_name (T:=R)) acols) -> (forall i, (i < m)%nat -> aniso_ok (row_of acols i)) ->
  (forall st0 lc, read_site_loop E (TLoop n cols) = Ok st0 -> label_col "_atom_site_aniso_label" acols = Some lc -> always_cond m acols lc st0) ->
  read_typed E find Tb cell (TLoop n cols') (Some (TLoop m acols')) b = read_typed E find Tb cell (TLoop n cols) (Some (TLoop m acols)) b.
Proof.
  intros Hp Hn Hok Hpa Hna Hoka Hal. unfold read_typed.
  rewrite (site_loop_order n cols cols' Hp Hn Hok).
  destruct (cell_numbers E cell); [|reflexivity]. cbn [bind].
  destruct (read_site_loop E (TLoop n cols)) as [st0|] eqn:Es; [|reflexivity]. cbn [bind].
  rewrite (aniso_loop_order m acols acols' st0 Hpa Hna Hoka (fun lc Hl => Hal st0 lc eq_refl Hl)). reflexivity.
Qed.

(* ---------- fractional versus Cartesian coordinates: whole loops ---------- *)
(* a site loop whose last three columns are the fractional coordinates of the points ps, against the same loop with
   instead the three Cartesian columns holding cartesian(p) for each point *)
Definition SF (i : idx) : setter := Setter (TFract i) SOne (Dec 0 0).
Definition SC (i : idx) : setter := Setter (TCartn i) SOne (Dec 0 0).
Definition fract3 (nx ny nz : string) (ps : list (gvec R)) : list (tcol (T:=R)) :=
  [TCol nx (SF i0) (map (fun p => VNum (x0 p)) ps); TCol ny (SF i1) (map (fun p => VNum (x1 p)) ps); TCol nz (SF i2) (map (fun p => VNum (x2 p)) ps)].
Definition cartn3 (nx ny nz : string) (ps : list (gvec R)) : list (tcol (T:=R)) :=
  [TCol nx (SC i0) (map (fun p => VNum (x0 (cartesian E p))) ps); TCol ny (SC i1) (map (fun p => VNum (x1 (cartesian E p))) ps);
   TCol nz (SC i2) (map (fun p => VNum (x2 (cartesian E p))) ps)].

Lemma filter_all {A} (q : A -> bool) l : (forall x, In x l -> q x = true) -> filter q l = l.
Proof. induction l as [|x l IH]; intros H; [reflexivity|]. cbn [filter]. rewrite (H x (or_introl eq_refl)), IH; [reflexivity|]. intros y Hy. apply H. right. exact Hy. Qed.
Lemma filter_none {A} (q : A -> bool) l : (forall x, In x l -> q x = false) -> filter q l = [].
Proof. induction l as [|x l IH]; intros H; [reflexivity|]. cbn [filter]. rewrite (H x (or_introl eq_refl)). apply IH. intros y Hy. apply H. right. exact Hy. Qed.

Lemma order_row_tail so (A X : list pair) k : (k = 1 \/ k = 2)%nat ->
  (forall p, In p A -> in_phase so 2 p = false) -> (forall p, In p X -> phase so (tgt p) = k) ->
  order_row so (A ++ X) = (order_row so A ++ X)%list.
Proof.
  intros Hk HA HX. unfold order_row. rewrite !filter_app.
  assert (X0 : filter (in_phase so 0) X = []).
  { apply filter_none. intros p Hp. unfold in_phase. fold (tgt p). rewrite (HX p Hp). destruct Hk; subst; reflexivity. }
  assert (A2 : filter (in_phase so 2) A = []) by (apply filter_none; exact HA).
  rewrite X0, A2, app_nil_r. cbn [app].
  destruct Hk; subst k.
  - assert (X1 : filter (in_phase so 1) X = X) by (apply filter_all; intros p Hp; unfold in_phase; fold (tgt p); rewrite (HX p Hp); reflexivity).
    assert (X2 : filter (in_phase so 2) X = []) by (apply filter_none; intros p Hp; unfold in_phase; fold (tgt p); rewrite (HX p Hp); reflexivity).
    rewrite X1, X2, !app_nil_r, app_assoc. reflexivity.
  - assert (X1 : filter (in_phase so 1) X = []) by (apply filter_none; intros p Hp; unfold in_phase; fold (tgt p); rewrite (HX p Hp); reflexivity).
    assert (X2 : filter (in_phase so 2) X = X) by (apply filter_all; intros p Hp; unfold in_phase; fold (tgt p); rewrite (HX p Hp); reflexivity).
    rewrite X1, X2, !app_nil_r, app_assoc. reflexivity.
Qed.

Lemma run_row_app a (l1 l2 : list pair) : run_row E a (l1 ++ l2) = run_row E (run_row E a l1) l2.
Proof. unfold run_row. apply fold_left_app. Qed.

Lemma run_fract_cols a p : run_row E a (fract_cols p) = RA (a_label a) (a_elem a) p (a_occ a) (a_adp a).
Proof. destruct a as [l e x o s], p as [p0 p1 p2], x as [y0 y1 y2]. reflexivity. Qed.

Lemma run_cartn_cols a p : fractional E (cartesian E p) = p ->
  run_row E a (cartn_cols (cartesian E p)) = RA (a_label a) (a_elem a) p (a_occ a) (a_adp a).
Proof.
  intros Hfc. rewrite run_row_components. destruct (fract_vs_cartn p (a_xyz a) Hfc) as [Hx _]. rewrite Hx.
  destruct a as [l e x o s]. reflexivity.
Qed.

Lemma nth_map_lt {A B} (f : A -> B) (l : list A) (j : nat) (d : B) (d' : A) : (j < List.length l)%nat -> nth j (map f l) d = f (nth j l d').
Proof. intros H. rewrite (nth_indep (map f l) d (f d')) by (rewrite map_length; exact H). apply map_nth. Qed.

Definition origin : gvec R := GV 0%R 0%R 0%R.

Lemma rows_in_range nx ny nz ps j : (j < List.length ps)%nat ->
  row_of (fract3 nx ny nz ps) j = fract_cols (nth j ps origin) /\
  row_of (cartn3 nx ny nz ps) j = cartn_cols (cartesian E (nth j ps origin)).
Proof.
  intros H. unfold row_of, fract3, cartn3, fract_cols, cartn_cols, SF, SC. cbn [map tc_setter tc_vals].
  rewrite !(nth_map_lt _ ps j VBad origin H). split; reflexivity.
Qed.

Lemma rows_out_of_range nx ny nz ps j : (List.length ps <= j)%nat ->
  row_of (fract3 nx ny nz ps) j = [(SF i0, VBad); (SF i1, VBad); (SF i2, VBad)] /\
  row_of (cartn3 nx ny nz ps) j = [(SC i0, VBad); (SC i1, VBad); (SC i2, VBad)].
Proof.
  intros H. unfold row_of, fract3, cartn3. cbn [map tc_setter tc_vals].
  rewrite !nth_overflow by (rewrite map_length; exact H). split; reflexivity.
Qed.

Lemma row_status_app (a b : list pair) :
  row_status (a ++ b) = if existsb is_spec a || existsb is_spec b then Some EUnsupported
                        else if existsb is_bad a || existsb is_bad b then Some (raised "ValueError") else None.
Proof. unfold row_status. rewrite !existsb_app. reflexivity. Qed.

Definition no_cartn_cols (cols : list (tcol (T:=R))) : Prop := forall c, In c cols -> is_cartn (s_target (tc_setter c)) = false.

Lemma site_row_fract_cartn d st lab (O : list (tcol (T:=R))) nx ny nz ps j :
  (forall p, fractional E (cartesian E p) = p) -> no_cartn_cols O ->
  site_row E d st lab (row_of (O ++ fract3 nx ny nz ps) j) = site_row E d st lab (row_of (O ++ cartn3 nx ny nz ps) j).
Proof.
  intros Hfc HO. unfold row_of. rewrite !map_app. fold (row_of O j) (row_of (fract3 nx ny nz ps) j) (row_of (cartn3 nx ny nz ps) j).
  unfold site_row. destruct (String.eqb lab "?"); [reflexivity|].
  assert (HA : forall p, In p (row_of O j) -> in_phase the_setter_order 2 p = false).
  { intros p Hp. unfold row_of in Hp. apply in_map_iff in Hp as [c [<- Hc]]. unfold in_phase. cbn [fst]. specialize (HO c Hc).
    destruct (s_target (tc_setter c)), the_setter_order; try discriminate; reflexivity. }
  destruct (Nat.lt_ge_cases j (List.length ps)) as [Hj|Hj].
  - destruct (rows_in_range nx ny nz ps j Hj) as [-> ->].
    rewrite !row_status_app.
    assert (Hs : existsb is_spec (fract_cols (nth j ps origin)) = false /\ existsb is_bad (fract_cols (nth j ps origin)) = false /\
                 existsb is_spec (cartn_cols (cartesian E (nth j ps origin))) = false /\ existsb is_bad (cartn_cols (cartesian E (nth j ps origin))) = false)
      by (repeat split; reflexivity).
    destruct Hs as [-> [-> [-> ->]]].
    destruct (existsb is_spec (row_of O j) || false); [reflexivity|]. destruct (existsb is_bad (row_of O j) || false); [reflexivity|].
    rewrite (order_row_tail the_setter_order (row_of O j) (fract_cols (nth j ps origin)) 1); [| left; reflexivity | exact HA |].
    2:{ intros p [<-|[<-|[<-|[]]]]; unfold tgt; cbn; destruct the_setter_order; reflexivity. }
    assert (Hc : exists k, (k = 1 \/ k = 2)%nat /\ forall p, In p (cartn_cols (cartesian E (nth j ps origin))) -> phase the_setter_order (tgt p) = k).
    { destruct the_setter_order; [exists 1%nat | exists 1%nat | exists 2%nat]; (split; [auto|]); intros p [<-|[<-|[<-|[]]]]; reflexivity. }
    destruct Hc as [k [Hk Hph]].
    rewrite (order_row_tail the_setter_order (row_of O j) (cartn_cols (cartesian E (nth j ps origin))) k Hk HA Hph).
    rewrite !run_row_app, run_fract_cols, (run_cartn_cols _ _ (Hfc _)). reflexivity.
  - destruct (rows_out_of_range nx ny nz ps j Hj) as [-> ->].
    rewrite !row_status_app. cbn [existsb is_spec is_bad snd orb]. rewrite !orb_true_r.
    destruct (existsb is_spec (row_of O j) || false); reflexivity.
Qed.

Lemma label_col_tail name (O : list (tcol (T:=R))) nx ny nz ps :
  option_map (fun c => (tc_name c, map (fun v => match v with VStr s' => s' | _ => EmptyString end) (tc_vals c))) (label_col name (O ++ fract3 nx ny nz ps)) =
  option_map (fun c => (tc_name c, map (fun v => match v with VStr s' => s' | _ => EmptyString end) (tc_vals c))) (label_col name (O ++ cartn3 nx ny nz ps)).
Proof.
  unfold label_col. induction O as [|c O IH]; cbn [app find].
  - unfold fract3, cartn3. cbn [find tc_name].
    destruct (String.eqb nx name); [cbn [option_map tc_name tc_vals]; rewrite !map_map; reflexivity|].
    destruct (String.eqb ny name); [cbn [option_map tc_name tc_vals]; rewrite !map_map; reflexivity|].
    destruct (String.eqb nz name); [cbn [option_map tc_name tc_vals]; rewrite !map_map; reflexivity|]. reflexivity.
  - destruct (String.eqb (tc_name c) name); [reflexivity | exact IH].
Qed.

Lemma label_at_from_strings (c c' : tcol (T:=R)) i :
  map (fun v => match v with VStr s' => s' | _ => EmptyString end) (tc_vals c) = map (fun v => match v with VStr s' => s' | _ => EmptyString end) (tc_vals c') ->
  label_at c i = label_at c' i.
Proof.
  intros H. unfold label_at.
  set (g := fun v : val (T:=R) => match v with VStr s' => s' | _ => EmptyString end) in *.
  change (g (nth i (tc_vals c) VBad) = g (nth i (tc_vals c') VBad)).
  transitivity (nth i (map g (tc_vals c)) (g VBad)); [symmetry; apply map_nth|]. rewrite H. apply map_nth.
Qed.

Lemma has_col_tail name (O : list (tcol (T:=R))) nx ny nz ps : has_col name (O ++ fract3 nx ny nz ps) = has_col name (O ++ cartn3 nx ny nz ps).
Proof. unfold has_col. rewrite !existsb_app. reflexivity. Qed.

Theorem fract_vs_cartn_loop n (O : list (tcol (T:=R))) nx ny nz ps :
  (forall p, fractional E (cartesian E p) = p) -> no_cartn_cols O ->
  read_site_loop E (TLoop n (O ++ cartn3 nx ny nz ps)) = read_site_loop E (TLoop n (O ++ fract3 nx ny nz ps)).
Proof.
  intros Hfc HO. unfold read_site_loop. cbn [tl_cols tl_n]. rewrite !(has_col_tail _ O nx ny nz ps).
  pose proof (label_col_tail "_atom_site_label" O nx ny nz ps) as HL.
  destruct (label_col "_atom_site_label" (O ++ fract3 nx ny nz ps)) as [lc|], (label_col "_atom_site_label" (O ++ cartn3 nx ny nz ps)) as [lc'|];
    cbn [option_map] in HL; try discriminate; [|reflexivity].
  injection HL as _ HL.
  apply fold_ext_in. intros acc i _. destruct acc as [st|e]; [|reflexivity]. cbn [bind].
  rewrite (label_at_from_strings lc' lc i (eq_sym HL)). symmetry. apply site_row_fract_cartn; assumption.
Qed.

Theorem fract_vs_cartn_file find Tb cell n (O : list (tcol (T:=R))) nx ny nz ps aniso b :
  (forall p, fractional E (cartesian E p) = p) -> no_cartn_cols O ->
  read_typed E find Tb cell (TLoop n (O ++ cartn3 nx ny nz ps)) aniso b = read_typed E find Tb cell (TLoop n (O ++ fract3 nx ny nz ps)) aniso b.
Proof. intros Hfc HO. unfold read_typed. rewrite (fract_vs_cartn_loop n O nx ny nz ps Hfc HO). reflexivity. Qed.

End Columns.

(* the lattice hypotheses of this file are satisfiable: the unit cubic cell (and, by C01, every Lattice) *)
Example lattice_hypotheses_satisfiable : forall (eps : R) (Dz : Z) (grid : R -> Z) (dcv : dec -> R) (c : gvec R),
  let E := Env (RC eps) (cart_lat ROps eps) (gI ROps) Dz grid dcv in
  cartesian E (fractional E c) = c /\ fractional E (cartesian E c) = c.
Proof.
  intros eps Dz grid dcv c E. destruct c as [a b d]. unfold E, cartesian, fractional, Lattice_cartesian.
  cbn [e_C e_lat e_recbase RC cO cart_lat l_base]. g_simpl. split; f_equal; ring.
Qed.
