(* C19 - the IR regenerated from the current spacegroups.py has the safe shape, hence is linearizable. *)
From Coq Require Import ZArith List Bool.
From DS Require Import Model.C19_Threads Proofs.C19_Linearizable Gen.C19_LazyTables.
Import ListNotations.

Lemma gen_safe : safe_shape gen_prog = true.
Proof. vm_compute. reflexivity. Qed.

Lemma gen_linearizable : forall d css sched i th,
  build_ok gen_prog d = true ->
  nth_error (w_threads (run gen_prog d css sched)) i = Some th ->
  exists cs, nth_error css i = Some cs /\
             t_done th = map (answer gen_prog d) (firstn (List.length (t_done th)) cs).
Proof. intros d css sched i th B E. exact (linearizable gen_prog d gen_safe B css sched i th E). Qed.

Lemma gen_tiny_build_ok : build_ok gen_prog tiny_data = true.
Proof. vm_compute. reflexivity. Qed.
