(* Kernel decision of the group axioms for shard 11 of the regenerated tables. *)
From Coq Require Import ZArith List Bool.
From DS Require Import Base.ZMat Base.SGDefs Model.GroupCheck Gen.SGTables11.
Lemma shard11_groups : forallb setting_group_ok shard11 = true.
Proof. vm_compute. reflexivity. Qed.
