(* C04 - generic no-drift argument: a round trip that lands on canon, with canon idempotent and
   staying inside the representable range, is stationary from the first trip on. *)
From Coq Require Import List Bool Arith.

Fixpoint iter_opt {A} (f : A -> option A) (n : nat) (x : A) : option A :=
  match n with O => Some x | S k => match f x with Some y => iter_opt f k y | None => None end end.

Section NoDrift.
  Variable A : Type.
  Variable rt : A -> option A.
  Variable canon : A -> A.
  Variable repr : A -> bool.
  Hypothesis RT : forall x, repr x = true -> rt x = Some (canon x).
  Hypothesis RC : forall x, repr x = true -> repr (canon x) = true.
  Hypothesis CI : forall x, repr x = true -> canon (canon x) = canon x.

  Theorem no_drift_gen : forall n x, repr x = true -> iter_opt rt (S n) x = Some (canon x).
  Proof.
    induction n as [|n IH]; intros x H.
    - cbn. rewrite (RT x H). reflexivity.
    - change (iter_opt rt (S (S n)) x) with (match rt x with Some y => iter_opt rt (S n) y | None => None end).
      rewrite (RT x H). rewrite (IH (canon x) (RC x H)). rewrite (CI x H). reflexivity.
  Qed.
End NoDrift.
