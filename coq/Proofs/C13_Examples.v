(* C13 - closed instances: (1) the hypotheses of the positive theorems are satisfiable by concrete oracles on which the
   models accept and reject; (2) with the except clauses of the pinned tree the same models let the foreign kinds through
   (the defects D2-D5 as model facts; each was first confirmed on the real code with a concrete text). *)
From Coq Require Import List Bool Arith ZArith Lia.
From DS Require Import Base.C13_Exn Gen.C13_ExcSpec Model.C13_Common Model.C13_Xyz Model.C13_Pdffit Model.C13_Discus
                       Model.C13_Xcfg Model.C13_Pdb Model.C13_Cif Proofs.C13_ExnLemmas.
From Coq Require Import Ascii String.
Import ListNotations.
Open Scope string_scope.

Definition ex_float (s : string) : res unit := if String.eqb s "x" then Raise ValueError else Ok tt.
Definition ex_int (s : string) : res Z :=
  match s with
  | String c EmptyString =>
      let n := nat_of_ascii c in
      if Nat.leb 48 n && Nat.leb n 57 then Ok (Z.of_nat (n - 48)) else Raise ValueError
  | _ => Raise ValueError
  end.

Lemma ex_float_kinds : forall s, within [ValueError] (ex_float s).
Proof. intros s; unfold ex_float; destruct (String.eqb s "x"); simpl; auto. Qed.

Lemma ex_int_kinds : forall s, within [ValueError] (ex_int s).
Proof.
  intros s; unfold ex_int. destruct s as [| c [| c' s']]; try (left; reflexivity).
  destruct (Nat.leb 48 (nat_of_ascii c) && Nat.leb (nat_of_ascii c) 57); [exact I | left; reflexivity].
Qed.

Lemma split_sp_aux_nonempty : forall s cur w, In w (split_sp_aux s cur) -> w <> EmptyString.
Proof.
  induction s as [| c s IH]; intros cur w H; simpl in H.
  - destruct cur; simpl in H; [contradiction |]. destruct H as [<- | []]. discriminate.
  - destruct (Ascii.eqb c " "%char).
    + destruct cur; [eapply IH; eassumption |]. destruct H as [<- | H]; [discriminate | eapply IH; eassumption].
    + eapply IH; eassumption.
Qed.

Lemma ex_split_nonempty : forall s w, In w (split_sp s) -> w <> EmptyString.
Proof. intros s w; apply split_sp_aux_nonempty. Qed.

(* ---- xyz / rawxyz ---------------------------------------------------------------------------- *)
Definition ex_xyz := parse_xyz unit split_sp ex_int (fun _ => true) ex_float.
Example xyz_accepts : ex_xyz ["1"; "title"; "C 0 0 0"] = Ok 1.
Proof. vm_compute; reflexivity. Qed.
Example xyz_rejects_number : ex_xyz ["1"; "title"; "C 0 0 x"] = Raise FormatError.
Proof. vm_compute; reflexivity. Qed.
Example xyz_rejects_empty : ex_xyz [] = Raise FormatError.
Proof. vm_compute; reflexivity. Qed.
Example xyz_rejects_count : ex_xyz ["2"; "title"; "C 0 0 0"] = Raise FormatError.
Proof. vm_compute; reflexivity. Qed.

Definition ex_rawxyz := parse_rawxyz unit split_sp ex_float.
Example rawxyz_accepts : ex_rawxyz ["x 0 0 0"; "x 1 1 1"; ""] = Ok 2.
Proof. vm_compute; reflexivity. Qed.
Example rawxyz_rejects : ex_rawxyz ["0 0 0"; "0 0 x"] = Raise FormatError.
Proof. vm_compute; reflexivity. Qed.

(* ---- pdffit ------------------------------------------------------------------------------------ *)
Definition ex_pdffit caught lat :=
  parse_pdffit_gen unit split_sp split_sp blank_sp ex_float ex_int lat (fun _ _ => Ok tt) caught ReraiseFormat.
Definition six := ["0 0 0 1"; "0 0 0 0"; "0 0 0"; "0 0 0"; "0 0 0"; "0 0 0"].
Definition pdffit_doc := ["cell 1 1 1 9 9 9"; "ncell 1 1 1 1"; "atoms"; "C 0 0 0 1"; "0 0 0 0"; "0 0 0"; "0 0 0"; "0 0 0"; "0 0 0"].

Example pdffit_accepts : ex_pdffit pdffit_parseLines_try1_caught (fun _ => Ok tt) pdffit_doc = Ok 1.
Proof. vm_compute; reflexivity. Qed.
Example pdffit_truncated_rejected : ex_pdffit pdffit_parseLines_try1_caught (fun _ => Ok tt) (firstn 6 pdffit_doc) = Raise FormatError.
Proof. vm_compute; reflexivity. Qed.
(* D3 with the clause of the pinned tree: except (ValueError, IndexError) *)
Example pdffit_pinned_truncated_refuted : ex_pdffit [ValueError; IndexError] (fun _ => Ok tt) (firstn 6 pdffit_doc) = Raise StopIteration.
Proof. vm_compute; reflexivity. Qed.
Example pdffit_pinned_zero_cell_refuted :
  ex_pdffit [ValueError; IndexError] (fun _ => Raise ZeroDivisionError) pdffit_doc = Raise ZeroDivisionError.
Proof. vm_compute; reflexivity. Qed.
Example pdffit_zero_cell_rejected :
  ex_pdffit pdffit_parseLines_try1_caught (fun _ => Raise ZeroDivisionError) pdffit_doc = Raise FormatError.
Proof. vm_compute; reflexivity. Qed.

(* ---- discus ------------------------------------------------------------------------------------ *)
Definition ex_discus caught lat :=
  parse_discus_gen unit split_sp split_sp blank_sp ex_float ex_int (fun _ _ => Ok tt) (fun _ => [tt; tt; tt; tt; tt; tt]) lat
                   (fun _ _ => Ok tt) caught ReraiseFormat.
Definition discus_doc := ["title t"; "cell 1 1 1 9 9 9"; "ncell 2 1 1 1"; "atoms"; "C 0 0 0 1"; "C 0 0 0 1"].
Example discus_accepts : ex_discus discus_parseLines_try1_caught (fun _ => Ok tt) discus_doc = Ok 2.
Proof. vm_compute; reflexivity. Qed.
Example discus_not_implemented : ex_discus discus_parseLines_try1_caught (fun _ => Ok tt) ["molecule"] = Raise NotImplemented.
Proof. vm_compute; reflexivity. Qed.
Example discus_no_cell_rejected : ex_discus discus_parseLines_try1_caught (fun _ => Ok tt) ["atoms"] = Raise FormatError.
Proof. vm_compute; reflexivity. Qed.
Example discus_pinned_zero_supercell_refuted :
  ex_discus [ValueError; IndexError] (fun _ => Raise ZeroDivisionError) discus_doc = Raise ZeroDivisionError.
Proof. vm_compute; reflexivity. Qed.

(* ---- xcfg -------------------------------------------------------------------------------------- *)
Definition ex_first_word (n : nat) (s : string) : option string :=
  match split_sp (substring n (String.length s - n) s) with w :: _ => Some w | [] => None end.
Definition ex_xcfg caught latb :=
  parse_xcfg_gen unit split_sp blank_sp ex_float ex_int ex_first_word (fun _ => None) latb (fun _ => Ok tt) caught ReraiseFormat.
Definition xcfg_doc :=
  ["Number of particles = 1"; "A = 1 Angstrom";
   "H0(1,1) = 1 A"; "H0(1,2) = 0 A"; "H0(1,3) = 0 A"; "H0(2,1) = 0 A"; "H0(2,2) = 1 A"; "H0(2,3) = 0 A";
   "H0(3,1) = 0 A"; "H0(3,2) = 0 A"; "H0(3,3) = 1 A"; ".NO_VELOCITY."; "entry_count = 3"; ""; "1"; "x"; "0 0 0"].
Example xcfg_accepts : ex_xcfg xcfg_parseLines_try1_caught (fun _ => Ok tt) xcfg_doc = Ok 1.
Proof. vm_compute; reflexivity. Qed.
Example xcfg_no_A_rejected :
  ex_xcfg xcfg_parseLines_try1_caught (fun _ => Ok tt) (firstn 1 xcfg_doc ++ skipn 2 xcfg_doc) = Raise FormatError.
Proof. vm_compute; reflexivity. Qed.
Example xcfg_pinned_singular_H0_refuted :
  ex_xcfg [ValueError; IndexError] (fun _ => Raise LatticeError) xcfg_doc = Raise LatticeError.
Proof. vm_compute; reflexivity. Qed.
Example xcfg_singular_H0_rejected :
  ex_xcfg xcfg_parseLines_try1_caught (fun _ => Raise LatticeError) xcfg_doc = Raise FormatError.
Proof. vm_compute; reflexivity. Qed.

(* ---- pdb --------------------------------------------------------------------------------------- *)
Definition ex_pdb caught slp :=
  parse_pdb_gen unit split_sp blank_sp strip_sp ex_float slp (fun _ _ _ => Ok (true, false)) (fun _ _ => Ok tt) (fun _ _ => Ok tt)
                caught ReraiseFormat.
Definition pdb_atom := "ATOM      1  N   ARG     1       0.735   2.219   1.389  1.00  0.00".
Definition pdb_cryst := "CRYST1    1.000    1.000    1.000  90.00  90.00  90.00".
Example pdb_accepts : ex_pdb pdb_parseLines_try1_caught (fun _ => Ok tt) [pdb_cryst; pdb_atom; "END"] = Ok 1.
Proof. vm_compute; reflexivity. Qed.
Example pdb_anisou_first_rejected :
  ex_pdb pdb_parseLines_try1_caught (fun _ => Ok tt) ["ANISOU    1  N   ARG     1      100    100    100    100    100    100"] = Raise FormatError.
Proof. vm_compute; reflexivity. Qed.
Example pdb_scale2_first_rejected :
  ex_pdb pdb_parseLines_try1_caught (fun _ => Ok tt) ["SCALE2      0.000000  0.100000  0.000000        0.00000"] = Raise FormatError.
Proof. vm_compute; reflexivity. Qed.
Example pdb_pinned_zero_cell_refuted :
  ex_pdb [ValueError; IndexError] (fun _ => Raise ZeroDivisionError) [pdb_cryst] = Raise ZeroDivisionError.
Proof. vm_compute; reflexivity. Qed.

(* ---- cif: D2 with the clause of the pinned tree ------------------------------------------------- *)
Example cif_pinned_syntax_error_refuted :
  parse_cif_gen unit unit unit (fun _ => Raise YappsSyntaxError) (fun _ => []) (fun _ => true) (fun _ => true)
                (fun _ _ => Ok EmptyString) (fun _ => Ok tt) (fun _ => Ok tt) (fun _ => Ok tt) (fun _ => Ok tt) (fun _ => Ok tt)
                [StarError; ValueError; IndexError] ReraiseFormat "hello" = Raise YappsSyntaxError.
Proof. vm_compute; reflexivity. Qed.
Example cif_syntax_error_rejected :
  parse_cif unit unit unit (fun _ => Raise YappsSyntaxError) (fun _ => []) (fun _ => true) (fun _ => true)
            (fun _ _ => Ok EmptyString) (fun _ => Ok tt) (fun _ => Ok tt) (fun _ => Ok tt) (fun _ => Ok tt) (fun _ => Ok tt)
            "hello" = Raise FormatError.
Proof. vm_compute; reflexivity. Qed.
