(* C12 - rejection table, part 4: the text of the XCFG writer (C04 model print_xcfg) read by the xyz, rawxyz, pdffit and
   discus parser models.  Header records start with N, A, H, '.', e, a; the record `.NO_VELOCITY.` has one field; the atom
   block has mass records and coordinate rows that start with a number, and element records - the side condition is that
   no element symbol is the word `cell`. *)
From Coq Require Import List Bool Arith ZArith NArith Lia.
From DS Require Import Base.C13_Exn Gen.C13_ExcSpec Model.C13_Common Proofs.C13_ExnLemmas Proofs.C13_Shared.
From DS Require Import Base.C04_Text Base.C04_Decimal Model.C04_Fmt Gen.C04_FmtSpecs Model.C04_Xyz Model.C04_Pdffit Model.C04_Pdb Model.C04_Rawxyz Model.C04_Xcfg
                       Proofs.C04_Fmt Proofs.C04_Lines Proofs.C04_Xyz.
From DS Require Import Model.C12_Conc Proofs.C12_RejectBase Proofs.C12_RejectCells Proofs.C12_RejectCellsPdb.
From Coq Require Import Ascii String.
Import ListNotations.
Close Scope N_scope.
Open Scope nat_scope.
Open Scope list_scope.

Arguments catches : simpl never.
Local Opaque fix_body int_body lpad rpad parse_float parse_int strip lstrip rstrip print_gen.

Definition xcfg_elements_not_cell (S : cstru) : bool := forallb (fun a => negb (word_is "cell" (c_el a))) (c_atoms S).

(* a record whose first character is neither blank, a sign, a digit, '#' nor 'c' *)
Definition plain_start (c : ascii) : bool :=
  negb (is_ws c) && negb (Ascii.eqb c minus) && negb (Ascii.eqb c plus) && (match dval c with None => true | Some _ => false end) &&
  negb (Ascii.eqb c "c"%char) && negb (Ascii.eqb c "#"%char).
Definition starts_plain (l : str) : Prop := exists c r, l = c :: r /\ plain_start c = true.

Lemma starts_plain_line : forall l, starts_plain l ->
  exists w ws, split_ws l = w :: ws /\ str_eqb w (S2L "#") = false /\ parse_int w = None /\ str_eqb w (S2L "cell") = false.
Proof.
  intros l [c [r [-> Hc]]]. unfold plain_start in Hc.
  repeat (apply andb_true_iff in Hc; destruct Hc as [Hc ?]).
  repeat match goal with H : negb _ = true |- _ => apply negb_true_iff in H end.
  destruct (dval c) eqn:Hd; [discriminate |].
  destruct (first_char_word c r Hc) as [w [ws [Hs Hn]]]. exists (c :: w), ws. split; [exact Hs |].
  split; [cbn; rewrite H; reflexivity |]. split; [apply parse_int_not_number_start; assumption |]. cbn. rewrite H0. reflexivity.
Qed.

Lemma float_word_not_cell : forall b v, parse_float b = Some v -> str_eqb b (S2L "cell") = false.
Proof.
  intros b v H. destruct (str_eqb b (S2L "cell")) eqn:E; [| reflexivity]. apply str_eqb_eq in E. subst b.
  Local Transparent parse_float strip lstrip rstrip. vm_compute in H. discriminate.
Qed.
Local Opaque parse_float strip lstrip rstrip.

Lemma gen_body_float : forall P d b, print_gen P d = Some b -> exists v, parse_float b = Some v.
Proof.
  intros P d b H. assert (G : gen_ok P d = true).
  { unfold gen_ok. Local Transparent print_gen. unfold print_gen in H. destruct (gen_decimals P d); [reflexivity | discriminate]. }
  destruct (gen_ok_print P d G) as [b' [E [_ F]]]. rewrite E in H. inversion H; subst. eauto.
Qed.
Local Opaque print_gen.

Lemma gen_body_tok : forall P d b, print_gen P d = Some b -> no_ws b = true /\ b <> [].
Proof. intros P d b H. destruct (field_body_ok (FGen P) (ANum d) b eq_refl H) as [H1 [H2 _]]. split; assumption. Qed.

(* ---- the atom block ------------------------------------------------------------------------------ *)
Lemma entry_line_first : forall cols a l, entry_line cols a = Some l -> exists b v ws, split_ws l = b :: ws /\ parse_float b = Some v.
Proof.
  intros cols a l H. unfold entry_line in H. destruct (c_pos a) as [[x y] z].
  cbn [app map_opt] in H. unfold gen8 at 1 in H.
  destruct (print_gen xcfg_w_entry_prec x) as [bx |] eqn:Ex; [| discriminate].
  match type of H with option_map _ (match ?m with _ => _ end) = _ => destruct m as [rest |]; [| discriminate] end.
  cbn [option_map] in H. inversion H; subst. clear H.
  destruct (gen_body_float _ _ _ Ex) as [v Hv]. destruct (gen_body_tok _ _ _ Ex) as [Hn Hne].
  exists bx, v. destruct rest as [| b2 r].
  - cbn [join]. exists []. split; [apply split_tok; assumption | exact Hv].
  - change (join [sp] (bx :: b2 :: r)) with (bx ++ sp :: join [sp] (b2 :: r)).
    rewrite (split_mid bx sp _ eq_refl), (split_tok _ Hn Hne). eexists. split; [reflexivity | exact Hv].
Qed.

Lemma mass_line_first : forall m l, render xcfg_w_mass [ANum m] = Some l -> exists v, split_ws l = [fix_body 4 m] /\ parse_float (fix_body 4 m) = Some v.
Proof.
  intros m l H. unfold xcfg_w_mass in H. cbn [render field_body] in H. inversion H; subst. rewrite app_nil_r.
  destruct (field_body_ok (FFix 0 4) (ANum m) (fix_body 4 m) eq_refl eq_refl) as [H1 [H2 _]].
  exists (dq 4 m). split; [apply (split_field_pad (FFix 0 4)); assumption | apply fix_body_parse].
Qed.

Lemma atom_block_no_cell : forall cols l prev blk,
  forallb (fun a => str_tok_ok (c_el a) && negb (isfloat (c_el a))) l = true ->
  forallb (fun a => negb (word_is "cell" (c_el a))) l = true ->
  atom_block cols prev l = Some blk -> forall line, In line blk -> first_word_is "cell" line = false.
Proof.
  induction l as [| a l IH]; intros prev blk R Hc H line Hl; cbn [atom_block] in H; [inversion H; subst; contradiction |].
  cbn [forallb] in R, Hc. apply andb_true_iff in R. destruct R as [Ra Rr]. apply andb_true_iff in Hc. destruct Hc as [Hca Hcr].
  apply andb_true_iff in Ra. destruct Ra as [Rtok _]. apply negb_true_iff in Hca.
  match type of H with match ?h with _ => _ end = _ => destruct h as [hd |] eqn:Eh; [| discriminate] end.
  destruct (entry_line cols a) as [e |] eqn:Ee; [| discriminate].
  destruct (atom_block cols (Some (c_el a)) l) as [t |] eqn:Et; inversion H; subst. clear H.
  apply in_app_or in Hl. destruct Hl as [Hl | [<- | Hl]].
  - destruct (match prev with Some p => str_eqb p (c_el a) | None => false end); [inversion Eh; subst; contradiction |].
    destruct (render xcfg_w_mass [ANum (mass_of (c_el a))]) as [ml |] eqn:Em; inversion Eh; subst.
    destruct Hl as [<- | [<- | []]].
    + destruct (mass_line_first _ _ Em) as [v [Hs Hv]]. eapply word_is_false_first; [exact Hs | eapply float_word_not_cell; exact Hv].
    + destruct (str_tok_ok_parts _ Rtok) as [T1 [T2 _]]. eapply word_is_false_first; [apply split_tok; assumption | exact Hca].
  - destruct (entry_line_first _ _ _ Ee) as [b [v [ws [Hs Hv]]]]. eapply word_is_false_first; [exact Hs | eapply float_word_not_cell; exact Hv].
  - eapply IH; eassumption.
Qed.

(* ---- the whole text --------------------------------------------------------------------------------- *)
Lemma lit_record_plain : forall lit f' a l c r, render (FLit lit :: f') a = Some l -> lit = c :: r -> plain_start c = true -> starts_plain l.
Proof. intros lit f' a l c r H -> Hc. destruct (render_lit_head _ _ _ _ H) as [x ->]. exists c, (r ++ x). split; [reflexivity | exact Hc]. Qed.

Lemma map_opt_all : forall A B (f : A -> option B) (P : B -> Prop) l r,
  (forall a b, f a = Some b -> P b) -> map_opt f l = Some r -> Forall P r.
Proof.
  induction l as [| a l IH]; intros r Hf H; cbn [map_opt] in H; [inversion H; constructor |].
  destruct (f a) eqn:E; [| discriminate]. destruct (map_opt f l) eqn:E2; inversion H; subst.
  constructor; [eapply Hf; eassumption | eapply IH; eauto].
Qed.

Lemma xcfg_text : forall St ls, print_xcfg St = Some ls ->
  exists hdr blk, ls = hdr ++ [] :: blk /\ hdr <> [] /\ Forall starts_plain hdr /\ In xcfg_w_novel hdr /\
                  atom_block (aux_columns St) None (c_atoms St) = Some blk.
Proof.
  intros St ls H. unfold print_xcfg in H. destruct (c_atoms St) as [| a0 atoms] eqn:Ea; [discriminate |].
  repeat match type of H with
  | concat_opt (_ :: _) = Some _ =>
      let a := fresh "a" in let b := fresh "b" in let Ha := fresh "Ha" in let Hb := fresh "Hb" in let Hr := fresh "Hr" in
      apply concat_opt_cons in H; destruct H as [a [b [Ha [Hb Hr]]]]; rename Hb into H; subst
  end.
  cbn in H. inversion H; subst. clear H. inversion Ha2; subst. inversion Ha5; subst. clear Ha2 Ha5.
  exists (a ++ a1 ++ a2 ++ [xcfg_w_novel] ++ a4 ++ a5), a7.
  split; [rewrite <- !app_assoc; cbn [app]; rewrite app_nil_r; reflexivity |].
  assert (P1 : forall spec args x c r, render spec args = Some x -> (exists f', spec = FLit (c :: r) :: f') -> plain_start c = true -> starts_plain x).
  { intros spec args x c r Hx [f' ->] Hc. eapply lit_record_plain; [exact Hx | reflexivity | exact Hc]. }
  destruct (render xcfg_w_nparticles _) as [l1 |] eqn:E1; inversion Ha; subst.
  destruct (render xcfg_w_A _) as [l2 |] eqn:E2; inversion Ha0; subst.
  destruct (render xcfg_w_entry_count _) as [l4 |] eqn:E4; inversion Ha3; subst.
  split; [discriminate |]. split; [| split; [find_in | exact Ha6]].
  repeat (apply Forall_app; split).
  - repeat constructor. eapply P1; [exact E1 | eexists; reflexivity | reflexivity].
  - repeat constructor. eapply P1; [exact E2 | eexists; reflexivity | reflexivity].
  - unfold h0_lines in Ha1. destruct (c_base St) as [[r1 r2] r3]. destruct r1 as [[x1 y1] z1], r2 as [[x2 y2] z2], r3 as [[x3 y3] z3].
    repeat match type of Ha1 with
    | concat_opt (_ :: _) = Some _ =>
        let a := fresh "a" in let b := fresh "b" in let Ha := fresh "Hh" in let Hb := fresh "Hb" in
        apply concat_opt_cons in Ha1; destruct Ha1 as [a [b [Ha [Hb ->]]]]; rename Hb into Ha1
    end.
    cbn in Ha1. inversion Ha1; subst. rewrite app_nil_r.
    assert (PH : forall i jv x, render xcfg_w_H0 [AInt i; AInt (fst jv); ANum (snd jv)] = Some x -> starts_plain x).
    { intros i jv x Hx. eapply P1; [exact Hx | eexists; reflexivity | reflexivity]. }
    repeat (apply Forall_app; split); (eapply map_opt_all; [| eassumption]; intros jv x Hx; cbv beta in Hx; eapply PH; exact Hx).
  - repeat constructor. eexists _, _; split; [reflexivity | reflexivity].
  - repeat constructor. eapply P1; [exact E4 | eexists; reflexivity | reflexivity].
  - eapply map_opt_all; [| exact Ha4]. intros ic x Hx. eapply P1; [exact Hx | eexists; reflexivity | reflexivity].
Qed.

Lemma xcfg_text_no_cell : forall St ls, repr_xcfg St = true -> xcfg_elements_not_cell St = true -> print_xcfg St = Some ls -> no_cell_record ls.
Proof.
  intros St ls R Hc H l Hl. destruct (xcfg_text _ _ H) as [hdr [blk [-> [_ [Hh [_ Hb]]]]]].
  apply in_app_or in Hl. destruct Hl as [Hl | [<- | Hl]].
  - rewrite Forall_forall in Hh. destruct (starts_plain_line l (Hh l Hl)) as [w [ws [Hs [_ [_ Hw]]]]]. eapply word_is_false_first; eassumption.
  - reflexivity.
  - unfold repr_xcfg in R. apply andb_true_iff in R. destruct R as [_ Ra].
    eapply atom_block_no_cell; [exact Ra | exact Hc | exact Hb | exact Hl].
Qed.

Theorem cell_xyz_xcfg : forall St ls, print_xcfg St = Some ls -> conc_xyz ls = Raise FormatError.
Proof.
  intros St ls H. destruct (xcfg_text _ _ H) as [hdr [blk [-> [Hne [Hh _]]]]]. destruct hdr as [| l0 rest]; [contradiction |].
  inversion Hh as [| ? ? Hl0 _]; subst. destruct (starts_plain_line l0 Hl0) as [w [ws [Hs [Hhash [Hi _]]]]].
  cbn [app]. eapply xyz_rejects_first_record; [exact Hs | exact Hhash | right; exact Hi].
Qed.

Theorem cell_rawxyz_xcfg : forall St ls, print_xcfg St = Some ls -> rejected (conc_rawxyz ls).
Proof.
  intros St ls H. destruct (xcfg_text _ _ H) as [hdr [blk [-> [Hne [Hh [Hnov _]]]]]]. destruct hdr as [| l0 rest]; [contradiction |].
  inversion Hh as [| ? ? Hl0 _]; subst. destruct (starts_plain_line l0 Hl0) as [w [ws [Hs [Hhash _]]]].
  cbn [app]. eapply rawxyz_rejects_one_field_record with (la := xcfg_w_novel) (wa := S2L ".NO_VELOCITY."); [exact Hs | exact Hhash | | reflexivity].
  change (l0 :: rest ++ [] :: blk) with ((l0 :: rest) ++ [] :: blk). apply in_or_app. left. exact Hnov.
Qed.

Section GeometryCellsXcfg.
  Variable lattice_of : list dec -> res unit.
  Variable mulZ : dec -> Z -> res dec.
  Variable set_lat_par : list (list dec) -> list dec -> res unit.
  Variable cell_pars : list (list dec) -> list dec.
  Hypothesis lattice_kinds : forall l, within [ValueError; ZeroDivisionError] (lattice_of l).
  Hypothesis mulZ_kinds : forall v z, within [OverflowError] (mulZ v z).
  Hypothesis set_lat_par_kinds : forall h l, within [ValueError; ZeroDivisionError] (set_lat_par h l).

  Theorem cell_pdffit_xcfg : forall St ls, repr_xcfg St = true -> xcfg_elements_not_cell St = true -> print_xcfg St = Some ls ->
    conc_pdffit lattice_of mulZ ls = Raise FormatError.
  Proof. intros. apply pdffit_rejects_without_cell; try assumption. eapply xcfg_text_no_cell; eassumption. Qed.

  Theorem cell_discus_xcfg : forall St ls, repr_xcfg St = true -> xcfg_elements_not_cell St = true -> print_xcfg St = Some ls ->
    rejected (conc_discus lattice_of mulZ set_lat_par cell_pars ls).
  Proof. intros. apply discus_rejects_without_cell; try assumption. eapply xcfg_text_no_cell; eassumption. Qed.
End GeometryCellsXcfg.
