(* C02 - "within tolerance of x0" in metric terms: if x differs from x0 by at most tau in every coordinate, the
   images of x0 are pairwise equal or at least M apart (periodic box distance), 6 tau <= eps and M - 6 tau > 2e-5,
   then the hypotheses within_tol / between_far of the near-special theorems hold. *)
From Coq Require Import ZArith List Bool Lia.
From DS Require Import Base.ZMat Base.SGDefs Model.GroupCheck Model.C02_Orbit Model.C02_Eps.
From DS Require Import Proofs.C02_Action Proofs.C02_Expand Proofs.C02_EpsSound Proofs.C02_NearSpecial Proofs.C02_GenSound Proofs.C02_GenCheck.
Import ListNotations.
Open Scope Z_scope.

(* closed form of the periodic difference of two reduced coordinates *)
Lemma pdiff1_cases D a b : 0 < D -> 0 <= a < D -> 0 <= b < D ->
  (b <= a /\ pdiff1 D a b = Z.min (a - b) (D - (a - b))) \/ (a < b /\ pdiff1 D a b = Z.min (a - b + D) (b - a)).
Proof.
  intros HD Ha Hb. unfold pdiff1. cbv zeta.
  destruct (Z_lt_le_dec (a - b) 0) as [Hn|Hp].
  - right. split; [lia|].
    assert (Hq : (a - b) / D = -1) by (symmetry; apply (Z.div_unique (a - b) D (-1) (a - b + D)); lia).
    rewrite Hq. destruct (D <? 2 * (a - b - D * -1)) eqn:E; [apply Z.ltb_lt in E | apply Z.ltb_ge in E]; lia.
  - left. split; [lia|]. rewrite Z.div_small by lia.
    destruct (D <? 2 * (a - b - D * 0)) eqn:E; [apply Z.ltb_lt in E | apply Z.ltb_ge in E]; lia.
Qed.

Lemma pdiff1_triangle D a b c : 0 < D -> 0 <= a < D -> 0 <= b < D -> 0 <= c < D ->
  pdiff1 D a c <= pdiff1 D a b + pdiff1 D b c.
Proof.
  intros HD Ha Hb Hc.
  destruct (pdiff1_cases D a c HD Ha Hc) as [[? ->]|[? ->]];
  destruct (pdiff1_cases D a b HD Ha Hb) as [[? ->]|[? ->]];
  destruct (pdiff1_cases D b c HD Hb Hc) as [[? ->]|[? ->]]; lia.
Qed.

(* moving a coordinate by d changes its reduced value by at most |d| *)
Lemma pdiff1_shift_l D u d : 0 < D -> pdiff1 D ((u + d) mod D) (u mod D) <= Z.abs d.
Proof.
  intros HD.
  pose proof (Z.mod_pos_bound (u + d) D HD) as Ha. pose proof (Z.mod_pos_bound u D HD) as Hb.
  pose proof (Z.div_mod (u + d) D ltac:(lia)) as E1. pose proof (Z.div_mod u D ltac:(lia)) as E2.
  set (a := (u + d) mod D) in *. set (b := u mod D) in *.
  set (q1 := (u + d) / D) in *. set (q2 := u / D) in *.
  (* a - b = d - D (q1 - q2) *)
  destruct (pdiff1_cases D a b HD Ha Hb) as [[H ->]|[H ->]].
  - assert (Hk : a - b = d - D * (q1 - q2)) by lia.
    destruct (Z_lt_le_dec (q1 - q2) 0); [nia|]. destruct (Z_lt_le_dec 0 (q1 - q2)); [nia|].
    assert (q1 - q2 = 0) by lia. nia.
  - assert (Hk : a - b = d - D * (q1 - q2)) by lia.
    destruct (Z_lt_le_dec (q1 - q2) 0); [nia|]. destruct (Z_lt_le_dec 0 (q1 - q2)); [nia|].
    assert (q1 - q2 = 0) by lia. nia.
Qed.

Lemma pdiff1_shift_r D u d : 0 < D -> pdiff1 D (u mod D) ((u + d) mod D) <= Z.abs d.
Proof.
  intros HD. replace (u mod D) with (((u + d) + - d) mod D) at 1 by (f_equal; ring).
  rewrite <- (Z.abs_opp d). apply pdiff1_shift_l. exact HD.
Qed.

Definition vnorm_le (tau : Z) (d : v3) : Prop := Z.abs (vx d) <= tau /\ Z.abs (vy d) <= tau /\ Z.abs (vz d) <= tau.

Lemma boxdist_triangle D p q r : 0 < D -> in_cell D p -> in_cell D q -> in_cell D r ->
  boxdist D p r <= boxdist D p q + boxdist D q r.
Proof.
  intros HD [P1 [P2 P3]] [Q1 [Q2 Q3]] [R1 [R2 R3]]. unfold boxdist.
  pose proof (pdiff1_triangle D (vx p) (vx q) (vx r) HD P1 Q1 R1).
  pose proof (pdiff1_triangle D (vy p) (vy q) (vy r) HD P2 Q2 R2).
  pose proof (pdiff1_triangle D (vz p) (vz q) (vz r) HD P3 Q3 R3). lia.
Qed.

Lemma boxdist_shift_l D u d t : 0 < D -> vnorm_le t d -> boxdist D (red D (vadd u d)) (red D u) <= t.
Proof.
  intros HD [H1 [H2 H3]]. unfold boxdist, red, vmod, vadd. cbn [vx vy vz].
  pose proof (pdiff1_shift_l D (vx u) (vx d) HD). pose proof (pdiff1_shift_l D (vy u) (vy d) HD).
  pose proof (pdiff1_shift_l D (vz u) (vz d) HD). lia.
Qed.

Lemma boxdist_shift_r D u d t : 0 < D -> vnorm_le t d -> boxdist D (red D u) (red D (vadd u d)) <= t.
Proof.
  intros HD [H1 [H2 H3]]. unfold boxdist, red, vmod, vadd. cbn [vx vy vz].
  pose proof (pdiff1_shift_r D (vx u) (vx d) HD). pose proof (pdiff1_shift_r D (vy u) (vy d) HD).
  pose proof (pdiff1_shift_r D (vz u) (vz d) HD). lia.
Qed.

(* a rotation with entries in {-1,0,1} enlarges the maximum norm at most three times *)
Lemma abs_mul_unit e d : -1 <= e <= 1 -> Z.abs (e * d) <= Z.abs d.
Proof. intros H. rewrite Z.abs_mul. assert (Z.abs e <= 1) by lia. pose proof (Z.abs_nonneg d). nia. Qed.

Lemma mvec_norm R d t : forallb (in_range (-1) 1) (m3_entries R) = true -> vnorm_le t d -> vnorm_le (3 * t) (mvec R d).
Proof.
  intros HR [H1 [H2 H3]]. unfold m3_entries in HR. cbn [forallb] in HR. unfold in_range in HR.
  rewrite !andb_true_iff, !Z.leb_le in HR.
  destruct R as [e1 e2 e3 e4 e5 e6 e7 e8 e9], d as [d1 d2 d3]. cbn [m11 m12 m13 m21 m22 m23 m31 m32 m33 vx vy vz] in *.
  unfold vnorm_le, mvec. cbn [m11 m12 m13 m21 m22 m23 m31 m32 m33 vx vy vz].
  pose proof (abs_mul_unit e1 d1). pose proof (abs_mul_unit e2 d2). pose proof (abs_mul_unit e3 d3).
  pose proof (abs_mul_unit e4 d1). pose proof (abs_mul_unit e5 d2). pose proof (abs_mul_unit e6 d3).
  pose proof (abs_mul_unit e7 d1). pose proof (abs_mul_unit e8 d2). pose proof (abs_mul_unit e9 d3).
  repeat split; lia.
Qed.

Section Metric.
  Variable D : Z.
  Variable G : list symop.
  Variables off x x0 : v3.
  Variables tau M : Z.
  Hypothesis HD : 0 < D.
  Hypothesis Hent : forall o, In o G -> entries_ok o = true.
  Hypothesis Hclose : vnorm_le tau (vsub x x0).
  Hypothesis Htau : 6 * tau * eps_eq_den <= eps_eq_num * D.
  Hypothesis Hsep0 : forall g h, In g G -> In h G -> img D g off x0 <> img D h off x0 ->
                                 M <= boxdist D (img D g off x0) (img D h off x0).
  Hypothesis HM : 2 * D < 100000 * (M - 6 * tau).

  Lemma raw_img_shift g : raw_img D g off x = vadd (raw_img D g off x0) (mvec (fst g) (vsub x x0)).
  Proof.
    unfold raw_img.
    replace (vadd x off) with (vadd (vadd x0 off) (vsub x x0))
      by (destruct x as [a1 a2 a3], x0 as [b1 b2 b3], off as [o1 o2 o3]; apply v3_ext; zm_simpl; ring).
    rewrite apply_op_add. generalize (apply_op D g (vadd x0 off)) (mvec (fst g) (vsub x x0)). intros u w.
    destruct u as [u1 u2 u3], w as [w1 w2 w3], off as [o1 o2 o3]. apply v3_ext; zm_simpl; ring.
  Qed.

  Lemma rot_disp g : In g G -> vnorm_le (3 * tau) (mvec (fst g) (vsub x x0)).
  Proof.
    intros Hg. apply mvec_norm; [|exact Hclose].
    specialize (Hent g Hg). unfold entries_ok in Hent. rewrite !andb_true_iff in Hent. tauto.
  Qed.

  Lemma img_close_l g : In g G -> boxdist D (img D g off x) (img D g off x0) <= 3 * tau.
  Proof. intros Hg. unfold img. rewrite raw_img_shift. apply boxdist_shift_l; [exact HD | apply rot_disp; exact Hg]. Qed.
  Lemma img_close_r g : In g G -> boxdist D (img D g off x0) (img D g off x) <= 3 * tau.
  Proof. intros Hg. unfold img. rewrite raw_img_shift. apply boxdist_shift_r; [exact HD | apply rot_disp; exact Hg]. Qed.

  Theorem near_from_metric : within_tol D G off x x0 /\ between_far D G off x x0.
  Proof.
    split.
    - intros g h Hg Hh E.
      pose proof (boxdist_triangle D (img D g off x) (img D g off x0) (img D h off x) HD
                    (img_in_cell D g off x HD) (img_in_cell D g off x0 HD) (img_in_cell D h off x HD)) as T.
      pose proof (img_close_l g Hg) as A. pose proof (img_close_r h Hh) as B. rewrite <- E in B.
      unfold eps_eq_den, eps_eq_num in *. lia.
    - intros g h Hg Hh E. unfold far.
      pose proof (Hsep0 g h Hg Hh E) as S0.
      pose proof (boxdist_triangle D (img D g off x0) (img D g off x) (img D h off x0) HD
                    (img_in_cell D g off x0 HD) (img_in_cell D g off x HD) (img_in_cell D h off x0 HD)) as T1.
      pose proof (boxdist_triangle D (img D g off x) (img D h off x) (img D h off x0) HD
                    (img_in_cell D g off x HD) (img_in_cell D h off x HD) (img_in_cell D h off x0 HD)) as T2.
      pose proof (img_close_r g Hg) as A. pose proof (img_close_l h Hh) as B. lia.
  Qed.
End Metric.

(* decidable separation of the images of x0 by at least M, and a non-trivial instance of the metric hypotheses *)
Definition sep0_b (D : Z) (G : list symop) (off x0 : v3) (M : Z) : bool :=
  let ims := map (fun g => img D g off x0) G in
  forallb (fun p => forallb (fun q => v3_eqb p q || (M <=? boxdist D p q)) ims) ims.

Lemma sep0_b_spec D G off x0 M : sep0_b D G off x0 M = true ->
  forall g h, In g G -> In h G -> img D g off x0 <> img D h off x0 -> M <= boxdist D (img D g off x0) (img D h off x0).
Proof.
  unfold sep0_b. cbv zeta. intros H g h Hg Hh Hne.
  rewrite forallb_forall in H. specialize (H (img D g off x0) (in_map _ _ _ Hg)).
  rewrite forallb_forall in H. specialize (H (img D h off x0) (in_map _ _ _ Hh)).
  apply orb_true_iff in H as [H|H]; [apply v3_eqb_eq in H; contradiction | apply Z.leb_le in H; exact H].
Qed.

Example metric_instance :
  let D := 120000000 in let x0 := V3 40000000 80000000 36000000 in let x := V3 40000012 80000024 36000000 in
  let G := Proofs.C02_GenCheck.ex_G in
  vnorm_le 24 (vsub x x0) /\ 6 * 24 * eps_eq_den <= eps_eq_num * D /\ sep0_b D G v0 x0 12000000 = true /\
  2 * D < 100000 * (12000000 - 6 * 24) /\ within_tol D G v0 x x0 /\ between_far D G v0 x x0.
Proof.
  cbv zeta.
  assert (H1 : vnorm_le 24 (vsub (V3 40000012 80000024 36000000) (V3 40000000 80000000 36000000))) by (vm_compute; repeat split; discriminate).
  assert (H2 : 6 * 24 * eps_eq_den <= eps_eq_num * 120000000) by (vm_compute; discriminate).
  assert (H3 : sep0_b 120000000 Proofs.C02_GenCheck.ex_G v0 (V3 40000000 80000000 36000000) 12000000 = true) by (vm_compute; reflexivity).
  assert (H4 : 2 * 120000000 < 100000 * (12000000 - 6 * 24)) by (vm_compute; reflexivity).
  split; [exact H1|]. split; [exact H2|]. split; [exact H3|]. split; [exact H4|].
  apply (near_from_metric 120000000 Proofs.C02_GenCheck.ex_G v0 (V3 40000012 80000024 36000000) (V3 40000000 80000000 36000000) 24 12000000).
  - lia.
  - intros o Ho. apply (g_entries _ Proofs.C02_GenCheck.ex_G_group). exact Ho.
  - exact H1.
  - exact H2.
  - apply sep0_b_spec. exact H3.
  - exact H4.
Qed.
