(* C09 - the relations a lattice's cached attributes satisfy (hypotheses of the theorems, validated numerically on live
   Lattice objects by the correspondence run) and the matrix identities that follow from them. *)
From Coq Require Import Reals Lra List Bool.
From DS Require Import Base.RMat Base.C09_GNum Model.C09_Prims.
Open Scope R_scope.

Definition diag3 (x y z : R) : mat := M x 0 0 0 y 0 0 0 z.
Definition msym (m : mat) : Prop := a12 m = a21 m /\ a13 m = a31 m /\ a23 m = a32 m.
Definition gsym (m : gmat R) : Prop := msym (toM m).

(* What lattice.py establishes for the attributes atom.py reads (setLatPar / setLatBase):
     normbase      = base * [[ar],[br],[cr]]                      (rows of base scaled by the reciprocal lengths)
     metrics       = [[a*a, a*b*cg, ...]]  and it is the Gram matrix of base          (C01: base base^T = metrics)
     recnormbase   = inverse of normbase,  isotropicunit = recnormbase^T recnormbase  (its diagonal is then exactly 1,
                                                                                        which is what _isotropicunit forces)
     _epsilon > 0 *)
Record lat_ok (l : latdata R) : Prop := LatOk {
  lo_norm : toM (l_normbase l) = mmul (diag3 (l_ar l) (l_br l) (l_cr l)) (toM (l_base l));
  lo_gram : toM (l_metrics l) = mmul (toM (l_base l)) (mT (toM (l_base l)));
  lo_metr : toM (l_metrics l) =
            M (l_a l * l_a l) (l_a l * l_b l * l_cg l) (l_a l * l_c l * l_cb l)
              (l_b l * l_a l * l_cg l) (l_b l * l_b l) (l_b l * l_c l * l_ca l)
              (l_c l * l_a l * l_cb l) (l_c l * l_b l * l_ca l) (l_c l * l_c l);
  lo_iso : exists Mr, mmul (toM (l_normbase l)) Mr = I /\ toM (l_isotropicunit l) = mmul (mT Mr) Mr;
  lo_eps : 0 < l_epsilon l
}.

Lemma cart_lat_ok eps : 0 < eps -> lat_ok (cart_lat ROps eps).
Proof.
  intros He. constructor; cbn [cart_lat l_normbase l_base l_metrics l_isotropicunit l_ar l_br l_cr l_a l_b l_c l_ca l_cb l_cg l_epsilon].
  - apply mat_eq; g_simpl; unfold diag3; rm_simpl; ring.
  - apply mat_eq; g_simpl; rm_simpl; ring.
  - apply mat_eq; g_simpl; rm_simpl; ring.
  - exists I. split; apply mat_eq; g_simpl; rm_simpl; ring.
  - exact He.
Qed.

(* a non-trivial instance: a = 2, b = 3, c = 5, gamma = 60 degrees (cg = 1/2, sg = s with s*s = 3/4), alpha = beta = 90 *)
Definition ex_lat (s : R) : latdata R :=
  LD 2 3 5 (1 / (2 * s)) (1 / (3 * s)) (1 / 5) 0 0 (1 / 2)
     (GM (GV 4 3 0) (GV 3 9 0) (GV 0 0 25))
     (GM (GV 2 0 0) (GV (3 / 2) (3 * s) 0) (GV 0 0 5))
     (GM (GV (1 / s) 0 0) (GV (1 / (2 * s)) 1 0) (GV 0 0 1))
     (GM (GV 1 (- (1 / 2)) 0) (GV (- (1 / 2)) 1 0) (GV 0 0 1))
     (1 / 100000000).
Lemma ex_lat_ok s : s * s = 3 / 4 -> 0 < s -> lat_ok (ex_lat s).
Proof.
  intros Hs Hp. assert (s <> 0) by lra.
  constructor; cbn [ex_lat l_normbase l_base l_metrics l_isotropicunit l_ar l_br l_cr l_a l_b l_c l_ca l_cb l_cg l_epsilon].
  - apply mat_eq; g_simpl; unfold diag3; rm_simpl; field; assumption.
  - apply mat_eq; g_simpl; rm_simpl; nra.
  - apply mat_eq; g_simpl; rm_simpl; field.
  - exists (M s 0 0 (- (1 / 2)) 1 0 0 0 1). split; apply mat_eq; g_simpl; rm_simpl; try (field; assumption); nra.
  - lra.
Qed.

(* ---- identities ---- *)
Lemma inv_both n mr : mmul n mr = I -> mmul mr n = I /\ det n <> 0.
Proof.
  intros E. assert (Hd : det n <> 0).
  { intros Z. apply (f_equal det) in E. rewrite det_mmul, det_I, Z in E. lra. }
  split; [|exact Hd]. rewrite (minv_unique n mr Hd E). apply minv_l. exact Hd.
Qed.

(* N^T (Mr^T Mr) N = I : the unit isotropic tensor is the identity in Cartesian axes *)
Lemma unit_iso_cart n mr : mmul n mr = I -> mmul (mT n) (mmul (mmul (mT mr) mr) n) = I.
Proof.
  intros E. destruct (inv_both n mr E) as [E2 _].
  rewrite (mmul_assoc (mT mr) mr n), E2, mmul_I_r, <- mT_mmul, E2. apply mat_eq; rm_simpl; ring.
Qed.

Lemma trace_cart_sym u n : msym u ->
  mtrace (mmul (mT n) (mmul u n)) =
  let p := mmul n (mT n) in
  a11 u * a11 p + a22 u * a22 p + a33 u * a33 p + 2 * a12 u * a12 p + 2 * a13 u * a13 p + 2 * a23 u * a23 p.
Proof.
  intros [H1 [H2 H3]]. dmat u; dmat n; rm_simpl; subst. ring.
Qed.

Lemma gram_normbase d1 d2 d3 b :
  mmul (mmul (diag3 d1 d2 d3) b) (mT (mmul (diag3 d1 d2 d3) b)) =
  let g := mmul b (mT b) in
  M (d1 * d1 * a11 g) (d1 * d2 * a12 g) (d1 * d3 * a13 g) (d2 * d1 * a21 g) (d2 * d2 * a22 g) (d2 * d3 * a23 g)
    (d3 * d1 * a31 g) (d3 * d2 * a32 g) (d3 * d3 * a33 g).
Proof. dmat b; unfold diag3; apply mat_eq; rm_simpl; ring. Qed.

Lemma mtrace_mscale k m : mtrace (mscale k m) = k * mtrace m.
Proof. dmat m; rm_simpl; ring. Qed.
Lemma mmul_mscale_l k a b : mmul (mscale k a) b = mscale k (mmul a b).
Proof. dmat a; dmat b; apply mat_eq; rm_simpl; ring. Qed.
Lemma mmul_mscale_r k a b : mmul a (mscale k b) = mscale k (mmul a b).
Proof. dmat a; dmat b; apply mat_eq; rm_simpl; ring. Qed.
Lemma mtrace_I : mtrace I = 3.
Proof. rm_simpl; ring. Qed.
Lemma msym_mscale k m : msym m -> msym (mscale k m).
Proof. intros [A [B C]]. dmat m; unfold msym in *; rm_simpl. subst. repeat split; reflexivity. Qed.
Lemma msym_gram m : msym (mmul (mT m) m).
Proof. dmat m; unfold msym; rm_simpl. repeat split; ring. Qed.

(* v B = 0 forces v = 0 when B is invertible *)
Lemma vmul_zero_inv v b : det b <> 0 -> vmul v b = V 0 0 0 -> v = V 0 0 0.
Proof.
  intros Hd E. rewrite <- (vmul_I v), <- (minv_r b Hd), <- vmul_mmul, E. apply vec_eq; rm_simpl; ring.
Qed.
