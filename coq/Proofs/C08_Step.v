(* C08 - every operation of the current source variant preserves Inv; induction over sequences *)
From Coq Require Import List ZArith Bool Arith Lia.
From DS Require Import Model.C08_StructHeap Proofs.C08_Lists Proofs.C08_Prims Proofs.C08_Inv.
Import ListNotations.
Open Scope nat_scope.

Definition IE (w w' : world) : Prop := Inv w' /\ ext w w'.

Lemma IE_refl : forall w, Inv w -> IE w w.
Proof. intros; split; auto. apply ext_refl. Qed.

Lemma IE_chain : forall w w1 w2, IE w w1 -> (Inv w1 -> ext w w1 -> IE w1 w2) -> IE w w2.
Proof. intros w w1 w2 [I1 E1] H. destruct (H I1 E1) as [I2 E2]. split; auto. eapply ext_trans; eauto. Qed.

Lemma get_struct_wf : forall w h old L, wf w -> get_struct w h = Some (old, L) ->
  valid w old /\ L < nlat w /\ nth_error (objs w) h = Some (OStruct old L).
Proof.
  unfold get_struct, get_obj. intros w h old L [W1 [W2 W3]] H.
  destruct (nth_error (objs w) h) as [[its l|]|] eqn:E; try discriminate. inversion H; subst.
  split; [|split]; auto. apply (W1 _ _ E). eauto.
Qed.

Lemma get_obj_wf : forall w s so, wf w -> get_obj w s = Some so -> valid w (obj_items so).
Proof. unfold get_obj. intros w s so [W1 _] H. eauto. Qed.

Lemma resolve_aref_valid : forall w r a, wf w -> resolve_aref w r = Some a -> a < length (heap w).
Proof.
  unfold resolve_aref. intros w r a Hwf H. destruct (get_obj w (r_obj r)) eqn:E; try discriminate.
  destruct (norm_index (length (obj_items o)) (r_idx r)); try discriminate.
  apply nth_error_In in H. eapply get_obj_wf; eauto.
Qed.

Lemma resolve_arefs_valid : forall w l ids, wf w -> resolve_arefs w l = Some ids -> valid w ids.
Proof.
  induction l; simpl; intros.
  - inversion H0; subst. intros x [].
  - destruct (resolve_aref w a) eqn:E1; try discriminate. destruct (resolve_arefs w l) eqn:E2; try discriminate.
    inversion H0; subst. intros x [Hx|Hx].
    + subst. eapply resolve_aref_valid; eauto.
    + eapply IHl; eauto.
Qed.

Lemma valid_nil : forall w, valid w []. Proof. intros w x []. Qed.
Lemma valid_pick : forall w old idxs, valid w old -> valid w (pick old idxs).
Proof. intros w old idxs H x Hx. apply H. eapply pick_In; eauto. Qed.
Lemma valid_filter : forall w f old, valid w old -> valid w (filter f old).
Proof. intros w f old H x Hx. apply H. eapply filter_In'; eauto. Qed.
Lemma valid_repeat : forall w n old, valid w old -> valid w (repeat_list n old).
Proof. intros w n old H x Hx. apply H. eapply repeat_list_In; eauto. Qed.
Lemma valid_nodup_first : forall w old, valid w old -> valid w (nodup_first [] old).
Proof. intros w old H x Hx. apply H. eapply nodup_first_In; eauto. Qed.
Lemma valid_one : forall w a, a < length (heap w) -> valid w [a].
Proof. intros w a H x [Hx|[]]. subst. auto. Qed.

Lemma alloc_lat_IE : forall w, Inv w -> IE w (snd (alloc_lat w)) /\ fst (alloc_lat w) < nlat (snd (alloc_lat w)).
Proof. intros. destruct (alloc_lat_Inv w H) as [A [B C]]. split; [split|]; auto. Qed.

Lemma install_IE : forall h srcs e w, Inv w -> srcs_valid w srcs -> IE w (install h srcs e w).
Proof. intros. apply install_Inv; auto. Qed.

Lemma new_struct_IE : forall L srcs sel w, Inv w -> L < nlat w -> srcs_valid w srcs -> IE w (snd (new_struct L srcs sel w)).
Proof. intros. destruct (new_struct_Inv L srcs sel w H H0 H1) as [A [B C]]. split; auto. Qed.

Lemma relat_IE : forall h L w, Inv w -> L < nlat w -> IE w (relat h L w).
Proof. intros. apply relat_Inv; auto. Qed.

Lemma do_copy_IE : forall its w, Inv w -> valid w its -> IE w (snd (do_copy its w)).
Proof.
  intros its w HI Hv. unfold do_copy.
  destruct (alloc_lat w) as [Lg w1] eqn:E1. destruct (alloc_lat w1) as [L' w2] eqn:E2.
  destruct (alloc_lat_IE w HI) as [[I1 X1] _]. rewrite E1 in *. simpl in *.
  destruct (alloc_lat_IE w1 I1) as [[I2 X2] HL]. rewrite E2 in *. simpl in *.
  destruct (new_struct L' (map Dup its) None w2) as [hn w3] eqn:E3.
  pose proof (new_struct_IE L' (map Dup its) None w2 I2 HL) as H. rewrite E3 in H. simpl in *.
  destruct H as [I3 X3].
  - apply srcs_valid_Dup. eapply valid_ext; [|eauto]. eapply ext_trans; eauto.
  - split; auto. eapply ext_trans; eauto. eapply ext_trans; eauto.
Qed.

Lemma selection_IE : forall L sel w, Inv w -> L < nlat w -> valid w sel -> IE w (snd (selection L sel w)).
Proof.
  intros L sel w HI HL Hv. unfold selection.
  destruct (alloc_lat w) as [Lg w1] eqn:E1.
  destruct (alloc_lat_IE w HI) as [[I1 X1] _]. rewrite E1 in *. simpl in *.
  destruct (new_struct L (map Keep sel) None w1) as [hn w2] eqn:E2.
  pose proof (new_struct_IE L (map Keep sel) None w1 I1) as H. rewrite E2 in H. simpl in *.
  destruct H as [I2 X2].
  - destruct X1. lia.
  - apply srcs_valid_Keep. eapply valid_ext; eauto.
  - split; auto. eapply ext_trans; eauto.
Qed.

Lemma resolve_lat_IE : forall w la L w1, Inv w -> resolve_lat w la = Some (L, w1) -> IE w w1 /\ L < nlat w1.
Proof.
  intros w la L w1 HI H. destruct la; simpl in H.
  - inversion H. destruct (alloc_lat_IE w HI) as [A B]. rewrite H1, H2 in *. subst. auto.
  - destruct (get_struct w h) as [[its l]|] eqn:E; try discriminate. inversion H; subst.
    split; [apply IE_refl; auto|]. destruct HI as [Hwf _]. eapply get_struct_wf in E; eauto. tauto.
Qed.

Ltac pairs :=
  repeat match goal with
  | |- context [let '(_, _) := ?e in _] => let a := fresh "r" in let b := fresh "w" in let E := fresh "E" in destruct e as [a b] eqn:E
  end.

Lemma do_extend_IE : forall h s copy w, Inv w -> IE w (fst (do_extend current h s copy w)).
Proof.
  intros h s copy w HI. unfold do_extend. simpl.
  destruct (get_struct w h) as [[old L]|] eqn:E1; [|apply IE_refl; auto].
  destruct (get_obj w s) as [so|] eqn:E2; [|apply IE_refl; auto]. simpl.
  pose proof HI as [Hwf _]. apply install_IE; auto.
  pose proof (get_obj_wf _ _ _ Hwf E2) as Hv. destruct (get_struct_wf _ _ _ _ Hwf E1) as [Hold _].
  unfold extend_plan. destruct copy.
  - destruct (is_struct so); [apply srcs_valid_Dup|apply srcs_valid_memo]; auto.
  - apply srcs_valid_Dup; auto.
  - apply srcs_valid_Keep; auto.
Qed.

Lemma step_Inv : forall o w, Inv w -> IE w (fst (step current o w)).
Proof.
  intros o w HI. pose proof HI as [Hwf _].
  destruct o; cbn [step].
  - (* NewStruct *)
    destruct (alloc_lat w) as [L w1] eqn:E1. destruct (alloc_lat_IE w HI) as [[I1 X1] HL]. rewrite E1 in *. cbn [fst snd] in *.
    destruct (new_struct L [] None w1) as [h w2] eqn:E2. cbn [fst snd].
    pose proof (new_struct_IE L [] None w1 I1 HL) as H. rewrite E2 in H. cbn [fst snd] in H.
    destruct H as [I2 X2]; [constructor|]. split; auto. eapply ext_trans; eauto.
  - (* NewList *)
    pose proof (alloc_free_Inv tags [] w HI (valid_nil w)) as H. cbn [fst snd] in H.
    destruct (fold_left _ tags ([], w)) as [ids w1] eqn:E. cbn [fst snd] in *. destruct H as [I1 [X1 V1]].
    destruct (push_obj (OList ids) w1) as [h w2] eqn:E2. cbn [fst snd].
    destruct (push_list_Inv ids w1 I1 V1) as [I2 X2]. rewrite E2 in *. cbn [fst snd] in *.
    split; auto. eapply ext_trans; eauto.
  - (* ListOf *)
    destruct (resolve_arefs w l) as [ids|] eqn:E; [|apply IE_refl; auto].
    destruct (push_obj (OList ids) w) as [h w1] eqn:E2. cbn [fst snd].
    destruct (push_list_Inv ids w HI) as [I2 X2]; [eapply resolve_arefs_valid; eauto|]. rewrite E2 in *. split; auto.
  - (* AddNewAtom *)
    destruct (get_struct w h) as [[old L]|] eqn:E1; [|apply IE_refl; auto]. cbn [fst snd].
    apply install_IE; auto. constructor; [exact I|constructor].
  - (* Construct *)
    destruct (get_obj w s) as [so|] eqn:E1; [|apply IE_refl; auto].
    pose proof (get_obj_wf _ _ _ Hwf E1) as Hso.
    assert (Hg : forall given w0, match l with None => Some (None, w) | Some a =>
                   match resolve_lat w a with Some (L, w') => Some (Some L, w') | None => None end end = Some (given, w0) ->
                 IE w w0 /\ (forall L, given = Some L -> L < nlat w0)).
    { intros given w0 H. destruct l as [a|].
      - destruct (resolve_lat w a) as [[L w']|] eqn:E; try discriminate. inversion H; subst.
        destruct (resolve_lat_IE _ _ _ _ HI E). split; auto. intros L0 HL0. inversion HL0; subst. auto.
      - inversion H; subst. split; [apply IE_refl; auto|]. intros; discriminate. }
    destruct (match l with None => Some (None, w) | Some a => _ end) as [[given w0]|] eqn:Eg; [|apply IE_refl; auto].
    destruct (Hg _ _ eq_refl) as [[I0 X0] HgL]. clear Hg.
    destruct so as [its Ls|its]; cbn [fst snd] in *.
    + destruct (alloc_lat w0) as [L' w1] eqn:E2. destruct (alloc_lat_IE w0 I0) as [[I1 X1] HL]. rewrite E2 in *. cbn [fst snd] in *.
      destruct (new_struct L' (map Dup its) None w1) as [h w2] eqn:E3. cbn [fst snd].
      pose proof (new_struct_IE L' (map Dup its) None w1 I1 HL) as H. rewrite E3 in H. cbn [fst snd] in H.
      destruct H as [I2 X2].
      { apply srcs_valid_Dup. eapply valid_ext; [|eauto]. eapply ext_trans; eauto. }
      destruct given as [L|].
      * destruct (relat_IE h L w2 I2) as [I3 X3].
        { specialize (HgL L eq_refl). destruct X1, X2. lia. }
        split; auto. repeat (eapply ext_trans; eauto).
      * split; auto. repeat (eapply ext_trans; eauto).
    + destruct given as [L|].
      * destruct (new_struct L (memo_plan [] its) None w0) as [h w2] eqn:E3. cbn [fst snd].
        pose proof (new_struct_IE L (memo_plan [] its) None w0 I0 (HgL L eq_refl)) as H. rewrite E3 in H. cbn [fst snd] in H.
        destruct H as [I2 X2]. { apply srcs_valid_memo. eapply valid_ext; eauto. }
        split; auto. eapply ext_trans; eauto.
      * destruct (alloc_lat w0) as [L w1] eqn:E2. destruct (alloc_lat_IE w0 I0) as [[I1 X1] HL]. rewrite E2 in *. cbn [fst snd] in *.
        destruct (new_struct L (memo_plan [] its) None w1) as [h w2] eqn:E3. cbn [fst snd].
        pose proof (new_struct_IE L (memo_plan [] its) None w1 I1 HL) as H. rewrite E3 in H. cbn [fst snd] in H.
        destruct H as [I2 X2]. { apply srcs_valid_memo. eapply valid_ext; [|eauto]. eapply ext_trans; eauto. }
        split; auto. repeat (eapply ext_trans; eauto).
  - (* Append *)
    destruct (get_struct w h) as [[old L]|] eqn:E1; [|apply IE_refl; auto].
    destruct (resolve_aref w a) as [x|] eqn:E2; [|apply IE_refl; auto]. cbn [fst snd].
    apply install_IE; auto. pose proof (resolve_aref_valid _ _ _ Hwf E2). constructor; [|constructor]. destruct copy; cbn [fst snd]; auto.
  - (* Insert *)
    destruct (get_struct w h) as [[old L]|] eqn:E1; [|apply IE_refl; auto].
    destruct (resolve_aref w a) as [x|] eqn:E2; [|apply IE_refl; auto]. cbn [fst snd].
    apply install_IE; auto. pose proof (resolve_aref_valid _ _ _ Hwf E2). constructor; [|constructor]. destruct copy; cbn [fst snd]; auto.
  - (* Extend *) apply do_extend_IE; auto.
  - (* GetInt *)
    destruct (get_struct w h) as [[old L]|] eqn:E1; [|apply IE_refl; auto].
    destruct (norm_index (length old) i); [|apply IE_refl; auto]. destruct (nth_error old n); apply IE_refl; auto.
  - (* GetSlice *)
    destruct (get_struct w h) as [[old L]|] eqn:E1; [|apply IE_refl; auto].
    destruct (get_struct_wf _ _ _ _ Hwf E1) as [Hold [HL _]].
    destruct (slice_indices (length old) s) as [idxs|]; [|apply IE_refl; auto].
    destruct (selection L (pick old idxs) w) as [hn w1] eqn:E2. cbn [fst snd].
    pose proof (selection_IE L (pick old idxs) w HI HL (valid_pick _ _ _ Hold)) as H. rewrite E2 in H. auto.
  - (* GetIdx *)
    destruct (get_struct w h) as [[old L]|] eqn:E1; [|apply IE_refl; auto].
    destruct (get_struct_wf _ _ _ _ Hwf E1) as [Hold [HL _]].
    assert (Hmain : IE w (fst (match resolve_lidx w old l with
              | None => (w, Raised EIndex)
              | Some zs => match norm_all (length old) zs with
                  | None => (w, Raised EIndex)
                  | Some idxs => let '(_, w0) := alloc_lat w in
                      let '(hn, w1) := new_struct L (map Keep (pick old idxs)) None w0 in (w1, Done (RObj hn))
                  end end))).
    { destruct (resolve_lidx w old l) as [zs|]; [|apply IE_refl; auto].
      destruct (norm_all (length old) zs) as [idxs|]; [|apply IE_refl; auto].
      pose proof (selection_IE L (pick old idxs) w HI HL (valid_pick _ _ _ Hold)) as H. unfold selection in H.
      destruct (alloc_lat w) as [Lg w0]. destruct (new_struct L (map Keep (pick old idxs)) None w0) as [hn w1]. auto. }
    destruct l; [destruct astuple; [apply IE_refl; auto|]|]; exact Hmain.
  - (* GetMask *)
    destruct (get_struct w h) as [[old L]|] eqn:E1; [|apply IE_refl; auto].
    destruct (get_struct_wf _ _ _ _ Hwf E1) as [Hold [HL _]].
    destruct (Nat.eqb (length m) (length old) || Nat.eqb (length m) 0); [|apply IE_refl; auto].
    destruct (selection L (pick old (mask_indices m)) w) as [hn w1] eqn:E2. cbn [fst snd].
    pose proof (selection_IE L (pick old (mask_indices m)) w HI HL (valid_pick _ _ _ Hold)) as H. rewrite E2 in H. auto.
  - (* GetLabel *)
    destruct (get_struct w h) as [[old L]|] eqn:E1; [|apply IE_refl; auto].
    destruct (resolve_lidx w old [LLab t]) as [[|z [|z2 zs]]|]; try (apply IE_refl; auto).
    destruct (nth_error old (Z.to_nat z)); apply IE_refl; auto.
  - (* SetInt *)
    destruct (get_struct w h) as [[old L]|] eqn:E1; [|apply IE_refl; auto].
    destruct (resolve_aref w a) as [x|] eqn:E2; [|apply IE_refl; auto].
    pose proof (resolve_aref_valid _ _ _ Hwf E2).
    assert (srcs_valid w [copy_src copy x]). { constructor; [|constructor]. destruct copy; cbn [fst snd]; auto. }
    destruct (norm_index (length old) i); cbn [fst snd]; [apply install_IE; auto|apply IE_refl; auto].
  - (* SetSlice *)
    destruct (get_struct w h) as [[old L]|] eqn:E1; [|apply IE_refl; auto].
    destruct (get_obj w v) as [vo|] eqn:E2; [|apply IE_refl; auto].
    pose proof (get_obj_wf _ _ _ Hwf E2) as Hv.
    destruct (slice_adjust (length old) s) as [[[[start stop] stp] slen]|]; [|apply IE_refl; auto].
    destruct (slice_indices (length old) s) as [idxs|]; [|apply IE_refl; auto].
    assert (Hs : srcs_valid w (map (fun a => if copy && negb (memb a (pick old idxs)) then Dup a else Keep a) (obj_items vo))).
    { apply srcs_valid_choice. auto. }
    destruct (Z.eqb stp 1); cbn [fst snd]; [apply install_IE; auto|].
    match goal with |- context [if ?c then _ else _] => destruct c end; cbn [fst snd]; [apply install_IE; auto|apply IE_refl; auto].
  - (* DelInt *)
    destruct (get_struct w h) as [[old L]|] eqn:E1; [|apply IE_refl; auto].
    destruct (norm_index (length old) i); cbn [fst snd]; [apply install_IE; auto; constructor|apply IE_refl; auto].
  - (* DelSlice *)
    destruct (get_struct w h) as [[old L]|] eqn:E1; [|apply IE_refl; auto].
    destruct (slice_indices (length old) s); cbn [fst snd]; [apply install_IE; auto; constructor|apply IE_refl; auto].
  - (* Pop *)
    destruct (get_struct w h) as [[old L]|] eqn:E1; [|apply IE_refl; auto].
    destruct (norm_index (length old) _); cbn [fst snd]; [|apply IE_refl; auto].
    destruct (nth_error old n); cbn [fst snd]; [apply install_IE; auto; constructor|apply IE_refl; auto].
  - (* Remove *)
    destruct (get_struct w h) as [[old L]|] eqn:E1; [|apply IE_refl; auto].
    destruct (resolve_aref w a) as [x|] eqn:E2; [|apply IE_refl; auto].
    destruct (index_of x old); cbn [fst snd]; [apply install_IE; auto; constructor|apply IE_refl; auto].
  - (* Reverse *)
    destruct (get_struct w h) as [[old L]|] eqn:E1; [|apply IE_refl; auto]. cbn [fst snd]. apply install_IE; auto. constructor.
  - (* Clear *)
    destruct (get_struct w h) as [[old L]|] eqn:E1; [|apply IE_refl; auto]. cbn [fst snd]. apply install_IE; auto. constructor.
  - (* Add *)
    destruct (get_struct w h) as [[old L]|] eqn:E1; [|apply IE_refl; auto].
    destruct (get_obj w s) as [so|] eqn:E2; [|apply IE_refl; auto].
    destruct (get_struct_wf _ _ _ _ Hwf E1) as [Hold _]. pose proof (get_obj_wf _ _ _ Hwf E2) as Hv.
    destruct (do_copy old w) as [hn w1] eqn:E3. cbn [fst snd].
    pose proof (do_copy_IE old w HI Hold) as H. rewrite E3 in H. cbn [fst snd] in H.
    eapply IE_chain; [eauto|]. intros I1 X1. apply install_IE; auto. apply srcs_valid_Dup. eapply valid_ext; eauto.
  - (* Sub *)
    destruct (get_struct w h) as [[old L]|] eqn:E1; [|apply IE_refl; auto].
    destruct (get_obj w s) as [so|] eqn:E2; [|apply IE_refl; auto].
    destruct (get_struct_wf _ _ _ _ Hwf E1) as [Hold [HL _]].
    set (sel := filter (fun a => negb (memb a (obj_items so))) old).
    assert (Hsel : valid w sel) by (apply valid_filter; auto).
    destruct (alloc_lat w) as [Lg w0] eqn:E3. destruct (alloc_lat_IE w HI) as [[I0 X0] _]. rewrite E3 in *. cbn [fst snd] in *.
    destruct (realize None L (map Keep sel) w0) as [ids w1] eqn:E4.
    destruct (realize_None_Inv L (map Keep sel) w0 I0) as [I1 X1].
    { destruct X0. lia. } { apply srcs_valid_Keep. eapply valid_ext; eauto. }
    rewrite E4 in *. cbn [fst snd] in *.
    destruct (do_copy sel w1) as [hn w2] eqn:E5. cbn [fst snd].
    pose proof (do_copy_IE sel w1 I1) as H. rewrite E5 in H. cbn [fst snd] in H.
    destruct H as [I2 X2]. { eapply valid_ext; [|eauto]. eapply ext_trans; eauto. }
    split; auto. repeat (eapply ext_trans; eauto).
  - (* Mul *)
    destruct (get_struct w h) as [[old L]|] eqn:E1; [|apply IE_refl; auto].
    destruct (get_struct_wf _ _ _ _ Hwf E1) as [Hold _].
    destruct (alloc_lat w) as [Lg w0] eqn:E3. destruct (alloc_lat_IE w HI) as [[I0 X0] _]. rewrite E3 in *. cbn [fst snd] in *.
    destruct (do_copy [] w0) as [hn w1] eqn:E5. cbn [fst snd].
    pose proof (do_copy_IE [] w0 I0 (valid_nil w0)) as H. rewrite E5 in H. cbn [fst snd] in H. destruct H as [I1 X1].
    destruct (install_IE hn (map Dup (repeat_list (Z.to_nat n) old)) (ERange 0 0) w1 I1) as [I2 X2].
    { apply srcs_valid_Dup. apply valid_repeat. eapply valid_ext; [|eauto]. eapply ext_trans; eauto. }
    split; auto. repeat (eapply ext_trans; eauto).
  - (* IAdd *)
    pose proof (do_extend_IE h s CTrue w HI) as H.
    destruct (do_extend current h s CTrue w) as [w1 [r| |]]; simpl in *; auto.
  - (* ISub *)
    destruct (get_struct w h) as [[old L]|] eqn:E1; [|apply IE_refl; auto].
    destruct (get_obj w s) as [so|] eqn:E2; [|apply IE_refl; auto]. cbn [fst snd].
    destruct (get_struct_wf _ _ _ _ Hwf E1) as [Hold _].
    apply install_IE; auto. apply srcs_valid_Keep. apply valid_filter. auto.
  - (* IMul *)
    destruct (get_struct w h) as [[old L]|] eqn:E1; [|apply IE_refl; auto].
    destruct (get_struct_wf _ _ _ _ Hwf E1) as [Hold _].
    destruct (n <=? 0)%Z; cbn [fst snd]; apply install_IE; auto; [constructor|].
    apply srcs_valid_Dup. apply valid_repeat. auto.
  - (* Copy *)
    destruct (get_struct w h) as [[old L]|] eqn:E1; [|apply IE_refl; auto].
    destruct (get_struct_wf _ _ _ _ Hwf E1) as [Hold _].
    destruct (do_copy old w) as [hn w1] eqn:E3. cbn [fst snd].
    pose proof (do_copy_IE old w HI Hold) as H. rewrite E3 in H. auto.
  - (* CopyInto *)
    destruct (get_struct w h) as [[old L]|] eqn:E1; [|apply IE_refl; auto].
    destruct (get_struct w t) as [[told Lt]|] eqn:E2; [|apply IE_refl; auto].
    destruct (get_struct_wf _ _ _ _ Hwf E1) as [Hold _].
    destruct (Nat.eqb h t); [apply IE_refl; auto|].
    destruct (alloc_lat w) as [L' w1] eqn:E3. destruct (alloc_lat_IE w HI) as [[I1 X1] HL]. rewrite E3 in *. cbn [fst snd] in *.
    destruct (relat_IE t L' w1 I1 HL) as [I2 X2].
    destruct (install_IE t (map (fun a => if memb a told then Keep a else Dup a) old) (ERange 0 (length told)) (relat t L' w1) I2) as [I3 X3].
    { apply srcs_valid_choice'. eapply valid_ext; [|eauto]. eapply ext_trans; eauto. }
    split; auto. repeat (eapply ext_trans; eauto).
  - (* SetLattice *)
    destruct (get_struct w h) as [[old L]|] eqn:E1; [|apply IE_refl; auto].
    destruct (resolve_lat w l) as [[L' w1]|] eqn:E2; [|apply IE_refl; auto]. cbn [fst snd].
    destruct (resolve_lat_IE _ _ _ _ HI E2) as [[I1 X1] HL].
    destruct (relat_IE h L' w1 I1 HL) as [I2 X2]. split; auto. eapply ext_trans; eauto.
  - (* Pickle *)
    destruct (get_struct w h) as [[old L]|] eqn:E1; [|apply IE_refl; auto].
    destruct (get_struct_wf _ _ _ _ Hwf E1) as [Hold _].
    destruct (alloc_lat w) as [L' w1] eqn:E3. destruct (alloc_lat_IE w HI) as [[I1 X1] HL]. rewrite E3 in *. cbn [fst snd] in *.
    destruct hi.
    + destruct (new_struct L' (map Dup old) None w1) as [hn w2] eqn:E4. cbn [fst snd].
      pose proof (new_struct_IE L' (map Dup old) None w1 I1 HL) as H. rewrite E4 in H. cbn [fst snd] in H.
      destruct H as [I2 X2]. { apply srcs_valid_Dup. eapply valid_ext; eauto. }
      split; auto. eapply ext_trans; eauto.
    + match goal with |- context [new_struct L' ?a ?b w1] => destruct (new_struct L' a b w1) as [hn w2] eqn:E4;
        pose proof (new_struct_IE L' a b w1 I1 HL) as H end. cbn [fst snd]. rewrite E4 in H. cbn [fst snd] in H.
      destruct H as [I2 X2]. { apply srcs_valid_Dup. apply valid_nodup_first. eapply valid_ext; eauto. }
      split; auto. eapply ext_trans; eauto.
  - (* DeepCopy *)
    destruct (get_struct w h) as [[old L]|] eqn:E1; [|apply IE_refl; auto].
    destruct (get_struct_wf _ _ _ _ Hwf E1) as [Hold _].
    destruct (alloc_lat w) as [L' w1] eqn:E3. destruct (alloc_lat_IE w HI) as [[I1 X1] HL]. rewrite E3 in *. cbn [fst snd] in *.
    destruct (new_struct L' (map Dup old) None w1) as [hn w2] eqn:E4. cbn [fst snd].
    pose proof (new_struct_IE L' (map Dup old) None w1 I1 HL) as H. rewrite E4 in H. cbn [fst snd] in H.
    destruct H as [I2 X2]. { apply srcs_valid_Dup. eapply valid_ext; eauto. }
    split; auto. eapply ext_trans; eauto.
  - (* Tolist *)
    destruct (get_struct w h) as [[old L]|] eqn:E1; [|apply IE_refl; auto].
    destruct (get_struct_wf _ _ _ _ Hwf E1) as [Hold _].
    destruct (push_obj (OList old) w) as [hn w1] eqn:E2. cbn [fst snd].
    destruct (push_list_Inv old w HI Hold) as [I2 X2]. rewrite E2 in *. split; auto.
  - (* SetCol *)
    destruct (get_struct w h) as [[old L]|] eqn:E1; [|apply IE_refl; auto].
    destruct old as [|a0 old']; [apply IE_refl; auto|].
    destruct tags as [|t [|t2 ts]]; cbn [fst snd].
    + apply IE_refl; auto.
    + apply (set_tags_Inv c ((a0, t) :: map (fun a => (a, t)) old') w HI).
    + match goal with |- context [if ?c then _ else _] => destruct c end; cbn [fst snd]; [|apply IE_refl; auto].
      apply (set_tags_Inv c _ w HI).
  - (* Sort *)
    destruct (get_struct w h) as [[old L]|] eqn:E1; [|apply IE_refl; auto].
    destruct key; cbn [fst snd].
    + apply install_IE; auto. constructor.
    + destruct (Nat.leb (length old) 1); apply IE_refl; auto.
  - (* AssignUniqueLabels *)
    destruct (get_struct w h) as [[old L]|] eqn:E1; [|apply IE_refl; auto]. cbn [fst snd].
    apply (set_tags_Inv ColLabel _ w HI).
  - (* GetLast *)
    destruct (get_struct w h) as [[old L]|] eqn:E1; [|apply IE_refl; auto].
    destruct (nth_error (rev old) 0); apply IE_refl; auto.
  - (* GetCol *)
    destruct (get_struct w h) as [[old L]|] eqn:E1; apply IE_refl; auto.
  - (* Composition *)
    destruct (get_struct w h) as [[old L]|] eqn:E1; apply IE_refl; auto.
Qed.

Theorem run_Inv : forall ops w, Inv w -> Inv (run current ops w) /\ ext w (run current ops w).
Proof.
  unfold run. induction ops; simpl; intros.
  - split; auto. apply ext_refl.
  - destruct (step_Inv a w H) as [I1 X1]. destruct (IHops _ I1) as [I2 X2]. split; auto. eapply ext_trans; eauto.
Qed.

Lemma empty_Inv : Inv empty_world.
Proof.
  split; [|split].
  - split; [|split]; simpl; intros; destruct h || destruct a; discriminate.
  - intros _ h its L _ H. destruct h; discriminate.
  - intros _ h its L H. destruct h; discriminate.
Qed.
