(* C16 - heap-level theorems about the GENERATED read statement lists, run by the heap interpreter
   hrun_read of Model/C16_Heap.v on a C08 world. *)
From Coq Require Import Ascii String.
From Coq Require Import List ZArith Bool Arith Lia.
From DS Require Import Model.C08_StructHeap Proofs.C08_Lists Proofs.C08_Prims Proofs.C08_Inv Proofs.C08_Step Proofs.C08_Spec.
From DS Require Import Model.C16_Heap Gen.C16_RW Proofs.C16_HeapCore.
From DS Require Proofs.C16_Fresh Proofs.C16_Main.
Import ListNotations.
Open Scope nat_scope.

(* what is assumed of the heap state right after the parse: a well-formed C08 world, the target is a
   Structure with a lattice, the parser's result (if any) is another Structure object of that world *)
Record hpre (s : hstate) : Prop := mkPre {
  pre_inv : Inv (hs_world s);
  pre_lat : hs_latnone s = false;
  pre_self : exists old L0, get_struct (hs_world s) (hs_self s) = Some (old, L0);
  pre_new : forall nh, hs_new s = Some nh ->
            nh <> hs_self s /\ exists nits Ln, get_struct (hs_world s) nh = Some (nits, Ln) }.

Ltac hsym H :=
  lazy -[T.drop_inst T.update_dict T.default_title T.restore_pdffit T.update_spcgr h_setall_world set_obj
         get_struct T.e_default_cell T.e_title_of T.e_default_pdffit T.g_filename] in H.

(* ---------- the parser returned None: the run continues from the state with Structure() as result ---------- *)
Lemma hrun_default_new : forall E G c en s, hs_new s = None ->
  hrun_read E G c en s = hrun_read E G c en (h_default_new (T.e_default_cell E) s).
Proof. intros E G c en [w self new nmeta meta ln cells sg] H. simpl in H. subst new. destruct c, en; reflexivity. Qed.

Lemma get_struct_snoc_old : forall w hp nl fr fd o h, h < length (objs w) ->
  get_struct (mkW hp nl (objs w ++ [o]) fr fd) h = get_struct w h.
Proof. intros. unfold get_struct, get_obj. simpl. rewrite nth_error_app1 by assumption. reflexivity. Qed.

Lemma hpre_default_new : forall dc s, hpre s -> hs_new s = None ->
  let s0 := h_default_new dc s in
  hpre s0 /\ hs_new s0 = Some (length (objs (hs_world s))) /\
  get_struct (hs_world s0) (length (objs (hs_world s))) = Some ([], nlat (hs_world s)) /\
  get_struct (hs_world s0) (hs_self s) = get_struct (hs_world s) (hs_self s) /\
  heap (hs_world s0) = heap (hs_world s) /\ hs_self s0 = hs_self s /\ hs_meta s0 = hs_meta s /\ hs_new_meta s0 = [] /\
  hs_sg s0 = hs_sg s /\ hs_cells s0 = (nlat (hs_world s), dc) :: hs_cells s.
Proof.
  intros dc [w self new nmeta meta ln cells sg] [HI Hl [old [L0 Hs]] Hn] Hnone. simpl in *. subst new ln.
  destruct (alloc_lat_Inv w HI) as [HI1 [_ HL]].
  destruct (new_struct_Inv (fst (alloc_lat w)) [] None (snd (alloc_lat w)) HI1 HL (Forall_nil _)) as [HI2 _].
  assert (Hself : self < length (objs w)).
  { unfold get_struct, get_obj in Hs. destruct (nth_error (objs w) self) eqn:E; [|discriminate].
    apply nth_error_Some. congruence. }
  assert (Gn : get_struct (snd (new_struct (fst (alloc_lat w)) [] None (snd (alloc_lat w)))) (length (objs w)) = Some ([], nlat w)).
  { unfold get_struct, get_obj. simpl. rewrite nth_error_app_last. reflexivity. }
  assert (Gs : get_struct (snd (new_struct (fst (alloc_lat w)) [] None (snd (alloc_lat w)))) self = get_struct w self).
  { simpl. apply get_struct_snoc_old. exact Hself. }
  unfold h_default_new; simpl.
  split; [|split; [reflexivity|split; [exact Gn|split; [exact Gs|repeat split]]]].
  constructor; simpl.
  - exact HI2.
  - reflexivity.
  - exists old, L0. simpl in Gs. rewrite Gs. exact Hs.
  - intros nh Hnh. inversion Hnh; subst nh. split; [lia|]. exists [], (nlat w). exact Gn.
Qed.

(* ---------- symbolic execution of the generated lists when the result object exists ---------- *)
Ltac hexec H Hs Hn :=
  hsym H; rewrite Hs, Hn in H; hsym H;
  repeat (match type of H with
          | context [match ?x with _ => _ end] =>
              lazymatch x with
              | context [match _ with _ => _ end] => fail
              | _ => destruct x eqn:?
              end
          end; hsym H; try discriminate H);
  injection H as H; subst.

(* 1. every item of the target refers to the target's lattice object, which IS the result's lattice
   object; the result keeps its items and lattice; its atoms keep referring to that lattice; the
   payloads of the target are those of the result; nothing else of the world is lost (wf) *)
Lemma heap_read_core_some : forall E G c en s s' nh old L0 nits Ln,
  wf (hs_world s) -> hs_latnone s = false -> hs_new s = Some nh -> nh <> hs_self s ->
  get_struct (hs_world s) (hs_self s) = Some (old, L0) -> get_struct (hs_world s) nh = Some (nits, Ln) ->
  hrun_read E G c en s = Some s' ->
  hs_self s' = hs_self s /\ hs_new s' = Some nh /\ hs_cells s' = hs_cells s /\
  exists ids, core_post (hs_world s) (hs_self s) nh old nits Ln (hs_world s') ids.
Proof.
  intros E G c en [w self new nmeta meta ln cells sg] s' nh old L0 nits Ln Hwf Hl Hnew Hne Hs Hn H.
  simpl in *. subst new ln.
  destruct (update_then_setall w self nh old L0 nits Ln Hwf Hs Hn Hne) as [ids C].
  destruct c, en; hexec H Hs Hn; simpl; (split; [reflexivity|]; split; [reflexivity|]; split; [reflexivity|]; exists ids; exact C).
Qed.

Definition heap_post (E : T.env) (s s' : hstate) : Prop :=
  hs_self s' = hs_self s /\
  exists nh its L,
    hs_new s' = Some nh /\
    get_struct (hs_world s') (hs_self s') = Some (its, L) /\
    (forall a, In a its -> lat_of (hs_world s') a = Some L) /\
    new_lat s' = Some L /\
    new_items s' = new_items s /\ new_payloads s' = new_payloads s /\
    self_payloads s' = new_payloads s /\
    ((forall a, In a (new_items s) -> lat_of (hs_world s) a = new_lat s) ->
       forall a, In a (new_items s') -> lat_of (hs_world s') a = Some L) /\
    ((forall a, In a (new_items s) -> ~ In a (self_items s)) ->
       forall x, In x its -> length (heap (hs_world s)) <= x) /\
    self_cell s' = (match hs_new s with Some _ => new_cell s | None => Some (T.e_default_cell E) end) /\
    wf (hs_world s').

Lemma heap_read_post : forall E G c en s s', hpre s -> hrun_read E G c en s = Some s' -> heap_post E s s'.
Proof.
  intros E G c en s s' P H. destruct (hs_new s) as [nh|] eqn:Hnew.
  - destruct P as [[Hwf _] Hl [old [L0 Hs]] Hn]. destruct (Hn nh Hnew) as [Hne [nits [Ln Hg]]].
    destruct (heap_read_core_some E G c en s s' nh old L0 nits Ln Hwf Hl Hnew Hne Hs Hg H) as [A [B [Cc [ids C]]]].
    destruct C as [C1 C2 C3 C4 C5 C6 C7 C8 C9].
    assert (NI : new_items s = nits) by (unfold new_items; rewrite Hnew, Hg; reflexivity).
    assert (NL : new_lat s = Some Ln) by (unfold new_lat; rewrite Hnew, Hg; reflexivity).
    assert (SI : self_items s = old) by (unfold self_items; rewrite Hs; reflexivity).
    assert (NI' : new_items s' = nits) by (unfold new_items; rewrite B, C4; reflexivity).
    assert (NL' : new_lat s' = Some Ln) by (unfold new_lat; rewrite B, C4; reflexivity).
    split; [exact A|]. exists nh, ids, Ln. rewrite A.
    split; [exact B|]. split; [exact C1|]. split; [exact C2|]. split; [exact NL'|].
    split; [rewrite NI', NI; reflexivity|].
    split; [unfold new_payloads; rewrite NI', NI; exact C6|].
    split; [unfold self_payloads, self_items, new_payloads; rewrite A, C1, NI; exact C3|].
    split; [intros Hc a Ha; rewrite NI' in Ha; apply C5; rewrite <- NL; apply Hc; rewrite NI; exact Ha|].
    split; [intros Hd x Hx; apply C7; [intros a Ha; rewrite <- SI; apply Hd; rewrite NI; exact Ha | exact Hx]|].
    split; [unfold self_cell, self_lat, new_cell; rewrite A, C1, NL, Cc, Hnew; reflexivity | exact C9].
  - rewrite (hrun_default_new E G c en s Hnew) in H.
    destruct (hpre_default_new (T.e_default_cell E) s P Hnew) as [P0 [N0 [G0 [S0 [Hh [Hself [_ [_ [_ Hc0]]]]]]]]].
    set (s0 := h_default_new (T.e_default_cell E) s) in *.
    destruct P as [_ Hl [old [L0 Hs]] _]. destruct P0 as [[Hwf0 _] Hl0 _ Hn0].
    destruct (Hn0 _ N0) as [Hne0 _]. rewrite <- S0 in Hs. rewrite <- Hself in Hs.
    destruct (heap_read_core_some E G c en s0 s' _ old L0 [] (nlat (hs_world s)) Hwf0 Hl0 N0 Hne0 Hs G0 H) as [A [B [Cc [ids C]]]].
    destruct C as [C1 C2 C3 C4 C5 C6 C7 C8 C9].
    assert (ids = []) as -> by (destruct ids; [reflexivity | discriminate C3]).
    assert (NI : new_items s = []) by (unfold new_items; rewrite Hnew; reflexivity).
    assert (NI' : new_items s' = []) by (unfold new_items; rewrite B, C4; reflexivity).
    assert (NL' : new_lat s' = Some (nlat (hs_world s))) by (unfold new_lat; rewrite B, C4; reflexivity).
    split; [congruence|]. exists (length (objs (hs_world s))), [], (nlat (hs_world s)). rewrite A.
    split; [exact B|]. split; [exact C1|]. split; [intros a []|]. split; [exact NL'|].
    split; [rewrite NI', NI; reflexivity|].
    split; [unfold new_payloads; rewrite NI', NI; reflexivity|].
    split; [unfold self_payloads, self_items, new_payloads; rewrite A, C1, NI; reflexivity|].
    split; [intros _ a Ha; rewrite NI' in Ha; destruct Ha|].
    split; [intros _ x []|].
    split; [unfold self_cell, self_lat; rewrite A, C1, Hnew, Cc, Hc0; simpl; unfold cell_of; simpl; rewrite Nat.eqb_refl; reflexivity | exact C9].
Qed.

(* ---------- the non-heap instance entries after the read do not depend on the prior content ---------- *)
Definition meta_names (nmeta : T.dict) : list string := "title"%string :: "pdffit"%string :: "xcfg"%string :: map fst nmeta.

Lemma heap_meta_agree_some : forall E G c en s t s' t' nh1 nh2 o1 L1 o2 L2 n1 M1 n2 M2,
  hs_latnone s = false -> hs_latnone t = false -> hs_new s = Some nh1 -> hs_new t = Some nh2 ->
  get_struct (hs_world s) (hs_self s) = Some (o1, L1) -> get_struct (hs_world s) nh1 = Some (n1, M1) ->
  get_struct (hs_world t) (hs_self t) = Some (o2, L2) -> get_struct (hs_world t) nh2 = Some (n2, M2) ->
  T.o_cls (hs_meta s) = T.o_cls (hs_meta t) -> hs_new_meta s = hs_new_meta t -> hs_sg s = hs_sg t ->
  hrun_read E G c en s = Some s' -> hrun_read E G c en t = Some t' ->
  forall a, In a (meta_names (hs_new_meta s)) -> T.getattr (hs_meta s') a = T.getattr (hs_meta t') a.
Proof.
  intros E G c en [w1 self1 new1 nm1 m1 ln1 cells1 sg1] [w2 self2 new2 nm2 m2 ln2 cells2 sg2] s' t' nh1 nh2 o1 L1 o2 L2 n1 M1 n2 M2
         Hl1 Hl2 Hn1 Hn2 Hs1 Hg1 Hs2 Hg2 Hc Hm Hsg H1 H2 a Ha.
  simpl in *. subst new1 new2 ln1 ln2 nm2 sg2.
  assert (exists K, incl (meta_names nm1) K /\ C16_Fresh.agreeK K (hs_meta s') (hs_meta t')) as [K [HK HA]].
  { destruct c, en; hexec H1 Hs1 Hg1; hexec H2 Hs2 Hg2; simpl;
      (eexists; split; [|C16_Main.agree_tac];
       intros b Hb; unfold meta_names in Hb; simpl in Hb; destruct Hb as [<-|[<-|[<-|Hb]]]; apply in_or_app;
       [left; simpl; tauto | left; simpl; tauto | left; simpl; tauto | right; exact Hb]). }
  exact (C16_Fresh.agree_getattr K _ _ a HA (HK a Ha)).
Qed.

(* ---------- the heap-level theorems ---------- *)
Lemma points_b_true : forall s its L, get_struct (hs_world s) (hs_self s) = Some (its, L) ->
  (forall a, In a its -> lat_of (hs_world s) a = Some L) -> points_b s = true.
Proof.
  intros s its L Hg H. unfold points_b. rewrite Hg. apply forallb_forall. intros a Ha. rewrite (H a Ha).
  simpl. apply Nat.eqb_refl.
Qed.

(* 1. after the generated read statements every item of the target refers to the target's lattice object,
   which is the parser result's lattice object; the result keeps its items, and its atoms keep
   referring to that same lattice.  No guard-flag hypothesis. *)
Lemma heap_atoms_point_to_target_lattice : forall E G c en s s',
  hpre s -> hrun_read E G c en s = Some s' ->
  exists its L,
    get_struct (hs_world s') (hs_self s) = Some (its, L) /\
    (forall a, In a its -> lat_of (hs_world s') a = Some L) /\
    new_lat s' = Some L /\ new_items s' = new_items s /\
    ((forall a, In a (new_items s) -> lat_of (hs_world s) a = new_lat s) ->
       forall a, In a (new_items s') -> lat_of (hs_world s') a = Some L).
Proof.
  intros E G c en s s' P H. destruct (heap_read_post E G c en s s' P H) as (A & nh & its & L & B & C1 & C2 & C3 & C4 & _ & _ & C7 & _).
  exists its, L. rewrite A in C1. auto.
Qed.

(* 2. the target's atoms after the read are all newer than every atom that existed before: no atom
   object is shared with the parser's result or with the old content *)
Lemma heap_result_atoms_are_copies : forall E G c en s s',
  hpre s -> (forall a, In a (new_items s) -> ~ In a (self_items s)) -> hrun_read E G c en s = Some s' ->
  forall x, In x (self_items s') -> length (heap (hs_world s)) <= x.
Proof.
  intros E G c en s s' P D H x Hx. destruct (heap_read_post E G c en s s' P H) as (A & nh & its & L & _ & C1 & _ & _ & _ & _ & _ & _ & C8 & _).
  unfold self_items in Hx. rewrite C1 in Hx. exact (C8 D x Hx).
Qed.

(* the two runs read the same thing *)
Definition eff_new_meta (s : hstate) : T.dict := match hs_new s with Some _ => hs_new_meta s | None => [] end.
Record same_result (s t : hstate) : Prop := mkSame {
  sr_none : hs_new s = None <-> hs_new t = None;
  sr_pay : new_payloads s = new_payloads t;
  sr_cell : new_cell s = new_cell t;
  sr_meta : eff_new_meta s = eff_new_meta t;
  sr_sg : hs_sg s = hs_sg t;
  sr_cls : T.o_cls (hs_meta s) = T.o_cls (hs_meta t) }.

(* 3. whatever the two targets held before (in particular: one of them brand-new), after the read they
   have the same payload sequence, the same lattice cell, each has the result's lattice object as its
   lattice with every item referring to it, and the same title / pdffit / xcfg / parsed entries *)
Lemma heap_read_success_eq_fresh : forall E G c en s t s' t',
  hpre s -> hpre t -> same_result s t ->
  hrun_read E G c en s = Some s' -> hrun_read E G c en t = Some t' ->
  self_payloads s' = self_payloads t' /\ self_cell s' = self_cell t' /\
  self_lat s' = new_lat s' /\ self_lat t' = new_lat t' /\ points_b s' = true /\ points_b t' = true /\
  forall a, In a (meta_names (eff_new_meta s)) -> T.getattr (hs_meta s') a = T.getattr (hs_meta t') a.
Proof.
  intros E G c en s t s' t' Ps Pt [R1 R2 R3 R4 R5 R6] Hs Ht.
  destruct (heap_read_post E G c en s s' Ps Hs) as (A & nh & its & L & B & C1 & C2 & C3 & C4 & C5 & C6 & _ & _ & C9 & _).
  destruct (heap_read_post E G c en t t' Pt Ht) as (A' & nh' & its' & L' & B' & C1' & C2' & C3' & C4' & C5' & C6' & _ & _ & C9' & _).
  split; [rewrite C6, C6'; exact R2|].
  split.
  { rewrite C9, C9'. destruct (hs_new s) eqn:Ns, (hs_new t) eqn:Nt; auto.
    - destruct R1 as [_ R1]. discriminate (R1 eq_refl).
    - destruct R1 as [R1 _]. discriminate (R1 eq_refl). }
  split; [unfold self_lat; rewrite C1, C3; reflexivity|].
  split; [unfold self_lat; rewrite C1', C3'; reflexivity|].
  split; [exact (points_b_true s' its L C1 C2)|].
  split; [exact (points_b_true t' its' L' C1' C2')|].
  (* the dictionaries *)
  destruct (hs_new s) as [n1|] eqn:Ns; destruct (hs_new t) as [n2|] eqn:Nt;
    try (destruct R1 as [Ra Rb]; first [discriminate (Ra eq_refl) | discriminate (Rb eq_refl)]).
  - destruct Ps as [_ Pl [o1 [L1 Hg1]] Pn]. destruct Pt as [_ Pl' [o2 [L2 Hg2]] Pn'].
    destruct (Pn n1 Ns) as [_ [m1 [M1 Hm1]]]. destruct (Pn' n2 Nt) as [_ [m2 [M2 Hm2]]].
    unfold eff_new_meta in *. rewrite Ns in *. rewrite Nt in R4.
    exact (heap_meta_agree_some E G c en s t s' t' n1 n2 o1 L1 o2 L2 m1 M1 m2 M2 Pl Pl' Ns Nt Hg1 Hm1 Hg2 Hm2 R6 R4 R5 Hs Ht).
  - rewrite (hrun_default_new E G c en s Ns) in Hs. rewrite (hrun_default_new E G c en t Nt) in Ht.
    destruct (hpre_default_new (T.e_default_cell E) s Ps Ns) as [[_ Pl [o1 [L1 Hg1]] _] [N0 [G0 [_ [_ [_ [M0 [NM0 [SG0 _]]]]]]]]].
    destruct (hpre_default_new (T.e_default_cell E) t Pt Nt) as [[_ Pl' [o2 [L2 Hg2]] _] [N0' [G0' [_ [_ [_ [M0' [NM0' [SG0' _]]]]]]]]].
    unfold eff_new_meta. rewrite Ns. intros a Ha.
    refine (heap_meta_agree_some E G c en _ _ s' t' _ _ o1 L1 o2 L2 [] _ [] _ Pl Pl' N0 N0' Hg1 G0 Hg2 G0' _ _ _ Hs Ht a _).
    + rewrite M0, M0'. exact R6.
    + rewrite NM0, NM0'. reflexivity.
    + rewrite SG0, SG0'. exact R5.
    + rewrite NM0. exact Ha.
Qed.
