(* C16 - the theorems about the GENERATED statement lists of Structure.read / readStr / write and
   PDFFitStructure.read / readStr (Gen/C16_RW.v, regenerated from the source on every run). *)
From Coq Require Import ZArith List Bool Lia.
From Coq Require Import Ascii String.
From DS Require Import Model.C16_ReadWriteTxn Gen.C16_RW Model.C16_Methods.
From DS Require Import Proofs.C16_Atomic Proofs.C16_Dict Proofs.C16_Fresh.
Import ListNotations.
Open Scope string_scope.
Open Scope Z_scope.

(* ---------- static conditions of the general lemmas, decided on the generated lists ---------- *)
Lemma gen_read_guarded : parse_guarded ReadFile structure_read = true.   Proof. vm_compute; reflexivity. Qed.
Lemma gen_readstr_guarded : parse_guarded ReadStr structure_readstr = true. Proof. vm_compute; reflexivity. Qed.
Lemma gen_read_atomic : atomic_ok structure_read = true.        Proof. vm_compute; reflexivity. Qed.
Lemma gen_readstr_atomic : atomic_ok structure_readstr = true.  Proof. vm_compute; reflexivity. Qed.
Lemma gen_pdffit_read_guarded : call_guarded pdffit_read = true.       Proof. vm_compute; reflexivity. Qed.
Lemma gen_pdffit_readstr_guarded : call_guarded pdffit_readstr = true. Proof. vm_compute; reflexivity. Qed.
Lemma gen_write_guarded : tostring_guarded structure_write = true.     Proof. vm_compute; reflexivity. Qed.
(* the override of an entry point calls the base method of the same entry point *)
Lemma gen_pdffit_calls_same : existsb (fun e => match e with EBaseReadStr => true | _ => false end) pdffit_read = false
                           /\ existsb (fun e => match e with EBaseRead => true | _ => false end) pdffit_readstr = false.
Proof. split; vm_compute; reflexivity. Qed.

Lemma pinv_start G en o fs n : pinv G fs en (frame_of o fs n).
Proof. split; [reflexivity|]. split; [reflexivity|]. simpl. discriminate. Qed.

(* run1 never takes the base call of the other entry point when the list does not contain it *)
Lemma run1_irrelevant_readstr E G br bs bs' l : existsb (fun e => match e with EBaseReadStr => true | _ => false end) l = false ->
  forall fr, run1 E G br bs l fr = run1 E G br bs' l fr.
Proof.
  induction l as [|e r IH]; intros H fr; [reflexivity|]. simpl in H. apply orb_false_iff in H as [He Hr].
  unfold run1 in *; simpl. assert (step1 E G br bs e fr = step1 E G br bs' e fr) as -> by (destruct e; try discriminate; reflexivity).
  destruct (step1 E G br bs' e fr); [|reflexivity]. destruct (returned f); [reflexivity | apply IH; exact Hr].
Qed.
Lemma run1_irrelevant_read E G br br' bs l : existsb (fun e => match e with EBaseRead => true | _ => false end) l = false ->
  forall fr, run1 E G br bs l fr = run1 E G br' bs l fr.
Proof.
  induction l as [|e r IH]; intros H fr; [reflexivity|]. simpl in H. apply orb_false_iff in H as [He Hr].
  unfold run1 in *; simpl. assert (step1 E G br bs e fr = step1 E G br' bs e fr) as -> by (destruct e; try discriminate; reflexivity).
  destruct (step1 E G br' bs e fr); [|reflexivity]. destruct (returned f); [reflexivity | apply IH; exact Hr].
Qed.

(* ---------- 1. a failed read leaves the structure (and the files) exactly as they were ---------- *)
(* getParser raising is covered too: the premise quantifies over the parser that getParser yields *)
Lemma read_failure_atomic : forall E G c en o fs n,
  (forall p, e_getparser E (g_format G) = Ok p -> exists x, po_result (parse_of G en fs p) = Raise x) ->
  exists x fr', run_read E G c en (frame_of o fs n) = Failed x fr' /\ f_self fr' = o /\ f_fs fr' = fs.
Proof.
  intros E G c en o fs n H.
  assert (exists x fr', run_read E G c en (frame_of o fs n) = Failed x fr' /\ same_state (frame_of o fs n) fr') as [x [fr' [R S]]].
  { destruct c, en; unfold run_read.
    - apply (guarded_parse_failure E G fs ReadFile H _ gen_read_guarded), pinv_start.
    - apply (guarded_parse_failure E G fs ReadStr H _ gen_readstr_guarded), pinv_start.
    - rewrite (run1_irrelevant_readstr E G structure_read structure_readstr structure_read _ (proj1 gen_pdffit_calls_same)).
      apply (guarded_call_failure E G fs ReadFile H _ _ _ gen_read_guarded gen_read_guarded gen_pdffit_read_guarded), pinv_start.
    - rewrite (run1_irrelevant_read E G structure_read structure_readstr structure_readstr _ (proj2 gen_pdffit_calls_same)).
      apply (guarded_call_failure E G fs ReadStr H _ _ _ gen_readstr_guarded gen_readstr_guarded gen_pdffit_readstr_guarded), pinv_start. }
  exists x, fr'. destruct S as [S1 S2]. auto.
Qed.

(* whatever makes a Structure.read / readStr fail in the model, the target is untouched *)
Lemma read_any_failure_atomic : forall E G en o fs n x fr',
  run_read E G CStructure en (frame_of o fs n) = Failed x fr' -> f_self fr' = o /\ f_fs fr' = fs.
Proof.
  intros E G en o fs n x fr' H. destruct en; unfold run_read in H.
  - exact (atomic_failure E G _ gen_read_atomic _ _ _ H).
  - exact (atomic_failure E G _ gen_readstr_atomic _ _ _ H).
Qed.

(* ---------- 2. a failing serialiser leaves the files exactly as they were ---------- *)
Lemma write_failure_keeps_file : forall E G o fs n,
  (forall p, e_getparser E (g_format G) = Ok p -> forall fn, exists x, ps_tostring p fn o = Raise x) ->
  exists x fr', run_write E G (frame_of o fs n) = Failed x fr' /\ f_fs fr' = fs /\ f_self fr' = o.
Proof.
  intros E G o fs n H.
  destruct (guarded_tostring_failure E G o H _ gen_write_guarded (frame_of o fs n)) as [x [fr' [R [S1 S2]]]].
  { split; [reflexivity|]. split; [reflexivity|]. simpl. discriminate. }
  exists x, fr'. auto.
Qed.

(* ---------- symbolic execution of the generated lists ---------- *)
Ltac symrun H :=
  lazy -[drop_inst init_self init_next update_dict set_all_items set_all_next default_title restore_pdffit update_spcgr
         e_getparser e_title_of e_default_pdffit e_default_cell g_format g_filename g_source ps_parse ps_parsefile
         po_result po_sg Z.add effective] in H.
Ltac exec H Hg Hp :=
  unfold parse_of in Hp; symrun H; rewrite Hg in H; symrun H; rewrite Hp in H; cbn [po_result po_sg] in H; symrun H;
  repeat (match type of H with
          | context [match ?x with _ => _ end] =>
              lazymatch x with
              | context [match _ with _ => _ end] => fail
              | _ => destruct x eqn:?
              end
          end; symrun H; try discriminate H);
  injection H as H; subst.

Ltac in_tac := first [ assumption | apply in_or_app; left; simpl; tauto | simpl; tauto ].
Ltac agree_tac :=
  lazymatch goal with
  | |- agreeK _ (default_title _ _) (default_title _ _) => eapply agree_title; [agree_tac | in_tac]
  | |- agreeK _ (restore_pdffit _ _) (restore_pdffit _ _) => eapply agree_restore; [agree_tac | in_tac]
  | |- agreeK _ (set_all_items _ _ _) (set_all_items _ _ _) => eapply agree_items; agree_tac
  | |- agreeK _ (update_dict _ _) (update_dict _ _) => eapply agree_update; agree_tac
  | |- agreeK _ (init_self _ _ _) (init_self _ _ _) => eapply agree_init; [agree_tac | reflexivity]
  | |- agreeK _ (drop_inst _ _) (drop_inst _ _) => eapply agree_drop; agree_tac
  | Ha : update_spcgr ?g ?a = Some ?x, Hb : update_spcgr ?g ?b = Some ?y |- agreeK _ ?x ?y =>
      eapply (agree_spcgr _ g a b x y); [agree_tac | in_tac | exact Ha | exact Hb]
  | |- agreeK _ _ _ => eapply agree_start; simpl; auto
  end.
Ltac pay_tac :=
  repeat match goal with H : update_spcgr _ _ = Some ?x |- context [pay ?x] => rewrite (pay_spcgr _ _ _ H) end;
  rewrite ?pay_restore, ?pay_title, ?pay_items; reflexivity.
Ltac points_tac :=
  lazymatch goal with
  | H : update_spcgr _ ?a = Some ?x |- atoms_point_to_lattice ?x => apply (points_spcgr _ _ _ H); points_tac
  | |- atoms_point_to_lattice (default_title _ _) => apply points_title; points_tac
  | |- atoms_point_to_lattice (restore_pdffit _ _) => apply points_restore; points_tac
  | |- atoms_point_to_lattice (set_all_items _ _ _) => apply points_items
  | |- atoms_point_to_lattice (init_self _ _ _) => apply points_init; points_tac
  | |- atoms_point_to_lattice (drop_inst _ _) => apply points_drop; [reflexivity | points_tac]
  | |- atoms_point_to_lattice _ => assumption
  end.

(* ---------- 3. after a successful read every atom refers to the target's lattice ---------- *)
Lemma atoms_point_to_target_lattice : forall E G c en o fs n p r sg fr,
  e_getparser E (g_format G) = Ok p ->
  parse_of G en fs p = {| po_result := Ok r; po_sg := sg |} ->
  run_read E G c en (frame_of o fs n) = Done fr ->
  atoms_point_to_lattice (f_self fr).
Proof.
  intros E G c en o fs n p r sg fr Hg Hp H.
  destruct c, en; exec H Hg Hp; simpl; points_tac.
Qed.

(* ---------- 4. a successful read gives what the same read gives in a brand-new object ---------- *)
(* r is whatever the parser returned: a structure or None (then the statements work with Structure()) *)
Lemma read_success_eq_fresh_eff : forall E G en o fs n id' n' p r sg fr fr',
  e_getparser E (g_format G) = Ok p ->
  parse_of G en fs p = {| po_result := Ok r; po_sg := sg |} ->
  In "_lattice" (map fst (p_inst (effective E r))) ->
  run_read E G (o_cls o) en (frame_of o fs n) = Done fr ->
  run_read E G (o_cls o) en (frame_of (fresh E (o_cls o) id') fs n') = Done fr' ->
  observe (observed_names (effective E r)) (f_self fr) = observe (observed_names (effective E r)) (f_self fr').
Proof.
  intros E G en o fs n id' n' p r sg fr fr' Hg Hp HL H H'.
  destruct (o_cls o) eqn:C, en; exec H Hg Hp; exec H' Hg Hp; simpl;
    (eapply agree_observe; [ | agree_tac | pay_tac ];
     intros a Ia; simpl in Ia; destruct Ia as [<-|[<-|[<-|[<-|Ia]]]]; apply in_or_app;
     [left; simpl; tauto | left; simpl; tauto | left; simpl; tauto | right; exact HL | right; exact Ia]).
Qed.

Lemma read_success_eq_fresh : forall E G en o fs n id' n' p r sg fr fr',
  e_getparser E (g_format G) = Ok p ->
  parse_of G en fs p = {| po_result := Ok r; po_sg := sg |} ->
  (forall ps, r = Some ps -> In "_lattice" (map fst (p_inst ps))) ->
  run_read E G (o_cls o) en (frame_of o fs n) = Done fr ->
  run_read E G (o_cls o) en (frame_of (fresh E (o_cls o) id') fs n') = Done fr' ->
  observe (observed_names (effective E r)) (f_self fr) = observe (observed_names (effective E r)) (f_self fr').
Proof.
  intros E G en o fs n id' n' p r sg fr fr' Hg Hp HL. apply (read_success_eq_fresh_eff E G en o fs n id' n' p r sg fr fr' Hg Hp).
  destruct r as [ps|]; [apply HL; reflexivity | simpl; auto].
Qed.
