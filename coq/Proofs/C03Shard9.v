(* Kernel decision of the group axioms for shard 9 of the regenerated tables. *)
From Coq Require Import ZArith List Bool.
From DS Require Import Base.ZMat Base.SGDefs Model.GroupCheck Gen.SGTables9.
Lemma shard9_groups : forallb setting_group_ok shard9 = true.
Proof. vm_compute. reflexivity. Qed.
