(* Kernel decision of the group axioms for shard 8 of the regenerated tables. *)
From Coq Require Import ZArith List Bool.
From DS Require Import Base.ZMat Base.SGDefs Model.GroupCheck Gen.SGTables8.
Lemma shard8_groups : forallb setting_group_ok shard8 = true.
Proof. vm_compute. reflexivity. Qed.
