(* C04 - the value carried by a "%.Pg" field is a fixed point of the "%.Pg" quantisation:
   re-printing a value read from such a field reproduces it exactly (no drift of %g formats). *)
From Coq Require Import List Bool Arith NArith ZArith Lia.
From DS Require Import Base.C04_Text Base.C04_Decimal.
Import ListNotations.
Open Scope N_scope.

Lemma rdiv_zero d : 0 < d -> rdiv 0 d = 0.
Proof.
  intros H. unfold rdiv. rewrite N.div_0_l, N.mod_0_l by lia. cbn. destruct d; [lia|reflexivity].
Qed.

Lemma quantN_zero p s e : quantN p (Dec s 0 e) = 0.
Proof. unfold quantN. cbn [dmag dexp]. destruct (e <=? p)%nat; [reflexivity|]. apply rdiv_zero. apply pow10_pos. Qed.

Lemma rdiv_ge_floor n d : n / d <= rdiv n d.
Proof. unfold rdiv. destruct (2 * (n mod d) <? d); [lia|]. destruct (d <? 2 * (n mod d)); [lia|]. destruct (N.even (n / d)); lia. Qed.

Lemma dnorm_zero s e : dnorm (Dec s 0 e) = Dec s 0 0.
Proof. unfold dnorm. cbn [dmag dexp dneg]. induction e as [|e IH]; [reflexivity|]. cbn [normN]. cbn. exact IH. Qed.

(* bounds of the mantissa kept by %.Pg on a non-zero value: exactly P digits *)
Lemma gen_mantissa_bounds P d pd : (0 < P)%nat -> dmag d <> 0 -> gen_decimals P d = Some pd ->
  pow10 (P - 1) <= quantN pd d < pow10 P /\ (Z.of_nat P - 1 - Z.of_nat pd >= -4)%Z.
Proof.
  intros HP Hm. unfold gen_decimals. apply N.eqb_neq in Hm. rewrite Hm. apply N.eqb_neq in Hm.
  destruct (ndigits_bounds (dmag d) ltac:(lia)) as [Lm Um].
  set (nd := ndigits (dmag d)) in *.
  assert (0 < nd)%nat as Hnd.
  { unfold nd, ndigits. pose proof (digitsN_nonnil (dmag d)). destruct (digitsN (dmag d)); [contradiction|cbn; lia]. }
  set (x0 := (Z.of_nat nd - 1 - Z.of_nat (dexp d))%Z). set (pd0 := (Z.of_nat P - 1 - x0)%Z).
  destruct (pd0 <? 0)%Z eqn:E0; [discriminate|]. apply Z.ltb_ge in E0.
  set (p0 := Z.to_nat pd0). assert (Z.of_nat p0 = pd0) as Ep0 by (unfold p0; lia).
  destruct (pow10 P <=? quantN p0 d) eqn:Ec.
  - (* carry: the value rounds up to 10^P at p0 decimals, hence to 10^(P-1) at p0-1 decimals *)
    apply N.leb_le in Ec.
    destruct ((pd0 - 1 <? 0)%Z || (x0 + 1 <? -4)%Z) eqn:Et; [discriminate|]. apply orb_false_iff in Et. destruct Et as [Et1 Et2].
    apply Z.ltb_ge in Et1. apply Z.ltb_ge in Et2. intros E. injection E as Epd.
    assert (pd = (p0 - 1)%nat) as -> by lia. assert (0 < p0)%nat as Hp0 by lia.
    assert (p0 < dexp d)%nat as Hex.
    { destruct (Nat.lt_ge_cases p0 (dexp d)) as [C|C]; [exact C|exfalso].
      unfold quantN in Ec. apply Nat.leb_le in C. rewrite C in Ec. apply Nat.leb_le in C.
      assert (pow10 nd * pow10 (p0 - dexp d) = pow10 P) as K by (rewrite <- pow10_add; f_equal; lia).
      pose proof (pow10_pos (p0 - dexp d)). nia. }
    unfold quantN in *. assert ((dexp d <=? p0)%nat = false) as B1 by (apply Nat.leb_gt; lia).
    assert ((dexp d <=? p0 - 1)%nat = false) as B2 by (apply Nat.leb_gt; lia). rewrite B1 in Ec. rewrite B2.
    set (D0 := pow10 (dexp d - p0)) in *.
    assert (pow10 (dexp d - (p0 - 1)) = 10 * D0) as ED by (unfold D0; rewrite <- pow10_S; f_equal; lia). rewrite ED.
    assert (pow10 nd = pow10 P * D0) as Knd by (unfold D0; rewrite <- pow10_add; f_equal; lia).
    assert (pow10 P = 10 * pow10 (P - 1)) as KP by (rewrite <- pow10_S; f_equal; lia).
    pose proof (pow10_pos (dexp d - p0)) as HD0. fold D0 in HD0.
    pose proof (rdiv_error (dmag d) D0 HD0) as [A1 A2].
    pose proof (rdiv_error (dmag d) (10 * D0) ltac:(lia)) as [C1 C2].
    pose proof (pow10_pos (P - 1)) as HQ.
    set (q0 := rdiv (dmag d) D0) in *. set (q := rdiv (dmag d) (10 * D0)) in *. set (Q := pow10 (P - 1)) in *.
    rewrite KP in *. rewrite Knd in Um. clearbody q0 q Q D0. split; [split; nia|lia].
  - apply N.leb_gt in Ec.
    destruct ((pd0 <? 0)%Z || (x0 <? -4)%Z) eqn:Et; [discriminate|]. apply orb_false_iff in Et. destruct Et as [_ Et2].
    apply Z.ltb_ge in Et2. intros E. injection E as Epd. assert (pd = p0) as -> by (unfold p0; lia). split; [split; [|exact Ec]|lia].
    unfold quantN. destruct (dexp d <=? p0)%nat eqn:C.
    + apply Nat.leb_le in C. assert (pow10 (nd - 1) * pow10 (p0 - dexp d) = pow10 (P - 1)) as K by (rewrite <- pow10_add; f_equal; lia).
      pose proof (pow10_pos (p0 - dexp d)). nia.
    + apply Nat.leb_gt in C. eapply N.le_trans; [|apply rdiv_ge_floor].
      assert (pow10 (nd - 1) = pow10 (P - 1) * pow10 (dexp d - p0)) as K by (rewrite <- pow10_add; f_equal; lia).
      rewrite K in Lm. pose proof (pow10_pos (dexp d - p0)) as HD.
      apply N.div_le_lower_bound; lia.
Qed.

Theorem gq_idem P d d' : (0 < P)%nat -> gq P d = Some d' -> gq P d' = Some d'.
Proof.
  intros HP. unfold gq. destruct (gen_decimals P d) as [pd|] eqn:G; [|discriminate]. cbn [option_map]. intros E. inversion E as [Ed]. clear E.
  destruct (N.eq_dec (dmag d) 0) as [Z0|NZ].
  - (* zero prints "0" / "-0" *)
    unfold gen_decimals in G. rewrite Z0 in G. cbn in G. inversion G; subst pd.
    destruct d as [s m e]. cbn in Z0. subst m. unfold dq. cbn [dneg]. rewrite quantN_zero. rewrite dnorm_zero.
    unfold gen_decimals. cbn [dmag]. cbn [N.eqb option_map]. unfold dq. cbn [dneg]. rewrite quantN_zero, dnorm_zero. reflexivity.
  - destruct (gen_mantissa_bounds P d pd HP NZ G) as [[Lq Uq] Hx].
    set (q := quantN pd d) in *.
    (* shape of the normal form *)
    pose proof (normN_spec q pd) as NS. destruct (normN q pd) as [m' e'] eqn:EN. destruct NS as [N1 [N2 N3]].
    assert (dq pd d = Dec (dneg d) m' e') as Ed' by (unfold dq, dnorm; fold q; cbn [dmag dexp dneg]; rewrite EN; reflexivity).
    rewrite Ed'.
    assert (0 < q) as Hq by (pose proof (pow10_pos (P - 1)); lia).
    assert (m' <> 0) as Hm' by (intros ->; lia).
    set (t := (pd - e')%nat) in *.
    assert (t < P)%nat as HtP.
    { destruct (Nat.lt_ge_cases t P) as [C|C]; [exact C|exfalso].
      pose proof (pow10_le_mono P t C). pose proof (pow10_pos t). nia. }
    assert (ndigits m' = (P - t)%nat) as Nd'.
    { apply ndigits_unique; [|lia|lia].
      assert (pow10 (P - 1) = pow10 (P - t - 1) * pow10 t) as K1 by (rewrite <- pow10_add; f_equal; lia).
      assert (pow10 P = pow10 (P - t) * pow10 t) as K2 by (rewrite <- pow10_add; f_equal; lia).
      pose proof (pow10_pos t). rewrite K1 in Lq. rewrite K2 in Uq. rewrite N2 in Lq, Uq. split; nia. }
    assert (quantN pd (Dec (dneg d) m' e') = q) as Qq.
    { unfold quantN. cbn [dmag dexp]. apply Nat.leb_le in N1. rewrite N1. fold t. symmetry. exact N2. }
    unfold gen_decimals. cbn [dmag dexp]. apply N.eqb_neq in Hm'. rewrite Hm'. rewrite Nd'.
    set (x0 := (Z.of_nat (P - t) - 1 - Z.of_nat e')%Z).
    assert ((Z.of_nat P - 1 - x0)%Z = Z.of_nat pd) as Epd by (unfold x0, t; lia).
    rewrite Epd. destruct (Z.of_nat pd <? 0)%Z eqn:E0; [apply Z.ltb_lt in E0; lia|]. rewrite Nat2Z.id. rewrite Qq.
    destruct (pow10 P <=? q) eqn:Ec; [apply N.leb_le in Ec; lia|].
    destruct (x0 <? -4)%Z eqn:E4; [apply Z.ltb_lt in E4; unfold x0, t in E4; lia|]. rewrite E0. cbn [orb option_map].
    f_equal. unfold dq. cbn [dneg]. rewrite Nat2Z.id, Qq. unfold dnorm. cbn [dmag dexp dneg]. rewrite EN. reflexivity.
Qed.
