From Coq Require Import ZArith List Bool String.
From DS Require Import Base.ZMat Base.SGDefs Model.C11_LookupDefs Model.C11_Checks Gen.SGTables Gen.LookupSpec.
Import ListNotations.
Lemma fingerprints_distinct_b : fingerprints_distinct = true.
Proof. vm_compute. reflexivity. Qed.
