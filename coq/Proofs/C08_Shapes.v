(* C08 - the statement shapes extracted from the current structure.py are the ones the model was written for *)
From Coq Require Import List String Bool.
From DS Require Import Model.C08_StructHeap Model.C08_ShapeDefs Gen.C08_Shapes.

Lemma shapes_match : gen_shapes = model_shapes.
Proof. vm_compute. reflexivity. Qed.

Lemma source_variant_is_current : variant_of gen_shapes = current.
Proof. rewrite shapes_match. reflexivity. Qed.
