(* C19 - proofs: with "local fill + one publish" builders and guarded readers, every completed
   lookup returns the sequential answer, for every number of threads, call list and schedule. *)
From Coq Require Import ZArith List Bool Lia.
From DS Require Import Model.C19_Threads.
Import ListNotations.
Open Scope Z_scope.

(* ---------- dictionaries ---------- *)
Lemma find_set_item : forall t x v y, find y (set_item t x v) = if x =? y then Some v else find y t.
Proof.
  induction t as [|[a b] t IH]; intros x v y; simpl.
  - reflexivity.
  - destruct (a =? x) eqn:E.
    + apply Z.eqb_eq in E; subst a. simpl. destruct (x =? y); reflexivity.
    + simpl. destruct (a =? y) eqn:E2.
      * apply Z.eqb_eq in E2; subst a. rewrite Z.eqb_sym in E. rewrite E. reflexivity.
      * apply IH.
Qed.

Lemma set_item_nonempty : forall t x v, set_item t x v <> [].
Proof. destruct t as [|[a b] t]; intros x v; simpl; [discriminate|destruct (a =? x); discriminate]. Qed.

Lemma set_default_nonempty : forall t x v, set_default t x v <> [].
Proof.
  intros t x v. unfold set_default. destruct (mem x t) eqn:E.
  - destruct t; [unfold mem in E; simpl in E; discriminate|discriminate].
  - apply set_item_nonempty.
Qed.

Lemma update_keeps_nonempty : forall l t, t <> [] -> update t l <> [].
Proof.
  unfold update. induction l as [|[a b] l IH]; intros t H; simpl; [exact H|].
  apply IH. apply set_item_nonempty.
Qed.

Lemma update_nonempty : forall l t, l <> [] -> update t l <> [].
Proof.
  intros [|[a b] l] t H; [congruence|]. unfold update; simpl.
  apply (update_keeps_nonempty l). apply set_item_nonempty.
Qed.

(* last binding of a key in a list of writes *)
Fixpoint flast (y : key) (l : table) : option val :=
  match l with
  | [] => None
  | (a, b) :: l' => match flast y l' with Some v => Some v | None => if a =? y then Some b else None end
  end.

Lemma find_update : forall l t y,
  find y (update t l) = match flast y l with Some v => Some v | None => find y t end.
Proof.
  unfold update. induction l as [|[a b] l IH]; intros t y; simpl; [reflexivity|].
  rewrite IH. destruct (flast y l); [reflexivity|]. rewrite find_set_item. destruct (a =? y); reflexivity.
Qed.

(* publishing the complete content into an empty or an already complete table gives a complete table *)
Lemma publish_complete : forall l t y,
  (t = [] \/ forall z, find z t = find z (update [] l)) ->
  find y (update t l) = find y (update [] l).
Proof.
  intros l t y H. rewrite !find_update. destruct (flast y l) eqn:E; [reflexivity|].
  destruct H as [->|H]; [reflexivity|]. rewrite H, find_update, E. reflexivity.
Qed.

Lemma mem_ext : forall t t' x, (forall z, find z t = find z t') -> mem x t = mem x t'.
Proof. intros t t' x H. unfold mem. rewrite H. reflexivity. Qed.

Lemma gid_eqb_refl : forall g, gid_eqb g g = true.
Proof. destruct g; reflexivity. Qed.
Lemma gid_eqb_eq : forall a b, gid_eqb a b = true -> a = b.
Proof. destruct a, b; simpl; congruence. Qed.

(* ---------- the per-command safety predicate ---------- *)
Section Safe.
  Variable loc : gid -> table.               (* what each builder publishes *)
  Hypothesis loc_nonempty : forall g, loc g <> [].
  Let fullt : shared := fun g => update [] (loc g).

  (* K g = true : this thread has seen table g non-empty (or published it) *)
  Inductive safe : (gid -> bool) -> cmd -> result -> Prop :=
  | S_ret : forall K r, safe K (Ret r) r
  | S_empty : forall K g k r,
      (K g = false -> safe K (k true) r) -> safe (kset K g) (k false) r -> safe K (AIsEmpty g k) r
  | S_contains : forall K g x k r,
      K g = true -> safe K (k (mem x (fullt g))) r -> safe K (AContains g x k) r
  | S_lookup : forall K g x k r,
      K g = true -> safe K (k (find x (fullt g))) r -> safe K (ALookup g x k) r
  | S_publish : forall K g k r,
      safe (kset K g) k r -> safe K (APublish g (loc g) k) r.

  Lemma safe_mono : forall K c r, safe K c r -> forall K', (forall g, K g = true -> K' g = true) -> safe K' c r.
  Proof.
    induction 1; intros K' HK.
    - constructor.
    - apply S_empty.
      + intro HF. apply H0; [|exact HK]. destruct (K g) eqn:E; [|reflexivity]. rewrite (HK g E) in HF. discriminate.
      + apply IHsafe. intros g0. unfold kset. destruct (gid_eqb g0 g); simpl; [reflexivity|apply HK].
    - apply S_contains; [apply HK; assumption|apply IHsafe; exact HK].
    - apply S_lookup; [apply HK; assumption|apply IHsafe; exact HK].
    - apply S_publish. apply IHsafe. intros g0. unfold kset. destruct (gid_eqb g0 g); simpl; [reflexivity|apply HK].
  Qed.

  (* every shared table is empty or complete *)
  Definition inv (s : shared) : Prop :=
    forall g, s g = [] \/ (s g <> [] /\ forall x, find x (s g) = find x (fullt g)).
  Definition ksound (K : gid -> bool) (s : shared) : Prop := forall g, K g = true -> s g <> [].
  Definition grows (s s' : shared) : Prop := forall g, s g <> [] -> s' g <> [].

  Lemma inv_empty : inv empty_shared.
  Proof. intro g. left. reflexivity. Qed.

  Lemma ksound_grows : forall K s s', ksound K s -> grows s s' -> ksound K s'.
  Proof. intros K s s' H G g E. apply G, H, E. Qed.

  Lemma full_of_known : forall K s g, inv s -> ksound K s -> K g = true -> forall x, find x (s g) = find x (fullt g).
  Proof. intros K s g I Ks E. destruct (I g) as [H|[_ H]]; [exfalso; exact (Ks g E H)|exact H]. Qed.

  Lemma step_safe : forall K c r s,
    inv s -> ksound K s -> safe K c r -> (forall r', c <> Ret r') ->
    inv (fst (act s c)) /\ grows s (fst (act s c)) /\
    exists K', ksound K' (fst (act s c)) /\ safe K' (snd (act s c)) r.
  Proof.
    intros K c r s I Ks Sf NR. destruct Sf as [K r|K g k r H1 H2|K g x k r HK H|K g x k r HK H|K g k r H]; simpl.
    - exfalso. apply (NR r). reflexivity.
    - split; [exact I|]. split; [intros g0 E; exact E|].
      destruct (s g) eqn:E; simpl.
      + exists K. split; [exact Ks|]. apply H1. destruct (K g) eqn:EK; [|reflexivity]. exfalso. exact (Ks g EK E).
      + exists (kset K g). split; [|exact H2].
        intros g0. unfold kset. destruct (gid_eqb g0 g) eqn:EG; simpl.
        * intros _. apply gid_eqb_eq in EG. subst g0. rewrite E. discriminate.
        * apply Ks.
    - split; [exact I|]. split; [intros g0 E; exact E|]. exists K. split; [exact Ks|].
      rewrite (mem_ext (s g) (fullt g) x (full_of_known K s g I Ks HK)). exact H.
    - split; [exact I|]. split; [intros g0 E; exact E|]. exists K. split; [exact Ks|].
      rewrite (full_of_known K s g I Ks HK x). exact H.
    - assert (NE : update (s g) (loc g) <> []) by (apply update_nonempty, loc_nonempty).
      split; [|split].
      + intro g0. unfold upd_shared. destruct (gid_eqb g0 g) eqn:EG.
        * apply gid_eqb_eq in EG. subst g0. right. split; [exact NE|].
          intro x. apply publish_complete. destruct (I g) as [E|[_ E]]; [left; exact E|right; exact E].
        * apply I.
      + intros g0 E. unfold upd_shared. destruct (gid_eqb g0 g) eqn:EG; [|exact E].
        apply gid_eqb_eq in EG. subst g0. exact NE.
      + exists (kset K g). split; [|exact H].
        intros g0. unfold kset, upd_shared. destruct (gid_eqb g0 g) eqn:EG; simpl.
        * intros _. apply gid_eqb_eq in EG. subst g0. exact NE.
        * apply Ks.
  Qed.
End Safe.

(* ---------- builders of the safe shape reduce to one Publish ---------- *)
Lemma fill_local : forall m es loc k,
  fill TLocal m es loc k = k (fold_left (fun t kv => write m t (fst kv) (snd kv)) es loc).
Proof. induction es as [|[a v] es IH]; intros loc k; simpl; [reflexivity|apply IH]. Qed.

Lemma alias_local : forall al loc k,
  alias TLocal TLocal al loc k = match pure_alias al loc with BOk l => k l | BErr e => Ret e end.
Proof.
  induction al as [|[a hm] al IH]; intros loc k; simpl; [reflexivity|].
  destruct (find hm loc); [apply IH|reflexivity].
Qed.

Lemma exec_stmt_local : forall d s loc k, local_only s = true ->
  exec_stmt d s loc k = match pure_stmt d s loc with BOk l => k l | BErr e => Ret e end.
Proof.
  intros d s loc k H. destruct s as [t| |t m src|t rd|t|t|g]; simpl in H; try discriminate.
  - destruct t; [discriminate|reflexivity].
  - reflexivity.
  - destruct t; [discriminate|]. simpl. apply fill_local.
  - destruct t; [discriminate|]. destruct rd; [discriminate|]. simpl. apply alias_local.
  - destruct t; [discriminate|]. simpl. destruct (mem (d_none d) loc); reflexivity.
  - destruct t; [discriminate|]. simpl. destruct (tlen loc =? d_len d); reflexivity.
Qed.

Lemma exec_local_then_publish : forall d g k ss loc, forallb local_only ss = true ->
  exec_stmts d (ss ++ [BPublish g]) loc k
  = match pure_stmts d ss loc with BOk l => APublish g l (k l) | BErr e => Ret e end.
Proof.
  intros d g k. induction ss as [|s ss IH]; intros loc H; simpl.
  - reflexivity.
  - simpl in H. apply andb_true_iff in H. destruct H as [H1 H2].
    rewrite (exec_stmt_local d s loc _ H1). destruct (pure_stmt d s loc); [apply IH; exact H2|reflexivity].
Qed.

Lemma pure_then_publish : forall d g ss loc,
  pure_stmts d (ss ++ [BPublish g]) loc = pure_stmts d ss loc.
Proof.
  intros d g. induction ss as [|s ss IH]; intros loc; simpl; [reflexivity|].
  destruct (pure_stmt d s loc); [apply IH|reflexivity].
Qed.

Lemma builder_safe_shape : forall g b, builder_safe g b = true ->
  exists mids, b_stmts b = BNewLocal :: mids ++ [BPublish g] /\ forallb local_only mids = true
               /\ (b_tail b = TailReturn \/ b_guard b = true).
Proof.
  intros g b H. unfold builder_safe in H. apply andb_true_iff in H. destruct H as [H HT].
  destruct (b_stmts b) as [|s rest] eqn:ES; [discriminate|]. destruct s; try discriminate.
  destruct (rev rest) as [|s0 rmids] eqn:ER; [discriminate|]. destruct s0; try discriminate.
  apply andb_true_iff in H. destruct H as [HG HL]. apply gid_eqb_eq in HG. subst g0.
  exists (rev rmids). split; [|split].
  - f_equal. rewrite <- (rev_involutive rest), ER. reflexivity.
  - rewrite forallb_forall in *. intros x Hx. apply HL. apply in_rev. exact Hx.
  - destruct (b_tail b); [left; reflexivity|right; exact HT].
Qed.

Section Gen.
  Variable p : prog.
  Variable d : data.
  Hypothesis shape : safe_shape p = true.
  Hypothesis bok : build_ok p d = true.

  Let loc := loc_table p d.

  Lemma local_ok : forall g, exists t, local_of p d g = BOk t /\ t <> [] /\ loc g = t.
  Proof.
    intro g. unfold build_ok in bok. simpl in bok. rewrite andb_true_r in bok.
    apply andb_true_iff in bok. destruct bok as [B1 B2].
    unfold loc, loc_table.
    destruct g; [destruct (local_of p d GId) as [[|x t]|]|destruct (local_of p d GHash) as [[|x t]|]];
      try discriminate; eexists; (split; [reflexivity|split; [discriminate|reflexivity]]).
  Qed.

  Lemma loc_nonempty : forall g, loc g <> [].
  Proof. intro g. destruct (local_ok g) as [t [_ [N E]]]. rewrite E. exact N. Qed.

  Lemma shape_parts : builder_safe GId (p_build p GId) = true /\ builder_safe GHash (p_build p GHash) = true
                      /\ reader_safe (p_get p) knone = true /\ reader_safe (p_find p) knone = true.
  Proof.
    pose proof shape as S. unfold safe_shape in S.
    apply andb_true_iff in S. destruct S as [S S4]. apply andb_true_iff in S. destruct S as [S S3].
    apply andb_true_iff in S. destruct S as [S1 S2]. repeat split; assumption.
  Qed.

  Lemma builder_is_safe : forall g, builder_safe g (p_build p g) = true.
  Proof. destruct shape_parts as [A [B _]]. destruct g; assumption. Qed.

  Lemma body_is_publish : forall g after, body d (p_build p g) after = APublish g (loc g) after.
  Proof.
    intros g after. destruct (builder_safe_shape g _ (builder_is_safe g)) as [mids [ES [HL _]]].
    destruct (local_ok g) as [t [E [_ EL]]]. unfold local_of in E. unfold body. rewrite ES in *.
    simpl. simpl in E. rewrite exec_local_then_publish by exact HL.
    rewrite pure_then_publish in E. rewrite E, EL. reflexivity.
  Qed.

  Lemma run_builder_safe : forall K g k r,
    safe loc (kset K g) k r -> safe loc K (run_builder p d g k) r.
  Proof.
    intros K g k r H. unfold run_builder.
    destruct (builder_safe_shape g _ (builder_is_safe g)) as [_ [_ [_ HT]]].
    assert (A : safe loc (kset K g)
                 match b_tail (p_build p g) with
                 | TailReturn => k
                 | TailRecurse => if b_guard (p_build p g) then AIsEmpty g (fun e => if e then Ret RecErr else k) else Ret RecErr
                 end r).
    { destruct (b_tail (p_build p g)); [exact H|].
      destruct HT as [HT|HT]; [discriminate|]. rewrite HT. apply S_empty.
      - unfold kset. rewrite gid_eqb_refl. simpl. discriminate.
      - apply (safe_mono loc _ _ _ H). intros g0 E. unfold kset in *. rewrite E. apply orb_true_r. }
    destruct (b_guard (p_build p g)).
    - apply S_empty; [intros _; rewrite body_is_publish; apply S_publish; exact A|exact H].
    - rewrite body_is_publish. apply S_publish. exact A.
  Qed.

  Lemma exec_r_safe : forall cands is_str fin rs K, reader_safe rs K = true ->
    safe loc K (exec_r p d rs cands is_str fin) (fin (pure_r (full p d) rs cands is_str)).
  Proof.
    intros cands is_str fin. induction rs as [|s rs IH]; intros K H; simpl.
    - constructor.
    - destruct s as [g|g|g i| |g i|g i|]; simpl in H.
      + apply S_empty; [intros _; apply run_builder_safe; apply IH; exact H|apply IH; exact H].
      + apply run_builder_safe. apply IH. exact H.
      + apply andb_true_iff in H. destruct H as [HK H]. destruct (nth_error cands i) as [x|]; [|apply IH; exact H].
        apply S_contains; [exact HK|]. change (update [] (loc g)) with (full p d g).
        destruct (mem x (full p d g)); [|apply IH; exact H].
        apply S_lookup; [exact HK|]. constructor.
      + destruct is_str; [apply IH; exact H|constructor].
      + apply andb_true_iff in H. destruct H as [HK H]. destruct (nth_error cands i) as [x|]; [|constructor].
        apply S_contains; [exact HK|]. change (update [] (loc g)) with (full p d g).
        destruct (mem x (full p d g)); [apply IH; exact H|constructor].
      + destruct (nth_error cands i) as [x|]; [|constructor].
        apply S_lookup; [exact H|]. constructor.
      + constructor.
  Qed.

  Lemma compile_safe : forall c, safe loc knone (compile p d c) (answer p d c).
  Proof.
    destruct shape_parts as [_ [_ [HG HF]]].
    intros [cands s|cands s|h]; simpl.
    - apply (exec_r_safe cands s (fun r => r)). exact HG.
    - apply (exec_r_safe cands s as_bool). exact HG.
    - apply (exec_r_safe [h] true (fun r => r)). exact HF.
  Qed.

  (* ---------- thread and world invariants ---------- *)
  Definition thread_ok (s : shared) (cs : list call) (th : thread) : Prop :=
    match t_cur th with
    | None => t_todo th = [] /\ t_done th = map (answer p d) cs
    | Some c => (forall r, c <> Ret r) /\
                exists pre cc K, cs = pre ++ cc :: t_todo th /\ t_done th = map (answer p d) pre /\
                                 ksound K s /\ safe loc K c (answer p d cc)
    end.

  Lemma settle_ok : forall s c todo pre cc K,
    ksound K s -> safe loc K c (answer p d cc) ->
    thread_ok s (pre ++ cc :: todo) (settle p d c todo (map (answer p d) pre)).
  Proof.
    intros s c todo. revert c. induction todo as [|c' todo IH]; intros c pre cc K Ks Sf.
    - destruct c; simpl; unfold thread_ok; simpl;
        try (split; [intros r0 E; discriminate|exists pre, cc, K; repeat split; assumption]).
      inversion Sf; subst. split; [reflexivity|]. rewrite map_app. reflexivity.
    - destruct c; simpl;
        try (unfold thread_ok; simpl; split; [intros r0 E; discriminate|exists pre, cc, K; repeat split; assumption]).
      inversion Sf; subst.
      replace (map (answer p d) pre ++ [answer p d cc]) with (map (answer p d) (pre ++ [cc])) by (rewrite map_app; reflexivity).
      replace (pre ++ cc :: c' :: todo) with ((pre ++ [cc]) ++ c' :: todo) by (rewrite <- app_assoc; reflexivity).
      apply (IH _ _ _ knone); [intros g E; discriminate|apply compile_safe].
  Qed.

  Lemma start_ok : forall s cs, thread_ok s cs (start p d cs).
  Proof.
    intros s [|c cs]; simpl.
    - unfold thread_ok; simpl. split; reflexivity.
    - apply (settle_ok s _ cs [] c knone); [intros g E; discriminate|apply compile_safe].
  Qed.

  Lemma thread_ok_grows : forall s s' cs th, grows s s' -> thread_ok s cs th -> thread_ok s' cs th.
  Proof.
    intros s s' cs th G H. unfold thread_ok in *. destruct (t_cur th); [|exact H].
    destruct H as [NR [pre [cc [K [E1 [E2 [Ks Sf]]]]]]]. split; [exact NR|].
    exists pre, cc, K. repeat split; try assumption. apply (ksound_grows K s s'); assumption.
  Qed.

  Definition world_ok (css : list (list call)) (w : world) : Prop :=
    inv loc (w_shared w) /\ Forall2 (thread_ok (w_shared w)) css (w_threads w).

  Lemma init_ok : forall css, world_ok css (init p d css).
  Proof.
    intro css. split; [apply inv_empty|]. simpl.
    induction css; simpl; constructor; [apply start_ok|assumption].
  Qed.

  Lemma forall2_grows : forall s s' css ths, grows s s' ->
    Forall2 (thread_ok s) css ths -> Forall2 (thread_ok s') css ths.
  Proof. intros s s' css ths G H. induction H; constructor; [eapply thread_ok_grows; eassumption|assumption]. Qed.

  Lemma forall2_set_nth : forall (P : list call -> thread -> Prop) css ths n cs th,
    Forall2 P css ths -> nth_error css n = Some cs -> P cs th -> Forall2 P css (set_nth ths n th).
  Proof.
    intros P css ths n cs th H. revert n. induction H; intros n E Hp.
    - constructor.
    - destruct n; simpl in *.
      + inversion E; subst. constructor; assumption.
      + constructor; [assumption|apply IHForall2; assumption].
  Qed.

  Lemma forall2_nth : forall (P : list call -> thread -> Prop) css ths n th,
    Forall2 P css ths -> nth_error ths n = Some th -> exists cs, nth_error css n = Some cs /\ P cs th.
  Proof.
    intros P css ths n th H. revert n. induction H; intros n E.
    - destruct n; discriminate.
    - destruct n; simpl in *.
      + inversion E; subst. eexists; split; [reflexivity|assumption].
      + apply IHForall2. exact E.
  Qed.

  Lemma step_ok : forall css w tid, world_ok css w -> world_ok css (sched_step p d w tid).
  Proof.
    intros css w tid [I F]. unfold sched_step.
    destruct (nth_error (w_threads w) tid) as [th|] eqn:ET; [|split; assumption].
    destruct (forall2_nth _ _ _ _ _ F ET) as [cs [EC TO]].
    unfold thread_ok in TO. destruct (t_cur th) as [c|] eqn:ECur; [|split; assumption].
    destruct TO as [NR [pre [cc [K [E1 [E2 [Ks Sf]]]]]]].
    destruct (step_safe loc loc_nonempty K c _ (w_shared w) I Ks Sf NR) as [I' [G [K' [Ks' Sf']]]].
    destruct (act (w_shared w) c) as [s' c'] eqn:EA. simpl in *.
    split; simpl; [exact I'|].
    apply (forall2_set_nth _ css (w_threads w) tid cs).
    - apply (forall2_grows (w_shared w)); assumption.
    - exact EC.
    - rewrite E1, E2. apply (settle_ok s' c' (t_todo th) pre cc K'); assumption.
  Qed.

  Lemma run_ok : forall css sched, world_ok css (run p d css sched).
  Proof.
    intros css sched. unfold run. generalize (init_ok css). generalize (init p d css).
    induction sched as [|t sched IH]; intros w H; simpl; [exact H|]. apply IH. apply step_ok. exact H.
  Qed.

  Lemma thread_ok_prefix : forall s cs th, thread_ok s cs th ->
    t_done th = map (answer p d) (firstn (List.length (t_done th)) cs).
  Proof.
    intros s cs th H. unfold thread_ok in H. destruct (t_cur th).
    - destruct H as [_ [pre [cc [K [E1 [E2 _]]]]]]. rewrite E2 at 1. rewrite E2, E1, map_length.
      rewrite firstn_app, Nat.sub_diag, firstn_all. simpl. rewrite app_nil_r. reflexivity.
    - destruct H as [_ E]. rewrite E at 1. rewrite E, map_length, firstn_all. reflexivity.
  Qed.

  (* every thread count, every call list per thread, every schedule: what a thread has returned so far
     is exactly the sequential answers of the calls it has completed *)
  Theorem linearizable : forall css sched i th,
    nth_error (w_threads (run p d css sched)) i = Some th ->
    exists cs, nth_error css i = Some cs /\
               t_done th = map (answer p d) (firstn (List.length (t_done th)) cs).
  Proof.
    intros css sched i th E. destruct (run_ok css sched) as [_ F].
    destruct (forall2_nth _ _ _ _ _ F E) as [cs [EC TO]].
    exists cs. split; [exact EC|]. eapply thread_ok_prefix. exact TO.
  Qed.

  (* ... and once a thread has nothing left to run it has returned the answer of every call *)
  Theorem finished_all_answers : forall css sched i th,
    nth_error (w_threads (run p d css sched)) i = Some th -> t_cur th = None ->
    exists cs, nth_error css i = Some cs /\ t_done th = map (answer p d) cs.
  Proof.
    intros css sched i th E EN. destruct (run_ok css sched) as [_ F].
    destruct (forall2_nth _ _ _ _ _ F E) as [cs [EC TO]].
    exists cs. split; [exact EC|]. unfold thread_ok in TO. rewrite EN in TO. apply TO.
  Qed.

  (* the shared tables are never seen half built *)
  Theorem tables_empty_or_complete : forall css sched g,
    let s := w_shared (run p d css sched) in
    s g = [] \/ (s g <> [] /\ forall x, find x (s g) = find x (full p d g)).
  Proof. intros css sched g. destruct (run_ok css sched) as [I _]. apply I. Qed.
End Gen.

(* ---------- the hand-written shapes ---------- *)
Lemma publish_prog_safe : safe_shape publish_prog = true.
Proof. vm_compute. reflexivity. Qed.

Lemma inplace_prog_unsafe : safe_shape inplace_prog = false.
Proof. vm_compute. reflexivity. Qed.

Lemma tiny_build_ok : build_ok publish_prog tiny_data = true.
Proof. vm_compute. reflexivity. Qed.

(* the hypotheses of the theorem are satisfiable, and a non-trivial interleaving completes *)
Example publish_tiny_interleaved :
  results (run publish_prog tiny_data [[CGet [21; 21; 21] true; CFind 102]; [CGet [30] true; CIsId [99] true]]
               ([0; 1; 0; 1; 1; 0; 0; 1; 1; 1; 0; 0; 0; 0; 1; 1; 1; 0; 0; 1; 1; 0; 0; 1; 1]%nat))
  = [[Found 2; Found 2]; [Found 2; RBool false]].
Proof. vm_compute. reflexivity. Qed.

(* current in-place fill: thread 0 (the builder) is pre-empted after clear + its first insertion;
   thread 1 sees a non-empty table and a valid identifier is reported unknown *)
Definition refute_sched : list nat := [0; 0; 0; 1; 1; 1; 1; 1]%nat.
Lemma inplace_refuted_id :
  let w := run inplace_prog tiny_data [[CGet [11] true]; [CGet [21; 21; 21] true]] refute_sched in
  nth_error (results w) 1 = Some [NotFound] /\ answer inplace_prog tiny_data (CGet [21; 21; 21] true) = Found 2.
Proof. vm_compute. split; reflexivity. Qed.

Lemma inplace_refuted_hash :
  let w := run inplace_prog tiny_data [[CFind 101]; [CFind 102]] [0; 0; 1; 1]%nat in
  nth_error (results w) 1 = Some [NotFound] /\ answer inplace_prog tiny_data (CFind 102) = Found 2.
Proof. vm_compute. split; reflexivity. Qed.

(* a later clear() by a second builder empties a complete table under a reader that already tested it *)
Lemma inplace_refuted_clear :
  let w := run inplace_prog tiny_data [[CGet [11] true]; [CGet [11] true]; [CGet [21] true]]
               ([1] ++ repeat 0 20 ++ [2] ++ [1] ++ repeat 2 5)%nat in
  nth_error (results w) 2 = Some [NotFound].
Proof. vm_compute. reflexivity. Qed.

Theorem inplace_fill_refuted_lemma :
  exists d css sched i r c,
    build_ok publish_prog d = true /\
    nth_error (results (run inplace_prog d css sched)) i = Some [r] /\
    nth_error css i = Some [c] /\ r <> answer inplace_prog d c.
Proof.
  exists tiny_data, [[CGet [11] true]; [CGet [21; 21; 21] true]], refute_sched, 1%nat, NotFound, (CGet [21; 21; 21] true).
  vm_compute. repeat split; try reflexivity. discriminate.
Qed.
