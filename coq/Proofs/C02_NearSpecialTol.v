(* C02 - Proofs/C02_NearSpecial.v generalised from the default tolerances to any well-formed pair of tolerances
   (Model/C02_EpsTol.v): images of x belonging to one image of x0 are within the caller's eps of each other
   (within_tol_t), images belonging to different images of x0 are farther apart than BOTH the caller's eps and the
   bin width (between_far_t).  Then expand_eps_t on x returns the orbit structure of x0. *)
From Coq Require Import ZArith List Bool Lia.
From DS Require Import Base.ZMat Base.SGDefs Model.GroupCheck Model.C02_Orbit Model.C02_Eps Model.C02_Gen Model.C02_EpsTol.
From DS Require Import Proofs.C02_Action Proofs.C02_Expand Proofs.C02_EpsSound Proofs.C02_NearSpecial Proofs.C02_EpsTol.
Import ListNotations.
Open Scope Z_scope.

Lemma equal_pos_t_iff T : tol_wf T -> forall D p q,
  equal_pos_t T D p q = true <-> boxdist D p q * tq_den T <= tq_num T * D.
Proof.
  intros [_ [Hqd _]] D p q. unfold equal_pos_t, le_eps_t. rewrite !andb_true_iff, !Z.leb_le. split.
  - intros [[H1 H2] H3]. unfold boxdist. apply max3_mul_le; assumption.
  - intros H. unfold boxdist in H.
    pose proof (Z.le_max_l (Z.max (pdiff1 D (vx p) (vx q)) (pdiff1 D (vy p) (vy q))) (pdiff1 D (vz p) (vz q))).
    pose proof (Z.le_max_r (Z.max (pdiff1 D (vx p) (vx q)) (pdiff1 D (vy p) (vy q))) (pdiff1 D (vz p) (vz q))).
    pose proof (Z.le_max_l (pdiff1 D (vx p) (vx q)) (pdiff1 D (vy p) (vy q))).
    pose proof (Z.le_max_r (pdiff1 D (vx p) (vx q)) (pdiff1 D (vy p) (vy q))).
    repeat split; nia.
Qed.

Section NearT.
  Variable T : tol.
  Hypothesis Hwf : tol_wf T.
  Variable D : Z.
  Variable G : list symop.
  Variables off x x0 : v3.
  Hypothesis HD : 0 < D.

  Let imx (g : symop) : v3 := img D g off x.
  Let im0 (g : symop) : v3 := img D g off x0.

  (* images of x that belong to the same image of x0 are within the tolerance of equalPositions;
     images that belong to different images of x0 are farther apart than 2e-5 *)
  Definition within_tol_t : Prop := forall g h, In g G -> In h G -> img D g off x0 = img D h off x0 ->
    boxdist D (img D g off x) (img D h off x) * tq_den T <= tq_num T * D.
  Definition between_far_t : Prop := forall g h, In g G -> In h G -> img D g off x0 <> img D h off x0 ->
    far_t T D (img D g off x) (img D h off x).

  Hypothesis Hwithin : within_tol_t.
  Hypothesis Hbetween : between_far_t.

  Lemma collide_same_cluster_t g h : In g G -> In h G -> tup_t T D (imx g) = tup_t T D (imx h) -> im0 g = im0 h.
  Proof.
    intros Hg Hh E. destruct (v3_eqb (im0 g) (im0 h)) eqn:Eb; [apply v3_eqb_eq in Eb; exact Eb|].
    apply v3_eqb_neq in Eb. exfalso.
    apply (far_t_tup_neq T Hwf D (imx g) (imx h) HD); [apply img_in_cell; exact HD | apply img_in_cell; exact HD | | exact E].
    apply Hbetween; assumption.
  Qed.

  Record Sim2_t (A : list ent) (s : st) : Prop := {
    a_pos_t : s_pos s = map e_rep A;
    a_heap_t : forall e, In e A -> nth (e_id e) (s_heap s) [] = e_ops e /\ (e_id e < List.length (s_heap s))%nat;
    a_ids_t : NoDup (map e_id A);
    a_keysnd_t : NoDup (map e_key A);
    a_head_t : forall e, In e A -> exists g0 l, e_ops e = g0 :: l /\ In g0 G /\ e_rep e = imx g0 /\ im0 g0 = e_key e;
    a_dict_t : forall t i, In (t, i) (s_dict s) ->
             exists g' e, In g' G /\ In e A /\ t = tup_t T D (imx g') /\ im0 g' = e_key e /\ i = e_id e;
    a_keys_t : forall e, In e A -> lookup (tup_t T D (e_rep e)) (s_dict s) <> None
  }.

  Lemma sim2_lookup_t A s g i : Sim2_t A s -> In g G -> lookup (tup_t T D (imx g)) (s_dict s) = Some i ->
    exists e, In e A /\ e_key e = im0 g /\ e_id e = i.
  Proof.
    intros HS Hg Hl. apply lookup_In in Hl. destruct (a_dict_t A s HS _ _ Hl) as [g' [e [Hg' [He [Ht [Hk Hi]]]]]].
    exists e. split; [exact He|]. split; [|symmetry; exact Hi].
    rewrite <- Hk. apply collide_same_cluster_t; [exact Hg' | exact Hg | symmetry; exact Ht].
  Qed.

  Lemma sim2_rep_lookup_t A s e : Sim2_t A s -> In e A -> lookup (tup_t T D (e_rep e)) (s_dict s) = Some (e_id e).
  Proof.
    intros HS He. pose proof (a_keys_t A s HS e He) as Hk.
    destruct (lookup (tup_t T D (e_rep e)) (s_dict s)) as [i|] eqn:El; [|contradiction].
    destruct (a_head_t A s HS e He) as [g0 [l [Ho [Hg0 [Hr Hk0]]]]].
    rewrite Hr in El. destruct (sim2_lookup_t A s g0 i HS Hg0 El) as [e2 [He2 [Hk2 Hi2]]].
    assert (e2 = e). { apply (NoDup_map_inj e_key A); [apply (a_keysnd_t A s HS) | exact He2 | exact He | congruence]. }
    subst e2. rewrite Hi2. reflexivity.
  Qed.

  (* one iteration *)
  Lemma sim2_step_t A s g : In g G -> Sim2_t A s ->
    exists A', Sim2_t A' (eps_step_t T D off x s g) /\ map proj0 A' = insert (im0 g) g (map proj0 A).
  Proof.
    intros Hg HS.
    unfold eps_step_t. cbv zeta. rewrite wrap_red by exact HD. fold (img D g off x). fold (imx g).
    destruct (lookup (tup_t T D (imx g)) (s_dict s)) as [i|] eqn:El.
    - (* the bucket is known: append to its list object *)
      destruct (sim2_lookup_t A s g i HS Hg El) as [e [He [Hk Hi]]].
      exists (updA (im0 g) g A). split.
      + destruct HS as [Hp Hh Hids Hknd Hhd Hd Hks]. constructor; cbn [s_pos s_dict s_heap].
        * rewrite updA_rep. exact Hp.
        * intros e' He'. rewrite heap_app_length. destruct (updA_In _ _ _ _ Hknd He') as [[H1 H2]|[e1 [H1 [H2 H3]]]].
          -- destruct (Hh e' H1) as [Ha Hb]. split; [|exact Hb]. rewrite heap_app_other; [exact Ha|].
             intros Heq. apply H2. rewrite <- Hk.
             f_equal. apply (NoDup_map_inj e_id A); [exact Hids | exact H1 | exact He | congruence].
          -- assert (e1 = e) by (apply (NoDup_map_inj e_key A); [exact Hknd | exact H1 | exact He | congruence]). subst e1.
             subst e'. cbn [e_id e_ops]. destruct (Hh e He) as [Ha Hb]. split; [|exact Hb].
             rewrite <- Hi, heap_app_same by exact Hb. rewrite Ha. reflexivity.
        * rewrite updA_id. exact Hids.
        * rewrite updA_key. exact Hknd.
        * intros e' He'. destruct (updA_In _ _ _ _ Hknd He') as [[H1 H2]|[e1 [H1 [H2 H3]]]]; [apply Hhd; exact H1|].
          destruct (Hhd e1 H1) as [g0 [l [Ho [Hg0 [Hr Hk0]]]]]. subst e'. cbn [e_ops e_rep e_key].
          exists g0, (l ++ [g]). rewrite Ho. split; [reflexivity|]. split; [exact Hg0|]. split; assumption.
        * intros t j Hin. destruct (Hd t j Hin) as [g' [e1 [Hg' [He1 [Ht [Hk1 Hj]]]]]].
          (* the entry e1 may have been updated, identity and key are unchanged *)
          destruct (v3_eqb (im0 g) (e_key e1)) eqn:Ec.
          -- apply v3_eqb_eq in Ec.
             exists g', (Ent (e_rep e1) (e_id e1) (e_key e1) (e_ops e1 ++ [g])). split; [exact Hg'|]. split.
             ++ clear - He1 Ec Hknd. induction A as [|a r IH]; [destruct He1|]. cbn [updA]. cbn in Hknd. inversion Hknd as [|? ? Hnot Hnd']; subst.
                destruct He1 as [->|He1].
                ** rewrite Ec, v3_eqb_refl. left. reflexivity.
                ** destruct (v3_eqb (im0 g) (e_key a)) eqn:Ea.
                   --- exfalso. apply v3_eqb_eq in Ea. apply Hnot. rewrite <- Ea, Ec. apply in_map. exact He1.
                   --- right. apply IH; assumption.
             ++ cbn [e_key e_id]. split; [exact Ht|]. split; assumption.
          -- exists g', e1. split; [exact Hg'|]. split; [|split; [exact Ht | split; assumption]].
             clear - He1 Ec. induction A as [|a r IH]; [destruct He1|]. cbn [updA]. destruct He1 as [->|He1].
             ** rewrite Ec. left. reflexivity.
             ** destruct (v3_eqb (im0 g) (e_key a)); [right; exact He1 | right; apply IH; exact He1].
        * intros e' He'. destruct (updA_In _ _ _ _ Hknd He') as [[H1 H2]|[e1 [H1 [H2 H3]]]]; [apply Hks; exact H1|].
          subst e'. cbn [e_rep]. apply Hks. exact H1.
      + apply updA_insert. rewrite <- Hk. apply in_map. exact He.
    - (* unknown bucket *)
      destruct (find_idx (im0 g) (map e_key A)) as [j|] eqn:Ej.
      + (* the position exists already: the nearest site is its representative, the new key aliases its list *)
        assert (Hin : In (im0 g) (map e_key A)).
        { destruct (in_dec (fun a b => match v3_eqb a b as c return v3_eqb a b = c -> {a = b} + {a <> b} with
                                       | true => fun e => left (proj1 (v3_eqb_eq a b) e)
                                       | false => fun e => right (proj1 (v3_eqb_neq a b) e) end eq_refl) (im0 g) (map e_key A)) as [H|H];
            [exact H | apply find_idx_none in H; congruence]. }
        apply in_map_iff in Hin as [e [Hk He]].
        destruct (a_head_t A s HS e He) as [g0 [l [Ho [Hg0 [Hr Hk0]]]]].
        assert (Hne : s_pos s <> []).
        { rewrite (a_pos_t A s HS). destruct A; [destruct He | discriminate]. }
        set (k := nearest_index D (s_pos s) (imx g)).
        assert (Hklt : (k < List.length (s_pos s))%nat) by (apply nearest_index_lt; exact Hne).
        pose proof (nth_In (s_pos s) (imx g) Hklt) as Hnear. fold k in Hnear.
        set (np := nth k (s_pos s) (imx g)) in *.
        assert (Hrep_in : In (e_rep e) (s_pos s)) by (rewrite (a_pos_t A s HS); apply in_map; exact He).
        assert (Hmin : boxdist D np (imx g) <= boxdist D (e_rep e) (imx g)) by (apply nearest_index_min; exact Hrep_in).
        assert (Hclose : boxdist D (e_rep e) (imx g) * tq_den T <= tq_num T * D).
        { rewrite Hr. apply Hwithin; [exact Hg0 | exact Hg | exact (eq_trans Hk0 Hk)]. }
        rewrite (a_pos_t A s HS) in Hnear. apply in_map_iff in Hnear as [e2 [Hr2 He2]].
        destruct (a_head_t A s HS e2 He2) as [g2 [l2 [Ho2 [Hg2 [Hrr2 Hk2]]]]].
        assert (e2 = e).
        { apply (NoDup_map_inj e_key A); [apply (a_keysnd_t A s HS) | exact He2 | exact He |].
          destruct (v3_eqb (e_key e2) (e_key e)) eqn:Eb; [apply v3_eqb_eq in Eb; exact Eb|]. apply v3_eqb_neq in Eb. exfalso.
          assert (Hfar : far_t T D (imx g2) (imx g)) by (apply Hbetween; [exact Hg2 | exact Hg | intros E; apply Eb; rewrite <- Hk2, Hk; exact E]).
          rewrite <- Hrr2, Hr2 in Hfar. destruct Hfar as [Hfar _]. destruct Hwf as [_ [Hqd _]]. nia. }
        subst e2.
        assert (Heq : equal_pos_t T D np (imx g) = true).
        { apply (equal_pos_t_iff T Hwf). destruct Hwf as [_ [Hqd _]]. nia. }
        destruct (s_pos s) as [|q0 r0] eqn:EP; [contradiction|].
        fold k. change (nth k (q0 :: r0) (imx g)) with np. rewrite Heq.
        assert (Hlk : lookup_def (tup_t T D np) (s_dict s ++ [(tup_t T D (imx g), List.length (s_heap s))]) = e_id e).
        { unfold lookup_def. rewrite lookup_app_l; rewrite <- Hr2; [rewrite (sim2_rep_lookup_t A s e HS He); reflexivity | apply (a_keys_t A s HS e He)]. }
        rewrite Hlk.
        exists (updA (im0 g) g A). split.
        * destruct HS as [Hp Hh Hids Hknd Hhd Hd Hks]. constructor; cbn [s_pos s_dict s_heap].
          -- rewrite updA_rep. rewrite <- Hp. symmetry. exact EP.
          -- intros e' He'. rewrite heap_app_length, app_length. cbn [List.length].
             destruct (updA_In _ _ _ _ Hknd He') as [[H1 H2]|[e1 [H1 [H2 H3]]]].
             ++ destruct (Hh e' H1) as [Ha Hb]. split; [|lia]. rewrite heap_app_other.
                ** rewrite app_nth1 by exact Hb. exact Ha.
                ** intros Heq'. apply H2. rewrite <- Hk. f_equal.
                   apply (NoDup_map_inj e_id A); [exact Hids | exact H1 | exact He | congruence].
             ++ assert (e1 = e) by (apply (NoDup_map_inj e_key A); [exact Hknd | exact H1 | exact He | congruence]). subst e1.
                subst e'. cbn [e_id e_ops]. destruct (Hh e He) as [Ha Hb]. split; [|lia].
                rewrite heap_app_same by (rewrite app_length; cbn; lia). rewrite app_nth1 by exact Hb. rewrite Ha. reflexivity.
          -- rewrite updA_id. exact Hids.
          -- rewrite updA_key. exact Hknd.
          -- intros e' He'. destruct (updA_In _ _ _ _ Hknd He') as [[H1 H2]|[e1 [H1 [H2 H3]]]]; [apply Hhd; exact H1|].
             destruct (Hhd e1 H1) as [g1 [l1 [Ho1 [Hg1 [Hr1 Hk1]]]]]. subst e'. cbn [e_ops e_rep e_key].
             exists g1, (l1 ++ [g]). rewrite Ho1. split; [reflexivity|]. split; [exact Hg1|]. split; assumption.
          -- intros t j0 Hin. apply in_app_or in Hin as [Hin|[Hin|[]]].
             ++ destruct (Hd t j0 Hin) as [g' [e1 [Hg' [He1 [Ht [Hk1 Hj]]]]]].
                destruct (v3_eqb (im0 g) (e_key e1)) eqn:Ec.
                ** apply v3_eqb_eq in Ec.
                   exists g', (Ent (e_rep e1) (e_id e1) (e_key e1) (e_ops e1 ++ [g])). split; [exact Hg'|]. split.
                   --- clear - He1 Ec Hknd. induction A as [|a r IH]; [destruct He1|]. cbn [updA]. cbn in Hknd. inversion Hknd as [|? ? Hnot Hnd']; subst.
                       destruct He1 as [->|He1].
                       +++ rewrite Ec, v3_eqb_refl. left. reflexivity.
                       +++ destruct (v3_eqb (im0 g) (e_key a)) eqn:Ea.
                           *** exfalso. apply v3_eqb_eq in Ea. apply Hnot. rewrite <- Ea, Ec. apply in_map. exact He1.
                           *** right. apply IH; assumption.
                   --- cbn [e_key e_id]. split; [exact Ht|]. split; assumption.
                ** exists g', e1. split; [exact Hg'|]. split; [|split; [exact Ht | split; assumption]].
                   clear - He1 Ec. induction A as [|a r IH]; [destruct He1|]. cbn [updA]. destruct He1 as [->|He1].
                   --- rewrite Ec. left. reflexivity.
                   --- destruct (v3_eqb (im0 g) (e_key a)); [right; exact He1 | right; apply IH; exact He1].
             ++ inversion Hin; subst t j0.
                exists g, (Ent (e_rep e) (e_id e) (e_key e) (e_ops e ++ [g])). split; [exact Hg|]. split.
                ** clear - He Hk Hknd. induction A as [|a r IH]; [destruct He|]. cbn [updA]. cbn in Hknd. inversion Hknd as [|? ? Hnot Hnd']; subst.
                   destruct He as [->|He].
                   --- rewrite <- Hk, v3_eqb_refl. left. reflexivity.
                   --- destruct (v3_eqb (im0 g) (e_key a)) eqn:Ea.
                       +++ exfalso. apply v3_eqb_eq in Ea. apply Hnot. rewrite <- Ea, <- Hk. apply in_map. exact He.
                       +++ right. apply IH; assumption.
                ** cbn [e_key e_id]. split; [reflexivity|]. split; [symmetry; exact Hk | reflexivity].
          -- intros e' He'. rewrite lookup_app_l.
             ++ destruct (updA_In _ _ _ _ Hknd He') as [[H1 H2]|[e1 [H1 [H2 H3]]]]; [apply Hks; exact H1|].
                subst e'. cbn [e_rep]. apply Hks. exact H1.
             ++ destruct (updA_In _ _ _ _ Hknd He') as [[H1 H2]|[e1 [H1 [H2 H3]]]]; [apply Hks; exact H1|].
                subst e'. cbn [e_rep]. apply Hks. exact H1.
        * apply updA_insert. rewrite <- Hk. apply in_map. exact He.
      + (* a new position *)
        assert (Hnot : ~ In (im0 g) (map e_key A)) by (apply find_idx_none; exact Ej).
        assert (Hmerged :
          match s_pos s with
          | [] => None
          | _ :: _ =>
              if equal_pos_t T D (nth (nearest_index D (s_pos s) (imx g)) (s_pos s) (imx g)) (imx g)
              then Some (lookup_def (tup_t T D (nth (nearest_index D (s_pos s) (imx g)) (s_pos s) (imx g)))
                     (s_dict s ++ [(tup_t T D (imx g), List.length (s_heap s))]))
              else None
          end = None).
        { destruct (s_pos s) as [|q0 r0] eqn:EP; [reflexivity|].
          set (k := nearest_index D (q0 :: r0) (imx g)).
          assert (Hk : (k < List.length (q0 :: r0))%nat) by (apply nearest_index_lt; discriminate).
          pose proof (nth_In (q0 :: r0) (imx g) Hk) as Hin.
          assert (Hin2 : In (nth k (q0 :: r0) (imx g)) (map e_rep A)) by (rewrite <- (a_pos_t A s HS), EP; exact Hin).
          apply in_map_iff in Hin2 as [e2 [Hr2 He2]].
          destruct (a_head_t A s HS e2 He2) as [g2 [l2 [Ho2 [Hg2 [Hrr2 Hk2]]]]].
          rewrite (far_t_not_equal T Hwf); [reflexivity | exact HD |].
          rewrite <- Hr2, Hrr2. apply Hbetween; [exact Hg2 | exact Hg |].
          fold (im0 g2) (im0 g). rewrite Hk2. intros E. apply Hnot. rewrite <- E. apply in_map. exact He2. }
        rewrite Hmerged.
        exists (A ++ [Ent (imx g) (List.length (s_heap s)) (im0 g) [g]]). split.
        * destruct HS as [Hp Hh Hids Hknd Hhd Hd Hks]. constructor; cbn [s_pos s_dict s_heap].
          -- rewrite map_app, Hp. reflexivity.
          -- intros e' He'. rewrite heap_app_end, app_length. cbn [List.length].
             apply in_app_or in He' as [He'|[<-|[]]].
             ++ destruct (Hh e' He') as [Ha Hb]. split; [|lia]. rewrite app_nth1 by exact Hb. exact Ha.
             ++ cbn [e_id e_ops]. split; [|lia]. rewrite app_nth2 by lia. rewrite Nat.sub_diag. reflexivity.
          -- rewrite map_app. cbn [map e_id]. apply NoDup_snoc; [exact Hids|].
             intros Hin. apply in_map_iff in Hin as [e1 [H1 H2]]. destruct (Hh e1 H2) as [_ Hb]. lia.
          -- rewrite map_app. cbn [map e_key]. apply NoDup_snoc; assumption.
          -- intros e' He'. apply in_app_or in He' as [He'|[<-|[]]]; [apply Hhd; exact He'|].
             cbn [e_ops e_rep e_key]. exists g, []. split; [reflexivity|]. split; [exact Hg|]. split; reflexivity.
          -- intros t j0 Hin. apply in_app_or in Hin as [Hin|[Hin|[]]].
             ++ destruct (Hd t j0 Hin) as [g' [e1 [Hg' [He1 [Ht [Hk1 Hj]]]]]].
                exists g', e1. split; [exact Hg'|]. split; [apply in_or_app; left; exact He1|]. split; [exact Ht|]. split; assumption.
             ++ inversion Hin; subst t j0.
                exists g, (Ent (imx g) (List.length (s_heap s)) (im0 g) [g]). split; [exact Hg|].
                split; [apply in_or_app; right; left; reflexivity|]. cbn [e_key e_id]. split; [reflexivity|]. split; reflexivity.
          -- intros e' He'. apply in_app_or in He' as [He'|[<-|[]]].
             ++ rewrite lookup_app_l; apply Hks; exact He'.
             ++ cbn [e_rep]. rewrite lookup_app_r by exact El. rewrite v3_eqb_refl. discriminate.
        * rewrite map_app. cbn [map proj0]. unfold proj0 at 2. cbn [e_key e_ops].
          symmetry. apply insert_miss. rewrite map_map. cbn [proj0 fst]. exact Ej.
  Qed.

  Lemma sim2_fold_t rest : forall A s, (forall g, In g rest -> In g G) -> Sim2_t A s ->
    exists A', Sim2_t A' (fold_left (eps_step_t T D off x) rest s) /\
               map proj0 A' = fold_left (fun acc g => insert (im0 g) g acc) rest (map proj0 A).
  Proof.
    induction rest as [|g rest IH]; intros A s Hrest HS; cbn [fold_left].
    - exists A. split; [exact HS | reflexivity].
    - destruct (sim2_step_t A s g (Hrest g (or_introl eq_refl)) HS) as [A1 [HS1 HA1]].
      destruct (IH A1 (eps_step_t T D off x s g) (fun g' Hg' => Hrest g' (or_intror Hg')) HS1) as [A2 [HS2 HA2]].
      exists A2. split; [exact HS2|]. rewrite HA2, HA1. reflexivity.
  Qed.

  Lemma sim2_nil_t : Sim2_t [] (St [] [] []).
  Proof.
    constructor; cbn [s_pos s_dict s_heap map].
    - reflexivity.
    - intros e [].
    - constructor.
    - constructor.
    - intros e [].
    - intros t i [].
    - intros e [].
  Qed.

  (* the representative of a position: the image of x under the first operation attributed to it *)
  Definition rep_of_t (l : list symop) : v3 := img D (hd ident l) off x.

  Theorem expand_eps_near_special_t :
    let '(pos0, ops0, m0) := expand_exact D G off x0 in
    expand_eps_t T D G off x = (map rep_of_t ops0, ops0, m0).
  Proof.
    unfold expand_exact, expand_eps_t, expand_steps.
    destruct (sim2_fold_t G [] (St [] [] []) (fun g H => H) sim2_nil_t) as [A [HS HA]].
    cbn [map] in HA. unfold im0 in HA.
    set (s := fold_left (eps_step_t T D off x) G (St [] [] [])) in *.
    set (acc0 := fold_left (fun acc g => insert (img D g off x0) g acc) G []) in *.
    rewrite <- HA. rewrite (a_pos_t A s HS), !map_map, !map_length.
    f_equal. f_equal.
    - apply map_ext_in. intros e He. unfold rep_of_t. cbn [proj0 snd].
      destruct (a_head_t A s HS e He) as [g0 [l [Ho [_ [Hr _]]]]]. rewrite Ho. cbn [hd]. exact Hr.
    - apply map_ext_in. intros e He. cbn [proj0 snd]. unfold lookup_def.
      rewrite (sim2_rep_lookup_t A s e HS He). apply (a_heap_t A s HS e He).
  Qed.
End NearT.
