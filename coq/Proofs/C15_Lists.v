(* C15 - list-level facts: the index list, counting, no duplicates, the two-step re-indexing. *)
From Coq Require Import ZArith List Bool Lia Permutation PeanoNat.
From DS Require Import Gen.C15_Spec.
Import ListNotations.

Lemma nodup_app {A} (l1 l2 : list A) : NoDup l1 -> NoDup l2 -> (forall x, In x l1 -> ~ In x l2) -> NoDup (l1 ++ l2).
Proof.
  induction l1 as [|a l1 IH]; intros H1 H2 H; [exact H2|]. inversion H1; subst. cbn. constructor.
  - intros Hin. apply in_app_or in Hin. destruct Hin as [Hin|Hin]; [contradiction | apply (H a); [left; reflexivity | exact Hin]].
  - apply IH; [assumption | assumption | intros x Hx; apply H; right; exact Hx].
Qed.

Lemma nodup_flat_map {A B} (f : A -> list B) (l : list A) :
  NoDup l -> (forall a, In a l -> NoDup (f a)) ->
  (forall a a' b, In a l -> In a' l -> In b (f a) -> In b (f a') -> a = a') -> NoDup (flat_map f l).
Proof.
  induction l as [|a l IH]; intros Hl Hf Hd; [constructor|]. inversion Hl; subst. cbn. apply nodup_app.
  - apply Hf. left; reflexivity.
  - apply IH; [assumption | intros; apply Hf; right; assumption | intros a1 a2 b H1' H2'; apply Hd; right; assumption].
  - intros b Hb Hb'. apply in_flat_map in Hb'. destruct Hb' as [a' [Ha' Hb']].
    assert (a = a') by (apply (Hd a a' b); [left; reflexivity | right; exact Ha' | exact Hb | exact Hb']). subst. contradiction.
Qed.

Lemma nodup_map_inj_in {A B} (f : A -> B) (l : list A) :
  NoDup l -> (forall x y, In x l -> In y l -> f x = f y -> x = y) -> NoDup (map f l).
Proof.
  induction l as [|a l IH]; intros Hl Hi; [constructor|]. inversion Hl; subst. cbn. constructor.
  - intros Hin. apply in_map_iff in Hin. destruct Hin as [y [E Hy]].
    assert (y = a) by (apply Hi; [right; exact Hy | left; reflexivity | exact E]). subst. contradiction.
  - apply IH; [assumption | intros x y Hx Hy; apply Hi; right; assumption].
Qed.

Lemma length_flat_map_const {A B} (f : A -> list B) (l : list A) c :
  (forall a, In a l -> length (f a) = c) -> length (flat_map f l) = length l * c.
Proof.
  induction l as [|a l IH]; intros H; [reflexivity|]. cbn. rewrite app_length, IH, H; [reflexivity | left; reflexivity | intros; apply H; right; assumption].
Qed.

(* block p of a flat_map whose pieces all have length c is the piece of the p-th element *)
Lemma flat_map_block {A B} (f : A -> list B) c (l : list A) : (forall a, length (f a) = c) ->
  forall p d, p < length l -> firstn c (skipn (p * c) (flat_map f l)) = f (nth p l d).
Proof.
  intros Hc. induction l as [|a r IH]; intros p d Hp; [cbn in Hp; lia|]. cbn [flat_map]. destruct p as [|p].
  - cbn [Nat.mul skipn nth]. rewrite <- (Hc a) at 1. rewrite firstn_app, Nat.sub_diag, firstn_all. cbn [firstn]. apply app_nil_r.
  - cbn [nth]. replace (S p * c) with (length (f a) + p * c) by (rewrite Hc; lia).
    rewrite skipn_app. replace (length (f a) + p * c - length (f a)) with (p * c) by lia.
    rewrite (skipn_all2 (f a)) by lia. cbn [app]. apply IH. cbn in Hp. lia.
Qed.

(* ---- the generated index list ---- *)
Lemma ijk_in l m n i j k : In (i, j, k) (c15_ijklist l m n) <-> i < l /\ j < m /\ k < n.
Proof.
  unfold c15_ijklist. split.
  - intros H. apply in_flat_map in H. destruct H as [a [Ha H]]. apply in_flat_map in H. destruct H as [b [Hb H]].
    apply in_map_iff in H. destruct H as [c [E Hc]]. apply in_seq in Ha, Hb, Hc. inversion E; subst. lia.
  - intros [Hi [Hj Hk]]. apply in_flat_map. exists i. split; [apply in_seq; lia|]. apply in_flat_map. exists j. split; [apply in_seq; lia|].
    apply in_map_iff. exists k. split; [reflexivity | apply in_seq; lia].
Qed.

Lemma ijk_in_t l m n t : In t (c15_ijklist l m n) <-> fst (fst t) < l /\ snd (fst t) < m /\ snd t < n.
Proof. destruct t as [[i j] k]. apply ijk_in. Qed.

Lemma ijk_nodup l m n : NoDup (c15_ijklist l m n).
Proof.
  unfold c15_ijklist. apply nodup_flat_map; [apply seq_NoDup | |].
  - intros a _. apply nodup_flat_map; [apply seq_NoDup | |].
    + intros b _. apply nodup_map_inj_in; [apply seq_NoDup | intros x y _ _ E; inversion E; reflexivity].
    + intros b b' t _ _ H1 H2. apply in_map_iff in H1, H2. destruct H1 as [c [E1 _]], H2 as [c' [E2 _]]. subst t. inversion E2; reflexivity.
  - intros a a' t _ _ H1 H2. apply in_flat_map in H1, H2. destruct H1 as [b [_ H1]], H2 as [b' [_ H2]].
    apply in_map_iff in H1, H2. destruct H1 as [c [E1 _]], H2 as [c' [E2 _]]. subst t. inversion E2; reflexivity.
Qed.

Lemma ijk_length l m n : length (c15_ijklist l m n) = l * m * n.
Proof.
  unfold c15_ijklist. rewrite (length_flat_map_const _ _ (m * n)).
  - rewrite seq_length. lia.
  - intros a _. rewrite (length_flat_map_const _ _ n); [rewrite seq_length; reflexivity|].
    intros b _. rewrite map_length, seq_length. reflexivity.
Qed.

(* ---- re-indexing of a two-step expansion ---- *)
Definition prod_list {A B} (l : list A) (l' : list B) : list (A * B) := flat_map (fun x => map (fun y => (x, y)) l') l.
Lemma prod_in {A B} (l : list A) (l' : list B) x y : In (x, y) (prod_list l l') <-> In x l /\ In y l'.
Proof.
  unfold prod_list. split.
  - intros H. apply in_flat_map in H. destruct H as [a [Ha H]]. apply in_map_iff in H. destruct H as [b [E Hb]]. inversion E; subst. split; assumption.
  - intros [Hx Hy]. apply in_flat_map. exists x. split; [exact Hx|]. apply in_map_iff. exists y. split; [reflexivity | exact Hy].
Qed.
Lemma prod_nodup {A B} (l : list A) (l' : list B) : NoDup l -> NoDup l' -> NoDup (prod_list l l').
Proof.
  intros H H'. unfold prod_list. apply nodup_flat_map; [exact H | |].
  - intros a _. apply nodup_map_inj_in; [exact H' | intros x y _ _ E; inversion E; reflexivity].
  - intros a a' t _ _ H1 H2. apply in_map_iff in H1, H2. destruct H1 as [c [E1 _]], H2 as [c' [E2 _]]. subst t. inversion E2; reflexivity.
Qed.

(* (i1, j1, k1) of the first step and (i2, j2, k2) of the second step name the cell (i1 + l1*i2, ...) of the one-step block *)
Definition reindex (l1 m1 n1 : nat) (t : (nat * nat * nat) * (nat * nat * nat)) : nat * nat * nat :=
  let '((i1, j1, k1), (i2, j2, k2)) := t in (i1 + l1 * i2, j1 + m1 * j2, k1 + n1 * k2).

Lemma mix_lt a b x y : x < a -> y < b -> x + a * y < a * b.
Proof. intros. nia. Qed.
Lemma mix_inj a x y x' y' : x < a -> x' < a -> x + a * y = x' + a * y' -> x = x' /\ y = y'.
Proof.
  intros Hx Hx' E. assert (y = y').
  { destruct (Nat.lt_trichotomy y y') as [H|[H|H]]; [|exact H|].
    - assert (a * (y + 1) <= a * y') by (apply Nat.mul_le_mono_l; lia). lia.
    - assert (a * (y' + 1) <= a * y) by (apply Nat.mul_le_mono_l; lia). lia. }
  subst. split; [lia | reflexivity].
Qed.
Lemma mix_surj a b z : 0 < a -> z < a * b -> exists x y, x < a /\ y < b /\ z = x + a * y.
Proof.
  intros Ha Hz. exists (z mod a), (z / a). split; [apply Nat.mod_upper_bound; lia|]. split.
  - apply Nat.div_lt_upper_bound; lia.
  - pose proof (Nat.div_mod z a). lia.
Qed.

Lemma reindex_perm l1 m1 n1 l2 m2 n2 : 0 < l1 -> 0 < m1 -> 0 < n1 ->
  Permutation (map (reindex l1 m1 n1) (prod_list (c15_ijklist l1 m1 n1) (c15_ijklist l2 m2 n2)))
              (c15_ijklist (l1 * l2) (m1 * m2) (n1 * n2)).
Proof.
  intros Hl Hm Hn. apply NoDup_Permutation.
  - apply nodup_map_inj_in; [apply prod_nodup; apply ijk_nodup|].
    intros [[[i1 j1] k1] [[i2 j2] k2]] [[[i1' j1'] k1'] [[i2' j2'] k2']] H H' E.
    apply prod_in in H, H'. destruct H as [A B], H' as [A' B']. apply ijk_in in A, B, A', B'. cbn in E. inversion E.
    destruct (mix_inj l1 i1 i2 i1' i2') as [? ?]; try lia. destruct (mix_inj m1 j1 j2 j1' j2') as [? ?]; try lia.
    destruct (mix_inj n1 k1 k2 k1' k2') as [? ?]; try lia. subst. reflexivity.
  - apply ijk_nodup.
  - intros [[i j] k]. rewrite ijk_in, in_map_iff. split.
    + intros [[[[i1 j1] k1] [[i2 j2] k2]] [E H]]. apply prod_in in H. destruct H as [A B]. apply ijk_in in A, B. cbn in E. inversion E; subst.
      repeat split; apply mix_lt; lia.
    + intros [Hi [Hj Hk]].
      destruct (mix_surj l1 l2 i Hl Hi) as [i1 [i2 [? [? ?]]]]. destruct (mix_surj m1 m2 j Hm Hj) as [j1 [j2 [? [? ?]]]].
      destruct (mix_surj n1 n2 k Hn Hk) as [k1 [k2 [? [? ?]]]].
      exists ((i1, j1, k1), (i2, j2, k2)). split; [cbn; subst; reflexivity|]. apply prod_in. split; apply ijk_in; lia.
Qed.
