(* C20 - concrete instances: the hypotheses of every theorem are satisfiable, and the witnesses
   showing which assumptions about the library and the arguments the property text needs. *)
From Coq Require Import List ZArith Bool Ascii String Lia.
From DS Require Import Model.C20_Cli Gen.C20_CliSpec Proofs.C20_Strings Proofs.C20_Table Proofs.C20_Theorems.
Import ListNotations.
Open Scope string_scope.

Definition W0 : world :=
  mkworld "2 atoms from stdin" (fs_one "in.xyz" (FsFile "2 atoms")) "USAGE" "BRIEF" "VERSION".
Definition Wmissing : world :=
  mkworld "" (fun f => FsError ("[Errno 2] No such file or directory: '" ++ f ++ "'") "No such file or directory")
          "USAGE" "BRIEF" "VERSION".

Definition Lok : library := lib_one "in.xyz" "2 atoms" "xyz" ("", Ok "S") "S" "cif" ("", Ok ("data_S" ++ nl)).
Definition Lstdin : library := lib_one "-" "2 atoms from stdin" "xyz" ("", Ok "S") "S" "cif" ("", Ok ("data_S" ++ nl)).
Definition sfe (msg : string) : exn := mkexn KStructureFormatError msg None.
Definition Lbad : library := lib_const ("", Raise (sfe "3: invalid XYZ format, expected 4 columns")) ("", Ok "unused").
Definition Lwritebad : library := lib_const ("", Ok "S") ("", Raise (sfe "cannot convert empty structure to XCFG format")).
Definition Lunsupported : library :=
  lib_const ("", Raise (mkexn KNotImplementedError "4: reading of DISCUS record 'molecule' is not implemented." None)) ("", Ok "unused").

(* ------------------------------------------------------------------ runs of the generated program *)
Example run_file : main cli_spec ["xyz..cif"; "in.xyz"] W0 Lok = mkres ("data_S" ++ nl) "" 0%Z None.
Proof. vm_compute. reflexivity. Qed.

Example run_stdin : main cli_spec ["xyz..cif"; "-"] W0 Lstdin = mkres ("data_S" ++ nl) "" 0%Z None.
Proof. vm_compute. reflexivity. Qed.

Example run_extra_args_ignored : main cli_spec ["xyz..cif"; "in.xyz"; "more"] W0 Lok = mkres ("data_S" ++ nl) "" 0%Z None.
Proof. vm_compute. reflexivity. Qed.

Example run_help_abbreviated : main cli_spec ["--he"; "xyz..cif"] W0 Lok = mkres "USAGE" "" 0%Z None.
Proof. vm_compute. reflexivity. Qed.

Example run_version_cluster : main cli_spec ["-Vh"] W0 Lok = mkres "VERSION" "" 0%Z None.
Proof. vm_compute. reflexivity. Qed.

Example run_unknown_option : main cli_spec ["-x"] W0 Lok = mkres "" ("option -x not recognized" ++ nl) 2%Z None.
Proof. vm_compute. reflexivity. Qed.

Example run_terminator : main cli_spec ["--"; "-h"] W0 Lok =
  mkres "" ("invalid format specification '-h' does not contain .." ++ nl) 2%Z None.
Proof. vm_compute. reflexivity. Qed.

Example run_file_named_like_option : r_status (main cli_spec ["xyz..cif"; "-h"] Wmissing Lok) = 1%Z.
Proof. vm_compute. reflexivity. Qed.

Example run_three_dots : main cli_spec ["cif...xyz"; "f"] W0 Lok = mkres "" ("'.xyz' is not valid output format" ++ nl) 2%Z None.
Proof. vm_compute. reflexivity. Qed.

Example run_auto_is_no_output_format : r_status (main cli_spec ["cif..auto"; "f"] W0 Lok) = 2%Z.
Proof. vm_compute. reflexivity. Qed.

(* "no arguments at all" is the usage case (status 0), not the "missing file argument" case *)
Example run_no_arguments : main cli_spec [] W0 Lok = mkres "BRIEF" "" 0%Z None.
Proof. vm_compute. reflexivity. Qed.

(* ------------------------------------------------------------------ hypotheses are satisfiable *)
Example ok_hypotheses : In "xyz" input_formats /\ In "cif" output_formats /\
  lib_convert W0 Lok "in.xyz" "xyz" "cif" = ("", Ok ("data_S" ++ nl)).
Proof. repeat split; vm_compute; auto 10. Qed.

Example ok_stdin_hypotheses : lib_convert W0 Lstdin "-" "xyz" "cif" = ("", Ok ("data_S" ++ nl)).
Proof. vm_compute. reflexivity. Qed.

Example bad_spec_hypotheses : GO ["foo..xyz"; "in.xyz"] = GOk [] ["foo..xyz"; "in.xyz"] /\ first_info [] = None /\
  spec_ok cli_spec "foo..xyz" = false /\ no_nl "foo..xyz" = true /\ spec_ok cli_spec "cifxyz" = false /\
  spec_ok cli_spec "cif..auto" = false /\ spec_ok cli_spec "..xyz" = false /\ spec_ok cli_spec "a..b..c" = false.
Proof. repeat split; vm_compute; reflexivity. Qed.

Example missing_file_hypotheses : GO ["cif..xyz"] = GOk [] ["cif..xyz"] /\ spec_ok cli_spec "cif..xyz" = true.
Proof. split; vm_compute; reflexivity. Qed.

Example unreadable_hypotheses : GO ["cif..xyz"; "nofile"] = GOk [] ["cif..xyz"; "nofile"] /\
  split_first ".." "cif..xyz" = Some ("cif", "xyz") /\ String.eqb "nofile" "-" = false /\
  w_fs Wmissing "nofile" = FsError "[Errno 2] No such file or directory: 'nofile'" "No such file or directory" /\
  reports (main cli_spec ["cif..xyz"; "nofile"] Wmissing Lok) "" 1%Z.
Proof.
  repeat split; try (vm_compute; reflexivity).
  exists "nofile: No such file or directory". repeat split; try (vm_compute; reflexivity). discriminate.
Qed.

Example bad_content_hypotheses :
  lib_convert W0 Lbad "in.xyz" "xyz" "cif" = ("", Raise (sfe "3: invalid XYZ format, expected 4 columns")) /\
  content_kind KStructureFormatError = true /\
  lib_convert W0 Lwritebad "in.xyz" "xyz" "xcfg" = ("", Raise (sfe "cannot convert empty structure to XCFG format")) /\
  r_status (main cli_spec ["xyz..xcfg"; "in.xyz"] W0 Lwritebad) = 1%Z /\
  main cli_spec ["discus..xyz"; "in.xyz"] W0 Lunsupported =
    mkres "" ("in.xyz: 4: reading of DISCUS record 'molecule' is not implemented." ++ nl) 1%Z None.
Proof. repeat split; vm_compute; reflexivity. Qed.

Lemma lib_const_raises_only : forall (P : ekind -> bool) rd wr,
  (forall e, snd rd = Raise e -> P (e_kind e) = true) -> (forall e, snd wr = Raise e -> P (e_kind e) = true) ->
  raises_only P (lib_const rd wr).
Proof. intros P rd wr H1 H2. repeat split; cbn; intros; auto. Qed.

Ltac const_raises := apply lib_const_raises_only; cbn; intros e H; inversion H; reflexivity.
Ltac const_quiet := repeat split; intros; reflexivity.

Example documented_library_exists : raises_only documented_kind Lbad /\ raises_only documented_kind Lunsupported /\ quiet Lbad.
Proof. split; [const_raises | split; [const_raises | const_quiet]]. Qed.

(* ------------------------------------------------------------------ what the text needs from the library *)
(* an exception of another kind escaping the library ends in a traceback *)
Definition Lescape : library := lib_const ("", Raise (other "TypeError")) ("", Ok "unused").

Lemma traceback_when_library_escapes : exists argv W L,
  r_tb (main cli_spec argv W L) = Some "TypeError" /\ r_status (main cli_spec argv W L) = 1%Z.
Proof. exists ["xcfg..xyz"; "in.xyz"], W0, Lescape. split; vm_compute; reflexivity. Qed.

(* a format error whose text has several lines (the `auto` parser lists one line per format tried) *)
Definition Lauto : library :=
  lib_const ("", Raise (sfe ("Unknown or invalid structure format." ++ nl ++ "Errors per each tested structure format:"))) ("", Ok "unused").

Lemma multiline_message_not_one_line : exists argv W L,
  raises_only documented_kind L /\ quiet L /\ r_status (main cli_spec argv W L) = 1%Z /\
  ~ one_line (r_err (main cli_spec argv W L)).
Proof.
  exists ["auto..xyz"; "in.xyz"], W0, Lauto. split; [const_raises | split; [const_quiet | split]].
  - vm_compute. reflexivity.
  - intro H. apply one_line_b in H. vm_compute in H. discriminate.
Qed.

(* a library that prints while failing (PyCifRW's syntax error banner) pollutes standard output *)
Definition Lnoisy : library :=
  lib_const ("SYNTAX ERROR AT LINE 4 WHEN PARSING INPUT FILE::" ++ nl, Raise (sfe "Star Format error")) ("", Ok "unused").

Lemma noisy_library_pollutes_stdout : exists argv W L,
  raises_only documented_kind L /\ r_status (main cli_spec argv W L) = 1%Z /\ r_out (main cli_spec argv W L) <> "".
Proof.
  exists ["cif..xyz"; "in.xyz"], W0, Lnoisy. split; [const_raises | split].
  - vm_compute. reflexivity.
  - vm_compute. discriminate.
Qed.

(* an argument containing a newline is echoed into the message *)
Lemma newline_in_argument_not_one_line : exists argv W L,
  r_status (main cli_spec argv W L) = 2%Z /\ ~ one_line (r_err (main cli_spec argv W L)).
Proof.
  exists [("a" ++ nl ++ "b..xyz"); "in.xyz"], W0, Lok. split.
  - vm_compute. reflexivity.
  - intro H. apply one_line_b in H. vm_compute in H. discriminate.
Qed.
