(* C04 - cif (partial): the records of the CIF writer read back through the setters of the CIF reader.
   Proved: the cell record, the atom_site row and the aniso row (tokens -> values at the printed precision, element
   capitalised, position reduced into the cell).  Not proved: the composition through the layout tokenizer for whole files
   (tied to PyCifRW and to the implementation by correspondence on every generated text). *)
From Coq Require Import List Bool Arith NArith ZArith Lia.
From Coq Require Import Ascii.
From DS Require Import Base.C04_Text Base.C04_Decimal Model.C04_Fmt Gen.C04_FmtSpecs Model.C04_Xyz Model.C04_Pdffit Model.C04_Pdb Model.C04_Cif.
From DS Require Import Proofs.C04_Fmt Proofs.C04_GenIdem Proofs.C04_Xyz Proofs.C04_Lines Proofs.C04_Pdffit.
Import ListNotations.

Lemma leading_float_fix dflt p d : leading_float dflt (fix_body p d) = Some (dq p d).
Proof.
  unfold leading_float. destruct (fix_body_token p d) as [T1 T2].
  assert (strip (fix_body p d) = fix_body p d) as -> by (apply strip_id; [apply no_ws_starts|apply no_ws_ends]; exact T1).
  pose proof (fix_body_parse p d) as P.
  destruct (str_eqb (fix_body p d) ["."%char]) eqn:E1; [apply str_eqb_eq in E1; rewrite E1 in P; vm_compute in P; discriminate|].
  destruct (str_eqb (fix_body p d) ["?"%char]) eqn:E2; [apply str_eqb_eq in E2; rewrite E2 in P; vm_compute in P; discriminate|].
  change (s (String.String "." String.EmptyString)) with ["."%char]. change (s (String.String "?" String.EmptyString)) with ["?"%char].
  rewrite E1, E2. exact P.
Qed.

Local Opaque fix_body int_body lpad rpad parse_float parse_int strip lstrip rstrip print_gen leading_float.

Definition site_cols : list str := map (fun h => hd [] (split_ws h)) (tl cif_w_site_header).
Definition aniso_cols : list str := map (fun h => hd [] (split_ws h)) (tl cif_w_aniso_header).

(* the atom_site row *)
Theorem roundtrip_cif_atom_row_partial lab a l : str_tok_ok lab = true -> str_tok_ok (f_el a) = true -> atom_row lab a = Some l ->
  site_atom site_cols (split_ws l) =
  Some (GAtom lab (capitalize (f_el a))
              (let '(x, y, z) := q3 cif_w_atom 0 (f_xyz a) in (in_cell x, in_cell y, in_cell z))
              (dq (fprec cif_w_atom 3) (f_uiso a)) (f_aniso a) (dq (fprec cif_w_atom 4) (f_occ a)) []).
Proof.
  intros Hl He. destruct a as [el [[x y] z] u an occ U]. cbn [f_el f_xyz f_uiso f_aniso f_occ f_u] in *. unfold atom_row.
  cbn [f_el f_xyz f_uiso f_aniso f_occ args3 app].
  assert (str_tok_ok (adp_type (FAtom el (x, y, z) u an occ U)) = true) as Ht by (unfold adp_type; cbn [f_aniso]; destruct an; reflexivity).
  set (ty := adp_type (FAtom el (x, y, z) u an occ U)) in *.
  assert (forallb arg_ok [AStr lab; AStr el; ANum x; ANum y; ANum z; ANum u; AStr ty; ANum occ] = true) as Ha
    by (cbn [forallb arg_ok]; rewrite Hl, He, Ht; reflexivity).
  intros E. pose proof (render_split cif_w_atom _ l eq_refl Ha E) as T. cbn in T. injection T as T. rewrite <- T.
  unfold site_atom. let v := eval vm_compute in site_cols in change site_cols with v.
  cbn [col str_eqb Ascii.eqb Bool.eqb andb s String.list_ascii_of_string].
  rewrite !leading_float_fix. unfold ty, adp_type. cbn [f_aniso q3]. destruct an; reflexivity.
Qed.

(* the cell record *)
Theorem roundtrip_cif_cell_record_partial k v l : str_tok_ok k = true -> render cif_w_cell [AStr k; ANum v] = Some l ->
  exists b, split_ws l = [k; b] /\ parse_float b = gq (gprec cif_w_cell 0) v /\ gq (gprec cif_w_cell 0) v <> None.
Proof.
  intros Hk E. assert (forallb arg_ok [AStr k; ANum v] = true) as Ha by (cbn [forallb arg_ok]; rewrite Hk; reflexivity).
  pose proof (render_split cif_w_cell _ l eq_refl Ha E) as T. cbn in T, E.
  destruct (print_gen 6 v) as [b|] eqn:Eb; [|discriminate]. cbn in T. injection T as T. exists b. split; [symmetry; exact T|].
  destruct (gen_roundtrip 0 _ _ _ Eb) as [R N]. rewrite lpad0 in R. split; [exact R|exact N].
Qed.

(* the aniso row *)
Theorem roundtrip_cif_aniso_row_partial lab a l r : str_tok_ok lab = true -> aniso_row lab a = Some l -> g_label r = lab ->
  set_aniso aniso_cols (split_ws l) [r] =
  Some [GAtom (g_label r) (g_el r) (g_xyz r) (g_uiso r) (g_aniso r) (g_occ r)
              (let '((u1, u2, u3), (u4, u5, u6)) := q6 cif_w_aniso (f_u a) in [u1; u2; u3; u4; u5; u6])].
Proof.
  intros Hl E Hr. destruct a as [el xyz u an occ [[[u1 u2] u3] [[u4 u5] u6]]]. unfold aniso_row in E. cbn [f_u args6 args3 fst snd app] in E.
  assert (forallb arg_ok [AStr lab; ANum u1; ANum u2; ANum u3; ANum u4; ANum u5; ANum u6] = true) as Ha
    by (cbn [forallb arg_ok]; rewrite Hl; reflexivity).
  pose proof (render_split cif_w_aniso _ l eq_refl Ha E) as T. cbn in T. injection T as T. rewrite <- T.
  unfold set_aniso. let v := eval vm_compute in aniso_cols in change aniso_cols with v.
  cbn [col str_eqb Ascii.eqb Bool.eqb andb s String.list_ascii_of_string]. rewrite Hr, str_eqb_refl.
  cbn [map_opt col str_eqb Ascii.eqb Bool.eqb andb s String.list_ascii_of_string]. rewrite !leading_float_fix. reflexivity.
Qed.
