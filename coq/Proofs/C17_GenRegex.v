(* C17 - the numeric reader's patterns, regenerated from p_cif.py: numeric characters only, and agreement with the
   reference recogniser "sum of signed numbers / fractions" on all probe strings up to length 6. *)
From Coq Require Import NArith List Bool.
From DS Require Import Model.C17_Regex Proofs.C17_RegexSound Gen.C17_SymopRegex.
Import ListNotations.
Open Scope N_scope.

Lemma gen_translation_numeric_b : numeric_only gen_rx_translation = true.
Proof. vm_compute. reflexivity. Qed.
Lemma gen_term_numeric_b : numeric_only gen_rx_term = true.
Proof. vm_compute. reflexivity. Qed.

Lemma gen_translation_numeric : forall s, rmatch gen_rx_translation s = true -> forallb num_char s = true.
Proof. intros s. apply numeric_only_sound. exact gen_translation_numeric_b. Qed.
Lemma gen_term_numeric : forall s, rmatch gen_rx_term s = true -> forallb num_char s = true.
Proof. intros s. apply numeric_only_sound. exact gen_term_numeric_b. Qed.

Lemma gen_translation_agree_b : agree 6 gen_rx_translation Q0 = true.
Proof. vm_compute. reflexivity. Qed.

Lemma gen_translation_is_number_sum_bounded : forall s, (List.length s <= 6)%nat ->
  (forall c, In c s -> In c probe_alphabet) -> rmatch gen_rx_translation s = is_number_sum s.
Proof. intros s L H. exact (agree_sound 6 gen_rx_translation Q0 gen_translation_agree_b s L H). Qed.
