(* C01: theorems about the GENERATED setLatPar / cartesian / fractional / dot / norm ... of Gen/LatFormulas.v *)
From Coq Require Import Reals Lra Lia.
From DS Require Import Base.RMat Base.Trig Model.LatDefs Model.C01_Spec Gen.LatFormulas.
Open Scope R_scope.

Definition build (a b c alpha beta gamma : R) (r : mat) : lat :=
  setLatPar lat0 (Some a) (Some b) (Some c) (Some alpha) (Some beta) (Some gamma) (Some r).

Ltac lat_simpl := cbn [l_a l_b l_c l_alpha l_beta l_gamma l_ca l_cb l_cg l_sa l_sb l_sg l_ar l_br l_cr l_alphar l_betar l_gammar
  l_car l_cbr l_cgr l_sar l_sbr l_sgr l_baserot l_base l_recbase l_normbase l_recnormbase l_metrics l_stdbase l_isotropicunit] in *.

(* replace squares by their known values, then ring *)
Ltac sq x H rhs := try (replace (x ^ 2) with rhs by (rewrite <- H; ring)).

Section Cell.
  Variables a b c alpha beta gamma : R.
  Hypothesis HC : valid_cell a b c alpha beta gamma.
  Let ca := cosd alpha. Let cb := cosd beta. Let cg := cosd gamma.
  Let sa := sind alpha. Let sb := sind beta. Let sg := sind gamma.
  Let V2 := 1 + 2 * ca * cb * cg - ca * ca - cb * cb - cg * cg.
  Let V := sqrt V2.

  Lemma Hsa : sa * sa = 1 - ca * ca. Proof. unfold sa, ca. pose proof (sc1 alpha). lra. Qed.
  Lemma Hsb : sb * sb = 1 - cb * cb. Proof. unfold sb, cb. pose proof (sc1 beta). lra. Qed.
  Lemma Hsg : sg * sg = 1 - cg * cg. Proof. unfold sg, cg. pose proof (sc1 gamma). lra. Qed.
  Lemma sa_pos : 0 < sa. Proof. apply sind_pos. apply HC. Qed.
  Lemma sb_pos : 0 < sb. Proof. apply sind_pos. apply HC. Qed.
  Lemma sg_pos : 0 < sg. Proof. apply sind_pos. apply HC. Qed.
  Lemma V2_pos : 0 < V2. Proof. exact (vc_vol _ _ _ _ _ _ HC). Qed.
  Lemma V_pos : 0 < V. Proof. apply sqrt_lt_R0. exact V2_pos. Qed.
  Lemma HV : V * V = 1 + 2 * ca * cb * cg - ca * ca - cb * cb - cg * cg.
  Proof. unfold V. rewrite sqrt_sqrt; [reflexivity | pose proof V2_pos; lra]. Qed.

  (* sine of the reciprocal angle gamma*: sqrt(1 - cgr^2) = V / (sa sb) *)
  Lemma sgr_val : sqrt (1 - ((ca * cb - cg) / (sa * sb)) * ((ca * cb - cg) / (sa * sb))) = V / (sa * sb).
  Proof.
    pose proof sa_pos. pose proof sb_pos. pose proof V_pos.
    assert (E : (V / (sa * sb)) * (V / (sa * sb)) = 1 - ((ca * cb - cg) / (sa * sb)) * ((ca * cb - cg) / (sa * sb))).
    { field_simplify_eq; [|lra]. sq V HV (1 + 2 * ca * cb * cg - ca * ca - cb * cb - cg * cg).
      sq sa Hsa (1 - ca * ca). sq sb Hsb (1 - cb * cb). ring. }
    apply sqrt_lem_1.
    - rewrite <- E. apply Rle_0_sqr.
    - apply Rlt_le. apply Rdiv_lt_0_compat; [lra | apply Rmult_lt_0_compat; lra].
    - exact E.
  Qed.
End Cell.

(* all the facts about the trigonometric atoms of a valid cell, in raw form *)
Lemma cell_facts a b c alpha beta gamma : valid_cell a b c alpha beta gamma ->
  let ca := cosd alpha in let cb := cosd beta in let cg := cosd gamma in
  let sa := sind alpha in let sb := sind beta in let sg := sind gamma in
  let V := sqrt (1 + 2 * ca * cb * cg - ca * ca - cb * cb - cg * cg) in
  0 < a /\ 0 < b /\ 0 < c /\ 0 < sa /\ 0 < sb /\ 0 < sg /\ 0 < V /\
  sa * sa = 1 - ca * ca /\ sb * sb = 1 - cb * cb /\ sg * sg = 1 - cg * cg /\
  V * V = 1 + 2 * ca * cb * cg - ca * ca - cb * cb - cg * cg.
Proof.
  intros HC. cbv zeta.
  pose proof (Hsa alpha) as H1. pose proof (Hsb beta) as H2. pose proof (Hsg gamma) as H3.
  pose proof (sa_pos a b c alpha beta gamma HC) as P1. pose proof (sb_pos a b c alpha beta gamma HC) as P2.
  pose proof (sg_pos a b c alpha beta gamma HC) as P3. pose proof (V_pos a b c alpha beta gamma HC) as P4.
  pose proof (HV a b c alpha beta gamma HC) as P5.
  destruct HC. repeat split; assumption.
Qed.

(* turn the goal into one over abstract atoms ca cb cg sa sb sg V with the facts as hypotheses *)
Ltac abstract_cell HC alpha beta gamma :=
  let F := fresh "F" in
  pose proof (cell_facts _ _ _ _ _ _ HC) as F; cbv zeta in F;
  set (ca := cosd alpha) in *; set (cb := cosd beta) in *; set (cg := cosd gamma) in *;
  set (sa := sind alpha) in *; set (sb := sind beta) in *; set (sg := sind gamma) in *;
  set (V := sqrt (1 + 2 * ca * cb * cg - ca * ca - cb * cb - cg * cg)) in *;
  destruct F as (Pa & Pb & Pc & Psa & Psb & Psg & PV & Hsa & Hsb & Hsg & HV);
  clearbody V; clearbody ca cb cg sa sb sg.

Ltac sqs := repeat match goal with
  | H : ?x * ?x = ?rhs |- context [?x ^ 2] => replace (x ^ 2) with rhs by (rewrite <- H; ring)
  end.

(* sqrt(1 - cgr^2) = V/(sa sb), in abstract form *)
Lemma sgr_abs ca cb cg sa sb V : 0 < sa -> 0 < sb -> 0 < V -> sa * sa = 1 - ca * ca -> sb * sb = 1 - cb * cb ->
  V * V = 1 + 2 * ca * cb * cg - ca * ca - cb * cb - cg * cg ->
  sqrt (1 - ((ca * cb - cg) / (sa * sb)) * ((ca * cb - cg) / (sa * sb))) = V / (sa * sb).
Proof.
  intros Psa Psb PV Hsa Hsb HV.
  assert (E : (V / (sa * sb)) * (V / (sa * sb)) = 1 - ((ca * cb - cg) / (sa * sb)) * ((ca * cb - cg) / (sa * sb))).
  { field_simplify_eq; [|lra]. sqs. ring. }
  apply sqrt_lem_1.
  - rewrite <- E. apply Rle_0_sqr.
  - apply Rlt_le. apply Rdiv_lt_0_compat; [lra | apply Rmult_lt_0_compat; lra].
  - exact E.
Qed.

Ltac fix_sgr := match goal with
  | Psa : 0 < ?sa, Psb : 0 < ?sb, PV : 0 < ?V, Hsa : ?sa * ?sa = 1 - ?ca * ?ca, Hsb : ?sb * ?sb = 1 - ?cb * ?cb,
    HV : ?V * ?V = 1 + 2 * ?ca * ?cb * ?cg - ?ca * ?ca - ?cb * ?cb - ?cg * ?cg |- context [sqrt ?x] =>
      replace (sqrt x) with (V / (sa * sb))
        by (rewrite <- (sgr_abs ca cb cg sa sb V Psa Psb PV Hsa Hsb HV); f_equal; field; lra)
  end.

Theorem stdbase_gram a b c alpha beta gamma r : valid_cell a b c alpha beta gamma ->
  let L := build a b c alpha beta gamma r in mmul (l_stdbase L) (mT (l_stdbase L)) = l_metrics L.
Proof.
  intros HC. unfold build, setLatPar; cbv zeta; lat_simpl.
  abstract_cell HC alpha beta gamma. fix_sgr.
  apply mat_eq; rm_simpl; field_simplify_eq; try (repeat split; lra); sqs; ring.
Qed.

(* ---- plain Euclidean geometry on Cartesian vectors ---- *)
Definition enorm (v : vec) : R := sqrt (vdot v v).
Definition edist (u v : vec) : R := enorm (vsub u v).

Lemma vsum_vhad u v : vsum (vhad u v) = vdot u v.
Proof. dvec u; dvec v; unfold vsum, vhad; rm_simpl; ring. Qed.

Lemma base_is L a b c alpha beta gamma r : L = build a b c alpha beta gamma r -> l_base L = mmul (l_stdbase L) r.
Proof. intros ->. reflexivity. Qed.

Theorem base_gram a b c alpha beta gamma r : valid_cell a b c alpha beta gamma -> proper_rot r ->
  let L := build a b c alpha beta gamma r in mmul (l_base L) (mT (l_base L)) = l_metrics L.
Proof.
  intros HC [Hr _]. cbv zeta.
  rewrite (base_is _ a b c alpha beta gamma r eq_refl), mT_mmul, mmul_assoc, <- (mmul_assoc r), Hr, mmul_I_l.
  exact (stdbase_gram a b c alpha beta gamma r HC).
Qed.

Theorem det_stdbase a b c alpha beta gamma r : valid_cell a b c alpha beta gamma ->
  let L := build a b c alpha beta gamma r in det (l_stdbase L) = a * b * c * sqrt (vol2 alpha beta gamma).
Proof.
  intros HC. unfold build, setLatPar, vol2; cbv zeta; lat_simpl.
  abstract_cell HC alpha beta gamma. fix_sgr. rm_simpl. field. repeat split; lra.
Qed.

Theorem det_base a b c alpha beta gamma r : valid_cell a b c alpha beta gamma -> proper_rot r ->
  let L := build a b c alpha beta gamma r in det (l_base L) = a * b * c * sqrt (vol2 alpha beta gamma) /\ 0 < det (l_base L).
Proof.
  intros HC [_ Hd]. cbv zeta. rewrite (base_is _ a b c alpha beta gamma r eq_refl), det_mmul, Hd, Rmult_1_r.
  rewrite (det_stdbase a b c alpha beta gamma r HC). split; [reflexivity|].
  destruct HC as [Ha Hb Hc _ _ _ Hv]. apply sqrt_lt_R0 in Hv.
  repeat apply Rmult_lt_0_compat; assumption.
Qed.

Theorem volume_is_det a b c alpha beta gamma r : valid_cell a b c alpha beta gamma -> proper_rot r ->
  let L := build a b c alpha beta gamma r in L_volume L = det (l_base L) /\ L_unitvolume L = sqrt (vol2 alpha beta gamma).
Proof.
  intros HC HR. cbv zeta. destruct (det_base a b c alpha beta gamma r HC HR) as [E _]. rewrite E.
  unfold L_volume, L_unitvolume, build, setLatPar, vol2; cbv zeta; lat_simpl. split; reflexivity.
Qed.

(* recbase is the two-sided inverse of base *)
Theorem recbase_inverse a b c alpha beta gamma r : valid_cell a b c alpha beta gamma -> proper_rot r ->
  let L := build a b c alpha beta gamma r in mmul (l_base L) (l_recbase L) = I /\ mmul (l_recbase L) (l_base L) = I.
Proof.
  intros HC HR. cbv zeta. destruct (det_base a b c alpha beta gamma r HC HR) as [_ P].
  assert (E : l_recbase (build a b c alpha beta gamma r) = minv (l_base (build a b c alpha beta gamma r))) by reflexivity.
  rewrite E. split; [apply minv_r | apply minv_l]; lra.
Qed.

Theorem frac_cart_id a b c alpha beta gamma r u : valid_cell a b c alpha beta gamma -> proper_rot r ->
  let L := build a b c alpha beta gamma r in L_fractional L (L_cartesian L u) = u.
Proof.
  intros HC HR. cbv zeta. destruct (recbase_inverse a b c alpha beta gamma r HC HR) as [E _].
  unfold L_fractional, L_cartesian. rewrite vmul_mmul, E. apply vmul_I.
Qed.
Theorem cart_frac_id a b c alpha beta gamma r x : valid_cell a b c alpha beta gamma -> proper_rot r ->
  let L := build a b c alpha beta gamma r in L_cartesian L (L_fractional L x) = x.
Proof.
  intros HC HR. cbv zeta. destruct (recbase_inverse a b c alpha beta gamma r HC HR) as [_ E].
  unfold L_fractional, L_cartesian. rewrite vmul_mmul, E. apply vmul_I.
Qed.

(* lattice-coordinate quantities equal plain Euclidean quantities of the Cartesian images *)
Lemma dot_gram_gen (L : lat) u v : mmul (l_base L) (mT (l_base L)) = l_metrics L ->
  L_dot L u v = vdot (L_cartesian L u) (L_cartesian L v).
Proof.
  intros G. unfold L_dot, L_cartesian. rewrite vsum_vhad, <- G.
  destruct (l_base L) as [b11 b12 b13 b21 b22 b23 b31 b32 b33]. dvec u; dvec v. rm_simpl. ring.
Qed.
Theorem dot_is_euclid a b c alpha beta gamma r u v : valid_cell a b c alpha beta gamma -> proper_rot r ->
  let L := build a b c alpha beta gamma r in L_dot L u v = vdot (L_cartesian L u) (L_cartesian L v).
Proof. intros HC HR. cbv zeta. apply dot_gram_gen. exact (base_gram a b c alpha beta gamma r HC HR). Qed.

Theorem norm_is_euclid (L : lat) x : L_norm L x = enorm (L_cartesian L x).
Proof. unfold L_norm, enorm, L_cartesian. rewrite vsum_vhad. reflexivity. Qed.
Theorem dist_is_euclid (L : lat) u v : L_dist L u v = edist (L_cartesian L u) (L_cartesian L v).
Proof. unfold L_dist, edist, enorm, L_cartesian. rewrite vsum_vhad, vmul_vsub. reflexivity. Qed.
Theorem angle_cos_is_euclid a b c alpha beta gamma r u v : valid_cell a b c alpha beta gamma -> proper_rot r ->
  let L := build a b c alpha beta gamma r in
  L_angle_cos L u v = vdot (L_cartesian L u) (L_cartesian L v) / (enorm (L_cartesian L u) * enorm (L_cartesian L v)).
Proof.
  intros HC HR. cbv zeta. pose proof (dot_is_euclid a b c alpha beta gamma r u v HC HR) as D. cbv zeta in D.
  unfold L_angle_cos. fold (L_dot (build a b c alpha beta gamma r) u v). rewrite D.
  unfold enorm, L_cartesian. rewrite !vsum_vhad. reflexivity.
Qed.
(* reciprocal-vector norm: hkl -> h a* + k b* + l c*, with a*,b*,c* the columns of recbase, dual to the rows of base *)
Theorem rnorm_is_euclid (L : lat) hkl : L_rnorm L hkl = enorm (mvmul (l_recbase L) hkl).
Proof. unfold L_rnorm, enorm. rewrite vsum_vhad, <- mvmul_mT, mT_mT. reflexivity. Qed.
Theorem recbase_dual a b c alpha beta gamma r : valid_cell a b c alpha beta gamma -> proper_rot r ->
  let L := build a b c alpha beta gamma r in
  vdot (row1 (l_base L)) (col1 (l_recbase L)) = 1 /\ vdot (row1 (l_base L)) (col2 (l_recbase L)) = 0 /\ vdot (row1 (l_base L)) (col3 (l_recbase L)) = 0 /\
  vdot (row2 (l_base L)) (col1 (l_recbase L)) = 0 /\ vdot (row2 (l_base L)) (col2 (l_recbase L)) = 1 /\ vdot (row2 (l_base L)) (col3 (l_recbase L)) = 0 /\
  vdot (row3 (l_base L)) (col1 (l_recbase L)) = 0 /\ vdot (row3 (l_base L)) (col2 (l_recbase L)) = 0 /\ vdot (row3 (l_base L)) (col3 (l_recbase L)) = 1.
Proof.
  intros HC HR. cbv zeta. destruct (recbase_inverse a b c alpha beta gamma r HC HR) as [E _].
  set (B := l_base _) in *. set (Rb := l_recbase _) in *. clearbody B Rb.
  destruct B as [b11 b12 b13 b21 b22 b23 b31 b32 b33]. destruct Rb as [r11 r12 r13 r21 r22 r23 r31 r32 r33].
  unfold mmul, I in E. cbn [a11 a12 a13 a21 a22 a23 a31 a32 a33] in E. injection E as E1 E2 E3 E4 E5 E6 E7 E8 E9.
  rm_simpl. repeat split; assumption.
Qed.

(* the base vectors have exactly the lengths and mutual angles given by the six cell parameters *)
Theorem base_lengths_angles a b c alpha beta gamma r : valid_cell a b c alpha beta gamma -> proper_rot r ->
  let L := build a b c alpha beta gamma r in
  enorm (row1 (l_base L)) = a /\ enorm (row2 (l_base L)) = b /\ enorm (row3 (l_base L)) = c /\
  vdot (row2 (l_base L)) (row3 (l_base L)) = b * c * cosd alpha /\
  vdot (row1 (l_base L)) (row3 (l_base L)) = a * c * cosd beta /\
  vdot (row1 (l_base L)) (row2 (l_base L)) = a * b * cosd gamma.
Proof.
  intros HC HR. cbv zeta. pose proof (base_gram a b c alpha beta gamma r HC HR) as G. cbv zeta in G.
  assert (M : l_metrics (build a b c alpha beta gamma r) =
     M (a * a) (a * b * cosd gamma) (a * c * cosd beta) (b * a * cosd gamma) (b * b) (b * c * cosd alpha)
       (c * a * cosd beta) (c * b * cosd alpha) (c * c)) by (unfold build, setLatPar; cbv zeta; cbn [l_metrics]; f_equal; ring).
  rewrite M in G. set (B := l_base _) in *. clearbody B. destruct B as [b11 b12 b13 b21 b22 b23 b31 b32 b33].
  unfold mmul, mT in G. cbn [a11 a12 a13 a21 a22 a23 a31 a32 a33] in G. injection G as G1 G2 G3 G4 G5 G6 G7 G8 G9.
  destruct HC as [Ha Hb Hc _ _ _ _].
  unfold enorm. rm_simpl. repeat split.
  - rewrite G1. apply sqrt_square. lra.
  - rewrite G5. apply sqrt_square. lra.
  - rewrite G9. apply sqrt_square. lra.
  - rewrite G6. reflexivity.
  - rewrite G3. reflexivity.
  - rewrite G2. reflexivity.
Qed.

Theorem metrics_sym a b c alpha beta gamma r : let L := build a b c alpha beta gamma r in mT (l_metrics L) = l_metrics L.
Proof. cbv zeta. unfold build, setLatPar; cbv zeta; lat_simpl. apply mat_eq; rm_simpl; ring. Qed.

(* ---- the table of exact cosines and the degree reduction x % 360 ---- *)
Lemma cos_period_Z x k : cos (x + 2 * IZR k * PI) = cos x.
Proof.
  destruct (Z_le_gt_dec 0 k) as [Hk|Hk].
  - rewrite <- (Z2Nat.id k Hk), <- INR_IZR_INZ. apply cos_period.
  - rewrite <- (cos_period (x + 2 * IZR k * PI) (Z.to_nat (- k))). f_equal.
    rewrite INR_IZR_INZ, Z2Nat.id by lia. rewrite opp_IZR. ring.
Qed.
Lemma cosd_period x k : cosd (x + 360 * IZR k) = cosd x.
Proof.
  unfold cosd. replace ((x + 360 * IZR k) * PI / 180) with (x * PI / 180 + 2 * IZR k * PI) by field.
  apply cos_period_Z.
Qed.
Lemma cosd_plus_180 x : cosd (x + 180) = - cosd x.
Proof. unfold cosd. replace ((x + 180) * PI / 180) with (x * PI / 180 + PI) by field. apply neg_cos. Qed.
Lemma cosd_240 : cosd 240 = - (1 / 2).
Proof. replace 240 with (60 + 180) by lra. rewrite cosd_plus_180, cosd_60. reflexivity. Qed.
Lemma cosd_270 : cosd 270 = 0.
Proof. replace 270 with (90 + 180) by lra. rewrite cosd_plus_180, cosd_90. lra. Qed.
Lemma cosd_300 : cosd 300 = 1 / 2.
Proof. replace 300 with (120 + 180) by lra. rewrite cosd_plus_180, cosd_120. lra. Qed.

Theorem cosd_table_exact : forall p, List.In p exact_cosd_table -> cosd (fst p) = snd p.
Proof.
  intros p H. unfold exact_cosd_table in H. cbn [List.In] in H.
  repeat (destruct H as [<-|H]; [cbn [fst snd]; first
    [ rewrite cosd_0; lra | rewrite cosd_60; lra | rewrite cosd_90; lra | rewrite cosd_120; lra
    | rewrite cosd_180; lra | rewrite cosd_240; lra | rewrite cosd_270; lra | rewrite cosd_300; lra ] |]).
  contradiction.
Qed.
Lemma cosd_table_has_8 : List.length exact_cosd_table = 8%nat.
Proof. reflexivity. Qed.

(* ---- Nx3 arrays and broadcasting: numpy applies the vector operation row by row ---- *)
Theorem frac_cart_id_rows a b c alpha beta gamma r (us : list vec) : valid_cell a b c alpha beta gamma -> proper_rot r ->
  let L := build a b c alpha beta gamma r in List.map (L_fractional L) (List.map (L_cartesian L) us) = us.
Proof.
  intros HC HR. cbv zeta. rewrite List.map_map. rewrite <- (List.map_id us) at 2. apply List.map_ext.
  intros u. exact (frac_cart_id a b c alpha beta gamma r u HC HR).
Qed.
Theorem dot_rows_is_euclid a b c alpha beta gamma r (u : vec) (vs : list vec) : valid_cell a b c alpha beta gamma -> proper_rot r ->
  let L := build a b c alpha beta gamma r in
  List.map (L_dot L u) vs = List.map (fun v => vdot (L_cartesian L u) (L_cartesian L v)) vs.
Proof. intros HC HR. cbv zeta. apply List.map_ext. intros v. exact (dot_is_euclid a b c alpha beta gamma r u v HC HR). Qed.
Theorem dist_rows_is_euclid (L : lat) (u : vec) (vs : list vec) :
  List.map (L_dist L u) vs = List.map (fun v => edist (L_cartesian L u) (L_cartesian L v)) vs.
Proof. apply List.map_ext. intros v. apply dist_is_euclid. Qed.
Theorem norm_rows_is_euclid (L : lat) (xs : list vec) : List.map (L_norm L) xs = List.map (fun x => enorm (L_cartesian L x)) xs.
Proof. apply List.map_ext. intros x. apply norm_is_euclid. Qed.
