(* C12 - the rejection table feeds the detection theorem: for the texts of the xyz, rawxyz, pdffit and discus writers
   the twelve cross cells are theorems (Proofs/C12_RejectCells.v), so `auto` returns the written format for every
   file name as soon as the text's own parser accepts it and the three remaining parsers (cif, pdb, xcfg - no
   writer/reader cells proved for them) reject it.  Also: the side condition on titles is necessary (witness). *)
From Coq Require Import List Bool Arith ZArith Lia.
From DS Require Import Base.C13_Exn Proofs.C13_ExnLemmas Gen.C12_ParserIndex Model.C12_Auto Proofs.C12_Auto.
From DS Require Import Base.C04_Text Base.C04_Decimal Model.C04_Fmt Model.C04_Xyz Model.C04_Rawxyz Model.C04_Pdffit Model.C04_Discus.
From DS Require Import Model.C12_Conc Proofs.C12_RejectBase Proofs.C12_RejectCells.
From Coq Require Import Ascii String.
Import ListNotations.
Close Scope N_scope.
Open Scope nat_scope.
Open Scope string_scope.

Arguments catches : simpl never.

Definition as_parser (r : res nat) : res (option nat) := bind r (fun n => Ok (Some n)).

Lemma rejected_rejects : forall (p : string -> res (option nat)) g r, p g = as_parser r -> rejected r -> rejects p g.
Proof.
  intros p g r E [-> | ->]; unfold rejects; rewrite E; cbn.
  - left. exists FormatError. split; [reflexivity | vm_compute; reflexivity].
  - left. exists NotImplemented. split; [reflexivity | vm_compute; reflexivity].
Qed.

Lemma base_formats_are : base_formats = ["cif"; "discus"; "pdb"; "pdffit"; "rawxyz"; "xcfg"; "xyz"].
Proof. vm_compute. reflexivity. Qed.

(* the title condition cannot be dropped: an xyz text whose title reads as a cell record is a (zero-atom) DISCUS and
   PDFfit document as well *)
Definition witness_xyz : xstru := XStru (s"cell 1 1 1 90 90 90") [XAtom (s"C") dzero dzero dzero].

Lemma cell_discus_xyz_title_refuted :
  repr_xyz witness_xyz = true /\ x_atoms witness_xyz <> [] /\ xyz_no_cell_word witness_xyz = false /\
  exists ls, print_xyz witness_xyz = Some ls /\ conc_xyz ls = Ok 1 /\
    conc_discus (fun _ => Ok tt) (fun v _ => Ok v) (fun _ _ => Ok tt) (fun _ => [dzero; dzero; dzero; dzero; dzero; dzero]) ls = Ok 0 /\
    conc_pdffit (fun _ => Ok tt) (fun v _ => Ok v) ls = Ok 0.
Proof.
  split; [vm_compute; reflexivity |]. split; [discriminate |]. split; [vm_compute; reflexivity |].
  eexists. split; [vm_compute; reflexivity |]. repeat split; vm_compute; reflexivity.
Qed.

Section Table.
  Variable lattice_of : list dec -> res unit.
  Variable mulZ : dec -> Z -> res dec.
  Variable set_lat_par : list (list dec) -> list dec -> res unit.
  Variable cell_pars : list (list dec) -> list dec.
  Hypothesis lattice_kinds : forall l, within [ValueError; ZeroDivisionError] (lattice_of l).
  Hypothesis mulZ_kinds : forall v z, within [OverflowError] (mulZ v z).
  Hypothesis set_lat_par_kinds : forall h l, within [ValueError; ZeroDivisionError] (set_lat_par h l).

  (* the parsers of the four modelled formats on the text `ls`; the others are given *)
  Definition table_parser (ls : list str) (others : string -> res (option nat)) (g : string) : res (option nat) :=
    if String.eqb g "xyz" then as_parser (conc_xyz ls)
    else if String.eqb g "rawxyz" then as_parser (conc_rawxyz ls)
    else if String.eqb g "pdffit" then as_parser (conc_pdffit lattice_of mulZ ls)
    else if String.eqb g "discus" then as_parser (conc_discus lattice_of mulZ set_lat_par cell_pars ls)
    else others g.

  Definition others_reject (others : string -> res (option nat)) : Prop :=
    rejects others "cif" /\ rejects others "pdb" /\ rejects others "xcfg".

  Ltac cases_of_formats Hg :=
    rewrite base_formats_are in Hg; cbn [In] in Hg;
    destruct Hg as [<- | [<- | [<- | [<- | [<- | [<- | [<- | []]]]]]]].

  Ltac other_cell Ho := destruct Ho as [? [? ?]]; unfold rejects, table_parser; cbn [String.eqb Ascii.eqb Bool.eqb andb]; assumption.

  Theorem auto_written_xyz : forall St ls others fn n,
    repr_xyz St = true -> xyz_no_cell_word St = true -> print_xyz St = Some ls -> conc_xyz ls = Ok n ->
    others_reject others -> auto (table_parser ls others) fn = AOk "xyz" n.
  Proof.
    intros St ls others fn n R Hc Hp Hown Ho. apply auto_on_written_text.
    - rewrite base_formats_are. cbn; tauto.
    - unfold table_parser. cbn [String.eqb Ascii.eqb Bool.eqb andb]. rewrite Hown. reflexivity.
    - intros g Hg Hne. cases_of_formats Hg; try congruence; try (other_cell Ho).
      + eapply rejected_rejects; [reflexivity |]. eapply cell_discus_xyz; eassumption.
      + eapply rejected_rejects; [reflexivity |]. left. eapply cell_pdffit_xyz; eassumption.
      + eapply rejected_rejects; [reflexivity |]. eapply cell_rawxyz_xyz; eassumption.
  Qed.

  Theorem auto_written_rawxyz : forall St ls others fn n,
    repr_rawxyz St = true -> x_atoms St <> [] -> elements_not_cell (x_atoms St) = true -> print_rawxyz St = Some ls ->
    conc_rawxyz ls = Ok n -> others_reject others -> auto (table_parser ls others) fn = AOk "rawxyz" n.
  Proof.
    intros St ls others fn n R Hne Hc Hp Hown Ho. apply auto_on_written_text.
    - rewrite base_formats_are. cbn; tauto.
    - unfold table_parser. cbn [String.eqb Ascii.eqb Bool.eqb andb]. rewrite Hown. reflexivity.
    - intros g Hg Hne'. cases_of_formats Hg; try congruence; try (other_cell Ho).
      + eapply rejected_rejects; [reflexivity |]. eapply cell_discus_rawxyz; eassumption.
      + eapply rejected_rejects; [reflexivity |]. left. eapply cell_pdffit_rawxyz; eassumption.
      + eapply rejected_rejects; [reflexivity |]. left. eapply cell_xyz_rawxyz; eassumption.
  Qed.

  Theorem auto_written_pdffit : forall St ls others fn n,
    print_pdffit St = Some ls -> conc_pdffit lattice_of mulZ ls = Ok n ->
    others_reject others -> auto (table_parser ls others) fn = AOk "pdffit" n.
  Proof.
    intros St ls others fn n Hp Hown Ho. apply auto_on_written_text.
    - rewrite base_formats_are. cbn; tauto.
    - unfold table_parser. cbn [String.eqb Ascii.eqb Bool.eqb andb]. rewrite Hown. reflexivity.
    - intros g Hg Hne'. cases_of_formats Hg; try congruence; try (other_cell Ho).
      + eapply rejected_rejects; [reflexivity |]. eapply cell_discus_pdffit; eassumption.
      + eapply rejected_rejects; [reflexivity |]. eapply cell_rawxyz_pdffit; eassumption.
      + eapply rejected_rejects; [reflexivity |]. left. eapply cell_xyz_pdffit; eassumption.
  Qed.

  Theorem auto_written_discus : forall St ls others fn n,
    repr_discus St = true -> d_atoms St <> [] -> discus_elements_not_numbers St = true -> print_discus St = Some ls ->
    conc_discus lattice_of mulZ set_lat_par cell_pars ls = Ok n ->
    others_reject others -> auto (table_parser ls others) fn = AOk "discus" n.
  Proof.
    intros St ls others fn n R Hne Hnum Hp Hown Ho. apply auto_on_written_text.
    - rewrite base_formats_are. cbn; tauto.
    - unfold table_parser. cbn [String.eqb Ascii.eqb Bool.eqb andb]. rewrite Hown. reflexivity.
    - intros g Hg Hne'. cases_of_formats Hg; try congruence; try (other_cell Ho).
      + eapply rejected_rejects; [reflexivity |]. left. eapply cell_pdffit_discus; eassumption.
      + eapply rejected_rejects; [reflexivity |]. eapply cell_rawxyz_discus; eassumption.
      + eapply rejected_rejects; [reflexivity |]. left. eapply cell_xyz_discus; eassumption.
  Qed.
End Table.
