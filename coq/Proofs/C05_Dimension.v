(* C05/C06 - the number of parameters is THE dimension: more vectors than the length of a spanning list are
   linearly dependent (coefficient vectors in Q^k, k < n), hence every independent family inside the span of N
   has at most |N| members and two bases have the same length. *)
From Coq Require Import ZArith QArith List Bool Lia.
Import ListNotations.
Open Scope Q_scope.

Definition qv := list Q.
Definition veq (a b : qv) : Prop := Forall2 Qeq a b.
Fixpoint vadd (a b : qv) : qv := match a, b with x :: a', y :: b' => (x + y) :: vadd a' b' | _, _ => [] end.
Definition vscale (c : Q) (a : qv) : qv := map (Qmult c) a.
Definition vzero (k : nat) : qv := repeat 0 k.
Fixpoint lcomb (k : nat) (c : list Q) (A : list qv) : qv :=
  match c, A with x :: c', a :: A' => vadd (vscale x a) (lcomb k c' A') | _, _ => vzero k end.
Definition allzero (c : list Q) : Prop := Forall (fun x => x == 0) c.
Definition width (k : nat) (A : list qv) : Prop := Forall (fun a => List.length a = k) A.

Lemma veq_refl a : veq a a.
Proof. induction a; constructor; [reflexivity|assumption]. Qed.
Lemma veq_sym a b : veq a b -> veq b a.
Proof. induction 1; constructor; [symmetry|]; assumption. Qed.
Lemma veq_trans a b c : veq a b -> veq b c -> veq a c.
Proof.
  intros H. revert c. induction H; intros c Hc; inversion Hc; subst; [constructor|].
  constructor; [etransitivity; eassumption | apply IHForall2; assumption].
Qed.
Lemma veq_length a b : veq a b -> List.length a = List.length b.
Proof. induction 1; cbn; auto. Qed.

Lemma vadd_length a b k : List.length a = k -> List.length b = k -> List.length (vadd a b) = k.
Proof. revert b k. induction a as [|x a IH]; intros [|y b] k Ha Hb; cbn in *; try lia. destruct k; [lia|]. f_equal. apply IH; lia. Qed.
Lemma vscale_length c a : List.length (vscale c a) = List.length a.
Proof. apply map_length. Qed.
Lemma vzero_length k : List.length (vzero k) = k.
Proof. apply repeat_length. Qed.
Lemma lcomb_length k c A : width k A -> List.length (lcomb k c A) = k.
Proof.
  revert A. induction c as [|x c IH]; intros A H; [apply vzero_length|].
  destruct A as [|a A]; [apply vzero_length|]. cbn [lcomb]. inversion H; subst.
  apply vadd_length; [rewrite vscale_length; reflexivity | apply IH; assumption].
Qed.

Lemma vadd_eq a a' b b' : veq a a' -> veq b b' -> veq (vadd a b) (vadd a' b').
Proof.
  intros H. revert b b'. induction H; intros b b' Hb; [cbn; constructor|].
  inversion Hb; subst; cbn [vadd]; [constructor|]. constructor; [rewrite H, H1; reflexivity | apply IHForall2; assumption].
Qed.
Lemma vscale_eq c c' a a' : c == c' -> veq a a' -> veq (vscale c a) (vscale c' a').
Proof. intros Hc H. induction H; cbn; constructor; [rewrite Hc, H; reflexivity | assumption]. Qed.
Lemma vadd_zero_l k a : List.length a = k -> veq (vadd (vzero k) a) a.
Proof. revert a. induction k; intros [|x a] H; cbn in *; try lia; constructor; [ring | apply IHk; lia]. Qed.
Lemma vadd_zero_r k a : List.length a = k -> veq (vadd a (vzero k)) a.
Proof. revert a. induction k; intros [|x a] H; cbn in *; try lia; constructor; [ring | apply IHk; lia]. Qed.
Lemma vadd_comm a b : veq (vadd a b) (vadd b a).
Proof. revert b. induction a as [|x a IH]; intros [|y b]; cbn; constructor; [ring | apply IH]. Qed.
Lemma vadd_assoc a b c : veq (vadd (vadd a b) c) (vadd a (vadd b c)).
Proof. revert b c. induction a as [|x a IH]; intros [|y b] [|z c]; cbn; constructor; [ring | apply IH]. Qed.
Lemma vscale_zero k a : List.length a = k -> veq (vscale 0 a) (vzero k).
Proof. revert a. induction k; intros [|x a] H; cbn in *; try lia; constructor; [ring | apply IHk; lia]. Qed.
Lemma vscale_vzero c k : veq (vscale c (vzero k)) (vzero k).
Proof. induction k; cbn; constructor; [ring | assumption]. Qed.
Lemma vscale_add c a b : veq (vscale c (vadd a b)) (vadd (vscale c a) (vscale c b)).
Proof. revert b. induction a as [|x a IH]; intros [|y b]; cbn; constructor; [ring | apply IH]. Qed.
Lemma vscale_scale c d a : veq (vscale c (vscale d a)) (vscale (c * d) a).
Proof. induction a; cbn; constructor; [ring | assumption]. Qed.
Lemma vscale_plus c d a : veq (vscale (c + d) a) (vadd (vscale c a) (vscale d a)).
Proof. induction a; cbn; constructor; [ring | assumption]. Qed.

(* head / tail of a combination *)
Definition hd0 (a : qv) : Q := match a with x :: _ => x | [] => 0 end.
Lemma lcomb_cons k c A : width (S k) A ->
  veq (lcomb (S k) c A) (hd0 (lcomb (S k) c A) :: lcomb k c (map (@tl Q) A)).
Proof.
  revert A. induction c as [|x c IH]; intros A H; [cbn; apply veq_refl|].
  destruct A as [|a A]; [cbn; apply veq_refl|]. inversion H; subst. cbn [lcomb map].
  destruct a as [|h t]; [discriminate|]. specialize (IH A H3).
  remember (lcomb (S k) c A) as L. destruct L as [|l L']; [inversion IH|].
  cbn [vscale map vadd hd0 tl]. inversion IH; subst. constructor; [reflexivity|].
  apply vadd_eq; [apply veq_refl | assumption].
Qed.

Definition Dependent (k : nat) (A : list qv) : Prop :=
  exists c, List.length c = List.length A /\ ~ allzero c /\ veq (lcomb k c A) (vzero k).

Lemma lcomb_app k c1 c2 A1 A2 : List.length c1 = List.length A1 -> width k A1 -> width k A2 ->
  veq (lcomb k (c1 ++ c2) (A1 ++ A2)) (vadd (lcomb k c1 A1) (lcomb k c2 A2)).
Proof.
  revert A1. induction c1 as [|x c1 IH]; intros [|a A1] Hl W1 W2; cbn in Hl; try lia.
  - cbn [app lcomb]. apply veq_sym, vadd_zero_l. apply lcomb_length. exact W2.
  - cbn [app lcomb]. inversion W1; subst. eapply veq_trans; [apply vadd_eq; [apply veq_refl | apply IH; [lia|assumption|assumption]]|].
    apply veq_sym, vadd_assoc.
Qed.

(* moving one vector to the front does not change dependence *)
Lemma dependent_move k pre v post : width k (pre ++ v :: post) ->
  Dependent k (v :: pre ++ post) -> Dependent k (pre ++ v :: post).
Proof.
  intros W [c (Hl & Hnz & Hz)]. destruct c as [|c0 c]; [discriminate|].
  apply Forall_app in W as [Wpre Wv]. inversion Wv as [|v0 p0 Hv Wpost Ev]. clear Ev.
  cbn [List.length] in Hl. rewrite app_length in Hl.
  remember (firstn (List.length pre) c) as c1 eqn:E1. remember (skipn (List.length pre) c) as c2 eqn:E2.
  assert (E : c = c1 ++ c2) by (rewrite E1, E2; symmetry; apply firstn_skipn).
  assert (L1 : List.length c1 = List.length pre) by (rewrite E1, firstn_length; lia).
  clear E1 E2.
  exists (c1 ++ c0 :: c2). split; [|split].
  - pose proof (f_equal (@List.length Q) E) as EL. rewrite app_length in EL.
    rewrite !app_length. cbn [List.length]. lia.
  - intros Hall. apply Hnz. apply Forall_app in Hall as [H1 H2]. inversion H2 as [|? ? Hc0 Hc2].
    constructor; [exact Hc0|]. rewrite E. apply Forall_app. split; assumption.
  - eapply veq_trans; [|exact Hz]. cbn [lcomb]. rewrite E.
    eapply veq_trans; [apply (lcomb_app k c1 (c0 :: c2) pre (v :: post) L1 Wpre); constructor; assumption|].
    cbn [lcomb].
    eapply veq_trans; [|apply vadd_eq; [apply veq_refl | apply veq_sym; apply (lcomb_app k c1 c2 pre post L1 Wpre Wpost)]].
    set (X := lcomb k c1 pre). set (Y := vscale c0 v). set (Z := lcomb k c2 post).
    eapply veq_trans; [apply veq_sym, vadd_assoc|]. eapply veq_trans; [apply vadd_eq; [apply vadd_comm | apply veq_refl]|].
    apply vadd_assoc.
Qed.

(* the first vector whose head is not zero *)
Lemma split_pivot (A : list qv) :
  Forall (fun a => hd0 a == 0) A \/ exists pre v post, A = pre ++ v :: post /\ ~ hd0 v == 0.
Proof.
  induction A as [|a A IH]; [left; constructor|].
  destruct (Qeq_dec (hd0 a) 0) as [E|E].
  - destruct IH as [IH|[pre [v [post [-> Hv]]]]]; [left; constructor; assumption|].
    right. exists (a :: pre), v, post. split; [reflexivity | exact Hv].
  - right. exists [], a, A. split; [reflexivity | exact E].
Qed.

Lemma lcomb_head_zero k c A : width (S k) A -> Forall (fun a => hd0 a == 0) A -> hd0 (lcomb (S k) c A) == 0.
Proof.
  revert A. induction c as [|x c IH]; intros A W H; [cbn; reflexivity|].
  destruct A as [|a A]; [cbn; reflexivity|]. inversion W; subst. inversion H; subst. cbn [lcomb].
  destruct a as [|h t]; [discriminate|]. specialize (IH A H3 H5).
  pose proof (lcomb_length (S k) c A H3) as Ll.
  remember (lcomb (S k) c A) as L. destruct L as [|l L']; [discriminate|]. cbn [vscale map vadd hd0] in *.
  rewrite H4, IH. ring.
Qed.

(* eliminate the first coordinate with the pivot v = h :: t *)
Definition elim (h : Q) (t : qv) (a : qv) : qv := vadd (tl a) (vscale (- (hd0 a / h)) t).

Lemma elim_length k h t a : List.length t = k -> List.length a = S k -> List.length (elim h t a) = k.
Proof. intros Ht Ha. unfold elim. apply vadd_length; [destruct a; cbn in *; lia | rewrite vscale_length; exact Ht]. Qed.

(* sum_i d_i elim(a_i) = tail(sum_i d_i a_i) - (sum_i d_i hd(a_i) / h) t *)
Lemma lcomb_elim k h t d A : List.length t = k -> width (S k) A ->
  veq (lcomb k d (map (elim h t) A))
      (vadd (lcomb k d (map (@tl Q) A)) (vscale (- (hd0 (lcomb (S k) d A) / h)) t)).
Proof.
  intros Ht. revert A. induction d as [|x d IH]; intros A W.
  - cbn [lcomb hd0 vzero repeat]. eapply veq_trans; [|apply veq_sym, vadd_zero_l; rewrite vscale_length; exact Ht].
    apply veq_sym. eapply veq_trans; [apply vscale_eq; [|apply veq_refl]|apply vscale_zero; exact Ht].
    unfold Qdiv. ring.
  - destruct A as [|a A].
    + cbn [map lcomb hd0 vzero repeat]. eapply veq_trans; [|apply veq_sym, vadd_zero_l; rewrite vscale_length; exact Ht].
      apply veq_sym. eapply veq_trans; [apply vscale_eq; [|apply veq_refl]|apply vscale_zero; exact Ht].
      unfold Qdiv. ring.
    + inversion W as [|a0 A0 Ha H2 EA]. cbn [map lcomb]. specialize (IH A H2).
      destruct a as [|ah at']; [discriminate|].
      pose proof (lcomb_length (S k) d A H2) as Ll.
      remember (lcomb (S k) d A) as L. destruct L as [|l L']; [discriminate|].
      cbn [vscale map vadd hd0 tl] in *. unfold elim at 1. cbn [tl hd0].
      eapply veq_trans; [apply vadd_eq; [apply vscale_add | exact IH]|].
      set (T1 := vscale x at'). set (R := lcomb k d (map (@tl Q) A)).
      eapply veq_trans; [apply vadd_eq; [apply vadd_eq; [apply veq_refl | apply vscale_scale] | apply veq_refl]|].
      set (S1 := vscale (x * - (ah / h)) t). set (S2 := vscale (- (l / h)) t).
      (* (T1 + S1) + (R + S2) = (T1 + R) + (S1 + S2) *)
      eapply veq_trans; [apply vadd_assoc|].
      eapply veq_trans; [apply vadd_eq; [apply veq_refl | eapply veq_trans; [apply veq_sym, vadd_assoc | apply vadd_eq; [apply vadd_comm | apply veq_refl]]]|].
      eapply veq_trans; [apply vadd_eq; [apply veq_refl | apply vadd_assoc]|].
      eapply veq_trans; [apply veq_sym, vadd_assoc|].
      apply vadd_eq; [apply veq_refl|]. unfold S1, S2.
      eapply veq_trans; [apply veq_sym, vscale_plus|]. apply vscale_eq; [|apply veq_refl].
      unfold Qdiv. ring.
Qed.

Lemma width_map_tl k A : width (S k) A -> width k (map (@tl Q) A).
Proof. intros H. induction H; cbn; constructor; [destruct x; cbn in *; lia | assumption]. Qed.

Theorem more_vectors_than_coordinates_are_dependent : forall k A, width k A -> (k < List.length A)%nat -> Dependent k A.
Proof.
  induction k as [|k IH]; intros A W Hn.
  - destruct A as [|a A]; [cbn in Hn; lia|]. exists (1 :: repeat 0 (List.length A)). split; [cbn; rewrite repeat_length; reflexivity|].
    split; [intros H; inversion H; subst; discriminate|].
    assert (L := lcomb_length 0 (1 :: repeat 0 (List.length A)) (a :: A) W).
    destruct (lcomb 0 (1 :: repeat 0 (List.length A)) (a :: A)); [constructor | discriminate].
  - destruct (split_pivot A) as [Hz|[pre [v [post [-> Hv]]]]].
    + (* all heads vanish: work on the tails *)
      destruct (IH (map (@tl Q) A) (width_map_tl k A W)) as [c (Hl & Hnz & Hc)]; [rewrite map_length; apply Nat.lt_succ_l; exact Hn|].
      exists c. split; [rewrite map_length in Hl; exact Hl|]. split; [exact Hnz|].
      eapply veq_trans; [apply lcomb_cons; exact W|]. cbn [vzero repeat]. constructor; [apply lcomb_head_zero; assumption | exact Hc].
    + apply dependent_move; [exact W|].
      assert (W' : width (S k) (v :: pre ++ post)).
      { apply Forall_app in W as [W1 W2]. inversion W2; subst. constructor; [assumption | apply Forall_app; split; assumption]. }
      inversion W' as [|? ? Lv Wr]; subst. destruct v as [|h t]; [discriminate|]. cbn [hd0] in Hv.
      assert (Lt : List.length t = k) by (cbn in Lv; lia).
      set (B := pre ++ post) in *.
      assert (WB : width k (map (elim h t) B)).
      { clear -Wr Lt. induction Wr; cbn; constructor; [apply elim_length; assumption | assumption]. }
      destruct (IH (map (elim h t) B) WB) as [d (Hl & Hnz & Hd)].
      { rewrite map_length. rewrite app_length in Hn. cbn in Hn. unfold B. rewrite app_length. lia. }
      rewrite map_length in Hl.
      exists ((- (hd0 (lcomb (S k) d B) / h)) :: d). split; [cbn; lia|]. split.
      { intros H. inversion H; subst. contradiction. }
      cbn [lcomb]. pose proof (lcomb_elim k h t d B Lt Wr) as E.
      pose proof (lcomb_cons k d B Wr) as C.
      pose proof (lcomb_length (S k) d B Wr) as Ll.
      remember (lcomb (S k) d B) as L. destruct L as [|l L']; [discriminate|]. cbn [hd0] in *.
      inversion C as [|? ? ? ? _ CT]; subst. cbn [vscale map vadd vzero repeat].
      constructor; [unfold Qdiv; field; exact Hv|].
      eapply veq_trans; [apply vadd_comm|]. eapply veq_trans; [apply vadd_eq; [exact CT | apply veq_refl]|].
      eapply veq_trans; [apply veq_sym; exact E | exact Hd].
Qed.
