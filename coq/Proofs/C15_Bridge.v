(* Bridge C10 -> C15/C18: what supercell() does to the lattice, `setLatPar(a=l*a, b=m*b, c=n*c)` on a copy, proved on the
   GENERATED setLatPar: the new base is diag(l,m,n) * base (same angles, same orientation), the reciprocal lengths are divided
   by l, m, n and normbase is unchanged - the relations C15's image/tensor theorems take as hypotheses. *)
From Coq Require Import Reals Lra List.
From DS Require Import Base.RMat Base.Trig Model.LatDefs Model.C01_Spec Model.C10_LatticeHist Gen.LatFormulas.
From DS Require Import Proofs.C01_Lattice Proofs.C10_Hist.
Open Scope R_scope.

Definition dg3 (x y z : R) : mat := M x 0 0 0 y 0 0 0 z.

Definition scaled (L : lat) (l m n : R) : lat :=
  setLatPar L (Some (l * l_a L)) (Some (m * l_b L)) (Some (n * l_c L)) None None None None.

Lemma scaled_is_build a b c al be ga r l m n :
  scaled (build a b c al be ga r) l m n = build (l * a) (m * b) (n * c) al be ga r.
Proof. unfold scaled. rewrite no_leftover. reflexivity. Qed.

Lemma valid_scaled a b c al be ga l m n : valid_cell a b c al be ga -> 0 < l -> 0 < m -> 0 < n ->
  valid_cell (l * a) (m * b) (n * c) al be ga.
Proof. intros [Ha Hb Hc H1 H2 H3 Hv] Hl Hm Hn. constructor; try assumption; apply Rmult_lt_0_compat; assumption. Qed.

Theorem scaled_lattice a b c al be ga r l m n : valid_cell a b c al be ga -> proper_rot r -> 0 < l -> 0 < m -> 0 < n ->
  let L := build a b c al be ga r in let L' := scaled L l m n in
  l_base L' = mmul (dg3 l m n) (l_base L) /\
  l_ar L' = l_ar L / l /\ l_br L' = l_br L / m /\ l_cr L' = l_cr L / n /\
  l_normbase L' = l_normbase L /\
  l_alpha L' = l_alpha L /\ l_beta L' = l_beta L /\ l_gamma L' = l_gamma L /\ l_baserot L' = l_baserot L /\
  l_a L' = l * l_a L /\ l_b L' = m * l_b L /\ l_c L' = n * l_c L.
Proof.
  intros HC HR Hl Hm Hn. cbv zeta. rewrite scaled_is_build.
  assert (Hst : l_stdbase (build (l * a) (m * b) (n * c) al be ga r) = mmul (dg3 l m n) (l_stdbase (build a b c al be ga r))).
  { unfold build, setLatPar; cbv zeta; lat_simpl. abstract_cell HC al be ga. fix_sgr.
    unfold dg3. apply mat_eq; rm_simpl; field; repeat split; lra. }
  assert (Har : l_ar (build (l * a) (m * b) (n * c) al be ga r) = l_ar (build a b c al be ga r) / l /\
                l_br (build (l * a) (m * b) (n * c) al be ga r) = l_br (build a b c al be ga r) / m /\
                l_cr (build (l * a) (m * b) (n * c) al be ga r) = l_cr (build a b c al be ga r) / n).
  { unfold build, setLatPar; cbv zeta; lat_simpl. abstract_cell HC al be ga. repeat split; field; repeat split; lra. }
  destruct Har as (A1 & A2 & A3).
  assert (Hb : l_base (build (l * a) (m * b) (n * c) al be ga r) = mmul (dg3 l m n) (l_base (build a b c al be ga r))).
  { rewrite (base_is _ (l * a) (m * b) (n * c) al be ga r eq_refl), (base_is _ a b c al be ga r eq_refl), Hst, mmul_assoc. reflexivity. }
  repeat split; try assumption; try reflexivity.
  (* normbase' = base' * [[ar'],[br'],[cr']] = base * [[ar],[br],[cr]] *)
  assert (N' : l_normbase (build (l * a) (m * b) (n * c) al be ga r) =
               mrowscale (l_base (build (l * a) (m * b) (n * c) al be ga r)) (l_ar (build (l * a) (m * b) (n * c) al be ga r))
                 (l_br (build (l * a) (m * b) (n * c) al be ga r)) (l_cr (build (l * a) (m * b) (n * c) al be ga r))) by reflexivity.
  assert (N0 : l_normbase (build a b c al be ga r) =
               mrowscale (l_base (build a b c al be ga r)) (l_ar (build a b c al be ga r)) (l_br (build a b c al be ga r))
                 (l_cr (build a b c al be ga r))) by reflexivity.
  rewrite N', N0, Hb, A1, A2, A3.
  set (B := l_base (build a b c al be ga r)). set (x := l_ar _). set (y := l_br _). set (z := l_cr _). clearbody B x y z.
  destruct B as [b11 b12 b13 b21 b22 b23 b31 b32 b33]. unfold mrowscale, dg3. apply mat_eq; rm_simpl; field; lra.
Qed.
