(* C13 - P_pdb raises only the documented errors, for every list of lines. *)
From Coq Require Import List Bool Arith ZArith Lia.
From DS Require Import Base.C13_Exn Gen.C13_ExcSpec Model.C13_Common Model.C13_Pdb
                       Proofs.C13_ExnLemmas Proofs.C13_Shared.
From Coq Require Import Ascii String.
Import ListNotations.

Section PDB_proofs.
  Variable V : Type.
  Variable split : string -> list string.
  Variable isblank : string -> bool.
  Variable strip : string -> string.
  Variable float_of : string -> res V.
  Variable set_lat_par : list V -> res unit.
  Variable scale3_finish : lat_state V -> list (option (list V)) -> list (option V) -> res (bool * bool).
  Variable set_xyz_cartn : lat_state V -> list V -> res unit.
  Variable dot_scale : lat_state V -> list V -> res unit.

  Hypothesis float_kinds : forall s, within [ValueError] (float_of s).
  Hypothesis set_lat_par_kinds : forall l, within [ValueError; ZeroDivisionError] (set_lat_par l).
  Hypothesis scale3_kinds : forall a b c, within [LinAlgError; ValueError; LatticeError; ZeroDivisionError] (scale3_finish a b c).
  Hypothesis set_xyz_cartn_kinds : forall a l, within [ValueError] (set_xyz_cartn a l).
  Hypothesis dot_scale_kinds : forall a l, within [ValueError] (dot_scale a l).

  Definition pdb_ks : list kind :=
    [IndexError; ValueError; LinAlgError; ZeroDivisionError; LatticeError; FormatError; NotImplemented].

  Ltac oracle :=
    first [ eapply within_weaken_b; [| apply float_kinds]; reflexivity
          | eapply within_weaken_b; [| apply set_lat_par_kinds]; reflexivity
          | eapply within_weaken_b; [| apply scale3_kinds]; reflexivity
          | eapply within_weaken_b; [| apply set_xyz_cartn_kinds]; reflexivity
          | eapply within_weaken_b; [| apply dot_scale_kinds]; reflexivity
          | apply within_mapM; intros ? ? ].

  Ltac wauto := repeat first [ wstep | oracle ].

  Lemma row_assign_within : forall vals, within pdb_ks (row_assign V vals).
  Proof. intros; unfold row_assign. match goal with |- within _ (if ?b then _ else _) => destruct b end; simpl; tauto. Qed.

  Lemma scale_row_within : forall st i sc line, within pdb_ks (scale_row V split float_of st i sc line).
  Proof.
    intros; unfold scale_row.
    apply within_bind; [unfold pdb_ks; oracle; oracle | intros vals _].
    apply within_bind; [apply row_assign_within | intros _ _].
    apply within_bind; [unfold pdb_ks; oracle | intros; exact I].
  Qed.

  Lemma scale_row_sc : forall st i sc line st', scale_row V split float_of st i sc line = Ok st' ->
    exists sc', b_sc V st' = Some sc'.
  Proof.
    intros st i sc line st' H. unfold scale_row in H.
    destruct (mapM float_of (split (col 10 40 line))); cbn [bind] in H; [| discriminate].
    destruct (row_assign V l); cbn [bind] in H; [| discriminate].
    destruct (float_of (col 45 55 line)); cbn [bind] in H; [| discriminate].
    inversion H; subst; simpl. eexists; reflexivity.
  Qed.

  Lemma optional_within : forall field c hk, (c = [ValueError]) -> hk = Swallow ->
    within pdb_ks (optional_float V float_of field c hk).
  Proof.
    intros field c hk -> ->. unfold optional_float. specialize (float_kinds field).
    destruct (float_of field) as [v | k]; simpl in *; [exact I |].
    destruct float_kinds as [E | []]; subst; simpl; exact I.
  Qed.

  Lemma six_within : forall line, within pdb_ks (six_floats V split float_of line).
  Proof. intros; unfold six_floats, pdb_ks. oracle. oracle. Qed.

  Lemma six_idx_within : forall vals, within pdb_ks (six_indices V vals).
  Proof. intros; unfold six_indices, pdb_ks. wauto. Qed.

  Lemma pdb_line_within : forall st line,
    within pdb_ks (pdb_line V split isblank strip float_of set_lat_par scale3_finish set_xyz_cartn dot_scale st line).
  Proof.
    intros st line0; unfold pdb_line.
    destruct (isblank line0); [exact I |].
    set (line := pad80 line0). set (record := strip (col 0 6 line)).
    destruct (b_last V st) eqn:EL; destruct (b_sc V st) as [sc |] eqn:ES; cbn [negb andb orb];
    repeat match goal with
    | |- within _ (if (?a && true) then _ else _) => replace (a && true) with a by (destruct a; reflexivity)
    | |- within _ (if (?a && false) then _ else _) => replace (a && false) with false by (destruct a; reflexivity)
    | |- within _ (if ?b then _ else _) => let E := fresh "K" in destruct b eqn:E
    end;
    try exact I; try (simpl; tauto);
    (* contradictory guards: the record name is SCALE2/SCALE3 (or SIGATM/ANISOU/SIGUIJ) but the guard said no *)
    try (exfalso;
         repeat match goal with
         | H : Model.C13_Pdb.kw record _ = _ |- _ => rewrite H in *; clear H
         end; simpl in *; congruence);
    try apply scale_row_within;
    try (unfold pdb_ks; wauto; fail).
    (* remaining: SCALE3, ATOM, SIGATM, ANISOU, SIGUIJ with their guards satisfied *)
    all: try (apply within_bind; [apply scale_row_within | intros st' Hst'];
              destruct (scale_row_sc _ _ _ _ _ Hst') as [sc' Hsc']; rewrite Hsc';
              apply within_bind; [unfold pdb_ks; oracle | intros r _];
              destruct (negb (fst r)); [simpl; tauto |]; destruct (snd r); [simpl; tauto | exact I]).
    all: try (apply within_bind; [unfold pdb_ks; oracle; oracle | intros rc _];
              apply within_bind; [apply optional_within; reflexivity | intros _ _];
              apply within_bind; [apply optional_within; reflexivity | intros _ _];
              first [ apply within_bind; [ repeat match goal with |- within _ (if ?b then _ else _) => destruct b end;
                                            simpl; tauto | intros _ _];
                      apply within_bind; [unfold pdb_ks; oracle | intros; exact I]
                    | apply within_bind; [exact I | intros _ _]; exact I ]).
    all: try (apply within_bind; [unfold pdb_ks; oracle; oracle | intros rc _];
              apply within_bind; [unfold pdb_ks; oracle | intros _ _];
              apply within_bind; [apply optional_within; reflexivity | intros _ _];
              apply within_bind; [apply optional_within; reflexivity | intros _ _];
              apply within_bind; [exact I | intros; exact I]).
    all: try (apply within_bind; [exact I | intros _ _];
              apply within_bind; [apply six_within | intros vals _];
              apply within_bind; [apply six_idx_within | intros; exact I]).
    all: try (apply within_bind; [apply six_within | intros vals _];
              apply within_bind; [exact I | intros _ _];
              apply within_bind; [apply six_idx_within | intros; exact I]).
  Qed.

  Theorem only_documented_pdb : forall lines,
    documented (parse_pdb V split isblank strip float_of set_lat_par scale3_finish set_xyz_cartn dot_scale lines).
  Proof.
    intros lines. apply within_documented. unfold parse_pdb, parse_pdb_gen.
    eapply within_try with (ks := pdb_ks).
    - unfold pdb_body. apply within_bind; [| intros; exact I].
      apply within_foldM. intros; apply pdb_line_within.
    - vm_compute; reflexivity.
    - intros k; vm_compute; tauto.
  Qed.
End PDB_proofs.
