(* C16 - when the parser hands back None instead of a structure (P_cif does, for CIF text without atom
   sites) the read succeeds and the target keeps its old atoms and lattice: a witness in the model. *)
From Coq Require Import ZArith List Bool.
From Coq Require Import Ascii String.
From DS Require Import Model.C16_ReadWriteTxn Gen.C16_RW Model.C16_Methods.
Import ListNotations.
Open Scope string_scope.
Open Scope Z_scope.

Definition nr_prior : obj :=
  {| o_cls := CPDFFit;
     o_items := [ {| a_id := 1; a_payload := 5; a_lat := 10 |} ];
     o_inst := [("pdffit", VDict [("scale", 70); ("spcgr", 2)]); ("_lattice", VLat 10 4); ("title", VStr 33)] |}.
Definition nr_args : args := {| g_filename := 6; g_source := 2; g_format := 0 |}.
(* the read succeeds, the target keeps its atoms and lattice: not what a new object would hold *)
Definition none_parser : parser :=
  {| ps_parse := fun _ => {| po_result := Ok None; po_sg := None |};
     ps_parsefile := fun _ _ => {| po_result := Ok None; po_sg := None |};
     ps_tostring := fun _ _ => Raise 77 |}.
Definition none_env : env :=
  {| e_getparser := fun _ => Ok none_parser; e_title_of := fun f => f + 1000; e_open_w := fun _ => Ok tt;
     e_default_pdffit := [("scale", 1); ("spcgr", 2)]; e_default_cell := 1 |}.
Lemma read_none_result_refuted : exists E G en o fs n id' n' p sg fr fr',
  e_getparser E (g_format G) = Ok p /\ parse_of G en fs p = {| po_result := Ok None; po_sg := sg |} /\
  run_read E G (o_cls o) en (frame_of o fs n) = Done fr /\
  run_read E G (o_cls o) en (frame_of (fresh E (o_cls o) id') fs n') = Done fr' /\
  observe ["_lattice"] (f_self fr) <> observe ["_lattice"] (f_self fr').
Proof.
  exists none_env, nr_args, ReadStr, nr_prior, [], 200, 300, 301, none_parser, None.
  eexists. eexists. split; [reflexivity|]. split; [reflexivity|]. split; [vm_compute; reflexivity|].
  split; [vm_compute; reflexivity|]. vm_compute. discriminate.
Qed.

