(* C16 - the heap statements of Model/C16_Heap.v ARE the C08 operations:
   `self[:] = new` is step current (SetSlice self [::] new true), `Structure()` is step current NewStruct. *)
From Coq Require Import List ZArith Bool Arith Lia.
From DS Require Import Model.C08_StructHeap Proofs.C08_Lists Proofs.C08_Prims.
From DS Require Import Model.C16_Heap.
Import ListNotations.
Open Scope nat_scope.

Lemma arith_seq_seq : forall k s, arith_seq k (Z.of_nat s) 1 = seq s k.
Proof.
  induction k as [|k IH]; intros s; simpl; [reflexivity|]. rewrite Nat2Z.id. f_equal.
  replace (Z.of_nat s + 1)%Z with (Z.of_nat (S s)) by lia. apply IH.
Qed.

Lemma pick_seq_all : forall (pre l : list aid), pick (pre ++ l) (seq (length pre) (length l)) = l.
Proof.
  intros pre l. revert pre. induction l as [|a r IH]; intros pre; simpl; [reflexivity|].
  rewrite nth_error_app2 by lia. rewrite Nat.sub_diag. simpl. f_equal.
  replace (pre ++ a :: r) with ((pre ++ [a]) ++ r) by (rewrite <- app_assoc; reflexivity).
  replace (S (length pre)) with (length (pre ++ [a])) by (rewrite app_length; simpl; lia).
  apply IH.
Qed.

Lemma full_slice : forall n,
  slice_adjust n (mkSlice None None None) = Some (0%Z, Z.of_nat n, 1%Z, Z.of_nat n) /\
  slice_indices n (mkSlice None None None) = Some (seq 0 n).
Proof.
  intros n. assert (A : slice_adjust n (mkSlice None None None) = Some (0%Z, Z.of_nat n, 1%Z, Z.of_nat n)).
  { unfold slice_adjust. simpl. unfold slice_len. f_equal. f_equal.
    destruct (0 <? Z.of_nat n)%Z eqn:E.
    - apply Z.ltb_lt in E. rewrite Z.div_1_r. lia.
    - apply Z.ltb_ge in E. lia. }
  split; [exact A|]. unfold slice_indices. rewrite A. rewrite Nat2Z.id. f_equal. apply (arith_seq_seq n 0).
Qed.

(* self[:] = new, copy=True *)
Lemma h_setall_is_c08_setslice : forall h v w,
  fst (step current (SetSlice h (mkSlice None None None) v true) w) = h_setall_world h v w.
Proof.
  intros h v w. unfold h_setall_world. cbn [step].
  destruct (get_struct w h) as [[old L]|]; [|reflexivity].
  destruct (get_obj w v) as [vo|]; [|reflexivity].
  destruct (full_slice (length old)) as [A B]. rewrite A, B. simpl Z.eqb. cbn iota.
  pose proof (pick_seq_all [] old) as P. simpl in P. rewrite P. simpl Z.to_nat. rewrite Nat2Z.id, Nat.max_0_l. cbn [fst].
  f_equal. unfold setall_srcs. apply map_ext. intros a. simpl. destruct (memb a old); reflexivity.
Qed.

(* Structure() *)
Lemma h_default_new_is_c08_newstruct : forall dc s, hs_new s = None ->
  hs_world (h_default_new dc s) = fst (step current NewStruct (hs_world s)).
Proof.
  intros dc s H. unfold h_default_new. rewrite H. cbn [step].
  destruct (alloc_lat (hs_world s)) as [L w1]. destruct (new_struct L [] None w1) as [h w2]. reflexivity.
Qed.
