(* C13 - generic lemmas about the exception monad: how the set of kinds that may escape composes. *)
From Coq Require Import List Bool Arith Lia.
From DS Require Import Base.C13_Exn.
Import ListNotations.

Lemma within_ret : forall A ks (a : A), within ks (ret a).
Proof. intros; exact I. Qed.

Lemma within_ok : forall A ks (a : A), within ks (Ok a).
Proof. intros; exact I. Qed.

Lemma within_raise : forall A ks k, In k ks -> within ks (@Raise A k).
Proof. intros; assumption. Qed.

Lemma within_weaken : forall A ks ks' (r : res A), incl ks ks' -> within ks r -> within ks' r.
Proof. intros A ks ks' [a | k] Hi H; simpl in *; auto. Qed.

Lemma within_weaken_b : forall A ks ks' (r : res A), kincl ks ks' = true -> within ks r -> within ks' r.
Proof. intros; eapply within_weaken; [apply kincl_incl; eassumption | assumption]. Qed.

(* bind_raises *)
Lemma within_bind : forall A B ks (m : res A) (f : A -> res B),
  within ks m -> (forall a, m = Ok a -> within ks (f a)) -> within ks (bind m f).
Proof. intros A B ks [a | k] f Hm Hf; simpl in *; [apply Hf; reflexivity | assumption]. Qed.

Lemma bind_raises : forall A B (m : res A) (f : A -> res B) k,
  bind m f = Raise k -> m = Raise k \/ exists a, m = Ok a /\ f a = Raise k.
Proof. intros A B [a | k'] f k H; simpl in H; [right; exists a; auto | left; inversion H; reflexivity]. Qed.

Lemma idx_raises : forall A (l : list A) i k, idx l i = Raise k -> k = IndexError /\ length l <= i.
Proof.
  intros A l i k H; unfold idx in H. destruct (nth_error l i) eqn:E; [discriminate |].
  inversion H; split; [reflexivity | apply nth_error_None; assumption].
Qed.

Lemma idx_ok : forall A (l : list A) i, i < length l -> exists a, idx l i = Ok a.
Proof.
  intros A l i H; unfold idx. destruct (nth_error l i) eqn:E; [eexists; reflexivity |].
  apply nth_error_None in E; lia.
Qed.

Lemma idx_In : forall A (l : list A) i a, idx l i = Ok a -> In a l.
Proof.
  intros A l i a H; unfold idx in H. destruct (nth_error l i) eqn:E; [| discriminate].
  inversion H; subst. eapply nth_error_In; eassumption.
Qed.

Lemma within_idx : forall A ks (l : list A) i, In IndexError ks -> within ks (idx l i).
Proof. intros A ks l i H; unfold idx; destruct (nth_error l i); simpl; auto. Qed.

Lemma within_assert : forall A ks b k (a : A), In k ks -> within ks (assert_that b k a).
Proof. intros A ks [|] k a H; simpl; auto. Qed.

(* try_catch: kinds of the body that are caught are replaced by those of the handler *)
Lemma within_try : forall A ks ks' caught (m : res A) h,
  within ks m -> handled ks caught ks' = true -> (forall k, within ks' (h k)) -> within ks' (try_catch m caught h).
Proof.
  intros A ks ks' caught [a | k] h Hm Hh Hk; simpl in *; [exact I |].
  unfold handled in Hh. rewrite forallb_forall in Hh. specialize (Hh k Hm).
  destruct (catches caught k); [apply Hk |]. simpl in Hh. apply kmem_In in Hh. exact Hh.
Qed.

(* try_catch_documented: a body whose undocumented kinds are all caught by a clause that re-raises the format error *)
Lemma try_catch_documented : forall A ks caught (m : res A),
  within ks m -> handled ks caught documented_kinds = true ->
  documented (try_catch m caught (fun _ => Raise FormatError)).
Proof.
  intros A ks caught m Hm Hh.
  assert (W : within documented_kinds (try_catch m caught (fun _ => Raise FormatError))).
  { eapply within_try; [eassumption | assumption | intros; simpl; auto]. }
  destruct (try_catch m caught (fun _ : kind => Raise FormatError)); simpl in *; [exact I | intuition congruence].
Qed.

Lemma within_documented : forall A (r : res A), within documented_kinds r <-> documented r.
Proof. intros A [a | k]; simpl; intuition congruence. Qed.

Lemma within_foldM : forall A S ks (f : S -> A -> res S) l s,
  (forall s a, In a l -> within ks (f s a)) -> within ks (foldM f l s).
Proof.
  intros A S ks f l; induction l as [| a l IH]; intros s H; simpl; [exact I |].
  apply within_bind; [apply H; left; reflexivity |]. intros s' _. apply IH. intros; apply H; right; assumption.
Qed.

Lemma within_mapM : forall A B ks (f : A -> res B) l,
  (forall a, In a l -> within ks (f a)) -> within ks (mapM f l).
Proof.
  intros A B ks f l; induction l as [| a l IH]; intros H; simpl; [exact I |].
  apply within_bind; [apply H; left; reflexivity |]. intros b _.
  apply within_bind; [apply IH; intros; apply H; right; assumption |]. intros; exact I.
Qed.

Lemma mapM_length : forall A B (f : A -> res B) l bs, mapM f l = Ok bs -> length bs = length l.
Proof.
  intros A B f l; induction l as [| a l IH]; intros bs H; simpl in H.
  - inversion H; reflexivity.
  - destruct (f a); simpl in H; [| discriminate]. destruct (mapM f l); simpl in H; [| discriminate].
    inversion H; simpl; f_equal; apply IH; reflexivity.
Qed.

Lemma within_if : forall A ks (b : bool) (x y : res A), within ks x -> within ks y -> within ks (if b then x else y).
Proof. intros A ks [|]; auto. Qed.

(* a result that is within the empty list is a value *)
Lemma within_nil_ok : forall A (r : res A), within [] r -> exists a, r = Ok a.
Proof. intros A [a | k] H; simpl in H; [eexists; reflexivity | contradiction]. Qed.

Ltac in_list := simpl; tauto.

(* structural decomposition of a monadic term; leaves oracle calls and guards to the caller *)
Ltac wstep :=
  match goal with
  | |- within _ (Ok _) => exact I
  | |- within _ (ret _) => exact I
  | |- within _ (Raise _) => simpl; tauto
  | |- within _ (bind _ _) => apply within_bind; [| intros ? ?]
  | |- within _ (if ?b then _ else _) => destruct b eqn:?
  | |- within _ (match ?x with _ => _ end) => destruct x eqn:?
  | |- within _ (assert_that _ _ _) => apply within_assert; simpl; tauto
  | |- within _ (idx _ _) => apply within_idx; simpl; tauto
  end.
