(* C02 - decidable hypotheses of the tolerance-generic theorems and instances for eps = 1e-3, 1e-7 and 0. *)
From Coq Require Import ZArith List Bool Lia.
From DS Require Import Base.ZMat Base.SGDefs Model.GroupCheck Model.C02_Orbit Model.C02_Eps Model.C02_Gen Model.C02_EpsTol.
From DS Require Import Proofs.C02_Action Proofs.C02_Expand Proofs.C02_OrbitStab Proofs.C02_EpsSound Proofs.C02_NearSpecial
  Proofs.C02_GenSound Proofs.C02_GenCheck Proofs.C02_EpsTol Proofs.C02_NearSpecialTol Proofs.C02_GenSoundTol.
Import ListNotations.
Open Scope Z_scope.

Lemma far_tb_spec T D p q : far_tb T D p q = true -> far_t T D p q.
Proof. unfold far_tb, far_t. rewrite andb_true_iff, !Z.ltb_lt. tauto. Qed.

Lemma separated_tb_spec T D G off x : separated_tb T D G off x = true -> separated_t T D G off x.
Proof.
  unfold separated_tb, separated_t. cbv zeta. intros H g h Hg Hh Hne.
  rewrite forallb_forall in H. specialize (H (img D g off x) (in_map _ _ _ Hg)).
  rewrite forallb_forall in H. specialize (H (img D h off x) (in_map _ _ _ Hh)).
  apply orb_true_iff in H as [H|H]; [apply v3_eqb_eq in H; contradiction | apply far_tb_spec; exact H].
Qed.

Lemma near_special_tb_spec T D G off x x0 : near_special_tb T D G off x x0 = true ->
  within_tol_t T D G off x x0 /\ between_far_t T D G off x x0.
Proof.
  unfold near_special_tb. cbv zeta. intros H. rewrite forallb_forall in H.
  assert (Hp : forall g h, In g G -> In h G ->
     (if v3_eqb (img D g off x0) (img D h off x0) then boxdist D (img D g off x) (img D h off x) * tq_den T <=? tq_num T * D
      else far_tb T D (img D g off x) (img D h off x)) = true).
  { intros g h Hg Hh.
    specialize (H (img D g off x0, img D g off x) (in_map (fun g => (img D g off x0, img D g off x)) G g Hg)).
    rewrite forallb_forall in H.
    exact (H (img D h off x0, img D h off x) (in_map (fun g => (img D g off x0, img D g off x)) G h Hh)). }
  split.
  - intros g h Hg Hh E. specialize (Hp g h Hg Hh). rewrite E, v3_eqb_refl in Hp. apply Z.leb_le. exact Hp.
  - intros g h Hg Hh E. specialize (Hp g h Hg Hh). apply v3_eqb_neq in E. rewrite E in Hp. apply far_tb_spec. exact Hp.
Qed.

(* the snap theorem for any tolerance with all hypotheses decided by computation *)
Theorem snap_fixes_site_t_checked T D G off x x0 : tol_wf T -> IsGroup G -> 0 < D -> (12 | D) ->
  snap_hyps_tb T D G off x x0 = true ->
  let n := Z.of_nat (List.length (stab D G off x0)) in
  let xs := snapped_site D G off x x0 in
  generator_site_t T D G off x =
    (let '(pos, ops, m) := expand_exact (D * n) G (vscale n off) xs in
     Some (GSite (D * n) xs (vscale n off) pos ops m (stab (D * n) G (vscale n off) xs)))
  /\ incl (stab D G off x0) (stab (D * n) G (vscale n off) xs).
Proof.
  intros Hwf HG HD H12 Hb. unfold snap_hyps_tb in Hb. cbv zeta in Hb.
  destruct (near_special_tb T D G off x x0) eqn:En; [|discriminate].
  apply near_special_tb_spec in En as [Hw Hbt].
  rewrite !andb_true_iff in Hb. destruct Hb as [[[[H1 H2] H3] H4] H5].
  cbv zeta. rewrite snapped_site_eq.
  apply (snap_fixes_site_t T Hwf D G off x x0 HG HD H12 Hw Hbt).
  - intros h Hh. apply small_vb_spec. rewrite forallb_forall in H1. apply H1. exact Hh.
  - apply Nat.ltb_lt. exact H2.
  - intros E. rewrite snapped_site_eq in H3. rewrite E, v3_eqb_refl in H3. discriminate.
  - apply v3_eqb_eq. rewrite <- snapped_site_eq. exact H4.
  - apply separated_tb_spec. rewrite <- snapped_site_eq. exact H5.
Qed.

(* ---- instances (ex_G = the R-centred 3-fold-axis group of Proofs/C02_GenCheck.v, D = 12*10^7) ---- *)
Definition T_1e3 : tol := tol_of (Some (1152921504606847, 2 ^ 60)).   (* eps = 1e-3 *)
Definition T_1e7 : tol := tol_of (Some (944473296573929, 2 ^ 73)).    (* eps = 1e-7 *)
Definition T_0 : tol := tol_of (Some (0, 1)).                          (* eps = 0 *)

Lemma T_1e3_wf : tol_wf T_1e3. Proof. apply tol_wfb_spec. vm_compute. reflexivity. Qed.
Lemma T_1e7_wf : tol_wf T_1e7. Proof. apply tol_wfb_spec. vm_compute. reflexivity. Qed.
Lemma T_0_wf : tol_wf T_0. Proof. apply tol_wfb_spec. vm_compute. reflexivity. Qed.

(* eps = 1e-3: a site 1.2e-4 / 2.4e-4 away from (1/3, 2/3, 0.3) meets every hypothesis of the near-special and snap
   theorems; it is moved exactly onto 3*(1/3, 2/3, 0.3) on the grid 3 D; multiplicity 6 *)
Example snap_instance_1e3 :
  let D := 120000000 in let x0 := V3 40000000 80000000 36000000 in let x := V3 40014400 80028800 36000000 in
  snap_hyps_tb T_1e3 D ex_G v0 x x0 = true /\
  near_special_tb T_1e3 D ex_G v0 x x0 = true /\
  near_special_b D ex_G v0 x x0 = false /\                     (* outside the DEFAULT tolerance *)
  snapped_site D ex_G v0 x x0 = vscale 3 x0 /\
  option_map gs_mult (generator_site_t T_1e3 D ex_G v0 x) = Some 6%nat /\
  option_map gs_mult (generator_site D ex_G v0 x) = Some 18%nat.
Proof. vm_compute. repeat split; reflexivity. Qed.

(* eps = 1e-7: a site 2.5e-8 away is within tolerance, a site 1e-6 away is separated (exact expansion, 18 positions) *)
Example instances_1e7 :
  let D := 120000000 in let x0 := V3 40000000 80000000 36000000 in
  near_special_tb T_1e7 D ex_G v0 (V3 40000003 80000000 36000000) x0 = true /\
  separated_tb T_1e7 D ex_G v0 (V3 40000120 80000000 36000000) = true /\
  option_map gs_mult (generator_site_t T_1e7 D ex_G v0 (V3 40000120 80000000 36000000)) = Some 18%nat.
Proof. vm_compute. repeat split; reflexivity. Qed.

(* eps = 0: every site is separated; sites for the ExpandAsymmetricUnit theorem *)
Example asym_instance_0 :
  let D := 120000000 in
  separated_tb T_0 D ex_G v0 (V3 40000001 80000000 36000000) = true /\
  separated_tb T_0 D ex_G v0 (V3 40000000 80000000 36000000) = true /\
  option_map au_multiplicity (expand_asym_t T_0 D ex_G v0 [V3 40000001 80000000 36000000; V3 40000000 80000000 36000000]) = Some [18%nat; 6%nat].
Proof. vm_compute. repeat split; reflexivity. Qed.

(* ---- "within tolerance" in metric terms, for any tolerances ---- *)
From DS Require Import Proofs.C02_Metric.

Theorem near_from_metric_t T D G off x x0 tau M : tol_wf T -> 0 < D ->
  (forall o, In o G -> entries_ok o = true) ->
  vnorm_le tau (vsub x x0) -> 6 * tau * tq_den T <= tq_num T * D ->
  (forall g h, In g G -> In h G -> img D g off x0 <> img D h off x0 -> M <= boxdist D (img D g off x0) (img D h off x0)) ->
  tq_num T * D < tq_den T * (M - 6 * tau) -> tb_num T * D < tb_den T * (M - 6 * tau) ->
  within_tol_t T D G off x x0 /\ between_far_t T D G off x x0.
Proof.
  intros [Hqn [Hqd [Hbn Hbd]]] HD Hent Hclose Htau Hsep0 HMq HMb. split.
  - intros g h Hg Hh E.
    pose proof (boxdist_triangle D (img D g off x) (img D g off x0) (img D h off x) HD
                  (img_in_cell D g off x HD) (img_in_cell D g off x0 HD) (img_in_cell D h off x HD)) as Tr.
    pose proof (img_close_l D G off x x0 tau M HD Hent Hclose Hsep0 g Hg) as A.
    pose proof (img_close_r D G off x x0 tau M HD Hent Hclose Hsep0 h Hh) as B. rewrite <- E in B. nia.
  - intros g h Hg Hh E.
    pose proof (Hsep0 g h Hg Hh E) as S0.
    pose proof (boxdist_triangle D (img D g off x0) (img D g off x) (img D h off x0) HD
                  (img_in_cell D g off x0 HD) (img_in_cell D g off x HD) (img_in_cell D h off x0 HD)) as T1.
    pose proof (boxdist_triangle D (img D g off x) (img D h off x) (img D h off x0) HD
                  (img_in_cell D g off x HD) (img_in_cell D h off x HD) (img_in_cell D h off x0 HD)) as T2.
    pose proof (img_close_r D G off x x0 tau M HD Hent Hclose Hsep0 g Hg) as A.
    pose proof (img_close_l D G off x x0 tau M HD Hent Hclose Hsep0 h Hh) as B.
    assert (Hge : M - 6 * tau <= boxdist D (img D g off x) (img D h off x)) by lia.
    unfold far_t. split; nia.
Qed.

Example metric_instance_1e3 :
  let D := 120000000 in let x0 := V3 40000000 80000000 36000000 in let x := V3 40014400 80014400 36000000 in
  vnorm_le 14400 (vsub x x0) /\ 6 * 14400 * tq_den T_1e3 <= tq_num T_1e3 * D /\
  sep0_b D ex_G v0 x0 12000000 = true /\
  tq_num T_1e3 * D < tq_den T_1e3 * (12000000 - 6 * 14400) /\ tb_num T_1e3 * D < tb_den T_1e3 * (12000000 - 6 * 14400).
Proof. vm_compute. repeat split; try reflexivity; discriminate. Qed.
