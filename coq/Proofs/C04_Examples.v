(* C04 - the hypotheses of the round-trip theorems are satisfiable by non-trivial instances, and the
   abstract-geometry hypotheses of the pdffit / discus no-drift theorems have a model (cubic lattice). *)
From Coq Require Import List Bool Arith NArith ZArith Lia String.
From Coq Require Import Ascii.
From DS Require Import Base.C04_Text Base.C04_Decimal Model.C04_Fmt Gen.C04_FmtSpecs Model.C04_Xyz Model.C04_Pdffit Model.C04_Discus Model.C04_Pdb Model.C04_Xcfg.
From DS Require Import Proofs.C04_Pdffit Proofs.C04_Discus Proofs.C04_Pdb.
Import ListNotations.

Definition ex_d (neg : bool) (m : N) (e : nat) : dec := Dec neg m e.
Definition ex_patom : patom :=
  PAtom (s"Na1+") (ex_d false 25 2, ex_d true 3333333333 10, ex_d false 5 1) (ex_d false 9876 4)
        (ex_d false 0 0, ex_d false 0 0, ex_d false 0 0) (ex_d false 0 0)
        (ex_d false 123456789 10, ex_d false 2 2, ex_d false 3 2) (ex_d false 0 0, ex_d false 0 0, ex_d false 0 0)
        (ex_d true 15 4, ex_d false 0 0, ex_d false 7 5) (ex_d false 0 0, ex_d false 0 0, ex_d false 0 0).
Definition ex_pstru : pstru :=
  PStru (s" PbTe  double blank ") (ex_d false 12345678 7) (ex_d false 25 1, ex_d false 0 0, ex_d false 1 0, ex_d false 35 1) (s"F m -3 m")
        (ex_d false 12345 1) (ex_d false 0 0)
        ((ex_d false 6461 3, ex_d false 6461 3, ex_d false 64612345678 10), (ex_d false 90 0, ex_d false 90 0, ex_d false 120 0))
        ((ex_d false 0 0, ex_d false 0 0, ex_d false 0 0), (ex_d false 0 0, ex_d false 0 0, ex_d false 0 0))
        [ex_patom; ex_patom].

Example repr_pdffit_example : repr_pdffit ex_pstru = true.
Proof. vm_compute. reflexivity. Qed.

Definition ex_dstru : dstru :=
  DStru (s"Ni fcc") (s"F m -3 m") (ex_d false 0 0) (ex_d false 2575 2)
        ((ex_d false 352 2, ex_d false 352 2, ex_d false 352 2), (ex_d false 90 0, ex_d false 90 0, ex_d false 90 0))
        [DAtom (s"Ni") (ex_d false 0 0, ex_d false 5 1, ex_d true 123456789012 12) (ex_d false 43215 5)].
Example repr_discus_example : repr_discus ex_dstru = true.
Proof. vm_compute. reflexivity. Qed.

(* the examples really round-trip in the model (computation, independent of the theorems) *)
Example rt_pdffit_example : rt_pdffit_raw ex_pstru = Some (canon_pdffit ex_pstru).
Proof. vm_compute. reflexivity. Qed.
Example rt_discus_example : rt_discus_raw ex_dstru = Some (canon_discus ex_dstru).
Proof. vm_compute. reflexivity. Qed.

(* a model of the geometry hypotheses: cubic lattice, isotropicunit = identity *)
Definition dec_eqb (a b : dec) : bool := Bool.eqb (dneg a) (dneg b) && N.eqb (dmag a) (dmag b) && Nat.eqb (dexp a) (dexp b).
Lemma dec_eqb_refl a : dec_eqb a a = true.
Proof. unfold dec_eqb. rewrite Bool.eqb_reflx, N.eqb_refl, Nat.eqb_refl. reflexivity. Qed.
Definition cubic_isotens (c : d6) (u : dec) : d3 * d3 := ((u, u, u), (dzero, dzero, dzero)).
Definition cubic_isaniso (c : d6) (ii ij : d3) : bool :=
  let '(a, b, c') := ii in let '(d, e, f) := ij in
  negb (dec_eqb a b && dec_eqb b c' && (dmag d =? 0)%N && (dmag e =? 0)%N && (dmag f =? 0)%N).

Example geometry_hypotheses_have_a_model :
  (forall c u, cubic_isaniso c (q3 pdffit_w_Uii 0 (fst (cubic_isotens c u))) (q3 pdffit_w_Uij 0 (snd (cubic_isotens c u))) = false) /\
  (forall c u, first3 (fst (cubic_isotens c u)) = u).
Proof.
  split; [|reflexivity]. intros c u. unfold cubic_isotens. cbn [fst snd]. unfold q3.
  change (fprec pdffit_w_Uii (0 + 1)) with (fprec pdffit_w_Uii 0). change (fprec pdffit_w_Uii (0 + 2)) with (fprec pdffit_w_Uii 0).
  unfold cubic_isaniso. rewrite !dec_eqb_refl. vm_compute. reflexivity.
Qed.

Example bw_identity_is_a_model : forall b, dq (fprec discus_w_atom 3) (dq (fprec discus_w_atom 3) b) = dq (fprec discus_w_atom 3) b.
Proof. intros b. apply dq_idem. Qed.

(* pdb: a representable structure with a title, a non-default cell, an isotropic and an anisotropic atom (negative
   coordinate filling its column), and a model of the geometry hypotheses *)
Definition ex_bstru : bstru :=
  BStru (s"PbTe  rock salt") ((ex_d false 6461 3, ex_d false 6461 3, ex_d false 64612345678 10), (ex_d false 90 0, ex_d false 90 0, ex_d false 120 0))
        [BAtom (s"Pb1") (s"Pb") (ex_d true 123456499 6, ex_d false 0 0, ex_d false 99999949 4) (ex_d false 5 1) (ex_d false 1234 3) true
               ((ex_d false 15 3, ex_d false 15 3, ex_d false 15 3), (ex_d false 0 0, ex_d false 0 0, ex_d false 0 0));
         BAtom (s"Te") (s"Te") (ex_d false 323 2, ex_d false 323 2, ex_d false 323 2) (ex_d false 1 0) (ex_d false 95 2) false
               ((ex_d false 1234 1, ex_d false 200 0, ex_d false 3105 1), (ex_d true 15 0, ex_d false 0 0, ex_d false 749 3))].
Example repr_pdb_example : repr_pdb ex_bstru = true.
Proof. vm_compute. reflexivity. Qed.
Example rt_pdb_example : match write_pdb ex_bstru with Some t => read_pdb t | None => None end = Some (canon_pdb ex_bstru).
Proof. vm_compute. reflexivity. Qed.

Definition ex_uof (d : dec) : dec := d.
Example pdb_geometry_hypotheses_have_a_model :
  (forall (c : d6) v, q3 pdb_w_atom 0 ((fun _ x => x) c (q3 pdb_w_atom 0 v)) = q3 pdb_w_atom 0 v) /\
  (forall b, dq (fprec pdb_w_atom 4) ((fun x => x) (dq (fprec pdb_w_atom 4) b)) = dq (fprec pdb_w_atom 4) b) /\
  (forall z, uint (ex_uof (dnorm (zdec z))) = z).
Proof.
  split; [intros; apply q3_idem|]. split; [intros; apply dq_idem|]. intros z.
  unfold zdec, dnorm, ex_uof, uint, quantN. cbn [dmag dexp dneg normN Nat.add Nat.leb Nat.sub]. rewrite pow10_0, N.mul_1_r, N2Z.inj_abs_N.
  destruct (z <? 0)%Z eqn:E; [apply Z.ltb_lt in E|apply Z.ltb_ge in E]; lia.
Qed.

(* xcfg: two elements (the second repeated: one mass/element header for two atoms), partial occupancy, one anisotropic atom
   with U12 = 0 for every atom (the U12 column is dropped, U13/U23 kept), a kept auxiliary "charge", a negative H0 entry *)
Definition ex_cstru : cstru :=
  CStru (ex_d false 2 0)
        ((ex_d false 51 1, ex_d false 0 0, ex_d false 0 0), (ex_d false 0 0, ex_d false 62 1, ex_d false 0 0),
         (ex_d true 1889378 6, ex_d false 0 0, ex_d false 70512345678 10))
        [s"charge"]
        [CAtom (s"Zr") (ex_d false 5 2, ex_d false 125 3, ex_d false 15 2) (ex_d false 1 0)
               ((ex_d false 11 3, ex_d false 9 3, ex_d false 13 3), (ex_d false 0 0, ex_d false 25 4, ex_d false 0 0)) true [ex_d false 4 0];
         CAtom (s"O") (ex_d false 3 1, ex_d false 125 3, ex_d false 4 1) (ex_d false 5 1)
               ((ex_d false 15 3, ex_d false 15 3, ex_d false 15 3), (ex_d false 0 0, ex_d false 0 0, ex_d false 0 0)) false [ex_d true 2 0];
         CAtom (s"O") (ex_d false 123456789 9, ex_d false 999999996 9, ex_d false 0 0) (ex_d false 1 0)
               ((ex_d false 15 3, ex_d false 15 3, ex_d false 15 3), (ex_d false 0 0, ex_d false 0 0, ex_d true 31 4)) false [ex_d true 2 0]].
Example repr_xcfg_example : repr_xcfg ex_cstru = true /\ exists t, write_xcfg ex_cstru = Some t.
Proof. split; [vm_compute; reflexivity|]. eexists. vm_compute. reflexivity. Qed.
Example rt_xcfg_example : match write_xcfg ex_cstru with Some t => read_xcfg t | None => None end = Some (canon_xcfg ex_cstru).
Proof. vm_compute. reflexivity. Qed.
