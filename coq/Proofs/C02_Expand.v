(* C02 - what expand_exact returns: first-seen distinct images, each with the operations generating it. *)
From Coq Require Import ZArith List Bool Lia Permutation.
From DS Require Import Base.ZMat Base.SGDefs Model.GroupCheck Model.C02_Orbit Proofs.C02_Action.
Import ListNotations.
Open Scope Z_scope.

Definition memv (p : v3) (l : list v3) : bool := existsb (v3_eqb p) l.

Lemma memv_In p l : memv p l = true <-> In p l.
Proof.
  unfold memv. rewrite existsb_exists. split.
  - intros [q [Hq He]]. apply v3_eqb_eq in He. subst. exact Hq.
  - intros H. exists p. split; [exact H | apply v3_eqb_eq; reflexivity].
Qed.

Lemma v3_eqb_refl p : v3_eqb p p = true.
Proof. apply v3_eqb_eq. reflexivity. Qed.

Lemma v3_eqb_neq p q : v3_eqb p q = false <-> p <> q.
Proof.
  split.
  - intros H E. apply v3_eqb_eq in E. congruence.
  - intros H. destruct (v3_eqb p q) eqn:E; [apply v3_eqb_eq in E; contradiction | reflexivity].
Qed.

(* keys after one insertion *)
Lemma insert_keys p g acc :
  map fst (insert p g acc) = if memv p (map fst acc) then map fst acc else map fst acc ++ [p].
Proof.
  induction acc as [|[q l] r IH]; cbn [insert map fst memv existsb]; [reflexivity|].
  destruct (v3_eqb p q) eqn:E; cbn [orb map fst]; [reflexivity|].
  fold (memv p (map fst r)). rewrite IH. destruct (memv p (map fst r)); reflexivity.
Qed.

Lemma NoDup_snoc {A} (l : list A) a : NoDup l -> ~ In a l -> NoDup (l ++ [a]).
Proof.
  induction l as [|b r IH]; intros Hnd Hn; cbn.
  - constructor; [intros []|constructor].
  - inversion Hnd; subst. constructor.
    + intros H. apply in_app_or in H as [H|[H|[]]]; [contradiction|]. apply Hn. left. symmetry. exact H.
    + apply IH; [assumption|]. intros H. apply Hn. right. exact H.
Qed.

Section Expand.
  Variable D : Z.
  Variables off x : v3.
  Let im (g : symop) : v3 := img D g off x.
  Let snd_to (p : v3) (g : symop) : bool := sends D off x p g.

  Lemma filter_snoc (f : symop -> bool) l g : filter f (l ++ [g]) = filter f l ++ (if f g then [g] else []).
  Proof. rewrite filter_app. reflexivity. Qed.

  Lemma sends_self g : snd_to (im g) g = true.
  Proof. unfold snd_to, sends, im. apply v3_eqb_refl. Qed.
  Lemma sends_other q g : q <> im g -> snd_to q g = false.
  Proof. intros H. unfold snd_to, sends, im. apply v3_eqb_neq. intros E. apply H. symmetry. exact E. Qed.
  Lemma sends_iff q g : snd_to q g = true <-> im g = q.
  Proof. unfold snd_to, sends, im. apply v3_eqb_eq. Qed.

  (* lists after one insertion *)
  Lemma insert_lists pre g acc :
    NoDup (map fst acc) ->
    (forall q l, In (q, l) acc -> l = filter (snd_to q) pre) ->
    (forall g', In g' pre -> im g' = im g -> In (im g) (map fst acc)) ->
    forall q l, In (q, l) (insert (im g) g acc) -> l = filter (snd_to q) (pre ++ [g]).
  Proof.
    induction acc as [|[q0 l0] r IH]; intros Hnd Hl Hcov q l Hin.
    - cbn in Hin. destruct Hin as [Hin|[]]. inversion Hin; subst q l.
      rewrite filter_snoc, sends_self.
      replace (filter (snd_to (im g)) pre) with (@nil symop); [reflexivity|].
      destruct (filter (snd_to (im g)) pre) as [|g' t] eqn:Ef; [reflexivity|].
      assert (Hg' : In g' (filter (snd_to (im g)) pre)) by (rewrite Ef; left; reflexivity).
      apply filter_In in Hg' as [Hg'1 Hg'2]. apply sends_iff in Hg'2.
      destruct (Hcov g' Hg'1 Hg'2).
    - cbn [insert] in Hin. inversion Hnd as [|? ? Hnot Hnd']; subst.
      destruct (v3_eqb (im g) q0) eqn:E.
      + apply v3_eqb_eq in E. destruct Hin as [Hin|Hin].
        * inversion Hin; subst q l. rewrite filter_snoc. rewrite <- E at 2. rewrite sends_self.
          f_equal. apply Hl. left. reflexivity.
        * rewrite filter_snoc. assert (Hq : q <> im g).
          { intros ->. apply Hnot. rewrite <- E. change (im g) with (fst (im g, l)). apply in_map. exact Hin. }
          rewrite (sends_other q g Hq), app_nil_r. apply Hl. right. exact Hin.
      + apply v3_eqb_neq in E. destruct Hin as [Hin|Hin].
        * inversion Hin; subst q l. rewrite filter_snoc.
          rewrite (sends_other q0 g) by (intros E'; apply E; symmetry; exact E'). rewrite app_nil_r. apply Hl. left. reflexivity.
        * apply IH; try assumption.
          -- intros q' l' H'. apply Hl. right. exact H'.
          -- intros g' Hg' He. destruct (Hcov g' Hg' He) as [Hc|Hc]; [cbn in Hc; congruence | exact Hc].
  Qed.

  (* invariant of the loop over the operations *)
  Record Inv (pre : list symop) (acc : list bucket) : Prop := {
    inv_nodup : NoDup (map fst acc);
    inv_lists : forall q l, In (q, l) acc -> l = filter (snd_to q) pre;
    inv_keys : forall q, In q (map fst acc) <-> exists g, In g pre /\ im g = q
  }.

  Lemma inv_nil : Inv [] [].
  Proof.
    constructor; [constructor | intros q l [] |].
    intros q. split; [intros [] | intros [g [[] _]]].
  Qed.

  Lemma inv_step pre g acc : Inv pre acc -> Inv (pre ++ [g]) (insert (im g) g acc).
  Proof.
    intros [Hnd Hl Hk]. constructor.
    - rewrite insert_keys. destruct (memv (im g) (map fst acc)) eqn:E; [exact Hnd|].
      apply NoDup_snoc; [exact Hnd|]. intros H; apply memv_In in H; congruence.
    - apply insert_lists; try assumption.
      intros g' Hg' He. apply Hk. exists g'. split; assumption.
    - intros q. rewrite insert_keys.
      assert (Hq : In q (map fst acc) \/ q = im g <-> exists g0, In g0 (pre ++ [g]) /\ im g0 = q).
      { rewrite Hk. split.
        - intros [[g0 [H1 H2]]| ->]; [exists g0; split; [apply in_or_app; left|]; assumption|].
          exists g. split; [apply in_or_app; right; left|]; reflexivity.
        - intros [g0 [H1 H2]]. apply in_app_or in H1 as [H1|[H1|[]]].
          + left. exists g0. split; assumption.
          + right. subst. reflexivity. }
      rewrite <- Hq. destruct (memv (im g) (map fst acc)) eqn:E.
      + apply memv_In in E. split; [intros H; left; exact H | intros [H| ->]; assumption].
      + rewrite in_app_iff. cbn. split; [intros [H|[H|[]]]; [left; exact H | right; symmetry; exact H] |
                                        intros [H| ->]; [left; exact H | right; left; reflexivity]].
  Qed.

  Lemma inv_fold G pre acc : Inv pre acc ->
    Inv (pre ++ G) (fold_left (fun acc g => insert (im g) g acc) G acc).
  Proof.
    revert pre acc. induction G as [|g G IH]; intros pre acc H; cbn [fold_left].
    - rewrite app_nil_r. exact H.
    - replace (pre ++ g :: G) with ((pre ++ [g]) ++ G) by (rewrite <- app_assoc; reflexivity).
      apply IH. apply inv_step. exact H.
  Qed.

  Lemma inv_expand G : Inv G (expand_steps D off x G []).
  Proof. apply (inv_fold G [] []). exact inv_nil. Qed.

  (* the first key never changes once present *)
  Lemma fold_keeps_head G : forall q l r, exists l' r',
    fold_left (fun acc g => insert (im g) g acc) G ((q, l) :: r) = (q, l') :: r'.
  Proof.
    induction G as [|g G IH]; intros q l r; cbn [fold_left].
    - exists l, r. reflexivity.
    - cbn [insert]. destruct (v3_eqb (im g) q); apply IH.
  Qed.

  Lemma lists_by_key G acc : Inv G acc -> map snd acc = map (fun p => filter (snd_to p) G) (map fst acc).
  Proof.
    intros [_ Hl _]. induction acc as [|[q l] r IH]; cbn [map fst snd]; [reflexivity|].
    f_equal; [apply Hl; left; reflexivity | apply IH]. intros q' l' H. apply Hl. right. exact H.
  Qed.
End Expand.

(* --- counting helpers --------------------------------------------------------------------- *)
Lemma NoDup_app_disjoint {A} (l1 l2 : list A) :
  NoDup l1 -> NoDup l2 -> (forall a, In a l1 -> In a l2 -> False) -> NoDup (l1 ++ l2).
Proof.
  induction l1 as [|a r IH]; intros H1 H2 Hd; cbn; [exact H2|].
  inversion H1; subst. constructor.
  - intros H. apply in_app_or in H as [H|H]; [contradiction | apply (Hd a); [left; reflexivity | exact H]].
  - apply IH; try assumption. intros b Hb1 Hb2. apply (Hd b); [right; exact Hb1 | exact Hb2].
Qed.

Lemma NoDup_concat_map {A B} (f : A -> list B) (l : list A) :
  NoDup l -> (forall a, In a l -> NoDup (f a)) ->
  (forall a b y, In a l -> In b l -> In y (f a) -> In y (f b) -> a = b) ->
  NoDup (concat (map f l)).
Proof.
  induction l as [|a r IH]; intros Hnd Hf Hdis; cbn; [constructor|].
  inversion Hnd; subst. apply NoDup_app_disjoint.
  - apply Hf. left. reflexivity.
  - apply IH; [assumption | intros b Hb; apply Hf; right; exact Hb |].
    intros b c y Hb Hc. apply Hdis; right; assumption.
  - intros y Hy1 Hy2. apply in_concat in Hy2 as [ly [Hly Hy2]]. apply in_map_iff in Hly as [b [<- Hb]].
    assert (a = b) by (apply (Hdis a b y); [left; reflexivity | right; exact Hb | exact Hy1 | exact Hy2]).
    subst. contradiction.
Qed.

Lemma length_concat_const {A B} (f : A -> list B) (l : list A) (n : nat) :
  (forall a, In a l -> List.length (f a) = n) -> List.length (concat (map f l)) = (List.length l * n)%nat.
Proof.
  induction l as [|a r IH]; intros H; cbn; [reflexivity|].
  rewrite app_length, IH, H; [reflexivity | left; reflexivity | intros b Hb; apply H; right; exact Hb].
Qed.
