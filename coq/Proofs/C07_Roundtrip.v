(* C07 - every operation of every tabulated setting, written in each of the spellings of
   Model/C07_SymopText.all_styles, is read back by the model of getSymOp as that operation.
   Finite: decided by the kernel over the tables regenerated from the source. *)
From Coq Require Import ZArith List Bool String.
From DS Require Import Base.ZMat Base.SGDefs Model.GroupCheck Model.C07_Text Model.C07_SymopText Gen.SGTables.
Import ListNotations.

Lemma roundtrip_b : forallb roundtrip_setting all_settings = true.
Proof. vm_compute. reflexivity. Qed.

Lemma symop_text_roundtrip : forall s o st, In s all_settings -> In o (sg_ops s) -> In st all_styles ->
  parse_symop (render st o) = Some o.
Proof.
  intros s o st Hs Ho Hst. pose proof roundtrip_b as H. rewrite forallb_forall in H. specialize (H s Hs).
  unfold roundtrip_setting in H. rewrite forallb_forall in H. specialize (H o Ho).
  unfold roundtrip_op in H. rewrite forallb_forall in H. specialize (H st Hst).
  destruct (parse_symop (render st o)) as [o'|]; [|discriminate]. apply op_eqb_eq in H. subst. reflexivity.
Qed.

(* the grammar is not trivial: nine spellings, and text outside the numeric grammar is an error *)
Example styles_count : List.length all_styles = 9%nat. Proof. reflexivity. Qed.
Example spellings_of_one_operation :
  map (fun st => render st (M3 1 (-1) 0 0 (-1) 0 0 0 (-1), V3 4 8 2)) all_styles =
  ["x-y+1/3,-y+2/3,-z+1/6"; "1/3+x-y,2/3-y,1/6-z"; "x-y+0.333333,-y+0.666667,-z+0.166667";
   " X - Y + 1/3 ,   - Y + 2/3 ,   - Z + 1/6 "; "+x-y+1/3,-y+2/3,-z+1/6"; "-y+x+1/3,-y+2/3,-z+1/6";
   "x-y+4/12,-y+8/12,-z+2/12"; "x-y-2/3,-y-1/3,-z-5/6"; "x-y+0.33333,-y+0.66667,-z+0.16667"]%string.
Proof. vm_compute. reflexivity. Qed.
Example non_numeric_rejected :
  map get_symop ["x,y"; "x,y,z+1/0"; "x,y,z+__import__('os').getpid()*0"; "x,y,z+(1/2)"; "x,y,z+1/2/3"]%string = [None; None; None; None; None].
Proof. vm_compute. reflexivity. Qed.
