(* C09 - proofs about the state machine over R.  The accessor bodies come from Gen/C09_AtomFormulas.v (translated from
   atom.py); each is first characterised by a lemma, the history theorems are then proved from the characterisations. *)
From Coq Require Import Reals Lra List Bool.
From DS Require Import Base.RMat Base.C09_GNum Model.C09_Prims Gen.C09_AtomFormulas Model.C09_AtomADP Proofs.C09_Algebra.
Import ListNotations.
Open Scope R_scope.

(* the real-number context: exact arithmetic, PI, sqrt, and the unit cubic cell for atoms without a lattice *)
Definition RC (eps : R) : cctx R := CC ROps PI sqrt (cart_lat ROps eps).

Ltac gen_unfold :=
  unfold step, set_Un, set_Bn, get_Un, get_Bn, rd_U, rd_Uiso, rd_Biso, rd_aniso, rd_msdLat, rd_msdCart, the_lat,
    msdLat, msdCart, set_anisotropy, set_U, set_Uisoequiv, set_Bisoequiv, get_Bisoequiv, get_U,
    set_U11, set_U22, set_U33, set_U12, set_U13, set_U23, set_B11, set_B22, set_B33, set_B12, set_B13, set_B23,
    get_U11, get_U22, get_U33, get_U12, get_U13, get_U23, get_B11, get_B22, get_B33, get_B12, get_B13, get_B23,
    set_Uij, get_Uij, get_Uisoequiv, get_anisotropy, Lattice_norm, Lattice_cartesian, c_UtoB, c_BtoU, c_lat_epsilon, copy_Atom in *;
  cbv zeta in *;
  cbn [RC cO cpi csqrt ccart st_U st_aniso st_lat set_stU set_staniso set_stlat fst snd lat_or negb andb idx_eqb Bool.eqb
       cart_lat l_a l_b l_c l_ar l_br l_cr l_ca l_cb l_cg l_metrics l_base l_normbase l_isotropicunit l_epsilon] in *.

Section WithEps.
Variable eps : R.
Hypothesis eps_pos : 0 < eps.
Local Notation C := (RC eps).

Definition N_of (s : astate R) : mat := toM (l_normbase (the_lat C s)).
Definition iso_of (s : astate R) : gmat R := l_isotropicunit (the_lat C s).
Definition k8pi2 : R := 8 * (PI * PI).

Lemma k8pi2_neq : k8pi2 <> 0.
Proof. unfold k8pi2. pose proof PI_RGT_0. nra. Qed.
Lemma UtoB_val : c_UtoB C = k8pi2.
Proof. unfold c_UtoB, c_BtoU, k8pi2. cbv zeta. cbn. pose proof PI_RGT_0. field. lra. Qed.
Lemma BtoU_val : c_BtoU C = / k8pi2.
Proof. unfold c_BtoU, k8pi2. cbv zeta. cbn. pose proof PI_RGT_0. field. lra. Qed.

(* invariant carried along every history *)
Definition lat_ok_opt (l : option (latdata R)) : Prop := match l with Some x => lat_ok x | None => True end.
Definition inv (s : astate R) : Prop := (st_aniso s = true -> gsym (st_U s)) /\ lat_ok_opt (st_lat s).
Definition op_ok (o : op R) : Prop :=
  match o with OSetU m => gsym m | OSetLat l => lat_ok_opt l | _ => True end.

Lemma the_lat_ok s : inv s -> lat_ok (the_lat C s).
Proof.
  intros [_ H]. unfold the_lat. destruct (st_lat s); cbn in *; [exact H | apply cart_lat_ok; exact eps_pos].
Qed.

(* ---------- characterisation of the generated accessors ---------- *)
Lemma rd_U_char s : rd_U C s = if st_aniso s then st_U s else gmscale ROps (mget (st_U s) i0 i0) (iso_of s).
Proof. unfold iso_of. gen_unfold. destruct (st_aniso s); reflexivity. Qed.

Lemma readU_char s : fst (get_U C s) = if st_aniso s then s else set_stU s (gmscale ROps (mget (st_U s) i0 i0) (iso_of s)).
Proof. unfold iso_of. gen_unfold. destruct (st_aniso s); reflexivity. Qed.

Lemma get_Un_char n s :
  get_Un C n s = if st_aniso s then mget (st_U s) (name_i n) (name_j n)
                 else mget (st_U s) i0 i0 * mget (iso_of s) (name_i n) (name_j n).
Proof. unfold iso_of. destruct n; gen_unfold; destruct (st_aniso s); reflexivity. Qed.

Lemma get_Un_rd_U n s : get_Un C n s = mget (rd_U C s) (name_i n) (name_j n).
Proof.
  rewrite get_Un_char, rd_U_char. destruct (st_aniso s); [reflexivity|].
  destruct (iso_of s) as [ra rb rc]; dgv ra; dgv rb; dgv rc. destruct n; reflexivity.
Qed.

Lemma get_Bn_char n s : get_Bn C n s = k8pi2 * get_Un C n s.
Proof. rewrite <- UtoB_val. destruct n; reflexivity. Qed.

Lemma Biso_char s : rd_Biso C s = k8pi2 * rd_Uiso C s.
Proof. rewrite <- UtoB_val. reflexivity. Qed.

Lemma Uiso_iso s : st_aniso s = false -> rd_Uiso C s = mget (st_U s) i0 i0.
Proof. intros H. gen_unfold. rewrite H. reflexivity. Qed.

(* the explicit sum of the Uisoequiv getter is one third of the trace in Cartesian axes *)
Lemma Uiso_aniso s : st_aniso s = true -> gsym (st_U s) -> lat_ok (the_lat C s) ->
  rd_Uiso C s = mtrace (mmul (mT (N_of s)) (mmul (toM (st_U s)) (N_of s))) / 3.
Proof.
  intros Ha Hs Hl. unfold N_of. rewrite (trace_cart_sym _ _ Hs). cbv zeta.
  rewrite (lo_norm _ Hl), gram_normbase. cbv zeta. rewrite <- (lo_gram _ Hl), (lo_metr _ Hl).
  cbn [a11 a12 a13 a21 a22 a23 a31 a32 a33].
  gen_unfold. rewrite Ha. cbn [negb].
  destruct s as [U an lat]. cbn [st_lat st_U] in *. destruct lat as [l|]; cbn [lat_or] in *.
  - dgm U. destruct Hs as [S1 [S2 S3]]. g_simpl. rm_simpl. subst. field.
  - dgm U. destruct Hs as [S1 [S2 S3]]. g_simpl. rm_simpl. subst. unfold cart_lat. cbn [l_a l_b l_c l_ar l_br l_cr l_ca l_cb l_cg t0 t1 ROps]. field.
Qed.

Lemma iso_sym s : inv s -> gsym (iso_of s).
Proof.
  intros Hi. destruct (lo_iso _ (the_lat_ok s Hi)) as [mr [_ E]]. unfold gsym, iso_of. rewrite E. apply msym_gram.
Qed.

(* N^T iso N = I *)
Lemma iso_cart s : inv s -> mmul (mT (N_of s)) (mmul (toM (iso_of s)) (N_of s)) = I.
Proof.
  intros Hi. destruct (lo_iso _ (the_lat_ok s Hi)) as [mr [E1 E2]]. unfold iso_of, N_of. rewrite E2.
  apply unit_iso_cart. exact E1.
Qed.

Lemma toM_gmscale_r k a : toM (gmscale_r ROps k a) = mscale k (toM a).
Proof. dgm a; apply mat_eq; g_simpl; rm_simpl; ring. Qed.
Lemma gsym_gmscale k m : gsym m -> gsym (gmscale ROps k m).
Proof. unfold gsym. rewrite toM_gmscale. apply msym_mscale. Qed.
Lemma gsym_gmscale_r k m : gsym m -> gsym (gmscale_r ROps k m).
Proof. intros [A [B D]]. dgm m. unfold gsym, msym in *. g_simpl. rm_simpl. subst. repeat split; reflexivity. Qed.
Lemma gsym_mset2 m i j v : gsym m -> gsym (mset (mset m i j v) j i v).
Proof. intros [A [B D]]. dgm m. unfold gsym, msym in *. destruct i, j; g_simpl; rm_simpl; subst; repeat split; reflexivity. Qed.

Lemma set_Uij_inv s i j v : inv s -> inv (set_Uij C s i j v).
Proof.
  intros [Hs Hl]. destruct s as [U an lat]. gen_unfold. cbn [st_aniso st_lat st_U] in *. destruct an; cbn [negb andb].
  - split; cbn [st_aniso st_U st_lat]; [intros _; apply gsym_mset2; apply Hs; reflexivity | exact Hl].
  - destruct (idx_eqb i j && negb (idx_eqb j i0))%bool; split; cbn [st_aniso st_U st_lat]; try discriminate; exact Hl.
Qed.

Lemma set_Uiso_inv s v : inv s -> inv (set_Uisoequiv C s v).
Proof.
  intros Hi. pose proof (iso_sym s Hi) as Hsym. unfold iso_of, the_lat in Hsym. destruct Hi as [Hs Hl].
  destruct s as [U an lat]. gen_unfold. cbn [st_aniso st_lat st_U] in *. destruct an.
  - match goal with |- context [tltb ROps ?a ?b] => destruct (tltb ROps a b) end; split; cbn [st_aniso st_U st_lat]; try exact Hl; intros _.
    + apply gsym_gmscale. exact Hsym.
    + apply gsym_gmscale_r. apply Hs. reflexivity.
  - split; cbn [st_aniso st_U st_lat]; [discriminate | exact Hl].
Qed.

Lemma set_aniso_inv s b : inv s -> inv (set_anisotropy C s b).
Proof.
  intros Hi. pose proof (iso_sym s Hi) as Hsym. unfold iso_of, the_lat in Hsym. destruct Hi as [Hs Hl].
  destruct s as [U an lat]. gen_unfold. cbn [st_aniso st_lat st_U] in *.
  destruct b, an; cbn [Bool.eqb negb fst snd st_U st_aniso st_lat set_stU set_staniso]; split; cbn [st_aniso st_U st_lat];
    try exact Hl; try discriminate; try exact Hs.
  intros _. apply gsym_gmscale. exact Hsym.
Qed.

Lemma step_inv s o : inv s -> op_ok o -> inv (step C s o).
Proof.
  intros Hi Ho. destruct o; cbn [step op_ok] in *.
  - apply set_aniso_inv; exact Hi.
  - destruct Hi as [_ Hl]. split; [intros _; exact Ho | exact Hl].
  - destruct n; apply set_Uij_inv; exact Hi.
  - destruct n; apply set_Uij_inv; exact Hi.
  - apply set_Uiso_inv; exact Hi.
  - apply set_Uiso_inv; exact Hi.
  - destruct Hi as [Hs _]. split; [exact Hs | exact Ho].
  - rewrite readU_char. destruct Hi as [Hs Hl]. destruct (st_aniso s) eqn:E; [split; [intros _; apply Hs; reflexivity | exact Hl]|].
    split; cbn [set_stU st_aniso st_U st_lat]; [rewrite E; discriminate | exact Hl].
  - destruct Hi as [Hs Hl]. destruct s as [U an lat]. gen_unfold. cbn [st_aniso st_U st_lat] in *.
    destruct an; cbn [negb fst]; split; cbn [st_aniso st_U st_lat]; try exact Hl; try discriminate. exact Hs.
  - destruct s as [U an lat]. exact Hi.
Qed.

Lemma run_inv ops : forall s, inv s -> Forall op_ok ops -> inv (run C s ops).
Proof.
  induction ops as [|o r IH]; intros s Hi Hf; [exact Hi|]. inversion Hf; subst. cbn [run fold_left].
  apply IH; [apply step_inv; assumption | assumption].
Qed.

Lemma init_inv : inv (init C).
Proof. split; cbn; [discriminate | exact Logic.I]. Qed.

(* ---------- the coherence clauses hold in every state satisfying the invariant ---------- *)
Lemma rd_U_sym s : inv s -> gsym (rd_U C s).
Proof.
  intros Hi. rewrite rd_U_char. destruct (st_aniso s) eqn:E; [apply (proj1 Hi); exact E | apply gsym_gmscale, iso_sym; exact Hi].
Qed.

Lemma iso_tensor s : st_aniso s = false -> rd_U C s = gmscale ROps (rd_Uiso C s) (iso_of s).
Proof. intros E. rewrite rd_U_char, E, (Uiso_iso s E). reflexivity. Qed.

Lemma uiso_third_trace s : inv s ->
  rd_Uiso C s = mtrace (mmul (mT (N_of s)) (mmul (toM (rd_U C s)) (N_of s))) / 3.
Proof.
  intros Hi. rewrite rd_U_char. destruct (st_aniso s) eqn:E.
  - apply Uiso_aniso; [exact E | apply (proj1 Hi); exact E | apply the_lat_ok; exact Hi].
  - rewrite toM_gmscale, mmul_mscale_l, mmul_mscale_r, mtrace_mscale, (iso_cart s Hi), mtrace_I, (Uiso_iso s E). field.
Qed.

(* ---------- flag off / on ---------- *)
Lemma same_lat_step_aniso s b : st_lat (set_anisotropy C s b) = st_lat s.
Proof. destruct s as [U an lat]. gen_unfold. destruct b, an; reflexivity. Qed.

Lemma set_aniso_flag s b : st_aniso (set_anisotropy C s b) = b.
Proof. destruct s as [U an lat]. gen_unfold. destruct b, an; reflexivity. Qed.

Lemma set_aniso_keeps_uiso s b : inv s -> rd_Uiso C (set_anisotropy C s b) = rd_Uiso C s.
Proof.
  intros Hi. pose proof (set_aniso_inv s b Hi) as Hi'.
  destruct (Bool.eqb b (st_aniso s)) eqn:Eb.
  { destruct s as [U an lat]. gen_unfold. cbn [st_aniso] in Eb. rewrite Eb. reflexivity. }
  destruct b.
  - (* off -> on : storage becomes value * unit tensor *)
    assert (Ea : st_aniso s = false) by (destruct (st_aniso s); [discriminate | reflexivity]).
    rewrite (uiso_third_trace _ Hi'), (Uiso_iso s Ea).
    assert (EN : N_of (set_anisotropy C s true) = N_of s).
    { unfold N_of, the_lat. rewrite same_lat_step_aniso. reflexivity. }
    assert (EU : rd_U C (set_anisotropy C s true) = gmscale ROps (mget (st_U s) i0 i0) (iso_of s)).
    { destruct s as [U an lat]. cbn [st_aniso] in Ea. subst an. unfold iso_of. gen_unfold. reflexivity. }
    rewrite EN, EU, toM_gmscale, mmul_mscale_l, mmul_mscale_r, mtrace_mscale, (iso_cart s Hi), mtrace_I. field.
  - (* on -> off : the first storage element receives the equivalent value *)
    assert (Ea : st_aniso s = true) by (destruct (st_aniso s); [reflexivity | discriminate]).
    rewrite (Uiso_iso _ (set_aniso_flag s false)).
    destruct s as [U an lat]. cbn [st_aniso] in Ea. subst an. gen_unfold. dgm U. reflexivity.
Qed.

Lemma flag_roundtrip s : inv s ->
  rd_Uiso C (set_anisotropy C (set_anisotropy C s (negb (st_aniso s))) (st_aniso s)) = rd_Uiso C s.
Proof.
  intros Hi. rewrite set_aniso_keeps_uiso; [apply set_aniso_keeps_uiso; exact Hi | apply set_aniso_inv; exact Hi].
Qed.

(* ---------- set / get laws ---------- *)
Lemma setU_get s m : rd_U C (set_U C s m) = if st_aniso s then m else gmscale ROps (mget m i0 i0) (iso_of s).
Proof. rewrite rd_U_char. destruct s as [U an lat]. unfold iso_of. gen_unfold. reflexivity. Qed.

Lemma setUn_get_aniso s n v : st_aniso s = true -> get_Un C n (set_Un C n s v) = v.
Proof.
  intros E. destruct s as [U an lat]. cbn [st_aniso] in E. subst an. dgm U. destruct n; gen_unfold; reflexivity.
Qed.

(* flag off: a diagonal component sets the isotropic value (hence the whole tensor), an off-diagonal one changes nothing readable *)
Lemma setUn_iso_diag s n v : st_aniso s = false -> name_diag n = true ->
  rd_Uiso C (set_Un C n s v) = v /\ st_aniso (set_Un C n s v) = false /\ st_lat (set_Un C n s v) = st_lat s.
Proof.
  intros E Hd. destruct s as [U an lat]. cbn [st_aniso] in E. subst an. dgm U.
  destruct n; try discriminate; gen_unfold; repeat split; reflexivity.
Qed.
Lemma setUn_iso_offdiag s n v : st_aniso s = false -> name_diag n = false ->
  mget (st_U (set_Un C n s v)) i0 i0 = mget (st_U s) i0 i0 /\ st_aniso (set_Un C n s v) = false /\ st_lat (set_Un C n s v) = st_lat s.
Proof.
  intros E Hd. destruct s as [U an lat]. cbn [st_aniso] in E. subst an. dgm U.
  destruct n; try discriminate; gen_unfold; repeat split; reflexivity.
Qed.

Lemma setBn_is_setUn s n v : set_Bn C n s v = set_Un C n s (v / k8pi2).
Proof.
  unfold Rdiv. rewrite <- BtoU_val, Rmult_comm. destruct n; reflexivity.
Qed.
Lemma setBiso_is_setUiso s v : set_Bisoequiv C s v = set_Uisoequiv C s (v / k8pi2).
Proof. unfold Rdiv. rewrite <- BtoU_val, Rmult_comm. reflexivity. Qed.

Lemma setBn_get_aniso s n v : st_aniso s = true -> get_Bn C n (set_Bn C n s v) = v.
Proof.
  intros E. rewrite get_Bn_char, setBn_is_setUn, (setUn_get_aniso _ _ _ E). field. apply k8pi2_neq.
Qed.

Lemma setUiso_get s v : inv s -> rd_Uiso C (set_Uisoequiv C s v) = v.
Proof.
  intros Hi. pose proof (set_Uiso_inv s v Hi) as Hi'.
  destruct (st_aniso s) eqn:Ea.
  - assert (Ea' : st_aniso (set_Uisoequiv C s v) = true).
    { destruct s as [U an lat]. cbn [st_aniso] in Ea. subst an. gen_unfold.
      match goal with |- context [tltb ROps ?a ?b] => destruct (tltb ROps a b) end; reflexivity. }
    assert (EL : st_lat (set_Uisoequiv C s v) = st_lat s).
    { destruct s as [U an lat]. cbn [st_aniso] in Ea. subst an. gen_unfold.
      match goal with |- context [tltb ROps ?a ?b] => destruct (tltb ROps a b) end; reflexivity. }
    assert (EN : N_of (set_Uisoequiv C s v) = N_of s) by (unfold N_of, the_lat; rewrite EL; reflexivity).
    rewrite (uiso_third_trace _ Hi'), rd_U_char, Ea', EN.
    pose proof (uiso_third_trace s Hi) as Hu. rewrite rd_U_char, Ea in Hu.
    pose proof (iso_cart s Hi) as Hc. pose proof (lo_eps _ (the_lat_ok s Hi)) as Hep.
    unfold iso_of, the_lat in Hc. unfold the_lat in Hep. unfold rd_Uiso in Hu. cbn [RC ccart] in Hc, Hep.
    destruct s as [U an lat]. cbn [st_aniso] in Ea. subst an.
    unfold set_Uisoequiv. cbv zeta. cbn [RC cO cpi csqrt ccart]. unfold get_anisotropy at 1. cbv zeta. cbn [st_aniso st_lat st_U] in *.
    match goal with |- context [tltb ROps ?a ?b] => destruct (tltb ROps a b) eqn:Et end; cbn [set_stU st_U]; cbn [tltb tabs ROps] in Et.
    + rewrite toM_gmscale, mmul_mscale_l, mmul_mscale_r, mtrace_mscale, Hc, mtrace_I. field.
    + apply Rltb_false in Et.
      assert (Hnz : get_Uisoequiv C (AS U true lat) <> 0).
      { intros Z. rewrite Z, Rabs_R0 in Et. lra. }
      set (q := get_Uisoequiv C (AS U true lat)) in *.
      cbn [tdiv ROps]. rewrite toM_gmscale_r, mmul_mscale_l, mmul_mscale_r, mtrace_mscale. fold C in Hu. rewrite Hu in Hnz |- *.
      field. intros Z. apply Hnz. rewrite Z. field.
  - rewrite Uiso_iso.
    + destruct s as [U an lat]. cbn [st_aniso] in Ea. subst an. gen_unfold. dgm U. reflexivity.
    + destruct s as [U an lat]. cbn [st_aniso] in Ea. subst an. gen_unfold. reflexivity.
Qed.

Lemma setBiso_get s v : inv s -> rd_Biso C (set_Bisoequiv C s v) = v.
Proof.
  intros Hi. rewrite Biso_char, setBiso_is_setUiso, (setUiso_get _ _ Hi). field. apply k8pi2_neq.
Qed.

Lemma msdLat_pure s v : fst (msdLat C s v) = s.
Proof. destruct s as [U an lat]. gen_unfold. destruct an; reflexivity. Qed.

Lemma msd_flag_off s v : st_aniso s = false -> rd_msdLat C s v = rd_Uiso C s /\ rd_msdCart C s v = rd_Uiso C s.
Proof. intros E. destruct s as [U an lat]. cbn [st_aniso] in E. subst an. gen_unfold. split; reflexivity. Qed.

Lemma msd_id1 n u x : vdot x (mvmul (mmul (mT n) (mmul u n)) x) = vdot (mvmul n x) (mvmul u (mvmul n x)).
Proof. dmat n; dmat u; dvec x; rm_simpl; ring. Qed.
Lemma mvmul_mmul a b x : mvmul (mmul a b) x = mvmul a (mvmul b x).
Proof. dmat a; dmat b; dvec x; apply vec_eq; rm_simpl; ring. Qed.
Lemma mvmul_vmul_gram b v : mvmul b (vmul v b) = mvmul (mmul b (mT b)) v.
Proof. dmat b; dvec v; apply vec_eq; rm_simpl; ring. Qed.
Lemma mvmul_vscale a k x : mvmul a (vscale k x) = vscale k (mvmul a x).
Proof. dmat a; dvec x; apply vec_eq; rm_simpl; ring. Qed.
Lemma msd_id2 d1 d2 d3 b v k :
  mvmul (mmul (diag3 d1 d2 d3) b) (vscale k (vmul v b)) = mvmul (mmul (diag3 d1 d2 d3) (mmul b (mT b))) (vscale k v).
Proof. rewrite !mvmul_mmul, !mvmul_vscale, mvmul_vmul_gram, mvmul_mmul. reflexivity. Qed.
Lemma toV_gvdivs v k : toV (gvdivs ROps v k) = vscale (/ k) (toV v).
Proof. dgv v; apply vec_eq; g_simpl; rm_simpl; unfold Rdiv; ring. Qed.
Lemma toM_rowscale d1 d2 d3 g :
  toM (GM (gvscale ROps d1 (mrow g i0)) (gvscale ROps d2 (mrow g i1)) (gvscale ROps d3 (mrow g i2))) = mmul (diag3 d1 d2 d3) (toM g).
Proof. dgm g; unfold diag3; apply mat_eq; g_simpl; rm_simpl; ring. Qed.

Lemma msd_lat_cart s v : inv s -> st_aniso s = true ->
  rd_msdLat C s v = rd_msdCart C s (Lattice_cartesian C (the_lat C s) v).
Proof.
  intros Hi Ea. pose proof (the_lat_ok s Hi) as Hl. destruct Hl as [H1 H2 _ _ _].
  destruct s as [U an lat]. cbn [st_aniso] in Ea. subst an. gen_unfold.
  generalize dependent (lat_or lat (cart_lat ROps eps)). intros L Hx Hy.
  rewrite !gvdot_toV, !toV_gmvmul, !toM_gmmul, toM_gmT, !toV_gvdivs, toM_rowscale, toV_gvmmul.
  rewrite msd_id1, Hx, Hy, msd_id2. reflexivity.
Qed.

(* in an anisotropic state whose tensor is u times the unit tensor the displacement is u along every direction
   whose Cartesian length is not zero *)
Lemma msd_cart_isotropic_tensor s u vc : inv s -> st_aniso s = true -> st_U s = gmscale ROps u (iso_of s) ->
  gvsum ROps (gvsq ROps vc) <> 0 -> rd_msdCart C s vc = u.
Proof.
  intros Hi Ea EU Hn. pose proof (iso_cart s Hi) as Hc. unfold iso_of, N_of, the_lat in *.
  destruct s as [U an lat]. cbn [st_aniso st_U st_lat] in *. subst an. gen_unfold. rewrite EU.
  generalize dependent (lat_or lat (cart_lat ROps eps)). intros L _ Hc.
  rewrite gvdot_toV, toV_gmvmul, !toM_gmmul, toM_gmT, toM_gmscale, mmul_mscale_l, mmul_mscale_r, Hc, toV_gvdivs.
  assert (Hs : 0 <= gvsum ROps (gvsq ROps vc)).
  { dgv vc. g_simpl. nra. }
  set (q := gvsum ROps (gvsq ROps vc)) in *.
  assert (Hq : sqrt q * sqrt q = q) by (apply sqrt_sqrt; exact Hs).
  assert (Hsq : sqrt q <> 0) by (intros Z; rewrite Z in Hq; lra).
  assert (Ev : vdot (toV vc) (toV vc) = q) by (unfold q; dgv vc; g_simpl; rm_simpl; ring).
  transitivity (u * (/ sqrt q * / sqrt q) * vdot (toV vc) (toV vc)).
  { dgv vc. g_simpl. rm_simpl. ring. }
  rewrite Ev. rewrite <- Hq at 3. field. exact Hsq.
Qed.

(* ---------- stale storage never becomes readable ---------- *)
(* two states are observationally equal when flag and lattice agree and the part of the storage the flag makes
   meaningful agrees: the whole tensor (flag on) or only the first element (flag off) *)
Definition obs_eq (s s' : astate R) : Prop :=
  st_aniso s = st_aniso s' /\ st_lat s = st_lat s' /\
  (if st_aniso s then st_U s = st_U s' else mget (st_U s) i0 i0 = mget (st_U s') i0 i0).

Lemma obs_eq_refl s : obs_eq s s.
Proof. repeat split. destruct (st_aniso s); reflexivity. Qed.

Ltac obs_start :=
  match goal with H : obs_eq ?s ?s' |- _ =>
    destruct s as [U an lat]; destruct s' as [U' an' lat']; destruct H as [Ha [Hl Hu]];
    cbn [st_aniso st_lat st_U] in Ha, Hl, Hu; subst an' lat'; destruct an;
    [subst U' | dgm U; dgm U'; g_simpl; subst] end.

Lemma step_obs_eq s s' o : obs_eq s s' -> obs_eq (step C s o) (step C s' o).
Proof.
  intros H. destruct o; obs_start; try apply obs_eq_refl;
    try (destruct b); try (destruct n); gen_unfold; g_simpl; repeat split; reflexivity.
Qed.

Lemma run_obs_eq ops : forall s s', obs_eq s s' -> obs_eq (run C s ops) (run C s' ops).
Proof.
  induction ops as [|o r IH]; intros s s' H; [exact H|]. cbn [run fold_left]. apply IH, step_obs_eq, H.
Qed.

Lemma observe_obs_eq s s' : obs_eq s s' -> observe C s = observe C s'.
Proof.
  intros H. obs_start; [reflexivity|]. unfold observe, all_names. cbn [map]. gen_unfold. g_simpl. reflexivity.
Qed.

Lemma msd_obs_eq s s' v : obs_eq s s' -> rd_msdLat C s v = rd_msdLat C s' v /\ rd_msdCart C s v = rd_msdCart C s' v.
Proof.
  intros H. obs_start; [split; reflexivity|]. gen_unfold. g_simpl. split; reflexivity.
Qed.
End WithEps.
