(* C04 - pdb: reading the written text yields canon (fixed columns; 3-decimal Cartesian positions, 2-decimal occupancy
   and B, ANISOU integers in units of 1e-4, CRYST1 at 3/2 decimals), for every structure whose fields fit their columns. *)
From Coq Require Import List Bool Arith NArith ZArith Lia.
From Coq Require Import Ascii.
From DS Require Import Base.C04_Text Base.C04_Decimal Model.C04_Fmt Model.C04_Cols Gen.C04_FmtSpecs Model.C04_Xyz Model.C04_Pdffit Model.C04_Pdb.
From DS Require Import Proofs.C04_Fmt Proofs.C04_Cols Proofs.C04_NoDrift Proofs.C04_Xyz Proofs.C04_Lines Proofs.C04_Pdffit.
Import ListNotations.

Local Opaque fix_body int_body lpad rpad parse_float parse_int strip lstrip rstrip.

(* ---- small facts ---- *)
Lemma lstrip_app_ws a b : all_ws a = true -> lstrip (a ++ b) = lstrip b.
Proof.
  Local Transparent lstrip.
  induction a as [|c a IH]; intros H; [reflexivity|]. change (is_ws c && all_ws a = true) in H. apply andb_true_iff in H. destruct H as [Hc Ha].
  cbn. rewrite Hc. exact (IH Ha).
  Local Opaque lstrip.
Qed.

Lemma rstrip_app_ws t p : all_ws p = true -> rstrip (t ++ p) = rstrip t.
Proof.
  Local Transparent rstrip.
  intros H. unfold rstrip. rewrite rev_app_distr, lstrip_app_ws; [reflexivity|].
  unfold all_ws in *. rewrite forallb_forall in *. intros x Hx. apply H. apply in_rev. exact Hx.
  Local Opaque rstrip.
Qed.

Lemma rpad_length w t : (List.length t <= w)%nat -> List.length (rpad w t) = w.
Proof. Local Transparent rpad. intros H. unfold rpad. rewrite app_length, repeat_length. lia. Local Opaque rpad. Qed.
Lemma rpad_eq w t : rpad w t = t ++ repeat sp (w - List.length t).
Proof. Local Transparent rpad. reflexivity. Local Opaque rpad. Qed.
Lemma lpad_eq w t : lpad w t = repeat sp (w - List.length t) ++ t.
Proof. Local Transparent lpad. reflexivity. Local Opaque lpad. Qed.

Lemma strip_rpad w t : no_ws t = true -> strip (rpad w t) = t.
Proof. intros H. rewrite rpad_eq. change (t ++ repeat sp (w - List.length t)) with ([] ++ t ++ repeat sp (w - List.length t)).
  apply strip_pad_tok; [reflexivity|apply all_ws_spaces|exact H]. Qed.
Lemma strip_lpad w t : no_ws t = true -> strip (lpad w t) = t.
Proof. intros H. rewrite lpad_eq. rewrite <- (app_nil_r t) at 2. apply strip_pad_tok; [apply all_ws_spaces|reflexivity|exact H]. Qed.

Lemma pad_of_starts L : pad_of L = [] \/ starts_ws (pad_of L) = true.
Proof. induction L as [|a L IH]; [left; reflexivity|]. cbn. destruct (is_ws a) eqn:E; [right; cbn; exact E|exact IH]. Qed.

(* record name of a line  L ++ X  with a 6-character head *)
Lemma record_of_head L X : List.length L = 6%nat -> no_ws (kw_of L) = true -> kw_of L <> [] -> strip L = kw_of L ->
  (pdb_r_record_cols = true \/ pad_of L <> [] \/ X = [] \/ starts_ws X = true) -> record_of (L ++ X) = Some (kw_of L).
Proof.
  intros H6 Hk Hn Hs HX. unfold record_of. destruct pdb_r_record_cols eqn:Fl.
  - assert (firstn 6 (L ++ X) = L) as ->.
    { rewrite <- H6. rewrite <- (Nat.add_0_r (List.length L)). rewrite firstn_app_2. cbn [firstn]. apply app_nil_r. }
    rewrite Hs. reflexivity.
  - rewrite (kw_pad L) at 1. rewrite <- app_assoc.
    assert (pad_of L ++ X = [] \/ starts_ws (pad_of L ++ X) = true) as Hx.
    { destruct (pad_of L) as [|c p] eqn:Ep.
      - cbn. destruct HX as [HX|[HX|[HX|HX]]]; [discriminate|contradiction|left; exact HX|right; exact HX].
      - right. destruct (pad_of_starts L) as [K|K]; rewrite Ep in K; [discriminate|exact K]. }
    destruct (kw_line (kw_of L) (pad_of L ++ X) Hk Hn Hx) as [K _]. rewrite K. reflexivity.
Qed.

(* c1 :: ... :: c6 :: X  ==>  [c1..c6] ++ X *)
Ltac head6 := match goal with |- context [record_of (?a :: ?b :: ?c :: ?d :: ?e :: ?f :: ?X)] =>
  change (a :: b :: c :: d :: e :: f :: X) with ([a; b; c; d; e; f] ++ X) end.

(* decide the record-name tests on a concrete record name *)
Ltac eval_kw := repeat match goal with |- context [kw ?a ?b] =>
  let v := eval vm_compute in (kw a b) in change (kw a b) with v end; cbn [orb andb]; cbn iota.

Definition nocrlf (t : str) : Prop := has_char nl t = false /\ has_char cr t = false.
Lemma nocrlf_app a b : nocrlf a -> nocrlf b -> nocrlf (a ++ b).
Proof. intros [A1 A2] [B1 B2]. split; rewrite has_char_app; [rewrite A1, B1|rewrite A2, B2]; reflexivity. Qed.
Lemma nocrlf_spaces k : nocrlf (repeat sp k).
Proof. split; apply has_char_spaces; reflexivity. Qed.
Lemma nocrlf_no_ws t : no_ws t = true -> nocrlf t.
Proof. intros H. split; apply no_ws_no_char; try reflexivity; exact H. Qed.
Lemma nocrlf_lpad w t : nocrlf t -> nocrlf (lpad w t).
Proof. intros H. rewrite lpad_eq. apply nocrlf_app; [apply nocrlf_spaces|exact H]. Qed.
Lemma nocrlf_rpad w t : nocrlf t -> nocrlf (rpad w t).
Proof. intros H. rewrite rpad_eq. apply nocrlf_app; [exact H|apply nocrlf_spaces]. Qed.
Lemma nocrlf_fix p d : nocrlf (fix_body p d).
Proof. apply nocrlf_no_ws. apply fix_body_token. Qed.
Lemma nocrlf_int z : nocrlf (int_body z).
Proof. apply nocrlf_no_ws. apply int_body_token. Qed.
Lemma nocrlf_flat ps : Forall (fun pw => nocrlf (fst pw)) ps -> nocrlf (flat ps).
Proof. induction 1 as [|[p w] r H _ IH]; [split; reflexivity|]. unfold flat. cbn [map fst List.concat]. apply nocrlf_app; assumption. Qed.
Lemma nocrlf_firstn n t : nocrlf t -> nocrlf (firstn n t).
Proof.
  intros [A B]. rewrite <- (firstn_skipn n t) in A, B. rewrite has_char_app in A, B. apply orb_false_iff in A. apply orb_false_iff in B. split; tauto.
Qed.
Lemma nocrlf_skipn n t : nocrlf t -> nocrlf (skipn n t).
Proof.
  intros [A B]. rewrite <- (firstn_skipn n t) in A, B. rewrite has_char_app in A, B. apply orb_false_iff in A. apply orb_false_iff in B. split; tauto.
Qed.
Lemma nocrlf_slice lo hi t : nocrlf t -> nocrlf (slice lo hi t).
Proof. intros H. unfold slice. apply nocrlf_firstn, nocrlf_skipn. exact H. Qed.
Lemma nocrlf_nil : nocrlf []. Proof. split; reflexivity. Qed.
Lemma nocrlf_blank1 : nocrlf blank1. Proof. split; reflexivity. Qed.
#[local] Hint Resolve nocrlf_nil nocrlf_blank1 : nocrlf.
#[local] Hint Resolve nocrlf_app nocrlf_spaces nocrlf_lpad nocrlf_rpad nocrlf_fix nocrlf_int nocrlf_no_ws : nocrlf.

Ltac nocrlf_pieces :=
  repeat first [apply Forall_nil | apply Forall_cons; [cbn [fst]; first [solve [auto 6 with nocrlf] | split; reflexivity]|]].

(* ---- TITLE ---- *)
Lemma title_step st t : (List.length t <= pdb_w_title_max)%nat -> t <> [] ->
  let line := pad80 (pdb_w_title ++ pdb_w_title_cont ++ t) in
  rstep st line = Some (RState (rstrip t) (rs_cell st) (rs_atoms st)) /\ List.length line = 80%nat.
Proof.
  intros Hl Hn line.
  assert (line = (pdb_w_title ++ pdb_w_title_cont ++ t) ++ repeat sp (pdb_w_pad - List.length (pdb_w_title ++ pdb_w_title_cont ++ t))) as El
    by (unfold line, pad80; apply rpad_eq).
  assert (List.length line = 80%nat) as L80.
  { unfold line, pad80. change pdb_w_pad with 80%nat. apply rpad_length. rewrite !app_length. change pdb_w_title_max with 60%nat in Hl.
    change (List.length pdb_w_title) with 8%nat. change (List.length pdb_w_title_cont) with 2%nat. lia. }
  split; [|exact L80]. unfold rstep.
  assert (is_nil (strip line) = false) as NB.
  { apply blank_false_of_tokens. rewrite El. rewrite <- !app_assoc.
    destruct (kw_record pdb_w_title (pdb_w_title_cont ++ t ++ repeat sp (pdb_w_pad - List.length (pdb_w_title ++ pdb_w_title_cont ++ t))) eq_refl) as [K _].
    rewrite K. discriminate. }
  rewrite NB. rewrite L80. change (80 <? pdb_r_pad)%nat with false. cbn iota.
  set (pad := repeat sp (pdb_w_pad - List.length (pdb_w_title ++ pdb_w_title_cont ++ t))) in *.
  rewrite El. cbn [pdb_w_title pdb_w_title_cont s String.list_ascii_of_string app].
  head6. rewrite record_of_head; try reflexivity; [|discriminate|right; left; discriminate].
  cbn -[rstrip strip]. Local Transparent strip lstrip rstrip. 
  change (is_nil (strip [sp; sp])) with true. cbn iota. Local Opaque strip lstrip rstrip.
  rewrite rstrip_app_ws by apply all_ws_spaces. reflexivity.
Qed.

Lemma lpad_starts w b r : (List.length b < w)%nat -> starts_ws (lpad w b ++ r) = true.
Proof. intros H. rewrite lpad_eq. destruct (w - List.length b)%nat eqn:E; [lia|]. reflexivity. Qed.

Lemma print_fix_eq w p d : lpad w (fix_body p d) = print_fix w p d.
Proof. reflexivity. Qed.

Lemma sym_ok_app a b : sym_ok (a ++ b) = sym_ok a && sym_ok b.
Proof. apply forallb_app. Qed.

Lemma pad80_flat ps n : sym_ok ps = true -> List.length (flat ps) = n -> (n <= 80)%nat ->
  pad80 (flat ps) = flat (ps ++ [(repeat sp (80 - n), (80 - n)%nat)]) /\ sym_ok (ps ++ [(repeat sp (80 - n), (80 - n)%nat)]) = true /\
  List.length (pad80 (flat ps)) = 80%nat.
Proof.
  intros H L Hn. unfold pad80. change pdb_w_pad with 80%nat. split; [|split].
  - rewrite rpad_eq, L. unfold flat. rewrite map_app, concat_app. cbn. rewrite app_nil_r. reflexivity.
  - rewrite sym_ok_app, H. cbn. rewrite repeat_length, Nat.eqb_refl. reflexivity.
  - apply rpad_length. lia.
Qed.

(* ---- CRYST1 ---- *)
Lemma cryst1_step c : fits pdb_w_cryst1 (args6 c) = true ->
  (List.length (fix_body (fprec pdb_w_cryst1 0) (fst (fst (fst c)))) <? 9)%nat = true ->
  exists l, render pdb_w_cryst1 (args6 c) = Some l /\
    (forall st, rstep st (pad80 l) = Some (RState (rs_title st) (Some (q6 pdb_w_cryst1 c)) (rs_atoms st))) /\
    nocrlf (pad80 l) /\ List.length (pad80 l) = 80%nat.
Proof.
  destruct c as [[[a b] c] [[al be] ga]]. unfold fits. cbn [fst].
  destruct (render_sym pdb_w_cryst1 _) as [ps|] eqn:E; [|discriminate].
  intros F Ha. apply Nat.ltb_lt in Ha.
  let v := eval vm_compute in (fprec pdb_w_cryst1 0) in change (fprec pdb_w_cryst1 0) with v in Ha.
  pose proof (render_sym_flat _ _ _ E) as R. cbn in E. injection E as E. subst ps.
  match type of F with sym_ok ?P = true => set (ps := P) in * end.
  assert (List.length (flat ps) = 54%nat) as L54 by (rewrite (flat_length _ F); reflexivity).
  destruct (pad80_flat ps 54 F L54 ltac:(lia)) as [EP [FP LP]]. change (80 - 54)%nat with 26%nat in *.
  exists (flat ps). split; [exact R|]. split; [|split; [|exact LP]].
  - intros st. unfold rstep. rewrite LP. change (80 <? pdb_r_pad)%nat with false.
    assert (is_nil (strip (pad80 (flat ps))) = false) as NB.
    { apply blank_false_of_tokens. rewrite EP. unfold flat, ps. cbn [map fst List.concat app pdb_w_cryst1].
      match goal with |- split_ws (?a :: ?b :: ?c :: ?d :: ?e :: ?f :: ?X) <> [] =>
        change (a :: b :: c :: d :: e :: f :: X) with ([a; b; c; d; e; f] ++ X);
        destruct (kw_line [a; b; c; d; e; f] X eq_refl ltac:(discriminate) (or_intror (lpad_starts _ _ _ Ha))) as [K _]; rewrite K; discriminate end. }
    rewrite NB. cbn iota. rewrite EP.
    assert (record_of (flat (ps ++ [(repeat sp 26, 26%nat)])) = Some ["C"; "R"; "Y"; "S"; "T"; "1"]%char) as ->.
    { unfold flat, ps. cbn [map fst List.concat app]. head6. apply record_of_head; try reflexivity; [discriminate|].
      right; right; right. apply lpad_starts. exact Ha. }
    eval_kw.
    unfold sl. cbn [pairs pdb_r_cryst1 map_opt fst snd].
    rewrite !(slice_flat _ _ _ FP) by (rewrite <- EP, LP; lia).
    unfold scut, ps. cbn [sskip stake Nat.leb Nat.sub flat map fst List.concat app].
    rewrite !app_nil_r. rewrite (lpad_skip1 8) by lia. change (skipn 0 ?x) with x. rewrite !print_fix_eq, !fix_roundtrip. reflexivity.
  - rewrite EP. apply nocrlf_flat. unfold ps. cbn [app]. nocrlf_pieces.
Qed.

Lemma flat_cons p w r : flat ((p, w) :: r) = p ++ flat r.
Proof. reflexivity. Qed.
Lemma flat_app a b : flat (a ++ b) = flat a ++ flat b.
Proof. unfold flat. rewrite map_app, concat_app. reflexivity. Qed.

Lemma strip_nonblank c r : is_ws c = false -> is_nil (strip (c :: r)) = false.
Proof.
  intros Hc. destruct (strip (c :: r)) as [|c0 s0] eqn:Es; [|reflexivity]. exfalso.
  destruct (strip_decompose (c :: r)) as [p [q [Hp [Hq Ed]]]]. rewrite Es in Ed. cbn [app] in Ed.
  assert (all_ws (c :: r) = true) as AW by (rewrite Ed, all_ws_app, Hp, Hq; reflexivity).
  change (is_ws c && all_ws r = true) in AW. rewrite Hc in AW. discriminate.
Qed.

(* ---- ATOM (+ ANISOU) ---- *)
Ltac split_ands H := repeat match goal with Hx : _ && _ = true |- _ => apply andb_true_iff in Hx; destruct Hx end.
Ltac solve_ands := repeat (apply andb_true_iff; split); first [assumption | reflexivity].

Lemma split_lpad_tok w b r : (List.length b < w)%nat -> no_ws b = true -> b <> [] -> (r = [] \/ starts_ws r = true) ->
  split_ws (lpad w b ++ r) = b :: split_ws r.
Proof.
  intros Hl Hn Hne Hr. rewrite split_app by (destruct Hr as [->|Hr]; [right; right; right; reflexivity|left; exact Hr]).
  rewrite lpad_eq, split_pad_tok by (try apply all_ws_spaces; assumption). reflexivity.
Qed.

Definition push (a : ratom) (st : rstate) : rstate := RState (rs_title st) (rs_cell st) (a :: rs_atoms st).

Lemma atom_step serial a : repr_batom serial a = true ->
  exists lines, atom_lines serial a = Some lines /\
    (forall st rest, rloop st (lines ++ rest) = rloop (push (canon_batom a) st) rest) /\
    Forall (fun l => nocrlf l /\ l <> []) lines.
Proof.
  destruct a as [name el [[x y] z] occ B iso [[[u1 u2] u3] [[u4 u5] u6]]]. unfold repr_batom, fits.
  cbn [b_name b_el b_cart b_occ b_B b_iso b_u].
  destruct (render_sym pdb_w_atom _) as [ps|] eqn:E; [|rewrite andb_false_r; discriminate].
  intros H. apply andb_true_iff in H. destruct H as [H Hani]. apply andb_true_iff in H. destruct H as [H F].
  apply andb_true_iff in H. destruct H as [Hname Hel]. unfold name_ok in Hname, Hel.
  apply andb_true_iff in Hname. destruct Hname as [Nn1 Nn2]. apply andb_true_iff in Hel. destruct Hel as [Ne1 Ne2].
  pose proof (render_sym_flat _ _ _ E) as R. unfold atom_args in E. cbn in E. injection E as E. subst ps.
  match type of F with sym_ok ?P = true => set (ps := P) in * end.
  assert (List.length (flat ps) = 80%nat) as L80.
  { rewrite (flat_length _ F). unfold ps. cbn [fold_right snd Nat.add List.length blank1]. reflexivity. }
  (* the ATOM record *)
  assert (forall st, rstep st (flat ps) = Some (push (RAtom name el (q3 pdb_w_atom 0 (x, y, z)) (dq (fprec pdb_w_atom 3) occ)
                                                   (Some (dq (fprec pdb_w_atom 4) B)) false []) st)) as StepA.
  { intros st. unfold rstep. rewrite L80. change (80 <? pdb_r_pad)%nat with false.
    assert (is_nil (strip (flat ps)) = false) as NB.
    { apply blank_false_of_tokens. unfold flat, ps. cbn [map fst List.concat app].
      match goal with |- split_ws (?a :: ?b :: ?c :: ?d :: ?X) <> [] =>
        change (a :: b :: c :: d :: X) with ([a; b; c; d] ++ X);
        destruct (kw_line [a; b; c; d] X eq_refl ltac:(discriminate) (or_intror eq_refl)) as [K _]; rewrite K; discriminate end. }
    rewrite NB. cbn iota.
    assert (record_of (flat ps) = Some ["A"; "T"; "O"; "M"]%char) as ->.
    { unfold flat, ps. cbn [map fst List.concat app]. head6. apply record_of_head; try reflexivity; [discriminate|]. right; left; discriminate. }
    eval_kw. unfold parse_atom_record, sl, pdb_r_xyz_cols, pdb_r_xyz_width, pdb_r_name, pdb_r_occ, pdb_r_B, pdb_r_element, pdb_r_element_fallback.
    cbn [map_opt Nat.add fst snd].
    rewrite !(slice_flat _ _ _ F) by (rewrite L80; lia).
    unfold scut, ps. cbn [sskip stake Nat.leb Nat.sub flat map fst List.concat app fst snd pdb_r_name pdb_r_occ pdb_r_B pdb_r_element pdb_r_element_fallback].
    rewrite !app_nil_r. change (skipn 0 ?t) with t.
    rewrite !print_fix_eq, !fix_roundtrip. rewrite (strip_rpad _ _ Nn1), (strip_lpad _ _ Ne1).
    destruct el as [|ce el']; [discriminate|]. cbn [is_nil]. reflexivity. }
  assert (nocrlf (flat ps) /\ flat ps <> []) as [NA NEA].
  { split; [apply nocrlf_flat; unfold ps; nocrlf_pieces|]. intros Z. rewrite Z in L80. discriminate. }
  unfold atom_lines. cbn [b_iso]. rewrite R. destruct iso.
  - (* isotropic: one record *)
    exists [flat ps]. split; [reflexivity|]. split.
    + intros st rest. cbn [app rloop]. rewrite StepA. reflexivity.
    + apply Forall_cons; [split; assumption|apply Forall_nil].
  - (* anisotropic: ATOM + ANISOU *)
    cbn [orb] in Hani. apply andb_true_iff in Hani. destruct Hani as [Hints Hser].
    unfold anisou_line. cbn [b_u uints map].
    destruct (render_sym pdb_w_anisou [AInt (uint u1); AInt (uint u2); AInt (uint u3); AInt (uint u4); AInt (uint u5); AInt (uint u6)]) as [pm|] eqn:Em;
      [|cbn in Em; discriminate].
    pose proof (render_sym_flat _ _ _ Em) as Rm. cbn in Em. injection Em as Em. subst pm. rewrite Rm.
    cbn [forallb uints] in Hints. split_ands Hints.
    repeat match goal with Hx : (List.length (int_body _) <? 7)%nat = true |- _ => apply Nat.ltb_lt in Hx end.
    rewrite !(slice_flat _ _ _ F) by (rewrite L80; cbn; lia).
    unfold scut, ps. cbn [sskip stake Nat.leb Nat.sub fst snd pdb_w_keep1 pdb_w_keep2].
    change (skipn 0 ?t) with t.
    match goal with |- context [Some [?l1; ?l2]] => set (line2 := l2); change l1 with (flat ps) end.
    eexists. split; [reflexivity|].
    (* line2 as a list of pieces *)
    match goal with HH := ?kwd ++ flat ?p1 ++ flat ?p2 ++ flat ?p3 |- _ => pose (ps2 := (kwd, 6%nat) :: p1 ++ p2 ++ p3) end.
    assert (line2 = flat ps2) as E2 by (unfold line2, ps2; rewrite (flat_cons pdb_w_anisou_kw), !flat_app; reflexivity).
    cbn [app] in ps2.
    assert (sym_ok ps2 = true) as F2.
    { change ps2 with ((pdb_w_anisou_kw, 6%nat) :: stake (27 - 6) (sskip 6 ps) ++
                        [([" "%char], 1%nat); (lpad 7 (int_body (uint u1)), 7%nat); (lpad 7 (int_body (uint u2)), 7%nat);
                         (lpad 7 (int_body (uint u3)), 7%nat); (lpad 7 (int_body (uint u4)), 7%nat); (lpad 7 (int_body (uint u5)), 7%nat);
                         (lpad 7 (int_body (uint u6)), 7%nat); ([" "%char; " "%char], 2%nat)] ++ stake (80 - 72) (sskip 72 ps)).
      rewrite sym_ok_cons, !sym_ok_app, !(scut_ok _ _ _ F) by (rewrite L80; lia).
      cbn [sym_ok forallb fst snd List.length andb]. rewrite !lpad_fit by lia. reflexivity. }
    assert (List.length line2 = 80%nat) as L2 by (rewrite E2, (flat_length _ F2); reflexivity).
    assert (forall st0 a0 r0, rs_atoms st0 = a0 :: r0 -> rstep st0 line2 =
              Some (RState (rs_title st0) (rs_cell st0) (RAtom (r_name a0) (r_el a0) (r_rc a0) (r_occ a0) (r_B a0) true
                      (map (fun z => dnorm (zdec z)) [uint u1; uint u2; uint u3; uint u4; uint u5; uint u6]) :: r0))) as StepB.
    { intros st0 a0 r0 Hat. unfold rstep. rewrite L2. change (80 <? pdb_r_pad)%nat with false.
      assert (record_of line2 = Some ["A"; "N"; "I"; "S"; "O"; "U"]%char) as RC.
      { rewrite E2. unfold flat, ps2. cbn [map fst List.concat app pdb_w_anisou_kw s String.list_ascii_of_string]. head6. apply record_of_head; try reflexivity; [discriminate|].
        apply orb_true_iff in Hser. destruct Hser as [Hc|Hs]; [left; exact Hc|right; right; right].
        apply Nat.ltb_lt in Hs. apply lpad_starts. exact Hs. }
      assert (is_nil (strip line2) = false) as NB.
      { rewrite E2. unfold flat, ps2. cbn [map fst List.concat app pdb_w_anisou_kw s String.list_ascii_of_string]. apply strip_nonblank. reflexivity. }
      rewrite NB, RC. cbn iota. eval_kw. rewrite Hat. unfold sl. rewrite E2.
      rewrite (slice_flat _ _ _ F2) by (rewrite <- E2, L2; cbn; lia).
      unfold scut, ps2. cbn [sskip stake Nat.leb Nat.sub flat map fst List.concat app fst snd pdb_r_anisou].
      change (skipn 0 ?t) with t.
      rewrite !split_lpad_tok; try (apply int_body_token); try lia; try (right; apply lpad_starts; lia); try (left; reflexivity).
      cbn [split_ws toks filter map_opt]. rewrite !int_body_parse_float. reflexivity. }
    split.
    + intros st rest. cbn [app rloop]. rewrite StepA. unfold push at 1. erewrite StepB by (cbn [rs_atoms]; reflexivity). reflexivity.
    + assert (nocrlf line2) as N2.
      { rewrite E2. apply nocrlf_flat. unfold ps2. nocrlf_pieces. }
      apply Forall_cons; [split; assumption|]. apply Forall_cons; [split; [exact N2|]|apply Forall_nil].
      intros Z. rewrite Z in L2. discriminate.
Qed.

Definition goodl (l : str) : Prop := nocrlf l /\ l <> [].
Definition pushl (l : list ratom) (st : rstate) : rstate := RState (rs_title st) (rs_cell st) (rev l ++ rs_atoms st).

Lemma atoms_steps l : forall serial, repr_batoms serial l = true ->
  exists lines, atoms_lines serial l = Some lines /\
    (forall st rest, rloop st (lines ++ rest) = rloop (pushl (map canon_batom l) st) rest) /\ Forall goodl lines.
Proof.
  induction l as [|a l IH]; intros serial H.
  - exists []. split; [reflexivity|]. split; [|constructor]. intros st rest. destruct st; reflexivity.
  - cbn [repr_batoms] in H. apply andb_true_iff in H. destruct H as [Ha Hl].
    destruct (atom_step serial a Ha) as [la [E1 [S1 G1]]]. destruct (IH (serial + 1)%Z Hl) as [ll [E2 [S2 G2]]].
    exists (la ++ ll). split; [cbn [atoms_lines]; rewrite E1, E2; reflexivity|]. split.
    + intros st rest. rewrite <- app_assoc, S1, S2. unfold pushl, push. cbn [map rev rs_title rs_cell rs_atoms]. rewrite <- app_assoc. reflexivity.
    + apply Forall_app. split; assumption.
Qed.

Lemma ter_step n : fits pdb_w_ter [AInt (Z.of_nat n + 1); AStr []; AStr blank1; AInt 1; AStr blank1; AStr blank1] = true ->
  exists l, ter_line n = Some l /\ (forall st, rstep st l = Some st) /\ goodl l.
Proof.
  unfold fits, ter_line. destruct (render_sym pdb_w_ter _) as [ps|] eqn:E; [|discriminate]. intros F.
  pose proof (render_sym_flat _ _ _ E) as R. cbn in E. injection E as E. subst ps.
  match type of F with sym_ok ?P = true => set (ps := P) in * end.
  assert (List.length (flat ps) = 80%nat) as L80 by (rewrite (flat_length _ F); reflexivity).
  exists (flat ps). split; [exact R|]. split.
  - intros st. unfold rstep. rewrite L80. change (80 <? pdb_r_pad)%nat with false.
    assert (is_nil (strip (flat ps)) = false) as -> by (unfold flat, ps; cbn [map fst List.concat app]; apply strip_nonblank; reflexivity).
    assert (record_of (flat ps) = Some ["T"; "E"; "R"]%char) as ->.
    { unfold flat, ps. cbn [map fst List.concat app]. head6. apply record_of_head; try reflexivity; [discriminate|]. right; left; discriminate. }
    cbn iota. eval_kw. vm_compute. destruct st; reflexivity.
  - split; [apply nocrlf_flat; unfold ps; nocrlf_pieces|]. intros Z. rewrite Z in L80. discriminate.
Qed.

Lemma end_step st : rstep st (pad80 pdb_w_end) = Some st.
Proof. destruct st. vm_compute. reflexivity. Qed.
Lemma end_good : goodl (pad80 pdb_w_end) /\ last_char_ok (pad80 pdb_w_end) = true.
Proof. vm_compute. repeat split; discriminate. Qed.

Lemma title_part t : line_ok t = true -> (List.length t <=? pdb_w_title_max)%nat = true ->
  exists lt, title_lines t = Some lt /\ (forall c a rest, rloop (RState [] c a) (lt ++ rest) = rloop (RState (rstrip t) c a) rest) /\ Forall goodl lt.
Proof.
  intros HT HL. apply Nat.leb_le in HL. destruct (line_ok_split _ HT) as [T1 T2]. unfold title_lines. destruct t as [|c0 t'] eqn:Et.
  - exists []. split; [reflexivity|]. split; [|constructor]. intros. Local Transparent rstrip lstrip. reflexivity. Local Opaque rstrip lstrip.
  - rewrite <- Et in *. cbn [is_nil]. replace (is_nil t) with false by (rewrite Et; reflexivity).
    apply Nat.leb_le in HL. rewrite HL. apply Nat.leb_le in HL.
    assert (t <> []) as Hn by (rewrite Et; discriminate).
    destruct (title_step (RState [] None []) t HL Hn) as [_ L80].
    eexists. split; [reflexivity|]. split.
    + intros c a rest. cbn [app rloop]. destruct (title_step (RState [] c a) t HL Hn) as [S _]. rewrite S. reflexivity.
    + apply Forall_cons; [|apply Forall_nil]. split.
      * unfold pad80. apply nocrlf_rpad. apply nocrlf_app; [split; reflexivity|]. apply nocrlf_app; [split; reflexivity|split; assumption].
      * intros Z. rewrite Z in L80. discriminate.
Qed.

Lemma cryst1_part c : (default_cell c || fits pdb_w_cryst1 (args6 c) &&
     (List.length (fix_body (fprec pdb_w_cryst1 0) (fst (fst (fst c)))) <? 9)%nat) = true ->
  exists lc, cryst1_lines c = Some lc /\
    (forall T a rest, rloop (RState T None a) (lc ++ rest) =
                      rloop (RState T (if default_cell c then None else Some (q6 pdb_w_cryst1 c)) a) rest) /\ Forall goodl lc.
Proof.
  intros H. unfold cryst1_lines. destruct (default_cell c) eqn:D.
  - exists []. split; [reflexivity|]. split; [reflexivity|constructor].
  - cbn [orb] in H. apply andb_true_iff in H. destruct H as [F Ha].
    destruct (cryst1_step c F Ha) as [l [R [S [N L]]]]. rewrite R. cbn [option_map]. eexists. split; [reflexivity|]. split.
    + intros T a rest. cbn [app rloop]. rewrite S. reflexivity.
    + apply Forall_cons; [|apply Forall_nil]. split; [exact N|]. intros Z. rewrite Z in L. discriminate.
Qed.

Lemma goodl_nonl ls : Forall goodl ls -> forallb (fun x => negb (has_char nl x)) ls = true.
Proof. induction 1 as [|x l [[H1 _] _] _ IH]; [reflexivity|]. cbn. rewrite H1, IH. reflexivity. Qed.

Theorem roundtrip_pdb St : repr_pdb St = true -> exists t, write_pdb St = Some t /\ read_pdb t = Some (canon_pdb St).
Proof.
  unfold repr_pdb. intros H. apply andb_true_iff in H. destruct H as [H Hter]. apply andb_true_iff in H. destruct H as [H Hat].
  apply andb_true_iff in H. destruct H as [H Hc]. apply andb_true_iff in H. destruct H as [HT HL].
  destruct St as [ttl cell atoms]. cbn [b_title b_cell b_atoms] in *.
  destruct (title_part ttl HT HL) as [lt [Et [St' Gt]]].
  destruct (cryst1_part cell Hc) as [lc [Ec [Sc Gc]]].
  destruct (atoms_steps atoms 1%Z Hat) as [la [Ea [Sa Ga]]].
  destruct (ter_step _ Hter) as [lter [Eter [Ster Gter]]].
  destruct end_good as [Gend Lend].
  unfold write_pdb, print_pdb. cbn [b_title b_cell b_atoms]. rewrite Et, Ec, Ea, Eter. cbn [option_map concat_opt fold_right].
  rewrite app_nil_r. eexists. split; [reflexivity|]. unfold read_pdb.
  replace (lt ++ lc ++ la ++ [lter] ++ [pad80 pdb_w_end]) with ((lt ++ lc ++ la ++ [lter]) ++ [pad80 pdb_w_end]) by (rewrite <- !app_assoc; reflexivity).
  rewrite lines_text_roundtrip.
  - unfold parse_pdb. rewrite <- !app_assoc. rewrite St', Sc, Sa. cbn [app rloop]. rewrite Ster, end_step.
    unfold canon_pdb, pushl. cbn [b_title b_cell b_atoms rs_title rs_cell rs_atoms]. rewrite app_nil_r, rev_involutive. reflexivity.
  - apply goodl_nonl. apply Forall_app; split; [apply Forall_app; split; [exact Gt|apply Forall_app; split; [exact Gc|apply Forall_app; split;
      [exact Ga|apply Forall_cons; [exact Gter|apply Forall_nil]]]]|apply Forall_cons; [exact Gend|apply Forall_nil]].
  - exact Lend.
Qed.

(* ---- no drift, over abstract geometry ---- *)
Lemma rstrip_idem t : rstrip (rstrip t) = rstrip t.
Proof. apply rstrip_id. apply rstrip_ends. Qed.

Lemma is_val_dq p d k : is_val (dq p d) k = true -> dq p d = Dec false k 0.
Proof.
  unfold is_val. assert (dnorm (dq p d) = dq p d) as -> by (unfold dq; apply dnorm_idem).
  destruct (dq p d) as [n m e]. destruct n; [discriminate|]. destruct e; [|discriminate]. intros H. apply N.eqb_eq in H. subst. reflexivity.
Qed.

Lemma default_q6 c : default_cell (q6 pdb_w_cryst1 c) = true -> q6 pdb_w_cryst1 c = unit_cell.
Proof.
  destruct c as [[[a b] c] [[al be] ga]]. unfold q6, q3, default_cell, unit_cell, done. cbn [fst snd]. intros H.
  repeat (apply andb_true_iff in H; destruct H as [H ?]).
  repeat match goal with K : is_val (dq _ _) _ = true |- _ => apply is_val_dq in K; rewrite K end. reflexivity.
Qed.

Lemma default_unit : default_cell unit_cell = true. Proof. reflexivity. Qed.

Section Link.
  Variable recart : d6 -> d3 -> d3.          (* Cartesian -> fractional -> Cartesian in the re-read lattice *)
  Variable bw : dec -> dec.                   (* B -> Uiso -> B *)
  Variable bequiv : d6 -> list dec -> dec.    (* Bisoequiv of an ANISOU atom *)
  Variable isiso : d6 -> list dec -> bool.    (* not lattice.isanisotropic(U) for an ANISOU atom *)
  Variable uof : dec -> dec.                  (* k -> float(k) * 1e-4 *)
  Variable isoU : d6 -> dec -> d6.            (* tensor of an isotropic atom (never printed) *)
  Hypothesis recart_grid : forall c v, q3 pdb_w_atom 0 (recart c (q3 pdb_w_atom 0 v)) = q3 pdb_w_atom 0 v.
  Hypothesis bw_grid : forall b, dq (fprec pdb_w_atom 4) (bw (dq (fprec pdb_w_atom 4) b)) = dq (fprec pdb_w_atom 4) b.
  Hypothesis uof_grid : forall z, uint (uof (dnorm (zdec z))) = z.

  Definition cellof (c : option d6) : d6 := match c with Some x => x | None => unit_cell end.
  Definition u6of (l : list dec) : d6 :=
    match map uof l with [a; b; c; d; e; f] => ((a, b, c), (d, e, f)) | _ => ((dzero, dzero, dzero), (dzero, dzero, dzero)) end.
  Definition link_ratom (c : d6) (r : ratom) : batom :=
    if r_aniso r then BAtom (r_name r) (r_el r) (recart c (r_rc r)) (r_occ r) (bequiv c (r_u r)) (isiso c (r_u r)) (u6of (r_u r))
    else let b := match r_B r with Some v => v | None => dzero end in
         BAtom (r_name r) (r_el r) (recart c (r_rc r)) (r_occ r) (bw b) true (isoU c b).
  Definition link_pdb (R : rstru) : bstru := BStru (q_title R) (cellof (q_cell R)) (map (link_ratom (cellof (q_cell R))) (q_atoms R)).
  Definition canonl_pdb (S : bstru) : bstru := link_pdb (canon_pdb S).
  Definition rt_pdb (S : bstru) : option bstru := match write_pdb S with Some t => option_map link_pdb (read_pdb t) | None => None end.

  (* an anisotropic atom stays anisotropic after the 1e-4 rounding (otherwise the next write drops its ANISOU record) *)
  Definition stays_aniso (S : bstru) : bool :=
    forallb (fun a => b_iso a || negb (isiso (cellof (q_cell (canon_pdb S))) (r_u (canon_batom a)))) (b_atoms S).
  Definition reprl_pdb (S : bstru) : bool :=
    repr_pdb S && stays_aniso S && repr_pdb (canonl_pdb S) && stays_aniso (canonl_pdb S).

  Lemma rt_pdb_canon S : repr_pdb S = true -> rt_pdb S = Some (canonl_pdb S).
  Proof. intros H. destruct (roundtrip_pdb S H) as [t [W R]]. unfold rt_pdb. rewrite W, R. reflexivity. Qed.

  Lemma cell_canonl S : cellof (q_cell (canon_pdb (canonl_pdb S))) = cellof (q_cell (canon_pdb S)).
  Proof.
    unfold canonl_pdb, link_pdb, canon_pdb. cbn [b_cell q_cell]. destruct (default_cell (b_cell S)) eqn:D; cbn [cellof].
    - rewrite default_unit. reflexivity.
    - destruct (default_cell (q6 pdb_w_cryst1 (b_cell S))) eqn:D2; cbn [cellof]; [symmetry; apply default_q6; exact D2|apply q6_idem].
  Qed.

  Lemma uints_u6of z1 z2 z3 z4 z5 z6 :
    uints (u6of [dnorm (zdec z1); dnorm (zdec z2); dnorm (zdec z3); dnorm (zdec z4); dnorm (zdec z5); dnorm (zdec z6)]) = [z1; z2; z3; z4; z5; z6].
  Proof. unfold u6of. cbn [map uints]. rewrite !uof_grid. reflexivity. Qed.

  Lemma link_canon_batom c a : b_iso a || negb (isiso c (r_u (canon_batom a))) = true ->
    link_ratom c (canon_batom (link_ratom c (canon_batom a))) = link_ratom c (canon_batom a).
  Proof.
    destruct a as [name el xyz occ B iso u]. cbn [b_iso]. intros Hs. destruct iso.
    - unfold link_ratom, canon_batom.
      cbn [b_name b_el b_cart b_occ b_B b_iso b_u negb r_aniso r_name r_el r_rc r_occ r_B r_u].
      rewrite recart_grid, bw_grid, dq_idem. reflexivity.
    - cbn [orb] in Hs. apply negb_true_iff in Hs. destruct u as [[[u1 u2] u3] [[u4 u5] u6]].
      unfold link_ratom, canon_batom in *.
      cbn [b_name b_el b_cart b_occ b_B b_iso b_u negb r_aniso r_name r_el r_rc r_occ r_B r_u uints map] in *.
      rewrite Hs. cbn [b_name b_el b_cart b_occ b_B b_iso b_u negb r_aniso r_name r_el r_rc r_occ r_B r_u].
      rewrite recart_grid, dq_idem, uints_u6of. cbn [map]. rewrite ?Hs. reflexivity.
  Qed.

  Lemma canonl_idem_pdb S : stays_aniso S = true -> canonl_pdb (canonl_pdb S) = canonl_pdb S.
  Proof.
    intros Hs. pose proof (cell_canonl S) as HC. unfold canonl_pdb in *.
    set (c := cellof (q_cell (canon_pdb S))) in *.
    assert (forall R1 R2, q_title R1 = q_title R2 -> cellof (q_cell R1) = cellof (q_cell R2) ->
              map (link_ratom (cellof (q_cell R2))) (q_atoms R1) = map (link_ratom (cellof (q_cell R2))) (q_atoms R2) ->
              link_pdb R1 = link_pdb R2) as EXT.
    { intros R1 R2 E1 E2 E3. unfold link_pdb. rewrite E1, E2, E3. reflexivity. }
    apply EXT.
    - unfold link_pdb, canon_pdb. cbn [q_title b_title]. apply rstrip_idem.
    - exact HC.
    - fold c. unfold link_pdb. fold c. unfold canon_pdb. cbn [q_atoms b_atoms].
      rewrite !map_map. unfold stays_aniso in Hs. fold c in Hs. rewrite forallb_forall in Hs.
      apply map_ext_in. intros a Hin. apply link_canon_batom. apply Hs. exact Hin.
  Qed.

  Theorem no_drift_pdb S n : reprl_pdb S = true -> iter_opt rt_pdb (Datatypes.S n) S = Some (canonl_pdb S).
  Proof.
    intros H. apply (no_drift_gen bstru rt_pdb canonl_pdb reprl_pdb); [| | |exact H].
    - intros x Hx. unfold reprl_pdb in Hx. do 3 (apply andb_true_iff in Hx; destruct Hx as [Hx ?]). apply rt_pdb_canon. exact Hx.
    - intros x Hx. unfold reprl_pdb in *. do 3 (apply andb_true_iff in Hx; destruct Hx as [Hx ?]).
      rewrite (canonl_idem_pdb x H2), H1, H0. reflexivity.
    - intros x Hx. unfold reprl_pdb in Hx. do 3 (apply andb_true_iff in Hx; destruct Hx as [Hx ?]). apply canonl_idem_pdb. assumption.
  Qed.
End Link.
