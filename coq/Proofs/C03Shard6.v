(* Kernel decision of the group axioms for shard 6 of the regenerated tables. *)
From Coq Require Import ZArith List Bool.
From DS Require Import Base.ZMat Base.SGDefs Model.GroupCheck Gen.SGTables6.
Lemma shard6_groups : forallb setting_group_ok shard6 = true.
Proof. vm_compute. reflexivity. Qed.
