(* C17 - the checks evaluated on the graph regenerated from the current source. *)
From Coq Require Import NArith List Bool String.
From DS Require Import Model.C17_Effects Model.C17_Names Proofs.C17_Reach Gen.C17_EffectGraph.
Import ListNotations.
Open Scope N_scope.

Lemma gen_no_bad_sink_b : no_bad_sink gen_graph gen_entries gen_sinks = true.
Proof. vm_compute. reflexivity. Qed.

Lemma gen_no_bad_sink : forall e n s, In e gen_entries -> path gen_graph e n -> In s gen_sinks -> s_node s = n ->
  bad_sink s = false.
Proof. exact (no_bad_sink_sound gen_graph gen_entries gen_sinks gen_no_bad_sink_b). Qed.

Lemma gen_exec_import_b : exec_import_closed gen_graph gen_entries gen_sinks gen_getparser_node = true.
Proof. vm_compute. reflexivity. Qed.

Lemma gen_import_cmd_closed :
  (forall e n s, In e gen_entries -> path gen_graph e n -> In s gen_sinks -> s_node s = n ->
     match s_kind s with
     | KEval | KCompile => False
     | KExec => s_node s = gen_getparser_node /\ forallb prov_le_registry (s_args s) = true
     | KImport => forallb prov_le_registry (s_args s) = true
     | _ => True
     end)
  /\ gen_import_template = expected_import_template
  /\ forallb ident_ok gen_registry_modules = true.
Proof.
  split; [exact (exec_import_closed_sound gen_graph gen_entries gen_sinks gen_getparser_node gen_exec_import_b)|].
  split; vm_compute; reflexivity.
Qed.

Lemma gen_open_b : open_only_filename_b gen_graph gen_entries gen_sinks = true.
Proof. vm_compute. reflexivity. Qed.

Lemma gen_open_only_filename : forall e n s, In e gen_entries -> path gen_graph e n -> In s gen_sinks -> s_node s = n ->
  s_kind s = KOpen -> s_args s = [PFileName] /\ s_flag s = true.
Proof. exact (open_only_filename_sound gen_graph gen_entries gen_sinks gen_open_b). Qed.

(* reflective uses of text-derived names: exactly the known places *)
Definition parse_reflective_allow : list (string * kind) :=
  [("diffpy.structure.parsers.p_xcfg:_assign_auxiliaries"%string, KSetattr);
   ("diffpy.structure.parsers.p_xcfg:_assign_auxiliaries"%string, KGetattr);
   ("diffpy.structure.structure:Structure.__emptySharedStructure"%string, KGetattr)].
Definition write_reflective_allow : list (string * kind) :=
  parse_reflective_allow ++ [("diffpy.structure.parsers.p_xcfg:P_xcfg.toLines"%string, KFormat)].

Lemma gen_reflective_parse : reflective_confined gen_graph gen_entries gen_sinks gen_node_names parse_reflective_allow = true.
Proof. vm_compute. reflexivity. Qed.
Lemma gen_reflective_write : reflective_confined gen_graph gen_write_entries gen_sinks gen_node_names write_reflective_allow = true.
Proof. vm_compute. reflexivity. Qed.

(* the write paths contain no code-executing / process / network sink fed by text either, and open only the caller's file name *)
Lemma gen_write_no_code_sink : forallb (fun s => negb (code_or_effect (s_kind s) && has_text s))
                                       (sinks_in (reach gen_graph gen_write_entries) gen_sinks) = true
                               /\ closed gen_graph (reach gen_graph gen_write_entries) = true
                               /\ covers (reach gen_graph gen_write_entries) gen_write_entries = true.
Proof. vm_compute. repeat split; reflexivity. Qed.
