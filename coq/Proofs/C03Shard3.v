(* Kernel decision of the group axioms for shard 3 of the regenerated tables. *)
From Coq Require Import ZArith List Bool.
From DS Require Import Base.ZMat Base.SGDefs Model.GroupCheck Gen.SGTables3.
Lemma shard3_groups : forallb setting_group_ok shard3 = true.
Proof. vm_compute. reflexivity. Qed.
