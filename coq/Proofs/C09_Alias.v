(* C09 - no aliasing: when every rebinding statement installs a new array or the atom's own one, no history of accessor calls,
   constructions and copies makes two atoms share an array; and the table generated from atom.py is of that kind. *)
From Coq Require Import List Arith Lia Permutation Bool.
From DS Require Import Model.C09_Prims Model.C09_Alias Gen.C09_AtomFormulas.
Import ListNotations.

Lemma bind_safe src p others : forall evs o nx,
  forallb safe evs = true -> NoDup (u_id o :: x_id o :: others) -> Forall (fun k => k < nx) (u_id o :: x_id o :: others) ->
  let '(o', nx') := bind_all src p (o, nx) evs in
  NoDup (u_id o' :: x_id o' :: others) /\ Forall (fun k => k < nx') (u_id o' :: x_id o' :: others).
Proof.
  induction evs as [|e r IH]; intros o nx Hs Hn Hf; [cbn; split; assumption|].
  cbn [forallb] in Hs. apply andb_prop in Hs. destruct Hs as [He Hr]. unfold bind_all. cbn [fold_left]. fold (bind_all src p).
  assert (Hlt : forall k, k < nx -> k < S nx) by (intros; lia).
  destruct e as [w|w|w|w]; try discriminate; cbn [bind1].
  - destruct o as [u x]. inversion Hf as [|? ? Hu Hf1]; subst. inversion Hf1 as [|? ? Hx Hf2]; subst. cbn [u_id x_id] in *.
    inversion Hn as [|? ? Nu Hn1]; subst. inversion Hn1 as [|? ? Nx Hn2]; subst.
    assert (Hnot : ~ In nx others) by (intros Hin; rewrite Forall_forall in Hf2; specialize (Hf2 _ Hin); lia).
    destruct w; cbn [set_id u_id x_id]; apply IH; try exact Hr; cbn [u_id x_id].
    + constructor; [intros [E|Hin]; [lia | contradiction] | constructor; [exact Nx | exact Hn2]].
    + repeat constructor; try lia. apply (Forall_impl _ Hlt Hf2).
    + constructor; [intros [E|Hin]; [lia | apply Nu; right; exact Hin] | constructor; [exact Hnot | exact Hn2]].
    + repeat constructor; try lia. apply (Forall_impl _ Hlt Hf2).
  - apply IH; assumption.
Qed.

Lemma ids_app l1 l2 : ids (l1 ++ l2) = ids l1 ++ ids l2.
Proof. unfold ids. apply flat_map_app. Qed.

Lemma replace_split {A} (l1 : list A) o l2 x : replace_nth (length l1) (l1 ++ o :: l2) x = l1 ++ x :: l2.
Proof. induction l1 as [|y r IH]; [reflexivity|]. cbn. rewrite IH. reflexivity. Qed.

Lemma hstep_wf h ev : wf h -> forallb safe (evs_of ev) = true -> wf (hstep h ev).
Proof.
  intros [Hn Hf] Hs. destruct ev as [i evs p|evs p|i evs p]; cbn [evs_of] in Hs; cbn [hstep].
  - destruct (nth_error (objs h) i) as [o|] eqn:E; [|split; assumption].
    destruct (nth_error_split _ _ E) as [l1 [l2 [El Elen]]]. rewrite El in Hn, Hf. rewrite ids_app in Hn, Hf. cbn [ids flat_map app] in Hn, Hf.
    fold (ids l2) in Hn, Hf.
    assert (Hp : Permutation (ids l1 ++ u_id o :: x_id o :: ids l2) (u_id o :: x_id o :: ids l1 ++ ids l2)).
    { symmetry. etransitivity; [apply perm_skip; apply Permutation_middle | apply Permutation_middle]. }
    pose proof (bind_safe None p (ids l1 ++ ids l2) evs o (next h) Hs (Permutation_NoDup Hp Hn) (Permutation_Forall Hp Hf)) as H.
    destruct (bind_all None p (o, next h) evs) as [o' nx]. destruct H as [Hn' Hf']. unfold wf. cbn [objs next].
    rewrite El, <- Elen, replace_split, ids_app. cbn [ids flat_map app]. fold (ids l2).
    assert (Hp' : Permutation (u_id o' :: x_id o' :: ids l1 ++ ids l2) (ids l1 ++ u_id o' :: x_id o' :: ids l2)).
    { etransitivity; [apply perm_skip; apply Permutation_middle | apply Permutation_middle]. }
    split; [apply (Permutation_NoDup Hp' Hn') | apply (Permutation_Forall Hp' Hf')].
  - assert (H0 : NoDup (next h :: S (next h) :: ids (objs h))).
    { constructor; [intros [E|Hin]; [lia | rewrite Forall_forall in Hf; specialize (Hf _ Hin); lia]|].
      constructor; [intros Hin; rewrite Forall_forall in Hf; specialize (Hf _ Hin); lia | exact Hn]. }
    assert (H1 : Forall (fun k => k < S (S (next h))) (next h :: S (next h) :: ids (objs h))).
    { repeat constructor; try lia. apply (Forall_impl _ (fun k (H : k < next h) => Nat.lt_lt_succ_r _ _ (Nat.lt_lt_succ_r _ _ H)) Hf). }
    pose proof (bind_safe None p (ids (objs h)) evs (Obj (next h) (S (next h))) (S (S (next h))) Hs H0 H1) as H.
    destruct (bind_all None p _ evs) as [o' nx]. destruct H as [Hn' Hf']. unfold wf. cbn [objs next]. rewrite ids_app. cbn [ids flat_map app].
    assert (Hp' : Permutation (u_id o' :: x_id o' :: ids (objs h)) (ids (objs h) ++ [u_id o'; x_id o'])).
    { change (u_id o' :: x_id o' :: ids (objs h)) with ([u_id o'; x_id o'] ++ ids (objs h)). apply Permutation_app_comm. }
    split; [apply (Permutation_NoDup Hp' Hn') | apply (Permutation_Forall Hp' Hf')].
  - assert (H0 : NoDup (next h :: S (next h) :: ids (objs h))).
    { constructor; [intros [E|Hin]; [lia | rewrite Forall_forall in Hf; specialize (Hf _ Hin); lia]|].
      constructor; [intros Hin; rewrite Forall_forall in Hf; specialize (Hf _ Hin); lia | exact Hn]. }
    assert (H1 : Forall (fun k => k < S (S (next h))) (next h :: S (next h) :: ids (objs h))).
    { repeat constructor; try lia. apply (Forall_impl _ (fun k (H : k < next h) => Nat.lt_lt_succ_r _ _ (Nat.lt_lt_succ_r _ _ H)) Hf). }
    pose proof (bind_safe (nth_error (objs h) i) p (ids (objs h)) evs (Obj (next h) (S (next h))) (S (S (next h))) Hs H0 H1) as H.
    destruct (bind_all (nth_error (objs h) i) p _ evs) as [o' nx]. destruct H as [Hn' Hf']. unfold wf. cbn [objs next]. rewrite ids_app. cbn [ids flat_map app].
    assert (Hp' : Permutation (u_id o' :: x_id o' :: ids (objs h)) (ids (objs h) ++ [u_id o'; x_id o'])).
    { change (u_id o' :: x_id o' :: ids (objs h)) with ([u_id o'; x_id o'] ++ ids (objs h)). apply Permutation_app_comm. }
    split; [apply (Permutation_NoDup Hp' Hn') | apply (Permutation_Forall Hp' Hf')].
Qed.

Lemma hrun_wf evs : forall h, wf h -> Forall (fun ev => forallb safe (evs_of ev) = true) evs -> wf (hrun h evs).
Proof.
  induction evs as [|ev r IH]; intros h Hw Hf; [exact Hw|]. inversion Hf; subst. cbn [hrun fold_left]. apply IH; [apply hstep_wf; assumption | assumption].
Qed.

(* the rebinding statements of the current atom.py *)
Definition source_events : list bindev := concat (map snd c09_alias_table).
Lemma source_events_safe : forallb safe source_events = true.
Proof. vm_compute. reflexivity. Qed.

Lemma from_source_safe evs : Forall (fun e => In e source_events) evs -> forallb safe evs = true.
Proof.
  intros H. apply forallb_forall. intros e He. rewrite Forall_forall in H. pose proof source_events_safe as Hs.
  rewrite forallb_forall in Hs. apply Hs, H, He.
Qed.

Lemma no_aliasing evs h : wf h -> Forall (fun ev => Forall (fun e => In e source_events) (evs_of ev)) evs -> wf (hrun h evs).
Proof.
  intros Hw Hf. apply hrun_wf; [exact Hw|]. apply Forall_forall. intros ev Hev. rewrite Forall_forall in Hf. apply from_source_safe, Hf, Hev.
Qed.

(* the invariant is not vacuous: a single statement binding the caller's array breaks it *)
Lemma param_binding_aliases : exists h ev, wf h /\ ~ wf (hstep h ev).
Proof.
  exists (Heap [Obj 0 1; Obj 2 3] 4), (HCall 0 [BParam WU] 2). split.
  - split; [repeat constructor; cbn; intuition lia | repeat constructor].
  - intros [Hn _]. cbn in Hn. inversion Hn as [|? ? Hnot _]. apply Hnot. cbn. intuition.
Qed.
