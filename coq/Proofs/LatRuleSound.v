(* Soundness of the rule checker: if rule_check accepts, every real cell whose metric tensor is
   invariant under all listed rotations satisfies the (translated) rule. *)
From Coq Require Import ZArith Reals Lra Lia List Bool String.
From DS Require Import Base.ZMat Base.RMat Base.Trig Base.SGDefs Model.LatRuleDefs Model.LatRule.
Import ListNotations.
Open Scope R_scope.

Definition rmat (r : m3) : mat :=
  M (IZR (m11 r)) (IZR (m12 r)) (IZR (m13 r)) (IZR (m21 r)) (IZR (m22 r)) (IZR (m23 r)) (IZR (m31 r)) (IZR (m32 r)) (IZR (m33 r)).

Definition valid_cell (c : cell) : Prop :=
  0 < c_a c /\ 0 < c_b c /\ 0 < c_c c /\ 0 < c_alpha c < 180 /\ 0 < c_beta c < 180 /\ 0 < c_gamma c < 180.

(* metric tensor of a cell: g_ij = a_i . a_j *)
Definition metric_mat (c : cell) : mat :=
  let a := c_a c in let b := c_b c in let cc := c_c c in
  let ca := cosd (c_alpha c) in let cb := cosd (c_beta c) in let cg := cosd (c_gamma c) in
  M (a * a) (a * b * cg) (a * cc * cb)
    (a * b * cg) (b * b) (b * cc * ca)
    (a * cc * cb) (b * cc * ca) (cc * cc).

(* the rotation part R of an operation x -> R x + t preserves all lengths and angles of the lattice *)
Definition preserves (r : m3) (g : mat) : Prop := mmul (mT (rmat r)) (mmul g (rmat r)) = g.
Definition invariant (r : m3) (c : cell) : Prop := preserves r (metric_mat c).

Definition msym (g : mat) : Prop := a21 g = a12 g /\ a31 g = a13 g /\ a32 g = a23 g.
Definition eval (f : f6) (g : mat) : R :=
  IZR (f11 f) * a11 g + IZR (f12 f) * a12 g + IZR (f13 f) * a13 g + IZR (f22 f) * a22 g + IZR (f23 f) * a23 g + IZR (f33 f) * a33 g.

Lemma metric_sym c : msym (metric_mat c).
Proof. unfold msym, metric_mat; cbn; repeat split; reflexivity. Qed.

Lemma eval_add x y g : eval (f6_add x y) g = eval x g + eval y g.
Proof. unfold eval, f6_add; cbn [f11 f12 f13 f22 f23 f33]. rewrite !plus_IZR. ring. Qed.
Lemma eval_scale k x g : eval (f6_scale k x) g = IZR k * eval x g.
Proof. unfold eval, f6_scale; cbn [f11 f12 f13 f22 f23 f33]. rewrite !mult_IZR. ring. Qed.
Lemma eval_zero g : eval f6_zero g = 0.
Proof. unfold eval, f6_zero; cbn. ring. Qed.
Lemma f6_eqb_eq x y : f6_eqb x y = true -> x = y.
Proof.
  destruct x as [x1 x2 x3 x4 x5 x6], y as [y1 y2 y3 y4 y5 y6]; unfold f6_eqb; cbn [f11 f12 f13 f22 f23 f33]. rewrite !andb_true_iff, !Z.eqb_eq.
  intros [[[[[-> ->] ->] ->] ->] ->]. reflexivity.
Qed.

Lemma conj_forms_ok r g : msym g ->
  let h := mmul (mT (rmat r)) (mmul g (rmat r)) in
  a11 h = eval (F11 (conj_forms r)) g /\ a12 h = eval (F12 (conj_forms r)) g /\ a13 h = eval (F13 (conj_forms r)) g /\
  a22 h = eval (F22 (conj_forms r)) g /\ a23 h = eval (F23 (conj_forms r)) g /\ a33 h = eval (F33 (conj_forms r)) g.
Proof.
  intros [S1 [S2 S3]]. destruct r as [r11 r12 r13 r21 r22 r23 r31 r32 r33]. destruct g as [g11 g12 g13 g21 g22 g23 g31 g32 g33].
  cbn [a11 a12 a13 a21 a22 a23 a31 a32 a33] in S1, S2, S3. subst.
  unfold conj_forms, entry_form, eval, rmat. cbn [m11 m12 m13 m21 m22 m23 m31 m32 m33 F11 F12 F13 F22 F23 F33 f11 f12 f13 f22 f23 f33].
  rm_simpl. rewrite ?plus_IZR, ?mult_IZR. repeat split; ring.
Qed.

Lemma forms_add_eval x y g :
  eval (F11 (forms_add x y)) g = eval (F11 x) g + eval (F11 y) g /\ eval (F12 (forms_add x y)) g = eval (F12 x) g + eval (F12 y) g /\
  eval (F13 (forms_add x y)) g = eval (F13 x) g + eval (F13 y) g /\ eval (F22 (forms_add x y)) g = eval (F22 x) g + eval (F22 y) g /\
  eval (F23 (forms_add x y)) g = eval (F23 x) g + eval (F23 y) g /\ eval (F33 (forms_add x y)) g = eval (F33 x) g + eval (F33 y) g.
Proof. unfold forms_add; cbn [F11 F12 F13 F22 F23 F33]. rewrite !eval_add. repeat split; reflexivity. Qed.

Lemma sum_forms_inv rs g : msym g -> (forall r, In r rs -> preserves r g) ->
  let n := INR (List.length rs) in let s := sum_forms rs in
  eval (F11 s) g = n * a11 g /\ eval (F12 s) g = n * a12 g /\ eval (F13 s) g = n * a13 g /\
  eval (F22 s) g = n * a22 g /\ eval (F23 s) g = n * a23 g /\ eval (F33 s) g = n * a33 g.
Proof.
  intros Hs. induction rs as [|r rs IH]; intros Hinv.
  - cbn [sum_forms fold_right List.length INR forms_zero F11 F12 F13 F22 F23 F33]. rewrite eval_zero. repeat split; ring.
  - assert (Hr : preserves r g) by (apply Hinv; left; reflexivity).
    assert (Hrest : forall r', In r' rs -> preserves r' g) by (intros r' H'; apply Hinv; right; exact H').
    specialize (IH Hrest). cbv zeta in IH. destruct IH as [I1 [I2 [I3 [I4 [I5 I6]]]]].
    pose proof (conj_forms_ok r g Hs) as C. cbv zeta in C. unfold preserves in Hr. rewrite Hr in C.
    destruct C as [C1 [C2 [C3 [C4 [C5 C6]]]]].
    cbv zeta. change (sum_forms (r :: rs)) with (forms_add (conj_forms r) (sum_forms rs)).
    destruct (forms_add_eval (conj_forms r) (sum_forms rs) g) as [A1 [A2 [A3 [A4 [A5 A6]]]]].
    rewrite A1, A2, A3, A4, A5, A6, I1, I2, I3, I4, I5, I6, <- C1, <- C2, <- C3, <- C4, <- C5, <- C6.
    change (List.length (r :: rs)) with (S (List.length rs)). rewrite S_INR. repeat split; ring.
Qed.

Lemma pull_eval e s g :
  eval (pull e s) g = IZR (f11 e) * eval (F11 s) g + IZR (f12 e) * eval (F12 s) g + IZR (f13 e) * eval (F13 s) g +
                      IZR (f22 e) * eval (F22 s) g + IZR (f23 e) * eval (F23 s) g + IZR (f33 e) * eval (F33 s) g.
Proof. unfold pull. rewrite !eval_add, !eval_scale. ring. Qed.

(* key lemma: a functional whose pull-back through the summed conjugations vanishes is zero on every invariant metric *)
Lemma vanishes_sound rs g e : rs <> [] -> msym g -> (forall r, In r rs -> preserves r g) ->
  vanishes (sum_forms rs) e = true -> eval e g = 0.
Proof.
  intros Hne Hs Hinv Hv. unfold vanishes in Hv. apply f6_eqb_eq in Hv.
  pose proof (pull_eval e (sum_forms rs) g) as P. rewrite Hv, eval_zero in P.
  destruct (sum_forms_inv rs g Hs Hinv) as [I1 [I2 [I3 [I4 [I5 I6]]]]].
  rewrite I1, I2, I3, I4, I5, I6 in P.
  assert (Hn : 0 < INR (List.length rs)) by (destruct rs; [contradiction | apply lt_0_INR; cbn; lia]).
  assert (E : INR (List.length rs) * eval e g = 0) by (unfold eval; lra).
  apply Rmult_integral in E. destruct E; lra.
Qed.

Section Facts.
  Variable rs : list m3.
  Variable c : cell.
  Hypothesis Hne : rs <> [].
  Hypothesis Hvalid : valid_cell c.
  Hypothesis Hinv : forall r, In r rs -> invariant r c.
  Let s := sum_forms rs.

  Lemma van e : vanishes s e = true -> eval e (metric_mat c) = 0.
  Proof. apply vanishes_sound; [exact Hne | apply metric_sym | exact Hinv]. Qed.

  Lemma sq_eq x y : 0 < x -> 0 < y -> x * x - y * y = 0 -> x = y.
  Proof. intros Hx Hy E. assert ((x - y) * (x + y) = 0) by lra. apply Rmult_integral in H. destruct H; lra. Qed.

  Lemma eqlen_sound p q : eqlen s p q = true -> par_val c p = par_val c q.
  Proof.
    destruct Hvalid as [Ha [Hb [Hc _]]].
    unfold eqlen. destruct p, q; cbn [len_form]; try discriminate; intros H; apply van in H;
      unfold eval, f6_sub, f6_add, f6_scale, metric_mat in H; cbn in H; cbn [par_val];
      apply sq_eq; try assumption; lra.
  Qed.

  Lemma prod_zero x y z : 0 < x -> 0 < y -> x * y * z = 0 -> z = 0.
  Proof. intros Hx Hy E. assert (0 < x * y) by (apply Rmult_lt_0_compat; assumption).
    apply Rmult_integral in E. destruct E; lra. Qed.

  Lemma is90_sound p : is90 s p = true -> par_val c p = 90.
  Proof.
    destruct Hvalid as [Ha [Hb [Hc [Hal [Hbe Hga]]]]].
    unfold is90. destruct p; cbn [ang_form]; try discriminate; intros H; apply van in H;
      unfold eval, metric_mat in H; cbn in H; cbn [par_val]; apply cosd_eq0; try assumption.
    - apply (prod_zero (c_b c) (c_c c)); try assumption; lra.
    - apply (prod_zero (c_a c) (c_c c)); try assumption; lra.
    - apply (prod_zero (c_a c) (c_b c)); try assumption; lra.
  Qed.

  Lemma half_lemma x z : 0 < x -> 2 * (x * x * z) + x * x = 0 -> z = - (1 / 2).
  Proof. intros Hx E. assert (0 < x * x) by (apply Rmult_lt_0_compat; assumption).
    assert (x * x * (2 * z + 1) = 0) by lra. apply Rmult_integral in H0. destruct H0; lra. Qed.

  Lemma is120_sound p : is120 s p = true -> par_val c p = 120.
  Proof.
    destruct Hvalid as [Ha [Hb [Hc [Hal [Hbe Hga]]]]].
    unfold is120. destruct p; cbn [ang_form len_form]; try discriminate; rewrite andb_true_iff; intros [H E];
      apply van in H; apply eqlen_sound in E; cbn [par_val] in E;
      unfold eval, f6_add, f6_scale, metric_mat in H; cbn in H; cbn [par_val]; apply cosd_eq_mhalf; try assumption.
    - apply (half_lemma (c_b c)); [assumption|]. rewrite <- E in H at 1. rewrite <- E in H. rewrite E in H. 
      replace (c_c c) with (c_b c) in H by exact E. lra.
    - apply (half_lemma (c_a c)); [assumption|]. replace (c_c c) with (c_a c) in H by exact E. lra.
    - apply (half_lemma (c_a c)); [assumption|]. replace (c_b c) with (c_a c) in H by exact E. lra.
  Qed.

  Lemma cos_cancel x y u v : 0 < x -> 0 < y -> x * y * u - x * y * v = 0 -> u = v.
  Proof. intros Hx Hy E. assert (0 < x * y) by (apply Rmult_lt_0_compat; assumption).
    assert (x * y * (u - v) = 0) by lra. apply Rmult_integral in H0. destruct H0; lra. Qed.

  Lemma eqang_sound p q : eqang s p q = true -> par_val c p = par_val c q.
  Proof.
    destruct Hvalid as [Ha [Hb [Hc [Hal [Hbe Hga]]]]].
    unfold eqang. destruct p, q; try discriminate; try reflexivity; rewrite andb_true_iff; intros [H E];
      apply van in H; apply eqlen_sound in E; cbn [par_val] in E;
      unfold eval, metric_mat in H; cbn in H; cbn [par_val]; apply cosd_inj; try assumption.
    - (* alpha beta: g13 - g23 = a c cb - b c ca, a = b *)
      symmetry. apply (cos_cancel (c_a c) (c_c c)); try assumption. replace (c_b c) with (c_a c) in H by exact E. lra.
    - (* alpha gamma: g12 - g23 = a b cg - b c ca, a = c *)
      symmetry. apply (cos_cancel (c_a c) (c_b c)); try assumption. replace (c_c c) with (c_a c) in H by exact E. lra.
    - apply (cos_cancel (c_a c) (c_c c)); try assumption. replace (c_b c) with (c_a c) in H by exact E. lra.
    - (* beta gamma: g12 - g13 = a b cg - a c cb, b = c *)
      symmetry. apply (cos_cancel (c_a c) (c_b c)); try assumption. replace (c_c c) with (c_b c) in H by exact E. lra.
    - apply (cos_cancel (c_a c) (c_b c)); try assumption. replace (c_c c) with (c_a c) in H by exact E. lra.
    - apply (cos_cancel (c_a c) (c_b c)); try assumption. replace (c_c c) with (c_b c) in H by exact E. lra.
  Qed.

  Lemma check_eq_sound x y : check_eq s x y = true -> term_val c x = term_val c y.
  Proof.
    destruct x as [p|u], y as [q|v]; cbn [check_eq term_val].
    - destruct (is_len p) eqn:Lp; [destruct (is_len q) eqn:Lq; [|discriminate] | destruct (is_len q) eqn:Lq; [discriminate|]].
      + destruct p, q; try discriminate; try reflexivity; apply eqlen_sound.
      + rewrite !orb_true_iff, !andb_true_iff. intros [[[H1 H2]|[H1 H2]]|H].
        * rewrite (is90_sound p H1), (is90_sound q H2). reflexivity.
        * rewrite (is120_sound p H1), (is120_sound q H2). reflexivity.
        * apply eqang_sound; exact H.
    - destruct (is_len p); [discriminate|]. destruct (v =? 90)%Z eqn:E90; [|destruct (v =? 120)%Z eqn:E120; [|discriminate]].
      + apply Z.eqb_eq in E90. subst. apply is90_sound.
      + apply Z.eqb_eq in E120. subst. apply is120_sound.
    - destruct (is_len q); [discriminate|]. destruct (u =? 90)%Z eqn:E90; [|destruct (u =? 120)%Z eqn:E120; [|discriminate]].
      + apply Z.eqb_eq in E90. subst. intros H. symmetry. apply is90_sound; exact H.
      + apply Z.eqb_eq in E120. subst. intros H. symmetry. apply is120_sound; exact H.
    - rewrite Z.eqb_eq. intros ->. reflexivity.
  Qed.

  Lemma rule_check_sound_sec r : rule_check s r = true -> interp r c.
  Proof.
    induction r as [| |x y|p IHp q IHq|p IHp q IHq]; cbn [rule_check interp].
    - intros _. exact Logic.I.
    - discriminate.
    - apply check_eq_sound.
    - rewrite andb_true_iff. intros [H1 H2]. split; auto.
    - rewrite orb_true_iff. intros [H|H]; [left|right]; auto.
  Qed.
End Facts.

Theorem rule_check_sound (rs : list m3) (r : rule) (c : cell) :
  rs <> [] -> valid_cell c -> (forall R, In R rs -> invariant R c) ->
  rule_check (sum_forms rs) r = true -> interp r c.
Proof. intros. eapply rule_check_sound_sec; eauto. Qed.
