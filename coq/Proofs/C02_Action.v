(* C02 - the tabulated operations act on the discrete torus (Z/D)^3, compatibly with `compose`. *)
From Coq Require Import ZArith List Bool Lia.
From DS Require Import Base.ZMat Base.SGDefs Model.GroupCheck Model.C02_Orbit.
Import ListNotations.
Open Scope Z_scope.

(* congruence of integer triples modulo D *)
Definition veqm (D : Z) (u v : v3) : Prop := exists k, u = vadd v (vscale D k).

Ltac v3d := repeat match goal with v : v3 |- _ =>
  let a := fresh "c" in let b := fresh "c" in let c := fresh "c" in destruct v as [a b c] end.
Ltac m3d := repeat match goal with m : m3 |- _ =>
  let a := fresh "e" in let b := fresh "e" in let c := fresh "e" in let d := fresh "e" in let e := fresh "e" in
  let f := fresh "e" in let g := fresh "e" in let h := fresh "e" in let i := fresh "e" in
  destruct m as [a b c d e f g h i] end.
Ltac vsimp := unfold apply_op, raw_img, vmod in *; zm_simpl.

Lemma veqm_refl D u : veqm D u u.
Proof. exists v0. v3d. apply v3_ext; vsimp; ring. Qed.

Lemma veqm_sym D u v : veqm D u v -> veqm D v u.
Proof. intros [k ->]. exists (vscale (-1) k). v3d. apply v3_ext; vsimp; ring. Qed.

Lemma veqm_trans D u v w : veqm D u v -> veqm D v w -> veqm D u w.
Proof. intros [k ->] [j ->]. exists (vadd k j). v3d. apply v3_ext; vsimp; ring. Qed.

Lemma veqm_vadd D u u' v v' : veqm D u u' -> veqm D v v' -> veqm D (vadd u v) (vadd u' v').
Proof. intros [k ->] [j ->]. exists (vadd k j). v3d. apply v3_ext; vsimp; ring. Qed.

Lemma veqm_vsub D u u' v v' : veqm D u u' -> veqm D v v' -> veqm D (vsub u v) (vsub u' v').
Proof. intros [k ->] [j ->]. exists (vsub k j). v3d. apply v3_ext; vsimp; ring. Qed.

Lemma veqm_mvec D a u v : veqm D u v -> veqm D (mvec a u) (mvec a v).
Proof. intros [k ->]. exists (mvec a k). m3d. v3d. apply v3_ext; vsimp; ring. Qed.

Lemma veqm_vmod D w : D <> 0 -> veqm D (vmod D w) w.
Proof.
  intros HD. exists (V3 (- (vx w / D)) (- (vy w / D)) (- (vz w / D))). v3d.
  apply v3_ext; vsimp; rewrite Z.mod_eq by exact HD; ring.
Qed.

Lemma mod_eq_of_shift D a b k : D <> 0 -> a = b + D * k -> a mod D = b mod D.
Proof. intros HD ->. rewrite Z.mul_comm. apply Z_mod_plus_full. Qed.

Lemma vmod_eq_iff D u v : D <> 0 -> (vmod D u = vmod D v <-> veqm D u v).
Proof.
  intros HD. split.
  - intros H. apply veqm_trans with (vmod D u); [apply veqm_sym, veqm_vmod; exact HD|].
    rewrite H. apply veqm_vmod; exact HD.
  - intros [k ->]. v3d. apply v3_ext; vsimp; eapply mod_eq_of_shift; try exact HD; reflexivity.
Qed.

Lemma veqm_cancel_sub D a b off : veqm D (vsub a off) (vsub b off) -> veqm D a b.
Proof. intros [k H]. exists k. v3d. vsimp. inversion H. apply v3_ext; vsimp; lia. Qed.

(* the action respects congruence *)
Lemma apply_op_veqm D g y y' : veqm D y y' -> veqm D (apply_op D g y) (apply_op D g y').
Proof. intros H. unfold apply_op. apply veqm_vadd; [apply veqm_mvec; exact H | apply veqm_refl]. Qed.

(* the action respects composition modulo D: `compose` reduces translations modulo 12 = one lattice
   translation, which is D in the units of the torus because 12 * (D/12) = D *)
Lemma apply_compose D a b y : (12 | D) ->
  veqm D (apply_op D (compose a b) y) (apply_op D a (apply_op D b y)).
Proof.
  intros [c ->]. destruct a as [ra ta], b as [rb tb].
  unfold compose, D12. cbn [fst snd].
  set (w := vadd (mvec ra tb) ta).
  exists (V3 (- (vx w / 12)) (- (vy w / 12)) (- (vz w / 12))).
  unfold apply_op. cbn [fst snd]. rewrite Z.div_mul by lia.
  subst w. m3d. v3d. apply v3_ext; vsimp; rewrite Z.mod_eq by lia; ring.
Qed.

Lemma apply_ident D y : apply_op D ident y = y.
Proof. unfold apply_op, ident. cbn [fst snd]. v3d. apply v3_ext; vsimp; ring. Qed.

(* --- `compose` is associative and `ident` is neutral on reduced operations ------------------- *)
Lemma compose_assoc a b c : compose (compose a b) c = compose a (compose b c).
Proof.
  destruct a as [ra ta], b as [rb tb], c as [rc tc]. unfold compose, D12. cbn [fst snd].
  f_equal; [apply mmul_assoc|].
  apply vmod_eq_iff; [lia|].
  apply veqm_trans with (vadd (mvec (mmul ra rb) tc) (vadd (mvec ra tb) ta)).
  - apply veqm_vadd; [apply veqm_refl | apply veqm_vmod; lia].
  - apply veqm_sym.
    apply veqm_trans with (vadd (mvec ra (vadd (mvec rb tc) tb)) ta).
    + apply veqm_vadd; [apply veqm_mvec, veqm_vmod; lia | apply veqm_refl].
    + rewrite mvec_vadd, mvec_mmul. exists v0. m3d. v3d. apply v3_ext; vsimp; ring.
Qed.

Definition trans_reduced (o : symop) : Prop :=
  0 <= vx (snd o) < 12 /\ 0 <= vy (snd o) < 12 /\ 0 <= vz (snd o) < 12.

Lemma entries_ok_reduced o : entries_ok o = true -> trans_reduced o.
Proof.
  unfold entries_ok. rewrite !andb_true_iff. intros [_ H].
  unfold v3_entries in H. cbn [forallb] in H. unfold in_range in H.
  rewrite !andb_true_iff, !Z.leb_le in H. unfold trans_reduced. lia.
Qed.

Lemma compose_ident_l o : trans_reduced o -> compose ident o = o.
Proof.
  destruct o as [r t]. unfold trans_reduced, compose, ident, D12. cbn [fst snd]. intros H.
  f_equal; [apply mmul_I_l|]. v3d. apply v3_ext; vsimp; cbn [vx vy vz] in H;
  match goal with |- ?e mod 12 = ?z => replace e with z by ring end; apply Z.mod_small; lia.
Qed.

Lemma compose_ident_r o : trans_reduced o -> compose o ident = o.
Proof.
  destruct o as [r t]. unfold trans_reduced, compose, ident, D12. cbn [fst snd]. intros H.
  f_equal; [apply mmul_I_r|]. m3d. v3d. apply v3_ext; vsimp; cbn [vx vy vz] in H;
  match goal with |- ?e mod 12 = ?z => replace e with z by ring end; apply Z.mod_small; lia.
Qed.

(* --- images --------------------------------------------------------------------------------- *)
Lemma img_eq_iff D g h off x : D <> 0 ->
  (img D g off x = img D h off x <-> veqm D (apply_op D g (vadd x off)) (apply_op D h (vadd x off))).
Proof.
  intros HD. unfold img, red, raw_img. rewrite vmod_eq_iff by exact HD. split.
  - apply veqm_cancel_sub.
  - intros H. apply veqm_vsub; [exact H | apply veqm_refl].
Qed.

Lemma red_as_img D off x : red D x = red D (vsub (vadd x off) off).
Proof. f_equal. v3d. apply v3_ext; vsimp; ring. Qed.

Lemma fixes_iff D g off x : D <> 0 ->
  (img D g off x = red D x <-> veqm D (apply_op D g (vadd x off)) (vadd x off)).
Proof.
  intros HD. rewrite (red_as_img D off x). unfold img, red, raw_img. rewrite vmod_eq_iff by exact HD. split.
  - apply veqm_cancel_sub.
  - intros H. apply veqm_vsub; [exact H | apply veqm_refl].
Qed.

Lemma img_ident D off x : img D ident off x = red D x.
Proof. unfold img, raw_img. rewrite apply_ident. symmetry. apply red_as_img. Qed.

Lemma img_in_cell D g off x : 0 < D -> in_cell D (img D g off x).
Proof.
  intros HD. unfold in_cell, img, red, vmod. cbn [vx vy vz].
  repeat split; apply Z.mod_pos_bound; exact HD.
Qed.
