(* C13 - P_xyz / P_rawxyz raise only the documented errors, for every list of lines. *)
From Coq Require Import List Bool Arith ZArith Lia.
From DS Require Import Base.C13_Exn Gen.C13_ExcSpec Model.C13_Common Model.C13_Xyz
                       Proofs.C13_ExnLemmas Proofs.C13_Shared.
From Coq Require Import Ascii String.
Import ListNotations.

Section XYZ_proofs.
  Variable V : Type.
  Variable split : string -> list string.
  Variable int_of : string -> res Z.
  Variable canon_int : string -> bool.
  Variable float_of : string -> res V.

  (* declared kinds of the oracles *)
  Hypothesis split_nonempty : forall s w, In w (split s) -> w <> EmptyString.
  Hypothesis int_kinds : forall s, within [ValueError] (int_of s).
  Hypothesis float_kinds : forall s, within [ValueError] (float_of s).

  Let parse_xyz := parse_xyz V split int_of canon_int float_of.
  Let parse_rawxyz := parse_rawxyz V split float_of.

  Lemma header_within : forall lines lf start,
    within [IndexError; ValueError; FormatError] (xyz_header int_of canon_int lines lf start).
  Proof.
    intros; unfold xyz_header.
    repeat (first [ wstep | eapply within_weaken_b; [| apply int_kinds]; reflexivity ]).
  Qed.

  Lemma record_within : forall lines start nfields n fields,
    In fields (skipn start (map split lines)) ->
    nfields = 4 ->
    within [ValueError; FormatError] (xyz_record V float_of nfields n fields).
  Proof.
    intros lines start nfields n fields Hin Hn. unfold xyz_record.
    destruct (is_nil fields) eqn:En; [exact I |].
    destruct (Nat.eqb (List.length fields) nfields) eqn:El; simpl; [| tauto].
    apply Nat.eqb_eq in El.
    destruct (idx_ok _ fields 0) as [el Hel]; [lia |]. rewrite Hel; simpl.
    assert (Hne : el <> EmptyString).
    { apply In_skipn in Hin. apply in_map_iff in Hin. destruct Hin as [ln [Hs _]]. subst fields.
      eapply split_nonempty. eapply idx_In. eassumption. }
    destruct el as [| c el']; [congruence |]. simpl.
    apply within_bind.
    - apply within_mapM. intros a _. eapply within_weaken_b; [| apply float_kinds]. reflexivity.
    - intros; exact I.
  Qed.

  Theorem only_documented_xyz : forall lines, documented (parse_xyz lines).
  Proof.
    intros lines. apply within_documented. unfold parse_xyz, C13_Xyz.parse_xyz.
    set (lf := map split lines). set (start0 := count_leading skip_field lf).
    apply within_bind.
    { eapply within_try; [apply header_within | vm_compute; reflexivity |].
      intros k; vm_compute; tauto. }
    intros [natoms start] Hh. apply try_reraise_ok in Hh. simpl fst; simpl snd.
    assert (Hl : List.length lf = List.length lines) by (unfold lf; apply map_length).
    destruct (trim_stop_ok (S (List.length lines)) lf start (List.length lines)) as [stop [Hs Hle]]; [lia |].
    rewrite Hs; simpl.
    destruct (Z.eqb natoms 0 || Nat.leb stop start) eqn:Eg; [exact I |].
    apply orb_false_iff in Eg. destruct Eg as [_ Eg]. apply Nat.leb_gt in Eg.
    destruct (idx_ok _ lf start) as [f0 Hf0]; [lia |]. rewrite Hf0; simpl.
    destruct (Nat.eqb (List.length f0) 4) eqn:E4; simpl; [| tauto].
    apply Nat.eqb_eq in E4.
    apply within_bind.
    { eapply within_try with (ks := [ValueError; FormatError]).
      - apply within_foldM. intros s a Ha. eapply record_within; eassumption.
      - vm_compute; reflexivity.
      - intros k; vm_compute; tauto. }
    intros n _. destruct (Z.eqb (Z.of_nat n) natoms); simpl; tauto.
  Qed.

  Lemma isfloat_total : forall s, within [] (isfloat V float_of s).
  Proof.
    intros s; unfold isfloat. specialize (float_kinds s). destruct (float_of s) as [v | k]; simpl in *; [exact I |].
    destruct float_kinds as [E | []]; subst; simpl; exact I.
  Qed.

  Lemma rawxyz_record_within : forall nfields el x n fields,
    (el = None \/ (el = Some 0 /\ nfields = 4)) ->
    within [ValueError; FormatError] (rawxyz_record V float_of nfields el x n fields).
  Proof.
    intros nfields el x n fields Hel. unfold rawxyz_record.
    destruct (is_nil fields) eqn:En; [exact I |].
    destruct (Nat.eqb (List.length fields) nfields) eqn:El; simpl; [| tauto].
    apply Nat.eqb_eq in El.
    apply within_bind.
    - destruct Hel as [-> | [-> Hn]]; [exact I |].
      destruct (idx_ok _ fields 0) as [e He]; [lia |]. rewrite He; exact I.
    - intros _ _. apply within_bind; [| intros; exact I].
      apply within_mapM. intros a _. eapply within_weaken_b; [| apply float_kinds]. reflexivity.
  Qed.

  Theorem only_documented_rawxyz : forall lines, documented (parse_rawxyz lines).
  Proof.
    intros lines. apply within_documented. unfold parse_rawxyz, C13_Xyz.parse_rawxyz.
    set (lf := map split lines). set (start := count_leading skip_field lf).
    assert (Hl : List.length lf = List.length lines) by (unfold lf; apply map_length).
    destruct (trim_stop_ok (S (List.length lines)) lf start (List.length lines)) as [stop [Hs Hle]]; [lia |].
    rewrite Hs; cbn [bind].
    destruct (Nat.leb stop start) eqn:Eg; [exact I |]. apply Nat.leb_gt in Eg.
    destruct (idx_ok _ lf start) as [f0 Hf0]; [lia |]. rewrite Hf0; cbn [bind].
    apply within_bind.
    { apply within_mapM. intros a _. eapply within_weaken; [| apply isfloat_total]. intros x []. }
    intros ff Hff.
    destruct (Nat.eqb (List.length f0) 3 || Nat.eqb (List.length f0) 4) eqn:E34; cbn [negb]; [| simpl; tauto].
    destruct (bool_list_eqb (firstn 3 ff) [true; true; true]) eqn:B1; cbn [bind fst snd].
    { eapply within_try with (ks := [ValueError; FormatError]).
      - apply within_foldM. intros s a _. apply rawxyz_record_within. left; reflexivity.
      - vm_compute; reflexivity.
      - intros k; vm_compute; tauto. }
    destruct (bool_list_eqb (firstn 4 ff) [false; true; true; true]) eqn:B2; cbn [bind fst snd]; [| simpl; tauto].
    (* the element column exists: four float flags were compared, so the first record has four fields *)
    assert (H4 : List.length f0 = 4).
    { assert (Hlen : List.length ff = List.length f0) by (eapply mapM_length; exact Hff).
      unfold bool_list_eqb in B2. apply andb_true_iff in B2. destruct B2 as [B2 _]. apply Nat.eqb_eq in B2.
      rewrite firstn_length in B2. cbn [List.length] in B2.
      apply orb_true_iff in E34. destruct E34 as [E3 | E4']; [apply Nat.eqb_eq in E3; lia | apply Nat.eqb_eq in E4'; lia]. }
    eapply within_try with (ks := [ValueError; FormatError]).
    - apply within_foldM. intros s a _. apply rawxyz_record_within. right; split; [reflexivity | assumption].
    - vm_compute; reflexivity.
    - intros k; vm_compute; tauto.
  Qed.
End XYZ_proofs.
