(* C12 - rejection table, part 2: what the four text writers of C04 produce (first words of their records), and the
   twelve cells  parse_g (print_f S)  is rejected  for  g <> f  among xyz, rawxyz, pdffit, discus. *)
From Coq Require Import List Bool Arith ZArith Lia.
From DS Require Import Base.C13_Exn Gen.C13_ExcSpec Model.C13_Common Proofs.C13_ExnLemmas Proofs.C13_Shared.
From DS Require Import Base.C04_Text Base.C04_Decimal Model.C04_Fmt Gen.C04_FmtSpecs
                       Model.C04_Xyz Model.C04_Rawxyz Model.C04_Pdffit Model.C04_Discus
                       Proofs.C04_Fmt Proofs.C04_Lines Proofs.C04_Xyz Proofs.C04_Rawxyz Proofs.C04_Pdffit.
From DS Require Import Model.C12_Conc Proofs.C12_RejectBase.
From Coq Require Import Ascii String.
Import ListNotations.
Close Scope N_scope.
Open Scope nat_scope.
Open Scope list_scope.

Arguments catches : simpl never.
Local Opaque fix_body int_body lpad rpad parse_float parse_int strip lstrip rstrip print_gen.

(* ---- generic facts about rendered records -------------------------------------------------------- *)
Lemma concat_opt_cons : forall A (x : option (list A)) l r,
  concat_opt (x :: l) = Some r -> exists a b, x = Some a /\ concat_opt l = Some b /\ r = (a ++ b)%list.
Proof.
  intros A x l r H. unfold concat_opt in *. cbn [fold_right] in H.
  destruct x as [a |]; [| discriminate]. destruct (fold_right _ (Some []) l) as [b |]; [| discriminate].
  inversion H. exists a, b. auto.
Qed.

Lemma opt_line_some : forall c l a, opt_line c l = Some a -> a = [] \/ exists x, l = Some x /\ a = [x].
Proof. intros [|] l a H; unfold opt_line in H; [| inversion H; auto]. destruct l; inversion H. right; eauto. Qed.

Lemma map_opt_some_cons : forall A B (f : A -> option B) a l r,
  map_opt f (a :: l) = Some r -> exists b bs, f a = Some b /\ map_opt f l = Some bs /\ r = b :: bs.
Proof. intros A B f a l r H. cbn [map_opt] in H. destruct (f a); [| discriminate]. destruct (map_opt f l); inversion H. eauto. Qed.

(* a record that starts with a string field: its first word is that string *)
Lemma row_first_word : forall lft w f' t a' line,
  sep_ok (FStr lft w :: f') = true -> forallb arg_ok (AStr t :: a') = true ->
  render (FStr lft w :: f') (AStr t :: a') = Some line -> exists r, split_ws line = t :: r.
Proof.
  intros lft w f' t a' line Hs Ha E. pose proof (render_split _ _ _ Hs Ha E) as T.
  cbn [render_toks field_body] in T. destruct (render_toks f' a') as [r |]; [| discriminate]. inversion T. eauto.
Qed.

Lemma word_is_false_first : forall k l w r, split_ws l = w :: r -> str_eqb w (S2L k) = false -> first_word_is k l = false.
Proof. intros k l w r H E. unfold first_word_is. rewrite H. exact E. Qed.

Lemma parse_int_differs : forall z k, parse_int (S2L k) = None -> str_eqb (int_body z) (S2L k) = false.
Proof.
  intros z k H. destruct (str_eqb (int_body z) (S2L k)) eqn:E; [| reflexivity].
  apply str_eqb_eq in E. rewrite <- E, int_body_parse in H. discriminate.
Qed.

Lemma upper_never_c : forall c, Ascii.eqb (upper c) "c"%char = false.
Proof. intros c. apply Bool.negb_true_iff. revert c. apply ascii_forall. vm_compute. reflexivity. Qed.

Lemma upper_word_not_cell : forall el, str_eqb (map upper el) (S2L "cell") = false.
Proof. intros [| c r]; [reflexivity |]. cbn. rewrite upper_never_c. reflexivity. Qed.

Ltac find_in := first [ left; reflexivity | apply in_or_app; first [ left; left; reflexivity | right; find_in ] | right; find_in ].

(* ---- what the writers produce ---------------------------------------------------------------------- *)
Lemma xyz_text : forall S ls, print_xyz S = Some ls ->
  exists als, ls = int_body (Z.of_nat (List.length (x_atoms S))) :: x_title S :: als /\ map_opt print_atom_xyz (x_atoms S) = Some als.
Proof. intros S ls H. unfold print_xyz in H. destruct (map_opt print_atom_xyz (x_atoms S)) as [als |]; inversion H. eauto. Qed.

Lemma xyz_rows_first : forall atoms als, forallb repr_xatom atoms = true -> map_opt print_atom_xyz atoms = Some als ->
  forall l, In l als -> exists a r, In a atoms /\ split_ws l = xa_el a :: r.
Proof.
  induction atoms as [| a atoms IH]; intros als R H l Hl.
  - inversion H; subst. contradiction.
  - destruct (map_opt_some_cons _ _ _ _ _ _ H) as [b [bs [Hb [Hbs ->]]]].
    cbn [forallb] in R. apply andb_true_iff in R. destruct R as [Ra Rr].
    destruct Hl as [<- | Hl].
    + unfold print_atom_xyz, xyz_atom_args, xyz_w_atom in Hb.
      destruct (row_first_word _ _ _ _ _ _ sep_ok_xyz (repr_xatom_args a Ra) Hb) as [r Hr].
      exists a, r. split; [left; reflexivity | exact Hr].
    + destruct (IH bs Rr Hbs l Hl) as [a' [r [Ha' Hr]]]. exists a', r. split; [right; assumption | assumption].
Qed.

Lemma raw_rows : forall atoms als, forallb repr_ratom atoms = true -> map_opt print_atom_raw atoms = Some als ->
  forall l, In l als -> exists a r, In a atoms /\ split_ws l = xa_el a :: r /\ r <> [].
Proof.
  induction atoms as [| a atoms IH]; intros als R H l Hl.
  - inversion H; subst. contradiction.
  - destruct (map_opt_some_cons _ _ _ _ _ _ H) as [b [bs [Hb [Hbs ->]]]].
    cbn [forallb] in R. apply andb_true_iff in R. destruct R as [Ra Rr].
    destruct Hl as [<- | Hl].
    + destruct (atom_line_raw a Ra) as [line [bx [bY [bz [P1 [P2 _]]]]]]. rewrite P1 in Hb. inversion Hb; subst.
      exists a, [bx; bY; bz]. split; [left; reflexivity | split; [exact P2 | discriminate]].
    + destruct (IH bs Rr Hbs l Hl) as [a' [r [Ha' Hr]]]. exists a', r. split; [right; assumption | assumption].
Qed.

Lemma title_record : forall lit txt, kwlit_ok lit = true -> split_ws (strip (lit ++ txt)) = kw_of lit :: split_ws txt.
Proof. intros lit txt H. destruct (kw_record_stripped lit txt H) as [K _]. exact K. Qed.

(* pdffit text: title record, then the literal `format pdffit`, and somewhere the literal `atoms` *)
Lemma pdffit_text : forall S ls, print_pdffit S = Some ls ->
  exists r, ls = strip (pdffit_w_title ++ p_title S) :: pdffit_w_format :: r /\ In pdffit_w_atoms r.
Proof.
  intros S ls H. unfold print_pdffit in H. destruct (p_sharp S) as [[[d2 d1] sr] rc].
  repeat match type of H with
  | concat_opt (_ :: _) = Some _ =>
      let a := fresh "a" in let b := fresh "b" in let Ha := fresh "Ha" in let Hb := fresh "Hb" in let Hr := fresh "Hr" in
      apply concat_opt_cons in H; destruct H as [a [b [Ha [Hb Hr]]]]; rename Hb into H; subst
  end.
  inversion Ha; subst. inversion Ha0; subst. cbn [app].
  eexists. split; [reflexivity |].
  inversion Ha9; subst. find_in.
Qed.

(* ---- the cells ---------------------------------------------------------------------------------- *)

(* 1. P_rawxyz on xyz text: the count record has one field *)
Theorem cell_rawxyz_xyz : forall S ls, print_xyz S = Some ls -> rejected (conc_rawxyz ls).
Proof.
  intros S ls H. destruct (xyz_text _ _ H) as [als [-> _]].
  eapply rawxyz_rejects_one_field_record with (la := int_body (Z.of_nat (List.length (x_atoms S)))).
  - apply split_int.
  - apply int_body_not_hash.
  - left; reflexivity.
  - apply split_int.
Qed.

(* 2. P_xyz on rawxyz text: the first record has four fields *)
Theorem cell_xyz_rawxyz : forall S ls, repr_rawxyz S = true -> x_atoms S <> [] -> print_rawxyz S = Some ls ->
  conc_xyz ls = Raise FormatError.
Proof.
  intros S ls R Hne H. unfold print_rawxyz in H. unfold repr_rawxyz in R.
  destruct (x_atoms S) as [| a atoms] eqn:Ea; [contradiction |].
  destruct (map_opt_some_cons _ _ _ _ _ _ H) as [b [bs [Hb [_ ->]]]].
  destruct (raw_rows (a :: atoms) (b :: bs) R H b (or_introl eq_refl)) as [a' [r [_ [Hr Hrn]]]].
  cbn [forallb] in R. apply andb_true_iff in R. destruct R as [Ra _].
  destruct (atom_line_raw a Ra) as [line [bx [bY [bz [P1 [P2 _]]]]]]. rewrite P1 in Hb. inversion Hb; subst b.
  eapply xyz_rejects_first_record; [exact P2 | | left; discriminate].
  unfold repr_ratom in Ra. repeat (apply andb_true_iff in Ra; destruct Ra as [Ra ?]).
  apply negb_true_iff in Ra. exact Ra.
Qed.

(* 3, 4. P_xyz on pdffit / discus text: the first record starts with the word `title` *)
Lemma xyz_rejects_title_record : forall lit txt rest, kwlit_ok lit = true -> kw_of lit = S2L "title" ->
  conc_xyz (strip (lit ++ txt) :: rest) = Raise FormatError.
Proof.
  intros lit txt rest Hk Hw. eapply xyz_rejects_first_record.
  - rewrite (title_record lit txt Hk), Hw. reflexivity.
  - reflexivity.
  - right. Local Transparent parse_int. vm_compute. reflexivity.
Qed.
Local Opaque parse_int.

Theorem cell_xyz_pdffit : forall S ls, print_pdffit S = Some ls -> conc_xyz ls = Raise FormatError.
Proof.
  intros S ls H. destruct (pdffit_text _ _ H) as [r [-> _]].
  apply xyz_rejects_title_record; reflexivity.
Qed.

Lemma discus_text_head : forall S ls, print_discus S = Some ls ->
  exists r, ls = strip (discus_w_title ++ d_title S) :: (discus_w_spcgr ++ d_spcgr S) :: r /\ In discus_w_atoms r.
Proof.
  intros S ls H. unfold print_discus in H.
  repeat match type of H with
  | concat_opt (_ :: _) = Some _ =>
      let a := fresh "a" in let b := fresh "b" in let Ha := fresh "Ha" in let Hb := fresh "Hb" in let Hr := fresh "Hr" in
      apply concat_opt_cons in H; destruct H as [a [b [Ha [Hb Hr]]]]; rename Hb into H; subst
  end.
  inversion Ha; subst. inversion Ha0; subst. cbn [app].
  eexists. split; [reflexivity |].
  inversion Ha5; subst. find_in.
Qed.

Theorem cell_xyz_discus : forall S ls, print_discus S = Some ls -> conc_xyz ls = Raise FormatError.
Proof.
  intros S ls H. destruct (discus_text_head _ _ H) as [r [-> _]].
  apply xyz_rejects_title_record; reflexivity.
Qed.

(* 5, 6. P_rawxyz on pdffit / discus text: the `atoms` record has one field *)
Theorem cell_rawxyz_pdffit : forall S ls, print_pdffit S = Some ls -> rejected (conc_rawxyz ls).
Proof.
  intros S ls H. destruct (pdffit_text _ _ H) as [r [-> Hin]].
  eapply rawxyz_rejects_one_field_record with (la := pdffit_w_atoms) (wa := S2L "atoms").
  - apply (title_record pdffit_w_title (p_title S)). reflexivity.
  - reflexivity.
  - right; right; exact Hin.
  - reflexivity.
Qed.

Theorem cell_rawxyz_discus : forall S ls, print_discus S = Some ls -> rejected (conc_rawxyz ls).
Proof.
  intros S ls H. destruct (discus_text_head _ _ H) as [r [-> Hin]].
  eapply rawxyz_rejects_one_field_record with (la := discus_w_atoms) (wa := S2L "atoms").
  - apply (title_record discus_w_title (d_title S)). reflexivity.
  - reflexivity.
  - right; right; exact Hin.
  - reflexivity.
Qed.

(* 7-10. P_pdffit / P_discus on xyz / rawxyz text: no `cell` record, provided neither the title nor an element is that word *)
Lemma xyz_text_no_cell : forall S ls, repr_xyz S = true -> xyz_no_cell_word S = true -> print_xyz S = Some ls -> no_cell_record ls.
Proof.
  intros S ls R Hc H. destruct (xyz_text _ _ H) as [als [-> Hals]].
  unfold xyz_no_cell_word in Hc. apply andb_true_iff in Hc. destruct Hc as [Ht He]. apply negb_true_iff in Ht.
  unfold repr_xyz in R. apply andb_true_iff in R. destruct R as [_ Ra].
  intros l [<- | [<- | Hl]].
  - eapply word_is_false_first; [apply split_int |]. apply parse_int_differs.
    Local Transparent parse_int. vm_compute. reflexivity.
  - exact Ht.
  - destruct (xyz_rows_first _ _ Ra Hals l Hl) as [a [r [Ha Hr]]].
    eapply word_is_false_first; [exact Hr |].
    unfold elements_not_cell in He. rewrite forallb_forall in He. specialize (He a Ha). apply negb_true_iff in He. exact He.
Qed.
Local Opaque parse_int.

Lemma rawxyz_text_no_cell : forall S ls, repr_rawxyz S = true -> elements_not_cell (x_atoms S) = true -> print_rawxyz S = Some ls ->
  no_cell_record ls.
Proof.
  intros S ls R He H l Hl. unfold print_rawxyz in H. unfold repr_rawxyz in R.
  destruct (raw_rows _ _ R H l Hl) as [a [r [Ha [Hr _]]]].
  eapply word_is_false_first; [exact Hr |].
  unfold elements_not_cell in He. rewrite forallb_forall in He. specialize (He a Ha). apply negb_true_iff in He. exact He.
Qed.

Section GeometryCells.
  Variable lattice_of : list dec -> res unit.
  Variable mulZ : dec -> Z -> res dec.
  Variable set_lat_par : list (list dec) -> list dec -> res unit.
  Variable cell_pars : list (list dec) -> list dec.
  Hypothesis lattice_kinds : forall l, within [ValueError; ZeroDivisionError] (lattice_of l).
  Hypothesis mulZ_kinds : forall v z, within [OverflowError] (mulZ v z).
  Hypothesis set_lat_par_kinds : forall h l, within [ValueError; ZeroDivisionError] (set_lat_par h l).

  Theorem cell_pdffit_xyz : forall S ls, repr_xyz S = true -> xyz_no_cell_word S = true -> print_xyz S = Some ls ->
    conc_pdffit lattice_of mulZ ls = Raise FormatError.
  Proof. intros. apply pdffit_rejects_without_cell; try assumption. eapply xyz_text_no_cell; eassumption. Qed.

  Theorem cell_discus_xyz : forall S ls, repr_xyz S = true -> xyz_no_cell_word S = true -> print_xyz S = Some ls ->
    rejected (conc_discus lattice_of mulZ set_lat_par cell_pars ls).
  Proof. intros. apply discus_rejects_without_cell; try assumption. eapply xyz_text_no_cell; eassumption. Qed.

  Theorem cell_pdffit_rawxyz : forall S ls, repr_rawxyz S = true -> elements_not_cell (x_atoms S) = true -> print_rawxyz S = Some ls ->
    conc_pdffit lattice_of mulZ ls = Raise FormatError.
  Proof. intros. apply pdffit_rejects_without_cell; try assumption. eapply rawxyz_text_no_cell; eassumption. Qed.

  Theorem cell_discus_rawxyz : forall S ls, repr_rawxyz S = true -> elements_not_cell (x_atoms S) = true -> print_rawxyz S = Some ls ->
    rejected (conc_discus lattice_of mulZ set_lat_par cell_pars ls).
  Proof. intros. apply discus_rejects_without_cell; try assumption. eapply rawxyz_text_no_cell; eassumption. Qed.
End GeometryCells.

(* ---- 11. P_discus on pdffit text: the record `format pdffit` is refused ------------------------------- *)
Section DiscusOnPdffit.
  Variable lattice_of : list dec -> res unit.
  Variable mulZ : dec -> Z -> res dec.
  Variable set_lat_par : list (list dec) -> list dec -> res unit.
  Variable cell_pars : list (list dec) -> list dec.
  Hypothesis lattice_kinds : forall l, within [ValueError; ZeroDivisionError] (lattice_of l).
  Hypothesis mulZ_kinds : forall v z, within [OverflowError] (mulZ v z).
  Hypothesis set_lat_par_kinds : forall h l, within [ValueError; ZeroDivisionError] (set_lat_par h l).

  Let dheader := Model.C13_Discus.discus_header dec c_split c_split_commas c_float c_int set_lat_par.

  Lemma discus_header_title : forall st line rest ws, c_split line = "title"%string :: ws ->
    dheader st (line :: rest) = dheader st rest.
  Proof. intros st line rest ws H. unfold dheader. cbn [Model.C13_Discus.discus_header]. rewrite H. reflexivity. Qed.

  Lemma discus_header_format_pdffit : forall st line rest, c_split line = ["format"; "pdffit"]%string ->
    dheader st (line :: rest) = Raise FormatError.
  Proof. intros st line rest H. unfold dheader. cbn [Model.C13_Discus.discus_header]. rewrite H. reflexivity. Qed.

  Lemma c_isblank_tokens : forall l, split_ws l <> [] -> c_isblank (L2S l) = false.
  Proof.
    intros l H. unfold c_isblank. rewrite S2L_L2S. pose proof (blank_false_of_tokens l H) as B. unfold blank in B.
    destruct (strip l); [discriminate | reflexivity].
  Qed.

  Theorem cell_discus_pdffit : forall St ls, print_pdffit St = Some ls ->
    rejected (conc_discus lattice_of mulZ set_lat_par cell_pars ls).
  Proof.
    intros St ls H. destruct (pdffit_text _ _ H) as [r [-> _]].
    apply documented_not_ok_rejected; [apply discus_documented; assumption |].
    unfold conc_discus, Model.C13_Discus.parse_discus, Model.C13_Discus.parse_discus_gen. apply try_not_ok. intros n Hb.
    unfold Model.C13_Discus.discus_body in Hb.
    set (lines := map L2S (strip (pdffit_w_title ++ p_title St) :: pdffit_w_format :: r)) in *.
    destruct (trim_blank c_isblank (S (List.length lines)) lines (List.length lines)) as [stop |] eqn:Et; cbn [bind] in Hb; [| discriminate].
    assert (Hs : 1 < stop /\ stop <= List.length lines).
    { eapply trim_blank_lower with (i := 1) (l := L2S pdffit_w_format); [exact Et | reflexivity | | unfold lines; cbn; lia | lia].
      apply c_isblank_tokens. discriminate. }
    destruct stop as [| [| stop']]; try lia.
    unfold lines in Hb. cbn [map firstn] in Hb.
    fold dheader in Hb.
    rewrite (discus_header_title _ _ _ (map L2S (split_ws (p_title St)))) in Hb.
    2:{ rewrite c_split_L2S, (title_record pdffit_w_title (p_title St) eq_refl). reflexivity. }
    rewrite discus_header_format_pdffit in Hb; [discriminate | reflexivity].
  Qed.
End DiscusOnPdffit.

(* ---- 12. P_pdffit on discus text: the atom block has one record per atom, P_pdffit needs six ------------- *)
Lemma last_app_cons : forall A (l : list A) x l' d, last (l ++ x :: l') d = last (x :: l') d.
Proof. induction l as [| a l IH]; intros; [reflexivity |]. cbn [app]. rewrite <- (IH x l' d). destruct (l ++ x :: l') eqn:E; [destruct l; discriminate | reflexivity]. Qed.

Lemma last_map : forall A B (f : A -> B) l d, last (map f l) (f d) = f (last l d).
Proof. induction l as [| a l IH]; intros; [reflexivity |]. cbn [map]. destruct l; [reflexivity |]. apply IH. Qed.

Lemma last_In : forall A (l : list A) x d, In (last (x :: l) d) (x :: l).
Proof. induction l as [| a l IH]; intros; [left; reflexivity |]. right. apply IH. Qed.

Lemma Forall2_in_r {A B} (P : A -> B -> Prop) la lb b : In b lb -> Forall2 P la lb -> exists a, In a la /\ P a b.
Proof.
  intros Hin HF. induction HF as [| a b' la lb Hp HF IH]; [contradiction |].
  destruct Hin as [<- | Hin]; [exists a; split; [left; reflexivity | exact Hp] |].
  destruct (IH Hin) as [a' [Ha' Hp']]. exists a'; split; [right; assumption | assumption].
Qed.

Lemma trim_blank_last_nonblank : forall isblank (lines : list string) d, lines <> [] -> isblank (last lines d) = false ->
  trim_blank isblank (S (List.length lines)) lines (List.length lines) = Ok (List.length lines).
Proof.
  intros isblank lines d Hne Hb. cbn [trim_blank].
  destruct lines as [| x l]; [contradiction |]. cbn [List.length Nat.ltb Nat.leb].
  rewrite (app_removelast_last d Hne) at 1. unfold idx.
  assert (E : nth_error (removelast (x :: l) ++ [last (x :: l) d]) (S (List.length l) - 1) = Some (last (x :: l) d)).
  { rewrite nth_error_app2.
    - assert (List.length (removelast (x :: l)) = List.length l).
      { pose proof (app_removelast_last d Hne) as E. apply (f_equal (@List.length _)) in E. rewrite app_length in E. cbn in E. cbn. lia. }
      replace (S (List.length l) - 1 - List.length (removelast (x :: l))) with 0 by lia. reflexivity.
    - assert (List.length (removelast (x :: l)) = List.length l).
      { pose proof (app_removelast_last d Hne) as E. apply (f_equal (@List.length _)) in E. rewrite app_length in E. cbn in E. cbn. lia. }
      lia. }
  rewrite E. cbn [bind]. rewrite Hb. reflexivity.
Qed.

Lemma discus_rows_first : forall atoms als,
  forallb (fun a => str_tok_ok (da_el a) && negb (first_is_hash (da_el a))) atoms = true ->
  map_opt print_datom atoms = Some als ->
  Forall2 (fun a l => exists r, split_ws l = map upper (da_el a) :: r) atoms als.
Proof.
  induction atoms as [| a atoms IH]; intros als R H.
  - inversion H; constructor.
  - destruct (map_opt_some_cons _ _ _ _ _ _ H) as [b [bs [Hb [Hbs ->]]]].
    cbn [forallb] in R. apply andb_true_iff in R. destruct R as [Ra Rr]. apply andb_true_iff in Ra. destruct Ra as [Ra _].
    constructor; [| apply IH; assumption].
    unfold print_datom, discus_w_atom in Hb. destruct a as [el [[x y] z] bb]. cbn [da_el da_xyz da_b args3 app] in *.
    eapply row_first_word; [| | exact Hb]; [reflexivity |]. cbn [forallb arg_ok]. rewrite str_tok_ok_map_upper, Ra. reflexivity.
Qed.

(* the discus text: header records whose first word is not `atoms`, the `atoms` record, one row per atom *)
Lemma discus_text : forall St ls, print_discus St = Some ls ->
  exists pre als, ls = pre ++ discus_w_atoms :: als /\ (forall l, In l pre -> first_word_is "atoms" l = false) /\
                  map_opt print_datom (d_atoms St) = Some als.
Proof.
  intros St ls H. unfold print_discus in H.
  repeat match type of H with
  | concat_opt (_ :: _) = Some _ =>
      let a := fresh "a" in let b := fresh "b" in let Ha := fresh "Ha" in let Hb := fresh "Hb" in let Hr := fresh "Hr" in
      apply concat_opt_cons in H; destruct H as [a [b [Ha [Hb Hr]]]]; rename Hb into H; subst
  end.
  inversion Ha; subst. inversion Ha0; subst. inversion Ha5; subst. cbn in H. inversion H; subst. clear H Ha Ha0 Ha5.
  exists ([strip (discus_w_title ++ d_title St); discus_w_spcgr ++ d_spcgr St] ++ a1 ++ a2 ++ a3 ++ a4), a6.
  split; [rewrite <- !app_assoc; cbn [app]; rewrite app_nil_r; reflexivity |]. split; [| exact Ha6].
  assert (K : forall spec args lit f' x, spec = FLit lit :: f' -> kwhead_ok lit = true -> render spec args = Some x ->
              str_eqb (kw_of lit) (S2L "atoms") = false -> first_word_is "atoms" x = false).
  { intros spec args lit f' x Es Hk Hr Hw. destruct (first_word spec args x lit f' Es Hk Hr) as [rest W].
    eapply word_is_false_first; eassumption. }
  intros l Hl. repeat (apply in_app_or in Hl; destruct Hl as [Hl | Hl]).
  - destruct Hl as [<- | [<- | []]].
    + eapply word_is_false_first; [apply (title_record discus_w_title (d_title St)); reflexivity | reflexivity].
    + destruct (kw_record discus_w_spcgr (d_spcgr St) eq_refl) as [K1 _]. eapply word_is_false_first; [exact K1 | reflexivity].
  - destruct (opt_line_some _ _ _ Ha1) as [-> | [x [Hx ->]]]; [contradiction |]. destruct Hl as [<- | []].
    eapply K; [| | exact Hx |]; reflexivity.
  - destruct (opt_line_some _ _ _ Ha2) as [-> | [x [Hx ->]]]; [contradiction |]. destruct Hl as [<- | []].
    eapply K; [| | exact Hx |]; reflexivity.
  - destruct (render discus_w_cell (args6 (d_cell St))) as [x |] eqn:Hx; inversion Ha3; subst. destruct Hl as [<- | []].
    eapply K; [| | exact Hx |]; reflexivity.
  - destruct (render discus_w_ncell _) as [x |] eqn:Hx; inversion Ha4; subst. destruct Hl as [<- | []].
    eapply K; [| | exact Hx |]; reflexivity.
Qed.

Section PdffitOnDiscus.
  Variable lattice_of : list dec -> res unit.
  Variable mulZ : dec -> Z -> res dec.
  Hypothesis lattice_kinds : forall l, within [ValueError; ZeroDivisionError] (lattice_of l).
  Hypothesis mulZ_kinds : forall v z, within [OverflowError] (mulZ v z).

  Let hline := Model.C13_Pdffit.pdffit_header_line dec c_split c_split_commas c_float c_int lattice_of.
  Let header := Model.C13_Pdffit.pdffit_header dec c_split c_split_commas c_float c_int lattice_of.

  Definition not_atoms_word (line : string) : Prop :=
    match c_split line with w :: _ => String.eqb w "atoms" = false | [] => True end.

  Lemma header_line_nobreak : forall st line st' b, hline st line = Ok (st', b) -> not_atoms_word line -> b = false.
  Proof.
    intros st line st' b H Hn. unfold hline, Model.C13_Pdffit.pdffit_header_line in H. unfold not_atoms_word in Hn.
    destruct (c_split line) as [| w0 ws]; [inversion H; reflexivity |].
    destruct (str_head w0) as [c |]; cbn [bind] in H; [| discriminate].
    unfold Model.C13_Pdffit.kw in H. rewrite Hn in H. cbn [andb] in H.
    repeat match type of H with
    | (if ?b then _ else _) = Ok _ => destruct b
    | bind ?m _ = Ok _ => destruct m; cbn [bind] in H; [| discriminate H]
    end; try discriminate H; inversion H; reflexivity.
  Qed.

  Lemma header_prefix : forall pre st post st' r, (forall l, In l pre -> not_atoms_word l) ->
    header st (pre ++ post) = Ok (st', r) -> exists st1, header st1 post = Ok (st', r).
  Proof.
    induction pre as [| line pre IH]; intros st post st' r Hn H; [exists st; exact H |].
    cbn [app] in H. unfold header in H. cbn [Model.C13_Pdffit.pdffit_header] in H. fold header in H. fold hline in H.
    destruct (hline st line) as [[st1 b] |] eqn:E; cbn [bind] in H; [| discriminate].
    rewrite (header_line_nobreak _ _ _ _ E (Hn line (or_introl eq_refl))) in H. cbn [snd fst] in H.
    eapply IH; [| exact H]. intros; apply Hn; right; assumption.
  Qed.

  Lemma header_line_atoms : forall st line, c_split line = ["atoms"%string] ->
    hline st line = Ok (st, match Model.C13_Pdffit.p_cell dec st with Some _ => true | None => false end).
  Proof.
    intros st line H. unfold hline, Model.C13_Pdffit.pdffit_header_line. rewrite H. cbn.
    destruct (Model.C13_Pdffit.p_cell dec st); reflexivity.
  Qed.

  (* the atom loop on one-line-per-atom rows: either the text ends inside the first atom, or the second row starts with
     an element symbol where a number is expected *)
  Lemma atoms_loop_fails : forall fuel n r1 rr,
    (rr = [] \/ exists r2 rr' w ws, rr = r2 :: rr' /\ c_split r2 = w :: ws /\ c_float w = Raise ValueError) ->
    forall m, Model.C13_Pdffit.pdffit_atoms dec c_split c_float (S fuel) n (r1 :: rr) <> Ok m.
  Proof.
    intros fuel n r1 rr Hrr m H. cbn [Model.C13_Pdffit.pdffit_atoms] in H.
    repeat match type of H with
    | bind (next_line _) _ = Ok _ => fail 1
    | bind ?x _ = Ok _ => destruct x; cbn [bind] in H; [| discriminate H]
    end.
    destruct Hrr as [-> | [r2 [rr' [w [ws [-> [Hs Hf]]]]]]].
    - cbn [next_line bind] in H. discriminate.
    - cbn [next_line bind fst snd] in H. rewrite Hs in H. unfold Model.C13_Common.slice in H. cbn [skipn firstn Nat.sub mapM] in H.
      rewrite Hf in H. cbn [bind] in H. discriminate.
  Qed.

  Theorem cell_pdffit_discus : forall St ls, repr_discus St = true -> d_atoms St <> [] -> discus_elements_not_numbers St = true ->
    print_discus St = Some ls -> conc_pdffit lattice_of mulZ ls = Raise FormatError.
  Proof.
    intros St ls R Hne Hnum H. apply pdffit_not_ok_rejected; try assumption. intros n Hb.
    destruct (discus_text _ _ H) as [pre [als [-> [Hpre Hals]]]].
    unfold repr_discus in R. apply andb_true_iff in R. destruct R as [_ Ra].
    pose proof (discus_rows_first _ _ Ra Hals) as Hrows.
    destruct (d_atoms St) as [| a1 atoms] eqn:Eat; [contradiction |].
    inversion Hrows as [| ? r1 ? als' [t1 Hr1] Hrows']; subst. clear Hrows.
    unfold discus_elements_not_numbers in Hnum. rewrite Eat in Hnum.
    (* no trailing blank line: the whole text is the header input *)
    unfold Model.C13_Pdffit.pdffit_body in Hb.
    set (lines := map L2S (pre ++ discus_w_atoms :: r1 :: als')) in *.
    assert (Hlast : c_isblank (last lines (L2S [])) = false).
    { unfold lines. rewrite last_map, last_app_cons.
      assert (Hin : In (last (r1 :: als') []) (r1 :: als')).
      { change (last (discus_w_atoms :: r1 :: als') []) with (last (r1 :: als') []). apply last_In. }
      change (last (discus_w_atoms :: r1 :: als') []) with (last (r1 :: als') []).
      destruct (Forall2_in_r _ _ _ _ Hin (Forall2_cons _ _ (ex_intro _ t1 Hr1) Hrows')) as [a [_ [r Hr]]].
      apply c_isblank_tokens. rewrite Hr. discriminate. }
    rewrite (trim_blank_last_nonblank c_isblank lines (L2S [])) in Hb; [| unfold lines; destruct pre; discriminate | exact Hlast].
    cbn [bind] in Hb. rewrite firstn_all in Hb.
    fold header in Hb.
    destruct (header _ lines) as [[st rest] |] eqn:Eh; cbn [bind fst snd] in Hb; [| discriminate].
    unfold lines in Eh. rewrite map_app, map_cons in Eh.
    assert (Hpre' : forall l, In l (map L2S pre) -> not_atoms_word l).
    { intros l Hl. apply in_map_iff in Hl. destruct Hl as [l' [<- Hl']]. unfold not_atoms_word. rewrite c_split_L2S.
      specialize (Hpre l' Hl'). unfold first_word_is in Hpre. destruct (split_ws l'); [exact I |]. cbn [map]. rewrite eqb_L2S. exact Hpre. }
    destruct (header_prefix _ _ _ _ _ Hpre' Eh) as [st1 Eh1].
    unfold header in Eh1. cbn [Model.C13_Pdffit.pdffit_header] in Eh1. fold header in Eh1. fold hline in Eh1.
    rewrite (header_line_atoms st1 (L2S discus_w_atoms) eq_refl) in Eh1. cbn [bind snd fst] in Eh1.
    destruct (Model.C13_Pdffit.p_cell dec st1) as [latpars |] eqn:Ec.
    - (* the loop over the rows *)
      inversion Eh1; subst st rest. rewrite Ec in Hb. cbn [map] in Hb.
      match type of Hb with bind ?x _ = _ => destruct x as [k |] eqn:Ea; cbn [bind] in Hb; [| discriminate] end.
      eapply atoms_loop_fails; [| exact Ea].
      destruct als' as [| r2 als'']; [left; reflexivity | right].
      inversion Hrows' as [| a2 ? ? ? [t2 Hr2] _]; subst.
      exists (L2S r2), (map L2S als''), (L2S (map upper (da_el a2))), (map L2S t2).
      split; [reflexivity |]. split; [rewrite c_split_L2S, Hr2; reflexivity |].
      rewrite c_float_L2S. cbn [forallb] in Hnum. apply andb_true_iff in Hnum. destruct Hnum as [_ Hnum].
      apply andb_true_iff in Hnum. destruct Hnum as [Hn2 _]. unfold symbol_not_number in Hn2.
      apply andb_true_iff in Hn2. destruct Hn2 as [_ Hn2]. apply negb_true_iff in Hn2. unfold isfloat in Hn2.
      destruct (parse_float (map upper (da_el a2))); [discriminate | reflexivity].
    - (* no cell record was accepted: the rows cannot provide one *)
      assert (Hc : Model.C13_Pdffit.p_cell dec st = None).
      { eapply pdffit_header_keeps_none; [exact Eh1 | exact Ec |].
        intros l Hl. apply in_map_iff in Hl. destruct Hl as [l' [<- Hl']].
        destruct (Forall2_in_r _ _ _ _ Hl' (Forall2_cons _ _ (ex_intro _ t1 Hr1) Hrows')) as [a [_ [r Hr]]].
        apply no_cell_word_L2S. eapply word_is_false_first; [exact Hr | apply upper_word_not_cell]. }
      rewrite Hc in Hb. discriminate.
  Qed.
End PdffitOnDiscus.
