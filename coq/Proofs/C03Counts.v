From Coq Require Import ZArith List Bool String.
From DS Require Import Base.ZMat Base.SGDefs Model.GroupCheck Gen.SGTables.
Lemma all_counts_b : forallb counts_ok all_settings = true.
Proof. vm_compute. reflexivity. Qed.
