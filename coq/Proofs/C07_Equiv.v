(* C07 - two spelling equivalences as equalities of the reader model's output:
   esd_suffix : numeric values written with a standard-uncertainty suffix "(d)" give the same result;
   B_vs_U     : displacement columns holding B = k U (k standing for 8 pi^2, any k with BtoU * k = 1) give the same
                result as columns holding U, isotropic, diagonal and off-diagonal alike (numbers are reals). *)
From Coq Require Import ZArith List Bool Ascii String Reals Lra Lia.
From DS Require Import Base.ZMat Base.SGDefs Base.C09_GNum Model.GroupCheck Model.C02_Orbit.
From DS Require Import Model.C09_Prims Gen.C09_AtomFormulas Model.C09_AtomADP Model.C11_LookupDefs.
From DS Require Import Model.C07_Text Model.C07_SymopText Model.C07_SpecDefs Gen.C07_CifSpec Model.C07_CifRead Proofs.C07_Text.
Import ListNotations.

Local Notation "a +++ b" := (String.append a b) (at level 60, right associativity).

(* ======================= esd suffix ======================= *)
Definition esd_rel (s s' : string) : Prop :=
  s' = s \/ (is_numeric s = true /\ exists d, s' = s +++ "(" +++ d +++ ")").
Definition opt_rel (o o' : option string) : Prop :=
  match o, o' with Some s, Some s' => esd_rel s s' | None, None => True | _, _ => False end.
Definition col_rel (c c' : string * list string) : Prop :=
  fst c' = fst c /\
  if numeric_target (s_target (lookup_setter (fst c))) then Forall2 esd_rel (snd c) (snd c') else snd c' = snd c.
Definition loop_rel (l l' : loop) : Prop := l_n l' = l_n l /\ Forall2 col_rel (l_cols l) (l_cols l').
Definition optloop_rel (o o' : option loop) : Prop :=
  match o, o' with Some l, Some l' => loop_rel l l' | None, None => True | _, _ => False end.
(* b' is b with esd suffixes on some of its numbers *)
Definition block_rel (b b' : block) : Prop :=
  Forall2 opt_rel (b_cell b) (b_cell b') /\ loop_rel (b_site b) (b_site b') /\ optloop_rel (b_aniso b) (b_aniso b') /\
  b_symop b' = b_symop b /\ b_equivpos b' = b_equivpos b /\ b_hall b' = b_hall b /\ b_hall_sym b' = b_hall_sym b /\
  b_hm_alt b' = b_hm_alt b /\ b_hm_ref b' = b_hm_ref b /\ b_hm_sym b' = b_hm_sym b /\
  b_it_number b' = b_it_number b /\ b_int_tables b' = b_int_tables b.

Lemma leading_float_rel s s' : esd_rel s s' -> leading_float s' = leading_float s.
Proof. intros [->|[Hn [d ->]]]; [reflexivity | apply leading_float_esd_any; exact Hn]. Qed.

Section Esd.
Context {T : Type} (E : env (T:=T)).

Lemma type_val_rel st s s' : esd_rel s s' -> type_val E st s' = type_val E st s \/ numeric_target (s_target st) = false.
Proof.
  intros H. unfold type_val. destruct (numeric_target (s_target st)); [left | right; reflexivity].
  rewrite (leading_float_rel _ _ H). reflexivity.
Qed.

Lemma type_col_rel c c' : col_rel c c' -> type_col E c' = type_col E c.
Proof.
  destruct c as [n vs], c' as [n' vs']. unfold col_rel, type_col. cbn [fst snd]. intros [-> H].
  destruct (numeric_target (s_target (lookup_setter n))) eqn:En; [|subst; reflexivity].
  f_equal. induction H as [|s s' l l' Hs _ IH]; [reflexivity|]. cbn [map]. rewrite IH. f_equal.
  destruct (type_val_rel (lookup_setter n) s s' Hs) as [H1|H1]; [exact H1 | rewrite En in H1; discriminate].
Qed.

Lemma type_loop_rel l l' : loop_rel l l' -> type_loop E l' = type_loop E l.
Proof.
  destruct l as [n cols], l' as [n' cols']. unfold loop_rel, type_loop. cbn [l_n l_cols]. intros [-> H]. f_equal.
  induction H as [|c c' r r' Hc _ IH]; [reflexivity|]. cbn [map]. rewrite IH, (type_col_rel _ _ Hc). reflexivity.
Qed.

Lemma cell_list_rel c c' : Forall2 opt_rel c c' -> cell_list E c' = cell_list E c.
Proof.
  intros H. induction H as [|o o' r r' Ho _ IH]; [reflexivity|].
  destruct o as [s|], o' as [s'|]; cbn in Ho; try contradiction; cbn [cell_list]; [|reflexivity].
  rewrite (leading_float_rel _ _ Ho), IH. reflexivity.
Qed.
Lemma cell_numbers_rel c c' : Forall2 opt_rel c c' -> cell_numbers E c' = cell_numbers E c.
Proof.
  intros H. pose proof (cell_list_rel _ _ H) as HL. unfold cell_numbers.
  destruct H as [|o o' r r' Ho Hr]; [reflexivity|].
  destruct o as [s|], o' as [s'|]; cbn in Ho; try contradiction; [|reflexivity]. rewrite HL. reflexivity.
Qed.

Theorem esd_suffix find Tb b b' : block_rel b b' -> read_cif E find Tb b' = read_cif E find Tb b.
Proof.
  intros [Hc [Hs [Ha [H1 [H2 [H3 [H4 [H5 [H6 [H7 [H8 H9]]]]]]]]]]].
  unfold read_cif, read_typed.
  rewrite (cell_numbers_rel _ _ Hc), (type_loop_rel _ _ Hs).
  assert (Han : option_map (type_loop E) (b_aniso b') = option_map (type_loop E) (b_aniso b)).
  { destruct (b_aniso b) as [l|], (b_aniso b') as [l'|]; cbn in Ha; try contradiction; [|reflexivity].
    cbn [option_map]. rewrite (type_loop_rel _ _ Ha). reflexivity. }
  rewrite Han.
  assert (Hr : resolve_sg find Tb b' = resolve_sg find Tb b).
  { unfold resolve_sg, op_texts, sg_identifier. rewrite H1, H2, H5, H6, H7, H8, H9. reflexivity. }
  rewrite Hr. reflexivity.
Qed.
End Esd.

(* the relation is inhabited by the usual case *)
Example esd_rel_example : esd_rel "0.1234" "0.1234(5)" /\ esd_rel "Uani" "Uani" /\ ~ esd_rel "0.12" "0.13(1)".
Proof.
  split; [right; split; [reflexivity | exists "5"%string; reflexivity]|]. split; [left; reflexivity|].
  intros [H|[_ [d H]]]; [discriminate | cbn in H; discriminate].
Qed.

(* ======================= B versus U ======================= *)
Section BU.
Variable E : env (T:=R).
Hypothesis HO : cO (e_C E) = ROps.
Variable k : R.
Hypothesis Hk : (cif_BtoU ROps (cpi (e_C E)) * k = 1)%R.

Definition b_target (t : target) : bool := match t with TUisoequiv | TUij _ => true | _ => false end.
Definition is_one (s : scaling) : bool := match s with SOne => true | SBtoU => false end.
Definition as_B_val (v : val (T:=R)) : val (T:=R) := match v with VNum t => VNum (k * t)%R | _ => v end.
Definition as_B_setter (st : setter) : setter :=
  if b_target (s_target st) && is_one (s_scale st) then Setter (s_target st) SBtoU (s_default st) else st.
Definition as_B_pair (p : setter * val (T:=R)) : setter * val (T:=R) :=
  if b_target (s_target (fst p)) && is_one (s_scale (fst p)) then (as_B_setter (fst p), as_B_val (snd p)) else p.
(* a U column rewritten as the B column holding k times its values *)
Definition as_B_col (c : tcol (T:=R)) : tcol (T:=R) :=
  if b_target (s_target (tc_setter c)) && is_one (s_scale (tc_setter c))
  then TCol (tc_name c) (as_B_setter (tc_setter c)) (map as_B_val (tc_vals c)) else c.
Definition as_B_loop (l : tloop (T:=R)) : tloop (T:=R) := TLoop (tl_n l) (map as_B_col (tl_cols l)).

Lemma num_val_B p : num_val E (as_B_pair p) = num_val E p.
Proof.
  destruct p as [st v]. unfold as_B_pair. cbn [fst snd].
  destruct (b_target (s_target st) && is_one (s_scale st)) eqn:Eb; [|reflexivity].
  apply andb_true_iff in Eb as [Eb1 Eb2]. unfold num_val, as_B_setter. cbn [fst snd]. rewrite Eb1, Eb2. cbn [andb s_scale].
  destruct (s_scale st); [|discriminate]. destruct v as [s|t| |]; cbn [as_B_val]; try reflexivity.
  rewrite HO. cbn [tmul ROps]. rewrite <- Rmult_assoc, Hk. ring.
Qed.

Lemma target_B p : s_target (fst (as_B_pair p)) = s_target (fst p).
Proof.
  destruct p as [st v]. unfold as_B_pair, as_B_setter. cbn [fst snd].
  destruct (b_target (s_target st) && is_one (s_scale st)); reflexivity.
Qed.

Lemma step_atom_B a p : step_atom E a (as_B_pair p) = step_atom E a p.
Proof.
  pose proof (num_val_B p) as Hn. pose proof (target_B p) as Ht.
  destruct p as [st v]. unfold as_B_pair in *. cbn [fst snd] in *.
  destruct (b_target (s_target st) && is_one (s_scale st)) eqn:Eb; [|reflexivity].
  apply andb_true_iff in Eb as [Eb1 _].
  unfold step_atom, step_lab, step_xyz, step_occ, step_adp. cbn [fst snd] in *. rewrite Ht, Hn.
  destruct (s_target st); try discriminate Eb1; reflexivity.
Qed.

Lemma run_row_B r : forall a, run_row E a (map as_B_pair r) = run_row E a r.
Proof. induction r as [|p r IH]; intros a; [reflexivity|]. cbn [map run_row fold_left]. rewrite step_atom_B. apply IH. Qed.

Lemma flags_B p : is_bad (as_B_pair p) = is_bad p /\ is_spec (as_B_pair p) = is_spec p.
Proof.
  destruct p as [st v]. unfold as_B_pair. cbn [fst snd]. destruct (b_target (s_target st) && is_one (s_scale st)); [|split; reflexivity].
  unfold is_bad, is_spec. cbn [snd]. destruct v; split; reflexivity.
Qed.
Lemma row_status_B r : row_status (map as_B_pair r) = row_status r.
Proof.
  unfold row_status. assert (H1 : existsb is_spec (map as_B_pair r) = existsb is_spec r /\ existsb is_bad (map as_B_pair r) = existsb is_bad r).
  { induction r as [|p r [I1 I2]]; [split; reflexivity|]. cbn [map existsb]. destruct (flags_B p) as [F1 F2]. rewrite F1, F2, I1, I2. split; reflexivity. }
  destruct H1 as [-> ->]. reflexivity.
Qed.

Lemma row_of_B cols i : row_of (map as_B_col cols) i = map as_B_pair (row_of cols i).
Proof.
  unfold row_of. rewrite !map_map. apply map_ext. intros c. unfold as_B_col, as_B_pair. cbn [fst snd].
  destruct (b_target (s_target (tc_setter c)) && is_one (s_scale (tc_setter c))) eqn:Eb; [|reflexivity].
  cbn [tc_setter tc_vals]. f_equal. change (VBad (T:=R)) with (as_B_val VBad) at 1. apply map_nth.
Qed.

Lemma name_B c : tc_name (as_B_col c) = tc_name c.
Proof. unfold as_B_col. destruct (b_target (s_target (tc_setter c)) && is_one (s_scale (tc_setter c))); reflexivity. Qed.
Lemma label_at_B c i : label_at (as_B_col c) i = label_at c i.
Proof.
  unfold label_at, as_B_col. destruct (b_target (s_target (tc_setter c)) && is_one (s_scale (tc_setter c))); [|reflexivity].
  cbn [tc_vals].
  assert (H : nth i (map as_B_val (tc_vals c)) VBad = as_B_val (nth i (tc_vals c) VBad))
    by (change (VBad (T:=R)) with (as_B_val VBad) at 1; apply map_nth).
  rewrite H. destruct (nth i (tc_vals c) VBad); reflexivity.
Qed.
Lemma label_col_B name cols : label_col name (map as_B_col cols) = option_map as_B_col (label_col name cols).
Proof.
  unfold label_col. induction cols as [|c r IH]; [reflexivity|]. cbn [map find]. rewrite name_B.
  destruct (String.eqb (tc_name c) name); [reflexivity | exact IH].
Qed.
Lemma has_col_B name cols : has_col name (map as_B_col cols) = has_col name cols.
Proof. unfold has_col. induction cols as [|c r IH]; [reflexivity|]. cbn [map existsb]. rewrite name_B, IH. reflexivity. Qed.

Lemma fold_ext {A B} (f g : A -> B -> A) l : (forall a b, f a b = g a b) -> forall a, fold_left f l a = fold_left g l a.
Proof. intros H. induction l as [|x l IH]; intros a; [reflexivity|]. cbn [fold_left]. rewrite H. apply IH. Qed.

Lemma order_row_B so r : order_row so (map as_B_pair r) = map as_B_pair (order_row so r).
Proof.
  assert (H : forall j l, filter (in_phase so j) (map as_B_pair l) = map as_B_pair (filter (in_phase so j) l)).
  { intros j l. induction l as [|p l IH]; [reflexivity|]. cbn [map filter].
    assert (Hp : in_phase so j (as_B_pair p) = in_phase so j p) by (unfold in_phase; rewrite target_B; reflexivity).
    rewrite Hp. destruct (in_phase so j p); cbn [map]; rewrite IH; reflexivity. }
  unfold order_row. rewrite !H, !map_app. reflexivity.
Qed.
Lemma site_row_B d st lab r : site_row E d st lab (map as_B_pair r) = site_row E d st lab r.
Proof. unfold site_row. rewrite row_status_B, order_row_B, (run_row_B (order_row the_setter_order r) (init_atom E)). reflexivity. Qed.
Lemma aniso_row_B sb lab r : aniso_row E sb lab (map as_B_pair r) = aniso_row E sb lab r.
Proof.
  unfold aniso_row. destruct sb as [st stopped]. destruct stopped; [reflexivity|].
  destruct (String.eqb lab "?"); [reflexivity|]. destruct (dict_get (ps_index st) lab) as [idx|]; [|reflexivity].
  destruct (nth_error (ps_atoms st) idx) as [a|]; [|reflexivity].
  rewrite row_status_B. destruct (row_status r); [reflexivity|]. rewrite run_row_B. reflexivity.
Qed.

Lemma read_site_loop_B l : read_site_loop E (as_B_loop l) = read_site_loop E l.
Proof.
  unfold read_site_loop, as_B_loop. cbn [tl_cols tl_n]. rewrite label_col_B, !has_col_B.
  destruct (label_col "_atom_site_label" (tl_cols l)) as [lc|]; [|reflexivity]. cbn [option_map].
  apply fold_ext. intros acc i. destruct acc as [st|e]; [|reflexivity]. cbn [bind].
  rewrite label_at_B, row_of_B. apply site_row_B.
Qed.
Lemma read_aniso_loop_B st ol : read_aniso_loop E st (option_map as_B_loop ol) = read_aniso_loop E st ol.
Proof.
  destruct ol as [l|]; [|reflexivity]. unfold read_aniso_loop, as_B_loop. cbn [option_map tl_cols tl_n]. rewrite label_col_B.
  destruct (label_col "_atom_site_aniso_label" (tl_cols l)) as [lc|]; [|reflexivity]. cbn [option_map].
  rewrite (fold_ext _ (fun acc i => bind acc (fun sb => aniso_row E sb (label_at lc i) (row_of (tl_cols l) i)))); [reflexivity|].
  intros acc i. destruct acc as [sb|e]; [|reflexivity]. cbn [bind]. rewrite label_at_B, row_of_B. apply aniso_row_B.
Qed.

Theorem B_vs_U find Tb cell site aniso b :
  read_typed E find Tb cell (as_B_loop site) (option_map as_B_loop aniso) b = read_typed E find Tb cell site aniso b.
Proof.
  unfold read_typed. rewrite read_site_loop_B.
  destruct (cell_numbers E cell); [|reflexivity]. cbn [bind].
  destruct (read_site_loop E site) as [st0|]; [|reflexivity]. cbn [bind].
  rewrite read_aniso_loop_B. reflexivity.
Qed.
End BU.
