(* C08 - what the faithful model refutes: the unguarded lattice invariant (inherent in shared selections,
   DESIGN D10), and the two defects of the pinned tree (D8 `s += s` never returns, D9 pickle protocol >= 2
   leaves the atoms without lattice) that the repaired tree no longer shows. *)
From Coq Require Import List ZArith Bool Arith Lia.
From DS Require Import Model.C08_StructHeap Proofs.C08_Lists Proofs.C08_Prims Proofs.C08_Inv Proofs.C08_Step.
Import ListNotations.
Open Scope nat_scope.

(* sel = s[0:1]; sel.lattice = Lattice()  : atom 0 is held by s and by sel *)
Definition d10_selection : list op :=
  [NewStruct; AddNewAtom 0 (lab 1); AddNewAtom 0 (lab 2); GetSlice 0 (mkSlice (Some 0%Z) (Some 1%Z) None); SetLattice 1 LatNew false].

(* t = Structure(list(s)) : the constructor takes the very atoms of s and re-points them *)
Definition d10_constructor : list op :=
  [NewStruct; AddNewAtom 0 (lab 1); AddNewAtom 0 (lab 2); Tolist 0; Construct 1 None].

Lemma not_lat_ok_witness : forall w h its L a l,
  nth_error (objs w) h = Some (OStruct its L) -> In a its -> lat_of w a = Some l -> l <> L -> ~ lat_ok w.
Proof. intros w h its L a l Ho Ha Hl Hne Hok. assert (lat_of w a = Some L) by (eapply Hok; eauto; discriminate). congruence. Qed.

Lemma lattice_inv_refuted_selection :
  Inv empty_world /\ g_repoint empty_world = false /\ ~ lat_ok (run current d10_selection empty_world)
  /\ g_repoint (run current d10_selection empty_world) = true.
Proof.
  split; [apply empty_Inv|]. split; [reflexivity|]. split; [|vm_compute; reflexivity].
  apply (not_lat_ok_witness _ 0 [0; 1] 0 0 2); vm_compute; auto. discriminate.
Qed.

Lemma lattice_inv_refuted_constructor :
  ~ lat_ok (run current d10_constructor empty_world) /\ g_repoint (run current d10_constructor empty_world) = true.
Proof.
  split; [|vm_compute; reflexivity].
  apply (not_lat_ok_witness _ 0 [0; 1] 0 0 1); vm_compute; auto. discriminate.
Qed.

Lemma lattice_inv_refuted : exists ops w, Inv w /\ g_repoint w = false /\ ~ lat_ok (run current ops w).
Proof. exists d10_selection, empty_world. destruct lattice_inv_refuted_selection as [A [B [C _]]]. auto. Qed.

(* the guard is not vacuous: a history with selections, copies and edits that keeps it *)
Definition guarded_example : list op :=
  [NewStruct; AddNewAtom 0 (lab 1); AddNewAtom 0 (lab 2); AddNewAtom 0 (lab 3); GetSlice 0 (mkSlice (Some 1%Z) None None);
   Add 0 1; SetLattice 2 LatNew false; Extend 2 0 CNone; SetSlice 2 (mkSlice None None (Some 2%Z)) 1 true;
   Pickle 2 true; IAdd 0 0; Sub 0 1].

Example guarded_example_ok :
  g_repoint (run current guarded_example empty_world) = false /\ g_dup (run current guarded_example empty_world) = false
  /\ length (objs (run current guarded_example empty_world)) = 5.
Proof. vm_compute. auto. Qed.

(* ---------------------------------------------------------------- D8: the pinned extend *)

Lemma lazy_self_extend_diverges : forall fuel i cur, i < length cur -> lazy_self_extend fuel i cur = None.
Proof.
  induction fuel; simpl; intros; auto.
  destruct (nth_error cur i) eqn:E.
  - apply IHfuel. rewrite app_length. simpl. lia.
  - apply nth_error_None in E. lia.
Qed.

Lemma iadd_self_diverges_pinned : forall fuel w h old L,
  get_struct w h = Some (old, L) -> old <> [] -> snd (step (pinned fuel) (IAdd h h) w) = Diverges.
Proof.
  intros. cbn [step]. unfold do_extend. rewrite H.
  assert (get_obj w h = Some (OStruct old L)).
  { unfold get_struct in H. destruct (get_obj w h) as [[its l|]|]; try discriminate. inversion H; subst. auto. }
  rewrite H1. cbn [pinned v_lazy_extend v_fuel]. rewrite Nat.eqb_refl.
  rewrite lazy_self_extend_diverges; [reflexivity|]. destruct old; [congruence|simpl; lia].
Qed.

Lemma iadd_self_refuted : exists w h, forall fuel, snd (step (pinned fuel) (IAdd h h) w) = Diverges.
Proof.
  exists (run current [NewStruct; AddNewAtom 0 (lab 1)] empty_world), 0. intros.
  eapply iadd_self_diverges_pinned with (old := [0]) (L := 0); [vm_compute; reflexivity|discriminate].
Qed.

(* on the repaired source the same call returns, and doubles the receiver *)
Lemma iadd_self_current : forall w h old L,
  get_struct w h = Some (old, L) -> snd (step current (IAdd h h) w) = Done (RObj h).
Proof.
  intros. cbn [step]. unfold do_extend. rewrite H.
  assert (get_obj w h = Some (OStruct old L)).
  { unfold get_struct in H. destruct (get_obj w h) as [[its l|]|]; try discriminate. inversion H; subst. auto. }
  rewrite H0. reflexivity.
Qed.

(* ---------------------------------------------------------------- D9: the pinned pickle *)

Definition d9_history : list op := [NewStruct; AddNewAtom 0 (lab 1); AddNewAtom 0 (lab 2); Pickle 0 true].

Lemma pickle_refuted :
  let w := run (pinned 0) d9_history empty_world in
  nth_error (objs w) 1 = Some (OStruct [2; 3] 1) /\ lat_of w 2 = None /\ lat_of w 3 = None /\ g_repoint w = false.
Proof. vm_compute. auto. Qed.

Lemma pickle_current_ok :
  let w := run current d9_history empty_world in
  nth_error (objs w) 1 = Some (OStruct [2; 3] 1) /\ lat_of w 2 = Some 1 /\ lat_of w 3 = Some 1.
Proof. vm_compute. auto. Qed.

(* ---------------------------------------------------------------- the hypotheses of the copy / selection theorems are satisfiable *)

Definition three_atoms : world := run current [NewStruct; AddNewAtom 0 (lab 1); AddNewAtom 0 (lab 2); AddNewAtom 0 (lab 3)] empty_world.

Lemma three_atoms_Inv : Inv three_atoms.
Proof. apply run_Inv. apply empty_Inv. Qed.

Example copy_hypotheses_example :
  Inv three_atoms /\ snd (step current (Mul 0 2%Z) three_atoms) = Done (RObj 1) /\
  nth_error (objs (fst (step current (Mul 0 2%Z) three_atoms))) 1 = Some (OStruct [3; 4; 5; 6; 7; 8] 3).
Proof. split; [apply three_atoms_Inv|]. vm_compute. auto. Qed.

Example selection_hypotheses_example :
  get_struct three_atoms 0 = Some ([0; 1; 2], 0) /\
  slice_indices 3 (mkSlice None None (Some (-2)%Z)) = Some [2; 0] /\
  nth_error (objs (fst (step current (GetSlice 0 (mkSlice None None (Some (-2)%Z))) three_atoms))) 1 = Some (OStruct [2; 0] 0).
Proof. vm_compute. auto. Qed.
