(* C16 - failure atomicity of the generated read / readStr / write statement lists.
   General lemmas about ANY effect list satisfying a decidable static condition; the condition is
   discharged on the generated lists by computation. *)
From Coq Require Import ZArith List Bool.
From Coq Require Import Ascii String.
From DS Require Import Model.C16_ReadWriteTxn.
Import ListNotations.
Open Scope string_scope.
Open Scope Z_scope.

Definition out_frame (o : outcome) : frame := match o with Done f | Failed _ f => f end.
Definition same_state (fr fr' : frame) : Prop := f_self fr' = f_self fr /\ f_fs fr' = f_fs fr.

Lemma same_state_refl fr : same_state fr fr.
Proof. split; reflexivity. Qed.
Lemma same_state_trans a b c : same_state a b -> same_state b c -> same_state a c.
Proof. intros [H1 H2] [H3 H4]; split; congruence. Qed.

Ltac break_match :=
  match goal with
  | |- context [match ?x with _ => _ end] => destruct x eqn:?
  | H : context [match ?x with _ => _ end] |- _ => destruct x eqn:?
  end.

(* a statement that does not touch leaves self and the files as they were, whatever its outcome,
   and does not change the other things the later lemmas track *)
Lemma untouched_step E G e : touches e = false -> forall fr, same_state fr (out_frame (step0 E G e fr)).
Proof.
  induction e; intros T fr; simpl in T; try discriminate; simpl;
    try (unfold parse_step); repeat break_match; simpl; try (split; reflexivity); auto.
Qed.

Lemma step_keeps_ret E G e : is_return e = false -> forall fr fr', step0 E G e fr = Done fr' -> f_ret fr' = f_ret fr.
Proof.
  induction e; intros T fr fr' H; simpl in T; try discriminate; simpl in H;
    try (unfold parse_step in H); repeat break_match; try discriminate;
    try (injection H as <-; reflexivity); auto.
Qed.


Definition pparser (v : pval) : option parser := match v with PObj po => Some (pb_parser po) | _ => None end.

(* which parser the local holds after a statement that does not touch *)
Lemma step_parser E G e : touches e = false -> forall fr fr', step0 E G e fr = Done fr' ->
  pparser (f_p fr') = pparser (f_p fr) \/ exists p, e_getparser E (g_format G) = Ok p /\ pparser (f_p fr') = Some p.
Proof.
  destruct e; intros T fr fr' H; simpl in T; try discriminate; simpl in H; unfold parse_step in H;
    repeat break_match; try discriminate.
  all: inversion H; subst; clear H; simpl; rewrite ?Heqp, ?Heqp0; auto; right; eauto.
Qed.


(* ---------- reads: the parse raises ---------- *)
Section ParseRaises.
  Variable E : env.
  Variable G : args.
  Variable fs0 : files.
  Variable en : entry.
  Definition raises (p : parser) : Prop := exists x, po_result (parse_of G en fs0 p) = Raise x.
  Hypothesis getparser_raises : forall p, e_getparser E (g_format G) = Ok p -> raises p.

  Definition pinv (fr : frame) : Prop :=
    f_fs fr = fs0 /\ f_ret fr = PUnbound /\ forall p, pparser (f_p fr) = Some p -> raises p.

  Lemma pinv_step e fr fr' : touches e = false -> is_return e = false ->
    pinv fr -> step0 E G e fr = Done fr' -> pinv fr'.
  Proof.
    intros T R [I1 [I2 I3]] H.
    pose proof (untouched_step E G e T fr) as [_ S2]. rewrite H in S2; simpl in S2.
    pose proof (step_keeps_ret E G e R fr fr' H) as S3.
    split; [congruence|]. split; [congruence|].
    intros p Hp. destruct (step_parser E G e T fr fr' H) as [Q|[q [Hq Q]]].
    - apply I3. congruence.
    - apply getparser_raises. congruence.
  Qed.

  Lemma parse_fails e fr : is_parse_of en e = true -> pinv fr ->
    exists x fr', step0 E G e fr = Failed x fr' /\ same_state fr fr'.
  Proof.
    intros P [I1 [I2 I3]]. unfold raises, parse_of in I3.
    destruct en, e; simpl in P; try discriminate; simpl.
    - destruct (f_p fr) eqn:Hp.
      + eexists _, _; split; [reflexivity | apply same_state_refl].
      + eexists _, _; split; [reflexivity | apply same_state_refl].
      + destruct (I3 _ eq_refl) as [x Hx]. unfold parse_step. rewrite I1, Hx.
        eexists _, _; split; [reflexivity | split; reflexivity].
    - destruct (f_p fr) eqn:Hp.
      + eexists _, _; split; [reflexivity | apply same_state_refl].
      + eexists _, _; split; [reflexivity | apply same_state_refl].
      + destruct (I3 _ eq_refl) as [x Hx]. unfold parse_step. rewrite Hx.
        eexists _, _; split; [reflexivity | split; reflexivity].
  Qed.

  (* any statement list in which nothing touches self or the files before the parse statement
     fails, with self and the files exactly as before, when the parse raises *)
  Lemma guarded_parse_failure l : parse_guarded en l = true -> forall fr, pinv fr ->
    exists x fr', run0 E G l fr = Failed x fr' /\ same_state fr fr'.
  Proof.
    induction l as [|e r IH]; intros Hg fr I; simpl in Hg; [discriminate|].
    destruct (is_parse_of en e) eqn:P.
    - destruct (parse_fails e fr P I) as [x [fr' [H S]]].
      exists x, fr'. split; [|exact S]. unfold run0; simpl. rewrite H. reflexivity.
    - apply andb_prop in Hg as [Hg Hr]. apply andb_prop in Hg as [T R].
      apply negb_true_iff in T. apply negb_true_iff in R.
      pose proof (untouched_step E G e T fr) as S.
      unfold run0; simpl. destruct (step0 E G e fr) as [fr1|x fr1] eqn:H; simpl in S.
      + pose proof (pinv_step e fr fr1 T R I H) as I1.
        assert (returned fr1 = false) as ->.
        { unfold returned. destruct I1 as [_ [-> _]]. reflexivity. }
        destruct (IH Hr fr1 I1) as [x [fr' [H' S']]].
        exists x, fr'. split; [exact H' | eapply same_state_trans; eassumption].
      + exists x, fr1. split; [reflexivity | exact S].
  Qed.

  (* methods that delegate to a base method: nothing touches before the call, the base list is guarded *)
  Lemma guarded_call_failure br bs l : parse_guarded en br = true -> parse_guarded en bs = true -> call_guarded l = true ->
    forall fr, pinv fr -> exists x fr', run1 E G br bs l fr = Failed x fr' /\ same_state fr fr'.
  Proof.
    intros Hbr Hbs. induction l as [|e r IH]; intros Hg fr I; simpl in Hg; [discriminate|].
    destruct (is_call e) eqn:C.
    - assert (pinv (frame_of (f_self fr) (f_fs fr) (f_next fr))) as I0.
      { destruct I as [I1 _]. split; [exact I1|]. split; [reflexivity|]. simpl. discriminate. }
      assert (exists body, parse_guarded en body = true /\ step1 E G br bs e fr = call0 E G body fr) as [body [Hb Hs]].
      { destruct e; simpl in C; try discriminate; eexists; split; try reflexivity; assumption. }
      destruct (guarded_parse_failure body Hb _ I0) as [x [fr' [H [S1 S2]]]]. simpl in S1, S2.
      unfold run1; simpl. rewrite Hs. unfold call0. rewrite H.
      eexists _, _; split; [reflexivity|]. split; simpl; assumption.
    - apply andb_prop in Hg as [Hg Hr]. apply andb_prop in Hg as [T R].
      apply negb_true_iff in T. apply negb_true_iff in R.
      assert (step1 E G br bs e fr = step0 E G e fr) as Hs by (destruct e; simpl in C; try discriminate; reflexivity).
      destruct (is_parse_of en e) eqn:P.
      { destruct (parse_fails e fr P I) as [x [fr' [H S]]].
        exists x, fr'. split; [|exact S]. unfold run1; simpl. rewrite Hs, H. reflexivity. }
      pose proof (untouched_step E G e T fr) as S.
      unfold run1; simpl. rewrite Hs. destruct (step0 E G e fr) as [fr1|x fr1] eqn:H; simpl in S.
      + pose proof (pinv_step e fr fr1 T R I H) as I1.
        assert (returned fr1 = false) as ->.
        { unfold returned. destruct I1 as [_ [-> _]]. reflexivity. }
        destruct (IH Hr fr1 I1) as [x [fr' [H' S']]].
        exists x, fr'. split; [exact H' | eapply same_state_trans; eassumption].
      + exists x, fr1. split; [reflexivity | exact S].
  Qed.
End ParseRaises.

(* ---------- reads: ANY failure of the run (getParser, missing file, parse, ...) ---------- *)
Definition bound (fr : frame) : Prop := (exists po, f_p fr = PObj po) /\ (exists r, f_new fr = Some r).

Lemma safe_step E G e fr : safe_after_parse e = true -> bound fr -> exists fr', step0 E G e fr = Done fr' /\ bound fr'.
Proof.
  intros S [[po Hp] [r Hn]].
  destruct e; simpl in S; try discriminate; simpl.
  - eexists; split; [reflexivity | split; eauto].
  - rewrite Hn. eexists; split; [reflexivity | split; simpl; eauto].
  - eexists; split; [reflexivity | split; simpl; eauto].
  - eexists; split; [reflexivity | split; simpl; eauto].
  - rewrite Hn. destruct r as [ps|].
    + destruct e; try discriminate; simpl; rewrite ?Hn;
        (eexists; split; [reflexivity | split; simpl; eauto]).
    + eexists; split; [reflexivity | split; eauto].
  - eexists; split; [reflexivity | split; simpl; eauto].
  - rewrite Hp. eexists; split; [reflexivity | split; simpl; eauto].
  - eexists; split; [reflexivity | split; simpl; eauto].
  - eexists; split; [reflexivity | split; simpl; eauto].
Qed.

Lemma safe_run E G l : forallb safe_after_parse l = true -> forall fr, bound fr -> exists fr', run0 E G l fr = Done fr'.
Proof.
  induction l as [|e r IH]; intros H fr B; simpl in H.
  - eexists; reflexivity.
  - apply andb_prop in H as [He Hr]. destruct (safe_step E G e fr He B) as [fr1 [H1 B1]].
    unfold run0; simpl. rewrite H1. destruct (returned fr1); [eexists; reflexivity | apply IH; assumption].
Qed.

Lemma parse_done_bound E G e fr fr' : is_parse e = true -> step0 E G e fr = Done fr' -> bound fr' /\ same_state fr fr'.
Proof.
  intros P H. destruct e; simpl in P; try discriminate; simpl in H;
    destruct (f_p fr) eqn:Hp; try discriminate; unfold parse_step in H;
    break_match; try discriminate; injection H as <-; (split; [split; simpl; eauto | split; reflexivity]).
Qed.

(* any list that passes atomic_ok leaves self and the files as they were whenever it fails *)
Lemma atomic_failure E G l : atomic_ok l = true -> forall fr x fr',
  run0 E G l fr = Failed x fr' -> same_state fr fr'.
Proof.
  induction l as [|e r IH]; intros Ha fr x fr' H; unfold run0 in H; simpl in H, Ha; [discriminate|].
  destruct (is_parse e) eqn:P.
  - destruct (step0 E G e fr) as [fr1|y fr1] eqn:H1.
    + destruct (parse_done_bound E G e fr fr1 P H1) as [B S].
      destruct (returned fr1); [discriminate|].
      destruct (safe_run E G r Ha fr1 B) as [fr2 H2]. unfold run0 in H2. rewrite H2 in H. discriminate.
    + injection H as <- <-.
      destruct e; simpl in P; try discriminate; simpl in H1; destruct (f_p fr); unfold parse_step in H1;
        repeat break_match; try discriminate; injection H1 as <- <-; split; reflexivity.
  - apply andb_prop in Ha as [T Hr]. apply negb_true_iff in T.
    pose proof (untouched_step E G e T fr) as S.
    destruct (step0 E G e fr) as [fr1|y fr1] eqn:H1; simpl in S.
    + destruct (returned fr1); [discriminate|].
      eapply same_state_trans; [exact S | eapply IH; eassumption].
    + injection H as <- <-. exact S.
Qed.

(* ---------- write: the serialiser raises ---------- *)
Section ToStringRaises.
  Variable E : env.
  Variable G : args.
  Variable o0 : obj.
  Definition ts_raises (p : parser) : Prop := forall fn, exists x, ps_tostring p fn o0 = Raise x.
  Hypothesis getparser_ts_raises : forall p, e_getparser E (g_format G) = Ok p -> ts_raises p.

  Definition winv (fr : frame) : Prop :=
    f_self fr = o0 /\ f_ret fr = PUnbound /\ forall p, pparser (f_p fr) = Some p -> ts_raises p.

  Lemma winv_step e fr fr' : touches e = false -> is_return e = false ->
    match e with EToString => False | _ => True end ->
    winv fr -> step0 E G e fr = Done fr' -> winv fr'.
  Proof.
    intros T R NT [I1 [I2 I3]] H.
    pose proof (untouched_step E G e T fr) as [S1 _]. rewrite H in S1; simpl in S1.
    pose proof (step_keeps_ret E G e R fr fr' H) as S3.
    split; [congruence|]. split; [congruence|].
    intros p Hp. destruct (step_parser E G e T fr fr' H) as [Q|[q [Hq Q]]].
    - apply I3. congruence.
    - apply getparser_ts_raises. congruence.
  Qed.

  (* any statement list that serialises before it touches anything fails with the files (and self)
     exactly as before when the serialiser raises *)
  Lemma guarded_tostring_failure l : tostring_guarded l = true -> forall fr, winv fr ->
    exists x fr', run0 E G l fr = Failed x fr' /\ same_state fr fr'.
  Proof.
    induction l as [|e r IH]; intros Hg fr I; simpl in Hg; [discriminate|].
    assert ((e = EToString) \/ (match e with EToString => False | _ => True end)) as [->|NT]
      by (destruct e; auto).
    - destruct I as [I1 [I2 I3]]. unfold run0; simpl.
      destruct (f_p fr) eqn:Hp.
      + eexists _, _; split; [reflexivity | apply same_state_refl].
      + eexists _, _; split; [reflexivity | apply same_state_refl].
      + rewrite I1. destruct (I3 _ eq_refl (pb_filename p)) as [x ->].
        eexists _, _; split; [reflexivity | apply same_state_refl].
    - assert (negb (touches e) && negb (is_return e) && tostring_guarded r = true) as Hg'
        by (destruct e; try contradiction; exact Hg).
      apply andb_prop in Hg' as [Hg' Hr]. apply andb_prop in Hg' as [T R].
      apply negb_true_iff in T. apply negb_true_iff in R.
      pose proof (untouched_step E G e T fr) as S.
      unfold run0; simpl. destruct (step0 E G e fr) as [fr1|x fr1] eqn:H; simpl in S.
      + pose proof (winv_step e fr fr1 T R NT I H) as I1.
        assert (returned fr1 = false) as ->.
        { unfold returned. destruct I1 as [_ [-> _]]. reflexivity. }
        destruct (IH Hr fr1 I1) as [x [fr' [H' S']]].
        exists x, fr'. split; [exact H' | eapply same_state_trans; eassumption].
      + exists x, fr1. split; [reflexivity | exact S].
  Qed.
End ToStringRaises.
