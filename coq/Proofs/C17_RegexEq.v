(* C17 - the regenerated validator pattern of CIF symmetry-operator numbers accepts EXACTLY the sums of signed
   numbers / fractions, for every string (no length bound): a finite bisimulation between the derivatives of the
   pattern and the states of the reference recogniser, computed and checked by the kernel, lifted to all strings.
   Characters are grouped into the classes the pattern and the recogniser can distinguish (digit, . / + - e E,
   newline, anything else); a pattern whose character sets respect the classes has class-invariant derivatives. *)
From Coq Require Import NArith List Bool Lia.
From DS Require Import Model.C17_Regex Gen.C17_SymopRegex.
Import ListNotations.
Open Scope N_scope.

(* ---- decidable equalities ---- *)
Fixpoint ln_eqb (a b : list N) : bool :=
  match a, b with [], [] => true | x :: r, y :: s => (x =? y) && ln_eqb r s | _, _ => false end.
Lemma ln_eqb_eq a : forall b, ln_eqb a b = true -> a = b.
Proof.
  induction a as [|x a IH]; intros [|y b] H; try discriminate; [reflexivity|]. cbn [ln_eqb] in H.
  apply andb_prop in H. destruct H as [H1 H2]. apply N.eqb_eq in H1. rewrite H1, (IH _ H2). reflexivity.
Qed.
Fixpoint rx_eqb (a b : rx) : bool :=
  match a, b with
  | RNone, RNone | REps, REps | RAny, RAny => true
  | RSet x, RSet y => ln_eqb x y
  | RSeq a1 a2, RSeq b1 b2 | RAlt a1 a2, RAlt b1 b2 => rx_eqb a1 b1 && rx_eqb a2 b2
  | RStar a, RStar b => rx_eqb a b
  | _, _ => false
  end.
Lemma rx_eqb_eq a : forall b, rx_eqb a b = true -> a = b.
Proof.
  induction a as [| |cs| |a1 IH1 a2 IH2|a1 IH1 a2 IH2|a IH]; intros [] H; try discriminate; cbn [rx_eqb] in H; try reflexivity.
  - rewrite (ln_eqb_eq _ _ H). reflexivity.
  - apply andb_prop in H. destruct H as [H1 H2]. rewrite (IH1 _ H1), (IH2 _ H2). reflexivity.
  - apply andb_prop in H. destruct H as [H1 H2]. rewrite (IH1 _ H1), (IH2 _ H2). reflexivity.
  - rewrite (IH _ H). reflexivity.
Qed.
Definition nstate_eqb (a b : nstate) : bool :=
  match a, b with
  | Q0, Q0 | QSign, QSign | QInt, QInt | QFrac, QFrac | QDot, QDot | QE, QE | QESign, QESign | QExp, QExp
  | QSlash, QSlash | QDen, QDen | QDenFrac, QDenFrac | QDead, QDead => true
  | _, _ => false
  end.
Lemma nstate_eqb_eq a b : nstate_eqb a b = true -> a = b.
Proof. destruct a, b; intros H; try discriminate; reflexivity. Qed.

(* ---- character classes ---- *)
Definition special (c : N) : bool := (c =? 46) || (c =? 47) || (c =? 43) || (c =? 45) || (c =? 101) || (c =? 69) || (c =? 10).
Definition cls (c : N) : N := if is_digit c then 48 else if special c then c else 42.
Definition reps : list N := [48; 46; 47; 43; 45; 101; 69; 10; 42].
Definition digits : list N := [48; 49; 50; 51; 52; 53; 54; 55; 56; 57].

Lemma digit_in c : is_digit c = true -> In c digits.
Proof.
  unfold is_digit. intros H. apply andb_prop in H. destruct H as [H1 H2]. apply N.leb_le in H1, H2.
  assert (c = 48 \/ c = 49 \/ c = 50 \/ c = 51 \/ c = 52 \/ c = 53 \/ c = 54 \/ c = 55 \/ c = 56 \/ c = 57) as E by lia.
  unfold digits. cbn [In]. intuition.
Qed.
Lemma special_cases c : special c = true -> c = 46 \/ c = 47 \/ c = 43 \/ c = 45 \/ c = 101 \/ c = 69 \/ c = 10.
Proof. unfold special. rewrite !orb_true_iff, !N.eqb_eq. tauto. Qed.
Lemma cls_in_reps c : In (cls c) reps.
Proof.
  unfold cls. destruct (is_digit c); [cbn; auto|]. destruct (special c) eqn:S; [|cbn; auto 12].
  apply special_cases in S. unfold reps. cbn [In]. intuition.
Qed.

(* a character set respects the classes: only digits and special characters, and all digits or none *)
Definition set_ok (cs : list N) : bool :=
  forallb (fun c => is_digit c || special c) cs &&
  (forallb (fun d => in_set d cs) digits || forallb (fun d => negb (in_set d cs)) digits).
Lemma in_set_In c cs : in_set c cs = true -> In c cs.
Proof. unfold in_set. intros H. apply existsb_exists in H. destruct H as (x & Hx & E). apply N.eqb_eq in E. subst. exact Hx. Qed.
Lemma in_set_cls c cs : set_ok cs = true -> in_set c cs = in_set (cls c) cs.
Proof.
  unfold set_ok, cls. intros H. apply andb_prop in H. destruct H as [Hall Hd].
  destruct (is_digit c) eqn:D.
  - apply digit_in in D. apply orb_prop in Hd. destruct Hd as [Hd|Hd].
    + rewrite (proj1 (forallb_forall _ _) Hd c D), (proj1 (forallb_forall _ _) Hd 48); [reflexivity|cbn; auto].
    + pose proof (proj1 (forallb_forall _ _) Hd c D) as A. pose proof (proj1 (forallb_forall _ _) Hd 48 (or_introl eq_refl)) as B.
      apply negb_true_iff in A, B. rewrite A, B. reflexivity.
  - destruct (special c) eqn:S; [reflexivity|].
    assert (forall x, is_digit x || special x = false -> in_set x cs = false) as No.
    { intros x Hx. destruct (in_set x cs) eqn:I; [|reflexivity]. apply in_set_In in I.
      rewrite (proj1 (forallb_forall _ _) Hall x I) in Hx. discriminate. }
    rewrite (No c), (No 42); [reflexivity|reflexivity|rewrite D, S; reflexivity].
Qed.
Fixpoint sets_ok (r : rx) : bool :=
  match r with
  | RSet cs => set_ok cs
  | RSeq a b | RAlt a b => sets_ok a && sets_ok b
  | RStar a => sets_ok a
  | _ => true
  end.
Lemma cls_newline c : (cls c =? 10) = (c =? 10).
Proof.
  unfold cls. destruct (is_digit c) eqn:D.
  - unfold is_digit in D. apply andb_prop in D. destruct D as [D1 _]. apply N.leb_le in D1.
    symmetry. rewrite (proj2 (N.eqb_neq c 10)); [reflexivity|lia].
  - destruct (special c) eqn:S; [reflexivity|]. unfold special in S. rewrite !orb_false_iff in S.
    destruct S as (_ & S). rewrite S. reflexivity.
Qed.
Lemma deriv_cls c r : sets_ok r = true -> deriv c r = deriv (cls c) r.
Proof.
  induction r as [| |cs| |a IHa b IHb|a IHa b IHb|a IH]; cbn [sets_ok deriv]; intros H; try reflexivity.
  - rewrite (in_set_cls c cs H). reflexivity.
  - rewrite cls_newline. reflexivity.
  - apply andb_prop in H. destruct H as [Ha Hb]. rewrite (IHa Ha), (IHb Hb). reflexivity.
  - apply andb_prop in H. destruct H as [Ha Hb]. rewrite (IHa Ha), (IHb Hb). reflexivity.
  - rewrite (IH H). reflexivity.
Qed.

(* the recogniser only looks at the class *)
Lemma preds_cls c : is_digit (cls c) = is_digit c /\ (cls c =? 46) = (c =? 46) /\ (cls c =? 47) = (c =? 47)
  /\ is_sign (cls c) = is_sign c /\ is_e (cls c) = is_e c.
Proof.
  unfold cls. destruct (is_digit c) eqn:D.
  - pose proof D as D'. unfold is_digit in D'. apply andb_prop in D'. destruct D' as [D1 D2]. apply N.leb_le in D1, D2.
    unfold is_sign, is_e. repeat split; try reflexivity;
      repeat match goal with |- context [c =? ?k] => rewrite (proj2 (N.eqb_neq c k)) by lia end; reflexivity.
  - destruct (special c) eqn:S; [repeat split; rewrite ?D; reflexivity|]. unfold special in S. rewrite !orb_false_iff in S.
    destruct S as ((((((S1 & S2) & S3) & S4) & S5) & S6) & S7). unfold is_sign, is_e.
    rewrite ?D, S1, S2, S3, S4, S5, S6. repeat split; reflexivity.
Qed.
Lemma nstep_cls q c : nstep q c = nstep q (cls c).
Proof.
  destruct (preds_cls c) as (A & B & C & D & E). unfold nstep. rewrite A, B, C, D, E. reflexivity.
Qed.

(* ---- bisimulation ---- *)
Definition pmem (p : rx * nstate) (l : list (rx * nstate)) : bool :=
  existsb (fun x => rx_eqb (fst p) (fst x) && nstate_eqb (snd p) (snd x)) l.
Lemma pmem_In p l : pmem p l = true -> In p l.
Proof.
  unfold pmem. intros H. apply existsb_exists in H. destruct H as ([r q] & Hx & E). apply andb_prop in E. destruct E as [E1 E2].
  destruct p as [r' q']. cbn [fst snd] in *. rewrite (rx_eqb_eq _ _ E1), (nstate_eqb_eq _ _ E2). exact Hx.
Qed.
Fixpoint explore (fuel : nat) (todo seen : list (rx * nstate)) : list (rx * nstate) * bool :=
  match fuel with
  | O => (seen, false)
  | S f => match todo with
           | [] => (seen, true)
           | p :: rest => if pmem p seen then explore f rest seen
                          else explore f (map (fun c => (deriv c (fst p), nstep (snd p) c)) reps ++ rest) (p :: seen)
           end
  end.
Definition bisim_ok (B : list (rx * nstate)) : bool :=
  forallb (fun p => Bool.eqb (nullable (fst p)) (naccept (snd p)) && sets_ok (fst p)
                    && forallb (fun c => pmem (deriv c (fst p), nstep (snd p) c) B) reps) B.

Theorem bisim_sound B : bisim_ok B = true -> forall s r q, In (r, q) B -> rmatch r s = naccept (nrun q s).
Proof.
  intros HB. induction s as [|c s IH]; intros r q Hin;
    pose proof (proj1 (forallb_forall _ _) HB (r, q) Hin) as H; cbn [fst snd] in H;
    apply andb_prop in H; destruct H as [H Hstep]; apply andb_prop in H; destruct H as [Hn Hs].
  - cbn [rmatch nrun fold_left]. apply eqb_prop in Hn. exact Hn.
  - cbn [rmatch]. change (nrun q (c :: s)) with (nrun (nstep q c) s).
    rewrite (deriv_cls c r Hs), (nstep_cls q c). apply IH. apply pmem_In.
    exact (proj1 (forallb_forall _ _) Hstep (cls c) (cls_in_reps c)).
Qed.

(* ---- the regenerated validator pattern ---- *)
Definition gen_B : list (rx * nstate) := fst (explore 2000 [(gen_rx_translation, Q0)] []).
Lemma gen_B_ok : bisim_ok gen_B = true.
Proof. vm_compute. reflexivity. Qed.
Lemma gen_B_start : pmem (gen_rx_translation, Q0) gen_B = true.
Proof. vm_compute. reflexivity. Qed.
Theorem gen_translation_is_number_sum : forall s, rmatch gen_rx_translation s = is_number_sum s.
Proof. intros s. unfold is_number_sum. apply (bisim_sound gen_B gen_B_ok). apply pmem_In. exact gen_B_start. Qed.
