From Coq Require Import Reals Lra List.
From DS Require Import Base.RMat Base.Trig Model.LatDefs Model.C01_Spec Model.C10_LatticeHist Gen.LatFormulas.
From DS Require Import Proofs.C01_Lattice Proofs.C10_Base.
Import ListNotations.
Open Scope R_scope.

(* every readable attribute equals that of a lattice freshly built from the current cell parameters and orientation *)
Definition Coherent (L : lat) : Prop :=
  L = build (l_a L) (l_b L) (l_c L) (l_alpha L) (l_beta L) (l_gamma L) (l_baserot L).

(* nothing is left over: the result of setLatPar depends on the old object only through the merged parameters *)
Theorem no_leftover old a b c al be ga r :
  setLatPar old a b c al be ga r =
  build (merge a (l_a old)) (merge b (l_b old)) (merge c (l_c old)) (merge al (l_alpha old)) (merge be (l_beta old))
        (merge ga (l_gamma old)) (merge r (l_baserot old)).
Proof. destruct a, b, c, al, be, ga, r; reflexivity. Qed.

Lemma build_params a b c al be ga r :
  let L := build a b c al be ga r in
  l_a L = a /\ l_b L = b /\ l_c L = c /\ l_alpha L = al /\ l_beta L = be /\ l_gamma L = ga /\ l_baserot L = r.
Proof. cbv zeta. repeat split; reflexivity. Qed.

Lemma build_coherent a b c al be ga r : Coherent (build a b c al be ga r).
Proof. unfold Coherent. reflexivity. Qed.

Lemma setLatPar_coherent old a b c al be ga r : Coherent (setLatPar old a b c al be ga r).
Proof. rewrite no_leftover. apply build_coherent. Qed.

Definition op_ok (o : lop) : Prop := match o with OSetLatBase B => 0 < det B | _ => True end.

Lemma step_coherent L o : Coherent L -> op_ok o -> Coherent (step L o).
Proof.
  intros HL Ho. destruct o as [a b c al be ga r|B|]; cbn [step].
  - apply setLatPar_coherent.
  - cbn in Ho. unfold Coherent. exact (setLatBase_eq_build L B Ho).
  - exact HL.
Qed.

Theorem coherent_forever ops : forall L, Coherent L -> Forall op_ok ops -> Coherent (run ops L).
Proof.
  induction ops as [|o ops IH]; intros L HL Hok; cbn [run fold_left]; [exact HL|].
  inversion Hok as [|? ? H1 H2]; subst. apply IH; [apply step_coherent; assumption | assumption].
Qed.

(* any history that performs at least one update ends coherent, whatever the starting object was *)
Theorem coherent_after_update ops o L : op_ok o -> (match o with OCopy => Coherent L | _ => True end) ->
  Forall op_ok ops -> Coherent (run (o :: ops) L).
Proof.
  intros Ho Hc Hok. cbn [run fold_left]. apply coherent_forever; [|exact Hok].
  destruct o as [a b c al be ga r|B|]; cbn [step].
  - apply setLatPar_coherent.
  - exact (setLatBase_eq_build L B Ho).
  - exact Hc.
Qed.

Example history_nonvacuous :
  Forall op_ok [OSetLatPar (Some 3) None None None None (Some 100) None; OSetLatBase (M 2 0 0 0 3 0 0 1 4); OCopy].
Proof. repeat constructor; cbn; unfold det; cbn; lra. Qed.

(* ---- reciprocal lattice ---- *)
Lemma minv_mT A : det A <> 0 -> minv (mT A) = mT (minv A).
Proof. intros H. destruct A as [x11 x12 x13 x21 x22 x23 x31 x32 x33]. apply mat_eq; rm_simpl; field; lra. Qed.
Lemma minv_minv A : det A <> 0 -> minv (minv A) = A.
Proof.
  intros H. symmetry. apply minv_unique.
  - rewrite det_minv by exact H. apply Rinv_neq_0_compat. exact H.
  - apply minv_l. exact H.
Qed.

Theorem reciprocal_base (L : lat) : l_base (L_reciprocal L) = mT (l_recbase L).
Proof. reflexivity. Qed.

Theorem reciprocal_involution a b c al be ga r : valid_cell a b c al be ga -> proper_rot r ->
  let L := build a b c al be ga r in L_reciprocal (L_reciprocal L) = L.
Proof.
  intros HC HR. cbv zeta. set (L := build a b c al be ga r).
  destruct (det_base a b c al be ga r HC HR) as [_ P]. fold L in P.
  assert (RB : l_recbase L = minv (l_base L)) by reflexivity.
  assert (E : mT (l_recbase (L_reciprocal L)) = l_base L).
  { change (l_recbase (L_reciprocal L)) with (minv (mT (l_recbase L))).
    rewrite RB, minv_mT, mT_mT, minv_minv; [reflexivity | lra |].
    rewrite det_minv by lra. apply Rinv_neq_0_compat. lra. }
  unfold L_reciprocal at 1. rewrite E. apply (two_definitions_agree lat0 a b c al be ga r HC HR).
Qed.
