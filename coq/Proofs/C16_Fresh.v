(* C16 - a successful read does not depend on what the target held before, and leaves every atom
   referring to the target's lattice.  Lemmas about the object transformers, then symbolic execution
   of the GENERATED statement lists. *)
From Coq Require Import ZArith List Bool Lia.
From Coq Require Import Ascii String.
From DS Require Import Model.C16_ReadWriteTxn Gen.C16_RW Model.C16_Methods Proofs.C16_Dict.
Import ListNotations.
Open Scope string_scope.
Open Scope Z_scope.

(* two objects of the same class whose instance dictionaries agree on the names in K *)
Definition agreeK (K : list attr) (o1 o2 : obj) : Prop :=
  o_cls o1 = o_cls o2 /\ forall a, In a K -> lookup a (o_inst o1) = lookup a (o_inst o2).
Definition pay (o : obj) : list Z := map a_payload (o_items o).

Lemma agree_getattr K o1 o2 a : agreeK K o1 o2 -> In a K -> getattr o1 a = getattr o2 a.
Proof. intros [C H] I. unfold getattr. rewrite (H a I), C. reflexivity. Qed.

Lemma agree_start o1 o2 : o_cls o1 = o_cls o2 -> agreeK [] o1 o2.
Proof. intros C; split; [exact C | intros a []]. Qed.

Lemma agree_drop K a o1 o2 : agreeK K o1 o2 -> agreeK (a :: K) (drop_inst a o1) (drop_inst a o2).
Proof.
  intros [C H]; split; [exact C|]. intros b Hb; simpl. rewrite !lookup_remove.
  destruct (String.eqb b a) eqn:Hba; [reflexivity|].
  destruct Hb as [Hb|Hb]; [subst b; rewrite String.eqb_refl in Hba; discriminate | apply H; exact Hb].
Qed.

Lemma agree_init K c1 c2 n1 n2 o1 o2 : agreeK K o1 o2 -> existsb (String.eqb "_lattice") K = false ->
  agreeK K (init_self c1 n1 o1) (init_self c2 n2 o2).
Proof.
  intros [C H] N.
  assert (forall a, In a K -> String.eqb a "_lattice" = false) as NK.
  { intros a Ia. destruct (String.eqb a "_lattice") eqn:Q; [|reflexivity].
    apply String.eqb_eq in Q; subst a.
    assert (existsb (String.eqb "_lattice") K = true) as X by (apply existsb_exists; exists "_lattice"; split; [exact Ia | apply String.eqb_refl]).
    congruence. }
  unfold init_self. split.
  - destruct (is_none _), (is_none _); simpl; exact C.
  - intros a Ia. specialize (NK a Ia).
    destruct (is_none (getattr o1 "_lattice")), (is_none (getattr o2 "_lattice")); simpl;
      rewrite ?lookup_dset, ?NK; apply H; exact Ia.
Qed.

Lemma agree_update K ps o1 o2 : agreeK K o1 o2 -> agreeK (K ++ map fst (p_inst ps)) (update_dict ps o1) (update_dict ps o2).
Proof.
  intros [C H]; split; [exact C|]. intros a Ia; simpl. apply lookup_update_indep.
  apply in_app_or in Ia as [Ia|Ia]; [left; apply H; exact Ia | right; exact Ia].
Qed.

Lemma agree_items K ps n1 n2 o1 o2 : agreeK K o1 o2 -> agreeK K (set_all_items ps n1 o1) (set_all_items ps n2 o2).
Proof. intros [C H]; split; [exact C | exact H]. Qed.

Lemma agree_title K t o1 o2 : agreeK K o1 o2 -> In "title" K -> agreeK K (default_title t o1) (default_title t o2).
Proof.
  intros A I. pose proof (agree_getattr K o1 o2 "title" A I) as Q. destruct A as [C H].
  unfold default_title, title_value. rewrite Q. destruct (truthy _); split; simpl; auto.
  intros a Ia. rewrite !lookup_dset. destruct (String.eqb a "title"); [reflexivity | apply H; exact Ia].
Qed.

Lemma agree_restore K d o1 o2 : agreeK K o1 o2 -> In "pdffit" K -> agreeK K (restore_pdffit d o1) (restore_pdffit d o2).
Proof.
  intros A I. pose proof (agree_getattr K o1 o2 "pdffit" A I) as Q. destruct A as [C H].
  unfold restore_pdffit. rewrite Q. destruct (is_none _); split; simpl; auto.
  intros a Ia. rewrite !lookup_dset. destruct (String.eqb a "pdffit"); [reflexivity | apply H; exact Ia].
Qed.

Lemma agree_spcgr K g o1 o2 o1' o2' : agreeK K o1 o2 -> In "pdffit" K ->
  update_spcgr g o1 = Some o1' -> update_spcgr g o2 = Some o2' -> agreeK K o1' o2'.
Proof.
  intros A I. pose proof (agree_getattr K o1 o2 "pdffit" A I) as Q. destruct A as [C H].
  unfold update_spcgr. rewrite Q. destruct (getattr o2 "pdffit") as [[]|]; try discriminate.
  intros H1 H2. injection H1 as <-. injection H2 as <-. split; simpl; auto.
  intros a Ia. rewrite !lookup_dset. destruct (String.eqb a "pdffit"); [reflexivity | apply H; exact Ia].
Qed.

Lemma agree_incl K K' o1 o2 : incl K' K -> agreeK K o1 o2 -> agreeK K' o1 o2.
Proof. intros I [C H]; split; [exact C | intros a Ia; apply H, I, Ia]. Qed.

Lemma agree_observe K names o1 o2 : incl names K -> agreeK K o1 o2 -> pay o1 = pay o2 ->
  observe names o1 = observe names o2.
Proof.
  intros I A P. unfold observe. destruct A as [C H]. f_equal; [exact C | exact P |].
  apply map_ext_in. intros a Ia. unfold getattr. rewrite (H a (I a Ia)), C. reflexivity.
Qed.

(* payloads *)
Lemma pay_items ps n o : pay (set_all_items ps n o) = map a_payload (p_items ps).
Proof. unfold pay, set_all_items; simpl. apply copy_items_payloads. Qed.
Lemma pay_title t o : pay (default_title t o) = pay o.
Proof. unfold default_title. destruct (truthy _); reflexivity. Qed.
Lemma pay_restore d o : pay (restore_pdffit d o) = pay o.
Proof. unfold restore_pdffit. destruct (is_none _); reflexivity. Qed.
Lemma pay_spcgr g o o' : update_spcgr g o = Some o' -> pay o' = pay o.
Proof. unfold update_spcgr. destruct (getattr o "pdffit") as [[]|]; try discriminate. intros H; injection H as <-. reflexivity. Qed.

(* atoms refer to the object's lattice *)
Lemma points_items ps n o : atoms_point_to_lattice (set_all_items ps n o).
Proof.
  unfold atoms_point_to_lattice, set_all_items. simpl.
  replace (lat_id (with_items o _)) with (lat_id o) by reflexivity. apply copy_items_lattice.
Qed.
Lemma lat_id_with_inst_other o a v : String.eqb "_lattice" a = false -> lat_id (with_inst o (dset a v (o_inst o))) = lat_id o.
Proof. intros N. unfold lat_id, getattr; simpl. rewrite lookup_dset, N. reflexivity. Qed.
Lemma points_with_inst_other o a v : String.eqb "_lattice" a = false ->
  atoms_point_to_lattice o -> atoms_point_to_lattice (with_inst o (dset a v (o_inst o))).
Proof. intros N H. unfold atoms_point_to_lattice. rewrite lat_id_with_inst_other by exact N. exact H. Qed.
Lemma points_title t o : atoms_point_to_lattice o -> atoms_point_to_lattice (default_title t o).
Proof. intros H. unfold default_title. destruct (truthy _); [exact H | apply points_with_inst_other; [reflexivity | exact H]]. Qed.
Lemma points_restore d o : atoms_point_to_lattice o -> atoms_point_to_lattice (restore_pdffit d o).
Proof. intros H. unfold restore_pdffit. destruct (is_none _); [apply points_with_inst_other; [reflexivity | exact H] | exact H]. Qed.
Lemma points_spcgr g o o' : update_spcgr g o = Some o' -> atoms_point_to_lattice o -> atoms_point_to_lattice o'.
Proof.
  unfold update_spcgr. destruct (getattr o "pdffit") as [[]|]; try discriminate. intros H; injection H as <-.
  apply points_with_inst_other; reflexivity.
Qed.
Lemma points_drop a o : String.eqb "_lattice" a = false -> atoms_point_to_lattice o -> atoms_point_to_lattice (drop_inst a o).
Proof.
  intros N H. unfold atoms_point_to_lattice, drop_inst, lat_id, getattr in *; simpl.
  rewrite lookup_remove, N. exact H.
Qed.
Lemma points_init c n o : atoms_point_to_lattice o -> atoms_point_to_lattice (init_self c n o).
Proof.
  intros H. unfold init_self. destruct (is_none _); [|exact H].
  unfold atoms_point_to_lattice, assign_lattice, lat_id, getattr; simpl.
  rewrite lookup_dset, String.eqb_refl. apply Forall_forall. intros a Ia.
  apply in_map_iff in Ia as [b [<- _]]. reflexivity.
Qed.

Lemma points_b o : atoms_point_to_lattice_b o = true <-> atoms_point_to_lattice o.
Proof.
  unfold atoms_point_to_lattice_b, atoms_point_to_lattice. rewrite forallb_forall, Forall_forall.
  split; intros H a Ia; specialize (H a Ia); [apply Z.eqb_eq | apply Z.eqb_eq]; exact H.
Qed.
