(* C07 - executable witnesses (exact rationals) showing that the hypotheses of labels_unique and column_order are
   needed: outside them the reader model - and, replayed by the finder, the code - gives clashing labels or a result
   that depends on the order of the columns.  Also non-vacuity instances for those hypotheses. *)
From Coq Require Import ZArith List Bool QArith Ascii String Permutation.
From DS Require Import Base.ZMat Base.SGDefs Base.C09_GNum Model.GroupCheck Model.C02_Orbit.
From DS Require Import Model.C09_Prims Gen.C09_AtomFormulas Model.C09_AtomADP Model.C11_LookupDefs.
From DS Require Import Model.C07_Text Model.C07_SymopText Model.C07_SpecDefs Gen.C07_CifSpec Model.C07_CifRead.
Import ListNotations.
Open Scope Z_scope.
Open Scope string_scope.

Definition eps8 : Q := 1 # 100000000.
Definition pi_approx : Q := 355 # 113.
(* unit cube *)
Definition E_cube : env (T:=Q) := QE pi_approx eps8 (cart_lat QOps eps8) (gI QOps) 120000.
(* an oblique cell: c = (1/2, 0, 1); only base / recbase matter for the coordinates *)
Definition base_obl : gmat Q := (GM (GV 1 0 0) (GV 0 1 0) (GV (1 # 2) 0 1))%Q.
Definition rec_obl : gmat Q := (GM (GV 1 0 0) (GV 0 1 0) (GV (-1 # 2) 0 1))%Q.
Definition lat_obl : latdata Q :=
  (LD 1 1 1 1 1 1 0 0 0 (gI QOps) base_obl (gI QOps) (gI QOps) eps8)%Q.
Definition E_obl : env (T:=Q) := QE pi_approx eps8 lat_obl rec_obl 120000.

Fixpoint str_nodupb (l : list string) : bool :=
  match l with [] => true | x :: r => negb (existsb (String.eqb x) r) && str_nodupb r end.
Lemma str_nodupb_complete l : NoDup l -> str_nodupb l = true.
Proof.
  induction 1 as [|x l Hx _ IH]; [reflexivity|]. cbn [str_nodupb]. rewrite IH, andb_true_r. apply negb_true_iff.
  destruct (existsb (String.eqb x) l) eqn:Ex; [|reflexivity]. exfalso. apply Hx.
  apply existsb_exists in Ex as [y [Hy He]]. apply String.eqb_eq in He. subst. exact Hy.
Qed.
Lemma str_nodupb_sound l : str_nodupb l = true -> NoDup l.
Proof.
  induction l as [|x l IH]; intros H; [constructor|]. cbn [str_nodupb] in H. apply andb_true_iff in H as [H1 H2].
  constructor; [|apply IH; exact H2]. intros Hin. apply negb_true_iff in H1.
  assert (existsb (String.eqb x) l = true) by (apply existsb_exists; exists x; split; [exact Hin | apply String.eqb_refl]).
  congruence.
Qed.

(* ---------- labels: sites C1 and C1_2 in P-1 ---------- *)
Definition clash_block : block :=
  Block [Some "1"; Some "1"; Some "1"; Some "90"; Some "90"; Some "90"]
        (Loop 2 [("_atom_site_label", ["C1"; "C1_2"]); ("_atom_site_fract_x", ["0.1"; "0.3"]);
                 ("_atom_site_fract_y", ["0.2"; "0.1"]); ("_atom_site_fract_z", ["0.3"; "0.2"])])
        None None (Some ["x,y,z"; "-x,-y,-z"]) "" "" "" "" "" "" "".
Definition no_find (ops : list symop) : option (setting * bool) := None.

Definition labels_of_scheme (sch : label_scheme) : list string :=
  match read_cif E_cube no_find [] clash_block with
  | Ok r => map o_label (expand_all E_cube sch (r_group r) (r_parents r) (map (fun au => a_label (fst au)) (r_parents r)))
  | Err _ => []
  end.

(* plain suffixes: two atoms are called C1_2 although the site labels are distinct *)
Lemma plain_labels_clash :
  labels_of_scheme LSPlain = ["C1"; "C1_2"; "C1_2"; "C1_2_2"] /\ ~ NoDup (labels_of_scheme LSPlain).
Proof.
  assert (H : labels_of_scheme LSPlain = ["C1"; "C1_2"; "C1_2"; "C1_2_2"]) by (vm_compute; reflexivity).
  split; [exact H|]. rewrite H. intros Hn. apply str_nodupb_complete in Hn. vm_compute in Hn. discriminate.
Qed.
(* skipping taken labels: distinct *)
Lemma fresh_labels_distinct :
  labels_of_scheme LSFresh = ["C1"; "C1_3"; "C1_2"; "C1_2_2"] /\ NoDup (labels_of_scheme LSFresh).
Proof.
  assert (H : labels_of_scheme LSFresh = ["C1"; "C1_3"; "C1_2"; "C1_2_2"]) by (vm_compute; reflexivity).
  split; [exact H|]. rewrite H. apply str_nodupb_sound. vm_compute. reflexivity.
Qed.

(* ---------- column order, outside the commuting subset ---------- *)
Definition P (item : string) (q : Q) : setter * val (T:=Q) := (lookup_setter item, VNum q).
Definition S (item : string) (s : string) : setter * val (T:=Q) := (lookup_setter item, VStr s).
Definition Urow (E : env (T:=Q)) (r : list (setter * val (T:=Q))) : list Q :=
  flat (rd_U (e_C E) (a_adp (run_row E (init_atom E) r))).
Definition Xrow (E : env (T:=Q)) (r : list (setter * val (T:=Q))) : list Q :=
  let x := a_xyz (run_row E (init_atom E) r) in [x0 x; x1 x; x2 x].
Fixpoint qlist_eqb (a b : list Q) : bool :=
  match a, b with [], [] => true | x :: r, y :: s => Qeq_bool x y && qlist_eqb r s | _, _ => false end.
Lemma qlist_eqb_refl a : qlist_eqb a a = true.
Proof. induction a as [|x a IH]; [reflexivity|]. cbn. rewrite IH, andb_true_r. apply Qeq_bool_iff. reflexivity. Qed.

(* (a) one merged loop: the adp type before or after the anisotropic components *)
Definition merged_type_first := [S "_atom_site_label" "C1"; S "_atom_site_adp_type" "Uani";
  P "_atom_site_aniso_u_11" (1 # 100); P "_atom_site_aniso_u_22" (2 # 100); P "_atom_site_aniso_u_33" (3 # 100);
  P "_atom_site_aniso_u_12" (1 # 1000)]%Q.
Definition merged_type_last := [S "_atom_site_label" "C1";
  P "_atom_site_aniso_u_11" (1 # 100); P "_atom_site_aniso_u_22" (2 # 100); P "_atom_site_aniso_u_33" (3 # 100);
  P "_atom_site_aniso_u_12" (1 # 1000); S "_atom_site_adp_type" "Uani"]%Q.
(* in column order the two spellings differ; with the adp-type translator applied first they agree *)
Lemma merged_loop_order_matters (so : setter_order) :
  Permutation merged_type_first merged_type_last /\
  qlist_eqb (Urow E_cube (order_row so merged_type_first)) (Urow E_cube (order_row so merged_type_last)) =
  match so with SOColumn => false | _ => true end.
Proof.
  split.
  - unfold merged_type_first, merged_type_last. apply perm_skip.
    exact (Permutation_cons_append [P "_atom_site_aniso_u_11" (1 # 100); P "_atom_site_aniso_u_22" (2 # 100); P "_atom_site_aniso_u_33" (3 # 100);
                                    P "_atom_site_aniso_u_12" (1 # 1000)]%Q (S "_atom_site_adp_type" "Uani")).
  - destruct so; vm_compute; reflexivity.
Qed.

(* (b) fractional and Cartesian coordinates of the same point, interleaved, in an oblique cell:
       fract (1/10, 1/5, 3/10) <-> cartn (1/4, 1/5, 3/10) for base_obl *)
Definition both_blocked := [P "_atom_site_fract_x" (1 # 10); P "_atom_site_fract_y" (1 # 5); P "_atom_site_fract_z" (3 # 10);
  P "_atom_site_cartn_x" (1 # 4); P "_atom_site_cartn_y" (1 # 5); P "_atom_site_cartn_z" (3 # 10)]%Q.
Definition both_interleaved := [P "_atom_site_fract_x" (1 # 10); P "_atom_site_fract_y" (1 # 5); P "_atom_site_cartn_x" (1 # 4);
  P "_atom_site_fract_z" (3 # 10); P "_atom_site_cartn_y" (1 # 5); P "_atom_site_cartn_z" (3 # 10)]%Q.
(* in column order (and with only the type first) the interleaved row misplaces the atom; with the Cartesian translators last it does not *)
Lemma fract_cartn_order_matters (so : setter_order) :
  qlist_eqb (Xrow E_obl (order_row so both_blocked)) [1 # 10; 1 # 5; 3 # 10]%Q = true /\
  qlist_eqb (Xrow E_obl (order_row so both_interleaved)) [1 # 10; 1 # 5; 3 # 10]%Q =
  match so with SOTypeFirstCartnLast => true | _ => false end.
Proof. destruct so; split; vm_compute; reflexivity. Qed.

(* (c) an atom declared Uiso that nevertheless appears in the aniso loop keeps the LAST diagonal component *)
Definition iso_atom : ratom (T:=Q) := run_row E_cube (init_atom E_cube) [S "_atom_site_label" "C1"; S "_atom_site_adp_type" "Uiso"].
Lemma uiso_atom_in_aniso_loop_order_matters :
  qlist_eqb (flat (rd_U (e_C E_cube) (a_adp (run_row E_cube iso_atom [P "_atom_site_aniso_u_11" (1 # 100); P "_atom_site_aniso_u_33" (3 # 100)]%Q))))
            (flat (rd_U (e_C E_cube) (a_adp (run_row E_cube iso_atom [P "_atom_site_aniso_u_33" (3 # 100); P "_atom_site_aniso_u_11" (1 # 100)]%Q)))) = false.
Proof. vm_compute. reflexivity. Qed.

(* the dispatch table really addresses the translators used above *)
Example dispatch_examples :
  map (fun n => s_target (lookup_setter n)) ["_atom_site_label"; "_atom_site_fract_x"; "_atom_site_aniso_u_12"; "_atom_site_aniso_b_12";
                                             "_atom_site_b_iso_or_equiv"; "_atom_site_thermal_displace_type"; "_atom_site_calc_flag"]
  = [TLabel; TFract i0; TUij N12; TUij N12; TUisoequiv; TAdpType; TIgnore]
  /\ s_scale (lookup_setter "_atom_site_aniso_b_12") = SBtoU /\ s_scale (lookup_setter "_atom_site_aniso_u_12") = SOne
  /\ s_default (lookup_setter "_atom_site_occupancy") = Dec 10 (-1).
Proof. vm_compute. repeat split; reflexivity. Qed.

Example element_examples :
  map element_of ["C1"; "Na1+"; "O2-"; "13-C"; "na"; "FE3+"; "?"; "1x"] = ["C"; "Na1+"; "O2-"; "13-c"; "Na"; "Fe3+"; "?"; "1x"].
Proof. vm_compute. reflexivity. Qed.
