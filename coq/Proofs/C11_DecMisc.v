From Coq Require Import ZArith List Bool String.
From DS Require Import Base.ZMat Base.SGDefs Model.C11_LookupDefs Model.C11_Checks Gen.SGTables Gen.LookupSpec.
Import ListNotations.
Lemma table_builds : exists T, the_table = Some T.
Proof. destruct the_table eqn:E; [eexists; reflexivity|]. vm_compute in E. discriminate. Qed.
Lemma by_number_b : with_table (fun T => forallb (num_ok T) all_settings) = true.
Proof. vm_compute. reflexivity. Qed.
Lemma exact_name_b : with_table (fun T => forallb (exact_ok T) all_settings) = true.
Proof. vm_compute. reflexivity. Qed.
Lemma aliases_b : with_table (fun T => forallb (alias_ok T) (aliases_of builder)) = true.
Proof. vm_compute. reflexivity. Qed.
Lemma alias_count : (List.length (aliases_of builder) >= 17)%nat.
Proof. vm_compute. repeat constructor. Qed.
Lemma unknown_b : with_table unknown_ok = true.
Proof. vm_compute. reflexivity. Qed.
