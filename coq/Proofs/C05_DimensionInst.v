(* C05/C06 - the parameter count of an accepted certificate is the dimension of the free / invariant space:
   any independent family of fixed vectors (invariant tensors) has at most that many members, any basis exactly that many. *)
From Coq Require Import ZArith QArith List Bool Lia.
From DS Require Import Base.ZMat Base.SGDefs Model.C05_QBase Model.C05_PosCert Model.C06_UCert.
From DS Require Import Proofs.C05_QLemmas Proofs.C05_PosSound Proofs.C06_USound Proofs.C05_Dimension Proofs.C05_DimensionV.
Import ListNotations.
Open Scope Q_scope.

Ltac q3d := cbv beta iota delta [q3eq q3add q3scale q3zero qx qy qz] in *.

Lemma q3add_eq u u' v v' : q3eq u u' -> q3eq v v' -> q3eq (q3add u v) (q3add u' v').
Proof. destruct u as [a b c], u' as [a' b' c'], v as [d e f], v' as [d' e' f']. q3d. intros (A & B & C) (D & E & F). rewrite A, B, C, D, E, F. repeat split; reflexivity. Qed.
Lemma q3scale_eq x y u v : x == y -> q3eq u v -> q3eq (q3scale x u) (q3scale y v).
Proof. destruct u as [a b c], v as [d e f]. q3d. intros H (A & B & C). rewrite H, A, B, C. repeat split; reflexivity. Qed.
Lemma q3_add_zero_l u : q3eq (q3add q3zero u) u.
Proof. destruct u as [a b c]. q3d. repeat split; ring. Qed.
Lemma q3_add_comm u v : q3eq (q3add u v) (q3add v u).
Proof. destruct u as [a b c], v as [d e f]. q3d. repeat split; ring. Qed.
Lemma q3_add_assoc u v w : q3eq (q3add (q3add u v) w) (q3add u (q3add v w)).
Proof. destruct u as [a b c], v as [d e f], w as [g h i]. q3d. repeat split; ring. Qed.
Lemma q3_scale_add x u v : q3eq (q3scale x (q3add u v)) (q3add (q3scale x u) (q3scale x v)).
Proof. destruct u as [a b c], v as [d e f]. q3d. repeat split; ring. Qed.
Lemma q3_scale_plus x y u : q3eq (q3scale (x + y) u) (q3add (q3scale x u) (q3scale y u)).
Proof. destruct u as [a b c]. q3d. repeat split; ring. Qed.
Lemma q3_scale_scale x y u : q3eq (q3scale x (q3scale y u)) (q3scale (x * y) u).
Proof. destruct u as [a b c]. q3d. repeat split; ring. Qed.
Lemma q3_scale_0 u : q3eq (q3scale 0 u) q3zero.
Proof. destruct u as [a b c]. q3d. repeat split; ring. Qed.
Lemma q3_scale_zero x : q3eq (q3scale x q3zero) q3zero.
Proof. q3d. repeat split; ring. Qed.
Lemma lin_nil_r N : lin N [] = q3zero.
Proof. destruct N; reflexivity. Qed.

Definition q3_short := independent_in_span_is_short q3 q3eq q3add q3scale q3zero lin
  q3eq_refl q3eq_sym q3eq_trans q3add_eq q3scale_eq q3_add_zero_l q3_add_comm q3_add_assoc q3_scale_add q3_scale_plus
  q3_scale_scale q3_scale_0 q3_scale_zero (fun p => eq_refl) lin_nil_r (fun n N a p => eq_refl).

Lemma pos_dimension G c : pos_cert_ok G c = true ->
  let S := stab G (pc_x c) in
  forall M : list q3, (forall m, In m M -> Fixed S m) ->
    (forall a, List.length a = List.length M -> q3eq (lin M a) q3zero -> Forall (fun x => x == 0) a) ->
    (List.length M <= List.length (pc_p0 c))%nat /\
    ((forall v, Fixed S v -> exists a, List.length a = List.length M /\ q3eq v (lin M a)) -> List.length M = List.length (pc_p0 c)).
Proof.
  intros Hok S M HF HI. destruct (pos_basis G c Hok) as (Hlen & Hfix & Hspan & Hind). fold S in Hfix, Hspan.
  rewrite Hlen. split.
  - apply q3_short; [|exact HI]. intros m Hm. apply Hspan. apply HF. exact Hm.
  - intros HS. apply Nat.le_antisymm.
    + apply q3_short; [|exact HI]. intros m Hm. apply Hspan. apply HF. exact Hm.
    + apply q3_short; [|exact Hind]. intros n Hn. apply HS. apply Hfix. exact Hn.
Qed.

(* ---- tensors ---- *)
Ltac s6d := cbv beta iota delta [s6eq s6add s6scale s6zero u11 u22 u33 u12 u13 u23] in *.
Ltac sp6 := split; [|split; [|split; [|split; [|split]]]].

Lemma s6scale_eq2 x y u v : x == y -> s6eq u v -> s6eq (s6scale x u) (s6scale y v).
Proof. destruct u, v. s6d. intros H (A & B & C & D & E & F). rewrite H, A, B, C, D, E, F. sp6; reflexivity. Qed.
Lemma s6_add_zero_l u : s6eq (s6add s6zero u) u.
Proof. destruct u. s6d. sp6; ring. Qed.
Lemma s6_add_comm u v : s6eq (s6add u v) (s6add v u).
Proof. destruct u, v. s6d. sp6; ring. Qed.
Lemma s6_add_assoc u v w : s6eq (s6add (s6add u v) w) (s6add u (s6add v w)).
Proof. destruct u, v, w. s6d. sp6; ring. Qed.
Lemma s6_scale_add x u v : s6eq (s6scale x (s6add u v)) (s6add (s6scale x u) (s6scale x v)).
Proof. destruct u, v. s6d. sp6; ring. Qed.
Lemma s6_scale_plus x y u : s6eq (s6scale (x + y) u) (s6add (s6scale x u) (s6scale y u)).
Proof. destruct u. s6d. sp6; ring. Qed.
Lemma s6_scale_scale x y u : s6eq (s6scale x (s6scale y u)) (s6scale (x * y) u).
Proof. destruct u. s6d. sp6; ring. Qed.
Lemma s6_scale_0 u : s6eq (s6scale 0 u) s6zero.
Proof. destruct u. s6d. sp6; ring. Qed.
Lemma s6_scale_zero x : s6eq (s6scale x s6zero) s6zero.
Proof. s6d. sp6; ring. Qed.
Lemma lin6_nil_r B : lin6 B [] = s6zero.
Proof. destruct B; reflexivity. Qed.

Definition s6_short := independent_in_span_is_short s6 s6eq s6add s6scale s6zero lin6
  s6eq_refl s6eq_sym s6eq_trans s6add_eq s6scale_eq2 s6_add_zero_l s6_add_comm s6_add_assoc s6_scale_add s6_scale_plus
  s6_scale_scale s6_scale_0 s6_scale_zero (fun p => eq_refl) lin6_nil_r (fun n N a p => eq_refl).

Lemma u_dimension G c : u_cert_ok G c = true ->
  let S := stab G (uc_x c) in
  forall M : list s6, (forall m, In m M -> Inv S m) ->
    (forall a, List.length a = List.length M -> s6eq (lin6 M a) s6zero -> Forall (fun x => x == 0) a) ->
    (List.length M <= List.length (uc_B c))%nat /\
    ((forall U, Inv S U -> exists a, List.length a = List.length M /\ s6eq U (lin6 M a)) -> List.length M = List.length (uc_B c)).
Proof.
  intros Hok S M HF HI. destruct (u_span_complete G c Hok) as (Hspan & Hind). fold S in Hspan.
  assert (Hfix : forall b, In b (uc_B c) -> Inv S b).
  { apply u_ok_clauses in Hok. cbv zeta in Hok. destruct Hok as (H1 & _). apply basis_inv_Inv. exact H1. }
  split.
  - apply s6_short; [|exact HI]. intros m Hm. apply Hspan. apply HF. exact Hm.
  - intros HS. apply Nat.le_antisymm.
    + apply s6_short; [|exact HI]. intros m Hm. apply Hspan. apply HF. exact Hm.
    + apply s6_short; [|exact Hind]. intros n Hn. apply HS. apply Hfix. exact Hn.
Qed.

(* non-vacuity: in Q^2 three vectors are dependent; e1,e3 is an independent family of fixed vectors of the example site *)
Example dependent_example : Dependent 2 [[1; 2]; [3; 4]; [5; 6]].
Proof. apply more_vectors_than_coordinates_are_dependent; [repeat constructor | cbn; lia]. Qed.
