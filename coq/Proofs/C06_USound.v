(* C06 - soundness of the displacement-tensor certificate checker (Model/C06_UCert.v). *)
From Coq Require Import ZArith QArith Qabs List Bool Lia.
From DS Require Import Base.ZMat Base.SGDefs Model.C05_QBase Model.C06_UCert Proofs.C05_QLemmas.
Import ListNotations.
Open Scope Q_scope.

Ltac s6s := cbv beta iota delta [s6eq s6add s6sub s6scale s6dot frob s6zero comb6 cmul6 quad conj row1 row2 row3 iz
                                 d1 d2 d3 d4 d5 d6 u11 u22 u33 u12 u13 u23 qx qy qz k1 k2 k3 k4 k5 k6
                                 m11 m12 m13 m21 m22 m23 m31 m32 m33 fst snd] in *.
Ltac split6 := split; [|split; [|split; [|split; [|split]]]].

Lemma s6eq_refl a : s6eq a a.
Proof. s6s. split6; reflexivity. Qed.
Lemma s6eq_sym a b : s6eq a b -> s6eq b a.
Proof. s6s. intros (A & B & C & D & E & F). split6; symmetry; assumption. Qed.
Lemma s6eq_trans a b c : s6eq a b -> s6eq b c -> s6eq a c.
Proof. s6s. intros (A & B & C & D & E & F) (A' & B' & C' & D' & E' & F'). split6; etransitivity; eassumption. Qed.

Lemma s6eqb_true a b : s6eqb a b = true -> s6eq a b.
Proof.
  unfold s6eqb, s6eq. rewrite !andb_true_iff. intros [[[[[A B] C] D] E] F].
  apply Qeq_bool_iff in A, B, C, D, E, F. auto 7.
Qed.

Lemma s6add_eq a a' b b' : s6eq a a' -> s6eq b b' -> s6eq (s6add a b) (s6add a' b').
Proof.
  destruct a, a', b, b'. s6s. intros (A & B & C & D & E & F) (A' & B' & C' & D' & E' & F').
  rewrite A, B, C, D, E, F, A', B', C', D', E', F'. split6; reflexivity.
Qed.
Lemma s6scale_eq c a a' : s6eq a a' -> s6eq (s6scale c a) (s6scale c a').
Proof.
  destruct a, a'. s6s. intros (A & B & C & D & E & F). rewrite A, B, C, D, E, F. split6; reflexivity.
Qed.
Lemma s6add_zero_r a : s6eq (s6add a s6zero) a.
Proof. destruct a. s6s. split6; ring. Qed.

(* --- the action is linear and respects equality --------------------------------------------- *)
Lemma conj_lin R a U V : s6eq (conj R (s6add (s6scale a U) V)) (s6add (s6scale a (conj R U)) (conj R V)).
Proof.
  destruct R as [r11 r12 r13 r21 r22 r23 r31 r32 r33], U as [a1 a2 a3 a4 a5 a6], V as [b1 b2 b3 b4 b5 b6].
  s6s. split6; ring.
Qed.
Lemma conj_zero R : s6eq (conj R s6zero) s6zero.
Proof. destruct R as [r11 r12 r13 r21 r22 r23 r31 r32 r33]. s6s. split6; ring. Qed.
Lemma conj_eq R U V : s6eq U V -> s6eq (conj R U) (conj R V).
Proof.
  destruct R as [r11 r12 r13 r21 r22 r23 r31 r32 r33], U as [a1 a2 a3 a4 a5 a6], V as [b1 b2 b3 b4 b5 b6].
  s6s. intros (A & B & C & D & E & F). rewrite A, B, C, D, E, F. split6; reflexivity.
Qed.

Lemma lin6_inv R B u : (forall b, In b B -> s6eq (conj R b) b) -> s6eq (conj R (lin6 B u)) (lin6 B u).
Proof.
  revert u. induction B as [|b B IH]; intros u H.
  - cbn [lin6]. apply conj_zero.
  - destruct u as [|a u]; [cbn [lin6]; apply conj_zero|]. cbn [lin6].
    eapply s6eq_trans; [apply conj_lin|]. apply s6add_eq.
    + apply s6scale_eq. apply H. left. reflexivity.
    + apply IH. intros b' Hb'. apply H. right. exact Hb'.
Qed.

Lemma ucols_match_lin A R B u : ucols_match A R B = true -> s6eq (lin6 A u) (conj R (lin6 B u)).
Proof.
  revert B u. induction A as [|a A IH]; intros B u H.
  - destruct B; [|discriminate]. cbn [lin6]. apply s6eq_sym, conj_zero.
  - destruct B as [|b B]; [discriminate|]. cbn [ucols_match] in H. apply andb_true_iff in H as [Ha HA].
    apply s6eqb_true in Ha. destruct u as [|a0 u]; [cbn [lin6]; apply s6eq_sym, conj_zero|].
    cbn [lin6]. eapply s6eq_trans; [|apply s6eq_sym, conj_lin]. apply s6add_eq.
    + apply s6scale_eq. exact Ha.
    + apply IH. exact HA.
Qed.

(* --- decomposition over the six unit tensors -------------------------------------------------- *)
Lemma comb6_add v s s1 s2 s3 s4 s5 s6' a b1 b2 b3 b4 b5 b6 :
  s6eq s (comb6 v s1 s2 s3 s4 s5 s6') -> s6eq a (comb6 v b1 b2 b3 b4 b5 b6) ->
  s6eq (s6add s a) (comb6 v (s6add s1 b1) (s6add s2 b2) (s6add s3 b3) (s6add s4 b4) (s6add s5 b5) (s6add s6' b6)).
Proof.
  destruct v, s, s1, s2, s3, s4, s5, s6', a, b1, b2, b3, b4, b5, b6. s6s.
  intros (A & B & C & D & E & F) (A' & B' & C' & D' & E' & F').
  rewrite A, B, C, D, E, F, A', B', C', D', E', F'. split6; ring.
Qed.

Lemma comb6_units v : s6eq (comb6 v d1 d2 d3 d4 d5 d6) v.
Proof. destruct v. s6s. split6; ring. Qed.

Lemma dotstep_decomp f b v :
  s6eq (s6scale (s6dot f v) b)
       (comb6 v (s6scale (s6dot f d1) b) (s6scale (s6dot f d2) b) (s6scale (s6dot f d3) b)
                (s6scale (s6dot f d4) b) (s6scale (s6dot f d5) b) (s6scale (s6dot f d6) b)).
Proof. destruct f, b, v. s6s. split6; ring. Qed.

Lemma zero_decomp v : s6eq s6zero (comb6 v s6zero s6zero s6zero s6zero s6zero s6zero).
Proof. destruct v. s6s. split6; ring. Qed.

Lemma lin6_dots_decomp B P v :
  s6eq (lin6 B (map (fun f => s6dot f v) P))
       (comb6 v (lin6 B (map (fun f => s6dot f d1) P)) (lin6 B (map (fun f => s6dot f d2) P))
                (lin6 B (map (fun f => s6dot f d3) P)) (lin6 B (map (fun f => s6dot f d4) P))
                (lin6 B (map (fun f => s6dot f d5) P)) (lin6 B (map (fun f => s6dot f d6) P))).
Proof.
  revert P. induction B as [|b B IH]; intros P.
  - cbn [lin6]. apply zero_decomp.
  - destruct P as [|f P]; [cbn [map lin6]; apply zero_decomp|].
    cbn [map lin6]. apply comb6_add; [apply dotstep_decomp | apply IH].
Qed.

Lemma cstep6_decomp C R v :
  s6eq (cmul6 C (s6sub (conj R v) v))
       (comb6 v (cmul6 C (s6sub (conj R d1) d1)) (cmul6 C (s6sub (conj R d2) d2)) (cmul6 C (s6sub (conj R d3) d3))
                (cmul6 C (s6sub (conj R d4) d4)) (cmul6 C (s6sub (conj R d5) d5)) (cmul6 C (s6sub (conj R d6) d6))).
Proof.
  destruct C as [c1 c2 c3 c4 c5 c6]. destruct c1, c2, c3, c4, c5, c6.
  destruct R as [r11 r12 r13 r21 r22 r23 r31 r32 r33]. destruct v. s6s. split6; ring.
Qed.

Lemma csum6_decomp S C v :
  s6eq (csum6 S C v)
       (comb6 v (csum6 S C d1) (csum6 S C d2) (csum6 S C d3) (csum6 S C d4) (csum6 S C d5) (csum6 S C d6)).
Proof.
  revert C. induction S as [|g S IH]; intros C.
  - cbn [csum6]. apply zero_decomp.
  - destruct C as [|c C]; [cbn [csum6]; apply zero_decomp|].
    cbn [csum6]. apply comb6_add; [apply cstep6_decomp | apply IH].
Qed.

Lemma comb6_eq v a1 a2 a3 a4 a5 a6 b1 b2 b3 b4 b5 b6 :
  s6eq a1 b1 -> s6eq a2 b2 -> s6eq a3 b3 -> s6eq a4 b4 -> s6eq a5 b5 -> s6eq a6 b6 ->
  s6eq (comb6 v a1 a2 a3 a4 a5 a6) (comb6 v b1 b2 b3 b4 b5 b6).
Proof.
  intros. unfold comb6. repeat (apply s6add_eq; [apply s6scale_eq; assumption|]). apply s6scale_eq. assumption.
Qed.

Lemma span6_ok_recon B P S C : span6_ok B P S C = true -> forall v, s6eq (recon6 B P S C v) v.
Proof.
  unfold span6_ok. cbn [forallb]. rewrite !andb_true_iff. intros (H1 & H2 & H3 & H4 & H5 & H6 & _) v.
  apply s6eqb_true in H1, H2, H3, H4, H5, H6. unfold recon6 in *.
  eapply s6eq_trans; [apply comb6_add; [apply lin6_dots_decomp | apply csum6_decomp]|].
  eapply s6eq_trans; [apply comb6_eq; eassumption|]. apply comb6_units.
Qed.

Lemma cmul6_zero C w : s6eq w s6zero -> s6eq (cmul6 C w) s6zero.
Proof.
  destruct C as [c1 c2 c3 c4 c5 c6]. destruct c1, c2, c3, c4, c5, c6, w. s6s.
  intros (A & B & C & D & E & F). rewrite A, B, C, D, E, F. split6; ring.
Qed.

Lemma s6sub_self_eq a b : s6eq a b -> s6eq (s6sub a b) s6zero.
Proof. destruct a, b. s6s. intros (A & B & C & D & E & F). rewrite A, B, C, D, E, F. split6; ring. Qed.

Lemma csum6_inv S C v : Inv S v -> s6eq (csum6 S C v) s6zero.
Proof.
  revert C. induction S as [|g S IH]; intros C H.
  - cbn [csum6]. apply s6eq_refl.
  - destruct C as [|c C]; [cbn [csum6]; apply s6eq_refl|]. cbn [csum6].
    eapply s6eq_trans; [apply s6add_eq|apply s6add_zero_r].
    + apply cmul6_zero, s6sub_self_eq. apply H. left. reflexivity.
    + apply IH. intros g' Hg'. apply H. right. exact Hg'.
Qed.

Lemma span6_complete B P S C v : span6_ok B P S C = true -> Inv S v ->
  s6eq v (lin6 B (map (fun f => s6dot f v) P)).
Proof.
  intros H HI. pose proof (span6_ok_recon _ _ _ _ H v) as R. unfold recon6 in R.
  apply s6eq_sym. eapply s6eq_trans; [|exact R].
  apply s6eq_sym. eapply s6eq_trans; [apply s6add_eq; [apply s6eq_refl | apply csum6_inv; exact HI]|].
  apply s6add_zero_r.
Qed.

(* --- independence --------------------------------------------------------------------------- *)
Lemma s6dot_eq f u v : s6eq u v -> s6dot f u == s6dot f v.
Proof. destruct f, u, v. s6s. intros (A & B & C & D & E & F). rewrite A, B, C, D, E, F. reflexivity. Qed.

Lemma s6dot_lin f a b L : s6dot f (s6add (s6scale a b) L) == a * s6dot f b + s6dot f L.
Proof. destruct f, b, L. s6s. ring. Qed.

Lemma dot_lin6_zero f B a : (forall b, In b B -> s6dot f b == 0) -> s6dot f (lin6 B a) == 0.
Proof.
  revert a. induction B as [|b B IH]; intros a H.
  - cbn [lin6]. destruct f. s6s. ring.
  - destruct a as [|a0 a]; [cbn [lin6]; destruct f; s6s; ring|].
    cbn [lin6]. rewrite s6dot_lin. rewrite (H b (or_introl eq_refl)).
    rewrite (IH a (fun m Hm => H m (or_intror Hm))). ring.
Qed.

Lemma dual6_ok_length P B : dual6_ok P B = true -> List.length P = List.length B.
Proof.
  revert B. induction P as [|f P IH]; intros [|b B] H; try discriminate; [reflexivity|].
  cbn [dual6_ok] in H. rewrite !andb_true_iff in H. destruct H as [_ H]. cbn [List.length]. f_equal. auto.
Qed.

Lemma tail_zero a0 b L : a0 == 0 -> s6eq (s6add (s6scale a0 b) L) s6zero -> s6eq L s6zero.
Proof.
  destruct b, L. s6s. intros H (A & B & C & D & E & F). rewrite H in A, B, C, D, E, F.
  split6; [rewrite <- A|rewrite <- B|rewrite <- C|rewrite <- D|rewrite <- E|rewrite <- F]; ring.
Qed.

Lemma dual6_ok_indep P B : dual6_ok P B = true ->
  forall a, List.length a = List.length B -> s6eq (lin6 B a) s6zero -> Forall (fun q => q == 0) a.
Proof.
  revert B. induction P as [|f P IH]; intros [|b B] H a Hl Hz; try discriminate.
  - destruct a; [constructor|discriminate].
  - destruct a as [|a0 a]; [discriminate|]. cbn [dual6_ok] in H. rewrite !andb_true_iff in H.
    destruct H as [[[Hd HN] HP] Hr]. apply Qeq_bool_iff in Hd.
    assert (HN' : forall b', In b' B -> s6dot f b' == 0).
    { intros b' Hb'. rewrite forallb_forall in HN. apply Qeq_bool_iff. exact (HN b' Hb'). }
    cbn [lin6] in Hz. pose proof (dot_lin6_zero f B a HN') as D0.
    pose proof (s6dot_eq f _ _ Hz) as D1. rewrite s6dot_lin, Hd, D0 in D1.
    assert (Ha0 : a0 == 0).
    { transitivity (a0 * 1 + 0); [ring|]. rewrite D1. destruct f. s6s. ring. }
    constructor; [exact Ha0|]. apply (IH B Hr a); [cbn [List.length] in Hl; lia|].
    eapply tail_zero; eassumption.
Qed.

(* --- the projection of _findUParameters/_findeqUij ------------------------------------------- *)
Lemma projstep_lin a U V b1 b2 :
  s6eq (s6scale (frob (s6add (s6scale a U) V) b2 / frob b2 b2) b1)
       (s6add (s6scale a (s6scale (frob U b2 / frob b2 b2) b1)) (s6scale (frob V b2 / frob b2 b2) b1)).
Proof.
  unfold Qdiv. remember (/ frob b2 b2) as n. clear Heqn. destruct U, V, b1, b2. s6s. split6; ring.
Qed.

Lemma rearr a x1 x2 y1 y2 :
  s6eq (s6add (s6add (s6scale a x1) x2) (s6add (s6scale a y1) y2)) (s6add (s6scale a (s6add x1 y1)) (s6add x2 y2)).
Proof. destruct x1, x2, y1, y2. s6s. split6; ring. Qed.

Lemma projgen_lin a U V B1 B2 :
  s6eq (lin6 B1 (coefs B2 (s6add (s6scale a U) V)))
       (s6add (s6scale a (lin6 B1 (coefs B2 U))) (lin6 B1 (coefs B2 V))).
Proof.
  revert B2. induction B1 as [|b1 B1 IH]; intros B2.
  - cbn [lin6]. destruct U. s6s. split6; ring.
  - destruct B2 as [|b2 B2]; [cbn [coefs map lin6]; s6s; split6; ring|].
    unfold coefs in *. cbn [map lin6].
    eapply s6eq_trans; [apply s6add_eq; [apply projstep_lin | apply IH]|]. apply rearr.
Qed.

Lemma frob_eq U V b : s6eq U V -> frob U b == frob V b.
Proof. destruct U, V, b. s6s. intros (A & B & C & D & E & F). rewrite A, B, C, D, E, F. reflexivity. Qed.

Lemma scale_coef_eq x y b : x == y -> s6eq (s6scale x b) (s6scale y b).
Proof. destruct b. s6s. intros H. rewrite H. split6; reflexivity. Qed.

Lemma projgen_eq U V B1 B2 : s6eq U V -> s6eq (lin6 B1 (coefs B2 U)) (lin6 B1 (coefs B2 V)).
Proof.
  intros H. revert B2. induction B1 as [|b1 B1 IH]; intros B2.
  - cbn [lin6]. apply s6eq_refl.
  - destruct B2 as [|b2 B2]; [cbn [coefs map lin6]; apply s6eq_refl|].
    unfold coefs in *. cbn [map lin6]. apply s6add_eq; [|apply IH].
    apply scale_coef_eq. unfold Qdiv. rewrite (frob_eq U V b2 H). reflexivity.
Qed.

Lemma projgen_zero B1 B2 : s6eq (lin6 B1 (coefs B2 s6zero)) s6zero.
Proof.
  revert B2. induction B1 as [|b1 B1 IH]; intros B2.
  - cbn [lin6]. apply s6eq_refl.
  - destruct B2 as [|b2 B2]; [cbn [coefs map lin6]; apply s6eq_refl|].
    unfold coefs in *. cbn [map lin6].
    eapply s6eq_trans; [apply s6add_eq; [|apply IH]|apply s6add_zero_r].
    unfold Qdiv. remember (/ frob b2 b2) as n. clear Heqn. destruct b1, b2. s6s. split6; ring.
Qed.

Lemma proj_fix_span B : proj_fixes_basis B = true ->
  forall W u, (forall w, In w W -> In w B) -> s6eq (proj B (lin6 W u)) (lin6 W u).
Proof.
  intros H W. unfold proj_fixes_basis in H. rewrite forallb_forall in H.
  induction W as [|w W IH]; intros u HW.
  - cbn [lin6]. apply projgen_zero.
  - destruct u as [|a u]; [cbn [lin6]; apply projgen_zero|]. cbn [lin6]. unfold proj in *.
    eapply s6eq_trans; [apply projgen_lin|]. apply s6add_eq.
    + apply s6scale_eq. apply s6eqb_true. apply H. apply HW. left. reflexivity.
    + apply IH. intros w' Hw'. apply HW. right. exact Hw'.
Qed.

(* --- approximate clauses ---------------------------------------------------------------------- *)
Lemma qclose_QClose tol a b : qclose tol a b = true -> QClose tol a b.
Proof. unfold qclose, QClose. intros H. apply Qle_bool_iff in H. exact H. Qed.
Lemma s6close_S6Close tol a b : s6close tol a b = true -> S6Close tol a b.
Proof.
  unfold s6close, S6Close. rewrite !andb_true_iff. intros [[[[[A B] C] D] E] F].
  auto 7 using qclose_QClose.
Qed.
Lemma qlist_close_Forall2 tol a b : qlist_close tol a b = true -> Forall2 (QClose tol) a b.
Proof.
  revert b. induction a as [|x a IH]; intros [|y b] H; try discriminate; [constructor|].
  cbn [qlist_close] in H. apply andb_true_iff in H as [H1 H2]. constructor; [apply qclose_QClose; exact H1|auto].
Qed.

(* --- reading the clauses off an accepted certificate ------------------------------------------- *)
Lemma u_ok_clauses G c : u_cert_ok G c = true ->
  let S := stab G (uc_x c) in let B := uc_B c in
  basis_inv S B = true /\ dual6_ok (uc_P c) B = true /\ span6_ok B (uc_P c) S (uc_C c) = true /\
  proj_fixes_basis B = true /\ Bool.eqb (uc_iso c) (Nat.eqb (List.length B) 1) = true /\
  forallb (uform_lin_ok G B) (uc_forms c) = true /\
  qlist_close (uc_tol c) (uc_par c) (coefs B (uc_Uin c)) = true /\
  s6close (uc_tol c) (uc_Uij c) (proj B (uc_Uin c)) = true /\
  forallb (uform_val_ok G c) (uc_forms c) = true.
Proof.
  unfold u_cert_ok, u_clauses. cbn [forallb snd]. rewrite !andb_true_iff.
  intros (H1 & H2 & H3 & H4 & H5 & H6 & H7 & H8 & H9 & _). repeat split; assumption.
Qed.

Lemma basis_inv_Inv S B : basis_inv S B = true -> forall b, In b B -> Inv S b.
Proof.
  unfold basis_inv, Inv. intros H b Hb g Hg. rewrite forallb_forall in H.
  specialize (H g Hg). rewrite forallb_forall in H. apply s6eqb_true. exact (H b Hb).
Qed.

(* every member of the reported space is allowed *)
Lemma u_span_invariant G c : u_cert_ok G c = true ->
  forall u, Inv (stab G (uc_x c)) (lin6 (uc_B c) u).
Proof.
  intros Hok u g Hg. apply u_ok_clauses in Hok. cbv zeta in Hok. destruct Hok as (H1 & _).
  apply lin6_inv. intros b Hb. exact (basis_inv_Inv _ _ H1 b Hb g Hg).
Qed.

(* the reported space is the whole allowed space and its tensors are independent *)
Lemma u_span_complete G c : u_cert_ok G c = true ->
  let S := stab G (uc_x c) in let B := uc_B c in
  (forall U, Inv S U -> exists u, List.length u = List.length B /\ s6eq U (lin6 B u)) /\
  (forall u, List.length u = List.length B -> s6eq (lin6 B u) s6zero -> Forall (fun q => q == 0) u).
Proof.
  intros Hok. apply u_ok_clauses in Hok. cbv zeta in *. destruct Hok as (_ & H2 & H3 & _). split.
  - intros U HU. exists (map (fun f => s6dot f U) (uc_P c)). split.
    + rewrite map_length. apply dual6_ok_length. exact H2.
    + eapply span6_complete; eassumption.
  - apply dual6_ok_indep with (P := uc_P c). exact H2.
Qed.

(* the stored tensor of the model lies in the space; an allowed input is returned unchanged *)
Lemma u_projection G c : u_cert_ok G c = true ->
  let S := stab G (uc_x c) in let B := uc_B c in
  (forall U, Inv S (proj B U)) /\ (forall U, Inv S U -> s6eq (proj B U) U).
Proof.
  intros Hok. pose proof (u_span_invariant G c Hok) as HI. pose proof (u_span_complete G c Hok) as [HC _].
  apply u_ok_clauses in Hok. cbv zeta in *. destruct Hok as (_ & _ & _ & H4 & _). split.
  - intros U. unfold proj. apply HI.
  - intros U HU. destruct (HC U HU) as [u [_ Hu]].
    eapply s6eq_trans; [unfold proj; apply projgen_eq; exact Hu|].
    eapply s6eq_trans; [apply (proj_fix_span _ H4 (uc_B c) u); auto|]. apply s6eq_sym. exact Hu.
Qed.

(* the formulas of every equivalent position give the rotated member of the space, for all parameters *)
Lemma u_formulas G c : u_cert_ok G c = true ->
  forall f, In f (uc_forms c) -> exists g, nth_error G (uf_rep f) = Some g /\
    (forall u, s6eq (lin6 (uf_cols f) u) (conj (fst g) (lin6 (uc_B c) u))) /\
    S6Close (uc_tol c) (uf_eqU f) (conj (fst g) (uc_Uij c)) /\
    S6Close (uc_tol c) (lin6 (uf_cols f) (uc_par c)) (uf_eqU f).
Proof.
  intros Hok f Hf. apply u_ok_clauses in Hok. cbv zeta in Hok.
  destruct Hok as (_ & _ & _ & _ & _ & H6 & _ & _ & H9).
  rewrite forallb_forall in H6, H9. specialize (H6 f Hf). specialize (H9 f Hf).
  unfold uform_lin_ok, uform_val_ok in *. destruct (nth_error G (uf_rep f)) as [g|]; [|discriminate].
  apply andb_true_iff in H9 as [H9a H9b].
  exists g. split; [reflexivity|]. split; [intros u; apply ucols_match_lin; exact H6|].
  split; apply s6close_S6Close; assumption.
Qed.

Lemma u_reported_values G c : u_cert_ok G c = true ->
  Forall2 (QClose (uc_tol c)) (uc_par c) (coefs (uc_B c) (uc_Uin c)) /\
  S6Close (uc_tol c) (uc_Uij c) (proj (uc_B c) (uc_Uin c)).
Proof.
  intros Hok. apply u_ok_clauses in Hok. cbv zeta in Hok. destruct Hok as (_ & _ & _ & _ & _ & _ & H7 & H8 & _).
  split; [apply qlist_close_Forall2; exact H7 | apply s6close_S6Close; exact H8].
Qed.

Lemma u_isotropy G c : u_cert_ok G c = true -> (uc_iso c = true <-> List.length (uc_B c) = 1%nat).
Proof.
  intros Hok. apply u_ok_clauses in Hok. cbv zeta in Hok. destruct Hok as (_ & _ & _ & _ & H5 & _).
  apply Bool.eqb_prop in H5. rewrite H5. apply Nat.eqb_eq.
Qed.

(* --- rotated tensors are allowed at the rotated site -------------------------------------------- *)
Lemma conj_mmul A B U : s6eq (conj (mmul A B) U) (conj A (conj B U)).
Proof.
  destruct A as [a11 a12 a13 a21 a22 a23 a31 a32 a33], B as [b11 b12 b13 b21 b22 b23 b31 b32 b33], U.
  unfold mmul. s6s. rewrite !inject_Z_plus, !inject_Z_mult. split6; ring.
Qed.

Lemma conj_I U : s6eq (conj I3 U) U.
Proof. destruct U. unfold I3. s6s. split6; ring. Qed.

Lemma madj_l R d : mmul (mscale d (madj R)) R = mscale (d * det R)%Z I3.
Proof.
  destruct R as [r11 r12 r13 r21 r22 r23 r31 r32 r33]. apply m3_ext;
  unfold mmul, mscale, madj, det, I3; cbn [m11 m12 m13 m21 m22 m23 m31 m32 m33]; ring.
Qed.

Lemma minv_l R : (det R = 1 \/ det R = -1)%Z -> mmul (minv R) R = I3.
Proof.
  intros H. assert (D : (det R * det R = 1)%Z) by (destruct H as [H|H]; rewrite H; reflexivity).
  unfold minv. rewrite madj_l, D. reflexivity.
Qed.

Lemma rot_conj_invariant_lemma R H U : (det R = 1 \/ det R = -1)%Z ->
  s6eq (conj H U) U -> s6eq (conj (mmul (mmul R H) (minv R)) (conj R U)) (conj R U).
Proof.
  intros HD HU.
  eapply s6eq_trans; [apply conj_mmul|].
  eapply s6eq_trans; [apply conj_eq; apply s6eq_sym; apply conj_mmul|].
  rewrite (minv_l R HD).
  eapply s6eq_trans; [apply conj_eq; apply conj_I|].
  eapply s6eq_trans; [apply conj_mmul|].
  apply conj_eq. exact HU.
Qed.
