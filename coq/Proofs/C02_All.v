(* C02 - instantiation for every tabulated setting (Gen/SGTables.v is regenerated from /repo on every run). *)
From Coq Require Import ZArith List Bool Lia Permutation.
From DS Require Import Base.ZMat Base.SGDefs Model.GroupCheck Model.C02_Orbit Model.C02_Eps Gen.SGTables.
From DS Require Import Proofs.C03All Proofs.C02_Action Proofs.C02_Expand Proofs.C02_OrbitStab Proofs.C02_EpsSound.
Import ListNotations.
Open Scope Z_scope.

Lemma expand_exact_spec_tabulated : forall s D off x, In s all_settings -> 0 < D -> (12 | D) ->
  let G := sg_ops s in
  let '(pos, ops, m) := expand_exact D G off x in
  NoDup pos /\ (forall p, In p pos -> in_cell D p) /\ hd_error pos = Some (red D x) /\
  (forall p, In p pos <-> exists g, In g G /\ p = img D g off x) /\
  attribution_ok D G off x pos ops /\ Permutation (concat ops) G /\ m = List.length pos /\
  (m * List.length (stab D G off x))%nat = List.length G.
Proof.
  intros s D off x Hs HD H12. apply expand_exact_spec; [apply all_groups; exact Hs | exact HD | exact H12].
Qed.

(* Non-vacuity: a 192-operation setting, a site on a special position of a shifted-origin description,
   D = 12*10^7: 32 positions x 6 site-symmetry operations = 192. *)
Example special_site_instance : exists s, In s all_settings /\
  let G := sg_ops s in let D := 120000000 in let off := V3 30000000 30000000 30000000 in
  let x := V3 (-18000000) (-18000000) (-18000000) in
  List.length G = 192%nat /\ snd (expand_exact D G off x) = 32%nat /\ List.length (stab D G off x) = 6%nat.
Proof.
  assert (H : existsb (fun s => let G := sg_ops s in
     (List.length G =? 192)%nat &&
     (snd (expand_exact 120000000 G (V3 30000000 30000000 30000000) (V3 (-18000000) (-18000000) (-18000000))) =? 32)%nat &&
     (List.length (stab 120000000 G (V3 30000000 30000000 30000000) (V3 (-18000000) (-18000000) (-18000000))) =? 6)%nat) all_settings = true)
    by (vm_compute; reflexivity).
  apply existsb_exists in H as [s [Hs Hb]]. exists s. split; [exact Hs|].
  cbv zeta in *. rewrite !andb_true_iff, !Nat.eqb_eq in Hb. tauto.
Qed.

(* the tolerance algorithm on a tabulated setting, for a site whose distinct images are separated *)
Lemma expand_eps_spec_tabulated : forall s D off x, In s all_settings -> 0 < D -> (12 | D) ->
  separated D (sg_ops s) off x ->
  let G := sg_ops s in
  let '(pos, ops, m) := expand_eps D G off x in
  NoDup pos /\ (forall p, In p pos -> in_cell D p) /\ hd_error pos = Some (red D x) /\
  (forall p, In p pos <-> exists g, In g G /\ p = img D g off x) /\
  attribution_ok D G off x pos ops /\ Permutation (concat ops) G /\ m = List.length pos /\
  (m * List.length (stab D G off x))%nat = List.length G.
Proof.
  intros s D off x Hs HD H12 Hsep. cbv zeta. rewrite (expand_eps_exact D (sg_ops s) off x HD Hsep).
  apply (expand_exact_spec_tabulated s D off x Hs HD H12).
Qed.

(* decidable form of the separation hypothesis *)
Definition separatedb (D : Z) (G : list symop) (off x : v3) : bool :=
  let ims := map (fun g => img D g off x) G in
  forallb (fun p => forallb (fun q => v3_eqb p q || (2 * D <? 100000 * boxdist D p q)) ims) ims.

Lemma separatedb_spec D G off x : separatedb D G off x = true -> separated D G off x.
Proof.
  unfold separatedb, separated, far. cbv zeta. intros H g h Hg Hh Hne.
  rewrite forallb_forall in H. specialize (H (img D g off x) (in_map _ _ _ Hg)).
  rewrite forallb_forall in H. specialize (H (img D h off x) (in_map _ _ _ Hh)).
  apply orb_true_iff in H as [H|H]; [apply v3_eqb_eq in H; contradiction | apply Z.ltb_lt in H; exact H].
Qed.

(* Non-vacuity of the separation hypothesis: the special site of `special_site_instance`
   (32 positions in a 192-operation setting, shifted origin) is separated. *)
Example separated_instance : exists s, In s all_settings /\ List.length (sg_ops s) = 192%nat /\
  separated 120000000 (sg_ops s) (V3 30000000 30000000 30000000) (V3 (-18000000) (-18000000) (-18000000)) /\
  snd (expand_eps 120000000 (sg_ops s) (V3 30000000 30000000 30000000) (V3 (-18000000) (-18000000) (-18000000))) = 32%nat.
Proof.
  assert (H : existsb (fun s => let G := sg_ops s in
     if (List.length G =? 192)%nat then
       if (snd (expand_exact 120000000 G (V3 30000000 30000000 30000000) (V3 (-18000000) (-18000000) (-18000000))) =? 32)%nat then
         separatedb 120000000 G (V3 30000000 30000000 30000000) (V3 (-18000000) (-18000000) (-18000000)) &&
         (snd (expand_eps 120000000 G (V3 30000000 30000000 30000000) (V3 (-18000000) (-18000000) (-18000000))) =? 32)%nat
       else false else false) all_settings = true)
    by (vm_compute; reflexivity).
  apply existsb_exists in H as [s [Hs Hb]]. exists s. split; [exact Hs|].
  cbv zeta in Hb.
  destruct (List.length (sg_ops s) =? 192)%nat eqn:E1; [|discriminate]. apply Nat.eqb_eq in E1.
  destruct (snd (expand_exact 120000000 (sg_ops s) (V3 30000000 30000000 30000000) (V3 (-18000000) (-18000000) (-18000000))) =? 32)%nat; [|discriminate].
  rewrite andb_true_iff, Nat.eqb_eq in Hb. destruct Hb as [H2 H3].
  split; [exact E1|]. split; [apply separatedb_spec; exact H2 | exact H3].
Qed.

(* The hypothesis is needed: a site 1e-7 away from an inversion centre of P-1 is merged by the tolerance
   algorithm (1 position carrying both operations), the exact expansion has 2 positions. *)
Example eps_merges_within_tolerance :
  let G := [(I3, v0); (M3 (-1) 0 0 0 (-1) 0 0 0 (-1), v0)] in
  snd (expand_eps 120000000 G v0 (V3 12 0 0)) = 1%nat /\ snd (expand_exact 120000000 G v0 (V3 12 0 0)) = 2%nat.
Proof. vm_compute. split; reflexivity. Qed.
