(* C02 - instantiation for every tabulated setting (Gen/SGTables.v is regenerated from /repo on every run). *)
From Coq Require Import ZArith List Bool Lia Permutation.
From DS Require Import Base.ZMat Base.SGDefs Model.GroupCheck Model.C02_Orbit Model.C02_Eps Model.C02_Gen Model.C02_EpsTol Gen.SGTables.
From DS Require Import Proofs.C03All Proofs.C02_Action Proofs.C02_Expand Proofs.C02_OrbitStab Proofs.C02_EpsSound Proofs.C02_NearSpecial Proofs.C02_GenSound Proofs.C02_GenCheck Proofs.C02_EpsTol Proofs.C02_NearSpecialTol Proofs.C02_GenSoundTol Proofs.C02_GenCheckTol.
Import ListNotations.
Open Scope Z_scope.

Lemma expand_exact_spec_tabulated : forall s D off x, In s all_settings -> 0 < D -> (12 | D) ->
  let G := sg_ops s in
  let '(pos, ops, m) := expand_exact D G off x in
  NoDup pos /\ (forall p, In p pos -> in_cell D p) /\ hd_error pos = Some (red D x) /\
  (forall p, In p pos <-> exists g, In g G /\ p = img D g off x) /\
  attribution_ok D G off x pos ops /\ Permutation (concat ops) G /\ m = List.length pos /\
  (m * List.length (stab D G off x))%nat = List.length G.
Proof.
  intros s D off x Hs HD H12. apply expand_exact_spec; [apply all_groups; exact Hs | exact HD | exact H12].
Qed.

(* Non-vacuity: a 192-operation setting, a site on a special position of a shifted-origin description,
   D = 12*10^7: 32 positions x 6 site-symmetry operations = 192. *)
Example special_site_instance : exists s, In s all_settings /\
  let G := sg_ops s in let D := 120000000 in let off := V3 30000000 30000000 30000000 in
  let x := V3 (-18000000) (-18000000) (-18000000) in
  List.length G = 192%nat /\ snd (expand_exact D G off x) = 32%nat /\ List.length (stab D G off x) = 6%nat.
Proof.
  assert (H : existsb (fun s => let G := sg_ops s in
     (List.length G =? 192)%nat &&
     (snd (expand_exact 120000000 G (V3 30000000 30000000 30000000) (V3 (-18000000) (-18000000) (-18000000))) =? 32)%nat &&
     (List.length (stab 120000000 G (V3 30000000 30000000 30000000) (V3 (-18000000) (-18000000) (-18000000))) =? 6)%nat) all_settings = true)
    by (vm_compute; reflexivity).
  apply existsb_exists in H as [s [Hs Hb]]. exists s. split; [exact Hs|].
  cbv zeta in *. rewrite !andb_true_iff, !Nat.eqb_eq in Hb. tauto.
Qed.

(* the tolerance algorithm on a tabulated setting, for a site whose distinct images are separated *)
Lemma expand_eps_spec_tabulated : forall s D off x, In s all_settings -> 0 < D -> (12 | D) ->
  separated D (sg_ops s) off x ->
  let G := sg_ops s in
  let '(pos, ops, m) := expand_eps D G off x in
  NoDup pos /\ (forall p, In p pos -> in_cell D p) /\ hd_error pos = Some (red D x) /\
  (forall p, In p pos <-> exists g, In g G /\ p = img D g off x) /\
  attribution_ok D G off x pos ops /\ Permutation (concat ops) G /\ m = List.length pos /\
  (m * List.length (stab D G off x))%nat = List.length G.
Proof.
  intros s D off x Hs HD H12 Hsep. cbv zeta. rewrite (expand_eps_exact D (sg_ops s) off x HD Hsep).
  apply (expand_exact_spec_tabulated s D off x Hs HD H12).
Qed.

(* decidable form of the separation hypothesis *)
Definition separatedb (D : Z) (G : list symop) (off x : v3) : bool :=
  let ims := map (fun g => img D g off x) G in
  forallb (fun p => forallb (fun q => v3_eqb p q || (2 * D <? 100000 * boxdist D p q)) ims) ims.

Lemma separatedb_spec D G off x : separatedb D G off x = true -> separated D G off x.
Proof.
  unfold separatedb, separated, far. cbv zeta. intros H g h Hg Hh Hne.
  rewrite forallb_forall in H. specialize (H (img D g off x) (in_map _ _ _ Hg)).
  rewrite forallb_forall in H. specialize (H (img D h off x) (in_map _ _ _ Hh)).
  apply orb_true_iff in H as [H|H]; [apply v3_eqb_eq in H; contradiction | apply Z.ltb_lt in H; exact H].
Qed.

(* Non-vacuity of the separation hypothesis: the special site of `special_site_instance`
   (32 positions in a 192-operation setting, shifted origin) is separated. *)
Example separated_instance : exists s, In s all_settings /\ List.length (sg_ops s) = 192%nat /\
  separated 120000000 (sg_ops s) (V3 30000000 30000000 30000000) (V3 (-18000000) (-18000000) (-18000000)) /\
  snd (expand_eps 120000000 (sg_ops s) (V3 30000000 30000000 30000000) (V3 (-18000000) (-18000000) (-18000000))) = 32%nat.
Proof.
  assert (H : existsb (fun s => let G := sg_ops s in
     if (List.length G =? 192)%nat then
       if (snd (expand_exact 120000000 G (V3 30000000 30000000 30000000) (V3 (-18000000) (-18000000) (-18000000))) =? 32)%nat then
         separatedb 120000000 G (V3 30000000 30000000 30000000) (V3 (-18000000) (-18000000) (-18000000)) &&
         (snd (expand_eps 120000000 G (V3 30000000 30000000 30000000) (V3 (-18000000) (-18000000) (-18000000))) =? 32)%nat
       else false else false) all_settings = true)
    by (vm_compute; reflexivity).
  apply existsb_exists in H as [s [Hs Hb]]. exists s. split; [exact Hs|].
  cbv zeta in Hb.
  destruct (List.length (sg_ops s) =? 192)%nat eqn:E1; [|discriminate]. apply Nat.eqb_eq in E1.
  destruct (snd (expand_exact 120000000 (sg_ops s) (V3 30000000 30000000 30000000) (V3 (-18000000) (-18000000) (-18000000))) =? 32)%nat; [|discriminate].
  rewrite andb_true_iff, Nat.eqb_eq in Hb. destruct Hb as [H2 H3].
  split; [exact E1|]. split; [apply separatedb_spec; exact H2 | exact H3].
Qed.

(* The hypothesis is needed: a site 1e-7 away from an inversion centre of P-1 is merged by the tolerance
   algorithm (1 position carrying both operations), the exact expansion has 2 positions. *)
Example eps_merges_within_tolerance :
  let G := [(I3, v0); (M3 (-1) 0 0 0 (-1) 0 0 0 (-1), v0)] in
  snd (expand_eps 120000000 G v0 (V3 12 0 0)) = 1%nat /\ snd (expand_exact 120000000 G v0 (V3 12 0 0)) = 2%nat.
Proof. vm_compute. split; reflexivity. Qed.

(* ---- sites within tolerance of a special position ---- *)
Lemma stab_head_ident D G off y : IsGroup G -> exists l, stab D G off y = ident :: l.
Proof.
  intros HG. pose proof (g_id_first G HG) as Hf. destruct G as [|o r]; cbn in Hf; [discriminate|]. inversion Hf; subst o.
  unfold stab. cbn [filter]. unfold fixes at 1. rewrite img_ident, v3_eqb_refl. eexists. reflexivity.
Qed.

(* full statement for a site x within tolerance of x0, any group list *)
Lemma near_special_spec D G off x x0 : IsGroup G -> 0 < D -> (12 | D) ->
  within_tol D G off x x0 -> between_far D G off x x0 ->
  let '(pos0, ops0, m0) := expand_exact D G off x0 in
  expand_eps D G off x = (map (rep_of D off x) ops0, ops0, m0) /\
  hd_error (map (rep_of D off x) ops0) = Some (red D x) /\
  (forall l, In l ops0 -> exists g, In g l /\ rep_of D off x l = img D g off x) /\
  attribution_ok D G off x0 pos0 ops0 /\ Permutation (concat ops0) G /\
  (m0 * List.length (stab D G off x0))%nat = List.length G.
Proof.
  intros HG HD H12 Hw Hb.
  pose proof (expand_eps_near_special D G off x x0 HD Hw Hb) as Hn.
  pose proof (expand_exact_spec D G off x0 HG HD H12) as Hs.
  destruct (expand_exact D G off x0) as [[pos0 ops0] m0].
  destruct Hs as [_ [_ [Hhd [Hpos [Hattr [Hperm [_ Hos]]]]]]].
  split; [exact Hn|]. split; [|split; [|split; [exact Hattr | split; [exact Hperm | exact Hos]]]].
  - destruct Hattr as [Hops _]. destruct pos0 as [|p0 r]; cbn [hd_error] in Hhd; [discriminate|]. inversion Hhd; subst p0.
    rewrite Hops. cbn [map hd_error]. change (fibre D G off x0 (red D x0)) with (stab D G off x0).
    destruct (stab_head_ident D G off x0 HG) as [l ->]. unfold rep_of. cbn [hd]. rewrite img_ident. reflexivity.
  - intros l Hl. destruct Hattr as [Hops _]. rewrite Hops in Hl. apply in_map_iff in Hl as [p [<- Hp]].
    apply Hpos in Hp as [g [Hg Hpg]].
    assert (Hin : In g (fibre D G off x0 p)) by (unfold fibre; apply filter_In; split; [exact Hg | unfold sends; apply v3_eqb_eq; symmetry; exact Hpg]).
    destruct (fibre D G off x0 p) as [|g1 t]; [destruct Hin|]. exists g1. split; [left; reflexivity | reflexivity].
Qed.

Lemma near_special_spec_tabulated : forall s D off x x0, In s all_settings -> 0 < D -> (12 | D) ->
  within_tol D (sg_ops s) off x x0 -> between_far D (sg_ops s) off x x0 ->
  let G := sg_ops s in
  let '(pos0, ops0, m0) := expand_exact D G off x0 in
  expand_eps D G off x = (map (rep_of D off x) ops0, ops0, m0) /\
  hd_error (map (rep_of D off x) ops0) = Some (red D x) /\
  (forall l, In l ops0 -> exists g, In g l /\ rep_of D off x l = img D g off x) /\
  attribution_ok D G off x0 pos0 ops0 /\ Permutation (concat ops0) G /\
  (m0 * List.length (stab D G off x0))%nat = List.length G.
Proof. intros s D off x x0 Hs HD H12 Hw Hb. apply near_special_spec; try assumption. apply all_groups; exact Hs. Qed.

(* Non-vacuity of within_tol / between_far on a tabulated 48-operation setting: a site 3.5e-6 away from
   (1/2,1/2,1/2), whose site symmetry has 48 operations (multiplicity 1). *)
Example near_special_instance : exists s, In s all_settings /\ List.length (sg_ops s) = 48%nat /\
  List.length (stab 10000000 (sg_ops s) v0 (V3 5000000 5000000 5000000)) = 48%nat /\
  within_tol 10000000 (sg_ops s) v0 (V3 5000035 4999991 4999976) (V3 5000000 5000000 5000000) /\
  between_far 10000000 (sg_ops s) v0 (V3 5000035 4999991 4999976) (V3 5000000 5000000 5000000).
Proof.
  assert (H : existsb (fun s => let G := sg_ops s in
     if (List.length G =? 48)%nat then
       if (List.length (stab 10000000 G v0 (V3 5000000 5000000 5000000)) =? 48)%nat then
         near_special_b 10000000 G v0 (V3 5000035 4999991 4999976) (V3 5000000 5000000 5000000)
       else false else false) all_settings = true)
    by (vm_compute; reflexivity).
  apply existsb_exists in H as [s [Hs Hb]]. exists s. split; [exact Hs|]. cbv zeta in Hb.
  destruct (List.length (sg_ops s) =? 48)%nat eqn:E1; [|discriminate]. apply Nat.eqb_eq in E1.
  destruct (List.length (stab 10000000 (sg_ops s) v0 (V3 5000000 5000000 5000000)) =? 48)%nat eqn:E2; [|discriminate]. apply Nat.eqb_eq in E2.
  apply near_special_b_spec in Hb as [Hw Hbt]. repeat split; assumption.
Qed.

(* GeneratorSite on tabulated settings *)
Lemma snap_identity_tabulated : forall s D off x, In s all_settings -> 0 < D -> (12 | D) -> separated D (sg_ops s) off x ->
  generator_site D (sg_ops s) off x =
  let '(pos, ops, m) := expand_exact D (sg_ops s) off x in Some (GSite D x off pos ops m (stab D (sg_ops s) off x)).
Proof. intros s D off x Hs HD H12 Hsep. apply snap_identity_on_exact_sites; try assumption. apply all_groups; exact Hs. Qed.

Lemma snap_fixes_tabulated : forall s D off x x0, In s all_settings -> 0 < D -> (12 | D) ->
  snap_hyps_b D (sg_ops s) off x x0 = true ->
  let G := sg_ops s in
  let n := Z.of_nat (List.length (stab D G off x0)) in
  let xs := snapped_site D G off x x0 in
  generator_site D G off x =
    (let '(pos, ops, m) := expand_exact (D * n) G (vscale n off) xs in
     Some (GSite (D * n) xs (vscale n off) pos ops m (stab (D * n) G (vscale n off) xs)))
  /\ incl (stab D G off x0) (stab (D * n) G (vscale n off) xs).
Proof. intros s D off x x0 Hs HD H12 Hb. apply snap_fixes_site_checked; try assumption. apply all_groups; exact Hs. Qed.

(* ---- any tolerances (eps argument) ---- *)
Lemma near_special_spec_t T D G off x x0 : tol_wf T -> IsGroup G -> 0 < D -> (12 | D) ->
  within_tol_t T D G off x x0 -> between_far_t T D G off x x0 ->
  let '(pos0, ops0, m0) := expand_exact D G off x0 in
  expand_eps_t T D G off x = (map (rep_of_t D off x) ops0, ops0, m0) /\
  hd_error (map (rep_of_t D off x) ops0) = Some (red D x) /\
  (forall l, In l ops0 -> exists g, In g l /\ rep_of_t D off x l = img D g off x) /\
  attribution_ok D G off x0 pos0 ops0 /\ Permutation (concat ops0) G /\
  (m0 * List.length (stab D G off x0))%nat = List.length G.
Proof.
  intros Hwf HG HD H12 Hw Hb.
  pose proof (expand_eps_near_special_t T Hwf D G off x x0 HD Hw Hb) as Hn.
  pose proof (expand_exact_spec D G off x0 HG HD H12) as Hs.
  destruct (expand_exact D G off x0) as [[pos0 ops0] m0].
  destruct Hs as [_ [_ [Hhd [Hpos [Hattr [Hperm [_ Hos]]]]]]].
  split; [exact Hn|]. split; [|split; [|split; [exact Hattr | split; [exact Hperm | exact Hos]]]].
  - destruct Hattr as [Hops _]. destruct pos0 as [|p0 r]; cbn [hd_error] in Hhd; [discriminate|]. inversion Hhd; subst p0.
    rewrite Hops. cbn [map hd_error]. change (fibre D G off x0 (red D x0)) with (stab D G off x0).
    destruct (stab_head_ident D G off x0 HG) as [l ->]. unfold rep_of_t. cbn [hd]. rewrite img_ident. reflexivity.
  - intros l Hl. destruct Hattr as [Hops _]. rewrite Hops in Hl. apply in_map_iff in Hl as [p [<- Hp]].
    apply Hpos in Hp as [g [Hg Hpg]].
    assert (Hin : In g (fibre D G off x0 p)) by (unfold fibre; apply filter_In; split; [exact Hg | unfold sends; apply v3_eqb_eq; symmetry; exact Hpg]).
    destruct (fibre D G off x0 p) as [|g1 t]; [destruct Hin|]. exists g1. split; [left; reflexivity | reflexivity].
Qed.

Lemma near_special_spec_t_tabulated : forall T s D off x x0, tol_wf T -> In s all_settings -> 0 < D -> (12 | D) ->
  within_tol_t T D (sg_ops s) off x x0 -> between_far_t T D (sg_ops s) off x x0 ->
  let G := sg_ops s in
  let '(pos0, ops0, m0) := expand_exact D G off x0 in
  expand_eps_t T D G off x = (map (rep_of_t D off x) ops0, ops0, m0) /\
  hd_error (map (rep_of_t D off x) ops0) = Some (red D x) /\
  (forall l, In l ops0 -> exists g, In g l /\ rep_of_t D off x l = img D g off x) /\
  attribution_ok D G off x0 pos0 ops0 /\ Permutation (concat ops0) G /\
  (m0 * List.length (stab D G off x0))%nat = List.length G.
Proof. intros T s D off x x0 Hwf Hs HD H12 Hw Hb. apply near_special_spec_t; try assumption. apply all_groups; exact Hs. Qed.

Lemma snap_fixes_tabulated_t : forall T s D off x x0, tol_wf T -> In s all_settings -> 0 < D -> (12 | D) ->
  snap_hyps_tb T D (sg_ops s) off x x0 = true ->
  let G := sg_ops s in
  let n := Z.of_nat (List.length (stab D G off x0)) in
  let xs := snapped_site D G off x x0 in
  generator_site_t T D G off x =
    (let '(pos, ops, m) := expand_exact (D * n) G (vscale n off) xs in
     Some (GSite (D * n) xs (vscale n off) pos ops m (stab (D * n) G (vscale n off) xs)))
  /\ incl (stab D G off x0) (stab (D * n) G (vscale n off) xs).
Proof. intros T s D off x x0 Hwf Hs HD H12 Hb. apply snap_fixes_site_t_checked; try assumption. apply all_groups; exact Hs. Qed.

Lemma expand_asym_tabulated_t : forall T s D off sites, tol_wf T -> In s all_settings -> 0 < D -> (12 | D) ->
  (forall y, In y sites -> separated_t T D (sg_ops s) off y) ->
  expand_asym_t T D (sg_ops s) off sites =
  Some (Asym (map (fun y => snd (expand_exact D (sg_ops s) off y)) sites)
             (map (fun y => (D, fst (fst (expand_exact D (sg_ops s) off y)))) sites)).
Proof. intros T s D off sites Hwf Hs HD H12 Hsep. apply expand_asym_exact_sites_t; try assumption. apply all_groups; exact Hs. Qed.

(* with eps = 0 ExpandAsymmetricUnit is exact on EVERY list of sites *)
Lemma expand_asym_eps_zero : forall s D off sites, In s all_settings -> 0 < D -> (12 | D) ->
  expand_asym_t (tol_of (Some (0, 1))) D (sg_ops s) off sites =
  Some (Asym (map (fun y => snd (expand_exact D (sg_ops s) off y)) sites)
             (map (fun y => (D, fst (fst (expand_exact D (sg_ops s) off y)))) sites)).
Proof.
  intros s D off sites Hs HD H12. apply expand_asym_tabulated_t; try assumption.
  - exact T_0_wf.
  - intros y _. apply exact_mode_separated; [exact tol_zero_exact | exact HD].
Qed.
