(* C02 - instantiation for every tabulated setting (Gen/SGTables.v is regenerated from /repo on every run). *)
From Coq Require Import ZArith List Bool Lia Permutation.
From DS Require Import Base.ZMat Base.SGDefs Model.GroupCheck Model.C02_Orbit Gen.SGTables.
From DS Require Import Proofs.C03All Proofs.C02_Action Proofs.C02_Expand Proofs.C02_OrbitStab.
Import ListNotations.
Open Scope Z_scope.

Lemma expand_exact_spec_tabulated : forall s D off x, In s all_settings -> 0 < D -> (12 | D) ->
  let G := sg_ops s in
  let '(pos, ops, m) := expand_exact D G off x in
  NoDup pos /\ (forall p, In p pos -> in_cell D p) /\ hd_error pos = Some (red D x) /\
  (forall p, In p pos <-> exists g, In g G /\ p = img D g off x) /\
  attribution_ok D G off x pos ops /\ Permutation (concat ops) G /\ m = List.length pos /\
  (m * List.length (stab D G off x))%nat = List.length G.
Proof.
  intros s D off x Hs HD H12. apply expand_exact_spec; [apply all_groups; exact Hs | exact HD | exact H12].
Qed.

(* Non-vacuity: a 192-operation setting, a site on a special position of a shifted-origin description,
   D = 12*10^7: 32 positions x 6 site-symmetry operations = 192. *)
Example special_site_instance : exists s, In s all_settings /\
  let G := sg_ops s in let D := 120000000 in let off := V3 30000000 30000000 30000000 in
  let x := V3 (-18000000) (-18000000) (-18000000) in
  List.length G = 192%nat /\ snd (expand_exact D G off x) = 32%nat /\ List.length (stab D G off x) = 6%nat.
Proof.
  assert (H : existsb (fun s => let G := sg_ops s in
     (List.length G =? 192)%nat &&
     (snd (expand_exact 120000000 G (V3 30000000 30000000 30000000) (V3 (-18000000) (-18000000) (-18000000))) =? 32)%nat &&
     (List.length (stab 120000000 G (V3 30000000 30000000 30000000) (V3 (-18000000) (-18000000) (-18000000))) =? 6)%nat) all_settings = true)
    by (vm_compute; reflexivity).
  apply existsb_exists in H as [s [Hs Hb]]. exists s. split; [exact Hs|].
  cbv zeta in *. rewrite !andb_true_iff, !Nat.eqb_eq in Hb. tauto.
Qed.
