(* Kernel decision of the group axioms for shard 5 of the regenerated tables. *)
From Coq Require Import ZArith List Bool.
From DS Require Import Base.ZMat Base.SGDefs Model.GroupCheck Gen.SGTables5.
Lemma shard5_groups : forallb setting_group_ok shard5 = true.
Proof. vm_compute. reflexivity. Qed.
