(* C13 - lemmas shared by the per-format proofs (no dependence on any one format's model). *)
From Coq Require Import List Bool Arith ZArith Lia.
From DS Require Import Base.C13_Exn Gen.C13_ExcSpec Model.C13_Common Proofs.C13_ExnLemmas.
From Coq Require Import Ascii String.
Import ListNotations.

Lemma reraise_handler_raises : forall A hk k, exists k', @reraise_handler A hk k = Raise k'.
Proof. intros A [| |] k; simpl; eexists; reflexivity. Qed.

Lemma try_reraise_ok : forall A (m : res A) c hk a,
  try_catch m c (reraise_handler hk) = Ok a -> m = Ok a.
Proof.
  intros A [x | k] c hk a H; simpl in H; [assumption |].
  destruct (catches c k); [| discriminate].
  destruct (reraise_handler_raises A hk k) as [k' E]. rewrite E in H. discriminate.
Qed.

Lemma In_skipn : forall A n (l : list A) a, In a (skipn n l) -> In a l.
Proof. intros A n l a H. rewrite <- (firstn_skipn n l). apply in_or_app; right; assumption. Qed.

Lemma In_firstn : forall A n (l : list A) a, In a (firstn n l) -> In a l.
Proof. intros A n l a H. rewrite <- (firstn_skipn n l). apply in_or_app; left; assumption. Qed.

Lemma In_slice : forall A (l : list A) a b x, In x (slice l a b) -> In x l.
Proof. intros A l a b x H. unfold slice in H. apply In_firstn in H. apply In_skipn in H. assumption. Qed.

Lemma trim_stop_ok : forall fuel lf start stop, stop <= List.length lf ->
  exists s, trim_stop fuel lf start stop = Ok s /\ s <= stop.
Proof.
  induction fuel as [| fuel IH]; intros lf start stop H; simpl.
  - exists stop; split; [reflexivity | lia].
  - destruct (Nat.ltb start stop) eqn:E.
    + apply Nat.ltb_lt in E.
      destruct (idx_ok _ lf (stop - 1)) as [f Hf]; [lia |]. rewrite Hf; simpl.
      destruct (is_nil f).
      * destruct (IH lf start (stop - 1)) as [s [Hs Hle]]; [lia |]. exists s; split; [assumption | lia].
      * exists stop; split; [reflexivity | lia].
    + exists stop; split; [reflexivity | lia].
Qed.

Lemma trim_blank_within : forall isblank fuel lines stop ks, In IndexError ks -> within ks (trim_blank isblank fuel lines stop).
Proof.
  induction fuel as [| fuel IH]; intros lines stop ks H; simpl; [exact I |].
  destruct (Nat.ltb 0 stop); [| exact I].
  apply within_bind; [apply within_idx; assumption |]. intros l _. destruct (isblank l); [apply IH; assumption | exact I].
Qed.

Lemma within_next_line : forall ks rest, In StopIteration ks -> within ks (next_line rest).
Proof. intros ks [| l r] H; simpl; auto. Qed.

Lemma within_str_head : forall ks s, In IndexError ks -> within ks (str_head s).
Proof. intros ks [| c s] H; simpl; auto. Qed.

(* take apart a hypothesis  <monadic term> = Ok _ *)
Ltac inv_ok H :=
  repeat match type of H with
  | bind ?m _ = Ok _ => let E := fresh "E" in destruct m eqn:E; cbn [bind] in H; [| discriminate H]
  | (if ?b then _ else _) = Ok _ => let E := fresh "E" in destruct b eqn:E; try discriminate H
  | match ?x with _ => _ end = Ok _ => let E := fresh "E" in destruct x eqn:E; try discriminate H
  end.

