(* C05/C06 - the custom-symbol translation replaces exactly the parameter symbols of a well-formed formula,
   whatever the user's symbols are (also when one standard symbol is a prefix of another: x1 / x10). *)
From Coq Require Import Ascii List Bool Arith Lia.
From DS Require Import Model.C05_SymTrans.
Import ListNotations.

Section Sound.
  Variable start : ascii -> bool.
  Variable mind : nat.
  Variable tr : chars -> option chars.
  Notation scan := (scan start mind tr).
  Notation flush := (flush mind tr).
  Notation wf := (wf start mind).
  Notation rename1 := (rename1 tr).

  Lemma last_word_cons pw c s : last_word pw (c :: s) = last_word (is_word c) s.
  Proof.
    unfold last_word. cbn [rev]. destruct (rev s) as [|d r] eqn:E; cbn [app]; reflexivity.
  Qed.

  (* text without start letters is copied *)
  Lemma scan_text s : forall pw r, Forall (fun c => start c = false) s ->
    scan (Plain pw) (s ++ r) = s ++ scan (Plain (last_word pw s)) r.
  Proof.
    induction s as [|c s IH]; intros pw r H; [reflexivity|].
    inversion H as [|? ? Hc Hs]; subst. cbn [app scan]. rewrite Hc, andb_false_r.
    rewrite IH by exact Hs. rewrite last_word_cons. reflexivity.
  Qed.

  (* digits are all taken *)
  Lemma scan_digits d : forall acc n r, Forall (fun c => is_digit c = true) d ->
    scan (Tok acc n) (d ++ r) = scan (Tok (acc ++ d) (n + List.length d)) r.
  Proof.
    induction d as [|c d IH]; intros acc n r H.
    - cbn [app List.length]. rewrite app_nil_r, Nat.add_0_r. reflexivity.
    - inversion H as [|? ? Hc Hd]; subst. cbn [app scan]. rewrite Hc. rewrite IH by exact Hd.
      rewrite <- app_assoc. cbn [app List.length]. rewrite Nat.add_succ_r. reflexivity.
  Qed.

  Lemma scan_token_end acc n r : (r = [] \/ exists c r', r = c :: r' /\ is_digit c = false) ->
    scan (Tok acc n) r = flush acc n ++ scan (Plain true) r.
  Proof.
    intros [->|[c [r' [-> Hc]]]]; [cbn [scan]; rewrite app_nil_r; reflexivity|].
    cbn [scan]. rewrite Hc. cbn [negb andb]. reflexivity.
  Qed.

  Theorem scan_render l : forall pw, wf pw l -> scan (Plain pw) (render l) = render (map rename1 l).
  Proof.
    induction l as [|ch l IH]; intros pw H; [reflexivity|].
    destruct ch as [s|lt d]; cbn [wf] in H.
    - destruct H as (_ & Hs & Hw). unfold render. cbn [map concat render1 rename1]. fold (render l). fold (render (map rename1 l)).
      rewrite scan_text by exact Hs. rewrite IH by exact Hw. reflexivity.
    - destruct H as (-> & Hst & Hnd & Hd & Hm & Hnext & Hw).
      unfold render. cbn [map concat render1]. fold (render l).
      cbn [app scan negb andb]. rewrite Hst. rewrite scan_digits by exact Hd. cbn [app Nat.add].
      rewrite scan_token_end.
      + rewrite IH by exact Hw. unfold C05_SymTrans.flush. apply Nat.leb_le in Hm. rewrite Hm.
        cbn [rename1]. destruct (tr (lt :: d)) as [u|]; cbn [render1 concat map]; reflexivity.
      + destruct l as [|[[|c s]|? ?] l']; cbn in Hnext; try contradiction; [left; reflexivity|].
        right. exists c, (s ++ render l'). split; [reflexivity | exact Hnext].
  Qed.

  Corollary translate_render l : wf false l -> translate start mind tr (render l) = render (map rename1 l).
  Proof. apply scan_render. Qed.
End Sound.

(* non-vacuity and the prefix case: x1 and x10 in one formula *)
From Coq Require Import String.
Definition ch (s : string) : chars := list_ascii_of_string s.
Definition ex_dict (k : chars) : option chars :=
  if list_eq_dec ascii_dec k (ch "x1") then Some (ch "sab")
  else if list_eq_dec ascii_dec k (ch "x10") then Some (ch "sak") else None.
Definition ex_chunks : list chunk :=
  [Txt (ch "+2*"); Sym "x"%char (ch "10"); Txt (ch " -"); Sym "x"%char (ch "1"); Txt (ch " +0.5")].

Definition ex_formula : chars := ch "+2*x10 -x1 +0.5".
Definition ex_translated : chars := ch "+2*sak -sab +0.5".
Example translate_example :
  wf is_xyz 1 false ex_chunks /\ render ex_chunks = ex_formula /\ translate_xyz ex_dict ex_formula = ex_translated.
Proof. split; [cbn; repeat (split; try (repeat constructor); try discriminate; try lia) | split; vm_compute; reflexivity]. Qed.
