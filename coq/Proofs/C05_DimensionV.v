(* C05/C06 - dimension theorem for a vector type with a "linear combination of a list" function (lin for q3, lin6 for s6):
   an independent family inside the span of N has at most |N| members; two bases have the same length. *)
From Coq Require Import ZArith QArith List Bool Lia.
From DS Require Import Proofs.C05_Dimension.
Import ListNotations.
Open Scope Q_scope.

Lemma F2_length (A B : Type) (R : A -> B -> Prop) l1 l2 : Forall2 R l1 l2 -> List.length l1 = List.length l2.
Proof. induction 1; cbn; auto. Qed.

Section VectorSpace.
  Variable V : Type.
  Variable eqV : V -> V -> Prop.
  Variable add : V -> V -> V.
  Variable scale : Q -> V -> V.
  Variable zero : V.
  Variable L : list V -> list Q -> V.
  Hypothesis eq_refl' : forall u, eqV u u.
  Hypothesis eq_sym' : forall u v, eqV u v -> eqV v u.
  Hypothesis eq_trans' : forall u v w, eqV u v -> eqV v w -> eqV u w.
  Hypothesis add_eq : forall u u' v v', eqV u u' -> eqV v v' -> eqV (add u v) (add u' v').
  Hypothesis scale_eq : forall x y u v, x == y -> eqV u v -> eqV (scale x u) (scale y v).
  Hypothesis add_zero_l : forall u, eqV (add zero u) u.
  Hypothesis add_comm' : forall u v, eqV (add u v) (add v u).
  Hypothesis add_assoc' : forall u v w, eqV (add (add u v) w) (add u (add v w)).
  Hypothesis scale_add : forall x u v, eqV (scale x (add u v)) (add (scale x u) (scale x v)).
  Hypothesis scale_plus : forall x y u, eqV (scale (x + y) u) (add (scale x u) (scale y u)).
  Hypothesis scale_scale : forall x y u, eqV (scale x (scale y u)) (scale (x * y) u).
  Hypothesis scale_0 : forall u, eqV (scale 0 u) zero.
  Hypothesis scale_zero : forall x, eqV (scale x zero) zero.
  Hypothesis L_nil_l : forall p, L [] p = zero.
  Hypothesis L_nil_r : forall N, L N [] = zero.
  Hypothesis L_cons : forall n N a p, L (n :: N) (a :: p) = add (scale a n) (L N p).

  Lemma add_zero_r' u : eqV (add u zero) u.
  Proof. eapply eq_trans'; [apply add_comm' | apply add_zero_l]. Qed.

  Lemma L_veq N : forall u w, veq u w -> eqV (L N u) (L N w).
  Proof.
    induction N as [|n N IH]; intros u w H; [rewrite !L_nil_l; apply eq_refl'|].
    destruct H; [rewrite !L_nil_r; apply eq_refl'|]. rewrite !L_cons.
    apply add_eq; [apply scale_eq; [assumption | apply eq_refl'] | apply IH; assumption].
  Qed.

  Lemma L_zero N k : eqV (L N (vzero k)) zero.
  Proof.
    revert k. induction N as [|n N IH]; intros k; [rewrite L_nil_l; apply eq_refl'|].
    destruct k; cbn [vzero repeat]; [rewrite L_nil_r; apply eq_refl'|]. rewrite L_cons.
    eapply eq_trans'; [apply add_eq; [apply scale_0 | apply IH]|]. apply add_zero_l.
  Qed.

  Lemma L_scale N x : forall u, eqV (L N (vscale x u)) (scale x (L N u)).
  Proof.
    induction N as [|n N IH]; intros u; [rewrite !L_nil_l; apply eq_sym', scale_zero|].
    destruct u as [|a u]; cbn [vscale map]; [rewrite !L_nil_r; apply eq_sym', scale_zero|]. rewrite !L_cons.
    eapply eq_trans'; [apply add_eq; [apply eq_sym', scale_scale | apply IH]|]. apply eq_sym', scale_add.
  Qed.

  Lemma L_add N : forall u w, List.length u = List.length w ->
    eqV (L N (vadd u w)) (add (L N u) (L N w)).
  Proof.
    induction N as [|n N IH]; intros u w Hl; [rewrite !L_nil_l; apply eq_sym', add_zero_l|].
    destruct u as [|a u], w as [|b w]; cbn in Hl; try lia; cbn [vadd]; [rewrite !L_nil_r; apply eq_sym', add_zero_l|].
    rewrite !L_cons. eapply eq_trans'; [apply add_eq; [apply scale_plus | apply IH; lia]|].
    (* (A + B) + (C + D) = (A + C) + (B + D) *)
    set (A := scale a n). set (B := scale b n). set (C := L N u). set (D := L N w).
    eapply eq_trans'; [apply add_assoc'|]. eapply eq_trans'; [|apply eq_sym', add_assoc'].
    apply add_eq; [apply eq_refl'|].
    eapply eq_trans'; [apply eq_sym', add_assoc'|]. eapply eq_trans'; [apply add_eq; [apply add_comm' | apply eq_refl']|].
    apply add_assoc'.
  Qed.

  (* a family M whose members are combinations of N with coefficient vectors A *)
  Lemma L_lcomb N k : List.length N = k -> forall M A c, Forall2 (fun m a => eqV m (L N a)) M A -> width k A ->
    List.length c = List.length M -> eqV (L M c) (L N (lcomb k c A)).
  Proof.
    intros Hk M A c H. revert c. induction H as [|m a M A Hm HF IH]; intros c W Hl.
    - destruct c; [|discriminate]. cbn [lcomb]. rewrite L_nil_l. apply eq_sym', L_zero.
    - destruct c as [|x c]; [discriminate|]. cbn [lcomb]. rewrite L_cons. inversion W as [|a0 A0 Ha WA]; subst a0 A0.
      eapply eq_trans'; [|apply eq_sym', L_add].
      + apply add_eq; [|apply IH; [assumption | cbn in Hl; lia]].
        eapply eq_trans'; [apply scale_eq; [reflexivity | exact Hm]|]. apply eq_sym', L_scale.
      + rewrite vscale_length, Ha. symmetry. apply lcomb_length. exact WA.
  Qed.

  Definition Independent (M : list V) : Prop :=
    forall c, List.length c = List.length M -> eqV (L M c) zero -> allzero c.
  Definition InSpan (N : list V) (m : V) : Prop := exists a, List.length a = List.length N /\ eqV m (L N a).

  Lemma coefficient_list N M : (forall m, In m M -> InSpan N m) ->
    exists A, Forall2 (fun m a => eqV m (L N a)) M A /\ width (List.length N) A.
  Proof.
    induction M as [|m M IH]; intros H; [exists []; split; constructor|].
    destruct (H m (or_introl eq_refl)) as [a [Ha Hm]].
    destruct (IH (fun m' Hm' => H m' (or_intror Hm'))) as [A [HF HW]].
    exists (a :: A). split; constructor; assumption.
  Qed.

  Theorem independent_in_span_is_short N M :
    (forall m, In m M -> InSpan N m) -> Independent M -> (List.length M <= List.length N)%nat.
  Proof.
    intros Hs Hi. destruct (le_lt_dec (List.length M) (List.length N)) as [H|H]; [exact H|exfalso].
    destruct (coefficient_list N M Hs) as [A [HF HW]].
    assert (HL : List.length A = List.length M) by (symmetry; eapply F2_length; exact HF).
    assert (HA : (List.length N < List.length A)%nat) by (rewrite HL; exact H).
    destruct (more_vectors_than_coordinates_are_dependent (List.length N) A HW HA) as [c (Hl & Hnz & Hz)].
    assert (HC : List.length c = List.length M) by (exact (eq_trans Hl HL)).
    apply Hnz. apply Hi; [exact HC|].
    eapply eq_trans'; [apply (L_lcomb N (List.length N) eq_refl M A c HF HW HC)|].
    eapply eq_trans'; [apply L_veq; exact Hz | apply L_zero].
  Qed.

  Corollary bases_have_the_same_length N M :
    (forall m, In m M -> InSpan N m) -> (forall n, In n N -> InSpan M n) -> Independent M -> Independent N ->
    List.length M = List.length N.
  Proof. intros A B C D. apply Nat.le_antisymm; apply independent_in_span_is_short; assumption. Qed.
End VectorSpace.
