(* C04 - discus: round trip, idempotence of canon, no drift (Bisoequiv re-derived through an abstract
   float conversion that keeps grid values on the grid). *)
From Coq Require Import List Bool Arith NArith ZArith Lia.
From Coq Require Import Ascii.
From DS Require Import Base.C04_Text Base.C04_Decimal Model.C04_Fmt Gen.C04_FmtSpecs Model.C04_Xyz Model.C04_Pdffit Model.C04_Discus.
From DS Require Import Proofs.C04_Fmt Proofs.C04_GenIdem Proofs.C04_NoDrift Proofs.C04_Xyz Proofs.C04_Lines Proofs.C04_Pdffit.
Import ListNotations.

Local Opaque fix_body int_body lpad rpad parse_float parse_int strip lstrip rstrip print_gen.

Definition dset_title h v := DHdr v (dh_spcgr h) (dh_sphere h) (dh_stepcut h) (dh_cell h) (dh_ncell h).
Definition dset_spcgr h v := DHdr (dh_title h) v (dh_sphere h) (dh_stepcut h) (dh_cell h) (dh_ncell h).
Definition dset_sphere h v := DHdr (dh_title h) (dh_spcgr h) v (dh_stepcut h) (dh_cell h) (dh_ncell h).
Definition dset_stepcut h v := DHdr (dh_title h) (dh_spcgr h) (dh_sphere h) v (dh_cell h) (dh_ncell h).
Definition dset_cell h v := DHdr (dh_title h) (dh_spcgr h) (dh_sphere h) (dh_stepcut h) (Some v) (dh_ncell h).
Definition dset_ncell h v := DHdr (dh_title h) (dh_spcgr h) (dh_sphere h) (dh_stepcut h) (dh_cell h) (Some v).

Lemma dstep_title h ttl : dstep h (strip (discus_w_title ++ ttl)) = DCont (dset_title h (strip ttl)).
Proof.
  destruct (kw_record_stripped discus_w_title ttl eq_refl) as [K1 K2].
  change (List.length (kw_of discus_w_title)) with discus_r_title_skip in K2.
  unfold dstep. rewrite K1. cbn. rewrite <- K2. reflexivity.
Qed.

Lemma dstep_spcgr h sg : dstep h (discus_w_spcgr ++ sg) = DCont (dset_spcgr h (List.concat (split_ws sg))).
Proof.
  destruct (kw_record discus_w_spcgr sg eq_refl) as [K1 _].
  unfold dstep. rewrite K1. cbn. reflexivity.
Qed.

Lemma dstep_cell c : exists line, render discus_w_cell (args6 c) = Some line /\
  (forall h, dstep h line = DCont (dset_cell h (q6 discus_w_cell c))) /\ has_char nl line = false /\ has_char cr line = false /\ line <> [].
Proof.
  destruct c as [[[a b] c] [[al be] ga]].
  record discus_w_cell (args6 ((a, b, c), (al, be, ga))) line E T N1 N2. exists line. split; [first [reflexivity | exact E]|].
  destruct (first_word discus_w_cell _ line _ _ eq_refl eq_refl E) as [rest W].
  split; [|line_props N1 N2].
  intros h. unfold dstep. rewrite W, T. cbn. rewrite !fix_body_parse. reflexivity.
Qed.

Lemma dstep_ncell n : exists line, render discus_w_ncell [AInt 1; AInt 1; AInt 1; AInt n] = Some line /\
  (forall h, dstep h line = DCont (dset_ncell h [1%Z; 1%Z; 1%Z; n])) /\ has_char nl line = false /\ has_char cr line = false /\ line <> [].
Proof.
  record discus_w_ncell [AInt 1; AInt 1; AInt 1; AInt n] line E T N1 N2. exists line. split; [first [reflexivity | exact E]|].
  destruct (first_word discus_w_ncell _ line _ _ eq_refl eq_refl E) as [rest W].
  split; [|line_props N1 N2].
  intros h. unfold dstep. rewrite W, T. cbn. rewrite !int_body_parse. reflexivity.
Qed.

Lemma dstep_atoms h : dstep h discus_w_atoms = DBreak h.
Proof. reflexivity. Qed.

(* a literal prefix that ends with whitespace, followed by one token *)
Lemma split_lit_tok L b : ends_ws L = true -> no_ws b = true -> b <> [] -> split_ws (L ++ b) = split_ws L ++ [b].
Proof. intros H1 H2 H3. rewrite split_app by (right; left; exact H1). rewrite (split_tok _ H2 H3). reflexivity. Qed.

(* c1 :: c2 :: ... :: b  ==>  [c1; c2; ...] ++ b  under split_ws *)
Ltac app_form b :=
  match goal with |- context [split_ws ?X] =>
    let rec pre t := lazymatch t with
                     | b => constr:(@nil ascii)
                     | ?c :: ?r => let p := pre r in constr:(c :: p)
                     end in
    let L := pre X in change X with (L ++ b) end.

Lemma dstep_shape_gen spec (setf : dhdr -> dec -> dhdr) v :
  (spec = discus_w_sphere /\ setf = dset_sphere) \/ (spec = discus_w_stepcut /\ setf = dset_stepcut) ->
  gen_ok (gprec spec 0) v = true ->
  exists line, render spec [ANum v] = Some line /\ (forall h, dstep h line = DCont (setf h (gqd (gprec spec 0) v))) /\
               has_char nl line = false /\ has_char cr line = false /\ line <> [].
Proof.
  intros Hs G. destruct (gen_ok_print _ _ G) as [b [Pb [_ Fb]]].
  assert (tok_ok b) as [B1 [B2 B3]].
  { apply (field_body_ok (FGen (gprec spec 0)) (ANum v) b eq_refl). exact Pb. }
  destruct Hs as [[-> ->]|[-> ->]].
  - cbn in Pb, Fb |- *.
    destruct (render discus_w_sphere [ANum v]) as [line|] eqn:E; [|exfalso; cbn in E; rewrite Pb in E; discriminate].
    pose proof (render_split discus_w_sphere [ANum v] line eq_refl eq_refl E) as T. cbn in T. rewrite Pb in T. cbn in T. injection T as T. symmetry in T.
    pose proof (render_no_char nl discus_w_sphere [ANum v] line eq_refl eq_refl eq_refl eq_refl E) as N1.
    pose proof (render_no_char cr discus_w_sphere [ANum v] line eq_refl eq_refl eq_refl eq_refl E) as N2.
    exists line. split; [exact E|]. split; [|split; [exact N1|split; [exact N2|]]].
    + intros h. unfold dstep. rewrite T. cbn -[split_ws].
      change (map c2s_char b) with (c2s b). rewrite (c2s_id _ B3). app_form b.
      match goal with |- context [split_ws (?L ++ b)] => rewrite (split_lit_tok L b eq_refl B1 B2) end.
      cbn. rewrite Fb. reflexivity.
    + intros ->. cbn in E. rewrite Pb in E. discriminate.
  - cbn in Pb, Fb |- *.
    destruct (render discus_w_stepcut [ANum v]) as [line|] eqn:E; [|exfalso; cbn in E; rewrite Pb in E; discriminate].
    pose proof (render_split discus_w_stepcut [ANum v] line eq_refl eq_refl E) as T. cbn in T. rewrite Pb in T. cbn in T. injection T as T. symmetry in T.
    pose proof (render_no_char nl discus_w_stepcut [ANum v] line eq_refl eq_refl eq_refl eq_refl E) as N1.
    pose proof (render_no_char cr discus_w_stepcut [ANum v] line eq_refl eq_refl eq_refl eq_refl E) as N2.
    exists line. split; [exact E|]. split; [|split; [exact N1|split; [exact N2|]]].
    + intros h. unfold dstep. rewrite T. cbn -[split_ws].
      change (map c2s_char b) with (c2s b). rewrite (c2s_id _ B3). app_form b.
      match goal with |- context [split_ws (?L ++ b)] => rewrite (split_lit_tok L b eq_refl B1 B2) end.
      cbn. rewrite Fb. reflexivity.
    + intros ->. cbn in E. rewrite Pb in E. discriminate.
Qed.

Lemma first_is_hash_capitalize_upper el : first_is_hash (map upper el) = first_is_hash el.
Proof.
  destruct el as [|c r]; [reflexivity|]. cbn [map first_is_hash]. apply Bool.eqb_prop. revert c. apply ascii_forall. vm_compute. reflexivity.
Qed.

Lemma datom_line a : str_tok_ok (da_el a) = true -> first_is_hash (da_el a) = false ->
  exists line, print_datom a = Some line /\ parse_datom line = Some (Some (canon_datom a)) /\ good_line line.
Proof.
  intros Hel Hh. destruct a as [el [[x y] z] b]. cbn [da_el] in Hel, Hh. unfold print_datom. cbn [da_el da_xyz da_b args3 app].
  assert (forallb arg_ok [AStr (map upper el); ANum x; ANum y; ANum z; ANum b] = true) as Ha
    by (cbn [forallb arg_ok]; rewrite str_tok_ok_map_upper, Hel; reflexivity).
  record_plain discus_w_atom [AStr (map upper el); ANum x; ANum y; ANum z; ANum b] line E T A1 B1 Ha.
  exists line. split; [reflexivity|]. split.
  - unfold parse_datom. rewrite (render_no_comma discus_w_atom _ line eq_refl Ha E), T.
    rewrite first_is_hash_capitalize_upper, Hh. cbn. rewrite !fix_body_parse. cbn. unfold canon_datom. cbn [da_el da_xyz da_b].
    rewrite capitalize_upper. reflexivity.
  - unfold good_line. split; [exact A1|]. split; [exact B1|]. split; [intros ->; cbn in T; discriminate|rewrite T; discriminate].
Qed.

Lemma datoms_lines atoms : forallb (fun a => str_tok_ok (da_el a) && negb (first_is_hash (da_el a))) atoms = true ->
  exists ls, map_opt print_datom atoms = Some ls /\ parse_datoms ls = Some (map canon_datom atoms) /\ Forall good_line ls.
Proof.
  induction atoms as [|a atoms IH]; intros H.
  - exists []. repeat split; constructor.
  - cbn [forallb] in H. apply andb_true_iff in H. destruct H as [Ha Hr]. apply andb_true_iff in Ha. destruct Ha as [H1 H2]. apply negb_true_iff in H2.
    destruct (IH Hr) as [ls [E1 [E2 E3]]]. destruct (datom_line a H1 H2) as [line [P1 [P2 P3]]].
    exists (line :: ls). split; [cbn [map_opt]; rewrite P1, E1; reflexivity|].
    split; [cbn [parse_datoms map]; rewrite P2, E2; reflexivity|constructor; assumption].
Qed.

Lemma dloop_cons h l r h' : dstep h l = DCont h' -> dloop h (l :: r) = dloop h' r.
Proof. intros E. cbn [dloop]. rewrite E. reflexivity. Qed.

Theorem roundtrip_discus St : repr_discus St = true -> exists t, write_discus St = Some t /\ read_discus t = Some (canon_discus St).
Proof.
  unfold repr_discus. intros H. do 4 (apply andb_true_iff in H; destruct H as [H ?]).
  rename H into HT, H3 into HS, H2 into Hsp, H1 into Hst, H0 into HA.
  destruct (line_ok_split _ HT) as [T1 T2]. destruct (line_ok_split _ HS) as [S1 S2].
  destruct St as [ttl sg sph stp cell atoms]. cbn [d_title d_spcgr d_sphere d_stepcut d_cell d_atoms] in *.
  destruct (datoms_lines atoms HA) as [als [A1 [A2 A3]]].
  destruct (dstep_cell cell) as [lce [Ece [Hce [Nce1 [Nce2 Nce3]]]]].
  destruct (dstep_ncell (Z.of_nat (List.length atoms))) as [lnc [Enc [Hnc [Nnc1 [Nnc2 Nnc3]]]]].
  assert (exists lsp, opt_line (dpos sph) (render discus_w_sphere [ANum sph]) = Some lsp /\
            (forall h r, dloop h (lsp ++ r) = dloop (dset_sphere h (canon_shape discus_w_sphere sph)) r \/
                         (dpos sph = false /\ lsp = [])) /\
            Forall (fun l => has_char nl l = false /\ has_char cr l = false /\ l <> []) lsp) as [lsp [Esp [Hspl Nsp]]].
  { unfold shape_ok, canon_shape, opt_line in *. destruct (dpos sph).
    - destruct (dstep_shape_gen discus_w_sphere dset_sphere sph (or_introl (conj eq_refl eq_refl)) Hsp) as [l [E [Hl [N1 [N2 N3]]]]].
      exists [l]. rewrite E. split; [reflexivity|]. split; [intros h r; left; cbn [app]; apply dloop_cons; apply Hl|]. repeat constructor; assumption.
    - exists []. split; [reflexivity|]. split; [intros; right; split; reflexivity|constructor]. }
  assert (exists lst, opt_line (dpos stp) (render discus_w_stepcut [ANum stp]) = Some lst /\
            (forall h r, dloop h (lst ++ r) = dloop (dset_stepcut h (canon_shape discus_w_stepcut stp)) r \/
                         (dpos stp = false /\ lst = [])) /\
            Forall (fun l => has_char nl l = false /\ has_char cr l = false /\ l <> []) lst) as [lst [Est [Hstl Nst]]].
  { unfold shape_ok, canon_shape, opt_line in *. destruct (dpos stp).
    - destruct (dstep_shape_gen discus_w_stepcut dset_stepcut stp (or_intror (conj eq_refl eq_refl)) Hst) as [l [E [Hl [N1 [N2 N3]]]]].
      exists [l]. rewrite E. split; [reflexivity|]. split; [intros h r; left; cbn [app]; apply dloop_cons; apply Hl|]. repeat constructor; assumption.
    - exists []. split; [reflexivity|]. split; [intros; right; split; reflexivity|constructor]. }
  set (ltitle := strip (discus_w_title ++ ttl)).
  set (lines := [ltitle; discus_w_spcgr ++ sg] ++ lsp ++ lst ++ [lce; lnc; discus_w_atoms] ++ als).
  assert (print_discus (DStru ttl sg sph stp cell atoms) = Some lines) as EP.
  { unfold print_discus. cbn [d_title d_spcgr d_sphere d_stepcut d_cell d_atoms].
    rewrite Esp, Est, Ece, Enc, A1. cbn [option_map concat_opt fold_right app]. unfold lines, ltitle. cbn [app]. rewrite app_nil_r. reflexivity. }
  unfold write_discus. rewrite EP. cbn [option_map]. eexists. split; [reflexivity|]. unfold read_discus.
  assert (has_char nl ltitle = false /\ has_char cr ltitle = false) as [Nt1 Nt2].
  { unfold ltitle. split; apply has_char_strip; apply has_char_kwtext; try assumption; reflexivity. }
  assert (has_char nl (discus_w_spcgr ++ sg) = false /\ has_char cr (discus_w_spcgr ++ sg) = false) as [Ng1 Ng2].
  { split; apply has_char_kwtext; try assumption; reflexivity. }
  assert (good_line discus_w_atoms) as Gat by (unfold good_line; repeat split; try reflexivity; discriminate).
  assert (forallb (fun x => negb (has_char nl x)) lines = true) as NL.
  { unfold lines. rewrite !forallb_app. cbn [forallb]. rewrite Nt1, Ng1, Nce1, Nnc1, (nonl_of_good _ A3).
    assert (forall l, Forall (fun l => has_char nl l = false /\ has_char cr l = false /\ l <> []) l -> forallb (fun x => negb (has_char nl x)) l = true) as K
      by (induction 1 as [|x l0 [K1 _] _ IH]; [reflexivity|cbn; rewrite K1, IH; reflexivity]).
    rewrite (K _ Nsp), (K _ Nst). reflexivity. }
  assert (good_line (last lines [])) as GL.
  { unfold lines. rewrite !app_assoc. destruct als as [|x r] eqn:EC.
    - rewrite app_nil_r. rewrite <- !app_assoc.
      replace ([ltitle; discus_w_spcgr ++ sg] ++ lsp ++ lst ++ [lce; lnc; discus_w_atoms])
        with (([ltitle; discus_w_spcgr ++ sg] ++ lsp ++ lst ++ [lce; lnc]) ++ [discus_w_atoms]) by (rewrite <- !app_assoc; reflexivity).
      rewrite last_last. exact Gat.
    - destruct (@exists_last _ (x :: r) ltac:(discriminate)) as [b [y Ey]]. rewrite Ey, app_assoc, last_last.
      rewrite Ey in A3. apply Forall_app in A3. destruct A3 as [_ A3]. inversion A3. assumption. }
  destruct (good_line_ok _ GL) as [GL1 GL2].
  assert (lines <> []) as Hne by (unfold lines; discriminate).
  destruct lines as [|l0 lrest] eqn:EL; [contradiction|].
  rewrite lines_text_roundtrip_cons by assumption. rewrite <- EL in *. clear EL l0 lrest.
  unfold parse_discus.
  assert (rstrip_lines lines = lines) as ->.
  { destruct (exists_last Hne) as [b [y Ey]]. rewrite Ey in GL2 |- *. rewrite last_last in GL2. apply rstrip_lines_last. exact GL2. }
  unfold lines.
  change ([ltitle; discus_w_spcgr ++ sg] ++ lsp ++ lst ++ [lce; lnc; discus_w_atoms] ++ als)
    with (ltitle :: (discus_w_spcgr ++ sg) :: (lsp ++ lst ++ [lce; lnc; discus_w_atoms] ++ als)).
  rewrite (dloop_cons _ _ _ _ (dstep_title dhdr0 ttl)).
  rewrite (dloop_cons _ _ _ _ (dstep_spcgr _ sg)).
  set (h2 := dset_spcgr _ _).
  assert (exists h4, dloop h2 (lsp ++ lst ++ [lce; lnc; discus_w_atoms] ++ als) = dloop h4 ([lce; lnc; discus_w_atoms] ++ als) /\
                     dh_title h4 = strip ttl /\ dh_spcgr h4 = List.concat (split_ws sg) /\
                     dh_sphere h4 = canon_shape discus_w_sphere sph /\ dh_stepcut h4 = canon_shape discus_w_stepcut stp) as [h4 [E4 [F1 [F2 [F3 F4]]]]].
  { destruct (Hspl h2 (lst ++ [lce; lnc; discus_w_atoms] ++ als)) as [R1|[D1 Z1]];
    [rewrite R1|subst lsp; rewrite app_nil_l; unfold canon_shape; rewrite D1];
    match goal with |- exists h4, dloop ?hh _ = _ /\ _ =>
      destruct (Hstl hh ([lce; lnc; discus_w_atoms] ++ als)) as [R2|[D2 Z2]];
      [rewrite R2|subst lst; rewrite app_nil_l; unfold canon_shape; try rewrite D2] end;
    eexists; (split; [reflexivity|]); cbn; repeat split; reflexivity. }
  rewrite E4. cbn [app].
  rewrite (dloop_cons _ _ _ _ (Hce _)).
  rewrite (dloop_cons _ _ _ _ (Hnc _)).
  cbn [dloop]. rewrite dstep_atoms. cbn [dh_cell dset_ncell dset_cell dh_ncell].
  rewrite A2. cbn [fold_right]. rewrite map_length.
  replace (1 * (1 * (1 * (Z.of_nat (List.length atoms) * 1))))%Z with (Z.of_nat (List.length atoms)) by lia.
  rewrite Z.eqb_refl. cbn [firstn].
  unfold canon_discus. cbn [d_title d_spcgr d_sphere d_stepcut d_cell d_atoms dh_title dh_spcgr dh_sphere dh_stepcut dset_ncell dset_cell].
  rewrite F1, F2, F3, F4. reflexivity.
Qed.

(* ---- canon is idempotent and stays representable ---- *)
Lemma toks_all_no_ws t : Forall (fun x => no_ws x = true) (toks t).
Proof.
  induction t as [|c r IH]; cbn [toks]; [repeat constructor|].
  destruct (is_ws c) eqn:E; [constructor; [reflexivity|exact IH]|].
  destruct (toks r) as [|x xs]; [repeat constructor; cbn; rewrite E; reflexivity|].
  inversion IH; subst. constructor; [cbn; rewrite E; cbn; assumption|assumption].
Qed.

Lemma split_ws_toks_ok t : Forall (fun x => no_ws x = true /\ x <> []) (split_ws t).
Proof.
  unfold split_ws. pose proof (toks_all_no_ws t) as H. induction (toks t) as [|x xs IH]; [constructor|].
  inversion H; subst. cbn [filter]. destruct x as [|c x']; cbn [nonempty]; [apply IH; assumption|].
  constructor; [split; [assumption|discriminate]|apply IH; assumption].
Qed.

Lemma no_ws_app a b : no_ws (a ++ b) = no_ws a && no_ws b.
Proof. apply forallb_app. Qed.

Lemma no_ws_concat l : Forall (fun x => no_ws x = true /\ x <> []) l -> no_ws (List.concat l) = true.
Proof. induction 1 as [|x xs [H1 _] _ IH]; [reflexivity|]. cbn [List.concat]. rewrite no_ws_app, H1, IH. reflexivity. Qed.

Lemma spcgr_idem sg : List.concat (split_ws (List.concat (split_ws sg))) = List.concat (split_ws sg).
Proof.
  pose proof (split_ws_toks_ok sg) as H. pose proof (no_ws_concat _ H) as N.
  destruct (List.concat (split_ws sg)) as [|c r] eqn:E; [reflexivity|].
  rewrite split_tok by (try exact N; discriminate). cbn. rewrite app_nil_r. reflexivity.
Qed.

Lemma canon_datom_idem a : canon_datom (canon_datom a) = canon_datom a.
Proof. unfold canon_datom. cbn [da_el da_xyz da_b]. rewrite capitalize_idem, q3_idem, dq_idem. reflexivity. Qed.

Lemma dshape_prec_pos : (0 < gprec discus_w_sphere 0 /\ 0 < gprec discus_w_stepcut 0)%nat.
Proof. vm_compute. split; lia. Qed.

Lemma canon_idem_discus St : canon_discus (canon_discus St) = canon_discus St.
Proof.
  destruct dshape_prec_pos as [P1 P2]. destruct St as [ttl sg sph stp cell atoms]. unfold canon_discus.
  cbn [d_title d_spcgr d_sphere d_stepcut d_cell d_atoms].
  rewrite strip_idem, spcgr_idem, q6_idem, !canon_shape_idem by assumption. f_equal.
  rewrite map_map. apply map_ext. intros a. apply canon_datom_idem.
Qed.

Lemma first_is_hash_capitalize el : first_is_hash (capitalize el) = first_is_hash el.
Proof.
  destruct el as [|c r]; [reflexivity|]. cbn [capitalize first_is_hash]. apply Bool.eqb_prop. revert c. apply ascii_forall. vm_compute. reflexivity.
Qed.

Lemma repr_canon_discus St : repr_discus St = true -> repr_discus (canon_discus St) = true.
Proof.
  destruct dshape_prec_pos as [P1 P2]. destruct St as [ttl sg sph stp cell atoms]. unfold repr_discus, canon_discus.
  cbn [d_title d_spcgr d_sphere d_stepcut d_cell d_atoms]. intros H.
  do 4 (apply andb_true_iff in H; destruct H as [H ?]).
  destruct (line_ok_split _ H) as [T1 T2].
  pose proof (no_ws_concat _ (split_ws_toks_ok sg)) as N.
  unfold line_ok. rewrite (has_char_strip _ _ T1), (has_char_strip _ _ T2).
  rewrite (no_ws_no_char nl _ eq_refl N), (no_ws_no_char cr _ eq_refl N).
  rewrite !shape_ok_canon by assumption. cbn [negb andb].
  rewrite forallb_forall in *. intros a' Hin. apply in_map_iff in Hin. destruct Hin as [a [<- Hin]].
  cbn [canon_datom da_el]. rewrite str_tok_ok_capitalize, first_is_hash_capitalize. apply H0. exact Hin.
Qed.

Definition rt_discus_raw (St : dstru) : option dstru := match write_discus St with Some t => read_discus t | None => None end.
Lemma rt_discus_raw_canon St : repr_discus St = true -> rt_discus_raw St = Some (canon_discus St).
Proof. intros H. destruct (roundtrip_discus St H) as [t [W R]]. unfold rt_discus_raw. rewrite W. exact R. Qed.

(* the view of the re-read structure: Bisoequiv = UtoB * (BtoU * B) in floating point.  [bw] is that
   conversion; the one fact needed is that a value on the printed grid is still printed as itself. *)
Section Link.
  Variable bw : dec -> dec.
  Hypothesis bw_grid : forall b, dq (fprec discus_w_atom 3) (bw (dq (fprec discus_w_atom 3) b)) = dq (fprec discus_w_atom 3) b.

  Definition link_datom (a : datom) : datom := DAtom (da_el a) (da_xyz a) (bw (da_b a)).
  Definition link_discus (St : dstru) : dstru :=
    DStru (d_title St) (d_spcgr St) (d_sphere St) (d_stepcut St) (d_cell St) (map link_datom (d_atoms St)).
  Definition rt_discus (St : dstru) : option dstru := option_map link_discus (rt_discus_raw St).
  Definition canonl_discus (St : dstru) : dstru := link_discus (canon_discus St).

  Lemma rt_discus_canon St : repr_discus St = true -> rt_discus St = Some (canonl_discus St).
  Proof. intros H. unfold rt_discus. rewrite (rt_discus_raw_canon St H). reflexivity. Qed.

  Lemma canonl_idem_discus St : canonl_discus (canonl_discus St) = canonl_discus St.
  Proof.
    destruct dshape_prec_pos as [P1 P2]. destruct St as [ttl sg sph stp cell atoms]. unfold canonl_discus, link_discus, canon_discus.
    cbn [d_title d_spcgr d_sphere d_stepcut d_cell d_atoms].
    rewrite strip_idem, spcgr_idem, q6_idem, !canon_shape_idem by assumption. f_equal.
    rewrite !map_map. apply map_ext. intros a. unfold link_datom, canon_datom. cbn [da_el da_xyz da_b].
    rewrite capitalize_idem, q3_idem, bw_grid. reflexivity.
  Qed.

  Lemma repr_link_discus St : repr_discus (link_discus St) = repr_discus St.
  Proof.
    unfold repr_discus, link_discus. cbn [d_title d_spcgr d_sphere d_stepcut d_atoms]. f_equal.
    induction (d_atoms St) as [|a l IH]; [reflexivity|]. cbn [map forallb]. rewrite IH. reflexivity.
  Qed.

  Lemma repr_canonl_discus St : repr_discus St = true -> repr_discus (canonl_discus St) = true.
  Proof. intros H. unfold canonl_discus. rewrite repr_link_discus. apply repr_canon_discus. exact H. Qed.

  Theorem no_drift_discus St n : repr_discus St = true -> iter_opt rt_discus (S n) St = Some (canonl_discus St).
  Proof.
    intros H. apply (no_drift_gen dstru rt_discus canonl_discus repr_discus); [exact rt_discus_canon|exact repr_canonl_discus| |exact H].
    intros x _. apply canonl_idem_discus.
  Qed.
End Link.
