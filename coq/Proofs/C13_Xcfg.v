(* C13 - P_xcfg raises only the documented errors, for every list of lines. *)
From Coq Require Import List Bool Arith ZArith Lia.
From DS Require Import Base.C13_Exn Gen.C13_ExcSpec Model.C13_Common Model.C13_Xcfg
                       Proofs.C13_ExnLemmas Proofs.C13_Shared.
From Coq Require Import Ascii String.
Import ListNotations.

Section XCFG_proofs.
  Variable V : Type.
  Variable split : string -> list string.
  Variable isblank : string -> bool.
  Variable float_of : string -> res V.
  Variable int_of : string -> res Z.
  Variable first_word_from : nat -> string -> option string.
  Variable aux_match : string -> option (string * nat).
  Variable lat_base_of : list (option V) -> res unit.
  Variable aux_assign : string -> res unit.

  Hypothesis float_kinds : forall s, within [ValueError] (float_of s).
  Hypothesis int_kinds : forall s, within [ValueError] (int_of s).
  Hypothesis lat_base_kinds : forall h, within [LatticeError; ValueError; ZeroDivisionError] (lat_base_of h).
  Hypothesis aux_assign_kinds : forall p, within [IndexError; FormatError] (aux_assign p).

  Definition xcfg_ks : list kind := [IndexError; ValueError; ZeroDivisionError; LatticeError; FormatError].

  Ltac oracle :=
    first [ eapply within_weaken_b; [| apply float_kinds]; reflexivity
          | eapply within_weaken_b; [| apply int_kinds]; reflexivity
          | eapply within_weaken_b; [| apply lat_base_kinds]; reflexivity
          | eapply within_weaken_b; [| apply aux_assign_kinds]; reflexivity
          | apply within_str_head; simpl; tauto
          | apply within_mapM; intros ? ? ].

  Ltac wauto := repeat first [ wstep | oracle ].

  Let header_line := xcfg_header_line V isblank float_of int_of first_word_from aux_match.
  Let header := xcfg_header V isblank float_of int_of first_word_from aux_match.

  Lemma word_from_within : forall n line, within xcfg_ks (word_from first_word_from n line).
  Proof. intros; unfold word_from. destruct (first_word_from n line); simpl; tauto. Qed.

  Lemma char_at_within : forall n line, within xcfg_ks (char_at n line).
  Proof. intros; unfold char_at. destruct (get n line); simpl; tauto. Qed.

  Lemma np_index3_within : forall i, within xcfg_ks (np_index3 i).
  Proof. intros; unfold np_index3. repeat match goal with |- within _ (if ?b then _ else _) => destruct b end; simpl; tauto. Qed.

  Lemma header_line_within : forall st line, within xcfg_ks (header_line st line).
  Proof.
    intros; unfold header_line, xcfg_header_line.
    repeat first
      [ exact I
      | apply word_from_within | apply char_at_within | apply np_index3_within
      | unfold xcfg_ks; oracle
      | match goal with
        | |- within _ (Raise _) => simpl; tauto
        | |- within _ (bind _ _) => apply within_bind; [| intros ? _]
        | |- within _ (if ?b then _ else _) => destruct b
        | |- within _ (match ?x with _ => _ end) => destruct x
        end ].
  Qed.

  Lemma header_within : forall rest st, within xcfg_ks (header st rest).
  Proof.
    induction rest as [| line rest IH]; intros st; simpl; [exact I |].
    apply within_bind; [apply header_line_within |]. intros r _. destruct (snd r); [exact I | apply IH].
  Qed.

  (* the particle count is read before anything else of the header can be *)
  Definition np_first (st : xst V) : Prop := x_np V st = None -> x_a V st = None.

  Lemma header_line_inv : forall st line st' b, header_line st line = Ok (st', b) -> np_first st -> np_first st'.
  Proof.
    intros st line st' b H I0. unfold header_line, xcfg_header_line in H.
    destruct (isblank line); [inversion H; subst; assumption |].
    destruct (str_head line) as [c |]; cbn [bind] in H; [| discriminate].
    destruct (Ascii.eqb c hash_char); [inversion H; subst; assumption |].
    destruct (x_np V st) eqn:Enp.
    - (* already set: it stays set *)
      assert (Hs : x_np V st' = x_np V st \/ st' = st).
      { inv_ok H; inversion H; subst; simpl; auto. }
      destruct Hs as [Hs | Hs]; [| subst; assumption].
      unfold np_first. rewrite Hs, Enp. discriminate.
    - inv_ok H. inversion H; subst. unfold np_first; simpl. discriminate.
  Qed.

  Lemma header_inv : forall rest st st' r, header st rest = Ok (st', r) -> np_first st -> np_first st'.
  Proof.
    induction rest as [| line rest IH]; intros st st' r H I0; simpl in H.
    - inversion H; subst; assumption.
    - unfold header in H; simpl in H. fold header in H.
      destruct (xcfg_header_line V isblank float_of int_of first_word_from aux_match st line) as [[st1 b] |] eqn:E;
        cbn [bind] in H; [| discriminate].
      assert (I1 : np_first st1) by (eapply header_line_inv; [exact E | assumption]).
      simpl in H. destruct b; [inversion H; subst; assumption |]. eapply IH; eassumption.
  Qed.

  Lemma isfloat_within : forall s, within xcfg_ks (Model.C13_Xcfg.isfloat V float_of s).
  Proof.
    intros s; unfold Model.C13_Xcfg.isfloat. specialize (float_kinds s).
    destruct (float_of s) as [v | k]; simpl in *; [exact I |].
    destruct float_kinds as [E | []]; subst; simpl; exact I.
  Qed.

  Lemma assign_within : forall fields aux novel, within xcfg_ks (xcfg_assign V aux_assign fields aux novel).
  Proof.
    intros; unfold xcfg_assign. apply within_foldM. intros [] p _.
    apply within_bind; [apply within_idx; simpl; tauto | intros _ _].
    destruct (String.eqb (snd p) EmptyString); [exact I | unfold xcfg_ks; oracle].
  Qed.

  Lemma data_line_within : forall ec aux novel st line,
    within xcfg_ks (xcfg_data_line V split float_of aux_assign ec aux novel st line).
  Proof.
    intros; unfold xcfg_data_line.
    apply within_bind.
    { destruct (Nat.eqb (List.length (split line)) 1); [| exact I].
      apply within_bind; [apply within_idx; simpl; tauto | intros; apply isfloat_within]. }
    intros sf _. destruct sf; [exact I |].
    destruct (Nat.leb (List.length (split line)) 1); [exact I |].
    match goal with |- within _ (if ?b then _ else _) => destruct b end; [| simpl; tauto].
    apply within_bind; [unfold xcfg_ks; oracle; oracle | intros fields _].
    apply within_bind; [apply assign_within | intros; exact I].
  Qed.

  Lemma body_within : forall lines stop,
    within xcfg_ks (xcfg_body V split isblank float_of int_of first_word_from aux_match lat_base_of aux_assign lines stop).
  Proof.
    intros; unfold xcfg_body.
    apply within_bind; [apply header_within | intros hs Hhs].
    assert (Inv : np_first (fst hs)).
    { destruct hs as [st' r]. eapply header_inv; [exact Hhs |]. unfold np_first; simpl; auto. }
    destruct (negb (forallb (fun b => b) (x_h0set V (fst hs)))); [simpl; tauto |].
    destruct (x_a V (fst hs)) as [a |] eqn:Ea; [| simpl; tauto].
    destruct (x_ecount V (fst hs)) as [ec |]; [| simpl; tauto].
    match goal with |- within _ (if ?b then _ else _) => destruct b end; [simpl; tauto |].
    apply within_bind; [unfold xcfg_ks; oracle | intros _ _].
    apply within_bind; [apply within_foldM; intros; apply data_line_within | intros d _].
    destruct (x_np V (fst hs)) as [np |] eqn:Enp.
    - destruct (negb (Z.eqb (Z.of_nat (xd_n d)) np)); simpl; tauto.
    - exfalso. specialize (Inv Enp). congruence.
  Qed.

  Theorem only_documented_xcfg : forall lines,
    documented (parse_xcfg V split isblank float_of int_of first_word_from aux_match lat_base_of aux_assign lines).
  Proof.
    intros lines. apply within_documented. unfold parse_xcfg, parse_xcfg_gen.
    eapply within_try; [apply body_within | vm_compute; reflexivity | intros k; vm_compute; tauto].
  Qed.
End XCFG_proofs.
