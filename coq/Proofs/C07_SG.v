(* C07 - the three ways of naming the symmetry lead to the same group:
     the operator list of a tabulated setting in any spelling of all_styles  -> FindSpaceGroup returns that setting,
     its table number as text                                               -> GetSpaceGroup returns a setting with the same operations,
     its short / full Hermann-Mauguin symbol, when only one setting carries it -> likewise.
   Finite parts are decided by the kernel over the regenerated tables and lookup code (C11's definitions). *)
From Coq Require Import ZArith List Bool String Permutation.
From DS Require Import Base.ZMat Base.SGDefs Base.C09_GNum Model.GroupCheck Model.C11_LookupDefs Model.C11_Checks Gen.SGTables Gen.LookupSpec.
From DS Require Import Proofs.C03All Proofs.C11_Lookup Proofs.C11_DecMisc.
From DS Require Import Model.C07_Text Model.C07_SymopText Model.C07_SpecDefs Gen.C07_CifSpec Model.C07_CifRead Model.C07_Pre Proofs.C07_Roundtrip.
Import ListNotations.
Open Scope Z_scope.

(* the precomputed tables used when the model is run are the ones the theorems speak about *)
Lemma fpt_eq : fpt = fp_table all_settings.
Proof. vm_compute. reflexivity. Qed.
Lemma find_fast_eq ops : find_fast ops = find_space_group all_settings ops.
Proof. unfold find_fast, find_space_group. rewrite fpt_eq. reflexivity. Qed.
Lemma Tb_fast_eq : the_table = Some Tb_fast.
Proof. vm_compute. reflexivity. Qed.

(* ---------- operator lists ---------- *)
Lemma parse_ops_render st : forall l, (forall o, In o l -> parse_symop (render st o) = Some o) ->
  parse_ops (map (render st) l) = Ok l.
Proof.
  induction l as [|o l IH]; intros H; [reflexivity|]. cbn [map parse_ops].
  pose proof (H o (or_introl eq_refl)) as Ho. unfold parse_symop in Ho.
  destruct (get_symop (render st o)) as [p|]; [|discriminate]. rewrite Ho.
  rewrite IH; [reflexivity|]. intros o' Ho'. apply H. right. exact Ho'.
Qed.

Theorem ops_route Tb b s st : In s all_settings -> In st all_styles -> op_texts b = map (render st) (sg_ops s) ->
  resolve_sg (find_space_group all_settings) Tb b = Ok (FromOps s, sg_ops s).
Proof.
  intros Hs Hst Hb. unfold resolve_sg. rewrite Hb.
  rewrite (parse_ops_render st (sg_ops s)) by (intros o Ho; apply (symop_text_roundtrip s); assumption).
  cbn [bind].
  destruct (find_complete s (sg_ops s) Hs (Permutation_refl _)) as [fl Hf].
  pose proof (find_sound all_settings (sg_ops s) s fl Hf) as [_ [_ Hfl]].
  assert (fl = true) by (apply Hfl; reflexivity). subst fl.
  pose proof (all_groups s Hs) as Hg. destruct Hg as [Hid _ _ _ _].
  destruct (sg_ops s) as [|o os] eqn:Eo; [discriminate|]. rewrite Hf. cbn [bind]. rewrite ?Eo. reflexivity.
Qed.

(* ---------- identifiers ---------- *)
Fixpoint ops_eqb (a b : list symop) : bool :=
  match a, b with [], [] => true | x :: r, y :: s => op_eqb x y && ops_eqb r s | _, _ => false end.
Lemma ops_eqb_eq a : forall b, ops_eqb a b = true -> a = b.
Proof.
  induction a as [|x a IH]; intros [|y b] H; try discriminate; [reflexivity|].
  cbn in H. apply andb_true_iff in H as [H1 H2]. apply op_eqb_eq in H1. subst. f_equal. apply IH. exact H2.
Qed.
Definition same_group (s' s : setting) : bool := ops_eqb (sg_ops s') (sg_ops s) && (sg_number s' =? sg_number s).
Definition id_ok (T : table) (id : string) (s : setting) : bool :=
  match get_space_group T (KStr id) with Some s' => same_group s' s | None => false end.

Definition n_carrying (name : string) : nat := List.length (filter (fun s => carries s name) all_settings).
Definition name_unique (name : string) : bool := Nat.eqb (n_carrying name) 1.

(* the normalised symbols, computed once *)
Definition norms := Eval vm_compute in map (fun s => (norm_id (sg_short s), norm_id (sg_pdb s))) all_settings.
Lemma norms_eq : norms = map (fun s => (norm_id (sg_short s), norm_id (sg_pdb s))) all_settings.
Proof. vm_compute. reflexivity. Qed.
Definition n_carrying_fast (name : string) : nat :=
  let k := norm_id name in List.length (filter (fun p => String.eqb (fst p) k || String.eqb (snd p) k) norms).
Lemma filter_map_len {A B} (g : A -> B) (f : B -> bool) l : List.length (filter f (map g l)) = List.length (filter (fun x => f (g x)) l).
Proof. induction l as [|x l IH]; [reflexivity|]. cbn [map filter]. destruct (f (g x)); cbn [List.length]; rewrite IH; reflexivity. Qed.
Lemma n_carrying_fast_eq name : n_carrying name = n_carrying_fast name.
Proof. unfold n_carrying, n_carrying_fast. rewrite norms_eq, filter_map_len. reflexivity. Qed.
Definition name_unique_fast (name : string) : bool := Nat.eqb (n_carrying_fast name) 1.
Lemma name_unique_fast_eq name : name_unique name = name_unique_fast name.
Proof. unfold name_unique, name_unique_fast. rewrite n_carrying_fast_eq. reflexivity. Qed.
Lemma number_route_b : forallb (fun s => id_ok Tb_fast (py_str_of_Z (sg_number s)) s) all_settings = true.
Proof. vm_compute. reflexivity. Qed.
Lemma name_route_fast_b :
  forallb (fun s => (negb (name_unique_fast (sg_short s)) || id_ok Tb_fast (sg_short s) s) &&
                    (negb (name_unique_fast (sg_pdb s)) || id_ok Tb_fast (sg_pdb s) s)) all_settings = true.
Proof. vm_compute. reflexivity. Qed.
(* how many settings can be addressed by a symbol of their own *)
Lemma unique_names_count :
  (400 <=? List.length (filter (fun s => name_unique (sg_short s)) all_settings))%nat = true /\
  (400 <=? List.length (filter (fun s => name_unique (sg_pdb s)) all_settings))%nat = true.
Proof.
  assert (H : forall f, filter (fun s => name_unique (f s)) all_settings = filter (fun s => name_unique_fast (f s)) all_settings)
    by (intros f; apply filter_ext; intros s; apply name_unique_fast_eq).
  rewrite !H. split; vm_compute; reflexivity.
Qed.

(* eliminations stated once, so that later proofs never ask the kernel to compare terms containing the big table *)
Lemma number_route_elim s : In s all_settings -> id_ok Tb_fast (py_str_of_Z (sg_number s)) s = true.
Proof. intros Hs. pose proof number_route_b as H. rewrite forallb_forall in H. exact (H s Hs). Qed.
Lemma orb_negb_elim (b x : bool) : b = true -> negb b || x = true -> x = true.
Proof. intros -> H. exact H. Qed.
Lemma name_route_elim s : In s all_settings ->
  (name_unique (sg_short s) = true -> id_ok Tb_fast (sg_short s) s = true) /\
  (name_unique (sg_pdb s) = true -> id_ok Tb_fast (sg_pdb s) s = true).
Proof.
  intros Hs. pose proof name_route_fast_b as H. rewrite forallb_forall in H. specialize (H s Hs). cbv beta in H.
  apply andb_true_iff in H as [H1 H2].
  split; intros Hu; rewrite name_unique_fast_eq in Hu; [exact (orb_negb_elim _ _ Hu H1) | exact (orb_negb_elim _ _ Hu H2)].
Qed.

Lemma id_route T b id s : op_texts b = [] -> sg_identifier b = id -> id <> EmptyString -> id_ok T id s = true ->
  forall find, exists s', resolve_sg find T b = Ok (FromId s', sg_ops s) /\ sg_number s' = sg_number s.
Proof.
  intros Hops Hid Hne Hok find. unfold resolve_sg. rewrite Hops. cbn [parse_ops bind]. rewrite Hid.
  destruct (String.eqb id EmptyString) eqn:Ee; [apply String.eqb_eq in Ee; contradiction|].
  unfold id_ok in Hok. destruct (get_space_group T (KStr id)) as [s'|]; [|discriminate].
  unfold same_group in Hok. apply andb_true_iff in Hok as [H1 H2]. apply ops_eqb_eq in H1. apply Z.eqb_eq in H2.
  exists s'. rewrite H1. split; [reflexivity | exact H2].
Qed.

Lemma str_Z_nonempty z : py_str_of_Z z <> EmptyString.
Proof. unfold py_str_of_Z. destruct (Z.to_int z) as [d|d]; cbn; [|discriminate]. unfold DecimalString.NilZero.string_of_uint. destruct d; discriminate. Qed.

Theorem number_route b s find : In s all_settings -> op_texts b = [] -> sg_identifier b = py_str_of_Z (sg_number s) ->
  exists s', resolve_sg find Tb_fast b = Ok (FromId s', sg_ops s) /\ sg_number s' = sg_number s.
Proof.
  intros Hs Hops Hid. apply (id_route Tb_fast b _ s Hops Hid (str_Z_nonempty _)).
  exact (number_route_elim s Hs).
Qed.

Theorem name_route b s find name : In s all_settings -> (name = sg_short s \/ name = sg_pdb s) -> name_unique name = true ->
  name <> EmptyString -> op_texts b = [] -> sg_identifier b = name ->
  exists s', resolve_sg find Tb_fast b = Ok (FromId s', sg_ops s) /\ sg_number s' = sg_number s.
Proof.
  intros Hs Hn Hu Hne Hops Hid. apply (id_route Tb_fast b name s Hops Hid Hne).
  destruct (name_route_elim s Hs) as [H1 H2]. destruct Hn as [->| ->]; [exact (H1 Hu) | exact (H2 Hu)].
Qed.

(* ---------- the reader does not care which way the group was named ---------- *)
Section Same.
Context {T : Type} (E : env (T:=T)).
Definition same_data (b b' : block) : Prop := b_cell b' = b_cell b /\ b_site b' = b_site b /\ b_aniso b' = b_aniso b.

Lemma read_cif_same_group find find' Tb Tb' b b' x x' G : same_data b b' ->
  resolve_sg find Tb b = Ok (x, G) -> resolve_sg find' Tb' b' = Ok (x', G) ->
  match read_cif E find Tb b, read_cif E find' Tb' b' with
  | Ok r, Ok r' => r_atoms r' = r_atoms r /\ r_group r' = r_group r /\ r_parents r' = r_parents r /\ r_cell r' = r_cell r
  | Err e, Err e' => e = e'
  | _, _ => False
  end.
Proof.
  intros [H1 [H2 H3]] Hr Hr'. unfold read_cif, read_typed. rewrite H1, H2, H3, Hr, Hr'.
  destruct (cell_numbers E (b_cell b)) as [cn|]; [|reflexivity]. cbn [bind].
  destruct (read_site_loop E (type_loop E (b_site b))) as [st0|]; [|reflexivity]. cbn [bind].
  destruct (read_aniso_loop E st0 (option_map (type_loop E) (b_aniso b))) as [st|]; [|reflexivity]. cbn [bind fst snd r_atoms r_group r_parents r_cell].
  repeat split; reflexivity.
Qed.
End Same.

(* operator list (any spelling) versus table number versus unique symbol, for every tabulated setting *)
Theorem ops_vs_name_vs_number {T : Type} (E : env (T:=T)) s st b_ops b_id :
  In s all_settings -> In st all_styles -> same_data b_ops b_id ->
  op_texts b_ops = map (render st) (sg_ops s) ->
  op_texts b_id = [] ->
  (sg_identifier b_id = py_str_of_Z (sg_number s) \/
   (sg_identifier b_id <> EmptyString /\ name_unique (sg_identifier b_id) = true /\
    (sg_identifier b_id = sg_short s \/ sg_identifier b_id = sg_pdb s))) ->
  match read_cif E (find_space_group all_settings) Tb_fast b_ops, read_cif E (find_space_group all_settings) Tb_fast b_id with
  | Ok r, Ok r' => r_atoms r' = r_atoms r /\ r_group r' = sg_ops s /\ r_group r = sg_ops s /\ r_parents r' = r_parents r /\ r_cell r' = r_cell r
  | Err e, Err e' => e = e'
  | _, _ => False
  end.
Proof.
  intros Hs Hst Hd Hops Hno Hid.
  pose proof (ops_route Tb_fast b_ops s st Hs Hst Hops) as R1.
  assert (R2 : exists s', resolve_sg (find_space_group all_settings) Tb_fast b_id = Ok (FromId s', sg_ops s) /\ sg_number s' = sg_number s).
  { destruct Hid as [Hid|[Hne [Hu Hn]]]; [apply number_route; assumption|].
    apply (name_route b_id s _ (sg_identifier b_id)); try assumption; reflexivity. }
  destruct R2 as [s' [R2 _]].
  pose proof (read_cif_same_group E _ _ _ _ b_ops b_id _ _ _ Hd R1 R2) as H.
  destruct (read_cif E (find_space_group all_settings) Tb_fast b_ops) as [r|e] eqn:E1,
           (read_cif E (find_space_group all_settings) Tb_fast b_id) as [r'|e'] eqn:E2; try exact H.
  destruct H as [A [B [Cc Dd]]]. repeat split; try assumption.
  - rewrite B. unfold read_cif, read_typed in E1. rewrite R1 in E1.
    destruct (cell_numbers E (b_cell b_ops)); [|discriminate]. cbn [bind] in E1.
    destruct (read_site_loop E (type_loop E (b_site b_ops))) as [st0|]; [|discriminate]. cbn [bind] in E1.
    destruct (read_aniso_loop E st0 (option_map (type_loop E) (b_aniso b_ops))); [|discriminate]. cbn [bind] in E1.
    injection E1 as E1. subst r. reflexivity.
  - unfold read_cif, read_typed in E1. rewrite R1 in E1.
    destruct (cell_numbers E (b_cell b_ops)); [|discriminate]. cbn [bind] in E1.
    destruct (read_site_loop E (type_loop E (b_site b_ops))) as [st0|]; [|discriminate]. cbn [bind] in E1.
    destruct (read_aniso_loop E st0 (option_map (type_loop E) (b_aniso b_ops))); [|discriminate]. cbn [bind] in E1.
    injection E1 as E1. subst r. reflexivity.
Qed.
