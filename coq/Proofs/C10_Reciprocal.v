(* Reciprocal cell parameters are those of the reciprocal lattice. *)
From Coq Require Import Reals Lra List.
From DS Require Import Base.RMat Base.Trig Model.LatDefs Model.C01_Spec Model.C10_LatticeHist Gen.LatFormulas.
From DS Require Import Proofs.C01_Lattice Proofs.C10_Base Proofs.C10_Hist.
Open Scope R_scope.

(* Gram matrix of the reciprocal base is the inverse of the metric tensor *)
Lemma rec_gram a b c al be ga r : valid_cell a b c al be ga -> proper_rot r ->
  let L := build a b c al be ga r in
  mmul (mT (l_recbase L)) (mT (mT (l_recbase L))) = minv (l_metrics L).
Proof.
  intros HC HR. cbv zeta. set (L := build a b c al be ga r).
  destruct (det_base a b c al be ga r HC HR) as [_ P]. fold L in P.
  destruct (recbase_inverse a b c al be ga r HC HR) as [E1 E2]. fold L in E1, E2.
  pose proof (base_gram a b c al be ga r HC HR) as G. cbv zeta in G. fold L in G.
  rewrite mT_mT. apply minv_unique.
  - rewrite <- G, det_mmul, det_mT. apply Rgt_not_eq. apply Rmult_lt_0_compat; exact P.
  - rewrite <- G, mmul_assoc, <- (mmul_assoc (mT (l_base L))), <- mT_mmul, E2.
    replace (mT I) with I by (apply mat_eq; reflexivity). rewrite mmul_I_l. exact E1.
Qed.

Lemma detG_pos a b c ca cb cg V : 0 < a -> 0 < b -> 0 < c -> 0 < V ->
  V * V = 1 + 2 * ca * cb * cg - ca * ca - cb * cb - cg * cg ->
  0 < a * a * (b * b * (c * c) - b * c * ca * (c * b * ca)) -
      a * b * cg * (b * a * cg * (c * c) - b * c * ca * (c * a * cb)) +
      a * c * cb * (b * a * cg * (c * b * ca) - b * b * (c * a * cb)).
Proof.
  intros Pa Pb Pc PV HV.
  match goal with |- 0 < ?e => replace e with ((a * b * c) * (a * b * c) * (V * V)) by (rewrite HV; ring) end.
  repeat apply Rmult_lt_0_compat; assumption.
Qed.

Lemma sqrt_of_sq x y : 0 < y -> y * y = x -> sqrt x = y.
Proof. intros Py E. apply sqrt_lem_1; [rewrite <- E; apply Rle_0_sqr | lra | exact E]. Qed.

(* the reciprocal cell parameters are those of the reciprocal lattice *)
Theorem reciprocal_params a b c al be ga r : valid_cell a b c al be ga -> proper_rot r ->
  let L := build a b c al be ga r in let Lr := L_reciprocal L in
  l_a Lr = l_ar L /\ l_b Lr = l_br L /\ l_c Lr = l_cr L /\
  l_ca Lr = l_car L /\ l_cb Lr = l_cbr L /\ l_cg Lr = l_cgr L.
Proof.
  intros HC HR. cbv zeta. pose proof (rec_gram a b c al be ga r HC HR) as RG. cbv zeta in RG.
  set (L := build a b c al be ga r) in *.
  set (W := mT (l_recbase L)) in *.
  assert (D11 : vdot (row1 W) (row1 W) = a11 (minv (l_metrics L))) by (rewrite <- RG; destruct W; reflexivity).
  assert (D22 : vdot (row2 W) (row2 W) = a22 (minv (l_metrics L))) by (rewrite <- RG; destruct W; reflexivity).
  assert (D33 : vdot (row3 W) (row3 W) = a33 (minv (l_metrics L))) by (rewrite <- RG; destruct W; reflexivity).
  assert (D23 : vdot (row2 W) (row3 W) = a23 (minv (l_metrics L))) by (rewrite <- RG; destruct W; reflexivity).
  assert (D13 : vdot (row1 W) (row3 W) = a13 (minv (l_metrics L))) by (rewrite <- RG; destruct W; reflexivity).
  assert (D12 : vdot (row1 W) (row2 W) = a12 (minv (l_metrics L))) by (rewrite <- RG; destruct W; reflexivity).
  change (l_a (L_reciprocal L)) with (sqrt (vdot (row1 W) (row1 W))).
  change (l_b (L_reciprocal L)) with (sqrt (vdot (row2 W) (row2 W))).
  change (l_c (L_reciprocal L)) with (sqrt (vdot (row3 W) (row3 W))).
  change (l_ca (L_reciprocal L)) with (vdot (row2 W) (row3 W) / (sqrt (vdot (row2 W) (row2 W)) * sqrt (vdot (row3 W) (row3 W)))).
  change (l_cb (L_reciprocal L)) with (vdot (row1 W) (row3 W) / (sqrt (vdot (row1 W) (row1 W)) * sqrt (vdot (row3 W) (row3 W)))).
  change (l_cg (L_reciprocal L)) with (vdot (row1 W) (row2 W) / (sqrt (vdot (row1 W) (row1 W)) * sqrt (vdot (row2 W) (row2 W)))).
  rewrite D11, D22, D33, D23, D13, D12. clear D11 D22 D33 D23 D13 D12 RG W.
  unfold L, build, setLatPar; cbv zeta; lat_simpl. clear L.
  abstract_cell HC al be ga.
  pose proof (detG_pos a b c ca cb cg V Pa Pb Pc PV HV) as DG.
  (* bring the metric tensor to one spelling, whatever order of factors the source uses *)
  repeat match goal with |- context [minv (M ?x1 ?x2 ?x3 ?x4 ?x5 ?x6 ?x7 ?x8 ?x9)] =>
    lazymatch constr:(M x1 x2 x3 x4 x5 x6 x7 x8 x9) with
    | M (a * a) (a * b * cg) (a * c * cb) (b * a * cg) (b * b) (b * c * ca) (c * a * cb) (c * b * ca) (c * c) => fail
    | _ => replace (M x1 x2 x3 x4 x5 x6 x7 x8 x9)
             with (M (a * a) (a * b * cg) (a * c * cb) (b * a * cg) (b * b) (b * c * ca) (c * a * cb) (c * b * ca) (c * c)) by (f_equal; ring)
    end end.
  assert (L1 : sqrt (a11 (minv (M (a * a) (a * b * cg) (a * c * cb) (b * a * cg) (b * b) (b * c * ca) (c * a * cb) (c * b * ca) (c * c)))) = sa / (a * V)).
  { apply sqrt_of_sq; [apply Rdiv_lt_0_compat; [lra | apply Rmult_lt_0_compat; lra]|].
    rm_simpl. field_simplify_eq; [sqs; ring | repeat split; lra]. }
  assert (L2 : sqrt (a22 (minv (M (a * a) (a * b * cg) (a * c * cb) (b * a * cg) (b * b) (b * c * ca) (c * a * cb) (c * b * ca) (c * c)))) = sb / (b * V)).
  { apply sqrt_of_sq; [apply Rdiv_lt_0_compat; [lra | apply Rmult_lt_0_compat; lra]|].
    rm_simpl. field_simplify_eq; [sqs; ring | repeat split; lra]. }
  assert (L3 : sqrt (a33 (minv (M (a * a) (a * b * cg) (a * c * cb) (b * a * cg) (b * b) (b * c * ca) (c * a * cb) (c * b * ca) (c * c)))) = sg / (c * V)).
  { apply sqrt_of_sq; [apply Rdiv_lt_0_compat; [lra | apply Rmult_lt_0_compat; lra]|].
    rm_simpl. field_simplify_eq; [sqs; ring | repeat split; lra]. }
  rewrite L1, L2, L3. repeat split.
  - rm_simpl. field_simplify_eq; [sqs; ring | repeat split; lra].
  - rm_simpl. field_simplify_eq; [sqs; ring | repeat split; lra].
  - rm_simpl. field_simplify_eq; [sqs; ring | repeat split; lra].
Qed.
