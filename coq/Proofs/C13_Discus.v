(* C13 - P_discus raises only the documented errors, for every list of lines. *)
From Coq Require Import List Bool Arith ZArith Lia.
From DS Require Import Base.C13_Exn Gen.C13_ExcSpec Model.C13_Common Model.C13_Discus
                       Proofs.C13_ExnLemmas Proofs.C13_Shared.
From Coq Require Import Ascii String.
Import ListNotations.

Section DISCUS_proofs.
  Variable V : Type.
  Variable split : string -> list string.
  Variable split_commas : string -> list string.
  Variable isblank : string -> bool.
  Variable float_of : string -> res V.
  Variable int_of : string -> res Z.
  Variable set_lat_par : list (list V) -> list V -> res unit.
  Variable cell_pars : list (list V) -> list V.
  Variable lattice_of : list V -> res unit.
  Variable mulZ : V -> Z -> res V.

  Hypothesis float_kinds : forall s, within [ValueError] (float_of s).
  Hypothesis int_kinds : forall s, within [ValueError] (int_of s).
  Hypothesis set_lat_par_kinds : forall h l, within [ValueError; ZeroDivisionError] (set_lat_par h l).
  Hypothesis lattice_kinds : forall l, within [ValueError; ZeroDivisionError] (lattice_of l).
  Hypothesis mulZ_kinds : forall v z, within [OverflowError] (mulZ v z).

  Definition discus_ks : list kind := [IndexError; ValueError; ZeroDivisionError; OverflowError; FormatError; NotImplemented].

  Ltac oracle :=
    first [ eapply within_weaken_b; [| apply float_kinds]; reflexivity
          | eapply within_weaken_b; [| apply int_kinds]; reflexivity
          | eapply within_weaken_b; [| apply lattice_kinds]; reflexivity
          | eapply within_weaken_b; [| apply mulZ_kinds]; reflexivity
          | apply within_str_head; simpl; tauto
          | apply within_mapM; intros ? ? ].

  Ltac wauto := repeat first [ wstep | oracle ].

  Lemma cell_within : forall st line, within discus_ks (discus_cell V split_commas float_of set_lat_par st line).
  Proof.
    intros; unfold discus_cell.
    apply within_bind; [unfold discus_ks; oracle; oracle | intros pars _].
    apply within_bind; [| intros; exact I].
    eapply within_try; [apply set_lat_par_kinds | vm_compute; reflexivity | intros k; vm_compute; tauto].
  Qed.

  Lemma shape_within : forall words line, within discus_ks (discus_shape V split_commas float_of words line).
  Proof. intros; unfold discus_shape, discus_ks, Model.C13_Discus.kw. wauto. Qed.

  Lemma record_within : forall st w0 words line,
    within discus_ks (discus_record V split_commas float_of int_of set_lat_par st w0 words line).
  Proof.
    intros; unfold discus_record.
    repeat match goal with
    | |- within _ (if ?b then _ else _) => destruct b eqn:?
    end;
    try exact I;
    try apply cell_within;
    try (apply within_bind; [apply shape_within | intros; exact I]);
    unfold discus_ks; wauto.
  Qed.

  Lemma header_within : forall rest st,
    within discus_ks (discus_header V split split_commas float_of int_of set_lat_par st rest).
  Proof.
    induction rest as [| line rest IH]; intros st; simpl; [exact I |].
    destruct (split line) as [| w0 ws]; [apply IH |].
    apply within_bind; [apply within_str_head; simpl; tauto | intros c _].
    destruct (Ascii.eqb c hash_char); [apply IH |].
    destruct (Model.C13_Discus.kw w0 "atoms"); [exact I |].
    apply within_bind; [apply record_within | intros; apply IH].
  Qed.

  Lemma atom_line_within : forall st line, within discus_ks (discus_atom_line V split_commas float_of st line).
  Proof. intros; unfold discus_atom_line, discus_atom, discus_ks. wauto. Qed.

  Lemma scaled_within : forall pars nc i, within discus_ks (Model.C13_Discus.scaled_edge V mulZ pars nc i).
  Proof. intros; unfold Model.C13_Discus.scaled_edge, discus_ks. wauto. Qed.

  Lemma body_within : forall lines,
    within discus_ks (discus_body V split split_commas isblank float_of int_of set_lat_par cell_pars lattice_of mulZ lines).
  Proof.
    intros; unfold discus_body.
    apply within_bind; [apply trim_blank_within; simpl; tauto | intros stop _].
    apply within_bind; [apply header_within | intros hs _].
    destruct (negb (d_cell_read V (fst hs))); [simpl; tauto |].
    apply within_bind; [apply within_foldM; intros; apply atom_line_within | intros st _].
    match goal with |- within _ (if ?b then _ else _) => destruct b end; [simpl; tauto |].
    match goal with |- within _ (if ?b then _ else _) => destruct b end; [| exact I].
    repeat (apply within_bind; [first [apply scaled_within | unfold discus_ks; oracle] | intros ? _]).
    exact I.
  Qed.

  Theorem only_documented_discus : forall lines,
    documented (parse_discus V split split_commas isblank float_of int_of set_lat_par cell_pars lattice_of mulZ lines).
  Proof.
    intros lines. apply within_documented. unfold parse_discus, parse_discus_gen.
    eapply within_try; [apply body_within | vm_compute; reflexivity | intros k; vm_compute; tauto].
  Qed.
End DISCUS_proofs.
